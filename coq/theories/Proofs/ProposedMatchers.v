(** PROPOSED, UNEXECUTED: what the framework can say about patches/proposed-within-word-matcher-other-shells.diff
    (the three repairs of the bash within-word matcher -- ac67eca stop test, df274e8 accepting states, a54562b
    nonterminal first -- carried over to fish.rs, zsh.rs, pwsh.rs).  The modules [PZ], [PP], [PF] hold the templates
    of [write_subword_fn] that the patch changes or adds and the new [write_accepting_states] line, as
    translator/rs2v.py generates them from the PATCHED sources (copied here, not regenerated: the patch is
    not applied to /repo).  Proved below:
    - every line of the patched matcher templates is still skipped by the specification-side reader or read as
      the same fixed statement as before (the unit lemmas, discharged like those of the current templates:
      closed lines by computation, deep lines by indentation) -- so the skeleton part of C04_embed_{zsh,pwsh,fish}
      goes through with the patched templates;
    - the new accepting-state line of each shell reads back as a statement that carries exactly the accepting
      states ([proposed_accepting_*]); for zsh the whole patched wrapper function is scanned
      ([proposed_zsh_wrapper_scans]).
    The whole-script statement for a patched emitter model is [proposed_embed_statement] (a Definition: it is
    what C04d would state once the patch lands and Model/Emit*.v follow it; tables unchanged, one more
    statement per wrapper). *)
From Coq Require Import DecimalString.
From CG Require Import Base.Prelude Model.Ast Model.Dfa Model.Tpl Model.Quote Model.Tables Model.EmitBash Model.EmitData
     Model.EmitZsh Model.EmitPwsh Model.EmitFish Spec.ShellDQ Spec.ScriptRead Proofs.QuoteRT Proofs.BashCodec Proofs.BashScript
     Proofs.ScriptGen Proofs.ZshCodec Proofs.ZshScript Proofs.PwshCodec Proofs.PwshScript Proofs.FishCodec Proofs.FishScript.
Open Scope string_scope.
Open Scope list_scope.

Module PZ.
Definition write_subword_fn_1 : list seg := [Text "
    declare subword_state=1
    declare char_index=0
    declare matched=0
    while true; do
        if [[ $char_index -ge ${#word} ]]; then
            if [[ $mode != matches || -v ""subword_accepting_states[$subword_state]"" ]]; then
                matched=1
            fi
            break
        fi

        declare subword=${word:$char_index}"].
Definition write_subword_fn_2 : list seg := [Text "
        if [[ $mode = matches && -v ""subword_star_transitions[$subword_state]"" ]]; then
            matched=1
            break
        fi
"].
Definition write_subword_fn_3 : list seg := [Text "
        if [[ -v ""subword_literal_transitions[$subword_state]"" ]]; then
            eval ""declare -A state_transitions=${subword_literal_transitions[$subword_state]}""

            for ((literal_id = 1; literal_id <= $#subword_literals; literal_id++)); do
                declare literal=${subword_literals[$literal_id]}
                if [[ $subword == $literal && -v ""state_transitions[$literal_id]"" ]]; then
                    subword_state=${state_transitions[$literal_id]}
                    char_index=$((char_index + ${#literal}))
                    continue 2
                fi
                if [[ $mode = complete && -v ""state_transitions[$literal_id]"" && $literal == $subword* ]]; then
                    break 2
                fi
                if [[ $subword == $literal* && -v ""state_transitions[$literal_id]"" ]]; then
                    subword_state=${state_transitions[$literal_id]}
                    char_index=$((char_index + ${#literal}))
                    continue 2
                fi
            done
        fi"].
Definition write_subword_fn_4 : list seg := [Text "
        if [[ -v ""subword_compadd_transitions[$subword_state]"" ]]; then
            eval ""local -A state_commands=${subword_compadd_transitions[$subword_state]}""
            for cmd_id in ""${(k)state_commands}""; do
                declare -a compadd_hook_matches=()
                declare compadd_original_type=${${(z)$(type -w compadd)}[2]}
                if [[ ""$compadd_original_type"" == builtin ]]; then
                    function compadd_original () {
                        builtin compadd ""$@""
                    }
                else
                    functions -c compadd compadd_original
                fi
                functions -c compadd_hook compadd
                local matched_prefix=""${word:0:$char_index}""
                IPREFIX=""$matched_prefix"" PREFIX=""$subword"" compadd_hook_swallow=true _"; Hole "command"; Text "_cmd_${cmd_id}
                if [[ ""$compadd_original_type"" == builtin ]]; then
                    unfunction compadd
                else
                    functions -c compadd_original compadd
                    unfunction compadd_original
                fi

                if [[ ${#compadd_hook_matches[@]} -gt 0 ]]; then
                    indexes=($(
                        for ((i = 1; i <= $#compadd_hook_matches; i++)); do
                            printf '%s %s %s\n' $i ""${#compadd_hook_matches[i]}"" ""${compadd_hook_matches[i]}""
                        done | sort -nrk2,2 -rk3 | cut -f1 -d' '
                    ))
                    decreasing_length=()
                    for i in ""${indexes[@]}""; do
                        decreasing_length+=(""${compadd_hook_matches[i]}"")
                    done

                    for candidate in ""${decreasing_length[@]}""; do
                        if [[ $candidate == $subword ]]; then
                            match_len=${#candidate}
                            char_index=$((char_index + match_len))
                            subword_state=${state_commands[$cmd_id]}
                            continue 3
                        fi

                        if [[ $mode = complete && $candidate == $subword* ]]; then
                            break 3
                        fi

                        if [[ $subword == $candidate* ]]; then
                            match_len=${#candidate}
                            char_index=$((char_index + match_len))
                            subword_state=${state_commands[$cmd_id]}
                            continue 3
                        fi
                    done
                fi
            done
        fi
"].
Definition write_subword_fn_5 : list seg := [Text "
        if [[ -v ""subword_command_transitions[$subword_state]"" ]]; then
            eval ""local -A state_commands=${subword_command_transitions[$subword_state]}""
            for cmd_id in ""${(k)state_commands}""; do
                local matched_prefix=""${word:0:$char_index}""
                declare output=$(IPREFIX=""$matched_prefix"" PREFIX=""$completed_prefix"" _"; Hole "command"; Text "_cmd_${cmd_id})
                declare -a candidates=(""${(@f)output}"")
                for ((i = 1; i <= ${#candidates[@]}; i++)); do
                    line=${candidates[$i]}
                    declare parts=(${(@s:	:)line})
                    candidates[$i]=${parts[1]}
                done

                if [[ ${#candidates[@]} -gt 0 ]]; then
                    indexes=($(
                        for ((i = 1; i <= $#candidates; i++)); do
                            printf '%s %s %s\n' $i ""${#candidates[i]}"" ""${candidates[i]}""
                        done | sort -nrk2,2 -rk3 | cut -f1 -d' '
                    ))
                    decreasing_length=()
                    for i in ""${indexes[@]}""; do
                        decreasing_length+=(""${candidates[i]}"")
                    done

                    for candidate in ""${decreasing_length[@]}""; do
                        if [[ $candidate == $subword ]]; then
                            match_len=${#candidate}
                            char_index=$((char_index + match_len))
                            subword_state=${state_commands[$cmd_id]}
                            continue 3
                        fi

                        if [[ $mode = complete && $candidate == $subword* ]]; then
                            break 3
                        fi

                        if [[ $subword == $candidate* ]]; then
                            match_len=${#candidate}
                            char_index=$((char_index + match_len))
                            subword_state=${state_commands[$cmd_id]}
                            continue 3
                        fi
                    done
                fi
            done
        fi
"].
Definition write_accepting_states_0 : list seg := [Text "    declare -A subword_accepting_states=("; Hole "initializer"; Text ")"].
End PZ.

Module PP.
Definition write_subword_fn_0 : list seg := [Text "function _"; Hole "command"; Text "_subword {
    param([string]$mode, [string]$word)

    $subword_state = 0
    $char_index = 0
    $matched = $false
    :outer while ($true) {
        if ($char_index -ge $word.Length) {
            if ($mode -ne 'matches' -Or $accepting_states.ContainsKey($subword_state)) {
                $matched = $true
            }
            break
        }

        $subword = $word.Substring($char_index)"].
Definition write_subword_fn_1 : list seg := [Text "
        if ($mode -eq 'matches' -And $star_transitions.ContainsKey($subword_state)) {
            $matched = $true
            break
        }
"].
Definition write_subword_fn_2 : list seg := [Text "
        if ($literal_transitions.ContainsKey($subword_state)) {
            $state_transitions = $literal_transitions[$subword_state]

            for ($literal_id = 0; $literal_id -lt $literals.Count; $literal_id++) {
                $literal = $literals[$literal_id]
                if ($subword -eq $literal -And $state_transitions.ContainsKey($literal_id)) {
                    $subword_state = $state_transitions[$literal_id]
                    $char_index += $literal.Length
                    continue outer
                }
                if ($mode -eq 'complete' -And $state_transitions.ContainsKey($literal_id) -And $literal.StartsWith($subword, [StringComparison]::OrdinalIgnoreCase)) {
                    break outer
                }
                if ($subword.StartsWith($literal, [StringComparison]::OrdinalIgnoreCase) -And $state_transitions.ContainsKey($literal_id)) {
                    $subword_state = $state_transitions[$literal_id]
                    $char_index += $literal.Length
                    continue outer
                }
            }
        }"].
Definition write_subword_fn_3 : list seg := [Text "
        if ($command_transitions.ContainsKey($subword_state)) {
            $state_transitions = $command_transitions[$subword_state]

            foreach ($cmd_id in $state_transitions.Keys) {
                $output = & ""_"; Hole "command"; Text "_cmd_$cmd_id""
                $decreasing_length = $output | Sort-Object -Property { $_.Length } -Descending
                foreach ($line in $decreasing_length) {
                    if ([string]::IsNullOrWhiteSpace($line)) { continue }
                    $parts = $line -split ""`t"", 2
                    $candidate = $parts[0]
                    $desc = if ($parts.Count -gt 1) { $parts[1] } else { $candidate }

                    if ($candidate -eq $subword) {
                        $char_index += $candidate.Length
                        $subword_state = $state_transitions[$cmd_id]
                        continue outer
                    }

                    if ($mode -eq 'complete' -And $candidate.StartsWith($subword, [StringComparison]::OrdinalIgnoreCase)) {
                        break outer
                    }

                    if ($subword.StartsWith($candidate, [StringComparison]::OrdinalIgnoreCase)) {
                        $char_index += $candidate.Length
                        $subword_state = $state_transitions[$cmd_id]
                        continue outer
                    }
                }
            }
        }"].
Definition write_accepting_states_0 : list seg := [Text "    $accepting_states = @{"; Hole "initializer"; Text "}"].
End PP.

Module PF.
Definition write_subword_fn_1 : list seg := [Text "
    set subword_state 1
    set char_index 1
    set matched 0
    while true
        if test $char_index -gt (string length -- ""$word"")
            if test $mode != matches; or contains -- ""$subword_state"" $subword_accepting_states
                set matched 1
            end
            break
        end

        set subword (string sub --start=$char_index -- ""$word"")"].
Definition write_subword_fn_2 : list seg := [Text "
        if test $mode = matches
            set index (contains --index -- ""$subword_state"" $subword_star_transitions_from)
            if test -n ""$index""
                set matched 1
                break
            end
        end
"].
Definition write_subword_fn_3 : list seg := [Text "
        if set --query subword_literal_transitions_inputs[$subword_state] && test -n $subword_literal_transitions_inputs[$subword_state]
            set inputs (string split ' ' $subword_literal_transitions_inputs[$subword_state])
            set tos (string split ' ' $subword_literal_transitions_tos[$subword_state])

            set stop_matching 0
            set literal_matched 0
            set literal_id 1
            while test $literal_id -le (count $subword_literals)
                set literal $subword_literals[$literal_id]
                if test $subword = $literal
                    set index (contains --index -- ""$literal_id"" $inputs)
                    set subword_state $tos[$index]
                    set literal_len (string length -- ""$literal"")
                    set char_index (math $char_index + $literal_len)
                    set literal_matched 1
                    break
                end
                if test $mode = complete && contains -- ""$literal_id"" $inputs && string match --quiet -- ""$subword*"" $literal
                    set stop_matching 1
                    break
                end
                if string match --quiet -- ""$literal*"" $subword
                    set index (contains --index -- ""$literal_id"" $inputs)
                    set subword_state $tos[$index]
                    set literal_len (string length -- ""$literal"")
                    set char_index (math $char_index + $literal_len)
                    set literal_matched 1
                    break
                end
                set literal_id (math $literal_id + 1)
            end
            if test $stop_matching -ne 0
                break
            end
            if test $literal_matched -ne 0
                continue
            end
        end"].
Definition write_accepting_states_0 : list seg := [Text "    set --global subword_accepting_states "; Hole "initializer"].
End PF.
Open Scope N_scope.

(** ** the patched matcher templates: same fixed statements as the current ones *)
Section Zsh.
Variable command : string.
Hypothesis Hc : name_ok command.
Let Hnl := name_ok_no_nl _ Hc.
Lemma PZ_s1_scans :
  unit_scans_envG Zsh command (EmitZsh.env_cmd command) (sh_nl PZ.write_subword_fn_1)
    [SScalar "subword_state" 1; SScalar "char_index" 0; SScalar "matched" 0].
Proof. unit_tacZ Hnl idtac. Qed.
Lemma PZ_s2_scans : unit_scans_envG Zsh command (EmitZsh.env_cmd command) (sh_nl PZ.write_subword_fn_2) [].
Proof. unit_tacZ Hnl idtac. Qed.
Lemma PZ_s3_scans : unit_scans_envG Zsh command (EmitZsh.env_cmd command) (sh_nl PZ.write_subword_fn_3) [].
Proof. unit_tacZ Hnl idtac. Qed.
Lemma PZ_s4_scans : unit_scans_envG Zsh command (EmitZsh.env_cmd command) (sh_nl PZ.write_subword_fn_4) [].
Proof. unit_tacZ Hnl idtac. Qed.
Lemma PZ_s5_scans : unit_scans_envG Zsh command (EmitZsh.env_cmd command) (sh_nl PZ.write_subword_fn_5) [].
Proof. unit_tacZ Hnl idtac. Qed.
End Zsh.

Section Pwsh.
Variable command : string.
Hypothesis Hc : name_ok command.
Let Hnl := name_ok_no_nl _ Hc.
Lemma PP_s0_scans :
  unit_scans_envG Pwsh command (EmitPwsh.env_cmd command) (PP.write_subword_fn_0 ++ seg_nl)
    [SFunc (append "_" (append command "_subword")); SScalar "subword_state" 0; SScalar "char_index" 0].
Proof. unit_tacP Hnl ltac:(eapply Forall2_cons; [apply (pheader_sem command "_subword" Hc); reflexivity|]). Qed.
Lemma PP_s1_scans : unit_scans_envG Pwsh command (EmitPwsh.env_cmd command) PP.write_subword_fn_1 [].
Proof. unit_tacP Hnl idtac. Qed.
Lemma PP_s2_scans : unit_scans_envG Pwsh command (EmitPwsh.env_cmd command) (sh_nl PP.write_subword_fn_2) [].
Proof. unit_tacP Hnl idtac. Qed.
Lemma PP_s3_scans : unit_scans_envG Pwsh command (EmitPwsh.env_cmd command) (sh_nl PP.write_subword_fn_3) [].
Proof. unit_tacP Hnl idtac. Qed.
End Pwsh.

Section Fish.
Variable command : string.
Hypothesis Hc : name_ok command.
Let Hnl := name_ok_no_nl _ Hc.
Lemma PF_s1_scans :
  unit_scans_envG Fish command (EmitFish.env_cmd command) (sh_nl PF.write_subword_fn_1)
    [SSet "subword_state" None [INum 1]; SSet "char_index" None [INum 1]; SSet "matched" None [INum 0]].
Proof. unit_tacF Hnl idtac. Qed.
Lemma PF_s2_scans : unit_scans_envG Fish command (EmitFish.env_cmd command) (sh_nl PF.write_subword_fn_2) [].
Proof. unit_tacF Hnl idtac. Qed.
Lemma PF_s3_scans : unit_scans_envG Fish command (EmitFish.env_cmd command) (sh_nl PF.write_subword_fn_3) [].
Proof. unit_tacF Hnl idtac. Qed.
End Fish.

(** ** the new data statement: the accepting states of a within-word automaton *)
Definition acc1 (acc : list N) : list (N * N) := map (fun s => (s, 1)) acc.

(** pwsh: [    $accepting_states = @{s=1;...}] *)
Lemma proposed_accepting_pwsh acc :
  reads_asG Pwsh (fmtln PP.write_accepting_states_0 [("initializer", join ";" (map P.pkv (acc1 acc)))])
            (SAssoc "accepting_states" (map (fun p => (fst p, [snd p])) (acc1 acc))).
Proof.
  assert (E : fmtln PP.write_accepting_states_0 [("initializer", join ";" (map P.pkv (acc1 acc)))]
              = ppairs_line "accepting_states" (acc1 acc)) by (unfold ppairs_line; tpl_eq).
  rewrite E. apply preads_pairs. split; [discriminate | reflexivity].
Qed.

(** fish: [    set --global subword_accepting_states s ...] *)
Lemma proposed_accepting_fish acc :
  reads_asG Fish (fmtln PF.write_accepting_states_0 [("initializer", join " " (map sN acc))])
            (SSet "subword_accepting_states" None (map INum acc)).
Proof.
  assert (E : fmtln PF.write_accepting_states_0 [("initializer", join " " (map sN acc))]
              = set_line true "subword_accepting_states" None (map INum acc)).
  { assert (M : map sN acc = map enc_item (map INum acc)) by (rewrite map_map; reflexivity).
    rewrite M. unfold set_line. cbn [idx_text]. generalize (join " " (map enc_item (map INum acc))). intros b. tpl_eq. }
  rewrite E. apply freads_set. split; [split; [discriminate | reflexivity] | reflexivity].
Qed.

(** zsh: [    declare -A subword_accepting_states=([s]=1 ...)] *)
Lemma proposed_accepting_zsh_stmt l rest :
  zsh_stmt (append (zpairs_line "subword_accepting_states" l) rest)
  = Some (SAssoc "subword_accepting_states" (map (fun p => (fst p, [snd p])) l), rest).
Proof.
  unfold zpairs_line. rewrite !append_assoc. unfold zsh_stmt, bz_stmt.
  rewrite alt_skip by (erewrite pbind_lit' by reflexivity; apply pbind_none; reflexivity).
  apply alt_take.
  erewrite pbind_lit' by reflexivity. erewrite pbind_lit' by reflexivity.
  erewrite pbind_some by name_concrete.
  rewrite alt_skip by reflexivity.
  destruct l as [|p l].
  - apply alt_take. Transparent join. reflexivity. Opaque join.
  - rewrite alt_skip.
    2:{ apply pbind_none. unfold lit. Transparent join. destruct l; cbn [map join append strip];
        unfold kv; cbn [append strip Ascii.eqb Bool.eqb]; reflexivity. }
    Opaque join.
    rewrite alt_skip.
    2:{ erewrite pbind_lit' by reflexivity. unfold pbind, sep_by.
        match goal with |- context [br_cell ?X] => assert (E : br_cell X = None) end.
        { Transparent join. destruct l as [|q l]; cbn [map join]; [|rewrite append_assoc]; apply br_cell_on_kv. }
        Opaque join. rewrite E. unfold lit.
        Transparent join. destruct l; cbn [map join append strip]; unfold kv; cbn [append strip Ascii.eqb Bool.eqb]; reflexivity. }
    Opaque join.
    erewrite pbind_lit' by reflexivity. erewrite pbind_some by (apply kv_list; eexists; reflexivity).
    erewrite pbind_lit' by reflexivity. rewrite (pbind_some _ _ _ _ _ (eol_nl rest)). reflexivity.
Qed.

Lemma proposed_accepting_zsh acc :
  reads_asG Zsh (fmtln PZ.write_accepting_states_0 [("initializer", join " " (map kv (acc1 acc)))])
            (SAssoc "subword_accepting_states" (map (fun p => (fst p, [snd p])) (acc1 acc))).
Proof.
  assert (E : fmtln PZ.write_accepting_states_0 [("initializer", join " " (map kv (acc1 acc)))]
              = zpairs_line "subword_accepting_states" (acc1 acc)) by (unfold zpairs_line; tpl_eq).
  rewrite E. split; [discriminate|]. split; [exact I|]. intros rest. apply proposed_accepting_zsh_stmt.
Qed.

(** zsh: the whole patched wrapper function (header, accepting states, the tables, call, end) *)
Definition proposed_zsh_wrapper (command : string) (id : N) (t : tables) (acc : list N) : string :=
  sconcat [ fmtln TplZsh.write_subword_wrapper_fn_0 [("command", command); ("id", sN id)];
            fmtln PZ.write_accepting_states_0 [("initializer", join " " (map kv (acc1 acc)))];
            Z.write_literals "subword_" (t_literals t); Z.write_match_transitions "subword_" t;
            Z.write_completion_tables "subword_" t;
            fmtln TplZsh.write_subword_wrapper_fn_1 [("command", command)]; fmtln TplZsh.write_subword_wrapper_fn_2 [] ].

Lemma proposed_zsh_wrapper_scans command (Hc : name_ok command) id t acc :
  scansE Zsh command (append (proposed_zsh_wrapper command id t acc) nl)
    ([SFunc (fn_name command (append "_subword_" (sN id)))]
     ++ [SAssoc "subword_accepting_states" (map (fun p => (fst p, [snd p])) (acc1 acc))]
     ++ zlits_stmts "subword_" (t_literals t) ++ zmatch_stmts "subword_" t ++ zcompletion_stmts "subword_" t
     ++ [SCall (fn_name command "_subword")] ++ [SEnd]).
Proof.
  destruct (sub_suffix_ok "_subword_" id eq_refl eq_refl) as [S1 S2].
  unfold proposed_zsh_wrapper. cbn [sconcat].
  rewrite ztpl_wrapper_header, ztpl_wrapper_call, ztpl_close_wrapper.
  set (A := (("_" ++ command ++ ("_subword_" ++ sN id) ++ " () {") ++ nl)%string).
  set (F := (("    _" ++ command ++ "_subword" ++ " ""$@""" ++ "") ++ nl)%string).
  set (G := ("}" ++ nl)%string).
  set (B := fmtln PZ.write_accepting_states_0 [("initializer", join " " (map kv (acc1 acc)))]).
  rewrite !append_assoc. cbn [append].
  apply scansE_app; [apply (zheader_scans command Hc _ S1 S2 eq_refl)|].
  apply scansE_app; [apply reads_scans1, proposed_accepting_zsh|].
  apply scansE_app; [apply zlits_scans, pfx_sub|].
  apply scansE_app; [apply zmatch_scans, pfx_sub|].
  apply scansE_app; [apply zcompletion_scans, pfx_sub|].
  apply scansE_app; [apply (zcall_scans command Hc "_subword" eq_refl eq_refl)|].
  rewrite <- (app_nil_r [SEnd]).
  apply scansE_app; [apply (zclose_scans command) | apply (zblank_scans command)].
Qed.

(** ** the whole-script statement for a patched emitter model (stated, not proved: the model follows the code as
    it is).  [script'] is the model of the patched [write_completion_script] (the current one with the patched
    matcher templates and the accepting-state line after every wrapper header); [stmts'] is the current statement
    list with one accepting-state statement after the [SFunc] of every wrapper and shape wrapper.  The tables
    ([alltables], with [a_subaccepting] for the new statement) are those of the current theorem. *)
Definition proposed_embed_statement (sh : shell)
  (script' : string -> string -> N -> needs -> alltables -> list (list N) -> res string)
  (stmts' : string -> N -> needs -> alltables -> list (list N) -> res (list stmt))
  (name_hyp : string -> Prop) (tables_hyp : alltables -> Prop) : Prop :=
  forall command sig start nd a groups s,
    name_hyp command -> no_nl sig = true -> tables_hyp a ->
    Forall (fun c => body_okG sh (match sh with Pwsh => P.cmd_body c | _ => c end)) (a_commands a) ->
    script' command sig start nd a groups = Ok s ->
    exists sts, stmts' command start nd a groups = Ok sts /\ read_stmts sh command s = sts.
