(** Totality and the minimised automata: for every tree the checker returns, the model pipeline
    [from_expr] -> [dfa_from_regex] -> [minimize] produces automata (no panic, no fuel
    exhaustion), the raw automaton satisfies the hypotheses of the C03 theorems, and the minimised
    automaton, with minimised within-word automata, accepts exactly what the tree denotes. *)
From CG Require Import Base.Prelude Model.Ast Model.Dfa Model.Regex Model.Subset Model.Check Model.Minimize Spec.Lang.
From CG Require Import Spec.DfaEquiv Spec.MinimizeSpec.
From CG Require Import Proofs.RxLang Proofs.Glushkov Proofs.Useful Proofs.SubsetStmt Proofs.SubsetConstr Proofs.SubsetFuel.
From CG Require Import Proofs.LangDen Proofs.LangJudge Proofs.FromExpr Proofs.C02Lang Proofs.RegexFuel.
From CG Require Import Proofs.TreeFacts Proofs.CheckTree Proofs.WfTrim.
From CG Require Import Proofs.MinimizeCorrect Proofs.MinimizeTotal.

(** *** The raw automaton satisfies the hypotheses of C03 *)
Theorem wf_trim_from_regex : forall pick fuel submap e pl0 r pl d states,
  alts_nonempty e = true -> Forall regex_good pl0 ->
  from_expr e pl0 = Ok (r, pl) ->
  dfa_from_regex pick fuel submap r = Ok (d, states) ->
  wf d /\ trim d.
Proof.
  intros pick fuel submap e pl0 r pl d states Ha Hp E H.
  destruct (from_expr_good _ _ _ _ Ha E Hp) as [Hg _]. split.
  - eapply dfa_from_regex_wf; eauto.
  - eapply (dfa_from_regex_trim useful_positions); eauto.
Qed.

Lemma wf_trim_pool : forall pick fuel submap rr d states,
  regex_good rr -> dfa_from_regex pick fuel submap rr = Ok (d, states) -> wf d /\ trim d.
Proof.
  intros pick fuel submap rr d states Hg H. split.
  - eapply dfa_from_regex_wf; eauto.
  - eapply (dfa_from_regex_trim useful_positions); eauto.
Qed.

(** *** Minimisation keeps the inputs *)
Lemma minimize_inputs : forall d m, minimize d = Ok m -> d_inputs m = d_inputs d.
Proof.
  intros d m H. unfold minimize in H. apply do_minimize_inv in H.
  destruct H as [h [reps [_ [_ [_ [_ H]]]]]]. simpl in H.
  destruct H as [s' [ts' [accn [_ ->]]]]. reflexivity.
Qed.

Lemma waccepts_same : forall d m, d_inputs m = d_inputs d -> (forall w, accepts m w = accepts d w) ->
  forall v, waccepts m v <-> waccepts d v.
Proof.
  intros d m Hi Ha v. unfold waccepts. rewrite Hi.
  split; intros [ids [H1 H2]]; exists ids; split; auto; [rewrite <- Ha|rewrite Ha]; exact H1.
Qed.

(** the within-word automata handed to the main automaton are the minimised raw automata of the
    pool regexes the oracle names (each built with any pop order) *)
Definition subs_minimised (submap : list (N * N)) (pl : pool) (subs : list dfa) : Prop :=
  forall rid k, assocN rid submap = Some k ->
    exists rr pick fuel sm dk states,
      nthN pl rid = Some rr /\ dfa_from_regex pick fuel sm rr = Ok (dk, states) /\
      minimize dk = Ok (nth (N.to_nat k) subs dead_dfa).

Lemma subs_minimised_ok : forall submap pl subs d,
  Forall regex_good pl -> subs_minimised submap pl subs -> subs_ok submap pl (mkcdfa d subs).
Proof.
  intros submap pl subs d Hp Hs rid k Hk v.
  destruct (Hs rid k Hk) as [rr [pick [fuel [sm [dk [states [Hn [Hd Hm]]]]]]]].
  assert (Hg : regex_good rr).
  { rewrite Forall_forall in Hp. apply Hp. unfold nthN in Hn. eapply nth_error_In; eauto. }
  destruct (wf_trim_pool _ _ _ _ _ _ Hg Hd) as [W T].
  destruct (minimize_correct dk _ W T Hm) as [Hl _].
  unfold sub_dfa. simpl.
  rewrite (waccepts_same dk _ (minimize_inputs _ _ Hm) Hl v).
  rewrite (waccepts_regex_wlang _ _ _ _ _ _ Hd v). unfold pool_wlang. split.
  - intros Hv. eauto.
  - intros [rr' [Hn' Hv]]. congruence.
Qed.

(** C02 after minimisation, including the nested automata: the minimised main automaton with the
    minimised within-word automata accepts exactly what the tree denotes. *)
Theorem C02_minimised_model : forall pick fuel submap e r pl d states subs m,
  alts_nonempty e = true ->
  from_expr e [] = Ok (r, pl) ->
  dfa_from_regex pick fuel submap r = Ok (d, states) ->
  subs_minimised submap pl subs ->
  minimize d = Ok m ->
  forall w, accepts_items (mkcdfa m subs) w <-> denotes e w.
Proof.
  intros pick fuel submap e r pl d states subs m Ha E H Hs Hm w.
  destruct (from_expr_good _ _ _ _ Ha E (Forall_nil _)) as [Hg Hp].
  destruct (wf_trim_pool _ _ _ _ _ _ Hg H) as [W T].
  destruct (minimize_correct d m W T Hm) as [Hl _].
  eapply C02_language_transfer; eauto.
  - eapply subs_minimised_ok; eauto.
  - apply minimize_inputs. exact Hm.
Qed.

(** *** No panic, no fuel exhaustion *)

Lemma do_from_expr_total : forall e s pl, dd_free e = true ->
  exists id t s' pl', do_from_expr e s pl = Ok (id, t, s', pl').
Proof.
  assert (Hch : forall cs, Forall (fun e => forall s pl, dd_free e = true ->
                   exists id t s' pl', do_from_expr e s pl = Ok (id, t, s', pl')) cs ->
                forall s pl, forallb dd_free cs = true ->
                  exists ids ts s' pl', do_children do_from_expr cs s pl = Ok (ids, ts, s', pl')).
  { intros cs HF. induction HF as [|c cs Hc HF IH]; intros s pl Hd; simpl.
    - eauto.
    - simpl in Hd. apply andb_true_iff in Hd. destruct Hd as [H1 H2].
      destruct (Hc s pl H1) as [id [t [s1 [pl1 E1]]]]. rewrite E1. simpl.
      destruct (IH s1 pl1 H2) as [ids [ts [s2 [pl2 E2]]]]. rewrite E2. simpl. eauto. }
  induction e using expr_ind'; intros s pl Hd; simpl in Hd; simpl.
  - eauto.
  - eauto.
  - eauto.
  - destruct (Hch cs H s pl Hd) as [ids [ts [s1 [pl1 E1]]]]. rewrite E1. simpl. eauto.
  - destruct (Hch cs H s pl Hd) as [ids [ts [s1 [pl1 E1]]]]. rewrite E1. simpl. eauto.
  - destruct (IHe s pl Hd) as [id [t [s1 [pl1 E1]]]]. rewrite E1. simpl. eauto.
  - destruct (IHe s pl Hd) as [id [t [s1 [pl1 E1]]]]. rewrite E1. simpl. eauto.
  - discriminate.
  - destruct (Hch cs H s pl Hd) as [ids [ts [s1 [pl1 E1]]]]. rewrite E1. simpl. eauto.
  - destruct (IHe empty_bst pl Hd) as [id [t [s1 [pl1 E1]]]]. rewrite E1. simpl.
    destruct (Regex.pool_intern (finish_regex id t s1) pl1). eauto.
Qed.

Lemma from_expr_total : forall e pl, dd_free e = true -> exists r pl', from_expr e pl = Ok (r, pl').
Proof.
  intros e pl Hd. unfold from_expr.
  destruct (do_from_expr_total e empty_bst pl Hd) as [id [t [s [pl1 E]]]]. rewrite E. simpl. eauto.
Qed.

Lemma find_set_complete : forall S ids, In S (map fst ids) -> exists s, find_set S ids = Some s.
Proof.
  intros S. induction ids as [|[S' s'] ids IH]; intros H; [destruct H|]. simpl.
  destruct (Regex.listN_eqb S' S) eqn:E; [eauto|].
  destruct H as [H|H]; [|auto]. simpl in H. subst S'.
  assert (Regex.listN_eqb S S = true) by (apply listN_eqb_eq; reflexivity). congruence.
Qed.

Lemma process_incl : forall labels fw S xs id st row st1 row1,
  process labels fw S xs id st row = (st1, row1) -> incl (s_ids st) (s_ids st1).
Proof.
  intros labels fw S. induction xs as [|x xs IH]; intros id st row st1 row1 H; simpl in H.
  - inversion H; subst. apply incl_refl.
  - destruct (target labels fw S x) as [|a t].
    + eapply IH; eauto.
    + destruct (find_set (a :: t) (s_ids st)).
      * eapply IH; eauto.
      * apply IH in H. simpl in H. intros z Hz. apply H. apply in_app_iff. auto.
Qed.

Section LoopTotal.
  Variable labels : list inp.
  Variable fw : list (N * list N).
  Variable inputs : list inp.
  Variable start : list N.
  Variable n : nat.
  Hypothesis fw_good : forall p s, In (p, s) fw -> goodset n s.
  Variable pick : nat -> list (list N) -> nat.

  Lemma loop_total : forall fuel step st,
    Inv labels fw inputs start (map fst (s_trans st)) st -> SubsetFuel.good n st ->
    (pow2 (S n) - List.length (s_trans st) < fuel)%nat ->
    exists st', loop labels fw inputs pick fuel step st = Ok st' /\ incl (s_ids st) (s_ids st').
  Proof.
    induction fuel as [|fuel IH]; intros step st HI Hg Hf; [lia|].
    cbn [loop].
    destruct (pop (pick step (s_todo st)) (s_todo st)) as [[Sx rest]|] eqn:Ep;
      [|exists st; split; [reflexivity|apply incl_refl]].
    assert (HS : In Sx (s_todo st)).
    { apply pop_Some in Ep. destruct Ep as [l1 [l2 [Et _]]]. rewrite Et. apply in_app_iff.
      right. left. reflexivity. }
    apply (inv_todo _ _ _ _ _ _ HI) in HS. destruct HS as [s0 [Hs0 _]].
    destruct (find_set_complete Sx (s_ids st)) as [from Ef].
    { change Sx with (fst (Sx, s0)). apply in_map. exact Hs0. }
    rewrite Ef.
    destruct (process labels fw Sx inputs 0 _ []) as [st1 row] eqn:Epr.
    destruct (step_inv labels fw inputs start _ _ _ _ _ _ _ HI Ep Ef Epr) as [HI1 Etr].
    assert (Hg1 : SubsetFuel.good n st1) by (eapply (SubsetFuel.process_good labels fw n fw_good); [|exact Epr]; exact Hg).
    pose proof (process_incl _ _ _ _ _ _ _ _ _ Epr) as Hinc. simpl in Hinc.
    match goal with |- exists st', loop _ _ _ _ _ _ ?x = _ /\ _ => set (st2 := x) in * end.
    assert (Hg2 : SubsetFuel.good n st2) by exact Hg1.
    pose proof (rows_bound labels fw inputs start n st2 HI1 Hg2) as Hb.
    destruct (IH (S step) st2 HI1 Hg2) as [st' [El Hinc']].
    { unfold st2 in *. cbn [s_trans] in *. rewrite app_length in *. cbn [List.length] in *.
      rewrite Etr in *. lia. }
    exists st'. split; [exact El|]. intros z Hz. apply Hinc'. unfold st2. simpl. apply Hinc. exact Hz.
  Qed.
End LoopTotal.

(** the tables of a good regex only mention positions up to its end marker *)
Lemma tsorted_assoc : forall t p s, tsorted t -> In (p, s) t -> assocN p t = Some s.
Proof.
  induction t as [|[k v] t IH]; intros p s Hs Hin; [destruct Hin|]. simpl in Hs. destruct Hs as [Hlt Hs].
  simpl. destruct Hin as [E|Hin].
  - inversion E; subst. rewrite N.eqb_refl. reflexivity.
  - rewrite Forall_forall in Hlt. specialize (Hlt _ Hin). simpl in Hlt.
    destruct (N.eqb p k) eqn:E; [apply N.eqb_eq in E; lia|]. apply IH; auto.
Qed.

Lemma regex_good_bounded : forall r, regex_good r ->
  tables_bounded r (N.of_nat (List.length (r_inputs r))).
Proof.
  intros r [t [Hroot [Hsh [Hors [Hrg Hend]]]]].
  assert (Hpos : forall p, In p (positions (with_end t (r_end r))) -> p <= r_end r).
  { intros p Hp. unfold with_end in Hp. simpl in Hp. try rewrite app_nil_r in Hp.
    apply in_app_iff in Hp. destruct Hp as [Hp|[<-|[]]]; [specialize (Hrg p Hp); lia|lia]. }
  fold (lenN (r_inputs r)). rewrite <- Hend. split.
  - intros p Hp. unfold regex_first in Hp. rewrite Hroot in Hp. apply first_pos in Hp. auto.
  - intros p s q Hin Hq. unfold regex_follow in Hin. rewrite Hroot in Hin.
    assert (Hpq : In (p, q) (followpos (with_end t (r_end r)))).
    { apply follow_table_tin. exists s. split; auto. apply tsorted_assoc; auto.
      unfold follow_table. apply (follow_table_gen _ [] I). }
    apply follow_pos in Hpq. destruct Hpq as [_ Hq']. auto.
Qed.

Theorem dfa_from_regex_total : forall pick fuel submap r,
  regex_good r ->
  (forall rid l sp, In (RSub rid l sp) (r_inputs r) -> assocN rid submap <> None) ->
  (pow2 (S (List.length (r_inputs r))) < fuel)%nat ->
  exists d states, dfa_from_regex pick fuel submap r = Ok (d, states).
Proof.
  intros pick fuel submap r Hg Hsub Hf.
  destruct (regex_good_bounded r Hg) as [Hb1 Hb2].
  set (n := List.length (r_inputs r)) in *.
  unfold dfa_from_regex.
  assert (Hl : exists labels, omap (from_input submap) (r_inputs r) = Ok labels).
  { clear - Hsub. induction (r_inputs r) as [|x l IH]; simpl; [eauto|].
    assert (Hx : exists y, from_input submap x = Ok y).
    { destruct x; simpl; eauto. destruct (assocN rid submap) eqn:E; [eauto|].
      exfalso. apply (Hsub rid l0 sp); [left; reflexivity|exact E]. }
    destruct Hx as [y Hy]. rewrite Hy. simpl.
    destruct IH as [ys Hys]; [intros rid l0 sp Hin; apply (Hsub rid l0 sp); right; exact Hin|].
    rewrite Hys. simpl. eauto. }
  destruct Hl as [labels Hl]. rewrite Hl. cbn [obind]. cbv zeta.
  assert (Hfw : forall p s, In (p, s) (regex_follow r) -> goodset n s).
  { intros p s Hin. split.
    - exact (follow_table_tvals _ p s Hin).
    - intros q Hq. eapply Hb2; eauto. }
  set (st0 := mksst [(regex_first r, first_state_id)] (N.succ first_state_id) [] [regex_first r]).
  destruct (loop_total labels (regex_follow r) (intern_all labels) (regex_first r) n Hfw pick fuel 0%nat st0)
    as [st [El Hinc]].
  - apply Inv_init.
  - intros S s Hin. simpl in Hin. destruct Hin as [E|[]]. inversion E; subst.
    split; [apply firstpos_ssorted|exact Hb1].
  - unfold st0. cbn [s_trans List.length]. lia.
  - fold st0. rewrite El. cbn [obind].
    destruct (find_set_complete (regex_first r) (s_ids st)) as [s0 Ef].
    { change (regex_first r) with (fst (regex_first r, first_state_id)). apply in_map. apply Hinc.
      left. reflexivity. }
    rewrite Ef. eauto.
Qed.

(** *** Everything together, from the checker's output *)
Theorem C02_total_model : forall builtins g sh v,
  from_grammar builtins g sh = Ok v -> grammar_alts_nonempty g = true ->
  exists r pl,
    from_expr (v_expr v) [] = Ok (r, pl) /\
    check_ambiguities r pl <> OutOfFuel /\
    forall pick fuel submap,
      (forall rid l sp, In (RSub rid l sp) (r_inputs r) -> assocN rid submap <> None) ->
      (pow2 (S (List.length (r_inputs r))) < fuel)%nat ->
      exists d states m,
        dfa_from_regex pick fuel submap r = Ok (d, states) /\
        wf d /\ trim d /\
        minimize d = Ok m /\
        (forall ids, accepts m ids = accepts d ids) /\
        trim m /\ pairwise_distinguishable m /\ minimal_size m /\
        forall subs, subs_minimised submap pl subs ->
          forall w, accepts_items (mkcdfa m subs) w <-> denotes (v_expr v) w.
Proof.
  intros builtins g sh v Hv Hga.
  destruct (check_tree builtins g sh v Hv) as [Hdd [_ [_ Halts]]]. specialize (Halts Hga).
  destruct (from_expr_total (v_expr v) [] Hdd) as [r [pl E]].
  exists r, pl. split; [exact E|]. split; [apply check_ambiguities_fuel|].
  intros pick fuel submap Hsub Hf.
  destruct (from_expr_good _ _ _ _ Halts E (Forall_nil _)) as [Hg Hp].
  destruct (dfa_from_regex_total pick fuel submap r Hg Hsub Hf) as [d [states H]].
  destruct (wf_trim_pool _ _ _ _ _ _ Hg H) as [W T].
  destruct (minimize_total d W T) as [m Hm].
  destruct (minimize_correct d m W T Hm) as [Hl [Tm [Pm Mm]]].
  exists d, states, m.
  split; [exact H|]. split; [exact W|]. split; [exact T|]. split; [exact Hm|].
  split; [exact Hl|]. split; [exact Tm|]. split; [exact Pm|]. split; [exact Mm|].
  intros subs Hs w. eapply C02_minimised_model; eauto.
Qed.
