(** L-subset-fuel: with more than [2^(n+1)] units of fuel the work-list loop of
    [Model/Subset.v] never answers [OutOfFuel], where [n] bounds the positions mentioned by the
    tables.  Every stored set of positions is a strictly increasing list over [{0..n}]; there are
    [2^(n+1)] of those, the stored sets are pairwise different, and every iteration gives one more
    stored set its row. *)
From CG Require Import Base.Prelude Model.Ast Model.Dfa Model.Regex Model.Subset
     Proofs.RxLang Proofs.SubsetStmt Proofs.Glushkov Proofs.SubsetConstr.

(** * Strictly increasing lists *)

Fixpoint ssorted (l : list N) : Prop :=
  match l with
  | [] => True
  | x :: r => (forall y, In y r -> x < y) /\ ssorted r
  end.

Lemma ssorted_single : forall x, ssorted [x].
Proof. intros x. cbn. split; [intros y []|exact I]. Qed.

Lemma pins_ssorted : forall x l, ssorted l -> ssorted (pins x l).
Proof.
  induction l as [|z l IH]; cbn [pins]; intros H.
  - apply ssorted_single.
  - destruct H as [Hz Hl].
    destruct (N.ltb_spec x z) as [Hlt|Hge].
    + cbn [ssorted]. split; [|split; assumption].
      intros y [<-|Hy]; [exact Hlt|]. apply Hz in Hy. lia.
    + destruct (N.eqb_spec x z) as [->|Hne].
      * cbn [ssorted]. split; assumption.
      * cbn [ssorted]. split; [|now apply IH].
        intros y Hy. apply pins_In in Hy. destruct Hy as [->|Hy]; [lia|now apply Hz].
Qed.

Lemma punion_ssorted : forall a b, ssorted a -> ssorted (punion a b).
Proof.
  intros a b Ha. unfold punion. induction b as [|y b IH]; cbn [fold_right].
  - exact Ha.
  - now apply pins_ssorted.
Qed.

Lemma firstpos_ssorted : forall t, ssorted (firstpos t).
Proof.
  induction t as [|k p|cs IH|cs IH|c IH] using rx_ind'.
  - exact I.
  - apply ssorted_single.
  - induction IH as [|c cs Hc _ IHcs]; [exact I|].
    rewrite firstpos_cat_cons_eq. destruct (nullable c); [|exact Hc].
    now apply punion_ssorted.
  - induction IH as [|c cs Hc _ IHcs]; [exact I|].
    change (firstpos (XOr (c :: cs))) with (punion (firstpos c) (firstpos (XOr cs))).
    now apply punion_ssorted.
  - exact IH.
Qed.

(** The rows of a follow table are strictly increasing. *)
Definition tvals (t : list (N * list N)) : Prop := forall p s, In (p, s) t -> ssorted s.

Lemma tbl_add_tvals : forall p q t, tvals t -> tvals (tbl_add p q t).
Proof.
  induction t as [|[k s] r IH]; cbn [tbl_add]; intros H.
  - intros p' s' [E|[]]. inversion E; subst. apply ssorted_single.
  - destruct (N.ltb p k).
    + intros p' s' [E|Hin].
      * inversion E; subst. apply ssorted_single.
      * now apply (H p' s').
    + destruct (N.eqb p k).
      * intros p' s' [E|Hin].
        -- inversion E; subst. apply pins_ssorted. eapply H. left. reflexivity.
        -- apply (H p' s'). now right.
      * intros p' s' [E|Hin].
        -- apply (H p' s'). now left.
        -- apply IH with (p := p'); [|exact Hin]. intros a b Hab. apply (H a b). now right.
Qed.

Lemma follow_table_tvals : forall F, tvals (follow_table F).
Proof.
  intros F. unfold follow_table.
  assert (H0 : tvals []) by (intros p s []).
  revert H0. generalize (@nil (N * list N)) as t.
  induction F as [|[a b] F IH]; intros t Ht; cbn [fold_left]; [exact Ht|].
  apply IH. now apply tbl_add_tvals.
Qed.

(** * Counting strictly increasing lists *)

Fixpoint powerset (l : list N) : list (list N) :=
  match l with
  | [] => [[]]
  | x :: r => powerset r ++ map (cons x) (powerset r)
  end.

Lemma powerset_length : forall l, List.length (powerset l) = pow2 (List.length l).
Proof.
  induction l as [|x l IH]; [reflexivity|].
  cbn [powerset List.length pow2]. rewrite app_length, map_length, IH. lia.
Qed.

Lemma powerset_In : forall l, ssorted l ->
  forall s, ssorted s -> (forall q, In q s -> In q l) -> In s (powerset l).
Proof.
  induction l as [|x l IH]; intros Hl s Hs Hin.
  - destruct s as [|y s]; [now left|]. exfalso. apply (Hin y). now left.
  - destruct Hl as [Hx Hl]. cbn [powerset]. apply in_app_iff.
    destruct s as [|y s].
    + left. apply IH; [exact Hl|exact I|intros q []].
    + destruct Hs as [Hy Hs].
      destruct (Hin y (or_introl eq_refl)) as [<-|Hyl].
      * right. apply in_map. apply IH; [exact Hl|exact Hs|].
        intros q Hq. destruct (Hin q (or_intror Hq)) as [<-|H]; [|exact H].
        apply Hy in Hq. lia.
      * left. apply IH; [exact Hl|split; assumption|].
        intros q [<-|Hq]; [exact Hyl|].
        destruct (Hin q (or_intror Hq)) as [<-|H]; [|exact H].
        apply Hy in Hq. apply Hx in Hyl. lia.
Qed.

Definition universe (n : nat) : list N := map N.of_nat (seq 0 (S n)).

Lemma seq_ssorted : forall k a, ssorted (map N.of_nat (seq a k)).
Proof.
  induction k as [|k IH]; intros a; cbn [seq map ssorted]; [exact I|].
  split; [|apply IH].
  intros y Hy. apply in_map_iff in Hy. destruct Hy as [i [<- Hi]].
  apply in_seq in Hi. lia.
Qed.

Lemma universe_In : forall n q, q <= N.of_nat n -> In q (universe n).
Proof.
  intros n q H. unfold universe. apply in_map_iff. exists (N.to_nat q). split.
  - apply Nnat.N2Nat.id.
  - apply in_seq. lia.
Qed.

Lemma universe_length : forall n, List.length (universe n) = S n.
Proof. intros n. unfold universe. now rewrite map_length, seq_length. Qed.

(** A set of positions the loop may store. *)
Definition goodset (n : nat) (s : list N) : Prop :=
  ssorted s /\ forall q, In q s -> q <= N.of_nat n.

Lemma goodset_count : forall n (l : list (list N)),
  NoDup l -> (forall s, In s l -> goodset n s) -> (List.length l <= pow2 (S n))%nat.
Proof.
  intros n l Hnd Hg.
  rewrite <- (universe_length n), <- powerset_length.
  apply NoDup_incl_length; [exact Hnd|].
  intros s Hs. destruct (Hg s Hs) as [H1 H2].
  apply powerset_In; [apply seq_ssorted|exact H1|].
  intros q Hq. apply universe_In. now apply H2.
Qed.

(** * The loop *)

Section LoopFuel.
  Variable labels : list inp.
  Variable fw : list (N * list N).
  Variable inputs : list inp.
  Variable start : list N.
  Variable n : nat.
  Hypothesis fw_good : forall p s, In (p, s) fw -> goodset n s.

  Lemma target_good : forall S x, goodset n (target labels fw S x).
  Proof.
    intros S x. unfold target.
    assert (H0 : goodset n []) by (split; [exact I|intros q []]).
    revert H0. generalize (@nil N) as acc.
    induction S as [|a S IH]; intros acc Hacc; cbn [fold_left]; [exact Hacc|].
    apply IH. destruct (nthN labels a) as [y|]; [|exact Hacc].
    destruct (inp_eqb y x); [|exact Hacc].
    destruct (assocN a fw) as [f|] eqn:Ef; [|exact Hacc].
    apply assocN_Some_In in Ef. apply fw_good in Ef.
    destruct Hacc as [A1 A2], Ef as [F1 F2]. split.
    - now apply punion_ssorted.
    - intros q Hq. apply punion_In in Hq. destruct Hq; auto.
  Qed.

  Definition good (st : sst) : Prop := forall S s, In (S, s) (s_ids st) -> goodset n S.

  Lemma process_good : forall S xs id st row st1 row1,
    good st -> process labels fw S xs id st row = (st1, row1) -> good st1.
  Proof.
    intros S. induction xs as [|x xs IH]; intros id st row st1 row1 Hg H; cbn [process] in H.
    - inversion H; subst. exact Hg.
    - pose proof (target_good S x) as Ht.
      destruct (target labels fw S x) as [|c t].
      + eapply IH; eauto.
      + destruct (find_set (c :: t) (s_ids st)).
        * eapply IH; eauto.
        * eapply IH; [|exact H]. intros S' s' Hin. cbn [s_ids] in Hin.
          apply in_app_iff in Hin. destruct Hin as [Hin|[E|[]]].
          -- eapply Hg; eauto.
          -- inversion E; subst. exact Ht.
  Qed.

  (** There are at most [2^(n+1)] rows. *)
  Lemma rows_bound : forall st,
    Inv labels fw inputs start (map fst (s_trans st)) st -> good st ->
    (List.length (s_trans st) <= pow2 (S n))%nat.
  Proof.
    intros st HI Hg.
    apply Nat.le_trans with (List.length (s_ids st)).
    - rewrite <- (map_length fst (s_trans st)), <- (map_length snd (s_ids st)).
      apply NoDup_incl_length; [apply (inv_nd_trans _ _ _ _ _ _ HI)|].
      intros s Hs. now apply (inv_done _ _ _ _ _ _ HI).
    - rewrite <- (map_length fst (s_ids st)).
      apply goodset_count; [apply (inv_nd_fst _ _ _ _ _ _ HI)|].
      intros S HS. apply in_map_iff in HS. destruct HS as [[S' s] [E Hin]]. cbn in E. subst S'.
      eapply Hg; eauto.
  Qed.

  (** One iteration keeps the invariant (the step of [loop_spec]). *)
  Lemma step_inv : forall st k S rest from st1 row,
    Inv labels fw inputs start (map fst (s_trans st)) st ->
    pop k (s_todo st) = Some (S, rest) ->
    find_set S (s_ids st) = Some from ->
    process labels fw S inputs 0 (mksst (s_ids st) (s_next st) (s_trans st) rest) [] = (st1, row) ->
    Inv labels fw inputs start (map fst (s_trans st1 ++ [(from, row)]))
        (mksst (s_ids st1) (s_next st1) (s_trans st1 ++ [(from, row)]) (s_todo st1)) /\
    s_trans st1 = s_trans st.
  Proof.
    intros st k S rest from st1 row HI Ep Ef Epr.
    apply pop_Some in Ep. destruct Ep as [l1 [l2 [Et ->]]].
    apply find_set_Some in Ef.
    assert (Hnew : ~ In from (map fst (s_trans st))).
    { assert (HS : In S (s_todo st)) by (rewrite Et; apply in_app_iff; right; now left).
      apply (inv_todo _ _ _ _ _ _ HI) in HS. destruct HS as [s [Hs Hnd]].
      assert (s = from)
        by (eapply NoDup_fst_fun; [apply (inv_nd_fst _ _ _ _ _ _ HI)| |]; eauto).
      now subst s. }
    pose proof (Inv_pop _ _ _ _ _ _ _ _ _ _ HI Et Ef) as HI0.
    pose proof (inv_reach _ _ _ _ _ _ HI _ _ Ef) as HS.
    change 0 with (N.of_nat (List.length (@nil inp))) in Epr.
    eapply process_spec in Epr; [|exact HS|reflexivity|exact HI0|].
    - destruct Epr as [R1 [R2 [R3 R4]]]. cbn [s_trans s_ids] in R2, R3.
      apply prow_final in R4. destruct R4 as [R4 R5].
      split; [|exact R2].
      rewrite <- R2 in R1, Hnew.
      apply (Inv_row labels fw inputs start st1 S from row); auto.
    - split; [|split].
      + intros i Hlt. cbn in Hlt. lia.
      + intros i [].
      + constructor.
  Qed.

  Variable pick : nat -> list (list N) -> nat.

  Lemma loop_fuel : forall fuel step st,
    Inv labels fw inputs start (map fst (s_trans st)) st -> good st ->
    (pow2 (S n) - List.length (s_trans st) < fuel)%nat ->
    loop labels fw inputs pick fuel step st <> OutOfFuel.
  Proof.
    induction fuel as [|fuel IH]; intros step st HI Hg Hf; [lia|].
    cbn [loop].
    destruct (pop (pick step (s_todo st)) (s_todo st)) as [[S rest]|] eqn:Ep; [|discriminate].
    destruct (find_set S (s_ids st)) as [from|] eqn:Ef; [|discriminate].
    destruct (process labels fw S inputs 0 _ []) as [st1 row] eqn:Epr.
    destruct (step_inv _ _ _ _ _ _ _ HI Ep Ef Epr) as [HI1 Etr].
    assert (Hg1 : good st1).
    { eapply process_good; [|exact Epr]. exact Hg. }
    match goal with |- loop _ _ _ _ _ _ ?st' <> _ => set (st2 := st') in * end.
    assert (Hg2 : good st2) by exact Hg1.
    pose proof (rows_bound st2 HI1 Hg2) as Hb.
    apply IH; [exact HI1|exact Hg2|].
    unfold st2 in *. cbn [s_trans] in *. rewrite app_length in *. cbn [List.length] in *.
    rewrite Etr in *. lia.
  Qed.
End LoopFuel.

(** * [dfa_from_regex] *)

Lemma omap_not_out_of_fuel : forall {E A B} (f : A -> outcome E B) l,
  (forall x, f x <> OutOfFuel) -> omap f l <> OutOfFuel.
Proof.
  intros E A B f l Hf. induction l as [|x l IH]; cbn [omap]; [discriminate|].
  specialize (Hf x). destruct (f x); cbn [obind]; try discriminate; [|contradiction].
  destruct (omap f l); cbn [obind]; try discriminate. contradiction.
Qed.

Lemma from_input_not_out_of_fuel : forall submap i, from_input submap i <> OutOfFuel.
Proof.
  intros submap [t d l s|a b c|c z l s|rid l s]; cbn [from_input]; try discriminate.
  destruct (assocN rid submap); discriminate.
Qed.

(** all positions mentioned by the tables are at most [n] *)
Definition tables_bounded (r : regex) (n : N) : Prop :=
  (forall p, In p (regex_first r) -> p <= n) /\
  (forall p s q, In (p, s) (regex_follow r) -> In q s -> q <= n).

Theorem dfa_from_regex_fuel : forall pick fuel submap r n,
  tables_bounded r (N.of_nat n) ->
  (pow2 (S n) < fuel)%nat ->
  dfa_from_regex pick fuel submap r <> OutOfFuel.
Proof.
  intros pick fuel submap r n [Hb1 Hb2] Hf. unfold dfa_from_regex.
  pose proof (omap_not_out_of_fuel (from_input submap) (r_inputs r)
                (from_input_not_out_of_fuel submap)) as Ho.
  destruct (omap (from_input submap) (r_inputs r)) as [labels| | |]; cbn [obind];
    try discriminate; [|contradiction].
  match goal with |- context [loop ?a ?b ?c ?d ?e ?f ?g] =>
    pose proof (loop_fuel a b c (regex_first r) n) as Hl end.
  assert (Hfw : forall p s, In (p, s) (regex_follow r) -> goodset n s).
  { intros p s Hin. split.
    - exact (follow_table_tvals _ p s Hin).
    - intros q Hq. eapply Hb2; eauto. }
  specialize (Hl Hfw pick fuel 0%nat
                 (mksst [(regex_first r, first_state_id)] (N.succ first_state_id) []
                        [regex_first r])
                 (Inv_init _ _ _ _ first_state_id)).
  cbn [s_trans List.length] in Hl.
  match type of Hl with ?G -> _ => assert (Hg0 : G) end.
  { intros S s Hin. cbn [s_ids] in Hin. destruct Hin as [E|[]]. inversion E; subst.
    split; [apply firstpos_ssorted|exact Hb1]. }
  specialize (Hl Hg0). rewrite Nat.sub_0_r in Hl. specialize (Hl Hf).
  destruct (loop labels (regex_follow r) (intern_all labels) pick fuel 0 _) as [st| | |];
    cbn [obind]; try discriminate; [|contradiction].
  destruct (find_set (regex_first r) (s_ids st)); discriminate.
Qed.

Print Assumptions dfa_from_regex_fuel.
