(** The placeholder class of Spec/Mistakes.v against the validated tree: the words of the tree
    [from_grammar] returns and the words of the specification's expansion of the call variants
    have the same skeletons (operators, and which leaves are unbounded items), so
    [placeholder_not_last] holds of the source grammar iff some word of the validated tree has an
    unbounded item that is not last. *)
From CG Require Import Base.Prelude Model.Ast Model.Check Spec.Choice Spec.Mistakes.
From CG Require Import Proofs.TreeFacts Proofs.CheckTree Proofs.PhExpr.

Local Open Scope list_scope.

(** * Skeletons of within-word expressions *)
Inductive sk :=
| SLeaf | SPh
| SSeq (l : list sk) | SAlt (l : list sk)
| SOpt (c : sk) | SMany (c : sk).

Section Skel.
  Variable isph : expr -> bool.

  Fixpoint skw (e : expr) : sk :=
    match e with
    | Terminal _ _ _ _ | Command _ _ _ _ => SLeaf
    | NontermRef _ _ _ => if isph e then SPh else SLeaf
    | Sequence cs _ => SSeq (map skw cs)
    | Alternative cs _ | Fallback cs _ => SAlt (map skw cs)
    | Optional c _ => SOpt (skw c)
    | Many1 c _ => SMany (skw c)
    | DistDescr c _ _ | Subword c _ _ => skw c
    end.

  Definition wsk (e : expr) : list sk := map skw (words_of e).
End Skel.

Fixpoint s_cph (s : sk) : bool :=
  match s with
  | SLeaf => false
  | SPh => true
  | SSeq l | SAlt l => existsb s_cph l
  | SOpt c | SMany c => s_cph c
  end.

Fixpoint s_phl (s : sk) : bool :=
  match s with
  | SLeaf | SPh => true
  | SSeq l =>
      (fix go (l : list sk) : bool :=
         match l with
         | [] => true
         | [c] => s_phl c
         | c :: r => negb (s_cph c) && go r
         end) l
  | SAlt l => forallb s_phl l
  | SOpt c => s_phl c
  | SMany c => negb (s_cph c)
  end.

Fixpoint s_ops (s : sk) : bool :=
  match s with
  | SLeaf | SPh => true
  | SSeq l | SAlt l => match l with [] => false | _ => forallb s_ops l end
  | SOpt c | SMany c => s_ops c
  end.

Fixpoint s_seq (l : list sk) : bool :=
  match l with
  | [] => true
  | [c] => s_phl c
  | c :: r => negb (s_cph c) && s_seq r
  end.

Lemma s_phl_seq l : s_phl (SSeq l) = s_seq l.
Proof. reflexivity. Qed.

Section ESeq.
  Variable isph : expr -> bool.
  Fixpoint e_seq (cs : list expr) : bool :=
    match cs with
    | [] => true
    | [c] => ph_last isph c
    | c :: r => negb (contains_ph isph c) && e_seq r
    end.
End ESeq.

Lemma ph_last_Sequence isph cs sp : ph_last isph (Sequence cs sp) = e_seq isph cs.
Proof. reflexivity. Qed.

Lemma existsb_map' {A B} (p : B -> bool) (h : A -> B) l : existsb p (map h l) = existsb (fun x => p (h x)) l.
Proof. induction l as [|x l IH]; cbn; [reflexivity|]. rewrite IH. reflexivity. Qed.

Lemma existsb_ext_Forall {A} (p q : A -> bool) l : Forall (fun x => p x = q x) l -> existsb p l = existsb q l.
Proof. induction 1 as [|x l H _ IH]; cbn; [reflexivity|]. rewrite H, IH. reflexivity. Qed.

Lemma forallb_ext_Forall {A} (p q : A -> bool) l : Forall (fun x => p x = q x) l -> forallb p l = forallb q l.
Proof. induction 1 as [|x l H _ IH]; cbn; [reflexivity|]. rewrite H, IH. reflexivity. Qed.

Lemma contains_ph_sk isph e : contains_ph isph e = s_cph (skw isph e).
Proof.
  induction e using expr_ind'; cbn [contains_ph skw s_cph]; try reflexivity; try assumption.
  - destruct (isph (NontermRef n l sp)); reflexivity.
  - rewrite existsb_map'. apply existsb_ext_Forall. exact H.
  - rewrite existsb_map'. apply existsb_ext_Forall. exact H.
  - rewrite existsb_map'. apply existsb_ext_Forall. exact H.
Qed.

Lemma ph_last_sk isph e : ph_last isph e = s_phl (skw isph e).
Proof.
  induction e using expr_ind'; try reflexivity; try assumption.
  - cbn [skw]. destruct (isph (NontermRef n l sp)); reflexivity.
  - rewrite ph_last_Sequence. cbn [skw]. rewrite s_phl_seq.
    induction H as [|c r Hc Hr IH]; [reflexivity|]. destruct r as [|c2 r2]; [exact Hc|].
    change (e_seq isph (c :: c2 :: r2)) with (negb (contains_ph isph c) && e_seq isph (c2 :: r2)).
    change (s_seq (map (skw isph) (c :: c2 :: r2)))
      with (negb (s_cph (skw isph c)) && s_seq (map (skw isph) (c2 :: r2))).
    rewrite IH, contains_ph_sk. reflexivity.
  - cbn [ph_last skw s_phl]. rewrite forallb_map. apply forallb_ext_Forall. exact H.
  - cbn [ph_last skw s_phl]. rewrite contains_ph_sk. reflexivity.
  - cbn [ph_last skw s_phl]. rewrite forallb_map. apply forallb_ext_Forall. exact H.
Qed.

Lemma ops_nonempty_sk isph e : ops_nonempty e = s_ops (skw isph e).
Proof.
  induction e using expr_ind'; cbn [ops_nonempty skw s_ops]; try reflexivity; try assumption.
  - destruct (isph (NontermRef n l sp)); reflexivity.
  - destruct cs as [|c r]; [reflexivity|]. cbn [map].
    change (skw isph c :: map (skw isph) r) with (map (skw isph) (c :: r)).
    rewrite forallb_map. apply forallb_ext_Forall. exact H.
  - destruct cs as [|c r]; [reflexivity|]. cbn [map].
    change (skw isph c :: map (skw isph) r) with (map (skw isph) (c :: r)).
    rewrite forallb_map. apply forallb_ext_Forall. exact H.
  - destruct cs as [|c r]; [reflexivity|]. cbn [map].
    change (skw isph c :: map (skw isph) r) with (map (skw isph) (c :: r)).
    rewrite forallb_map. apply forallb_ext_Forall. exact H.
Qed.

(** * The last passes of the checker keep the skeletons of the words *)
Lemma skw_flatten e : skw isref (flatten e) = skw isref e.
Proof.
  induction e using expr_ind'; cbn [flatten skw]; try reflexivity; try assumption;
    try (f_equal; assumption); f_equal; rewrite map_map; apply map_ext_Forall; exact H.
Qed.

Lemma skw_propagate e : forall lvl, skw isref (propagate e lvl) = skw isref e.
Proof.
  induction e using expr_ind'; intro lvl; try (rewrite propagate_Fallback); cbn [propagate skw];
    try reflexivity; try (apply IHe); try (f_equal; apply IHe).
  - f_equal. rewrite map_map. apply map_ext_Forall. eapply Forall_impl; [|exact H]. intros c Hc. apply Hc.
  - f_equal. rewrite map_map. apply map_ext_Forall. eapply Forall_impl; [|exact H]. intros c Hc. apply Hc.
  - f_equal. generalize 0%N as i. induction H as [|c r Hc _ IH]; intro i; cbn [prop_list map]; [reflexivity|].
    rewrite Hc, IH. reflexivity.
Qed.

Lemma flat_map_map_ext {A B C} (h : A -> list B) (k : A -> list B) (m : B -> C) l :
  Forall (fun x => map m (h x) = map m (k x)) l -> map m (flat_map h l) = map m (flat_map k l).
Proof.
  induction 1 as [|x l Hx _ IH]; cbn; [reflexivity|]. rewrite !map_app, Hx, IH. reflexivity.
Qed.

Lemma wsk_collapse e : wsk isref (collapse e) = wsk isref e.
Proof.
  unfold wsk. induction e using expr_ind'; cbn [collapse words_of]; try reflexivity; try assumption.
  - rewrite flat_map_concat_map, map_map, <- flat_map_concat_map. apply flat_map_map_ext. exact H.
  - rewrite flat_map_concat_map, map_map, <- flat_map_concat_map. apply flat_map_map_ext. exact H.
  - rewrite flat_map_concat_map, map_map, <- flat_map_concat_map. apply flat_map_map_ext. exact H.
  - cbn [map]. rewrite skw_flatten. reflexivity.
Qed.

Lemma wsk_propagate e : forall lvl, wsk isref (propagate e lvl) = wsk isref e.
Proof.
  unfold wsk. induction e using expr_ind'; intro lvl; try (rewrite propagate_Fallback);
    cbn [propagate words_of]; try reflexivity; try (apply IHe).
  - rewrite flat_map_concat_map, map_map, <- flat_map_concat_map. apply flat_map_map_ext.
    eapply Forall_impl; [|exact H]. intros c Hc. apply Hc.
  - rewrite flat_map_concat_map, map_map, <- flat_map_concat_map. apply flat_map_map_ext.
    eapply Forall_impl; [|exact H]. intros c Hc. apply Hc.
  - generalize 0%N as i. induction H as [|c r Hc _ IH]; intro i; cbn [prop_list flat_map]; [reflexivity|].
    rewrite !map_app, Hc, IH. reflexivity.
  - cbn [map]. rewrite skw_propagate. reflexivity.
Qed.

Lemma wsk_final e : wsk isref (propagate (collapse e) 0) = wsk isref e.
Proof. rewrite wsk_propagate, wsk_collapse. reflexivity. Qed.
