(** C04, bash: every printer of a data statement in [Model/EmitBash.v] is read back by the
    statement reader of [Spec/ScriptRead.v] (codec style: the leaves are decimal numbers, bracket
    pairs and C07's string constants; lists by [sep_by]). *)
From Coq Require Import DecimalString DecimalN DecimalPos DecimalFacts.
From CG Require Import Base.Prelude Model.Ast Model.Dfa Model.Tpl Model.Quote Model.Tables Model.EmitBash
     Spec.ShellDQ Spec.ScriptRead Proofs.QuoteRT.
From CGgen Require Import Consts TplBash.
Open Scope N_scope.
Open Scope list_scope.

(** ** leaves *)
Lemma strip_app p r : strip p (append p r) = Some r.
Proof. induction p; cbn; [reflexivity|]. rewrite Ascii.eqb_refl. exact IHp. Qed.

Lemma lit_app p r : lit p (append p r) = Some (tt, r).
Proof. unfold lit. rewrite strip_app. reflexivity. Qed.

Definition no_digit_head (r : string) : Prop :=
  match r with String c _ => is_digit c = false | EmptyString => True end.

Lemma take_digits_uint_ne d r :
  no_digit_head r ->
  take_while is_digit (append (NilEmpty.string_of_uint d) r) = (NilEmpty.string_of_uint d, r).
Proof.
  intros Hr. induction d; cbn [NilEmpty.string_of_uint append].
  - destruct r as [|c t]; [reflexivity|]. cbn in Hr. cbn. rewrite Hr. reflexivity.
  - cbn [take_while]. change (is_digit "0"%char) with true. cbn iota. rewrite IHd. reflexivity.
  - cbn [take_while]. change (is_digit "1"%char) with true. cbn iota. rewrite IHd. reflexivity.
  - cbn [take_while]. change (is_digit "2"%char) with true. cbn iota. rewrite IHd. reflexivity.
  - cbn [take_while]. change (is_digit "3"%char) with true. cbn iota. rewrite IHd. reflexivity.
  - cbn [take_while]. change (is_digit "4"%char) with true. cbn iota. rewrite IHd. reflexivity.
  - cbn [take_while]. change (is_digit "5"%char) with true. cbn iota. rewrite IHd. reflexivity.
  - cbn [take_while]. change (is_digit "6"%char) with true. cbn iota. rewrite IHd. reflexivity.
  - cbn [take_while]. change (is_digit "7"%char) with true. cbn iota. rewrite IHd. reflexivity.
  - cbn [take_while]. change (is_digit "8"%char) with true. cbn iota. rewrite IHd. reflexivity.
  - cbn [take_while]. change (is_digit "9"%char) with true. cbn iota. rewrite IHd. reflexivity.
Qed.

Lemma take_digits_uint d r :
  no_digit_head r ->
  take_while is_digit (append (NilZero.string_of_uint d) r) = (NilZero.string_of_uint d, r).
Proof.
  intros Hr. destruct d; try (apply (take_digits_uint_ne _ _ Hr)).
  cbn [NilZero.string_of_uint append take_while]. change (is_digit "0"%char) with true. cbn iota.
  destruct r as [|c t]; [reflexivity|]. cbn in Hr. cbn. rewrite Hr. reflexivity.
Qed.

Lemma sN_nonempty n : exists c s, sN n = String c s.
Proof.
  unfold sN. destruct n as [|p]; [cbn; eauto|].
  cbn [N.to_uint]. destruct (Pos.to_uint p); cbn; eexists; eexists; reflexivity.
Qed.

Lemma nat10_sN n r : no_digit_head r -> nat10 (append (sN n) r) = Some (n, r).
Proof.
  intros Hr. unfold nat10, sN. rewrite (take_digits_uint _ _ Hr).
  destruct (sN_nonempty n) as [c [s E]]. unfold sN in E. rewrite E. rewrite <- E.
  rewrite NilZero.usu by (destruct n; [discriminate | apply DecimalPos.Unsigned.to_uint_nonnil]).
  rewrite DecimalN.Unsigned.of_to. reflexivity.
Qed.

(** ** lists *)
Lemma length_app (a b : string) : String.length (a ++ b)%string = (String.length a + String.length b)%nat.
Proof. induction a; cbn; [reflexivity | rewrite IHa; reflexivity]. Qed.

Lemma append_assoc3 (a b c : string) : append (append a b) c = append a (append b c).
Proof. apply append_assoc. Qed.

Lemma length_sconcat_ge {A} (enc : A -> string) (sep : string) (l : list A) r :
  sep <> EmptyString ->
  (List.length l <= String.length (sconcat (map (fun a => append sep (enc a)) l) ++ r)%string)%nat.
Proof.
  intros Hne.
  assert (Hs : (1 <= String.length sep)%nat) by (destruct sep; cbn; [congruence | lia]).
  induction l as [|a l IH]; cbn [map sconcat List.length]; [lia|].
  rewrite !length_app. rewrite !length_app in IH. lia.
Qed.

Section SepBy.
Context {A : Type} (p : parser A) (enc : A -> string) (sep : string) (stop : string -> Prop).
(** an item followed by a stop or by separator + item reads back *)
Hypothesis item_ok : forall a r, (stop r \/ exists a' r', r = append sep (append (enc a') r')) ->
                                 p (append (enc a) r) = Some (a, r).
(** at a stop, no separator + item can be read *)
Hypothesis stop_ok : forall r, stop r -> match strip sep r with Some r' => p r' = None | None => True end.
Hypothesis stop_empty : forall r, stop r -> p r = None.
Hypothesis sep_nonempty : sep <> EmptyString.

Lemma sep_by_go_join l r fuel :
  stop r -> (List.length l <= fuel)%nat ->
  sep_by_go fuel p sep (sconcat (map (fun a => append sep (enc a)) l) ++ r)%string = (l, r).
Proof.
  intros Hr. revert fuel. induction l as [|a l IH]; intros fuel Hf.
  - cbn [map sconcat append]. destruct fuel; [reflexivity|]. cbn [sep_by_go].
    pose proof (stop_ok r Hr) as H. destruct (strip sep r) as [r'|]; [rewrite H|]; reflexivity.
  - destruct fuel as [|fuel]; [cbn in Hf; lia|]. cbn [map sconcat]. rewrite !append_assoc. cbn [sep_by_go].
    rewrite strip_app. rewrite item_ok.
    + rewrite IH by (cbn in Hf; lia). reflexivity.
    + destruct l as [|a' l']; [left; exact Hr | right]. cbn [map sconcat]. rewrite !append_assoc. eauto.
Qed.

Lemma join_cons a (l : list A) :
  join sep (enc a :: map enc l) = append (enc a) (sconcat (map (fun a => append sep (enc a)) l)).
Proof.
  revert a. induction l as [|b l IH]; intros a.
  - cbn. rewrite QuoteRT.append_nil_r. reflexivity.
  - change (join sep (enc a :: map enc (b :: l))) with (append (enc a) (append sep (join sep (enc b :: map enc l)))).
    rewrite (IH b). cbn [map sconcat]. rewrite append_assoc. reflexivity.
Qed.

Lemma join_as_concat (l : list A) :
  join sep (map enc l) = match l with [] => EmptyString | a :: r => append (enc a) (sconcat (map (fun a => append sep (enc a)) r)) end.
Proof. destruct l as [|a l]; [reflexivity | apply join_cons]. Qed.

Theorem sep_by_join l r :
  stop r -> sep_by p sep (append (join sep (map enc l)) r) = Some (l, r).
Proof.
  intros Hr. unfold sep_by. rewrite join_as_concat. destruct l as [|a l].
  - cbn [append]. rewrite (stop_empty r Hr). reflexivity.
  - rewrite append_assoc. rewrite item_ok.
    + rewrite sep_by_go_join; [reflexivity | exact Hr | apply length_sconcat_ge; exact sep_nonempty].
    + destruct l as [|a' l']; [left; exact Hr | right]. cbn [map sconcat]. rewrite !append_assoc. eauto.
Qed.
End SepBy.

(** ** bracket pairs, number lists, cells *)
Definition starts_with (c : ascii) (r : string) : Prop := exists r', r = String c r'.

Lemma starts_no_digit c r : is_digit c = false -> starts_with c r -> no_digit_head r.
Proof. intros H [r' ->]. exact H. Qed.

Lemma br_pair_kv p r : no_digit_head r -> br_pair (append (kv p) r) = Some (p, r).
Proof.
  intros Hr. destruct p as [k v]. unfold br_pair, kv, pbind, pret. cbn [fst snd].
  rewrite !append_assoc. rewrite lit_app. rewrite nat10_sN by reflexivity.
  rewrite lit_app. rewrite nat10_sN by exact Hr. reflexivity.
Qed.

Lemma kv_not_at c r : c <> "["%char -> br_pair (String c r) = None.
Proof.
  intros Hc. unfold br_pair, pbind, lit. cbn [strip].
  destruct (Ascii.eqb_spec "["%char c) as [E|E]; [congruence | reflexivity].
Qed.

(** a list of bracket pairs closed by [)] *)
Lemma kv_list l r :
  starts_with ")"%char r -> sep_by br_pair " " (append (join " " (map kv l)) r) = Some (l, r).
Proof.
  intros Hr. apply (sep_by_join br_pair kv " " (starts_with ")"%char)).
  - intros a r0 [H|[a' [r' ->]]]; apply br_pair_kv.
    + destruct H as [r' ->]. reflexivity.
    + reflexivity.
  - intros r0 [r' ->]. reflexivity.
  - intros r0 [r' ->]. apply kv_not_at. discriminate.
  - discriminate.
  - exact Hr.
Qed.

Lemma nat10_not_digit c r : is_digit c = false -> nat10 (String c r) = None.
Proof. intros H. unfold nat10. cbn [take_while]. rewrite H. reflexivity. Qed.

(** numbers separated by blanks, closed by a double quote *)
Lemma num_list l r :
  starts_with c_dq r -> sep_by nat10 " " (append (join " " (map sN l)) r) = Some (l, r).
Proof.
  intros Hr. apply (sep_by_join nat10 sN " " (starts_with c_dq)).
  - intros a r0 [H|[a' [r' ->]]]; apply nat10_sN.
    + destruct H as [r' ->]. reflexivity.
    + reflexivity.
  - intros r0 [r' ->]. reflexivity.
  - intros r0 [r' ->]. apply nat10_not_digit. reflexivity.
  - discriminate.
  - exact Hr.
Qed.

Definition cell (ids : list N) : string := append """" (append (join " " (map sN ids)) """").

Lemma num_cell_cell ids r : num_cell (append (cell ids) r) = Some (ids, r).
Proof.
  unfold num_cell, cell, pbind, pret. rewrite !append_assoc. rewrite lit_app.
  rewrite num_list by (eexists; reflexivity). rewrite lit_app. reflexivity.
Qed.

Definition kcell (p : N * list N) : string := append "[" (append (sN (fst p)) (append "]=" (cell (snd p)))).

Lemma br_cell_kcell p r : br_cell (append (kcell p) r) = Some (p, r).
Proof.
  destruct p as [k ids]. unfold br_cell, kcell, pbind, pret. cbn [fst snd]. rewrite !append_assoc.
  rewrite lit_app. rewrite nat10_sN by reflexivity. rewrite lit_app.
  rewrite num_cell_cell. reflexivity.
Qed.

Lemma br_cell_not_at c r : c <> "["%char -> br_cell (String c r) = None.
Proof.
  intros Hc. unfold br_cell, pbind, lit. cbn [strip].
  destruct (Ascii.eqb_spec "["%char c) as [E|E]; [congruence | reflexivity].
Qed.

Lemma kcell_list l r :
  starts_with ")"%char r -> sep_by br_cell " " (append (join " " (map kcell l)) r) = Some (l, r).
Proof.
  intros Hr. apply (sep_by_join br_cell kcell " " (starts_with ")"%char)).
  - intros a r0 _. apply br_cell_kcell.
  - intros r0 [r' ->]. reflexivity.
  - intros r0 [r' ->]. apply br_cell_not_at. discriminate.
  - discriminate.
  - exact Hr.
Qed.


(** ** statements: each printed line is read back as the statement it stands for *)
Lemma alt_skip {A} (p q : parser A) s : p s = None -> alt p q s = q s.
Proof. unfold alt. intros ->. reflexivity. Qed.

Lemma alt_take {A} (p q : parser A) s x : p s = Some x -> alt p q s = Some x.
Proof. unfold alt. intros ->. reflexivity. Qed.

Lemma pbind_lit {A} a (f : unit -> parser A) r : pbind (lit a) f (append a r) = f tt r.
Proof. unfold pbind. rewrite lit_app. reflexivity. Qed.

Lemma pbind_lit' {A} a (f : unit -> parser A) s r : strip a s = Some r -> pbind (lit a) f s = f tt r.
Proof. unfold pbind, lit. intros ->. reflexivity. Qed.

Lemma pbind_none {A B} (p : parser A) (f : A -> parser B) s : p s = None -> pbind p f s = None.
Proof. unfold pbind. intros ->. reflexivity. Qed.

Lemma pbind_some {A B} (p : parser A) (f : A -> parser B) s a r : p s = Some (a, r) -> pbind p f s = f a r.
Proof. unfold pbind. intros ->. reflexivity. Qed.

Lemma eol_nl r : eol (append nl r) = Some (tt, r).
Proof. apply lit_app. Qed.

Lemma take_name_digits_uint d c r :
  is_name_char c = false ->
  take_while is_name_char (append (NilEmpty.string_of_uint d) (String c r)) = (NilEmpty.string_of_uint d, String c r).
Proof.
  intros Hc. induction d; cbn [NilEmpty.string_of_uint append].
  - cbn [take_while]. rewrite Hc. reflexivity.
  - cbn [take_while]. change (is_name_char "0"%char) with true. cbn iota. rewrite IHd. reflexivity.
  - cbn [take_while]. change (is_name_char "1"%char) with true. cbn iota. rewrite IHd. reflexivity.
  - cbn [take_while]. change (is_name_char "2"%char) with true. cbn iota. rewrite IHd. reflexivity.
  - cbn [take_while]. change (is_name_char "3"%char) with true. cbn iota. rewrite IHd. reflexivity.
  - cbn [take_while]. change (is_name_char "4"%char) with true. cbn iota. rewrite IHd. reflexivity.
  - cbn [take_while]. change (is_name_char "5"%char) with true. cbn iota. rewrite IHd. reflexivity.
  - cbn [take_while]. change (is_name_char "6"%char) with true. cbn iota. rewrite IHd. reflexivity.
  - cbn [take_while]. change (is_name_char "7"%char) with true. cbn iota. rewrite IHd. reflexivity.
  - cbn [take_while]. change (is_name_char "8"%char) with true. cbn iota. rewrite IHd. reflexivity.
  - cbn [take_while]. change (is_name_char "9"%char) with true. cbn iota. rewrite IHd. reflexivity.
Qed.

Lemma take_name_sN n c r :
  is_name_char c = false ->
  take_while is_name_char (append (sN n) (String c r)) = (sN n, String c r).
Proof.
  intros Hc. unfold sN. destruct (N.to_uint n) eqn:E; try (apply (take_name_digits_uint _ _ _ Hc)).
  cbn [NilZero.string_of_uint append take_while]. change (is_name_char "0"%char) with true. cbn iota.
  rewrite Hc. reflexivity.
Qed.

Opaque sN join.

(** [name] on a concrete variable name followed by a non-name character: by computation *)
Ltac name_concrete := unfold name; cbn [append take_while is_name_char]; reflexivity.

(** X[s]="([k]=v ...)" for the three match tables *)
Definition row_line (var : string) (s : N) (row : list (N * N)) : string :=
  append "    " (append var (append "[" (append (sN s) (append "]=""(" (append (join " " (map kv row)) (append ")""" nl)))))).

Lemma bash_row_stmt var s row rest :
  var = "literal_transitions" \/ var = "command_transitions" \/ var = "subword_transitions" ->
  bash_stmt (append (row_line var s row) rest) = Some (SRow var s row, rest).
Proof.
  intros Hvar. unfold row_line. rewrite !append_assoc. unfold bash_stmt, bz_stmt.
  assert (N1 : name (var ++ "[" ++ sN s ++ "]=""(" ++ join " " (map kv row) ++ ")""" ++ nl ++ rest)%string
               = Some (var, ("[" ++ sN s ++ "]=""(" ++ join " " (map kv row) ++ ")""" ++ nl ++ rest)%string)).
  { destruct Hvar as [-> | [-> | ->]]; name_concrete. }
  rewrite alt_skip by (rewrite pbind_lit; apply pbind_none; destruct Hvar as [-> | [-> | ->]]; reflexivity).
  rewrite alt_skip by (rewrite pbind_lit; apply pbind_none; destruct Hvar as [-> | [-> | ->]]; reflexivity).
  rewrite alt_skip by (rewrite pbind_lit; apply pbind_none; destruct Hvar as [-> | [-> | ->]]; reflexivity).
  apply alt_take. rewrite pbind_lit. rewrite (pbind_some _ _ _ _ _ N1). rewrite pbind_lit.
  erewrite pbind_some by (apply nat10_sN; reflexivity).
  change ("]=""(" ++ join " " (map kv row) ++ ")""" ++ nl ++ rest)%string
    with ("]=" ++ """(" ++ join " " (map kv row) ++ ")""" ++ nl ++ rest)%string.
  rewrite pbind_lit.
  replace (is_descr_var var) with false by (destruct Hvar as [-> | [-> | ->]]; reflexivity). cbv iota.
  apply alt_take. rewrite pbind_lit.
  erewrite pbind_some by (apply kv_list; eexists; reflexivity).
  rewrite pbind_lit. rewrite (pbind_some _ _ _ _ _ (eol_nl rest)). reflexivity.
Qed.

Ltac skip_kw := rewrite alt_skip by (rewrite pbind_lit; apply pbind_none; reflexivity).

Lemma br_cell_on_kv p r : br_cell (append (kv p) r) = None.
Proof.
  destruct p as [k v]. unfold br_cell, kv, pbind. cbn [fst snd]. rewrite !append_assoc. rewrite lit_app.
  rewrite nat10_sN by reflexivity. rewrite lit_app. unfold num_cell, pbind, lit.
  destruct (QuoteRT.append_nil_r EmptyString).
  assert (E : exists c s, sN v = String c s /\ is_digit c = true).
  { Transparent sN. unfold sN. destruct (N.to_uint v); cbn; try (eexists; eexists; split; [reflexivity | reflexivity]). Opaque sN. }
  destruct E as [c [s' [E Hd]]]. rewrite E. cbn [append strip].
  destruct (Ascii.eqb_spec """"%char c) as [<-|Hne]; [discriminate Hd | reflexivity].
Qed.

(** local -A star_transitions=([f]=t ...) *)
Definition assoc_pairs_line (var : string) (l : list (N * N)) : string :=
  append "    local -A " (append var (append "=(" (append (join " " (map kv l)) (append ")" nl)))).

Lemma bash_pairs_stmt var l rest :
  var = "star_transitions" \/ var = "accepting_states" ->
  bash_stmt (append (assoc_pairs_line var l) rest)
  = Some (SAssoc var (map (fun p => (fst p, [snd p])) l), rest).
Proof.
  intros Hvar. unfold assoc_pairs_line. rewrite !append_assoc. unfold bash_stmt, bz_stmt.
  rewrite alt_skip by (erewrite pbind_lit' by reflexivity; apply pbind_none; reflexivity).
  apply alt_take.
  erewrite pbind_lit' by reflexivity. erewrite pbind_lit' by reflexivity.
  erewrite pbind_some by (destruct Hvar as [-> | ->]; name_concrete).
  rewrite alt_skip by reflexivity.
  destruct l as [|p l].
  - apply alt_take. Transparent join. destruct Hvar as [-> | ->]; reflexivity. Opaque join.
  - rewrite alt_skip.
    2:{ apply pbind_none. unfold lit. Transparent join. destruct l; cbn [map join append strip];
        unfold kv; cbn [append strip Ascii.eqb Bool.eqb]; reflexivity. }
    Opaque join.
    rewrite alt_skip.
    2:{ erewrite pbind_lit' by reflexivity. unfold pbind, sep_by.
        assert (E : br_cell (join " " (map kv (p :: l)) ++ String ")" (nl ++ rest))%string = None).
        { Transparent join. destruct l as [|q l]; cbn [map join]; [|rewrite append_assoc]; apply br_cell_on_kv. }
        Opaque join. rewrite E. unfold lit.
        Transparent join. destruct l; cbn [map join append strip]; unfold kv; cbn [append strip Ascii.eqb Bool.eqb]; reflexivity. }
    Opaque join.
    erewrite pbind_lit' by reflexivity. erewrite pbind_some by (apply kv_list; eexists; reflexivity).
    erewrite pbind_lit' by reflexivity. rewrite (pbind_some _ _ _ _ _ (eol_nl rest)). reflexivity.
Qed.

(** local -A X_level_K=([s]="l l" ...) *)
Definition level_line (var : string) (k : N) (rows : list (N * list N)) : string :=
  append "    local -A " (append var (append (sN k) (append "=(" (append (join " " (map kcell rows)) (append ")" nl))))).

Lemma name_level var k r :
  var = "literal_transitions_level_" \/ var = "commands_level_" \/ var = "subword_transitions_level_" ->
  name (append var (append (sN k) (String "=" r))) = Some (append var (sN k), String "=" r).
Proof.
  intros Hvar. unfold name.
  assert (T : take_while is_name_char (append var (append (sN k) (String "=" r))) = (append var (sN k), String "=" r)).
  { destruct Hvar as [-> | [-> | ->]]; cbn [append take_while is_name_char];
      repeat (change (negb _) with true; cbn iota);
      rewrite (take_name_sN k "="%char r eq_refl); reflexivity. }
  rewrite T. destruct Hvar as [-> | [-> | ->]]; reflexivity.
Qed.

Lemma bash_level_stmt var k rows rest :
  var = "literal_transitions_level_" \/ var = "commands_level_" \/ var = "subword_transitions_level_" ->
  bash_stmt (append (level_line var k rows) rest) = Some (SAssoc (append var (sN k)) rows, rest).
Proof.
  intros Hvar. unfold level_line. rewrite !append_assoc. unfold bash_stmt, bz_stmt.
  rewrite alt_skip by (erewrite pbind_lit' by reflexivity; apply pbind_none; reflexivity).
  apply alt_take.
  erewrite pbind_lit' by reflexivity. erewrite pbind_lit' by reflexivity.
  change ("=(" ++ join " " (map kcell rows) ++ ")" ++ nl ++ rest)%string
    with (String "=" ("(" ++ join " " (map kcell rows) ++ ")" ++ nl ++ rest))%string.
  rewrite (pbind_some _ _ _ _ _ (name_level var k _ Hvar)).
  rewrite alt_skip by reflexivity.
  destruct rows as [|p rows].
  - apply alt_take. Transparent join. reflexivity. Opaque join.
  - rewrite alt_skip.
    2:{ apply pbind_none. unfold lit. Transparent join. destruct rows; cbn [map join append strip];
        unfold kcell; cbn [append strip Ascii.eqb Bool.eqb]; reflexivity. }
    Opaque join.
    apply alt_take.
    erewrite pbind_lit' by reflexivity. erewrite pbind_some by (apply kcell_list; eexists; reflexivity).
    erewrite pbind_lit' by reflexivity. rewrite (pbind_some _ _ _ _ _ (eol_nl rest)). reflexivity.
Qed.

(** local VAR=N *)
Definition scalar_line (var : string) (n : N) : string :=
  append "    local " (append var (append "=" (append (sN n) nl))).

Lemma bash_scalar_stmt var n rest :
  var = "max_fallback_level" \/ var = "state" ->
  bash_stmt (append (scalar_line var n) rest) = Some (SScalar var n, rest).
Proof.
  intros Hvar. unfold scalar_line. rewrite !append_assoc. unfold bash_stmt, bz_stmt.
  rewrite alt_skip by (erewrite pbind_lit' by reflexivity; apply pbind_none; destruct Hvar as [-> | ->]; reflexivity).
  rewrite alt_skip by (erewrite pbind_lit' by reflexivity; apply pbind_none; destruct Hvar as [-> | ->]; reflexivity).
  apply alt_take.
  erewrite pbind_lit' by reflexivity. erewrite pbind_lit' by reflexivity.
  erewrite pbind_some by (destruct Hvar as [-> | ->]; name_concrete).
  erewrite pbind_lit' by reflexivity.
  erewrite pbind_some by (apply nat10_sN; reflexivity).
  rewrite (pbind_some _ _ _ _ _ (eol_nl rest)). reflexivity.
Qed.

(** local -A VAR=()   (the declarations in front of the row statements) *)
Lemma bash_decl_stmt var rest :
  var = "literal_transitions" \/ var = "command_transitions" ->
  bash_stmt (append "    local -A " (append var (append "=()" (append nl rest)))) = Some (SAssoc var [], rest).
Proof. intros [-> | ->]; reflexivity. Qed.

(** local -a literals=("a" "b" ...): the constants are C07's *)
Definition literals_line (texts : list string) : string :=
  append "    local -a literals=(" (append (join " " (map (make_string_constant Bash) texts)) (append ")" nl)).

Lemma dq_list texts r :
  Forall (admissible Bash) texts -> starts_with ")"%char r ->
  sep_by (dq Bash) " " (append (join " " (map (make_string_constant Bash) texts)) r) = Some (texts, r).
Proof.
  intros Hadm Hr.
  assert (G : forall l, Forall (admissible Bash) l ->
              sep_by (fun s => match dq Bash s with Some (v, r') => if admissibleb Bash v then Some (v, r') else None | None => None end)
                     " " (append (join " " (map (make_string_constant Bash) l)) r) = Some (l, r) -> True) by (intros; exact I).
  clear G.
  (* direct induction: the generic lemma needs item_ok for every item, which only holds for admissible ones *)
  unfold sep_by.
  destruct texts as [|a l]; cbn [map].
  - Transparent join. cbn [join append]. Opaque join. destruct Hr as [r' ->]. reflexivity.
  - inversion Hadm as [|? ? Ha Hl]; subst.
    rewrite (join_cons (make_string_constant Bash) " " a l). rewrite append_assoc.
    unfold dq at 1. rewrite (quote_roundtrip Bash a _ Ha eq_refl).
    assert (Go : forall l fuel, Forall (admissible Bash) l -> (List.length l <= fuel)%nat ->
               sep_by_go fuel (dq Bash) " " (sconcat (map (fun a => append " " (make_string_constant Bash a)) l) ++ r)%string = (l, r)).
    { clear - Hr. induction l as [|b l IH]; intros fuel Hl Hf.
      - cbn [map sconcat append]. destruct fuel; [reflexivity|]. cbn [sep_by_go]. destruct Hr as [r' ->]. reflexivity.
      - destruct fuel as [|fuel]; [cbn in Hf; lia|]. inversion Hl as [|? ? Hb Hl']; subst.
        cbn [map sconcat]. rewrite !append_assoc. cbn [sep_by_go]. rewrite strip_app.
        unfold dq at 1. rewrite (quote_roundtrip Bash b _ Hb eq_refl). rewrite IH by (try assumption; cbn in Hf; lia). reflexivity. }
    rewrite Go; [reflexivity | assumption |].
    apply length_sconcat_ge. discriminate.
Qed.

Lemma bash_literals_stmt texts rest :
  Forall (admissible Bash) texts ->
  bash_stmt (append (literals_line texts) rest) = Some (SLits "literals" texts, rest).
Proof.
  intros Hadm. unfold literals_line. rewrite !append_assoc. unfold bash_stmt, bz_stmt.
  apply alt_take.
  erewrite pbind_lit' by reflexivity. erewrite pbind_lit' by reflexivity.
  erewrite pbind_some by name_concrete.
  erewrite pbind_lit' by reflexivity.
  erewrite pbind_some by (apply dq_list; [exact Hadm | eexists; reflexivity]).
  erewrite pbind_lit' by reflexivity. rewrite (pbind_some _ _ _ _ _ (eol_nl rest)). reflexivity.
Qed.

(** ** from lines to sections *)
Definition not_func (st : stmt) : Prop := match st with SFunc _ => False | _ => True end.

Definition reads_as (ln : string) (st : stmt) : Prop :=
  ln <> EmptyString /\ not_func st /\ forall rest, bash_stmt (append ln rest) = Some (st, rest).

Lemma scan_lines lines stmts :
  Forall2 reads_as lines stmts ->
  forall cmd k rest, scan (List.length stmts + k) Bash cmd (append (sconcat lines) rest) = stmts ++ scan k Bash cmd rest.
Proof.
  induction 1 as [|ln st lines stmts [Hne [Hnf Hrd]] _ IH]; intros cmd k rest; [reflexivity|].
  cbn [sconcat List.length Nat.add]. rewrite append_assoc. cbn [scan].
  destruct (ln ++ sconcat lines ++ rest)%string eqn:E.
  - destruct ln; [congruence | discriminate E].
  - rewrite <- E. change (stmt_of Bash) with bash_stmt. rewrite Hrd.
    destruct st; try (cbn [app]; f_equal; apply IH). destruct Hnf.
Qed.

Lemma Forall2_app_ {A B} (R : A -> B -> Prop) l1 l2 m1 m2 :
  Forall2 R l1 m1 -> Forall2 R l2 m2 -> Forall2 R (l1 ++ l2) (m1 ++ m2).
Proof. induction 1; cbn; [auto | constructor; auto]. Qed.

Lemma Forall2_map_ {A B C} (R : B -> C -> Prop) (f : A -> B) (g : A -> C) l :
  (forall x, R (f x) (g x)) -> Forall2 R (map f l) (map g l).
Proof. intros H. induction l; cbn; constructor; auto. Qed.

Lemma sconcat_app a b : sconcat (a ++ b) = append (sconcat a) (sconcat b).
Proof. induction a; cbn; [reflexivity | rewrite IHa, append_assoc; reflexivity]. Qed.

Lemma line_nonempty a b : append "    " (append a b) <> EmptyString.
Proof. discriminate. Qed.

(** the printers of Model/EmitBash.v, line by line (the template texts come from gen/TplBash.v:
    a change of a template makes the [reflexivity] below fail) *)
Definition row_lines var m := map (fun row : N * list (N * N) => row_line var (fst row) (snd row)) m.
Definition row_stmts var m := map (fun row : N * list (N * N) => SRow var (fst row) (snd row)) m.

Definition match_lines (t : tables) : list string :=
  ("    local -A literal_transitions=()" ++ nl)%string :: row_lines "literal_transitions" (t_mlit t)
  ++ (match t_mcmd t with
      | Some m => ("    local -A command_transitions=()" ++ nl)%string :: row_lines "command_transitions" m
      | None => []
      end)
  ++ (match t_mstar t with Some l => [assoc_pairs_line "star_transitions" l] | None => [] end).

Definition match_stmts (t : tables) : list stmt :=
  SAssoc "literal_transitions" [] :: row_stmts "literal_transitions" (t_mlit t)
  ++ (match t_mcmd t with
      | Some m => SAssoc "command_transitions" [] :: row_stmts "command_transitions" m
      | None => []
      end)
  ++ (match t_mstar t with Some l => [SAssoc "star_transitions" (map (fun p => (fst p, [snd p])) l)] | None => [] end).

Lemma sconcat_map_fmtln {A} (f g : A -> string) l : (forall x, f x = g x) -> sconcat (map f l) = sconcat (map g l).
Proof. intros H. induction l; cbn; [reflexivity | rewrite H, IHl; reflexivity]. Qed.

(** rendering a template and comparing with the line: compute the template, then re-associate *)
Ltac tpl_eq := cbv -[append]; rewrite ?append_assoc, ?QuoteRT.append_nil_r; cbn [append]; reflexivity.

Lemma tpl_row_lit a b :
  fmtln write_match_transitions_1 [("state", a); ("transitions", b)]
  = ("    " ++ "literal_transitions" ++ "[" ++ a ++ "]=""(" ++ b ++ ")""" ++ nl)%string.
Proof. tpl_eq. Qed.
Lemma tpl_row_cmd a b :
  fmtln write_match_transitions_3 [("state", a); ("transitions", b)]
  = ("    " ++ "command_transitions" ++ "[" ++ a ++ "]=""(" ++ b ++ ")""" ++ nl)%string.
Proof. tpl_eq. Qed.
Lemma tpl_star b :
  fmtln write_match_transitions_4 [("transitions", b)]
  = ("    local -A " ++ "star_transitions" ++ "=(" ++ b ++ ")" ++ nl)%string.
Proof. tpl_eq. Qed.
Lemma tpl_decl_lit : fmtln write_match_transitions_0 [] = ("    local -A literal_transitions=()" ++ nl)%string.
Proof. tpl_eq. Qed.
Lemma tpl_decl_cmd : fmtln write_match_transitions_2 [] = ("    local -A command_transitions=()" ++ nl)%string.
Proof. tpl_eq. Qed.

Lemma write_match_transitions_lines t : write_match_transitions t = sconcat (match_lines t).
Proof.
  unfold write_match_transitions, match_lines. cbn [sconcat]. rewrite tpl_decl_lit. f_equal.
  rewrite sconcat_app. f_equal; [apply sconcat_map_fmtln; intros [s row]; apply tpl_row_lit|].
  rewrite sconcat_app. f_equal.
  - destruct (t_mcmd t) as [m|]; [|reflexivity]. cbn [sconcat]. rewrite tpl_decl_cmd. f_equal.
    apply sconcat_map_fmtln. intros [s row]. apply tpl_row_cmd.
  - destruct (t_mstar t) as [l|]; [|reflexivity]. cbn [sconcat]. rewrite QuoteRT.append_nil_r. apply tpl_star.
Qed.

Lemma reads_rows var m :
  var = "literal_transitions" \/ var = "command_transitions" \/ var = "subword_transitions" ->
  Forall2 reads_as (row_lines var m) (row_stmts var m).
Proof.
  intros Hvar. apply Forall2_map_. intros [s row]. split; [apply line_nonempty|]. split; [exact I|].
  intros rest. apply bash_row_stmt. exact Hvar.
Qed.

Lemma reads_match t : Forall2 reads_as (match_lines t) (match_stmts t).
Proof.
  unfold match_lines, match_stmts. constructor.
  - split; [discriminate|]. split; [exact I|]. intros rest. rewrite append_assoc.
    apply (bash_decl_stmt "literal_transitions"). auto.
  - apply Forall2_app_; [apply reads_rows; auto|]. apply Forall2_app_.
    + destruct (t_mcmd t) as [m|]; [|constructor]. constructor; [|apply reads_rows; auto].
      split; [discriminate|]. split; [exact I|]. intros rest. rewrite append_assoc.
      apply (bash_decl_stmt "command_transitions"). auto.
    + destruct (t_mstar t) as [l|]; [|constructor]. constructor; [|constructor].
      split; [discriminate|]. split; [exact I|]. intros rest. apply bash_pairs_stmt. auto.
Qed.

(** completion tables *)
Definition level_lines var (levels : list (list (N * list N))) :=
  map (fun kl : N * list (N * list N) => level_line var (fst kl) (snd kl)) (number_from 0 levels).
Definition level_stmts var (levels : list (list (N * list N))) :=
  map (fun kl : N * list (N * list N) => SAssoc (append var (sN (fst kl))) (snd kl)) (number_from 0 levels).

Definition completion_lines (t : tables) : list string :=
  level_lines "literal_transitions_level_" (t_clit t)
  ++ (match t_ccmd t with Some m => level_lines "commands_level_" m | None => [] end)
  ++ [scalar_line "max_fallback_level" (t_maxlevel t)].

Definition completion_stmts (t : tables) : list stmt :=
  level_stmts "literal_transitions_level_" (t_clit t)
  ++ (match t_ccmd t with Some m => level_stmts "commands_level_" m | None => [] end)
  ++ [SScalar "max_fallback_level" (t_maxlevel t)].

Lemma tpl_cell_lit a b :
  fmt write_completion_tables_0 [("from_state", a); ("0", b)] = ("[" ++ a ++ "]=" ++ """" ++ b ++ """")%string.
Proof. tpl_eq. Qed.
Lemma tpl_cell_cmd a b :
  fmt write_completion_tables_2 [("from_state", a); ("0", b)] = ("[" ++ a ++ "]=" ++ """" ++ b ++ """")%string.
Proof. tpl_eq. Qed.
Lemma tpl_level_lit a b :
  fmtln write_completion_tables_1 [("level", a); ("initializer", b)]
  = ("    local -A " ++ "literal_transitions_level_" ++ a ++ "=(" ++ b ++ ")" ++ nl)%string.
Proof. tpl_eq. Qed.
Lemma tpl_level_cmd a b :
  fmtln write_completion_tables_3 [("level", a); ("initializer", b)]
  = ("    local -A " ++ "commands_level_" ++ a ++ "=(" ++ b ++ ")" ++ nl)%string.
Proof. tpl_eq. Qed.
Lemma tpl_maxlevel a :
  fmtln write_completion_tables_4 [("max_fallback_level", a)]
  = ("    local " ++ "max_fallback_level" ++ "=" ++ a ++ nl)%string.
Proof. tpl_eq. Qed.
Lemma tpl_literals a :
  fmtln write_literals_0 [("literals", a)] = ("    local -a literals=(" ++ a ++ ")" ++ nl)%string.
Proof. tpl_eq. Qed.

Lemma level_rows_kcell cell0 rows :
  (forall r : N * list N, fmt cell0 [("from_state", sN (fst r)); ("0", join " " (map sN (snd r)))] = kcell r) ->
  level_rows cell0 rows = join " " (map kcell rows).
Proof. intros H. unfold level_rows. f_equal. induction rows; cbn; [reflexivity | rewrite H, IHrows; reflexivity]. Qed.

Lemma write_levels_lit levels :
  write_levels write_completion_tables_0 write_completion_tables_1 levels
  = sconcat (level_lines "literal_transitions_level_" levels).
Proof.
  unfold write_levels, level_lines. apply sconcat_map_fmtln. intros [k rows]. cbn [fst snd].
  rewrite (level_rows_kcell write_completion_tables_0) by (intros [s ids]; apply tpl_cell_lit). apply tpl_level_lit.
Qed.

Lemma write_levels_cmd levels :
  write_levels write_completion_tables_2 write_completion_tables_3 levels
  = sconcat (level_lines "commands_level_" levels).
Proof.
  unfold write_levels, level_lines. apply sconcat_map_fmtln. intros [k rows]. cbn [fst snd].
  rewrite (level_rows_kcell write_completion_tables_2) by (intros [s ids]; apply tpl_cell_cmd). apply tpl_level_cmd.
Qed.

Lemma write_completion_tables_lines t : write_completion_tables t = sconcat (completion_lines t).
Proof.
  unfold write_completion_tables, completion_lines. rewrite !sconcat_app. rewrite write_levels_lit. f_equal. f_equal.
  - destruct (t_ccmd t); [apply write_levels_cmd | reflexivity].
  - cbn [sconcat]. rewrite QuoteRT.append_nil_r. apply tpl_maxlevel.
Qed.

Lemma write_literals_line t :
  write_literals t = literals_line (map (fun l => snd (fst l)) (t_literals t)).
Proof. unfold write_literals, literals_line. rewrite tpl_literals. rewrite map_map. reflexivity. Qed.

Lemma reads_levels var levels :
  var = "literal_transitions_level_" \/ var = "commands_level_" \/ var = "subword_transitions_level_" ->
  Forall2 reads_as (level_lines var levels) (level_stmts var levels).
Proof.
  intros Hvar. apply Forall2_map_. intros [k rows]. split; [discriminate|]. split; [exact I|].
  intros rest. apply bash_level_stmt. exact Hvar.
Qed.

Lemma reads_completion t : Forall2 reads_as (completion_lines t) (completion_stmts t).
Proof.
  unfold completion_lines, completion_stmts. apply Forall2_app_; [apply reads_levels; auto|]. apply Forall2_app_.
  - destruct (t_ccmd t); [apply reads_levels; auto | constructor].
  - constructor; [|constructor]. split; [discriminate|]. split; [exact I|]. intros rest. apply bash_scalar_stmt. auto.
Qed.

(** ** the table section of a function: literals, match tables, completion tables *)
Definition table_stmts (t : tables) : list stmt :=
  SLits "literals" (map (fun l => snd (fst l)) (t_literals t)) :: match_stmts t ++ completion_stmts t.

Lemma all_admissible_bash l : Forall (admissible Bash) l.
Proof. induction l; constructor; [apply admissible_bash | assumption]. Qed.

Theorem bash_tables_roundtrip t :
  forall cmd k rest,
    scan (List.length (table_stmts t) + k) Bash cmd
         (append (write_literals t) (append (write_match_transitions t) (append (write_completion_tables t) rest)))
    = table_stmts t ++ scan k Bash cmd rest.
Proof.
  intros cmd k rest. pose proof (all_admissible_bash (map (fun l => snd (fst l)) (t_literals t))) as Hadm.
  rewrite write_literals_line, write_match_transitions_lines, write_completion_tables_lines.
  rewrite <- (append_assoc (sconcat (match_lines t))). rewrite <- sconcat_app. rewrite <- append_assoc.
  change (literals_line (map (fun l => snd (fst l)) (t_literals t)) ++ sconcat (match_lines t ++ completion_lines t))%string
    with (sconcat (literals_line (map (fun l => snd (fst l)) (t_literals t)) :: match_lines t ++ completion_lines t)).
  apply scan_lines. unfold table_stmts. constructor.
  - split; [discriminate|]. split; [exact I|]. intros r. apply bash_literals_stmt. exact Hadm.
  - apply Forall2_app_; [apply reads_match | apply reads_completion].
Qed.

(** the tables are recovered from the statements (bash view: literal texts, no descriptions,
    no compadd tables) *)
Definition rows_of (var : string) (l : list stmt) : list (N * list (N * N)) :=
  flat_map (fun st => match st with SRow v s r => if String.eqb v var then [(s, r)] else [] | _ => [] end) l.

(** the statements only the completion function itself has *)
Lemma tpl_subrow a b :
  fmtln write_completion_script_5 [("state", a); ("state_transitions", b)]
  = ("    " ++ "subword_transitions" ++ "[" ++ a ++ "]=""(" ++ b ++ ")""" ++ nl)%string.
Proof. tpl_eq. Qed.

Lemma tpl_sublevel a b :
  fmtln write_completion_script_12 [("level", a); ("initializer", b)]
  = ("    local -A " ++ "subword_transitions_level_" ++ a ++ "=(" ++ b ++ ")" ++ nl)%string.
Proof. tpl_eq. Qed.

Lemma tpl_subcell a b :
  fmt write_completion_script_11 [("from_state", a); ("0", b)] = ("[" ++ a ++ "]=" ++ """" ++ b ++ """")%string.
Proof. tpl_eq. Qed.

Lemma write_levels_sub levels :
  write_levels write_completion_script_11 write_completion_script_12 levels
  = sconcat (level_lines "subword_transitions_level_" levels).
Proof.
  unfold write_levels, level_lines. apply sconcat_map_fmtln. intros [k rows]. cbn [fst snd].
  rewrite (level_rows_kcell write_completion_script_11) by (intros [s ids]; apply tpl_subcell). apply tpl_sublevel.
Qed.

Theorem bash_subword_rows_roundtrip (m : list (N * list (N * N))) cmd k rest :
  scan (List.length m + k) Bash cmd
       (append (sconcat (map (fun row => fmtln write_completion_script_5
                                [("state", sN (fst row)); ("state_transitions", join " " (map kv (snd row)))]) m)) rest)
  = row_stmts "subword_transitions" m ++ scan k Bash cmd rest.
Proof.
  rewrite (sconcat_map_fmtln _ (fun row => row_line "subword_transitions" (fst row) (snd row)))
    by (intros [s row]; apply tpl_subrow).
  replace (List.length m) with (List.length (row_stmts "subword_transitions" m)) by apply map_length.
  apply (scan_lines (row_lines "subword_transitions" m)). apply reads_rows. auto.
Qed.

Theorem bash_subword_levels_roundtrip levels cmd k rest :
  scan (List.length levels + k) Bash cmd
       (append (write_levels write_completion_script_11 write_completion_script_12 levels) rest)
  = level_stmts "subword_transitions_level_" levels ++ scan k Bash cmd rest.
Proof.
  rewrite write_levels_sub.
  replace (List.length levels) with (List.length (level_stmts "subword_transitions_level_" levels)).
  - apply scan_lines. apply reads_levels. auto.
  - unfold level_stmts. rewrite map_length. clear. generalize 0. induction levels; cbn; intros; [reflexivity | f_equal; apply IHlevels].
Qed.
