(** The Hopcroft loop of the model computes the Nerode partition of the completed automaton:
    initial partition, one iteration, the whole loop. *)
From CG Require Import Base.Prelude Model.Dfa Model.Minimize Spec.DfaEquiv Spec.MinimizeSpec
  Proofs.MinimizeBasics Proofs.MinimizeImage Proofs.HopcroftAbs Proofs.HopcroftSim.

Lemma pool_find_not_in set pool i : ~ In set pool -> pool_find set pool i = None.
Proof.
  revert i. induction pool as [|s r IH]; intros i H; cbn [pool_find]; [reflexivity|].
  destruct (bm_eqb s set) eqn:E.
  - apply bm_eqb_iff in E. subst. exfalso. apply H. left. reflexivity.
  - apply IH. intro F. apply H. right. exact F.
Qed.

Lemma pool_intern_new pool set : ~ In set pool -> pool_intern pool set = (pool ++ [set], lenN pool).
Proof. intro H. unfold pool_intern. rewrite (pool_find_not_in _ _ _ H). reflexivity. Qed.

Section Loop.
  Variable d : dfa.
  Hypothesis W : wf d.
  Hypothesis C : all_coreachable d.

  Let U := universe d.
  Let dl := delta d.
  Let isacc := is_accepting d.
  Let letters := input_ids d.
  Let image := make_transitions_image d.

  Definition LInv (A : astate) : Prop :=
    APart U A /\ ARef isacc A /\ ADist dl isacc U A /\ AInv dl letters A [] false.

  Lemma af_accepts x w : af dl isacc x w = accepts_from d x w.
  Proof. unfold af, dl, isacc. symmetry. apply accepts_from_fold. exact W. Qed.

  Lemma dl_closed x a : In x U -> In (dl x a) U.
  Proof. apply delta_closed. exact W. Qed.

  (** *** the initial partition *)
  Definition nonacc : list N := bm_diff (bm_diff (get_all_states d) (d_accepting d)) [0].

  Definition opt_block (b : list N) : list (list N) := match b with [] => [] | _ :: _ => [b] end.

  Definition init_blocks : list (list N) := [[0]] ++ opt_block (d_accepting d) ++ opt_block nonacc.

  Lemma opt_block_In b c : In c (opt_block b) <-> c = b /\ b <> [].
  Proof.
    destruct b as [|z r]; cbn [opt_block In]; split.
    - intros [].
    - intros [_ H]. congruence.
    - intros [H|[]]. split; [auto|discriminate].
    - intros [-> _]. auto.
  Qed.

  Lemma non_In x : In x nonacc <-> In x (get_all_states d) /\ ~ In x (d_accepting d) /\ x <> 0.
  Proof.
    unfold nonacc. rewrite !bm_diff_In. cbn [In]. intuition.
  Qed.

  Lemma zero_not_acc : ~ In 0 (d_accepting d).
  Proof. intro H. apply (wf_nozero _ W). apply in_states_cases. auto. Qed.

  Lemma init_blocks_In b :
    In b init_blocks <-> b = [0] \/ (b = d_accepting d /\ d_accepting d <> []) \/ (b = nonacc /\ nonacc <> []).
  Proof.
    unfold init_blocks. rewrite !in_app_iff, !opt_block_In. cbn [In]. intuition.
  Qed.

  Lemma initial_partition_eq :
    let h := initial_partition d in
    h_work h = h_parts h /\ map (content (h_pool h)) (h_parts h) = init_blocks.
  Proof.
    unfold initial_partition, init_blocks. fold nonacc.
    change (pool_intern [] [0]) with ([[0]], 0).
    change (hs_insert 0 []) with [0].
    assert (A0 : d_accepting d <> [0]) by (intro F; apply zero_not_acc; rewrite F; left; reflexivity).
    assert (N0 : nonacc <> [0]).
    { intro F. assert (In 0 nonacc) by (rewrite F; left; reflexivity). apply non_In in H. tauto. }
    assert (NA : forall z, In z nonacc -> In z (d_accepting d) -> False).
    { intros z H1 H2. apply non_In in H1. tauto. }
    set (a := d_accepting d) in *. set (n := nonacc) in *. clearbody a n.
    destruct a as [|a0 ar].
    - destruct n as [|n0 nr].
      + cbn. auto.
      + rewrite (pool_intern_new [[0]] (n0 :: nr)) by (intros [F|[]]; congruence).
        cbn. auto.
    - rewrite (pool_intern_new [[0]] (a0 :: ar)) by (intros [F|[]]; congruence).
      destruct n as [|n0 nr].
      + cbn. auto.
      + assert (NA' : a0 :: ar <> n0 :: nr).
        { intro F. apply (NA n0); [left; reflexivity|]. rewrite F. left. reflexivity. }
        rewrite (pool_intern_new ([[0]] ++ [a0 :: ar]) (n0 :: nr))
          by (intros [F|[F|[]]]; congruence).
        cbn. auto.
  Qed.

  Definition A0 : astate := map (fun b => (b, true)) init_blocks.

  Lemma blocks_A0 : blocks A0 = init_blocks.
  Proof. unfold blocks, A0. rewrite map_map. cbn [fst]. apply map_id. Qed.

  Lemma abs_initial : abs (initial_partition d) = A0.
  Proof.
    destruct initial_partition_eq as [E1 E2]. unfold abs, A0. rewrite <- E2, map_map, E1.
    apply map_ext_in. intros id Hid. f_equal. apply memN_iff. exact Hid.
  Qed.

  Lemma accepts_from_zero w : accepts_from d 0 w = false.
  Proof.
    rewrite (accepts_from_fold d W). induction w as [|a w IH]; cbn [fold_left].
    - apply is_accepting_zero. exact W.
    - rewrite (delta_zero d W). exact IH.
  Qed.

  Lemma nonacc_sorted : sortedN nonacc.
  Proof. unfold nonacc, bm_diff. apply sortedN_filter, sortedN_filter, all_states_sorted. Qed.

  (** the three kinds of states of the universe *)
  Lemma universe_kind x :
    In x U -> x = 0 \/ In x (d_accepting d) \/ In x nonacc.
  Proof.
    intro H. apply universe_In in H.
    destruct (N.eq_dec x 0) as [->|Hn]; [auto|].
    destruct (memN_dec x (d_accepting d)) as [I|I]; [auto|].
    destruct H as [H|H]; [|contradiction]. right. right. apply non_In. auto.
  Qed.

  Lemma A0_APart : APart U A0.
  Proof.
    assert (Z : ~ In 0 nonacc) by (intro F; apply non_In in F; tauto).
    assert (D : forall z, In z nonacc -> In z (d_accepting d) -> False).
    { intros z H1 H2. apply non_In in H1. tauto. }
    constructor; rewrite blocks_A0.
    - intros b Hb. apply init_blocks_In in Hb. destruct Hb as [->|[[-> H]|[-> H]]]; auto. discriminate.
    - intros b Hb. apply init_blocks_In in Hb. destruct Hb as [->|[[-> H]|[-> H]]].
      + cbn. split; [intros y []|exact I].
      + apply (wf_acc _ W).
      + apply nonacc_sorted.
    - unfold init_blocks. pose proof zero_not_acc as ZA.
      set (a := d_accepting d) in *. set (n := nonacc) in *. clearbody a n.
      destruct a as [|a0 ar], n as [|n0 nr]; cbn [opt_block app].
      + repeat constructor. intros [].
      + repeat constructor; cbn [In]; [|tauto]. intros [F|[]]. inversion F; subst. apply Z. left. reflexivity.
      + repeat constructor; cbn [In]; [|tauto]. intros [F|[]]. inversion F; subst. apply ZA. left. reflexivity.
      + repeat constructor; cbn [In]; [| |tauto].
        * intros [F|[F|[]]]; inversion F; subst; [apply ZA|apply Z]; left; reflexivity.
        * intros [F|[]]. inversion F; subst. eapply D; left; reflexivity.
    - intros b b' x Hb Hb' Hx Hx'. apply init_blocks_In in Hb. apply init_blocks_In in Hb'.
      destruct Hb as [->|[[-> H]|[-> H]]], Hb' as [->|[[-> H']|[-> H']]]; auto; exfalso.
      + destruct Hx as [<-|[]]. apply zero_not_acc. exact Hx'.
      + destruct Hx as [<-|[]]. apply Z. exact Hx'.
      + destruct Hx' as [<-|[]]. apply zero_not_acc. exact Hx.
      + eapply D; eauto.
      + destruct Hx' as [<-|[]]. apply Z. exact Hx.
      + eapply D; eauto.
    - intro x. split.
      + intro H. destruct (universe_kind x H) as [->|[I|I]].
        * exists [0]. split; [apply init_blocks_In; auto|left; reflexivity].
        * exists (d_accepting d). split; [|exact I]. apply init_blocks_In. right. left. split; [reflexivity|].
          intro F. rewrite F in I. contradiction.
        * exists nonacc. split; [|exact I]. apply init_blocks_In. right. right. split; [reflexivity|].
          intro F. rewrite F in I. contradiction.
      + intros [b [Hb Hx]]. apply init_blocks_In in Hb. destruct Hb as [->|[[-> H]|[-> H]]].
        * destruct Hx as [<-|[]]. apply universe_zero.
        * apply universe_In. auto.
        * apply universe_In. left. apply non_In in Hx. tauto.
  Qed.

  Lemma A0_sameb x y :
    sameb A0 x y ->
    (x = 0 /\ y = 0) \/ (In x (d_accepting d) /\ In y (d_accepting d)) \/ (In x nonacc /\ In y nonacc).
  Proof.
    intros [b [Hb [Hx Hy]]]. rewrite blocks_A0 in Hb. apply init_blocks_In in Hb.
    destruct Hb as [->|[[-> H]|[-> H]]]; auto.
    destruct Hx as [<-|[]]. destruct Hy as [<-|[]]. auto.
  Qed.

  Lemma isacc_acc x : In x (d_accepting d) -> isacc x = true.
  Proof. intro H. unfold isacc, is_accepting. apply memN_iff. exact H. Qed.

  Lemma isacc_non x : ~ In x (d_accepting d) -> isacc x = false.
  Proof. intro H. unfold isacc, is_accepting. apply memN_false. exact H. Qed.

  Lemma dist_nil x y : isacc x <> isacc y -> dist dl isacc x y.
  Proof. intro H. exists []. exact H. Qed.

  Lemma dist_zero y : In y U -> y <> 0 -> dist dl isacc 0 y.
  Proof.
    intros Hy Hn. assert (Sy : In y (states d)) by (eapply universe_state; eauto).
    destruct (C y Sy) as [w Hw].
    exists w. rewrite !af_accepts, accepts_from_zero, Hw. discriminate.
  Qed.

  Lemma A0_LInv : LInv A0.
  Proof.
    assert (P := A0_APart).
    split; [exact P|]. split; [|split].
    - intros x y H. apply A0_sameb in H. destruct H as [[-> ->]|[[Hx Hy]|[Hx Hy]]].
      + auto.
      + rewrite (isacc_acc _ Hx), (isacc_acc _ Hy). split; [reflexivity|].
        intros ->. exfalso. apply zero_not_acc. exact Hx.
      + apply non_In in Hx. apply non_In in Hy. rewrite !isacc_non by tauto. split; [reflexivity|]. tauto.
    - intros x y Ux Uy Hn.
      assert (Sb : forall b, In b init_blocks -> In x b -> In y b -> False).
      { intros b Hb Hx Hy. apply Hn. exists b. rewrite blocks_A0. auto. }
      destruct (universe_kind x Ux) as [->|[Ix|Ix]], (universe_kind y Uy) as [->|[Iy|Iy]].
      + exfalso. apply (Sb [0]); [apply init_blocks_In; auto|left; reflexivity|left; reflexivity].
      + apply dist_zero; [exact Uy|]. intros ->. apply zero_not_acc. exact Iy.
      + apply dist_zero; [exact Uy|]. intros ->. apply non_In in Iy. tauto.
      + apply dist_sym, dist_zero; [exact Ux|]. intros ->. apply zero_not_acc. exact Ix.
      + exfalso. apply (Sb (d_accepting d)); auto. apply init_blocks_In. right. left. split; [reflexivity|].
        intro F. rewrite F in Ix. contradiction.
      + apply dist_nil. rewrite (isacc_acc _ Ix). apply non_In in Iy. rewrite isacc_non by tauto. discriminate.
      + apply dist_sym, dist_zero; [exact Ux|]. intros ->. apply non_In in Ix. tauto.
      + apply dist_nil. rewrite (isacc_acc _ Iy). apply non_In in Ix. rewrite isacc_non by tauto. discriminate.
      + exfalso. apply (Sb nonacc); auto. apply init_blocks_In. right. right. split; [reflexivity|].
        intro F. rewrite F in Ix. contradiction.
    - intros a x y Ha Hxy Hn. left.
      destruct (sameb_in_U U A0 x y P Hxy) as [Ux _].
      assert (Uu := dl_closed x a Ux). apply (ap_cover _ _ P) in Uu. destruct Uu as [b [Hb Hu]].
      exists b. split; [|exact Hu]. unfold A0. apply in_map_iff. exists b. split; [reflexivity|].
      rewrite blocks_A0 in Hb. exact Hb.
  Qed.

  Lemma initial_Good : Good U (initial_partition d).
  Proof.
    destruct initial_partition_eq as [E1 E2]. constructor.
    - (* the pool has no duplicate: its sets are the blocks *)
      assert (ND := ap_nodup _ _ A0_APart). rewrite blocks_A0 in ND.
      revert ND. unfold initial_partition, init_blocks. fold nonacc.
      change (pool_intern [] [0]) with ([[0]], 0).
      intro ND. pose proof zero_not_acc as ZA.
      assert (Z : ~ In 0 nonacc) by (intro F; apply non_In in F; tauto).
      assert (D : forall z, In z nonacc -> In z (d_accepting d) -> False).
      { intros z H1 H2. apply non_In in H1. tauto. }
      set (a := d_accepting d) in *. set (n := nonacc) in *. clearbody a n.
      destruct a as [|a0 ar].
      + destruct n as [|n0 nr]; [cbn; exact ND|].
        rewrite (pool_intern_new [[0]] (n0 :: nr)); [cbn; exact ND|].
        intros [F|[]]. inversion F; subst. apply Z. left. reflexivity.
      + rewrite (pool_intern_new [[0]] (a0 :: ar)).
        2:{ intros [F|[]]. inversion F; subst. apply ZA. left. reflexivity. }
        destruct n as [|n0 nr]; [cbn; exact ND|].
        rewrite (pool_intern_new ([[0]] ++ [a0 :: ar]) (n0 :: nr)); [cbn; exact ND|].
        intros [F|[F|[]]]; inversion F; subst; [apply Z; left; reflexivity|].
        eapply D; left; reflexivity.
    - rewrite E1. apply incl_refl.
    - rewrite abs_initial. exact A0_APart.
  Qed.

  (** *** one iteration *)
  Lemma AInv_irrel A S S' : AInv dl letters A S false -> AInv dl letters A S' false.
  Proof.
    intros I a x y Ha Hxy Hn. destruct (I a x y Ha Hxy Hn) as [H|[H|[F _]]]; auto. discriminate.
  Qed.

  Lemma window_some G mn mx ts :
    sortedN G -> bm_min G = Some mn -> bm_max G = Some mx ->
    find_bounds image mn mx = Some ts ->
    forall a x, gt_mem (transitions_to_group ts G) a x <->
                In x (map fst (d_trans d)) /\ In a letters /\ In (dl x a) G.
  Proof.
    intros SG Emn Emx Ef a x.
    destruct (ttg_spec ts G) as [_ Hm]. rewrite Hm.
    assert (Hw := find_bounds_some image mn mx ts (image_sorted d) Ef).
    split.
    - intros [t [Ht [E1 [E2 E3]]]]. apply Hw in Ht. destruct Ht as [Ht _].
      apply (image_In d W) in Ht. destruct Ht as [H1 [H2 H3]]. subst x a.
      split; [exact H1|]. split; [exact H2|]. unfold dl. rewrite <- H3. exact E3.
    - intros [H1 [H2 H3]]. exists (mktr x (dl x a) a). cbn [tr_from tr_to tr_input].
      split; [|auto]. apply Hw. cbn [tr_to]. split.
      + apply (image_In d W). cbn [tr_from tr_to tr_input]. auto.
      + destruct (bm_min_spec G mn SG Emn) as [_ Lo]. destruct (bm_max_spec G mx SG Emx) as [_ Hi].
        split; [apply Lo|apply Hi]; exact H3.
  Qed.

  Lemma window_none G mn mx :
    sortedN G -> bm_min G = Some mn -> bm_max G = Some mx ->
    find_bounds image mn mx = None ->
    forall a x, In x (map fst (d_trans d)) -> In a letters -> ~ In (dl x a) G.
  Proof.
    intros SG Emn Emx Ef a x H1 H2 H3.
    apply (find_bounds_none image mn mx (image_sorted d) Ef (mktr x (dl x a) a)).
    - apply (image_In d W). cbn [tr_from tr_to tr_input]. auto.
    - cbn [tr_to]. destruct (bm_min_spec G mn SG Emn) as [_ Lo]. destruct (bm_max_spec G mx SG Emx) as [_ Hi].
      split; [apply Lo|apply Hi]; exact H3.
  Qed.

  Lemma finish_iteration A' G :
    APart U A' -> ARef isacc A' -> ADist dl isacc U A' -> AInv dl letters A' G true ->
    (forall a x y, In a letters -> sameb A' x y -> x <> 0 -> y <> 0 ->
                   (In (dl x a) G <-> In (dl y a) G)) ->
    LInv A'.
  Proof.
    intros P R D I H. split; [exact P|]. split; [exact R|]. split; [exact D|].
    apply (AInv_irrel A' G). apply (AInv_drop dl isacc letters A' G I).
    intros a x y Ha Hxy.
    destruct (N.eq_dec x 0) as [->|Hx].
    - destruct (R _ _ Hxy) as [_ Z]. rewrite (Z eq_refl). tauto.
    - destruct (N.eq_dec y 0) as [->|Hy].
      + destruct (R _ _ (sameb_sym _ _ _ Hxy)) as [_ Z]. rewrite (Z eq_refl). tauto.
      + apply H; assumption.
  Qed.

  Lemma aprocess_LInv A G :
    LInv A -> In (G, true) A -> LInv (aprocess image (aclear G A) G).
  Proof.
    intros [P [R [D I]]] HGt.
    assert (HG : In G (blocks A)) by (apply in_blocks; eauto).
    assert (SG := ap_sorted _ _ P _ HG). assert (NG := ap_nonempty _ _ P _ HG).
    set (A1 := aclear G A).
    assert (P1 : APart U A1) by (apply aclear_APart; exact P).
    assert (R1 : ARef isacc A1).
    { intros x y H. apply R. apply (sameb_aclear isacc G A). exact H. }
    assert (D1 : ADist dl isacc U A1).
    { intros x y Ux Uy H. apply D; auto. intro F. apply H. apply (sameb_aclear isacc G A). exact F. }
    assert (I1 : AInv dl letters A1 G true) by (apply (pop_AInv dl isacc letters U A G []); assumption).
    assert (Sep := SepX_of_block dl isacc U A G P D HG).
    unfold aprocess.
    destruct (bm_min_some G NG) as [mn Emn]. destruct (bm_max_some G NG) as [mx Emx].
    rewrite Emn, Emx.
    destruct (find_bounds image mn mx) as [ts|] eqn:Ef.
    - set (m := transitions_to_group ts G).
      destruct (ttg_spec ts G) as [NDm _]. fold m in NDm.
      assert (Hm := window_some G mn mx ts SG Emn Emx Ef). fold m in Hm.
      set (Q := fun A : astate => AInv dl letters A G true /\ (ARef isacc A /\ ADist dl isacc U A)).
      assert (HQ : forall X, In X (map snd m) -> SplitPres U X Q).
      { intros X HX. apply in_map_iff in HX. destruct HX as [[a X'] [E HX]]. cbn [snd] in E. subst X'.
        apply SplitPres_and.
        - apply asplit_AInv. exact isacc.
        - apply asplit_ADist. intros x y Ux Uy Nx Ny Hx Hy.
          assert (Gx : gt_mem m a x) by (exists X; auto).
          apply Hm in Gx. destruct Gx as [Kx [La Tx]].
          assert (Ky : In y (map fst (d_trans d))) by (apply (universe_key d W); assumption).
          assert (Ty : ~ In (dl y a) G).
          { intro F. apply Hy. apply (gt_mem_In m a X y NDm HX). apply Hm. auto. }
          apply (dist_step dl isacc x y a). apply Sep; auto; apply dl_closed; assumption. }
      destruct (arefine_list isacc U Q (map snd m) A1 HQ P1 (conj I1 (conj R1 D1)))
        as [P' [[I' [R' D']] [Rf Hh]]].
      apply (finish_iteration _ G P' R' D' I').
      intros a x y Ha Hxy Nx Ny.
      destruct (sameb_in_U U _ x y P' Hxy) as [Ux Uy].
      assert (Kx : In x (map fst (d_trans d))) by (apply (universe_key d W); assumption).
      assert (Ky : In y (map fst (d_trans d))) by (apply (universe_key d W); assumption).
      destruct (in_dec N.eq_dec a (map fst m)) as [Ia|Ia].
      + apply in_map_iff in Ia. destruct Ia as [[a' X] [E HX]]. cbn [fst] in E. subst a'.
        assert (Hom : homog (fold_left arefine (map snd m) A1) X).
        { apply Hh. apply in_map_iff. exists (a, X). auto. }
        specialize (Hom x y Hxy).
        rewrite (gt_mem_In m a X x NDm HX), (gt_mem_In m a X y NDm HX), !Hm in Hom. tauto.
      + assert (Nm : forall z, ~ gt_mem m a z).
        { intros z [X [HX _]]. apply Ia. apply in_map_iff. exists (a, X). auto. }
        split; intro F; exfalso.
        * apply (Nm x). apply Hm. auto.
        * apply (Nm y). apply Hm. auto.
    - apply (finish_iteration _ G P1 R1 D1 I1).
      intros a x y Ha Hxy Nx Ny.
      destruct (sameb_in_U U _ x y P1 Hxy) as [Ux Uy].
      assert (Kx : In x (map fst (d_trans d))) by (apply (universe_key d W); assumption).
      assert (Ky : In y (map fst (d_trans d))) by (apply (universe_key d W); assumption).
      assert (Hn := window_none G mn mx SG Emn Emx Ef a).
      split; intro F; exfalso; [apply (Hn x)|apply (Hn y)]; auto.
  Qed.

  (** *** the loop *)
  Lemma hopcroft_loop_inv fuel : forall h h',
    Good U h -> LInv (abs h) ->
    hopcroft_loop fuel image h = Ok h' ->
    Good U h' /\ LInv (abs h') /\ h_work h' = [].
  Proof.
    induction fuel as [|f IH]; intros h h' Gd L E; cbn [hopcroft_loop] in E; [discriminate|].
    destruct (h_work h) as [|gid rest] eqn:Ew.
    - inversion E; subst. auto.
    - assert (Hgw : In gid (h_work h)) by (rewrite Ew; left; reflexivity).
      assert (Hgp : In gid (h_parts h)) by (apply (g_work _ _ Gd); exact Hgw).
      destruct (good_lookup U h gid Gd Hgp) as [G [LG [NG HG]]].
      destruct (abs_pop U h gid G Gd Hgp LG) as [Gd1 A1].
      rewrite <- Ew in E.
      destruct (process_group_sim U image _ gid G Gd1 LG NG) as [h2 [E2 [Gd2 A2]]].
      rewrite E2 in E. cbn [obind] in E.
      apply (IH h2 h' Gd2); [|exact E].
      rewrite A2, A1. apply aprocess_LInv; [exact L|].
      unfold abs. apply in_map_iff. exists gid. split; [|exact Hgp].
      unfold content. rewrite LG. f_equal. apply memN_iff. exact Hgw.
  Qed.

  Theorem hopcroft_loop_correct fuel h :
    hopcroft_loop fuel image (initial_partition d) = Ok h ->
    Good U h
    /\ (forall x y, sameb (abs h) x y -> forall w, accepts_from d x w = accepts_from d y w)
    /\ (forall x y, In x U -> In y U -> ~ sameb (abs h) x y ->
                    exists w, accepts_from d x w <> accepts_from d y w).
  Proof.
    intro E.
    destruct (hopcroft_loop_inv fuel _ h initial_Good) as [Gd [[P [R [D I]]] Ew]]; [|exact E|].
    { rewrite abs_initial. exact A0_LInv. }
    split; [exact Gd|]. split.
    - intros x y Hxy w. rewrite <- !af_accepts.
      apply (stable_nerode dl isacc letters U (delta_nonletter d W) (abs h) P R); [|exact Hxy].
      apply (done_stable dl letters U (abs h) [] P I).
      intros b F. unfold abs in F. apply in_map_iff in F. destruct F as [id [F Hid]].
      inversion F as [[F1 F2]]. apply memN_iff in F2. rewrite Ew in F2. contradiction.
    - intros x y Ux Uy Hn. destruct (D x y Ux Uy Hn) as [w Hw]. exists w.
      rewrite <- !af_accepts. exact Hw.
  Qed.
End Loop.
