(** The model of [do_minimize] neither panics nor runs out of fuel on well-formed trim automata:
    [minimize_total].  Termination of the Hopcroft loop: every pop and every split lowers
    2 * sum (|block| - 1) + |work-list|. *)
From CG Require Import Base.Prelude Model.Dfa Model.Minimize Spec.DfaEquiv Spec.MinimizeSpec
  Proofs.MinimizeBasics Proofs.MinimizeImage Proofs.HopcroftAbs Proofs.HopcroftSim Proofs.HopcroftLoop
  Proofs.MinimizePostGen Proofs.MinimizeCorrect.
From CG Require Proofs.DfaEquivProofs.

(** *** the measure *)
Definition phi1 (p : ablock) : nat :=
  (2 * (List.length (fst p) - 1) + (if snd p then 1 else 0))%nat.

Definition Phi (A : astate) : nat := list_sum (map phi1 A).

Lemma Phi_app A B : Phi (A ++ B) = (Phi A + Phi B)%nat.
Proof. unfold Phi. rewrite map_app, list_sum_app. reflexivity. Qed.

Lemma filter_all {A} (p : A -> bool) l : (forall x, In x l -> p x = true) -> filter p l = l.
Proof.
  induction l as [|x r IH]; intro H; cbn [filter]; [reflexivity|].
  rewrite (H x (or_introl eq_refl)). f_equal. apply IH. intros y Hy. apply H. right. exact Hy.
Qed.

Lemma Phi_aremove B w A :
  NoDup (blocks A) -> In (B, w) A -> Phi A = (Phi (aremove B A) + phi1 (B, w))%nat.
Proof.
  unfold blocks, aremove, Phi. induction A as [|[b f] r IH]; cbn [map fst filter list_sum]; intros ND H; [contradiction|].
  inversion ND as [|? ? Hn Hr]; subst. destruct H as [H|H].
  - inversion H; subst. rewrite (proj2 (bm_eqb_iff B B) eq_refl). cbn [negb].
    rewrite filter_all; [unfold list_sum; cbn [fold_right]; lia|].
    intros [b' f'] Hb'. cbn [fst]. destruct (bm_eqb b' B) eqn:Eb; [|reflexivity].
    apply bm_eqb_iff in Eb. subst. exfalso. apply Hn. apply in_map_iff. exists (B, f'). auto.
  - destruct (bm_eqb b B) eqn:Eb.
    + apply bm_eqb_iff in Eb. subst. exfalso. apply Hn. apply in_map_iff. exists (B, w). auto.
    + cbn [negb map]. specialize (IH Hr H). unfold list_sum in *. cbn [fold_right]. lia.
Qed.

Lemma length_inter_diff (B X : list N) :
  (List.length (bm_inter B X) + List.length (bm_diff B (bm_inter B X)) = List.length B)%nat.
Proof.
  assert (E : bm_diff B (bm_inter B X) = filter (fun x => negb (memN x X)) B).
  { unfold bm_diff. apply filter_ext_in. intros x Hx. f_equal.
    destruct (memN x X) eqn:E1.
    - apply memN_iff. apply bm_inter_In. apply memN_iff in E1. auto.
    - apply memN_false. rewrite bm_inter_In. apply memN_false in E1. tauto. }
  rewrite E. unfold bm_inter. clear E. induction B as [|x r IH]; cbn [filter]; [reflexivity|].
  destruct (memN x X); cbn [negb]; cbn [List.length]; lia.
Qed.

Lemma list_sum_map_le {A} (f g : A -> nat) l :
  (forall x, In x l -> (f x <= g x)%nat) -> (list_sum (map f l) <= list_sum (map g l))%nat.
Proof.
  unfold list_sum. induction l as [|x r IH]; intro H; cbn [map fold_right]; [lia|].
  assert (f x <= g x)%nat by (apply H; left; reflexivity).
  assert (fold_right Nat.add 0%nat (map f r) <= fold_right Nat.add 0%nat (map g r))%nat.
  { apply IH. intros y Hy. apply H. right. exact Hy. }
  lia.
Qed.

Lemma list_sum_map_lt {A} (f g : A -> nat) l :
  (forall x, In x l -> (f x <= g x)%nat) -> (exists x, In x l /\ (f x < g x)%nat) ->
  (list_sum (map f l) < list_sum (map g l))%nat.
Proof.
  induction l as [|x r IH]; intros H [y [Hy Hlt]]; [contradiction|].
  assert (Hr : forall z, In z r -> (f z <= g z)%nat) by (intros z Hz; apply H; right; exact Hz).
  assert (Le := list_sum_map_le f g r Hr).
  assert (f x <= g x)%nat by (apply H; left; reflexivity).
  unfold list_sum in *. cbn [map fold_right]. destruct Hy as [->|Hy].
  - lia.
  - assert (fold_right Nat.add 0%nat (map f r) < fold_right Nat.add 0%nat (map g r))%nat.
    { apply IH; [exact Hr|]. exists y. auto. }
    lia.
Qed.

Section Measure.
  Variable U : list N.

  Lemma asplit_Phi A X B :
    APart U A -> In B (blocks A) -> (exists z, In z B /\ In z X) -> (Phi (asplit A X B) <= Phi A)%nat.
  Proof.
    intros P HB [z [HzB HzX]]. unfold asplit.
    assert (L := length_inter_diff B X).
    destruct (bm_diff B (bm_inter B X)) as [|y r] eqn:E; [lia|]. rewrite <- E in *.
    assert (N1 : (1 <= List.length (bm_inter B X))%nat).
    { assert (In z (bm_inter B X)) by (apply bm_inter_In; auto).
      destruct (bm_inter B X); [contradiction|cbn; lia]. }
    assert (N2 : (1 <= List.length (bm_diff B (bm_inter B X)))%nat) by (rewrite E; cbn; lia).
    apply in_blocks in HB. destruct HB as [w Hw].
    assert (Fw : aflag B A = w).
    { destruct w; [apply aflag_true; exact Hw|]. destruct (aflag B A) eqn:F; [|reflexivity].
      apply aflag_true in F. apply (flag_unique A B true false (ap_nodup _ _ P) F Hw). }
    rewrite (Phi_aremove B w A (ap_nodup _ _ P) Hw). unfold areplace. rewrite Phi_app.
    unfold Phi at 2. cbn [map list_sum]. unfold phi1. cbn [fst snd]. rewrite Fw.
    unfold list_sum. cbn [fold_right].
    destruct w; cbn [orb]; [lia|].
    destruct (Nat.leb _ _); cbn [negb]; lia.
  Qed.

  Lemma SplitPres_Phi X n : SplitPres U X (fun A => (Phi A <= n)%nat).
  Proof.
    intros A B P HB Hov H. assert (L := asplit_Phi A X B P HB Hov). lia.
  Qed.

  Lemma aclear_Phi A G : NoDup (blocks A) -> In (G, true) A -> (Phi (aclear G A) < Phi A)%nat.
  Proof.
    intros _ H. unfold aclear, Phi. rewrite map_map. apply list_sum_map_lt.
    - intros [b f] _. cbn [fst]. destruct (bm_eqb b G); [|lia]. unfold phi1. cbn [fst snd]. destruct f; lia.
    - exists (G, true). split; [exact H|]. cbn [fst]. rewrite (proj2 (bm_eqb_iff G G) eq_refl).
      unfold phi1. cbn [fst snd]. lia.
  Qed.
End Measure.

(** *** the loop terminates within the fuel *)
Section LoopTotal.
  Variable U : list N.
  Variable image : list transition.

  Lemma iteration_Phi A G :
    APart U A -> In (G, true) A -> (Phi (aprocess image (aclear G A) G) < Phi A)%nat.
  Proof.
    intros P HG. assert (L := aclear_Phi A G (ap_nodup _ _ P) HG).
    assert (P1 : APart U (aclear G A)) by (apply aclear_APart; exact P).
    unfold aprocess. destruct (bm_min G); [|exact L]. destruct (bm_max G); [|exact L].
    destruct (find_bounds image n n0) as [ts|]; [|exact L].
    destruct (arefine_list (fun _ => true) U (fun A' => (Phi A' <= Phi (aclear G A))%nat)
                (map snd (transitions_to_group ts G)) (aclear G A)) as [_ [Q _]]; auto.
    - intros X _. apply SplitPres_Phi.
    - cbn zeta in Q. lia.
  Qed.

  Lemma loop_total fuel : forall h,
    Good U h -> (Phi (abs h) < fuel)%nat -> exists h', hopcroft_loop fuel image h = Ok h'.
  Proof.
    induction fuel as [|f IH]; intros h Gd L; [lia|]. cbn [hopcroft_loop].
    destruct (h_work h) as [|gid rest] eqn:Ew; [eauto|].
    assert (Hgw : In gid (h_work h)) by (rewrite Ew; left; reflexivity).
    assert (Hgp : In gid (h_parts h)) by (apply (g_work _ _ Gd); exact Hgw).
    destruct (good_lookup U h gid Gd Hgp) as [G [LG [NG HG]]].
    destruct (abs_pop U h gid G Gd Hgp LG) as [Gd1 A1].
    rewrite <- Ew.
    destruct (process_group_sim U image _ gid G Gd1 LG NG) as [h2 [E2 [Gd2 A2]]].
    rewrite E2. cbn [obind]. apply IH; [exact Gd2|].
    rewrite A2, A1.
    assert (In (G, true) (abs h)).
    { unfold abs. apply in_map_iff. exists gid. split; [|exact Hgp].
      unfold content. rewrite LG. f_equal. apply memN_iff. exact Hgw. }
    assert (Lt := iteration_Phi (abs h) G (g_part _ _ Gd) H). lia.
  Qed.
End LoopTotal.

Lemma filter_len_le {A} (p : A -> bool) l : (List.length (filter p l) <= List.length l)%nat.
Proof. induction l as [|x r IH]; cbn [filter]; [lia|]. destruct (p x); cbn [List.length]; lia. Qed.

Lemma Phi_A0 d : (Phi (A0 d) < minimize_fuel d)%nat.
Proof.
  unfold A0, init_blocks, minimize_fuel, Phi. rewrite !map_app, !map_map, !list_sum_app.
  assert (Hopt : forall b, (list_sum (map (fun x : list N => phi1 (x, true)) (opt_block b)) <= 2 * List.length b)%nat).
  { intros [|z r]; unfold list_sum; cbn [opt_block map fold_right]; [lia|].
    unfold phi1. cbn [fst snd List.length]. lia. }
  assert (H1 := Hopt (d_accepting d)). assert (H2 := Hopt (nonacc d)).
  assert (H3 : (List.length (nonacc d) <= List.length (get_all_states d))%nat).
  { unfold nonacc, bm_diff. etransitivity; apply filter_len_le. }
  unfold list_sum at 1. cbn [map fold_right]. unfold phi1 at 1. cbn [fst snd List.length]. lia.
Qed.

(** *** after the loop *)
Lemma omap_total {E A B} (f : A -> outcome E B) l :
  (forall x, In x l -> exists y, f x = Ok y) -> exists l', omap f l = Ok l'.
Proof.
  induction l as [|x r IH]; intro H; cbn [omap]; [eauto|].
  destruct (H x (or_introl eq_refl)) as [y Hy]. rewrite Hy. cbn [obind].
  destruct IH as [ys Hys]; [intros z Hz; apply H; right; exact Hz|]. rewrite Hys. cbn [obind]. eauto.
Qed.

Lemma representatives_total pool parts :
  (forall id, In id parts -> exists b, pool_lookup pool id = Some b /\ b <> []) ->
  exists reps, representatives pool parts = Ok reps.
Proof.
  unfold representatives. generalize (@nil (N * N)).
  induction parts as [|id r IH]; intros m0 H; cbn [ofold]; [eauto|].
  destruct (H id (or_introl eq_refl)) as [b [Lb Nb]]. rewrite Lb.
  destruct (bm_min_some b Nb) as [mn ->]. cbn [obind].
  apply IH. intros j Hj. apply H. right. exact Hj.
Qed.

Theorem minimize_total d :
  wf d -> trim d -> exists m, minimize d = Ok m.
Proof.
  intros W TR. unfold minimize, do_minimize.
  destruct (loop_total (universe d) (make_transitions_image d) (minimize_fuel d) (initial_partition d)) as [h Hh].
  { apply initial_Good. exact W. }
  { rewrite (abs_initial d W). apply Phi_A0. }
  rewrite Hh. cbn [obind].
  destruct (hopcroft_loop_correct d W (proj2 TR) _ h Hh) as [Gd [N1 N2]].
  destruct (representatives_total (h_pool h) (h_parts h)) as [reps Hreps].
  { intros id Hid. destruct (good_lookup _ h id Gd Hid) as [b [Lb [Nb _]]]. eauto. }
  rewrite Hreps. cbn [obind].
  assert (Hrep : forall x, In x (states d) -> assocN x reps = Some (getf reps x)).
  { intros x Hx. destruct (st_universe d W TR x Hx) as [Ux _].
    destruct (rep_block d h reps Gd Hreps x Ux) as [b [_ [_ [Hr _]]]]. exact Hr. }
  unfold rep_get at 1. rewrite (Hrep _ (DfaEquivProofs.start_In_states d)). cbn [obind].
  destruct (omap_total (rep_get "do_minimize: representative_id_from_state_id.get(&state_id).unwrap()" reps) (d_accepting d)) as [accl Hacc].
  { intros a Ha. exists (getf reps a). apply rep_get_ok. apply Hrep. apply in_states_cases. auto. }
  rewrite Hacc. cbn [obind]. apply omap_rep_get in Hacc. destruct Hacc as [-> _].
  destruct (omap_total (fun t => do r <- rep_get "do_minimize: representative_id_from_state_id.get(to).unwrap()" reps (tr_to t);
                                 Ok (mktr (tr_from t) r (tr_input t))) (iter_transitions d)) as [Q HQ].
  { intros t Ht. exists (mktr (tr_from t) (getf reps (tr_to t)) (tr_input t)).
    unfold rep_get. rewrite (Hrep _ (iter_to_state d t Ht)). reflexivity. }
  unfold quotient_transitions. rewrite HQ. cbn [obind].
  assert (HQ' := HQ). apply (quotient_transitions_ok d reps Q) in HQ'. destruct HQ' as [-> _].
  set (start' := getf reps (d_start d)).
  set (acc' := bm_from_iter (map (getf reps) (d_accepting d))).
  set (Qs := quotient_list d (getf reps)).
  destruct (keep_only_states_with_input_transitions start' Qs acc') as [K acc''] eqn:EK.
  assert (EK1 : K = fst (keep_only_states_with_input_transitions start' Qs acc')) by (rewrite EK; reflexivity).
  assert (EK2 : acc'' = snd (keep_only_states_with_input_transitions start' Qs acc')) by (rewrite EK; reflexivity).
  set (E := eliminate_nonaccepting_states_without_output_transitions K acc'').
  (* renumber_states *)
  unfold renumber_states. fold (renumber_map start' E).
  destruct (renumber_map_spec start' E) as [R1 _].
  assert (Hk : forall k, In k (renumber_keys start' E) ->
                         assocN k (renumber_map start' E) = Some (getf (renumber_map start' E) k)).
  { intros k Hkk. specialize (R1 k Hkk). unfold getf. destruct (assocN k (renumber_map start' E)); [reflexivity|congruence]. }
  unfold rep_get at 1. rewrite (Hk start' (or_introl eq_refl)). cbn [obind].
  destruct (omap_total (fun t => do f <- rep_get "renumber_states: get(from).unwrap()" (renumber_map start' E) (tr_from t);
                                 do to <- rep_get "renumber_states: get(to).unwrap()" (renumber_map start' E) (tr_to t);
                                 Ok (mktr f to (tr_input t))) E) as [ts' Hts].
  { intros [s t i] Ht. cbn [tr_from tr_to tr_input].
    assert (Ks : In s (renumber_keys start' E) /\ In t (renumber_keys start' E)).
    { unfold renumber_keys. split; right; apply in_flat_map; exists (mktr s t i); cbn; auto. }
    unfold rep_get. rewrite (Hk s (proj1 Ks)), (Hk t (proj2 Ks)). cbn [obind]. eauto. }
  rewrite Hts. cbn [obind].
  destruct (omap_total (rep_get "renumber_states: get(&old).unwrap() (accepting)" (renumber_map start' E)) acc'') as [accn Haccn].
  { intros a Ha. exists (getf (renumber_map start' E) a). apply rep_get_ok. apply Hk.
    rewrite EK2 in Ha. apply (acc''_In d reps) in Ha. destruct Ha as [Ha _].
    apply (acc'_In d reps) in Ha. destruct Ha as [a0 [Ha0 ->]].
    unfold E, start'. rewrite EK1, EK2.
    apply (repf_key d W TR h reps Gd N1 N2 Hreps). apply in_states_cases. auto. }
  rewrite Haccn. cbn [obind]. eauto.
Qed.
