(** [multiblanks0] / [multiblanks1] characterised character by character ([skipb]), and what they
    do on a printed gap. *)
From CG Require Import Base.Prelude Model.Ast Model.Lexer Model.Parser Spec.Printer Proofs.LexBase.
From CGgen Require Import Consts.

(** [com] = inside a comment *)
Fixpoint skipb (com : bool) (s : string) (p : pos) : string * pos :=
  match s with
  | EmptyString => (EmptyString, p)
  | String c r =>
      if com then
        (if Ascii.eqb c comment_end_char then skipb false r (adv_char c p) else skipb true r (adv_char c p))
      else if is_multispace c || Ascii.eqb c form_feed_char then skipb false r (adv_char c p)
      else if Ascii.eqb c comment_start_char then skipb true r (adv_char c p)
      else (s, p)
  end.

Definition skip (i : input) : input :=
  let (s, p) := skipb false (rest i) (at_ i) in mkin s p.

Definition skips (s : string) : string := fst (skipb false s pos0).

Lemma comment_end_multispace : is_multispace comment_end_char = true.
Proof. vm_compute; reflexivity. Qed.

Lemma span_while_app : forall f s a b, span_while f s = (a, b) -> s = append a b.
Proof.
  induction s; cbn; intros a0 b H.
  - inversion H; reflexivity.
  - destruct (f a).
    + destruct (span_while f s) as [x y] eqn:E. inversion H; subst. cbn. f_equal. apply IHs; reflexivity.
    + inversion H; reflexivity.
Qed.

Lemma span_while_stop : forall f s a b, span_while f s = (a, b) -> hd_in (fun c => negb (f c)) b = true.
Proof.
  induction s; cbn; intros a0 b H.
  - inversion H; reflexivity.
  - destruct (f a) eqn:F.
    + destruct (span_while f s) as [x y] eqn:E. inversion H; subst. eapply IHs; reflexivity.
    + inversion H; subst. cbn. rewrite F; reflexivity.
Qed.

Lemma span_while_all : forall f s a b, span_while f s = (a, b) -> all_chars f a = true.
Proof.
  induction s; cbn; intros a0 b H.
  - inversion H; reflexivity.
  - destruct (f a) eqn:F.
    + destruct (span_while f s) as [x y] eqn:E. inversion H; subst. cbn. rewrite F. eapply IHs; reflexivity.
    + inversion H; reflexivity.
Qed.

Lemma span_while_exact : forall f a b,
    all_chars f a = true -> hd_in (fun c => negb (f c)) b = true -> span_while f (append a b) = (a, b).
Proof.
  induction a; cbn; intros b Ha Hb.
  - destruct b; cbn in *; auto. destruct (f a); [discriminate|reflexivity].
  - apply andb_true_iff in Ha as [H1 H2]. rewrite H1, (IHa b H2 Hb). reflexivity.
Qed.

Lemma span_while_len : forall f s a b, span_while f s = (a, b) ->
    String.length s = (String.length a + String.length b)%nat.
Proof. intros. rewrite (span_while_app _ _ _ _ H). apply length_app_s. Qed.

Lemma skip_ws_run : forall s p a b, span_while is_multispace s = (a, b) ->
    skipb false s p = skipb false b (adv_str a p).
Proof.
  induction s; cbn; intros p a0 b H.
  - inversion H; reflexivity.
  - destruct (is_multispace a) eqn:M.
    + destruct (span_while is_multispace s) as [x y] eqn:E. inversion H; subst. cbn. apply IHs; reflexivity.
    + inversion H; subst. cbn. rewrite M. reflexivity.
Qed.

Lemma skip_comment_run : forall s p a b,
    span_while (fun c => negb (Ascii.eqb c comment_end_char)) s = (a, b) ->
    skipb true s p = skipb false b (adv_str a p).
Proof.
  induction s; cbn [span_while]; intros p a0 b H.
  - inversion H; reflexivity.
  - destruct (Ascii.eqb a comment_end_char) eqn:M; cbn [negb] in H.
    + inversion H; subst. cbn [skipb adv_str]. rewrite M.
      assert (is_multispace a = true) as -> by (apply eqb_eq_a in M; subst; exact comment_end_multispace).
      reflexivity.
    + destruct (span_while _ s) as [x y] eqn:E. inversion H; subst. cbn [adv_str skipb]. rewrite M. apply IHs; reflexivity.
Qed.

(** one call of [blanks] *)
Lemma blanks_spec : forall i,
    if hd_is blank_start (rest i)
    then exists i1, blanks i = Ok (tt, i1) /\ skip i1 = skip i
                    /\ (String.length (rest i1) < String.length (rest i))%nat
    else blanks i = Err tt.
Proof.
  intros [s p]. unfold blanks, take_while1, take_while, comment, form_feed, char_p, skip. cbn [rest at_].
  destruct s as [|c r]; cbn [hd_is].
  - cbn. reflexivity.
  - unfold blank_start.
    destruct (is_multispace c) eqn:M.
    + cbn [orb]. cbn [span_while]. rewrite M.
      destruct (span_while is_multispace r) as [a b] eqn:E.
      eexists; split; [reflexivity|]. cbn [rest at_]. split.
      * cbn [skipb]. rewrite M. cbn [orb]. rewrite (skip_ws_run r _ a b E). reflexivity.
      * pose proof (span_while_len _ _ _ _ E). cbn. lia.
    + cbn [orb]. cbn [span_while]. rewrite M. cbn [obind fail].
      destruct (Ascii.eqb c form_feed_char) eqn:F; cbn [orb].
      * (* form feed; it is not the comment character *)
        destruct (Ascii.eqb c comment_start_char) eqn:C.
        { apply eqb_eq_a in F, C. subst c. exfalso. revert C. vm_compute. discriminate. }
        cbn [obind]. eexists; split; [reflexivity|]. cbn [rest at_ skipb]. rewrite M, F. cbn [orb].
        split; [reflexivity| cbn; lia].
      * destruct (Ascii.eqb c comment_start_char) eqn:C.
        { cbn [obind rest at_]. unfold take_while. cbn [rest at_].
          destruct (span_while (fun c0 => negb (Ascii.eqb c0 comment_end_char)) r) as [a b] eqn:E.
          eexists; split; [reflexivity|]. cbn [rest at_ skipb]. rewrite M, F, C. cbn [orb]. split.
          - rewrite (skip_comment_run r _ a b E). reflexivity.
          - pose proof (span_while_len _ _ _ _ E). cbn. lia. }
        { cbn [obind]. reflexivity. }
Qed.

Lemma skipb_no_blank : forall s p, hd_in (fun c => negb (blank_start c)) s = true -> skipb false s p = (s, p).
Proof.
  intros [|c r] p H; cbn in *; auto. unfold blank_start in H.
  destruct (is_multispace c); cbn in H; [discriminate|].
  destruct (Ascii.eqb c form_feed_char); cbn in H; [discriminate|].
  destruct (Ascii.eqb c comment_start_char); cbn in H; [discriminate|]. reflexivity.
Qed.

Lemma hd_is_in : forall P s, hd_is P s = false -> hd_in (fun c => negb (P c)) s = true.
Proof. intros P [|c r]; cbn; auto. intros ->; reflexivity. Qed.

Lemma multiblanks0_f_spec : forall fuel i, (String.length (rest i) < fuel)%nat ->
    multiblanks0_f fuel i = Ok (tt, skip i).
Proof.
  induction fuel; intros i H; [lia|]. cbn [multiblanks0_f].
  pose proof (blanks_spec i) as B. destruct (hd_is blank_start (rest i)) eqn:E.
  - destruct B as (i1 & -> & S1 & L1). rewrite IHfuel by lia. rewrite S1. reflexivity.
  - rewrite B. unfold skip. rewrite skipb_no_blank by (apply hd_is_in; assumption). destruct i; reflexivity.
Qed.

Lemma multiblanks0_spec : forall i, multiblanks0 i = Ok (tt, skip i).
Proof. intros. unfold multiblanks0. apply multiblanks0_f_spec. lia. Qed.

Lemma multiblanks1_spec : forall i,
    multiblanks1 i = if hd_is blank_start (rest i) then Ok (tt, skip i) else Err tt.
Proof.
  intros i. unfold multiblanks1. pose proof (blanks_spec i) as B.
  destruct (hd_is blank_start (rest i)).
  - destruct B as (i1 & -> & S1 & _). cbn [obind]. rewrite multiblanks0_spec, S1. reflexivity.
  - rewrite B. reflexivity.
Qed.

(** *** Printed gaps *)

Lemma no_lf_comment : forall body r p,
    skipb true (append (no_lf body) (String LF r)) p
    = skipb false r (adv_str (append (no_lf body) (String LF EmptyString)) p).
Proof.
  induction body; cbn [no_lf append]; intros.
  - cbn. change (Ascii.eqb LF comment_end_char) with true. cbn. reflexivity.
  - destruct (Ascii.eqb a LF) eqn:E; [apply IHbody|].
    cbn [append skipb adv_str]. change comment_end_char with LF. rewrite E. apply IHbody.
Qed.

Lemma skipb_blank_text : forall b r p,
    skipb false (append (blank_text b) r) p = skipb false r (adv_str (blank_text b) p).
Proof.
  intros [w| |body] r p; cbn [blank_text append].
  - destruct w; reflexivity.
  - reflexivity.
  - cbn [skipb]. change (is_multispace HASH || Ascii.eqb HASH form_feed_char) with false.
    change (Ascii.eqb HASH comment_start_char) with true. cbn iota.
    rewrite app_assoc_s. cbn [append]. rewrite no_lf_comment. cbn [adv_str]. reflexivity.
Qed.

Lemma skipb_gap : forall g r p,
    skipb false (append (gap_text g) r) p = skipb false r (adv_str (gap_text g) p).
Proof.
  induction g; cbn [gap_text append]; intros; auto.
  rewrite app_assoc_s, skipb_blank_text, IHg, adv_str_app. reflexivity.
Qed.

Lemma skip_gap : forall g r p,
    skip (mkin (append (gap_text g) r) p) = skip (mkin r (adv_str (gap_text g) p)).
Proof. intros. unfold skip. cbn [rest at_]. rewrite skipb_gap. reflexivity. Qed.

Lemma skip_no_blank : forall s p, hd_in (fun c => negb (blank_start c)) s = true -> skip (mkin s p) = mkin s p.
Proof. intros. unfold skip. cbn [rest at_]. rewrite skipb_no_blank; auto. Qed.

(** the text part does not depend on the position *)
Lemma skipb_fst_pos : forall s com p q, fst (skipb com s p) = fst (skipb com s q).
Proof.
  induction s; cbn; intros; auto.
  destruct com.
  - destruct (Ascii.eqb a comment_end_char); auto.
  - destruct (is_multispace a || Ascii.eqb a form_feed_char); auto.
    destruct (Ascii.eqb a comment_start_char); auto.
Qed.

Lemma rest_skip : forall s p, rest (skip (mkin s p)) = skips s.
Proof.
  intros. unfold skip, skips. cbn [rest at_].
  rewrite (skipb_fst_pos s false pos0 p). destruct (skipb false s p); reflexivity.
Qed.

Lemma skips_gap : forall g r, skips (append (gap_text g) r) = skips r.
Proof.
  intros. unfold skips. rewrite skipb_gap. apply skipb_fst_pos.
Qed.

Lemma skips_no_blank : forall s, hd_in (fun c => negb (blank_start c)) s = true -> skips s = s.
Proof. intros. unfold skips. rewrite skipb_no_blank; auto. Qed.

(** first characters of gaps *)
Lemma post_gap_hd : forall g r,
    hd_in no_unary r = true -> hd_in no_unary (append (gap_text (post_gap g)) r) = true.
Proof.
  intros [|b g] r H; cbn; auto.
  destruct b as [w| |body]; cbn; auto. destruct w; reflexivity.
Qed.

Lemma gap1_hd : forall g r, hd_is ws_start (append (gap_text (gap1 g)) r) = true.
Proof.
  intros [|b g] r; cbn; auto.
  destruct b as [w| |body]; cbn; auto. destruct w; reflexivity.
Qed.
