(** C16, meaning level: what [Spec.DotRead.run_stmts] makes of the kinds of statement sequences the
    printers write -- batches of node statements under one default shape, batches of edges between
    existing nodes, a subgraph. *)
From Coq Require Import Permutation.
From CG Require Import Base.Prelude Spec.DotRead.
Local Open Scope string_scope.

Lemma run_stmts_app a b st : run_stmts (a ++ b)%list st = run_stmts b (run_stmts a st).
Proof. apply fold_left_app. Qed.

Lemma run_stmts_cons s l st : run_stmts (s :: l) st = run_stmts l (run_stmt s st).
Proof. reflexivity. Qed.

Lemma run_sub name body o sc :
  run_stmt (SSub name body) (o, sc) =
  let '(o', inner) := run_stmts body (o, mkscope (s_ndef sc) (s_edef sc) [] [] []) in
  (o', mkscope (s_ndef sc) (s_edef sc) (s_gattrs sc)
               (add_members (s_members inner) (s_members sc))
               (s_subs sc ++ [Cluster name (s_gattrs inner) (s_members inner) (s_subs inner)])%list).
Proof.
  cbn [run_stmt].
  assert (H : forall l st,
             (fix go (l : list stmt) (st : objs * scope) : objs * scope :=
                match l with [] => st | x :: r => go r (run_stmt x st) end) l st = run_stmts l st).
  { induction l as [|x r IH]; intro st; [reflexivity|]. rewrite IH. reflexivity. }
  rewrite H. reflexivity.
Qed.

(** ** Membership *)
Definition ids (ns : list gnode) : list string := map gn_id ns.

Lemma mem_str_In i l : mem_str i l = true <-> In i l.
Proof.
  unfold mem_str. rewrite existsb_exists. split.
  - intros [x [Hx He]]. apply String.eqb_eq in He. now subst.
  - intro H. exists i. split; [exact H|apply String.eqb_refl].
Qed.

Lemma mem_str_notin i l : ~ In i l -> mem_str i l = false.
Proof. intro H. destruct (mem_str i l) eqn:E; [|reflexivity]. apply mem_str_In in E. now elim H. Qed.

Lemma mem_str_in i l : In i l -> mem_str i l = true.
Proof. apply mem_str_In. Qed.

Lemma has_node_ids i ns : has_node i ns = mem_str i (ids ns).
Proof. induction ns as [|n r IH]; [reflexivity|]. cbn. now rewrite IH. Qed.

Lemma ids_app a b : ids (a ++ b)%list = (ids a ++ ids b)%list.
Proof. apply map_app. Qed.

Lemma update_node_fresh i a d ns :
  ~ In i (ids ns) -> update_node i a (ns ++ [mkgnode i d])%list = (ns ++ [mkgnode i (set_attrs a d)])%list.
Proof.
  induction ns as [|n r IH]; intro H; cbn.
  - now rewrite String.eqb_refl.
  - destruct (String.eqb i (gn_id n)) eqn:E.
    + apply String.eqb_eq in E. elim H. left. now symmetry.
    + rewrite IH; [reflexivity|]. intro Hi. apply H. now right.
Qed.

Lemma add_member_fresh i l : ~ In i l -> add_member i l = (l ++ [i])%list.
Proof. intro H. unfold add_member. now rewrite (mem_str_notin _ _ H). Qed.

Lemma add_member_old i l : In i l -> add_member i l = l.
Proof. intro H. unfold add_member. now rewrite (mem_str_in _ _ H). Qed.

Lemma add_members_fresh new : forall l,
  NoDup new -> (forall i, In i new -> ~ In i l) -> add_members new l = (l ++ new)%list.
Proof.
  unfold add_members. induction new as [|x r IH]; intros l Hnd Hf; cbn.
  - now rewrite app_nil_r.
  - inversion Hnd as [|? ? Hx Hr]; subst.
    rewrite add_member_fresh by (apply Hf; now left).
    rewrite IH; [now rewrite <- app_assoc|exact Hr|].
    intros i Hi Hin. apply in_app_or in Hin as [Hin|[<-|[]]].
    + apply (Hf i); [now right|exact Hin].
    + exact (Hx Hi).
Qed.

(** ** One node statement *)
Lemma run_node_fresh i a o sc :
  ~ In i (ids (o_nodes o)) -> ~ In i (s_members sc) ->
  run_stmt (SNode i a) (o, sc)
  = (mkobjs (o_nodes o ++ [mkgnode i (set_attrs a (s_ndef sc))]) (o_edges o),
     mkscope (s_ndef sc) (s_edef sc) (s_gattrs sc) (s_members sc ++ [i]) (s_subs sc)).
Proof.
  intros Hn Hm. cbn [run_stmt touch]. rewrite has_node_ids, (mem_str_notin _ _ Hn).
  cbn [o_nodes o_edges]. rewrite (update_node_fresh _ _ _ _ Hn), (add_member_fresh _ _ Hm). reflexivity.
Qed.

Lemma run_node_same i a o sc :
  In i (ids (o_nodes o)) -> In i (s_members sc) -> update_node i a (o_nodes o) = o_nodes o ->
  run_stmt (SNode i a) (o, sc) = (o, sc).
Proof.
  intros Hn Hm Hu. cbn [run_stmt touch]. rewrite has_node_ids, (mem_str_in _ _ Hn).
  rewrite Hu, (add_member_old _ _ Hm). destruct o, sc. reflexivity.
Qed.

(** ** A batch of node statements, all new, under one default shape *)
Definition label_stmt (p : string * string) : stmt := SNode (fst p) [("label", snd p)].
Definition shaped (sh : string) (p : string * string) : gnode :=
  mkgnode (fst p) [("shape", sh); ("label", snd p)].

Lemma run_nodes_fresh sh l : forall o sc,
  s_ndef sc = [("shape", sh)] ->
  NoDup (map fst l) ->
  (forall i, In i (map fst l) -> ~ In i (ids (o_nodes o)) /\ ~ In i (s_members sc)) ->
  run_stmts (map label_stmt l) (o, sc)
  = (mkobjs (o_nodes o ++ map (shaped sh) l) (o_edges o),
     mkscope (s_ndef sc) (s_edef sc) (s_gattrs sc) (s_members sc ++ map fst l) (s_subs sc)).
Proof.
  induction l as [|p r IH]; intros o sc Hd Hnd Hf.
  - cbn. rewrite !app_nil_r. destruct o, sc. reflexivity.
  - cbn [map]. rewrite run_stmts_cons. change (label_stmt p) with (SNode (fst p) [("label", snd p)]).
    destruct (Hf (fst p)) as [Hn Hm]; [now left|].
    rewrite (run_node_fresh _ _ _ _ Hn Hm). inversion Hnd as [|? ? Hp Hr]; subst.
    rewrite IH.
    + cbn [o_nodes o_edges s_ndef s_edef s_gattrs s_members s_subs]. rewrite Hd.
      cbn [set_attrs fold_left set_attr fst snd]. change (String.eqb "label" "shape") with false. cbn match.
      rewrite <- !app_assoc. reflexivity.
    + exact Hd.
    + exact Hr.
    + intros i Hi. cbn [o_nodes s_members]. rewrite ids_app. cbn [ids map gn_id].
      destruct (Hf i) as [Hn' Hm']; [now right|]. split; intro H; apply in_app_or in H as [H|[<-|[]]];
        try contradiction; exact (Hp Hi).
Qed.

(** set_attr on an attribute that already has that value *)
Lemma update_node_idem i sh lab : forall ns,
  In (shaped sh (i, lab)) ns -> NoDup (ids ns) ->
  update_node i [("label", lab)] ns = ns.
Proof.
  induction ns as [|n r IH]; intros Hin Hnd; [reflexivity|]. cbn [update_node].
  inversion Hnd as [|? ? Hn Hr]; subst.
  destruct (String.eqb i (gn_id n)) eqn:E.
  - apply String.eqb_eq in E. destruct Hin as [->|Hin].
    + cbn. reflexivity.
    + elim Hn. rewrite <- E. apply (in_map gn_id) in Hin. exact Hin.
  - destruct Hin as [->|Hin].
    + cbn in E. now rewrite String.eqb_refl in E.
    + now rewrite IH.
Qed.

(** ** Edges between existing nodes *)
Lemma touch_existing i o sc :
  In i (ids (o_nodes o)) -> In i (s_members sc) -> touch i (o, sc) = (o, sc).
Proof.
  intros Hn Hm. unfold touch. rewrite has_node_ids, (mem_str_in _ _ Hn), (add_member_old _ _ Hm).
  destruct sc. reflexivity.
Qed.

Definition edge_stmt (e : string * string * attrs) : stmt := SEdge [fst (fst e); snd (fst e)] (snd e).
Definition edge_of (e : string * string * attrs) : gedge :=
  mkgedge (fst (fst e)) (snd (fst e)) (set_attrs (snd e) []).

Lemma run_edges l : forall o sc,
  s_edef sc = [] ->
  (forall e, In e l -> (In (fst (fst e)) (ids (o_nodes o)) /\ In (fst (fst e)) (s_members sc))
                       /\ (In (snd (fst e)) (ids (o_nodes o)) /\ In (snd (fst e)) (s_members sc))) ->
  run_stmts (map edge_stmt l) (o, sc) = (mkobjs (o_nodes o) (o_edges o ++ map edge_of l), sc).
Proof.
  induction l as [|e r IH]; intros o sc Hd Hex.
  - cbn. rewrite app_nil_r. destruct o. reflexivity.
  - cbn [map]. rewrite run_stmts_cons. change (edge_stmt e) with (SEdge [fst (fst e); snd (fst e)] (snd e)). cbn [run_stmt fold_left].
    destruct (Hex e) as [[Ha Ha'] [Hb Hb']]; [now left|].
    rewrite (touch_existing _ _ _ Ha Ha'), (touch_existing _ _ _ Hb Hb'). rewrite Hd.
    rewrite IH.
    + cbn [o_nodes o_edges edges_of]. rewrite <- app_assoc. reflexivity.
    + exact Hd.
    + intros e' He'. cbn [o_nodes]. apply Hex. now right.
Qed.
