(** A declarative counterpart of [Spec.Domain.C01_domain] and the soundness of the decision.

    Points are sets of residuals (lists up to mutual inclusion).  [istep] reads one *class of
    items* (literals with the same text; otherwise one item); [reach] is its reflexive-transitive
    closure from the grammar.  [in_domain e] says, declaratively, what C01's quantifier says:
    at every reachable point literals with the same text carry the same label and two different
    within-word items have no word in common; inside every within-word expression the literal
    texts are non-empty and prefix-free and, at every point reachable inside the word, literals
    with the same text carry the same label.

    [C01_domain_sound : C01_domain e = true -> in_domain e].  (The converse does not hold: the
    exploration has a fuel bound and [TokAut.disjoint] may give up.) *)
From CG Require Import Base.Prelude Model.Ast Spec.Rx Spec.Meaning Spec.TokAut Spec.Domain
     Proofs.RxFacts Proofs.MeaningFacts Proofs.TokAutFacts.

(** *** Generic exploration *)
Section ExploreFacts.
  Context {A : Type}.
  Variable eqA : A -> A -> bool.
  Variable same_item : A -> A -> bool.
  Variable ok : list (A * rx A) -> bool.
  Hypothesis eqA_sound : forall a b, eqA a b = true -> a = b.
  Hypothesis eqA_refl : forall a, eqA a a = true.
  Hypothesis same_refl : forall a, same_item a a = true.
  Hypothesis same_sym : forall a b, same_item a b = true -> same_item b a = true.
  Hypothesis same_trans : forall a b c, same_item a b = true -> same_item b c = true -> same_item a c = true.

  Notation st := (list (rx A)).

  (** Same set of residuals. *)
  Definition seq_st (s t : st) : Prop := forall k, In k s <-> In k t.

  Lemma seq_refl s : seq_st s s.
  Proof. intro k. reflexivity. Qed.
  Lemma seq_sym s t : seq_st s t -> seq_st t s.
  Proof. intros H k. symmetry. apply H. Qed.
  Lemma seq_trans s t u : seq_st s t -> seq_st t u -> seq_st s u.
  Proof. intros H1 H2 k. rewrite (H1 k). apply H2. Qed.

  Lemma rx_eqb_refl (r : rx A) : rx_eqb eqA r r = true.
  Proof. induction r; cbn [rx_eqb]; try reflexivity; try apply eqA_refl; try (rewrite IHr1, IHr2; reflexivity); assumption. Qed.

  Lemma mem_rx_iff r l : mem_rx eqA r l = true <-> In r l.
  Proof.
    split; [apply (mem_rx_In eqA eqA_sound) |].
    intro H. unfold mem_rx. apply existsb_exists. exists r. split; [assumption | apply rx_eqb_refl].
  Qed.

  Lemma state_eqb_seq s t : state_eqb eqA s t = true <-> seq_st s t.
  Proof.
    unfold state_eqb, sub_state. rewrite andb_true_iff, !forallb_forall. split.
    - intros [H1 H2] k. split; intro H; apply mem_rx_iff; [apply H1 | apply H2]; assumption.
    - intro H. split; intros k Hk; apply mem_rx_iff; apply H; assumption.
  Qed.

  Definition mvs (s : st) : list (A * rx A) := flat_map lf s.

  Lemma mvs_seq s t : seq_st s t -> forall ak, In ak (mvs s) <-> In ak (mvs t).
  Proof.
    intros H ak. unfold mvs. rewrite !in_flat_map. split; intros [r [Hr Hl]]; exists r; split; try assumption; apply H; assumption.
  Qed.

  (** Reading one class of items. *)
  Definition istep (s : st) (a : A) (t : st) : Prop :=
    forall k, In k t <-> exists a', In (a', k) (mvs s) /\ same_item a a' = true.

  Inductive reach (s0 : st) : st -> Prop :=
  | reach_here s : seq_st s0 s -> reach s0 s
  | reach_next s a t : reach s0 s -> In a (map fst (mvs s)) -> istep s a t -> reach s0 t.

  Lemma dedup_items_rep l : forall a, In a l -> exists a0, In a0 (dedup_items same_item l) /\ same_item a a0 = true.
  Proof.
    induction l as [| x l IH]; intros a Hin; [destruct Hin |].
    cbn [dedup_items]. destruct (existsb (same_item x) (dedup_items same_item l)) eqn:E.
    - destruct Hin as [<- | Hin]; [| apply IH; assumption].
      apply existsb_exists in E. destruct E as [a0 [H0 Hs]]. exists a0. split; assumption.
    - destruct Hin as [<- | Hin].
      + exists x. split; [left; reflexivity | apply same_refl].
      + destruct (IH a Hin) as [a0 [H0 Hs]]. exists a0. split; [right; assumption | assumption].
  Qed.

  Lemma dedup_items_incl l a : In a (dedup_items same_item l) -> In a l.
  Proof.
    induction l as [| x l IH]; intro H; [destruct H |].
    cbn [dedup_items] in H. destruct (existsb (same_item x) (dedup_items same_item l)).
    - right. apply IH. assumption.
    - destruct H as [<- | H]; [left; reflexivity | right; apply IH; assumption].
  Qed.

  (** The executable successors realise [istep], for every class. *)
  Lemma succs_istep s a : In a (map fst (mvs s)) ->
                          exists t, In t (succs eqA same_item s) /\ istep s a t.
  Proof.
    intro Ha. destruct (dedup_items_rep _ a Ha) as [a0 [H0 Hs]].
    exists (dedup_rx eqA (map snd (filter (fun ak => same_item a0 (fst ak)) (mvs s)))). split.
    - unfold succs. apply in_map_iff. exists a0. split; [reflexivity | assumption].
    - intro k. rewrite (dedup_rx_In eqA eqA_sound), in_map_iff. split.
      + intros [[a' k'] [E Hin]]. cbn [snd] in E. subst k'. apply filter_In in Hin. destruct Hin as [Hin Hc].
        cbn [fst] in Hc. exists a'. split; [assumption | eapply same_trans; eassumption].
      + intros [a' [Hin Hc]]. exists (a', k). split; [reflexivity |]. apply filter_In. split; [assumption |].
        cbn [fst]. eapply same_trans; [apply same_sym; eassumption | assumption].
  Qed.

  Lemma istep_seq s s' a t t' : seq_st s s' -> istep s a t -> istep s' a t' -> seq_st t t'.
  Proof.
    intros H I1 I2 k. rewrite (I1 k), (I2 k). split; intros [a' [Hin Hc]]; exists a'; split; try assumption;
      apply (mvs_seq _ _ H); assumption.
  Qed.

  (** *** Invariant of [explore] *)
  Definition covered (t : st) (l : list st) : Prop := exists t', In t' l /\ seq_st t t'.

  Record einv (todo seen : list st) : Prop := {
    einv_ok : forall s, In s seen -> ok (mvs s) = true;
    einv_succ : forall s, In s seen -> forall t, In t (succs eqA same_item s) -> covered t seen \/ In t todo
  }.

  Definition closed_set (S : list st) : Prop :=
    (forall s, In s S -> ok (mvs s) = true)
    /\ (forall s, In s S -> forall t, In t (succs eqA same_item s) -> covered t S).

  Lemma covered_mono t l l' : (forall x, In x l -> In x l') -> covered t l -> covered t l'.
  Proof. intros H [t' [Hin Hs]]. exists t'. split; [apply H; assumption | assumption]. Qed.

  Lemma existsb_covered s seen : existsb (state_eqb eqA s) seen = true <-> covered s seen.
  Proof.
    rewrite existsb_exists. split; intros [t [Hin H]]; exists t; split; try assumption; apply state_eqb_seq; assumption.
  Qed.

  Theorem explore_sound : forall fuel todo seen,
      explore eqA same_item ok fuel todo seen = true -> einv todo seen ->
      exists S, closed_set S /\ (forall s, In s seen -> In s S) /\ (forall s, In s todo -> covered s S).
  Proof.
    induction fuel as [| f IH]; intros todo seen H I; cbn [explore] in H; [discriminate |].
    destruct todo as [| s rest].
    - exists seen. split; [| split; [intros; assumption | intros s []]].
      split; [apply (einv_ok _ _ I) |]. intros s Hs t Ht.
      destruct (einv_succ _ _ I s Hs t Ht) as [C | []]. assumption.
    - destruct (existsb (state_eqb eqA s) seen) eqn:E.
      + apply existsb_covered in E.
        destruct (IH rest seen H) as [S [HS [Hseen Htodo]]].
        { constructor; [apply (einv_ok _ _ I) |]. intros s1 Hs1 t Ht.
          destruct (einv_succ _ _ I s1 Hs1 t Ht) as [C | [<- | Hin]]; [left; assumption | left; assumption | right; assumption]. }
        exists S. split; [assumption | split; [assumption |]].
        intros s1 [<- | Hin]; [| apply Htodo; assumption].
        eapply covered_mono; [| exact E]. assumption.
      + apply andb_true_iff in H. destruct H as [Hok H].
        destruct (IH (rest ++ succs eqA same_item s) (s :: seen) H) as [S [HS [Hseen Htodo]]].
        { constructor.
          - intros s1 [<- | Hs1]; [assumption | apply (einv_ok _ _ I); assumption].
          - intros s1 [<- | Hs1] t Ht.
            + right. apply in_or_app. right; assumption.
            + destruct (einv_succ _ _ I s1 Hs1 t Ht) as [C | [<- | Hin]].
              * left. eapply covered_mono; [| exact C]. intros x Hx. right; assumption.
              * left. exists s. split; [left; reflexivity | apply seq_refl].
              * right. apply in_or_app. left; assumption. }
        exists S. split; [assumption | split].
        * intros s1 Hs1. apply Hseen. right; assumption.
        * intros s1 [<- | Hin].
          -- exists s. split; [apply Hseen; left; reflexivity | apply seq_refl].
          -- apply Htodo. apply in_or_app. left; assumption.
  Qed.

  (** A property of points that only depends on the set of moves and that [ok] guarantees. *)
  Variable P : list (A * rx A) -> Prop.
  Hypothesis P_ext : forall mv mv', (forall ak, In ak mv <-> In ak mv') -> P mv -> P mv'.
  Hypothesis ok_P : forall mv, ok mv = true -> P mv.

  Lemma closed_reach S s0 :
    closed_set S -> covered s0 S -> forall s, reach s0 s -> covered s S.
  Proof.
    intros [Hok Hcl] H0 s R. induction R as [s Hs | s a t R IH Ha Hi].
    - destruct H0 as [s' [Hin Hseq]]. exists s'. split; [assumption |].
      eapply seq_trans; [apply seq_sym; eassumption | assumption].
    - destruct IH as [s' [Hin Hseq]].
      assert (Ha' : In a (map fst (mvs s'))).
      { apply in_map_iff in Ha. destruct Ha as [[a1 k] [E Hk]]. cbn [fst] in E. subst a1.
        apply in_map_iff. exists (a, k). split; [reflexivity | apply (mvs_seq _ _ Hseq); assumption]. }
      destruct (succs_istep s' a Ha') as [t0 [Ht0 Hi0]].
      destruct (Hcl s' Hin t0 Ht0) as [t1 [Hin1 Hseq1]].
      exists t1. split; [assumption |].
      apply (seq_trans t t0 t1); [exact (istep_seq s s' a t t0 Hseq Hi Hi0) | exact Hseq1].
  Qed.

  Theorem explore_reach s0 :
    explore eqA same_item ok explore_fuel [s0] [] = true ->
    forall s, reach s0 s -> P (mvs s).
  Proof.
    intros H s R.
    destruct (explore_sound _ _ _ H) as [S [HS [_ Htodo]]].
    { constructor; intros s1 []. }
    assert (C : covered s S).
    { eapply closed_reach; [exact HS | apply Htodo; left; reflexivity | exact R]. }
    destruct C as [s' [Hin Hseq]]. destruct HS as [Hok _].
    apply (P_ext (mvs s')); [intro ak; symmetry; apply (mvs_seq _ _ Hseq) |].
    apply ok_P. apply Hok. assumption.
  Qed.
End ExploreFacts.

(** *** The conditions at a point, declaratively *)
Lemma all_pairs_spec {A} (p : A -> A -> bool) (l : list A) :
  all_pairs p l = true ->
  forall x y, In x l -> In y l -> x = y \/ p x y = true \/ p y x = true.
Proof.
  induction l as [| a l IH]; intros H x y Hx Hy; [destruct Hx |].
  cbn [all_pairs] in H. apply andb_true_iff in H. destruct H as [Ha Hl].
  rewrite forallb_forall in Ha.
  destruct Hx as [<- | Hx], Hy as [<- | Hy].
  - left; reflexivity.
  - right; left. apply Ha. assumption.
  - right; right. apply Ha. assumption.
  - apply IH; assumption.
Qed.

(** Inside a word: literals with the same text carry the same label, a command is expected under
    one level, nothing follows an undefined nonterminal. *)
Definition wpoint_decl (mv : list (wleaf * rx wleaf)) : Prop :=
  (forall t d l d' l' k k', In (WLit t d l, k) mv -> In (WLit t d' l', k') mv -> d = d' /\ l = l')
  /\ (forall c l l' k k', In (WCmd c l, k) mv -> In (WCmd c l', k') mv -> l = l')
  /\ (forall k, In (WAny, k) mv -> eps_only k = true).

Definition sub_lang (x : rx wleaf) (w : string) : Prop := tacc (rx wleaf) wnext nullable x w.

(** At a point of the grammar: the same for literals, and two different within-word items have
    no word in common. *)
Definition point_decl (mv : list (leaf * rx leaf)) : Prop :=
  (forall t d l d' l' k k', In (LLit t d l, k) mv -> In (LLit t d' l', k') mv -> d = d' /\ l = l')
  /\ (forall x l x' l' k k', In (LSub x l, k) mv -> In (LSub x' l', k') mv ->
                            LSub x l = LSub x' l' \/ forall w, ~ (sub_lang x w /\ sub_lang x' w)).

Lemma wpoint_ok_decl mv : wpoint_ok mv = true -> wpoint_decl mv.
Proof.
  intro H0. unfold wpoint_ok in H0. apply andb_true_iff in H0. destruct H0 as [H Hany]. split; [| split].
  - intros t d l d' l' k k' H1 H2.
    assert (I1 : In (WLit t d l) (map fst mv)) by (apply in_map_iff; exists (WLit t d l, k); split; [reflexivity | assumption]).
    assert (I2 : In (WLit t d' l') (map fst mv)) by (apply in_map_iff; exists (WLit t d' l', k'); split; [reflexivity | assumption]).
    destruct (all_pairs_spec _ _ H _ _ I1 I2) as [E | [E | E]].
    + inversion E; subst. split; reflexivity.
    + rewrite String.eqb_refl in E. cbn in E. apply andb_true_iff in E. destruct E as [Ed El].
      apply option_eqb_str_sound in Ed. apply N.eqb_eq in El. split; assumption.
    + rewrite String.eqb_refl in E. cbn in E. apply andb_true_iff in E. destruct E as [Ed El].
      apply option_eqb_str_sound in Ed. apply N.eqb_eq in El. split; symmetry; assumption.
  - intros c l l' k k' H1 H2.
    assert (I1 : In (WCmd c l) (map fst mv)) by (apply in_map_iff; exists (WCmd c l, k); split; [reflexivity | assumption]).
    assert (I2 : In (WCmd c l') (map fst mv)) by (apply in_map_iff; exists (WCmd c l', k'); split; [reflexivity | assumption]).
    destruct (all_pairs_spec _ _ H _ _ I1 I2) as [E | [E | E]].
    + inversion E; subst. reflexivity.
    + rewrite String.eqb_refl in E. cbn in E. apply N.eqb_eq in E. exact E.
    + rewrite String.eqb_refl in E. cbn in E. apply N.eqb_eq in E. symmetry. exact E.
  - intros k Hin. rewrite forallb_forall in Hany. apply (Hany (WAny, k) Hin).
Qed.

Lemma rx_wleaf_eqb_sound a b : rx_eqb wleaf_eqb a b = true -> a = b.
Proof. apply (rx_eqb_sound wleaf_eqb wleaf_eqb_sound). Qed.

Lemma wdisjoint_sound x x' : wdisjoint x x' = true -> forall w, ~ (sub_lang x w /\ sub_lang x' w).
Proof.
  unfold wdisjoint, sub_lang. intro H.
  apply (disjoint_sound (rx wleaf) (rx wleaf) wnext wnext nullable nullable
                        (rx_eqb wleaf_eqb) (rx_eqb wleaf_eqb) rx_wleaf_eqb_sound rx_wleaf_eqb_sound _ _ H).
Qed.

Lemma point_ok_decl mv : point_ok mv = true -> point_decl mv.
Proof.
  intro H. unfold point_ok in H. split.
  - intros t d l d' l' k k' H1 H2.
    assert (I1 : In (LLit t d l) (map fst mv)) by (apply in_map_iff; exists (LLit t d l, k); split; [reflexivity | assumption]).
    assert (I2 : In (LLit t d' l') (map fst mv)) by (apply in_map_iff; exists (LLit t d' l', k'); split; [reflexivity | assumption]).
    destruct (all_pairs_spec _ _ H _ _ I1 I2) as [E | [E | E]].
    + inversion E; subst. split; reflexivity.
    + rewrite String.eqb_refl in E. cbn in E. apply andb_true_iff in E. destruct E as [Ed El].
      apply option_eqb_str_sound in Ed. apply N.eqb_eq in El. split; assumption.
    + rewrite String.eqb_refl in E. cbn in E. apply andb_true_iff in E. destruct E as [Ed El].
      apply option_eqb_str_sound in Ed. apply N.eqb_eq in El. split; symmetry; assumption.
  - intros x l x' l' k k' H1 H2.
    assert (I1 : In (LSub x l) (map fst mv)) by (apply in_map_iff; exists (LSub x l, k); split; [reflexivity | assumption]).
    assert (I2 : In (LSub x' l') (map fst mv)) by (apply in_map_iff; exists (LSub x' l', k'); split; [reflexivity | assumption]).
    destruct (all_pairs_spec _ _ H _ _ I1 I2) as [E | [E | E]].
    + left; assumption.
    + apply orb_true_iff in E. destruct E as [E | E].
      * left. apply leaf_eqb_sound. assumption.
      * right. apply wdisjoint_sound. assumption.
    + apply orb_true_iff in E. destruct E as [E | E].
      * left. symmetry. apply leaf_eqb_sound. assumption.
      * right. intros w [W1 W2]. apply (wdisjoint_sound _ _ E w). split; assumption.
Qed.

(** *** Equalities used as parameters *)
Lemma option_eqb_str_refl (x : option string) : option_eqb String.eqb x x = true.
Proof. destruct x; cbn; [apply String.eqb_refl | reflexivity]. Qed.

Lemma wleaf_eqb_refl a : wleaf_eqb a a = true.
Proof.
  destruct a; cbn [wleaf_eqb]; try reflexivity.
  - rewrite String.eqb_refl, option_eqb_str_refl, N.eqb_refl. reflexivity.
  - rewrite String.eqb_refl, N.eqb_refl. reflexivity.
Qed.

Lemma leaf_eqb_refl a : leaf_eqb a a = true.
Proof.
  destruct a; cbn [leaf_eqb]; try reflexivity.
  - rewrite String.eqb_refl, option_eqb_str_refl, N.eqb_refl. reflexivity.
  - rewrite String.eqb_refl, N.eqb_refl. reflexivity.
  - rewrite (rx_eqb_refl wleaf_eqb wleaf_eqb_refl), N.eqb_refl. reflexivity.
Qed.

Lemma wsame_refl a : wsame_item a a = true.
Proof. destruct a; cbn [wsame_item]; [apply String.eqb_refl | apply wleaf_eqb_refl | reflexivity]. Qed.

Lemma wsame_sym a b : wsame_item a b = true -> wsame_item b a = true.
Proof.
  destruct a, b; cbn [wsame_item wleaf_eqb]; intro H; try discriminate; try reflexivity.
  - apply String.eqb_eq in H. subst. apply String.eqb_refl.
  - apply andb_true_iff in H. destruct H as [Hc Hl]. apply String.eqb_eq in Hc. apply N.eqb_eq in Hl. subst.
    rewrite String.eqb_refl, N.eqb_refl. reflexivity.
Qed.

Lemma wsame_trans a b c : wsame_item a b = true -> wsame_item b c = true -> wsame_item a c = true.
Proof.
  destruct a, b; cbn [wsame_item wleaf_eqb]; intro H; try discriminate; destruct c; cbn [wsame_item wleaf_eqb]; intro H'; try discriminate; try reflexivity.
  - apply String.eqb_eq in H. apply String.eqb_eq in H'. subst. apply String.eqb_refl.
  - apply andb_true_iff in H. destruct H as [Hc Hl]. apply String.eqb_eq in Hc. apply N.eqb_eq in Hl. subst. assumption.
Qed.

Lemma same_refl' a : same_item a a = true.
Proof. destruct a; cbn [same_item]; [apply String.eqb_refl | apply leaf_eqb_refl | reflexivity | apply leaf_eqb_refl]. Qed.

Lemma same_sym' a b : same_item a b = true -> same_item b a = true.
Proof.
  destruct a, b; cbn [same_item]; intro H; try discriminate; try reflexivity.
  - apply String.eqb_eq in H. subst. apply String.eqb_refl.
  - apply leaf_eqb_sound in H. inversion H; subst. apply leaf_eqb_refl.
  - apply leaf_eqb_sound in H. inversion H; subst. apply leaf_eqb_refl.
Qed.

Lemma same_trans' a b c : same_item a b = true -> same_item b c = true -> same_item a c = true.
Proof.
  destruct a, b; cbn [same_item]; intro H; try discriminate; destruct c; cbn [same_item]; intro H'; try discriminate; try reflexivity.
  - apply String.eqb_eq in H. apply String.eqb_eq in H'. subst. apply String.eqb_refl.
  - apply leaf_eqb_sound in H. inversion H; subst. assumption.
  - apply leaf_eqb_sound in H. inversion H; subst. assumption.
Qed.

(** *** The declarative domain *)
Definition prefix_free (ts : list string) : Prop :=
  forall s t, In s ts -> In t ts -> s = t \/ (String.prefix s t = false /\ String.prefix t s = false).

Definition word_in_domain (x : rx wleaf) : Prop :=
  (forall t, In t (wlit_texts x) -> t <> EmptyString)
  /\ prefix_free (wlit_texts x)
  /\ forall s, reach wsame_item [x] s -> wpoint_decl (mvs s).

Definition in_domain (e : expr) : Prop :=
  (forall x, In x (subwords_of (tr e)) -> word_in_domain x)
  /\ forall s, reach same_item (start e) s -> point_decl (mvs s).

Lemma wpoint_decl_ext mv mv' : (forall ak, In ak mv <-> In ak mv') -> wpoint_decl mv -> wpoint_decl mv'.
Proof.
  intros H [P1 [P2 P3]]. split; [| split].
  - intros t d l d' l' k k' H1 H2. apply (P1 t d l d' l' k k'); apply H; assumption.
  - intros c l l' k k' H1 H2. apply (P2 c l l' k k'); apply H; assumption.
  - intros k H1. apply P3. apply H. exact H1.
Qed.

Lemma point_decl_ext mv mv' : (forall ak, In ak mv <-> In ak mv') -> point_decl mv -> point_decl mv'.
Proof.
  intros H [P1 P2]. split.
  - intros t d l d' l' k k' H1 H2. apply (P1 t d l d' l' k k'); apply H; assumption.
  - intros x l x' l' k k' H1 H2. apply (P2 x l x' l' k k'); apply H; assumption.
Qed.

Lemma word_ok_sound x : word_ok x = true -> word_in_domain x.
Proof.
  unfold word_ok. intro H. apply andb_true_iff in H. destruct H as [H He]. apply andb_true_iff in H. destruct H as [Hn Hp].
  split; [| split].
  - intros t Ht E. rewrite forallb_forall in Hn. specialize (Hn t Ht). subst t. discriminate.
  - intros s t Hs Ht. destruct (all_pairs_spec _ _ Hp _ _ Hs Ht) as [E | [E | E]]; [left; assumption | |];
      unfold prefix_free2 in E; apply orb_true_iff in E; destruct E as [E | E].
    + left. apply String.eqb_eq. assumption.
    + right. apply negb_true_iff in E. apply orb_false_iff in E. assumption.
    + left. symmetry. apply String.eqb_eq. assumption.
    + right. apply negb_true_iff in E. apply orb_false_iff in E. destruct E; split; assumption.
  - apply (explore_reach wleaf_eqb wsame_item wpoint_ok wleaf_eqb_sound wleaf_eqb_refl wsame_refl wsame_sym wsame_trans
                         wpoint_decl wpoint_decl_ext wpoint_ok_decl). assumption.
Qed.

Theorem C01_domain_sound e : C01_domain e = true -> in_domain e.
Proof.
  unfold C01_domain. intro H. apply andb_true_iff in H. destruct H as [Hw He]. split.
  - intros x Hx. rewrite forallb_forall in Hw. apply word_ok_sound. apply Hw. assumption.
  - apply (explore_reach leaf_eqb same_item point_ok leaf_eqb_sound leaf_eqb_refl same_refl' same_sym' same_trans'
                         point_decl point_decl_ext point_ok_decl). assumption.
Qed.

(** *** The points [Spec.Meaning] visits are reachable points *)
Lemma dedup_leaf_rep l : forall a, In a l -> exists a0, In a0 (dedup_leaf l) /\ a = a0.
Proof.
  induction l as [| x l IH]; intros a Hin; [destruct Hin |].
  cbn [dedup_leaf]. destruct (existsb (leaf_eqb x) (dedup_leaf l)) eqn:E.
  - destruct Hin as [<- | Hin]; [| apply IH; assumption].
    apply existsb_exists in E. destruct E as [a0 [H0 Hs]]. apply leaf_eqb_sound in Hs. exists a0. split; assumption.
  - destruct Hin as [<- | Hin].
    + exists x. split; [left; reflexivity | reflexivity].
    + destruct (IH a Hin) as [a0 [H0 Hs]]. exists a0. split; [right; assumption | assumption].
Qed.

Lemma run_nil en ws : run en [] ws = [].
Proof. induction ws as [| w ws IH]; [reflexivity |]. cbn [run fold_left]. exact IH. Qed.

Lemma same_item_lit w d l a : same_item (LLit w d l) a = true <-> exists d' l', a = LLit w d' l'.
Proof.
  destruct a; cbn [same_item leaf_eqb]; split; intro H; try discriminate; try (destruct H as [d' [l' H]]; discriminate).
  - apply String.eqb_eq in H. subst. eauto.
  - destruct H as [d' [l' H]]. inversion H; subst. apply String.eqb_refl.
Qed.

Lemma same_item_nonlit a a' : is_lit a = false -> (same_item a a' = true <-> a = a').
Proof.
  intro Hl. destruct a; try discriminate; cbn [same_item]; (split; [apply leaf_eqb_sound | intros <-; apply leaf_eqb_refl]).
Qed.

Lemma step_istep en s w :
  ambiguous_step en s w = false -> step en s w <> [] ->
  exists a, In a (map fst (moves s)) /\ istep same_item s a (step en s w).
Proof.
  unfold ambiguous_step, step. set (mv := moves s).
  destruct (lit_next w mv) as [| k0 r0] eqn:El.
  - destruct (mid_next en w mv) as [| k1 r1] eqn:Em.
    + (* catch-all *)
      intros _ Hne. destruct (dedup_state (any_next mv)) as [| k r] eqn:Ea; [contradiction |].
      assert (Hk : In k (any_next mv)) by (apply dedup_state_In; rewrite Ea; left; reflexivity).
      apply any_next_In in Hk. exists LAny. split.
      * apply in_map_iff. exists (LAny, k). split; [reflexivity | assumption].
      * intro k'. rewrite <- Ea, dedup_state_In, any_next_In. split.
        -- intro H. exists LAny. split; [assumption | reflexivity].
        -- intros [a' [Hin Hs]]. apply (same_item_nonlit LAny a' eq_refl) in Hs. subst a'. assumption.
    + (* exactly one within-word or command item accepts the word *)
      intros Hamb _.
      assert (Hk1 : In k1 (mid_next en w mv)) by (rewrite Em; left; reflexivity).
      apply mid_next_In in Hk1. destruct Hk1 as [a [Hin Ha]].
      assert (Huniq : forall a', In a' (map fst (filter (fun ak => mid_accepts en (fst ak) w) mv)) -> a' = a).
      { intros a' Ha'.
        assert (Hain : In a (map fst (filter (fun ak => mid_accepts en (fst ak) w) mv))).
        { apply in_map_iff. exists (a, k1). split; [reflexivity | apply filter_In; split; assumption]. }
        destruct (dedup_leaf_rep _ _ Ha') as [x [Hx ->]]. destruct (dedup_leaf_rep _ _ Hain) as [y [Hy ->]].
        destruct (dedup_leaf (map fst (filter (fun ak => mid_accepts en (fst ak) w) mv))) as [| z [| z' rest]];
          [destruct Hx | | discriminate].
        destruct Hx as [<- | []]. destruct Hy as [<- | []]. reflexivity. }
      exists a. split.
      * apply in_map_iff. exists (a, k1). split; [reflexivity | assumption].
      * intro k. rewrite dedup_state_In, <- Em, mid_next_In. split.
        -- intros [a' [Hin' Ha']]. exists a'. split; [assumption |].
           assert (E : a' = a).
           { apply Huniq. apply in_map_iff. exists (a', k). split; [reflexivity | apply filter_In; split; assumption]. }
           subst a'. apply same_refl'.
        -- intros [a' [Hin' Hs]]. destruct (mid_accepts_not_lit en a w Ha) as [Hl _].
           apply (same_item_nonlit a a' Hl) in Hs. subst a'. exists a. split; assumption.
  - (* a literal *)
    intros _ _.
    assert (Hk0 : In k0 (lit_next w mv)) by (rewrite El; left; reflexivity).
    apply lit_next_In in Hk0. destruct Hk0 as [d [l Hin]].
    exists (LLit w d l). split.
    + apply in_map_iff. exists (LLit w d l, k0). split; [reflexivity | assumption].
    + intro k. rewrite dedup_state_In, <- El, lit_next_In. split.
      * intros [d' [l' H]]. exists (LLit w d' l'). split; [assumption |]. apply same_item_lit. eauto.
      * intros [a' [H Hs]]. apply same_item_lit in Hs. destruct Hs as [d' [l' ->]]. eauto.
Qed.

Theorem run_reach en s0 : forall ws s,
    reach same_item s0 s -> ambiguous_run en s ws = false -> run en s ws <> [] ->
    reach same_item s0 (run en s ws).
Proof.
  induction ws as [| w ws IH]; intros s R Hamb Hne; [assumption |].
  cbn [ambiguous_run] in Hamb. apply orb_false_iff in Hamb. destruct Hamb as [Ha Hr].
  cbn [run fold_left] in *. change (fold_left (step en) ws (step en s w)) with (run en (step en s w) ws) in *.
  assert (Hs : step en s w <> []).
  { intro E. rewrite E, run_nil in Hne. apply Hne. reflexivity. }
  destruct (step_istep en s w Ha Hs) as [a [Hin Hi]].
  apply IH; [| assumption | assumption].
  eapply reach_next; eassumption.
Qed.

(** Inside the decided domain, at every point the specification reaches along an unambiguous
    line, literals with the same text carry the same label and two different within-word items
    have no word in common. *)
Theorem C01_domain_along_runs e en ws :
  C01_domain e = true -> ambiguous_run en (start e) ws = false -> matched en e ws = true ->
  point_decl (moves (run en (start e) ws)).
Proof.
  intros Hd Hamb Hm. destruct (C01_domain_sound e Hd) as [_ Hp].
  apply Hp. apply run_reach; [apply reach_here; apply seq_refl | assumption |].
  unfold matched in Hm. destruct (run en (start e) ws); [discriminate | discriminate].
Qed.
