(** C17, for ALL inputs: every invocation Model/BashSem.v logs has one of the documented argument shapes and
    names a command that exists. *)
From CG Require Import Base.Prelude Model.Dfa Model.Glob Model.BashSem.
From CG Require Import Proofs.C12Proofs.

Inductive shape (ws : list string) (p : string) : invocation -> Prop :=
| ShWalk cid : shape ws p (cid, EmptyString, EmptyString)                         (* matching a complete word *)
| ShCursor cid : shape ws p (cid, p, EmptyString)                                 (* completing at the cursor *)
| ShInWord cid w ci : In w (p :: ws) -> shape ws p (cid, sdrop ci w, stake ci w). (* inside the word w *)

Definition extends (P : invocation -> Prop) (log log' : list invocation) : Prop :=
  exists new, log' = new ++ log /\ Forall P new.

Lemma extends_refl P log : extends P log log.
Proof. exists []. split; [reflexivity|constructor]. Qed.

Lemma extends_trans P a b c : extends P a b -> extends P b c -> extends P a c.
Proof.
  intros (n1 & -> & F1) (n2 & -> & F2). exists (n2 ++ n1). split; [now rewrite app_assoc|].
  apply Forall_app. now split.
Qed.

Lemma extends_one (P : invocation -> Prop) x log : P x -> extends P log (x :: log).
Proof. intros H. exists [x]. split; [reflexivity|]. now constructor. Qed.

Tactic Notation "bind" hyp(H) "as" ident(E) :=
  match type of H with
  | obind ?x _ = Ok _ => destruct x eqn:E; cbn [obind] in H; try discriminate
  end.

Section Shapes.
  Variables (tabs : alltables) (e : env).

  Definition exists_cmd (inv : invocation) : Prop := nthN (a_commands tabs) (fst (fst inv)) <> None.

  Lemma run_cmd_extends (P : invocation -> Prop) v cid a1 a2 log cands log' :
    (nthN (a_commands tabs) cid <> None -> P (cid, a1, a2)) ->
    run_cmd v tabs e cid a1 a2 log = Ok (cands, log') -> extends P log log'.
  Proof.
    unfold run_cmd. intros HP H. destruct (nthN (a_commands tabs) cid) eqn:E; [|discriminate].
    injection H as _ <-. apply extends_one. apply HP. discriminate.
  Qed.

  (** inside a word *)
  Section Word.
    Variables (word : string).
    Definition PW (inv : invocation) : Prop :=
      exists_cmd inv /\ exists ci, snd (fst inv) = sdrop ci word /\ snd inv = stake ci word.

    Lemma cmd_loop_extends v c cmds ci : forall log s log',
        cmd_loop v c tabs e cmds (sdrop ci word) (stake ci word) log = Ok (s, log') -> extends PW log log'.
    Proof.
      induction cmds as [|[cid to] r IH]; intros log s log' H.
      - cbn in H. injection H as _ <-. apply extends_refl.
      - cbn [cmd_loop] in H. bind H as E0. destruct a as [cands log1].
        assert (X : extends PW log log1).
        { eapply run_cmd_extends; [|exact E0]. intros Hc. split; [exact Hc|]. now exists ci. }
        destruct cands as [|c0 cs].
        + eapply extends_trans; [exact X|]. eapply IH; eauto.
        + bind H as E1. destruct a as [| |].
          * injection H as _ <-. exact X.
          * injection H as _ <-. exact X.
          * eapply extends_trans; [exact X|]. eapply IH; eauto.
    Qed.

    Lemma sw_loop_extends v c T acc : forall fuel state ci log m st ci' log',
        sw_loop fuel v c tabs e T acc word state ci log = Ok (m, st, ci', log') -> extends PW log log'.
    Proof.
      induction fuel as [|fuel IH]; intros state ci log m st ci' log' H; [discriminate|].
      rewrite sw_loop_S in H.
      destruct (Nat.leb (String.length word) ci).
      { injection H as _ _ _ <-. apply extends_refl. }
      destruct (star_first v c T state).
      { injection H as _ _ _ <-. apply extends_refl. }
      cbv zeta in H. bind H as E0.
      destruct a as [st1 adv| |].
      - eapply IH; eauto.
      - injection H as _ _ _ <-. apply extends_refl.
      - bind H as E1. destruct a as [s2 log2].
        assert (X : extends PW log log2).
        { destruct (t_mcmd T) as [ct|]; [|injection E1 as _ <-; apply extends_refl].
          destruct (assocN state ct) as [row|]; [|injection E1 as _ <-; apply extends_refl].
          eapply cmd_loop_extends; eauto. }
        destruct s2 as [st2 adv| |].
        + eapply extends_trans; [exact X|]. eapply IH; eauto.
        + injection H as _ _ _ <-. exact X.
        + destruct (t_mstar T) as [stars|].
          * destruct (has_key state stars); injection H as _ _ _ <-; exact X.
          * injection H as _ _ _ <-. exact X.
    Qed.

    Lemma sw_cmds_level_extends v ci : forall cids sc sm log sc' sm' log',
        sw_cmds_level v tabs e cids (sdrop ci word) (stake ci word) sc sm log = Ok (sc', sm', log') ->
        extends PW log log'.
    Proof.
      induction cids as [|cid r IH]; intros sc sm log sc' sm' log' H.
      - cbn in H. injection H as _ _ <-. apply extends_refl.
      - cbn [sw_cmds_level] in H. bind H as E0. destruct a as [cands log1]. bind H as E1.
        eapply extends_trans; [|eapply IH; eauto].
        eapply run_cmd_extends; [|exact E0]. intros Hc. split; [exact Hc|]. now exists ci.
    Qed.

    Lemma sw_levels_extends v T state ci : forall n level sc sm log adds log',
        sw_levels n level v tabs e T state (stake ci word) (sdrop ci word) sc sm log = Ok (adds, log') ->
        extends PW log log'.
    Proof.
      induction n as [|n IH]; intros level sc sm log adds log' H.
      - cbn in H. injection H as _ <-. apply extends_refl.
      - cbn [sw_levels] in H. bind H as E0. bind H as E1. destruct a0 as [[sc2 sm2] log2].
        assert (X : extends PW log log2).
        { destruct (t_ccmd T) as [cc|]; [|injection E1 as _ _ <-; apply extends_refl].
          eapply sw_cmds_level_extends; eauto. }
        destruct sm2 as [|x r].
        + eapply extends_trans; [exact X|]. eapply IH; eauto.
        + injection H as _ <-. exact X.
    Qed.

    Lemma subword_matches_extends v T acc log m log' :
      subword_matches v tabs e T acc word log = Ok (m, log') -> extends PW log log'.
    Proof.
      unfold subword_matches, subword_matches_from. intros H. bind H as E0.
      destruct a as [[[m1 s1] c1] l1]. injection H as _ <-. eapply sw_loop_extends; eauto.
    Qed.

    Lemma subword_complete_extends v T log adds log' :
      subword_complete v tabs e T word log = Ok (adds, log') -> extends PW log log'.
    Proof.
      unfold subword_complete, subword_complete_from. intros H. bind H as E0.
      destruct a as [[[m1 s1] c1] l1].
      eapply extends_trans; [eapply sw_loop_extends; eauto|]. eapply sw_levels_extends; eauto.
    Qed.
  End Word.

  Variables (ws : list string) (p : string).
  Definition Q (inv : invocation) : Prop := shape ws p inv /\ exists_cmd inv.

  Lemma PW_Q w : In w (p :: ws) -> forall inv, PW w inv -> Q inv.
  Proof.
    intros Hin [[cid a1] a2] (Hc & ci & H1 & H2). cbn [fst snd] in *. subst a1 a2.
    split; [now apply ShInWord|exact Hc].
  Qed.

  Lemma extends_impl (P P' : invocation -> Prop) a b : (forall x, P x -> P' x) -> extends P a b -> extends P' a b.
  Proof. intros H (n & -> & F). exists n. split; [reflexivity|]. eapply Forall_impl; eauto. Qed.

  Lemma top_sub_loop_extends v w : In w (p :: ws) -> forall row log r log',
      top_sub_loop v tabs e row w log = Ok (r, log') -> extends Q log log'.
  Proof.
    intros Hin. induction row as [|[sid to] rest IH]; intros log r log' H.
    - cbn in H. injection H as _ <-. apply extends_refl.
    - cbn [top_sub_loop] in H. destruct (subword_tables (a_subwords tabs) sid) as [T|]; [|discriminate].
      bind H as E0. destruct a as [m log1].
      assert (X : extends Q log log1).
      { eapply extends_impl; [apply (PW_Q w Hin)|]. eapply subword_matches_extends; eauto. }
      destruct m.
      + injection H as _ <-. exact X.
      + eapply extends_trans; [exact X|]. eapply IH; eauto.
  Qed.

  Lemma top_cmd_loop_extends v w last : forall cmds log r log',
      top_cmd_loop v tabs e cmds w last log = Ok (r, log') -> extends Q log log'.
  Proof.
    induction cmds as [|[cid to] rest IH]; intros log r log' H.
    - cbn in H. injection H as _ <-. apply extends_refl.
    - cbn [top_cmd_loop] in H. bind H as E0. destruct a as [cands log1].
      assert (X : extends Q log log1).
      { eapply run_cmd_extends; [|exact E0]. intros Hc. split; [apply ShWalk|exact Hc]. }
      destruct cands as [|c cs].
      + eapply extends_trans; [exact X|]. eapply IH; eauto.
      + bind H as E1. destruct a.
        * injection H as _ <-. exact X.
        * destruct (last && quirky v).
          -- injection H as _ <-. exact X.
          -- eapply extends_trans; [exact X|]. eapply IH; eauto.
  Qed.

  Lemma walk_extends v : forall words state log r log',
      incl words ws ->
      walk v tabs e state words log = Ok (r, log') -> extends Q log log'.
  Proof.
    induction words as [|w rest IH]; intros state log r log' Hincl H.
    - cbn in H. injection H as _ <-. apply extends_refl.
    - assert (Hw : In w (p :: ws)) by (right; apply Hincl; now left).
      assert (Hrest : incl rest ws) by (intros x Hx; apply Hincl; now right).
      cbn [walk] in H.
      destruct (match assocN state (t_mlit (a_main tabs)) with
                | Some st => top_lit_loop (indexed_from 0 (literal_texts (a_main tabs))) st w
                | None => None
                end) as [to|].
      { eapply IH; eauto. }
      bind H as E0. destruct a as [s1 log1].
      assert (X1 : extends Q log log1).
      { destruct (assocN state (a_subtrans tabs)) as [row|]; [|injection E0 as _ <-; apply extends_refl].
        bind E0 as E1. eapply top_sub_loop_extends; eauto. }
      destruct s1 as [to|].
      { eapply extends_trans; [exact X1|]. eapply IH; eauto. }
      bind H as E2. destruct a as [s2 log2].
      assert (X2 : extends Q log1 log2).
      { destruct (t_mcmd (a_main tabs)) as [ct|]; [|injection E2 as _ <-; apply extends_refl].
        destruct (assocN state ct) as [row|]; [|injection E2 as _ <-; apply extends_refl].
        eapply top_cmd_loop_extends; eauto. }
      pose proof (extends_trans _ _ _ _ X1 X2) as X.
      destruct s2 as [to| |].
      + eapply extends_trans; [exact X|]. eapply IH; eauto.
      + injection H as _ <-. exact X.
      + destruct (match t_mstar (a_main tabs) with Some stars => assocN state stars | None => None end) as [to|].
        * eapply extends_trans; [exact X|]. eapply IH; eauto.
        * injection H as _ <-. exact X.
  Qed.

  Lemma top_subs_level_extends v : forall sids matches log m' log',
      top_subs_level v tabs e sids p matches log = Ok (m', log') -> extends Q log log'.
  Proof.
    induction sids as [|sid r IH]; intros matches log m' log' H.
    - cbn in H. injection H as _ <-. apply extends_refl.
    - cbn [top_subs_level] in H. destruct (subword_tables (a_subwords tabs) sid) as [T|]; [|discriminate].
      bind H as E0. destruct a as [add log1].
      eapply extends_trans; [|eapply IH; eauto].
      eapply extends_impl; [apply (PW_Q p (or_introl eq_refl))|]. eapply subword_complete_extends; eauto.
  Qed.

  Lemma top_cmds_level_extends v : forall cids cands matches log c' m' log',
      top_cmds_level v tabs e cids p cands matches log = Ok (c', m', log') -> extends Q log log'.
  Proof.
    induction cids as [|cid r IH]; intros cands matches log c' m' log' H.
    - cbn in H. injection H as _ _ <-. apply extends_refl.
    - cbn [top_cmds_level] in H. bind H as E0. destruct a as [cands1 log1]. bind H as E1.
      eapply extends_trans; [|eapply IH; eauto].
      eapply run_cmd_extends; [|exact E0]. intros Hc. split; [apply ShCursor|exact Hc].
  Qed.

  Lemma top_levels_extends v state : forall n level cands matches log reply log',
      top_levels n level v tabs e state p cands matches log = Ok (reply, log') -> extends Q log log'.
  Proof.
    induction n as [|n IH]; intros level cands matches log reply log' H.
    - cbn in H. injection H as _ <-. apply extends_refl.
    - cbn [top_levels] in H. bind H as E0. bind H as E1. destruct a0 as [matches2 log2]. bind H as E2.
      destruct a0 as [[cands3 matches3] log3].
      assert (X2 : extends Q log log2) by (eapply top_subs_level_extends; eauto).
      assert (X3 : extends Q log2 log3).
      { destruct (t_ccmd (a_main tabs)) as [cc|]; [|injection E2 as _ _ <-; apply extends_refl].
        eapply top_cmds_level_extends; eauto. }
      pose proof (extends_trans _ _ _ _ X2 X3) as X.
      destruct matches3 as [|x r].
      + eapply extends_trans; [exact X|]. eapply IH; eauto.
      + bind H as E3. injection H as _ <-. exact X.
  Qed.

  Theorem run_from_shapes v start r :
    run_from v start tabs e ws p = Ok r -> Forall Q (r_log r).
  Proof.
    unfold run_from. intros H. bind H as E0. destruct a as [st log].
    assert (X : extends Q [] log) by (eapply walk_extends; [apply incl_refl|eauto]).
    destruct st as [state|].
    - bind H as E1. destruct a as [reply log1]. injection H as <-. cbn [r_log].
      assert (Y : extends Q log log1) by (eapply top_levels_extends; eauto).
      destruct (extends_trans _ _ _ _ X Y) as (n & -> & F). rewrite app_nil_r.
      apply Forall_rev. exact F.
    - injection H as <-. cbn [r_log]. destruct X as (n & -> & F). rewrite app_nil_r. apply Forall_rev. exact F.
  Qed.
End Shapes.
