(** [DfaMeaning.sim] for any kind of leaf: the words over inputs an automaton accepts from a state
    are the words a set of residuals denotes, leaf by leaf through [inpA].  Used inside words
    (leaves [wleaf]) the same way [DfaMeaning] uses it for whole words. *)
From CG Require Import Base.Prelude Model.Ast Model.Dfa Spec.Lang Spec.Rx Spec.DfaEquiv.
From CG Require Import Proofs.RxFacts Proofs.TablesSound Proofs.LangBridge Proofs.DfaMeaning Proofs.DomainFacts.

Section SimG.
  Context {A : Type}.
  Variable inpA : A -> inp.
  Variable d : dfa.
  Hypothesis Hwf : dfa_wf d.
  Hypothesis Hinputs : NoDup (d_inputs d).

  Definition gsim (s : N) (S : list (rx A)) : Prop :=
    forall xs, dacc d s xs <-> exists k ls, In k S /\ denotes k ls /\ xs = map inpA ls.

  Lemma mvs_In (S : list (rx A)) a k : In (a, k) (mvs S) <-> exists r, In r S /\ In (a, k) (lf r).
  Proof. unfold mvs. rewrite in_flat_map. reflexivity. Qed.

  Theorem gsim_step s S i t x S' :
    gsim s S -> Dfa.step d s i = Some t -> nthN (d_inputs d) i = Some x ->
    (forall k, In k S' <-> exists a, In (a, k) (mvs S) /\ inpA a = x) ->
    gsim t S'.
  Proof.
    intros Hsim Es Hi HS' xs. split.
    - intro Hd.
      assert (Hd' : dacc d s (x :: xs)) by (apply dacc_cons; exists i, t; repeat split; assumption).
      apply Hsim in Hd'. destruct Hd' as [k [ls [Hk [Hden E]]]].
      destruct ls as [| a ls]; [discriminate |]. cbn [map] in E. inversion E; subst.
      apply lf_correct in Hden. destruct Hden as [k' [Hlf Hden']].
      exists k', ls. split; [| split; [assumption | reflexivity]].
      apply HS'. exists a. split; [apply mvs_In; exists k; split; assumption | reflexivity].
    - intros [k' [ls [Hk' [Hden ->]]]]. apply HS' in Hk'. destruct Hk' as [a [Hmv Ha]].
      apply mvs_In in Hmv. destruct Hmv as [k [Hk Hlf]].
      assert (Hd' : dacc d s (map inpA (a :: ls))).
      { apply Hsim. exists k, (a :: ls). split; [assumption | split; [| reflexivity]]. eapply lf_sound; eassumption. }
      cbn [map] in Hd'. apply dacc_cons in Hd'. destruct Hd' as [j [t' [Es' [Hj Hd']]]].
      rewrite Ha in Hj. rewrite (nthN_inj d Hinputs j i x Hj Hi) in Es'. rewrite Es in Es'. inversion Es'; subst. assumption.
  Qed.

  Theorem gsim_trans_iff s S x :
    gsim s S -> (forall k, In k S -> zero_free k = true) ->
    (forall i t, Dfa.step d s i = Some t -> coreachable d t) ->
    ((exists t, trans_on d s x t) <-> exists a k, In (a, k) (mvs S) /\ inpA a = x).
  Proof.
    intros Hsim G Hco. split.
    - intros [t [i [Es Hi]]]. destruct (Hco i t Es) as [w Hw].
      destruct (accepted_has_inputs d Hwf w t Hw) as [xs [Hd _]].
      assert (Hd' : dacc d s (x :: xs)) by (apply dacc_cons; exists i, t; repeat split; assumption).
      apply Hsim in Hd'. destruct Hd' as [k [ls [Hk [Hden E]]]].
      destruct ls as [| a ls]; [discriminate |]. cbn [map] in E. inversion E; subst.
      apply lf_correct in Hden. destruct Hden as [k' [Hlf _]].
      exists a, k'. split; [apply mvs_In; exists k; split; assumption | reflexivity].
    - intros [a [k' [Hmv Ha]]].
      apply mvs_In in Hmv. destruct Hmv as [k [Hk Hlf]].
      assert (Hz : zero_free k' = true) by (eapply zero_free_lf; [apply G; exact Hk | exact Hlf]).
      destruct (zero_free_inhabited k' Hz) as [ls Hls].
      assert (Hd' : dacc d s (map inpA (a :: ls))).
      { apply Hsim. exists k, (a :: ls). split; [assumption | split; [| reflexivity]]. eapply lf_sound; eassumption. }
      cbn [map] in Hd'. apply dacc_cons in Hd'. destruct Hd' as [j [t [Es [Hj _]]]].
      exists t, j. rewrite Ha in Hj. split; assumption.
  Qed.

  Lemma gsim_accepting s S : gsim s S -> (is_accepting d s = true <-> exists k, In k S /\ nullable k = true).
  Proof.
    intro Hsim. rewrite <- (dacc_nil d), (Hsim []). split.
    - intros [k [ls [Hk [Hden E]]]]. destruct ls; [| discriminate]. exists k. split; [assumption | apply nullable_denotes; assumption].
    - intros [k [Hk Hn]]. exists k, []. split; [assumption | split; [apply nullable_denotes; assumption | reflexivity]].
  Qed.
End SimG.
