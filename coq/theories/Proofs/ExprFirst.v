(** Expression round trip, part 3: how a printed expression starts ([FirstOk]) and what its
    children are followed by. *)
From CG Require Import Base.Prelude Model.Ast Model.Lexer Model.Parser Spec.Printer
  Proofs.LexBase Proofs.LexBlanks Proofs.LexTerminal Proofs.LexTokens Proofs.LexCommand
  Proofs.ExprDefs Proofs.ExprLift.
From CGgen Require Import Consts.

(** [t] starts with a character an expression can start with, and [t ++ r] not with [...] *)
Definition first_ok (t r : string) : Prop :=
  exists ch s, t = String ch s /\ ustart ch = true /\ starts_with "..." (append t r) = false.

Lemma first_ok_app : forall t x r, first_ok t (append x r) -> first_ok (append t x) r.
Proof.
  intros t x r (ch & s & E & U1 & D). subst t. exists ch, (append s x). cbn [append].
  repeat split; auto. rewrite app_assoc_s. exact D.
Qed.

Lemma ustart_facts : forall ch, ustart ch = true ->
    blank_start ch = false /\ Ascii.eqb ch DQUOTE = false /\ no_unary ch = false.
Proof.
  intros ch H. repeat split.
  - pose proof (implb_elim _ _ (blank_not_ustart ch)). destruct (blank_start ch); auto.
    specialize (H0 eq_refl). rewrite H in H0. discriminate.
  - revert H. revert ch. 
    assert (X : forall ch, implb (ustart ch) (negb (Ascii.eqb ch DQUOTE)) = true) by by_enum.
    intros ch H. pose proof (implb_elim _ _ (X ch) H). apply negb_true_iff in H0. exact H0.
  - pose proof (implb_elim _ _ (ustart_not_no_unary ch) H). apply negb_true_iff in H0. exact H0.
Qed.

Lemma first_ok_skips : forall t r, first_ok t r -> skips (append t r) = append t r.
Proof.
  intros t r (ch & s & E & U1 & D). subst t. apply skips_no_blank. cbn [append hd_in].
  destruct (ustart_facts ch U1) as (B & _). rewrite B. reflexivity.
Qed.

Lemma first_ok_noq : forall t r, first_ok t r -> noq (append t r) = true.
Proof.
  intros t r (ch & s & E & U1 & D). subst t. unfold noq. cbn [append hd_in].
  destruct (ustart_facts ch U1) as (_ & Q & _). rewrite Q. reflexivity.
Qed.

Lemma first_ok_len : forall t r, first_ok t r -> (String.length r < String.length (append t r))%nat.
Proof. intros t r (ch & s & E & _). subst t. cbn [append String.length]. rewrite length_app_s. lia. Qed.

(** *** Stoppers built by the printer *)

Lemma no_unary_ndots : forall r, hd_in no_unary r = true ->
    hd_in (fun c => negb (is_regular c)) r = true /\ hd_in (fun c => negb (Ascii.eqb c BACKSLASH)) r = true
    /\ ndots r = 0%nat.
Proof.
  intros [|ch r] H; cbn [hd_in ndots] in *; auto.
  apply no_unary_facts in H. destruct H as (R & B & D & _). unfold is_dot. rewrite R, B, D. auto.
Qed.

Lemma c4_lit_rest : forall g r, c4 r -> lit_rest g r.
Proof. intros g r H. destruct (no_unary_ndots r H) as (A & B & C). repeat split; auto. Qed.

(** at the levels that demand a stopper character, the extra conditions are implied *)
Lemma st_extra : forall ctx e r, c4 r -> c3 r -> extra ctx e r.
Proof. intros ctx e r H4 H3. split; intros _; [exact H3 | apply c4_lit_rest; exact H4]. Qed.

Lemma st3_extra : forall ctx e r, st 3 r -> extra ctx e r.
Proof. intros ctx e r (_ & S4 & S3 & _). apply st_extra; [apply S4|apply S3]; lia. Qed.

Lemma ws_start_facts : forall ch, ws_start ch = true -> no_unary ch = true /\ blank_start ch = true.
Proof.
  intros ch H. split.
  - exact (implb_elim _ _ (ws_no_unary ch) H).
  - exact (implb_elim _ _ (ws_blank ch) H).
Qed.

(** a post-unary gap followed by a character that is itself a stopper *)
Lemma post_gap_c4 : forall g ch r, no_unary ch = true -> c4 (append (gap_text (post_gap g)) (String ch r)).
Proof. intros. unfold c4. apply post_gap_hd. cbn [hd_in]. assumption. Qed.

Lemma skips_post_gap_char : forall g ch r, blank_start ch = false ->
    skips (append (gap_text (post_gap g)) (String ch r)) = String ch r.
Proof. intros. rewrite skips_gap. apply skips_no_blank. cbn [hd_in]. rewrite H. reflexivity. Qed.

Lemma st0_closer : forall g ch r,
    no_unary ch = true -> blank_start ch = false -> Ascii.eqb ch DQUOTE = false -> Ascii.eqb ch BAR = false ->
    st 0 (append (gap_text (post_gap g)) (String ch r)).
Proof.
  intros g ch r N B Q Br. unfold st, c5, c3, c2, c1, c0, noq, nobar.
  rewrite skips_post_gap_char by assumption. cbn [hd_in]. rewrite Q, Br, N.
  repeat split; intros; auto; try (apply post_gap_c4; assumption).
  apply no_unary_facts in N. destruct N as (_ & _ & D & _).
  unfold starts_with. cbn [strip_prefix]. change "."%char with DOT. rewrite Ascii.eqb_sym, D. reflexivity.
Qed.

Lemma st0_rbrack : forall g r, st 0 (append (gap_text (post_gap g)) (String RBRACK r)).
Proof. intros. apply st0_closer; vm_compute; reflexivity. Qed.

Lemma st0_rparen : forall g r, st 0 (append (gap_text (post_gap g)) (String RPAREN r)).
Proof. intros. apply st0_closer; vm_compute; reflexivity. Qed.

Lemma st0_semi : forall g r, st 0 (append (gap_text (post_gap g)) (String SEMI r)).
Proof. intros. apply st0_closer; vm_compute; reflexivity. Qed.

Lemma st0_end : forall g, st 0 (gap_text (post_gap g)).
Proof.
  intros. rewrite <- (app_nil_r_s (gap_text (post_gap g))).
  unfold st, c5, c4, c3, c2, c1, c0, noq, nobar. rewrite skips_gap.
  replace (skips EmptyString) with EmptyString by reflexivity. cbn [hd_in].
  repeat split; intros; auto. apply post_gap_hd. reflexivity.
Qed.

(** before a description: the sub-word level stops *)
Lemma st4_descr : forall g d r, st 4 (append (gap_text (post_gap g)) (append (descr_text d) r)).
Proof.
  intros. unfold descr_text. cbn [append]. unfold st, c5, c4.
  rewrite skips_post_gap_char by (vm_compute; reflexivity).
  repeat split; intros; try lia; auto.
  apply post_gap_c4. vm_compute; reflexivity.
Qed.

Lemma lit_rest_descr : forall gd g d r, lit_rest gd (append (gap_text (post_gap g)) (append (descr_text d) r)).
Proof. intros. apply c4_lit_rest. unfold descr_text. cbn [append]. apply post_gap_c4. vm_compute; reflexivity. Qed.

(** before [...]: what an atom under [Many1] is followed by *)
Lemma many_rest : forall g r,
    noq (skips (append (gap_text (post_gap g)) (append DOTS3 r))) = true
    /\ lit_rest true (append (gap_text (post_gap g)) (append DOTS3 r)).
Proof.
  intros. split.
  - unfold DOTS3. cbn [append]. rewrite skips_post_gap_char by (vm_compute; reflexivity). reflexivity.
  - destruct (post_gap g) as [|b g'] eqn:E.
    + cbn [gap_text append]. unfold DOTS3. cbn [append]. repeat split; try (vm_compute; reflexivity).
      right. split; auto. cbn [ndots]. replace (is_dot ".") with true by (vm_compute; reflexivity). lia.
    + apply c4_lit_rest. rewrite <- E. unfold DOTS3. cbn [append].
      unfold c4. destruct g as [|b0 g0]; [discriminate|].
      destruct b0 as [w| |body]; cbn; auto. destruct w; reflexivity.
Qed.

(** separators *)
Lemma seq_sep_st3 : forall L k t r, first_ok t r -> st 3 (append (seq_sep L k) (append t r)).
Proof.
  intros L k t r Hf. unfold seq_sep.
  pose proof (gap1_hd (fst (nl_sep L k)) (append t r)) as Hh.
  unfold st, c5, c4, c3. rewrite skips_gap, (first_ok_skips _ _ Hf).
  destruct Hf as (ch & s & E & U1 & D).
  repeat split; intros; try lia; auto.
  - destruct (append (gap_text (gap1 (fst (nl_sep L k)))) (append t r)) as [|x y]; [discriminate|].
    cbn [hd_is hd_in] in *. apply ws_start_facts in Hh. tauto.
  - apply first_ok_noq. exists ch, s. auto.
Qed.

Lemma bar_sep_st : forall g1 x r,
    let rest := append (gap_text (post_gap g1)) (String BAR x) in
    c5 (append rest r) /\ c4 (append rest r) /\ c3 (append rest r) /\ c2 (append rest r)
    /\ skips (append rest r) = String BAR (append x r).
Proof.
  intros. subst rest. rewrite app_assoc_s. cbn [append].
  assert (S1 : skips (append (gap_text (post_gap g1)) (String BAR (append x r))) = String BAR (append x r))
    by (apply skips_post_gap_char; vm_compute; reflexivity).
  unfold c5, c4, c3, c2, noq. rewrite S1. repeat split; try (vm_compute; reflexivity).
  apply post_gap_c4. vm_compute; reflexivity.
Qed.

Lemma alt_sep_st2 : forall L k t r, st 2 (append (alt_sep L k) (append t r)).
Proof.
  intros. unfold alt_sep.
  destruct (bar_sep_st (fst (nl_sep L k)) (gap_text (snd (nl_sep L k))) (append t r)) as (A5 & A4 & A3 & A2 & _).
  unfold st. repeat split; intros; try lia; auto.
Qed.

Lemma fb_sep_st1 : forall L k t r, st 1 (append (fb_sep L k) (append t r)).
Proof.
  intros. unfold fb_sep.
  destruct (bar_sep_st (fst (nl_sep L k)) (String BAR (gap_text (snd (nl_sep L k)))) (append t r)) as (A5 & A4 & A3 & A2 & S1).
  unfold st. repeat split; intros; try lia; auto.
  unfold c1. right. rewrite S1. reflexivity.
Qed.

(** *** Chains of children *)

Section Chain.
  Variables (f : nat -> expr -> string) (sep : nat -> string) (r : string).
  Variable Good : expr -> Prop.
  Variable RestOk : string -> Prop.
  Variable Link : expr -> string -> Prop.
  Hypothesis Hprop : forall k x rest, Good x -> RestOk rest -> Link x rest ->
      RestOk (append (sep (S k)) (append (f (S k) x) rest)).

  (** [k] = index of the head of the list *)
  Fixpoint linked (k : nat) (xs : list expr) : Prop :=
    match xs with
    | [] => True
    | x :: xs' => Link x (append (txt_list f sep (S k) xs') r) /\ linked (S k) xs'
    end.

  Lemma chain_rest : forall xs k, Forall Good xs -> linked (S k) xs -> RestOk r ->
      RestOk (append (txt_list f sep (S k) xs) r).
  Proof.
    induction xs as [|x xs IH]; intros k G L R; cbn [txt_list append]; auto.
    inversion G; subst. cbn [linked] in L. destruct L as [L1 L2].
    rewrite !app_assoc_s. apply Hprop; auto.
  Qed.
End Chain.

Lemma linked_trivial : forall f sep r k xs, linked f sep r (fun _ _ => True) k xs.
Proof. intros f sep r k xs. revert k. induction xs; intros; cbn [linked]; auto. Qed.

(** *** Brackets *)

Lemma bstart_facts : forall ch, bstart ch = true ->
    ustart ch = true /\ tok_stop ch = true.
Proof.
  intros ch H. split; [exact (implb_elim _ _ (bstart_ustart ch) H) | exact (implb_elim _ _ (bstart_tok_stop ch) H)].
Qed.

Lemma wraps_hi : forall L ctx, (4 <= ctx)%nat -> wraps L ctx = 0%nat.
Proof. intros. unfold wraps. destruct (Nat.leb ctx 3) eqn:E; auto. apply Nat.leb_le in E. lia. Qed.

(** a factor that does not start with a literal, or is parenthesised, starts with an opening bracket *)
Lemma bracket_first : forall lay y w prev, wfb w y = true -> (prev = true \/ starts_lit y = false) ->
    exists ch s, txt lay (factor_ctx prev y) y = String ch s /\ bstart ch = true.
Proof.
  intros lay y w prev W H. unfold factor_ctx.
  destruct (prev && starts_lit y) eqn:E.
  - (* parenthesised *)
    rewrite txt_eq. rewrite wraps_hi by lia. cbn [wrap_text].
    assert (Nat.ltb (prec y) 8 = true) as -> by (apply Nat.ltb_lt; destruct y; cbn; lia).
    unfold paren_text. eexists; eexists; split; [reflexivity|vm_compute; reflexivity].
  - assert (S : starts_lit y = false).
    { destruct H as [H|H]; auto. subst prev. exact E. }
    clear H E. rewrite txt_eq. rewrite wraps_hi by lia. cbn [wrap_text].
    destruct y; try discriminate; cbn [prec Nat.ltb Nat.leb body_txt paren_text];
      try (eexists; eexists; split; [reflexivity|vm_compute; reflexivity]).
    rewrite txt_eq. rewrite wraps_hi by lia. cbn [wrap_text].
    destruct y; try discriminate; cbn [prec Nat.ltb Nat.leb body_txt paren_text append];
      try (eexists; eexists; split; [reflexivity|vm_compute; reflexivity]).
Qed.

Lemma open_end_inword : forall x, wfb true x = true -> open_end x = true -> is_plain_lit x = true.
Proof. intros [] W O; try discriminate; auto. Qed.

Lemma lit_rest_bstart : forall ch s, bstart ch = true ->
    lit_rest false (String ch s) /\ noq (skips (String ch s)) = true.
Proof.
  intros ch s H. destruct (bstart_facts ch H) as [U1 T]. destruct (ustart_facts ch U1) as (B & Q & _).
  unfold tok_stop in T. apply negb_true_iff in T.
  apply orb_false_iff in T as [T D]. apply orb_false_iff in T as [R Bs].
  split.
  - repeat split; cbn [hd_in ndots]; unfold is_dot; rewrite ?R, ?Bs, ?D; auto.
  - rewrite skips_no_blank by (cbn [hd_in]; rewrite B; reflexivity). unfold noq. cbn [hd_in]. rewrite Q. reflexivity.
Qed.

(** *** How printed expressions start *)

Definition FirstOk (e : expr) : Prop :=
  forall lay ctx w r, (ctx <= 8)%nat -> wfb w e = true -> mstop lay ctx e r -> first_ok (txt lay ctx e) r.

Lemma first_paren : forall g1 g2 body r, first_ok (paren_text g1 g2 body) r.
Proof.
  intros. unfold paren_text. eexists; eexists; split; [reflexivity|]. split; [vm_compute; reflexivity|].
  cbn [append]. reflexivity.
Qed.

Lemma first_wrap : forall lay ctx e r,
    (bare lay ctx e = true -> first_ok (body_txt lay ctx e) r) -> first_ok (txt lay ctx e) r.
Proof.
  intros lay ctx e r H. rewrite txt_eq. unfold bare in H.
  destruct (wraps (lay []) ctx) as [|j] eqn:Wr.
  - cbn [wrap_text]. destruct (Nat.ltb (prec e) ctx).
    + apply first_paren.
    + apply H. reflexivity.
  - cbn [wrap_text]. apply first_paren.
Qed.

Lemma lvl_le : forall ctx, (ctx <= 8)%nat -> (lvl ctx <= ctx)%nat /\ (lvl ctx <= 6)%nat.
Proof.
  intros. unfold lvl. destruct (Nat.eqb ctx 7) eqn:E; [apply Nat.eqb_eq in E; lia|apply Nat.eqb_neq in E].
  destruct (Nat.eqb ctx 8) eqn:E8; [apply Nat.eqb_eq in E8|apply Nat.eqb_neq in E8]; lia.
Qed.

Lemma first_string : forall ch s r, ustart ch = true -> Ascii.eqb ch DOT = false -> first_ok (String ch s) r.
Proof.
  intros. exists ch, s. repeat split; auto. cbn [append]. unfold starts_with. cbn [strip_prefix].
  change "."%char with DOT. rewrite Ascii.eqb_sym, H0. reflexivity.
Qed.

(** the head of a list of children *)
Lemma first_list : forall f sep x xs r,
    first_ok (f 0%nat x) (append (txt_list f sep 1 xs) r) -> first_ok (txt_list f sep 0 (x :: xs)) r.
Proof. intros. cbn [txt_list append]. apply first_ok_app. exact H. Qed.

Lemma lvl_low : forall ctx, (ctx <= 6)%nat -> lvl ctx = ctx.
Proof.
  intros. unfold lvl. destruct (Nat.eqb ctx 7) eqn:X; [apply Nat.eqb_eq in X; lia|].
  destruct (Nat.eqb ctx 8) eqn:Y; [apply Nat.eqb_eq in Y; lia|]. reflexivity.
Qed.

Lemma mstop_low : forall lay ctx e r, (ctx <= 3)%nat -> st ctx r -> mstop lay ctx e r.
Proof.
  intros lay ctx e r H S. assert (lvl ctx = ctx) as E by (apply lvl_low; lia).
  split; [rewrite E; exact S|]. intros _. apply st3_extra. eapply st_mono; [|exact S]. lia.
Qed.

(** factors of a word: what follows each of them *)
Lemma factor_ctx_cases : forall prev x, factor_ctx prev x = 5%nat \/ factor_ctx prev x = 8%nat.
Proof. intros. unfold factor_ctx. destruct (prev && starts_lit x); auto. Qed.

(** the stopper of one factor, from what follows it *)
Lemma factor_mstop : forall lay prev x T,
    wfb true x = true -> st 5 T ->
    (factor_open (factor_ctx prev x) x = true -> lit_rest false T /\ noq (skips T) = true) ->
    mstop lay (factor_ctx prev x) x T.
Proof.
  intros lay prev x T Wx S5 Lk. set (cx := factor_ctx prev x) in *.
  assert (Lv : lvl cx = 5%nat).
  { unfold cx, factor_ctx. destruct (prev && starts_lit x); reflexivity. }
  split; [rewrite Lv; exact S5|]. intros B.
  unfold bare in B. apply andb_true_iff in B as [B _]. apply negb_true_iff in B. apply Nat.ltb_ge in B.
  assert (C5 : cx = 5%nat).
  { unfold cx, factor_ctx in *. destruct (prev && starts_lit x); auto. destruct x; cbn [prec] in B; lia. }
  split.
  - intros O. apply Lk. unfold factor_open. rewrite C5, (open_end_inword x Wx O). reflexivity.
  - intros Pl. rewrite C5. cbn [Nat.leb]. apply Lk. unfold factor_open. rewrite C5, Pl. reflexivity.
Qed.

Lemma st5_of_c5 : forall r, c5 r -> st 5 r.
Proof. intros r H. unfold st. repeat split; intros; try lia. exact H. Qed.

Lemma sub_rest : forall (layk : nat -> layout) r,
    c4 r -> c5 r ->
    forall xs k prev,
      Forall (fun x => wfb true x = true /\ FirstOk x) xs ->
      (sub_last_open prev xs = true -> noq (skips r) = true) ->
      let T := append (txt_sub (fun k cx f => txt (layk k) cx f) k prev xs) r in
      st 5 T /\ (prev = true -> lit_rest false T /\ noq (skips T) = true)
      /\ (xs <> [] -> first_ok (txt_sub (fun k cx f => txt (layk k) cx f) k prev xs) r).
Proof.
  intros layk r R4 R5. induction xs as [|x xs IH]; intros k prev G E; cbv zeta.
  - cbn [txt_sub append sub_last_open] in *.
    split; [apply st5_of_c5; exact R5|]. split; [|congruence].
    intros H. split; [exact (c4_lit_rest false r R4)|apply E; exact H].
  - inversion G as [|? ? [Wx Fx] Gxs]; subst. cbn [txt_sub sub_last_open] in *.
    set (cx := factor_ctx prev x) in *. set (prev' := factor_open cx x) in *.
    destruct (IH (S k) prev' Gxs E) as (S5 & Lk & _). cbv zeta in *.
    set (T' := append (txt_sub (fun k0 cx0 f => txt (layk k0) cx0 f) (S k) prev' xs) r) in *.
    rewrite app_assoc_s. fold T'.
    assert (Lv : lvl cx = 5%nat) by (destruct (factor_ctx_cases prev x) as [X|X]; subst cx; rewrite X; reflexivity).
    assert (Fo : first_ok (txt (layk k) cx x) T').
    { apply (Fx (layk k) cx true T'); [destruct (factor_ctx_cases prev x); subst cx; lia|exact Wx|].
      split; [rewrite Lv; exact S5|]. intros B.
      unfold bare in B. apply andb_true_iff in B as [B _]. apply negb_true_iff in B. apply Nat.ltb_ge in B.
      assert (C5 : cx = 5%nat).
      { destruct (factor_ctx_cases prev x) as [X|X]; subst cx; auto. rewrite X in B. destruct x; cbn [prec] in B; lia. }
      split.
      - intros O. apply Lk. subst prev'. unfold factor_open. rewrite C5, (open_end_inword x Wx O). reflexivity.
      - intros Pl. rewrite C5. cbn [Nat.leb]. apply Lk. subst prev'. unfold factor_open. rewrite C5, Pl. reflexivity. }
    split; [apply st5_of_c5; unfold c5; rewrite (first_ok_skips _ _ Fo); destruct Fo as (ch & s & _ & _ & D); exact D|].
    split.
    + intros Hp. subst prev.
      destruct (bracket_first (layk k) x true true Wx (or_introl eq_refl)) as (ch & s & Et & Bs).
      fold cx in Et. rewrite Et. cbn [append]. apply lit_rest_bstart. exact Bs.
    + intros _. apply first_ok_app. exact Fo.
Qed.

(** the same for the text of the node itself, without its parentheses *)
Definition FirstBody (e : expr) : Prop :=
  forall lay ctx w r, (ctx <= 8)%nat -> wfb w e = true -> cstop ctx e r -> first_ok (body_txt lay ctx e) r.

Lemma first_of_body : forall e, FirstBody e -> FirstOk e.
Proof.
  intros e H lay ctx w r Hc W [M Mx]. apply first_wrap. intros B. apply (H lay ctx w r Hc W).
  split; [|apply Mx; exact B].
  unfold bare in B. apply andb_true_iff in B as [B1 _]. apply negb_true_iff in B1. apply Nat.ltb_ge in B1.
  destruct (lvl_le ctx Hc). eapply st_mono; [|exact M]. lia.
Qed.

Definition FirstQ (e : expr) : Prop :=
  FirstBody e /\ match e with Sequence fs _ => Forall FirstOk fs | _ => True end.

Lemma Forall_FirstQ : forall cs, Forall FirstQ cs -> Forall FirstOk cs.
Proof. intros cs H. induction H; constructor; auto. destruct H. apply first_of_body; auto. Qed.

Lemma forallb_Forall : forall (f : expr -> bool) cs, forallb f cs = true -> Forall (fun x => f x = true) cs.
Proof. induction cs; cbn; intros; constructor; apply andb_true_iff in H as [? ?]; auto. Qed.

Lemma Forall_and : forall (P Q : expr -> Prop) cs, Forall P cs -> Forall Q cs -> Forall (fun x => P x /\ Q x) cs.
Proof. induction 1; intros H2; inversion H2; subst; constructor; auto. Qed.

(** n-ary nodes printed with separators: [lv] = the level of the children *)
Lemma first_nary : forall (lv : nat) (sepf : nodelay -> nat -> string) lay w cs r,
    (1 <= lv <= 3)%nat ->
    (forall L k t r', first_ok t r' -> st lv (append (sepf L k) (append t r'))) ->
    Forall FirstOk cs -> forallb (wfb w) cs = true -> (2 <= List.length cs)%nat ->
    st lv r ->
    first_ok (txt_list (fun k x => txt (sub lay k) lv x) (sepf (lay [])) 0 cs) r.
Proof.
  intros lv sepf lay w cs r Hlv Hsep HF HW Hlen Hst.
  destruct cs as [|x xs]; [cbn in Hlen; lia|].
  inversion HF as [|? ? Fx Fxs]; subst. cbn [forallb] in HW. apply andb_true_iff in HW as [Wx Wxs].
  apply first_list.
  assert (Rest : st lv (append (txt_list (fun k x => txt (sub lay k) lv x) (sepf (lay [])) 1 xs) r)).
  { apply (chain_rest _ _ r (fun x => wfb w x = true /\ FirstOk x) (st lv) (fun _ _ => True)); auto.
    - intros k y rest [Wy Fy] Sr _. apply Hsep. apply (Fy _ lv w); [lia | exact Wy |]. apply mstop_low; auto; lia.
    - apply Forall_and; auto. apply forallb_Forall; auto.
    - apply linked_trivial. }
  apply (Fx _ lv w); [lia | exact Wx |]. apply mstop_low; auto; lia.
Qed.

Theorem first_ok_all : forall e, FirstQ e.
Proof.
  induction e using expr_ind'; (split; [|try (cbn iota; constructor)]).
  - (* Terminal *)
    intros lay ctx w r Hc W M. cbn [body_txt].
    cbn [wfb] in W. apply andb_true_iff in W as [W _].
    destruct d as [dd|].
    + apply first_ok_app.
      destruct (spelled_first (nl_esc (lay [])) (Nat.leb 6 ctx) t
                  (append (append (gap_text (post_gap (nl_gap (lay []) 0))) (descr_text dd)) r) W) as (S1 & S2 & S3).
      { rewrite app_assoc_s. apply lit_rest_descr. }
      destruct (pieces_text (spell (nl_esc (lay [])) (Nat.leb 6 ctx) t)) as [|ch s] eqn:E.
      * cbn [append] in S2. exfalso.
        rewrite app_assoc_s in S2. unfold descr_text in S2.
        destruct (post_gap (nl_gap (lay []) 0)) as [|b g]; cbn in S2; [discriminate|].
        destruct b as [wc| |bd]; cbn in S2; try discriminate. destruct wc; discriminate.
      * exists ch, s. cbn [append hd_is] in S1. repeat split; auto.
    + rewrite app_nil_r_s. destruct M as [_ [_ M]]. specialize (M eq_refl).
      destruct (spelled_first (nl_esc (lay [])) (Nat.leb 6 ctx) t r W M) as (S1 & S2 & S3).
      destruct (pieces_text (spell (nl_esc (lay [])) (Nat.leb 6 ctx) t)) as [|ch s] eqn:E.
      * exfalso. cbn [append] in S1, S2. destruct M as (M1 & M2 & M3).
        destruct r as [|x r]; cbn [hd_is hd_in] in *; [discriminate|].
        unfold ustart in S1. apply negb_true_iff in M1, M2. rewrite M1, M2 in S1. cbn [andb orb] in S1.
        unfold tok_stop in S2. rewrite M1, M2 in S2. cbn [orb] in S2. apply negb_false_iff in S2.
        destruct M3 as [M3|[_ M3]].
        { cbn [ndots] in M3. unfold is_dot in M3. rewrite S2 in M3. discriminate. }
        { apply ndots_starts3 in M3. cbn [append] in S3. rewrite M3 in S3. discriminate. }
      * exists ch, s. cbn [append hd_is] in S1. repeat split; auto.
  - (* NontermRef *)
    intros lay ctx w r Hc W M. cbn [body_txt]. apply first_string; vm_compute; reflexivity.
  - (* Command *)
    intros lay ctx w r Hc W M. cbn [body_txt]. unfold LBRACE3. cbn [append].
    apply first_string; vm_compute; reflexivity.
  - (* Sequence *)
    intros lay ctx w r Hc W M. cbn [body_txt].
    cbn [wfb] in W. apply andb_true_iff in W as [W1 W2]. apply Nat.leb_le in W1.
    destruct M as [M _]. cbn [prec] in M.
    apply (first_nary 3 seq_sep lay w cs r); auto; try lia.
    + intros. apply seq_sep_st3; auto.
    + apply Forall_FirstQ; auto.
    + eapply st_mono; [|exact M]. lia.
  - apply Forall_FirstQ; auto.
  - (* Alternative *)
    intros lay ctx w r Hc W M. cbn [body_txt].
    cbn [wfb] in W. apply andb_true_iff in W as [W1 W2]. apply Nat.leb_le in W1.
    destruct M as [M _]. cbn [prec] in M.
    apply (first_nary 2 alt_sep lay w cs r); auto; try lia.
    + intros. apply alt_sep_st2; auto.
    + apply Forall_FirstQ; auto.
    + eapply st_mono; [|exact M]. lia.
  - (* Optional *)
    intros lay ctx w r Hc W M. cbn [body_txt]. apply first_string; vm_compute; reflexivity.
  - (* Many1 *)
    intros lay ctx w r Hc W M. cbn [body_txt]. apply first_ok_app.
    rewrite app_assoc_s.
    destruct IHe as [IH _]. apply first_of_body in IH. cbn [wfb] in W. apply (IH _ 6%nat w); [lia | exact W |].
    split; [repeat split; intros; cbn [lvl Nat.eqb] in *; lia|].
    intros _. destruct (many_rest (nl_gap (lay []) 0) r) as [Q1 Q2]. split; intros _; auto.
  - (* DistDescr *)
    intros lay ctx w r Hc W M. cbn [body_txt]. apply first_ok_app.
    rewrite app_assoc_s.
    destruct IHe as [IH _]. apply first_of_body in IH. cbn [wfb] in W.
    destruct (open_end e) eqn:O.
    + apply (IH _ 7%nat w); [lia | exact W |]. split; [apply st4_descr|].
      intros B'. unfold bare in B'. apply andb_true_iff in B' as [B' _]. apply negb_true_iff in B'.
      apply Nat.ltb_ge in B'. destruct e; cbn [prec] in B'; lia.
    + apply (IH _ 4%nat w); [lia | exact W |]. split; [apply st4_descr|].
      intros _. split; intros X; [rewrite O in X; discriminate|].
      destruct e; try discriminate. destruct descr; discriminate.
  - (* Fallback *)
    intros lay ctx w r Hc W M. cbn [body_txt].
    cbn [wfb] in W. apply andb_true_iff in W as [W1 W2]. apply Nat.leb_le in W1.
    destruct M as [M _]. cbn [prec] in M.
    apply (first_nary 1 fb_sep lay w cs r); auto; try lia.
    + intros. apply fb_sep_st1; auto.
    + apply Forall_FirstQ; auto.
    + eapply st_mono; [|exact M]. lia.
  - (* Subword *)
    intros lay ctx w r Hc W M.
    cbn [wfb] in W. apply andb_true_iff in W as [W W3]. apply andb_true_iff in W as [Ww Wl].
    destruct e; try discriminate. cbn [body_txt].
    apply andb_true_iff in W3 as [Wlen Wfs]. apply Nat.leb_le in Wlen.
    destruct IHe as [_ IHfs].
    destruct M as [M [Mx _]]. cbn [prec] in M.
    destruct (sub_rest (fun k => sub (sub lay 0) k) r ltac:(apply M; lia) ltac:(apply M; lia) children 0%nat false)
      as (_ & _ & Fo).
    + apply Forall_and; auto. apply forallb_Forall; auto.
    + intros O. apply Mx. cbn [open_end]. exact O.
    + apply Fo. destruct children; [cbn in Wlen; lia|discriminate].
Qed.

Theorem first_ok_any : forall e, FirstOk e.
Proof. intros. apply first_of_body. apply first_ok_all. Qed.

Theorem first_body_any : forall e, FirstBody e.
Proof. intros. apply first_ok_all. Qed.
