(** What the C01 proofs need to know about the within-word automata the model pipeline returns
    ([c_subs] of [Driver.compile_valid]): each one named by an input [ISub k l] of the main
    automaton is the minimised automaton of a pooled within-word regex, hence has a transition
    table that is a map whose entries name inputs, an input pool without duplicates and without
    nested within-word inputs, is trim, and starts in state 0 (the renumbering of the minimiser
    gives the start state the first number). *)
From CG Require Import Base.Prelude Model.Ast Model.Dfa Model.Check Model.Regex Model.Subset Model.Minimize
     Model.Ambiguity Model.Driver Spec.Lang Spec.DfaEquiv Spec.MinimizeSpec.
From CG Require Import Proofs.TablesSound Proofs.SubsetConstr Proofs.TreeFacts Proofs.C02Total Proofs.WfTrim
     Proofs.MinimizeCorrect Proofs.AmbTotal Proofs.DriverCorrect Proofs.MinimizePostGen Proofs.CompiledFacts.

(** *** the minimiser numbers the start state 0 *)
Lemma renumber_map_start s ts : getf (renumber_map s ts) s = 0.
Proof.
  rewrite renumber_map_eq. unfold renumber_keys. cbn [fold_left].
  assert (I1 : alloc_inv (alloc s ([], 0))).
  { apply alloc_spec. split; [constructor | intros k v []]. }
  assert (E1 : assocN s (fst (alloc s ([], 0))) = Some 0).
  { unfold alloc. cbn [fst snd assocN app]. rewrite N.eqb_refl. reflexivity. }
  destruct (alloc_fold_spec (flat_map (fun t => [tr_from t; tr_to t]) ts) _ I1) as [_ [_ K]].
  unfold getf. rewrite (K s 0 E1). reflexivity.
Qed.

Lemma minimize_start0 d m : minimize d = Ok m -> d_start m = 0.
Proof.
  intro H. unfold minimize in H. destruct (do_minimize_inv d _ m H) as [h [reps [_ [_ [_ [_ Hrest]]]]]].
  cbn zeta in Hrest. destruct Hrest as [s' [ts' [accn [Hren ->]]]]. cbn [d_start].
  destruct (renumber_states_ok _ _ _ _ _ _ Hren) as [-> _]. apply renumber_map_start.
Qed.

(** *** the input pool *)
Lemma inp_intern_in x acc y : In y (inp_intern x acc) -> y = x \/ In y acc.
Proof.
  unfold inp_intern. destruct (inp_find x acc 0); intro H; [right; exact H |].
  apply in_app_or in H. destruct H as [H | [H | []]]; [right; exact H | left; symmetry; exact H].
Qed.

Lemma intern_all_in labels y : In y (intern_all labels) -> In y labels.
Proof.
  unfold intern_all.
  assert (G : forall acc, In y (fold_left (fun acc x => inp_intern x acc) labels acc) -> In y labels \/ In y acc).
  { induction labels as [| x labels IH]; intros acc H; [right; exact H |]. cbn [fold_left] in H.
    destruct (IH _ H) as [H1 | H1]; [left; right; exact H1 |].
    apply inp_intern_in in H1. destruct H1 as [-> | H1]; [left; left; reflexivity | right; exact H1]. }
  intro H. destruct (G [] H) as [H1 | []]. exact H1.
Qed.

Lemma dfa_from_regex_input_origin pick fuel submap r d states x :
  dfa_from_regex pick fuel submap r = Ok (d, states) -> In x (d_inputs d) ->
  exists ri, In ri (r_inputs r) /\ from_input submap ri = Ok x.
Proof.
  unfold dfa_from_regex. intros H Hin.
  destruct (omap (from_input submap) (r_inputs r)) as [labels | | |] eqn:El; cbn [obind] in H; try discriminate.
  destruct (loop _ _ _ _ _ _ _) as [st | | |]; cbn [obind] in H; try discriminate.
  destruct (find_set _ _); [| discriminate]. inversion H; subst. cbn [d_inputs] in Hin.
  apply intern_all_in in Hin. apply (omap_ok_in _ _ _ El) in Hin. exact Hin.
Qed.

(** *** the within-word automata *)
Record sub_ok (sd : dfa) : Prop := {
  so_wf : dfa_wf sd;
  so_inputs : NoDup (d_inputs sd);
  so_trim : trim sd;
  so_start : d_start sd = 0;
  so_plain : forall x, In x (d_inputs sd) -> exists a, wlab x = Some a
}.

Theorem sub_facts pick fuel v c k l :
  alts_nonempty (v_expr v) = true ->
  compile_valid pick fuel v = Ok c ->
  In (ISub k l) (d_inputs (c_main c)) ->
  exists sd, nth_error (c_subs c) (N.to_nat k) = Some sd /\ sub_ok sd.
Proof.
  intros Ha H Hin. unfold compile_valid in H.
  destruct (from_valid_expr (v_expr v)) as [[r pl] | | |] eqn:E; simpl in H; try discriminate.
  apply from_valid_expr_ok in E.
  destruct (compile_subs pick fuel (r_inputs r) pl [] []) as [[submap subs] | | |] eqn:Es; simpl in H; try discriminate.
  destruct (dfa_from_regex pick fuel submap r) as [[raw st] | | |] eqn:Ed; simpl in H; try discriminate.
  destruct (minimize raw) as [m | | |] eqn:Em; simpl in H; try discriminate.
  destruct (check_ambiguity_best_effort m) as [[] | | |]; simpl in H; try discriminate.
  inversion H; subst c. cbn [c_main c_subs] in *.
  rewrite (minimize_inputs raw m Em) in Hin.
  destruct (dfa_from_regex_input_origin _ _ _ _ _ _ _ Ed Hin) as [ri [Hri Hfi]].
  destruct ri as [t0 d0 l0 sp | n0 l0 sp | c0 z0 l0 sp | rid l0 sp]; cbn [from_input] in Hfi; try discriminate;
    try (destruct z0; discriminate).
  destruct (assocN rid submap) as [k0 |] eqn:Ea; [| discriminate]. inversion Hfi; subst k0 l0.
  destruct (compile_subs_ok pick fuel pl _ _ _ _ _ (cache_ok_nil pick fuel pl) Es) as [Hc _].
  destruct (Hc rid k Ea) as [sd [Hsd [rr [raw' [st' [Hn [Hd Hmin]]]]]]].
  exists sd. split; [exact Hsd |].
  destruct (from_expr_good _ _ _ _ Ha E (Forall_nil _)) as [_ Hpl].
  assert (Hg : regex_good rr).
  { rewrite Forall_forall in Hpl. apply Hpl. unfold nthN in Hn. destruct (nth_error pl (N.to_nat rid)) eqn:En; [| discriminate].
    inversion Hn; subst. eapply nth_error_In. exact En. }
  destruct (wf_trim_pool pick fuel [] rr raw' st' Hg Hd) as [W TR].
  destruct (minimize_correct raw' sd W TR Hmin) as [_ [TRm _]].
  constructor.
  - apply (minimize_dfa_wf raw' sd W TR Hmin).
  - rewrite (minimize_inputs raw' sd Hmin). eapply dfa_from_regex_inputs. exact Hd.
  - exact TRm.
  - apply (minimize_start0 raw' sd Hmin).
  - intros x Hx. rewrite (minimize_inputs raw' sd Hmin) in Hx.
    destruct (dfa_from_regex_input_origin _ _ _ _ _ _ _ Hd Hx) as [ri [_ Hfi']].
    destruct ri as [t1 d1 l1 sp1 | n1 l1 sp1 | c1 z1 l1 sp1 | rid1 l1 sp1]; cbn [from_input assocN] in Hfi'; try discriminate;
      inversion Hfi'; subst; cbn [wlab]; eauto. destruct z1; cbn [wlab]; eauto.
Qed.
