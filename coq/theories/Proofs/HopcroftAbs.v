(** The Hopcroft refinement loop, abstractly: a partition is a list of blocks (increasing lists of
    states), each with a flag "is in the work-list".  This file contains the mathematics
    (DESIGN Appendix A.1): splitting a block preserves the partition structure, the pair
    invariant [AInv] (completeness), the distinguishability invariant [ADist] (safety: only
    inequivalent states are ever separated) and the refinement of acceptance [ARef].
    Proofs/HopcroftSim.v shows that the model of [do_minimize] takes exactly these steps. *)
From CG Require Import Base.Prelude Model.Dfa Model.Minimize Spec.DfaEquiv Spec.MinimizeSpec Proofs.MinimizeBasics.

Definition ablock := (list N * bool)%type.
Definition astate := list ablock.
Definition blocks (A : astate) : list (list N) := map fst A.
Definition sameb (A : astate) (x y : N) : Prop := exists b, In b (blocks A) /\ In x b /\ In y b.
Definition inW (A : astate) (x : N) : Prop := exists b, In (b, true) A /\ In x b.

Record APart (U : list N) (A : astate) : Prop := mkAPart {
  ap_nonempty : forall b, In b (blocks A) -> b <> [];
  ap_sorted : forall b, In b (blocks A) -> sortedN b;
  ap_nodup : NoDup (blocks A);
  ap_overlap : forall b b' x, In b (blocks A) -> In b' (blocks A) -> In x b -> In x b' -> b = b';
  ap_cover : forall x, In x U <-> exists b, In b (blocks A) /\ In x b
}.

Definition aremove (B : list N) (A : astate) : astate := filter (fun p => negb (bm_eqb (fst p) B)) A.
Definition aflag (B : list N) (A : astate) : bool := existsb (fun p => bm_eqb (fst p) B && snd p) A.
Definition aclear (B : list N) (A : astate) : astate :=
  map (fun p => if bm_eqb (fst p) B then (fst p, false) else p) A.

(** replace block [B] by [B1] and [B2] *)
Definition areplace (A : astate) (B B1 B2 : list N) (f1 f2 : bool) : astate :=
  aremove B A ++ [(B1, f1); (B2, f2)].

Definition asplit (A : astate) (X B : list N) : astate :=
  let B1 := bm_inter B X in
  let B2 := bm_diff B B1 in
  match B2 with
  | [] => A
  | _ :: _ =>
      let w := aflag B A in
      let pick := Nat.leb (List.length B1) (List.length B2) in
      areplace A B B1 B2 (w || pick) (w || negb pick)
  end.

Definition aov (A : astate) (X : list N) : list (list N) :=
  filter (fun b => negb (bm_is_disjoint b X)) (blocks A).

Definition arefine (A : astate) (X : list N) : astate :=
  fold_left (fun A B => asplit A X B) (aov A X) A.

Definition refines (A' A : astate) : Prop := forall x y, sameb A' x y -> sameb A x y.

Definition homog (A : astate) (X : list N) : Prop :=
  forall x y, sameb A x y -> (In x X <-> In y X).

(** *** basic facts *)
Lemma sameb_sym A x y : sameb A x y -> sameb A y x.
Proof. intros [b [H [Hx Hy]]]. exists b. auto. Qed.

Lemma sameb_refl U A x : APart U A -> In x U -> sameb A x x.
Proof. intros P H. apply (ap_cover _ _ P) in H. destruct H as [b [Hb Hx]]. exists b. auto. Qed.

Lemma sameb_in_U U A x y : APart U A -> sameb A x y -> In x U /\ In y U.
Proof.
  intros P [b [Hb [Hx Hy]]]. split; apply (ap_cover _ _ P); exists b; auto.
Qed.

Lemma sameb_trans U A x y z : APart U A -> sameb A x y -> sameb A y z -> sameb A x z.
Proof.
  intros P [b [Hb [Hx Hy]]] [b' [Hb' [Hy' Hz]]].
  assert (b = b') by (eapply (ap_overlap _ _ P); eauto). subst. exists b'. auto.
Qed.

Lemma sameb_block U A b x y : APart U A -> In b (blocks A) -> In x b -> sameb A x y -> In y b.
Proof.
  intros P Hb Hx [b' [Hb' [Hx' Hy]]].
  assert (b = b') by (eapply (ap_overlap _ _ P); eauto). subst. exact Hy.
Qed.

Lemma sameb_dec A x y : {sameb A x y} + {~ sameb A x y}.
Proof.
  destruct (existsb (fun b => memN x b && memN y b) (blocks A)) eqn:E.
  - left. apply existsb_exists in E. destruct E as [b [Hb E]]. apply andb_true_iff in E.
    exists b. rewrite <- !memN_iff. tauto.
  - right. intros [b [Hb [Hx Hy]]].
    assert (existsb (fun b => memN x b && memN y b) (blocks A) = true); [|congruence].
    apply existsb_exists. exists b. split; [exact Hb|]. apply andb_true_iff. rewrite !memN_iff. auto.
Qed.

Lemma refines_refl A : refines A A.
Proof. intros x y H. exact H. Qed.

Lemma refines_trans A B C : refines A B -> refines B C -> refines A C.
Proof. intros H1 H2 x y H. apply H2, H1, H. Qed.

Lemma homog_refines A A' X : refines A' A -> homog A X -> homog A' X.
Proof. intros R H x y S. apply H, R, S. Qed.

Lemma in_blocks A b : In b (blocks A) <-> exists f, In (b, f) A.
Proof.
  unfold blocks. rewrite in_map_iff. split.
  - intros [[b' f] [E H]]. cbn in E. subst. exists f. exact H.
  - intros [f H]. exists (b, f). auto.
Qed.

Lemma flag_unique A b f f' : NoDup (blocks A) -> In (b, f) A -> In (b, f') A -> f = f'.
Proof.
  unfold blocks. induction A as [|[b0 f0] r IH]; cbn [map In fst]; intros ND H H'; [contradiction|].
  inversion ND as [|? ? Hn Hr]; subst.
  destruct H as [H|H], H' as [H'|H'].
  - congruence.
  - inversion H; subst. exfalso. apply Hn. apply in_map_iff. exists (b, f'). auto.
  - inversion H'; subst. exfalso. apply Hn. apply in_map_iff. exists (b, f). auto.
  - apply IH; assumption.
Qed.

Lemma aflag_true A B : aflag B A = true <-> In (B, true) A.
Proof.
  unfold aflag. rewrite existsb_exists. split.
  - intros [[b f] [H E]]. cbn in E. apply andb_true_iff in E. destruct E as [E1 E2].
    apply bm_eqb_iff in E1. subst. exact H.
  - intro H. exists (B, true). split; [exact H|]. cbn. rewrite (proj2 (bm_eqb_iff B B) eq_refl). reflexivity.
Qed.

Lemma inW_flag U A b x : APart U A -> In b (blocks A) -> In x b -> (inW A x <-> aflag b A = true).
Proof.
  intros P Hb Hx. rewrite aflag_true. split.
  - intros [b' [Hb' Hx']]. assert (b = b'); [|subst; exact Hb'].
    eapply (ap_overlap _ _ P); eauto. apply in_blocks. eauto.
  - intro H. exists b. auto.
Qed.

Lemma aremove_In B A p : In p (aremove B A) <-> In p A /\ fst p <> B.
Proof.
  unfold aremove. rewrite filter_In, negb_true_iff. split; intros [H1 H2]; split; auto.
  - intro E. apply bm_eqb_iff in E. congruence.
  - destruct (bm_eqb (fst p) B) eqn:E; [|reflexivity]. apply bm_eqb_iff in E. contradiction.
Qed.

Lemma blocks_aremove B A : blocks (aremove B A) = filter (fun b => negb (bm_eqb b B)) (blocks A).
Proof.
  unfold blocks, aremove. induction A as [|[b f] r IH]; cbn [filter map fst]; [reflexivity|].
  destruct (bm_eqb b B); cbn [negb map fst]; rewrite IH; reflexivity.
Qed.

Lemma blocks_areplace A B B1 B2 f1 f2 b :
  In b (blocks (areplace A B B1 B2 f1 f2)) <-> (In b (blocks A) /\ b <> B) \/ b = B1 \/ b = B2.
Proof.
  unfold areplace, blocks. rewrite map_app, in_app_iff. fold (blocks (aremove B A)).
  rewrite blocks_aremove, filter_In, negb_true_iff. cbn [map In fst].
  assert (bm_eqb b B = false <-> b <> B).
  { split; [intros E F; apply bm_eqb_iff in F; congruence|].
    intro F. destruct (bm_eqb b B) eqn:E; [apply bm_eqb_iff in E; contradiction|reflexivity]. }
  intuition.
Qed.

(** *** replacing a block by two halves *)
Section Replace.
  Variable U : list N.
  Variables (A : astate) (B B1 B2 : list N) (f1 f2 : bool).
  Hypothesis P : APart U A.
  Hypothesis HB : In B (blocks A).
  Hypothesis H1 : B1 <> [].
  Hypothesis H2 : B2 <> [].
  Hypothesis S1 : sortedN B1.
  Hypothesis S2 : sortedN B2.
  Hypothesis Hunion : forall x, In x B <-> In x B1 \/ In x B2.
  Hypothesis Hdisj : forall x, In x B1 -> In x B2 -> False.

  Let A' := areplace A B B1 B2 f1 f2.

  Lemma B1_neq_B : B1 <> B.
  Proof.
    intro E. destruct B2 as [|z r]; [congruence|].
    apply (Hdisj z); [|left; reflexivity]. rewrite E. apply Hunion. right. left. reflexivity.
  Qed.

  Lemma B2_neq_B : B2 <> B.
  Proof.
    intro E. destruct B1 as [|z r]; [congruence|].
    apply (Hdisj z); [left; reflexivity|]. rewrite E. apply Hunion. left. left. reflexivity.
  Qed.

  Lemma B1_neq_B2 : B1 <> B2.
  Proof.
    intro E. destruct B1 as [|z r]; [congruence|].
    apply (Hdisj z); [left; reflexivity|]. rewrite <- E. left. reflexivity.
  Qed.

  Lemma half_not_block b : In b (blocks A) -> b <> B -> b <> B1 /\ b <> B2.
  Proof.
    intros Hb Hne. split; intro E; subst b.
    - destruct B1 as [|z r]; [congruence|]. apply Hne.
      apply (ap_overlap _ _ P _ _ z); auto; [left; reflexivity|]. apply Hunion. left. left. reflexivity.
    - destruct B2 as [|z r]; [congruence|]. apply Hne.
      apply (ap_overlap _ _ P _ _ z); auto; [left; reflexivity|]. apply Hunion. right. left. reflexivity.
  Qed.

  Lemma areplace_APart : APart U A'.
  Proof.
    constructor.
    - intros b Hb. apply blocks_areplace in Hb. destruct Hb as [[Hb _]|[->| ->]]; auto.
      apply (ap_nonempty _ _ P). exact Hb.
    - intros b Hb. apply blocks_areplace in Hb. destruct Hb as [[Hb _]|[->| ->]]; auto.
      apply (ap_sorted _ _ P). exact Hb.
    - unfold A', areplace, blocks. rewrite map_app. fold (blocks (aremove B A)). rewrite blocks_aremove.
      cbn [map fst].
      assert (ND : NoDup (filter (fun b => negb (bm_eqb b B)) (blocks A))) by (apply NoDup_filter, (ap_nodup _ _ P)).
      assert (N1 : ~ In B1 (filter (fun b => negb (bm_eqb b B)) (blocks A))).
      { intro F. apply filter_In in F. destruct F as [F1 F2]. apply negb_true_iff in F2.
        assert (B1 <> B) by (intro E; apply bm_eqb_iff in E; congruence).
        destruct (half_not_block B1 F1 H). congruence. }
      assert (N2 : ~ In B2 (filter (fun b => negb (bm_eqb b B)) (blocks A))).
      { intro F. apply filter_In in F. destruct F as [F1 F2]. apply negb_true_iff in F2.
        assert (B2 <> B) by (intro E; apply bm_eqb_iff in E; congruence).
        destruct (half_not_block B2 F1 H). congruence. }
      change [B1; B2] with ([B1] ++ [B2]). rewrite app_assoc. apply NoDup_snoc.
      + apply NoDup_snoc; assumption.
      + rewrite in_app_iff. cbn [In]. intros [F|[F|[]]]; [contradiction|]. apply B1_neq_B2. exact F.
    - intros b b' x Hb Hb' Hx Hx'.
      apply blocks_areplace in Hb. apply blocks_areplace in Hb'.
      assert (Hin1 : forall z, In z B1 -> In z B) by (intros z Hz; apply Hunion; auto).
      assert (Hin2 : forall z, In z B2 -> In z B) by (intros z Hz; apply Hunion; auto).
      destruct Hb as [[Hb Hn]|[->| ->]], Hb' as [[Hb' Hn']|[->| ->]]; auto.
      + eapply (ap_overlap _ _ P); eauto.
      + exfalso. apply Hn. eapply (ap_overlap _ _ P); eauto.
      + exfalso. apply Hn. eapply (ap_overlap _ _ P); eauto.
      + exfalso. apply Hn'. eapply (ap_overlap _ _ P); eauto.
      + exfalso. eapply Hdisj; eauto.
      + exfalso. apply Hn'. eapply (ap_overlap _ _ P); eauto.
      + exfalso. eapply Hdisj; eauto.
    - intro x. rewrite (ap_cover _ _ P). split.
      + intros [b [Hb Hx]]. destruct (list_eq_dec N.eq_dec b B) as [->|Hn].
        * apply Hunion in Hx. destruct Hx as [Hx|Hx].
          -- exists B1. split; [apply blocks_areplace; auto|exact Hx].
          -- exists B2. split; [apply blocks_areplace; auto|exact Hx].
        * exists b. split; [apply blocks_areplace; auto|exact Hx].
      + intros [b [Hb Hx]]. apply blocks_areplace in Hb. destruct Hb as [[Hb _]|[->| ->]].
        * exists b. auto.
        * exists B. split; [exact HB|apply Hunion; auto].
        * exists B. split; [exact HB|apply Hunion; auto].
  Qed.

  Lemma areplace_sameb x y :
    sameb A' x y <-> sameb A x y /\ (In x B -> (In x B1 <-> In y B1)).
  Proof.
    split.
    - intros [b [Hb [Hx Hy]]]. apply blocks_areplace in Hb. destruct Hb as [[Hb Hn]|[->| ->]].
      + split; [exists b; auto|]. intro HxB. exfalso. apply Hn. apply (ap_overlap _ _ P b B x); auto.
      + split; [exists B; split; [exact HB|split; apply Hunion; auto]|]. tauto.
      + split; [exists B; split; [exact HB|split; apply Hunion; auto]|].
        intros _. split; intro F; exfalso; eapply Hdisj; eauto.
    - intros [[b [Hb [Hx Hy]]] Hh]. destruct (list_eq_dec N.eq_dec b B) as [->|Hn].
      + specialize (Hh Hx). destruct (memN_dec x B1) as [I|I].
        * exists B1. split; [apply blocks_areplace; auto|]. split; [exact I|apply Hh; exact I].
        * exists B2. split; [apply blocks_areplace; auto|].
          apply Hunion in Hx. apply Hunion in Hy. split; [tauto|].
          destruct Hy as [Hy|Hy]; [|exact Hy]. exfalso. apply I, Hh, Hy.
      + exists b. split; [apply blocks_areplace; auto|auto].
  Qed.

  Lemma areplace_refines : refines A' A.
  Proof. intros x y H. apply areplace_sameb in H. tauto. Qed.

  Lemma areplace_In_flag b f :
    In (b, f) A' <-> (In (b, f) A /\ b <> B) \/ (b, f) = (B1, f1) \/ (b, f) = (B2, f2).
  Proof.
    unfold A', areplace. rewrite in_app_iff, aremove_In. cbn [In fst]. intuition.
  Qed.

  Lemma areplace_inW x :
    inW A' x <-> (~ In x B /\ inW A x) \/ (In x B1 /\ f1 = true) \/ (In x B2 /\ f2 = true).
  Proof.
    split.
    - intros [b [Hb Hx]]. apply areplace_In_flag in Hb. destruct Hb as [[Hb Hn]|[E|E]].
      + left. split; [|exists b; auto]. intro HxB. apply Hn. eapply (ap_overlap _ _ P); eauto.
        apply in_blocks. eauto.
      + inversion E; subst. auto.
      + inversion E; subst. auto.
    - intros [[Hn [b [Hb Hx]]]|[[Hx E]|[Hx E]]].
      + exists b. split; [|exact Hx]. apply areplace_In_flag. left. split; [exact Hb|].
        intro E. subst. contradiction.
      + exists B1. split; [|exact Hx]. apply areplace_In_flag. subst. auto.
      + exists B2. split; [|exact Hx]. apply areplace_In_flag. subst. auto.
  Qed.
End Replace.

(** *** the invariants *)
Section Sem.
  Variable dl : N -> N -> N.
  Variable isacc : N -> bool.
  Variable letters : list N.
  Variable U : list N.
  Hypothesis dl_closed : forall x a, In x U -> In (dl x a) U.

  Definition af (x : N) (w : list N) : bool := isacc (fold_left dl w x).
  Definition dist (x y : N) : Prop := exists w, af x w <> af y w.

  Lemma dist_sym x y : dist x y -> dist y x.
  Proof. intros [w H]. exists w. congruence. Qed.

  Lemma dist_step x y a : dist (dl x a) (dl y a) -> dist x y.
  Proof. intros [w H]. exists (a :: w). exact H. Qed.

  Definition xorP (P Q : Prop) : Prop := (P /\ ~ Q) \/ (~ P /\ Q).

  (** whenever two states of one block go, on a letter, to two different blocks, one of the two
      target blocks is in the work-list, or the pending splitter [S] tells the targets apart *)
  Definition AInv (A : astate) (S : list N) (pend : bool) : Prop :=
    forall a x y, In a letters -> sameb A x y -> ~ sameb A (dl x a) (dl y a) ->
      inW A (dl x a) \/ inW A (dl y a)
      \/ (pend = true /\ xorP (In (dl x a) S) (In (dl y a) S)).

  (** states in different blocks are told apart by some word *)
  Definition ADist (A : astate) : Prop :=
    forall x y, In x U -> In y U -> ~ sameb A x y -> dist x y.

  (** blocks do not mix accepting and non-accepting states, and the dead state is alone *)
  Definition ARef (A : astate) : Prop :=
    forall x y, sameb A x y -> isacc x = isacc y /\ (x = 0 -> y = 0).

  Lemma ARef_refines A A' : refines A' A -> ARef A -> ARef A'.
  Proof. intros R H x y S. apply H, R, S. Qed.

  Section ReplaceSem.
    Variables (A : astate) (B B1 B2 : list N) (f1 f2 : bool).
    Hypothesis P : APart U A.
    Hypothesis HB : In B (blocks A).
    Hypothesis H1 : B1 <> [].
    Hypothesis H2 : B2 <> [].
    Hypothesis S1 : sortedN B1.
    Hypothesis S2 : sortedN B2.
    Hypothesis Hunion : forall x, In x B <-> In x B1 \/ In x B2.
    Hypothesis Hdisj : forall x, In x B1 -> In x B2 -> False.
    (** the work-list rule: both halves if the block was in the work-list, else at least one *)
    Hypothesis Hboth : aflag B A = true -> f1 = true /\ f2 = true.
    Hypothesis Hone : f1 = true \/ f2 = true.

    Let A' := areplace A B B1 B2 f1 f2.

    Lemma inW_areplace x : inW A x -> inW A' x.
    Proof.
      intro W. apply (areplace_inW U A B B1 B2 f1 f2 P HB).
      destruct (memN_dec x B) as [I|I].
      - assert (F : aflag B A = true) by (apply (inW_flag U A B x P HB I); exact W).
        destruct (Hboth F) as [-> ->]. apply Hunion in I. tauto.
      - left. auto.
    Qed.

    Lemma areplace_AInv S p : AInv A S p -> AInv A' S p.
    Proof.
      intros I a x y Ha Hxy Hn.
      apply (areplace_sameb U A B B1 B2 f1 f2 P HB Hunion Hdisj) in Hxy. destruct Hxy as [Hxy _].
      destruct (sameb_in_U U A x y P Hxy) as [Ux Uy].
      destruct (sameb_dec A (dl x a) (dl y a)) as [Suv|Nuv].
      - (* the targets were together and have just been separated: they lie in the two halves *)
        destruct (memN_dec (dl x a) B) as [IuB|IuB].
        + assert (IvB : In (dl y a) B) by (eapply sameb_block; eauto).
          assert (Hu := proj1 (Hunion _) IuB). assert (Hv := proj1 (Hunion _) IvB).
          assert (Wu1 : In (dl x a) B1 -> f1 = true -> inW A' (dl x a)).
          { intros F E. apply (areplace_inW U A B B1 B2 f1 f2 P HB). tauto. }
          assert (Wu2 : In (dl x a) B2 -> f2 = true -> inW A' (dl x a)).
          { intros F E. apply (areplace_inW U A B B1 B2 f1 f2 P HB). tauto. }
          assert (Wv1 : In (dl y a) B1 -> f1 = true -> inW A' (dl y a)).
          { intros F E. apply (areplace_inW U A B B1 B2 f1 f2 P HB). tauto. }
          assert (Wv2 : In (dl y a) B2 -> f2 = true -> inW A' (dl y a)).
          { intros F E. apply (areplace_inW U A B B1 B2 f1 f2 P HB). tauto. }
          destruct Hu as [Hu|Hu], Hv as [Hv|Hv].
          * exfalso. apply Hn. apply (areplace_sameb U A B B1 B2 f1 f2 P HB Hunion Hdisj). split; [exact Suv|tauto].
          * destruct Hone as [E|E]; [left; auto|right; left; auto].
          * destruct Hone as [E|E]; [right; left; auto|left; auto].
          * exfalso. apply Hn. apply (areplace_sameb U A B B1 B2 f1 f2 P HB Hunion Hdisj). split; [exact Suv|].
            intros _. split; intro F; exfalso; eapply Hdisj; eauto.
        + exfalso. apply Hn. apply (areplace_sameb U A B B1 B2 f1 f2 P HB Hunion Hdisj). split; [exact Suv|].
          intro F. contradiction.
      - destruct (I a x y Ha Hxy Nuv) as [W|[W|Pd]].
        + left. apply inW_areplace. exact W.
        + right. left. apply inW_areplace. exact W.
        + right. right. exact Pd.
    Qed.

    Lemma areplace_ADist :
      (forall x y, In x B1 -> In y B2 -> dist x y) -> ADist A -> ADist A'.
    Proof.
      intros Hsep D x y Ux Uy Hn.
      destruct (sameb_dec A x y) as [Sxy|Nxy]; [|apply D; assumption].
      destruct (memN_dec x B) as [IxB|IxB].
      - assert (IyB : In y B) by (eapply sameb_block; eauto).
        assert (Hx := proj1 (Hunion _) IxB). assert (Hy := proj1 (Hunion _) IyB).
        destruct Hx as [Hx|Hx], Hy as [Hy|Hy].
        + exfalso. apply Hn. apply (areplace_sameb U A B B1 B2 f1 f2 P HB Hunion Hdisj). split; [exact Sxy|tauto].
        + apply Hsep; assumption.
        + apply dist_sym. apply Hsep; assumption.
        + exfalso. apply Hn. apply (areplace_sameb U A B B1 B2 f1 f2 P HB Hunion Hdisj). split; [exact Sxy|].
          intros _. split; intro F; exfalso; eapply Hdisj; eauto.
      - exfalso. apply Hn. apply (areplace_sameb U A B B1 B2 f1 f2 P HB Hunion Hdisj). split; [exact Sxy|].
        intro F. contradiction.
    Qed.
  End ReplaceSem.

  (** *** splitting one block by a set [X] *)
  Lemma inter_diff_facts (B X : list N) :
    sortedN B ->
    let B1 := bm_inter B X in
    let B2 := bm_diff B B1 in
    sortedN B1 /\ sortedN B2
    /\ (forall x, In x B <-> In x B1 \/ In x B2)
    /\ (forall x, In x B1 -> In x B2 -> False)
    /\ (forall x, In x B1 <-> In x B /\ In x X)
    /\ (forall x, In x B2 <-> In x B /\ ~ In x X).
  Proof.
    intros SB B1 B2. unfold B2, B1.
    assert (E2 : forall x, In x (bm_diff B (bm_inter B X)) <-> In x B /\ ~ In x X).
    { intro x. rewrite bm_diff_In, bm_inter_In. tauto. }
    repeat split.
    - apply sortedN_filter. exact SB.
    - apply sortedN_filter. exact SB.
    - intro H. destruct (memN_dec x X); [left; apply bm_inter_In; tauto|right; apply E2; tauto].
    - intros [H|H]; [apply bm_inter_In in H; tauto|apply E2 in H; tauto].
    - intros x H H'. apply bm_inter_In in H. apply E2 in H'. tauto.
    - apply bm_inter_In in H. tauto.
    - apply bm_inter_In in H. tauto.
    - intro H. apply bm_inter_In. exact H.
    - apply E2 in H. tauto.
    - apply E2 in H. tauto.
    - intro H. apply E2. exact H.
  Qed.

  Definition SplitPres (X : list N) (Q : astate -> Prop) : Prop :=
    forall A B, APart U A -> In B (blocks A) -> (exists z, In z B /\ In z X) -> Q A -> Q (asplit A X B).

  (** a generic principle: whatever [areplace] preserves under the hypotheses of the work-list
      rule, [asplit] preserves *)
  Lemma asplit_pres (X : list N) (Q : astate -> Prop) :
    (forall A B B1 B2 f1 f2,
        APart U A -> In B (blocks A) -> B1 <> [] -> B2 <> [] -> sortedN B1 -> sortedN B2 ->
        (forall x, In x B <-> In x B1 \/ In x B2) -> (forall x, In x B1 -> In x B2 -> False) ->
        (forall x, In x B1 <-> In x B /\ In x X) -> (forall x, In x B2 <-> In x B /\ ~ In x X) ->
        (aflag B A = true -> f1 = true /\ f2 = true) -> (f1 = true \/ f2 = true) ->
        Q A -> Q (areplace A B B1 B2 f1 f2)) ->
    SplitPres X Q.
  Proof.
    intros H A B P HB [z [Hz HzX]] HQ. unfold asplit.
    destruct (inter_diff_facts B X (ap_sorted _ _ P _ HB)) as [S1 [S2 [Hu [Hd [E1 E2]]]]].
    destruct (bm_diff B (bm_inter B X)) as [|y r] eqn:E; [exact HQ|].
    rewrite <- E in *. apply H; auto.
    - intro F. assert (In z (bm_inter B X)) by (apply E1; auto). rewrite F in H0. contradiction.
    - rewrite E. discriminate.
    - intro W. rewrite W. auto.
    - destruct (aflag B A); [auto|]. cbn [orb].
      destruct (Nat.leb _ _); cbn [negb]; auto.
  Qed.

  Lemma asplit_APart X : SplitPres X (APart U).
  Proof.
    apply asplit_pres. intros. apply areplace_APart; assumption.
  Qed.

  Lemma asplit_AInv X S p : SplitPres X (fun A => AInv A S p).
  Proof.
    apply asplit_pres. intros. apply areplace_AInv; assumption.
  Qed.

  Lemma asplit_ARef X : SplitPres X ARef.
  Proof.
    apply asplit_pres. intros. eapply ARef_refines; [|eassumption].
    apply (areplace_refines U); assumption.
  Qed.

  (** [X] only separates states that some word tells apart *)
  Definition SepX (X : list N) : Prop :=
    forall x y, In x U -> In y U -> x <> 0 -> y <> 0 -> In x X -> ~ In y X -> dist x y.

  Lemma asplit_ADist X : SepX X -> SplitPres X (fun A => ARef A /\ ADist A).
  Proof.
    intro Sep. apply asplit_pres. intros A B B1 B2 f1 f2 P HB N1 N2 S1 S2 Hu Hd E1 E2 Fb Fo [R D].
    split.
    - eapply ARef_refines; [|eassumption]. apply (areplace_refines U); assumption.
    - apply areplace_ADist; try assumption.
      intros x y Hx Hy. apply E1 in Hx. apply E2 in Hy. destruct Hx as [HxB HxX], Hy as [HyB HyX].
      assert (Sxy : sameb A x y) by (exists B; auto).
      destruct (sameb_in_U U A x y P Sxy) as [Ux Uy].
      apply Sep; auto.
      + intro Z. destruct (R x y Sxy) as [_ Rz]. specialize (Rz Z). subst. contradiction.
      + intro Z. destruct (R y x (sameb_sym _ _ _ Sxy)) as [_ Rz]. specialize (Rz Z). subst. contradiction.
  Qed.

  Lemma asplit_refines A X B :
    APart U A -> In B (blocks A) -> refines (asplit A X B) A.
  Proof.
    intros P HB. unfold asplit.
    destruct (inter_diff_facts B X (ap_sorted _ _ P _ HB)) as [S1 [S2 [Hu [Hd [E1 E2]]]]].
    destruct (bm_diff B (bm_inter B X)) as [|y r] eqn:E; [apply refines_refl|].
    rewrite <- E in *. apply (areplace_refines U); assumption.
  Qed.

  (** the blocks after a split: untouched blocks, or [X]-homogeneous halves *)
  Lemma asplit_blocks A X B b :
    APart U A -> In B (blocks A) ->
    In b (blocks (asplit A X B)) ->
    (In b (blocks A) /\ b <> B) \/ (forall z, In z b -> In z X) \/ (forall z, In z b -> ~ In z X).
  Proof.
    intros P HB. unfold asplit.
    destruct (inter_diff_facts B X (ap_sorted _ _ P _ HB)) as [S1 [S2 [Hu [Hd [E1 E2]]]]].
    destruct (bm_diff B (bm_inter B X)) as [|y r] eqn:E.
    - intro Hb. destruct (list_eq_dec N.eq_dec b B) as [->|Hn]; [|auto].
      right. left. intros z Hz. destruct (proj1 (Hu z) Hz) as [F|[]]. apply E1 in F. tauto.
    - rewrite <- E in *. intro Hb. apply blocks_areplace in Hb. destruct Hb as [Hb|[->| ->]]; [auto| |].
      + right. left. intros z Hz. apply E1 in Hz. tauto.
      + right. right. intros z Hz. apply E2 in Hz. tauto.
  Qed.

  Lemma asplit_keeps A X B b :
    In b (blocks A) -> b <> B -> In b (blocks (asplit A X B)).
  Proof.
    intros Hb Hn. unfold asplit. destruct (bm_diff B (bm_inter B X)); [exact Hb|].
    apply blocks_areplace. auto.
  Qed.

  (** *** refining the whole partition by [X] *)
  Lemma arefine_gen X (Q : astate -> Prop) :
    SplitPres X Q ->
    forall l A,
      APart U A -> NoDup l ->
      (forall B, In B l -> In B (blocks A) /\ exists z, In z B /\ In z X) ->
      Q A ->
      let A' := fold_left (fun A B => asplit A X B) l A in
      APart U A' /\ Q A' /\ refines A' A
      /\ (forall b, In b (blocks A') ->
            (In b (blocks A) /\ ~ In b l) \/ (forall z, In z b -> In z X) \/ (forall z, In z b -> ~ In z X)).
  Proof.
    intros HQ l. induction l as [|B r IH]; intros A P ND Hl Q0; cbn [fold_left].
    - split; [exact P|]. split; [exact Q0|]. split; [apply refines_refl|]. intros b Hb. left. auto.
    - inversion ND as [|? ? Hn Hr]; subst.
      destruct (Hl B (or_introl eq_refl)) as [HB Hov].
      assert (P1 : APart U (asplit A X B)) by (apply asplit_APart; assumption).
      assert (Q1 : Q (asplit A X B)) by (apply HQ; assumption).
      assert (Hl1 : forall B', In B' r -> In B' (blocks (asplit A X B)) /\ exists z, In z B' /\ In z X).
      { intros B' HB'. destruct (Hl B' (or_intror HB')) as [I1 I2]. split; [|exact I2].
        apply asplit_keeps; [exact I1|]. intro E. subst. contradiction. }
      destruct (IH _ P1 Hr Hl1 Q1) as [P' [Q' [R' Hb']]].
      split; [exact P'|]. split; [exact Q'|]. split.
      + eapply refines_trans; [exact R'|]. apply asplit_refines; assumption.
      + intros b Hb. destruct (Hb' b Hb) as [[I1 I2]|I]; [|auto].
        destruct (asplit_blocks A X B b P HB I1) as [[J1 J2]|J]; [|auto].
        left. split; [exact J1|]. intros [F|F]; [congruence|contradiction].
  Qed.

  Lemma aov_In A X B : In B (aov A X) <-> In B (blocks A) /\ exists z, In z B /\ In z X.
  Proof.
    unfold aov. rewrite filter_In, negb_true_iff, bm_is_disjoint_false. tauto.
  Qed.

  Lemma arefine_spec X (Q : astate -> Prop) A :
    SplitPres X Q -> APart U A -> Q A ->
    APart U (arefine A X) /\ Q (arefine A X) /\ refines (arefine A X) A /\ homog (arefine A X) X.
  Proof.
    intros HQ P Q0. unfold arefine.
    destruct (arefine_gen X Q HQ (aov A X) A P) as [P' [Q' [R' Hb]]]; auto.
    - unfold aov. apply NoDup_filter. apply (ap_nodup _ _ P).
    - intros B HB. apply aov_In. exact HB.
    - split; [exact P'|]. split; [exact Q'|]. split; [exact R'|]. intros x y H. split.
      + destruct H as [b [Hb' [Hx Hy]]]. intro HxX.
        destruct (Hb b Hb') as [[I1 I2]|[I|I]].
        * exfalso. apply I2. apply aov_In. split; [exact I1|]. exists x. auto.
        * auto.
        * exfalso. exact (I x Hx HxX).
      + destruct H as [b [Hb' [Hx Hy]]]. intro HyX.
        destruct (Hb b Hb') as [[I1 I2]|[I|I]].
        * exfalso. apply I2. apply aov_In. split; [exact I1|]. exists y. auto.
        * auto.
        * exfalso. exact (I y Hy HyX).
  Qed.

  Lemma SplitPres_and X (Q1 Q2 : astate -> Prop) :
    SplitPres X Q1 -> SplitPres X Q2 -> SplitPres X (fun A => Q1 A /\ Q2 A).
  Proof. intros H1 H2 A B P HB Hov [A1 A2]. split; [apply H1|apply H2]; assumption. Qed.

  (** *** one iteration of the outer loop: refining by a list of sets *)
  Lemma arefine_list (Q : astate -> Prop) :
    forall Xs A,
      (forall X, In X Xs -> SplitPres X Q) -> APart U A -> Q A ->
      let A' := fold_left arefine Xs A in
      APart U A' /\ Q A' /\ refines A' A /\ (forall X, In X Xs -> homog A' X).
  Proof.
    induction Xs as [|X r IH]; intros A HQ P Q0; cbn [fold_left].
    - split; [exact P|]. split; [exact Q0|]. split; [apply refines_refl|]. intros X [].
    - destruct (arefine_spec X Q A (HQ X (or_introl eq_refl)) P Q0) as [P1 [Q1 [R1 H1]]].
      destruct (IH (arefine A X) (fun X' H => HQ X' (or_intror H)) P1 Q1) as [P' [Q' [R' H']]].
      split; [exact P'|]. split; [exact Q'|]. split; [eapply refines_trans; eassumption|].
      intros X' [E|HX'].
      + subst. eapply homog_refines; eassumption.
      + apply H'. exact HX'.
  Qed.

  (** *** popping a block from the work-list *)
  Lemma blocks_aclear G A : blocks (aclear G A) = blocks A.
  Proof.
    unfold blocks, aclear. rewrite map_map. apply map_ext. intros [b f]. cbn [fst].
    destruct (bm_eqb b G); reflexivity.
  Qed.

  Lemma sameb_aclear G A x y : sameb (aclear G A) x y <-> sameb A x y.
  Proof. unfold sameb. rewrite blocks_aclear. tauto. Qed.

  Lemma aclear_APart G A : APart U A -> APart U (aclear G A).
  Proof.
    intros [P1 P2 P3 P4 P5]. constructor; rewrite blocks_aclear; assumption.
  Qed.

  Lemma aclear_In_true G A b : In (b, true) (aclear G A) <-> In (b, true) A /\ b <> G.
  Proof.
    unfold aclear. rewrite in_map_iff. split.
    - intros [[b' f] [E H]]. cbn [fst] in E. destruct (bm_eqb b' G) eqn:EG; [discriminate|].
      inversion E; subst. split; [exact H|]. intro F. subst. rewrite (proj2 (bm_eqb_iff G G) eq_refl) in EG. discriminate.
    - intros [H Hn]. exists (b, true). split; [|exact H]. cbn [fst].
      destruct (bm_eqb b G) eqn:EG; [apply bm_eqb_iff in EG; contradiction|reflexivity].
  Qed.

  Lemma inW_aclear G A x :
    APart U A -> In G (blocks A) -> (inW (aclear G A) x <-> inW A x /\ ~ In x G).
  Proof.
    intros P HG. split.
    - intros [b [Hb Hx]]. apply aclear_In_true in Hb. destruct Hb as [Hb Hn]. split; [exists b; auto|].
      intro F. apply Hn. apply (ap_overlap _ _ P b G x); auto. apply in_blocks. eauto.
    - intros [[b [Hb Hx]] Hn]. exists b. split; [|exact Hx]. apply aclear_In_true. split; [exact Hb|].
      intro E. subst. contradiction.
  Qed.

  Lemma pop_AInv A G S :
    APart U A -> In G (blocks A) -> AInv A S false -> AInv (aclear G A) G true.
  Proof.
    intros P HG I a x y Ha Hxy Hn.
    rewrite sameb_aclear in Hxy. rewrite sameb_aclear in Hn.
    assert (HGu : forall u v, In u G -> ~ In v G -> xorP (In u G) (In v G)) by (intros; left; auto).
    destruct (I a x y Ha Hxy Hn) as [W|[W|[F _]]]; [| |discriminate].
    - destruct (memN_dec (dl x a) G) as [Iu|Iu].
      + destruct (memN_dec (dl y a) G) as [Iv|Iv].
        * exfalso. apply Hn. exists G. auto.
        * right. right. split; [reflexivity|]. left. auto.
      + left. apply inW_aclear; auto.
    - destruct (memN_dec (dl y a) G) as [Iv|Iv].
      + destruct (memN_dec (dl x a) G) as [Iu|Iu].
        * exfalso. apply Hn. exists G. auto.
        * right. right. split; [reflexivity|]. right. auto.
      + right. left. apply inW_aclear; auto.
  Qed.

  Lemma AInv_drop A G :
    AInv A G true ->
    (forall a x y, In a letters -> sameb A x y -> (In (dl x a) G <-> In (dl y a) G)) ->
    AInv A G false.
  Proof.
    intros I H a x y Ha Hxy Hn. destruct (I a x y Ha Hxy Hn) as [W|[W|[_ X]]]; auto.
    exfalso. specialize (H a x y Ha Hxy). destruct X as [[X1 X2]|[X1 X2]]; tauto.
  Qed.

  (** a block is a union of classes of any finer partition *)
  Lemma SepX_of_block A G :
    APart U A -> ADist A -> In G (blocks A) ->
    forall u v, In u U -> In v U -> In u G -> ~ In v G -> dist u v.
  Proof.
    intros P D HG u v Uu Uv Iu Iv. apply D; auto. intro S. apply Iv. eapply sameb_block; eauto.
  Qed.

  (** *** at the end of the loop *)
  Lemma done_stable A S :
    APart U A -> AInv A S false -> (forall b, ~ In (b, true) A) ->
    forall a x y, In a letters -> sameb A x y -> sameb A (dl x a) (dl y a).
  Proof.
    intros P I NW a x y Ha Hxy.
    destruct (sameb_dec A (dl x a) (dl y a)) as [E|Nn]; [exact E|].
    destruct (I a x y Ha Hxy Nn) as [[b [F _]]|[[b [F _]]|[F _]]]; [| |discriminate]; exfalso; eapply NW; eauto.
  Qed.

  Hypothesis dl_nonletter : forall x a, ~ In a letters -> dl x a = 0.
  Hypothesis dl_dead : forall a, dl 0 a = 0.

  Lemma stable_nerode A :
    APart U A -> ARef A ->
    (forall a x y, In a letters -> sameb A x y -> sameb A (dl x a) (dl y a)) ->
    forall w x y, sameb A x y -> af x w = af y w.
  Proof.
    intros P R St. induction w as [|a w IH]; intros x y Hxy.
    - unfold af. cbn [fold_left]. apply R. exact Hxy.
    - change (af (dl x a) w = af (dl y a) w).
      destruct (in_dec N.eq_dec a letters) as [Ha|Ha].
      + apply IH. apply St; assumption.
      + rewrite !(dl_nonletter _ _ Ha). reflexivity.
  Qed.
End Sem.
