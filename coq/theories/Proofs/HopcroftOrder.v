(** Independence of the hash-iteration orders.  The Rust loop pops an arbitrary element of the
    work-list ([worklist.iter().next()]), walks the per-input preimages in an arbitrary order
    ([transitions_to_group.values()]) and collects the overlapping groups in an arbitrary order
    ([partitions.iter()]).  [run_any] allows every such choice; every run ends in the Nerode
    partition, so any two runs end in the same partition, and the run of the model (which takes
    list order) is one of them. *)
From Coq Require Import Permutation.
From CG Require Import Base.Prelude Model.Dfa Model.Minimize Spec.DfaEquiv Spec.MinimizeSpec
  Proofs.MinimizeBasics Proofs.MinimizeImage Proofs.HopcroftAbs Proofs.HopcroftSim Proofs.HopcroftLoop.

Definition refine_perm (A : astate) (X : list N) (A' : astate) : Prop :=
  exists l, Permutation l (aov A X) /\ A' = fold_left (fun A B => asplit A X B) l A.

Inductive refine_seq : list (list N) -> astate -> astate -> Prop :=
| rs_nil A : refine_seq [] A A
| rs_cons X Xs A A1 A' : refine_perm A X A1 -> refine_seq Xs A1 A' -> refine_seq (X :: Xs) A A'.

Definition splitters (image : list transition) (G : list N) : list (list N) :=
  match bm_min G, bm_max G with
  | Some gmin, Some gmax =>
      match find_bounds image gmin gmax with
      | Some ts => map snd (transitions_to_group ts G)
      | None => []
      end
  | _, _ => []
  end.

Definition iteration_any (image : list transition) (A A' : astate) : Prop :=
  exists G Xs, In (G, true) A /\ Permutation Xs (splitters image G) /\ refine_seq Xs (aclear G A) A'.

Inductive run_any (image : list transition) : astate -> astate -> Prop :=
| ra_stop A : (forall b, ~ In (b, true) A) -> run_any image A A
| ra_step A A1 A' : iteration_any image A A1 -> run_any image A1 A' -> run_any image A A'.

Lemma aprocess_splitters image A G : aprocess image A G = fold_left arefine (splitters image G) A.
Proof.
  unfold aprocess, splitters. destruct (bm_min G); [|reflexivity]. destruct (bm_max G); [|reflexivity].
  destruct (find_bounds image n n0); reflexivity.
Qed.

Lemma refine_seq_arefine Xs : forall A, refine_seq Xs A (fold_left arefine Xs A).
Proof.
  induction Xs as [|X r IH]; intro A; cbn [fold_left]; [constructor|].
  econstructor; [|apply IH]. exists (aov A X). split; [apply Permutation_refl|reflexivity].
Qed.

Section Order.
  Variable U : list N.

  Lemma refine_perm_spec X (Q : astate -> Prop) A A' :
    SplitPres U X Q -> APart U A -> Q A -> refine_perm A X A' ->
    APart U A' /\ Q A' /\ refines A' A /\ homog A' X.
  Proof.
    intros HQ P Q0 [l [Pl ->]].
    destruct (arefine_gen (fun _ => true) U X Q HQ l A P) as [P' [Q' [R' Hb]]]; auto.
    - apply (Permutation_NoDup (Permutation_sym Pl)). unfold aov. apply NoDup_filter, (ap_nodup _ _ P).
    - intros B HB. apply aov_In. apply (Permutation_in _ Pl). exact HB.
    - split; [exact P'|]. split; [exact Q'|]. split; [exact R'|]. intros x y H. split.
      + destruct H as [b [Hb' [Hx Hy]]]. intro HxX.
        destruct (Hb b Hb') as [[I1 I2]|[I|I]].
        * exfalso. apply I2. apply (Permutation_in _ (Permutation_sym Pl)).
          apply aov_In. split; [exact I1|]. exists x. auto.
        * auto.
        * exfalso. exact (I x Hx HxX).
      + destruct H as [b [Hb' [Hx Hy]]]. intro HyX.
        destruct (Hb b Hb') as [[I1 I2]|[I|I]].
        * exfalso. apply I2. apply (Permutation_in _ (Permutation_sym Pl)).
          apply aov_In. split; [exact I1|]. exists y. auto.
        * auto.
        * exfalso. exact (I y Hy HyX).
  Qed.

  Lemma refine_seq_spec (Q : astate -> Prop) Xs A A' :
    refine_seq Xs A A' ->
    (forall X, In X Xs -> SplitPres U X Q) -> APart U A -> Q A ->
    APart U A' /\ Q A' /\ refines A' A /\ (forall X, In X Xs -> homog A' X).
  Proof.
    induction 1 as [A|X Xs A A1 A' H1 Hr IH]; intros HQ P Q0.
    - split; [exact P|]. split; [exact Q0|]. split; [apply refines_refl|]. intros X [].
    - destruct (refine_perm_spec X Q A A1 (HQ X (or_introl eq_refl)) P Q0 H1) as [P1 [Q1 [R1 Hh1]]].
      destruct (IH (fun X' H => HQ X' (or_intror H)) P1 Q1) as [P' [Q' [R' H']]].
      split; [exact P'|]. split; [exact Q'|]. split; [eapply refines_trans; eassumption|].
      intros X' [E|HX'].
      + subst. eapply homog_refines; eassumption.
      + apply H'. exact HX'.
  Qed.
End Order.

Section OrderSem.
  Variable d : dfa.
  Hypothesis W : wf d.
  Hypothesis C : all_coreachable d.

  Let U := universe d.
  Let dl := delta d.
  Let isacc := is_accepting d.
  Let letters := input_ids d.
  Let image := make_transitions_image d.

  (** whatever refines [aclear G A] by all the splitters of [G], in any order, re-establishes
      the loop invariant *)
  Lemma iteration_core A G A' :
    LInv d A -> In (G, true) A ->
    (forall Q : astate -> Prop,
        (forall X, In X (splitters image G) -> SplitPres U X Q) -> Q (aclear G A) ->
        APart U A' /\ Q A' /\ (forall X, In X (splitters image G) -> homog A' X)) ->
    LInv d A'.
  Proof.
    intros [P [R [D I]]] HGt Href.
    assert (HG : In G (blocks A)) by (apply in_blocks; eauto).
    assert (SG := ap_sorted _ _ P _ HG). assert (NG := ap_nonempty _ _ P _ HG).
    set (A1 := aclear G A) in *.
    assert (P1 : APart U A1) by (apply aclear_APart; exact P).
    assert (R1 : ARef isacc A1).
    { intros x y H. apply R. apply (sameb_aclear isacc G A). exact H. }
    assert (D1 : ADist dl isacc U A1).
    { intros x y Ux Uy H. apply D; auto. intro F. apply H. apply (sameb_aclear isacc G A). exact F. }
    assert (I1 : AInv dl letters A1 G true) by (apply (pop_AInv dl isacc letters U A G []); assumption).
    assert (Sep := SepX_of_block dl isacc U A G P D HG).
    set (Q := fun A : astate => AInv dl letters A G true /\ (ARef isacc A /\ ADist dl isacc U A)).
    destruct (bm_min_some G NG) as [mn Emn]. destruct (bm_max_some G NG) as [mx Emx].
    unfold splitters in Href. rewrite Emn, Emx in Href.
    destruct (find_bounds image mn mx) as [ts|] eqn:Ef.
    - set (m := transitions_to_group ts G) in *.
      destruct (ttg_spec ts G) as [NDm _]. fold m in NDm.
      assert (Hm := window_some d W G mn mx ts SG Emn Emx Ef). fold m in Hm.
      assert (HQ : forall X, In X (map snd m) -> SplitPres U X Q).
      { intros X HX. apply in_map_iff in HX. destruct HX as [[a X'] [E HX]]. cbn [snd] in E. subst X'.
        apply SplitPres_and.
        - apply asplit_AInv. exact isacc.
        - apply asplit_ADist. intros x y Ux Uy Nx Ny Hx Hy.
          assert (Gx : gt_mem m a x) by (exists X; auto).
          apply Hm in Gx. destruct Gx as [Kx [La Tx]].
          assert (Ky : In y (map fst (d_trans d))) by (apply (universe_key d W); assumption).
          assert (Ty : ~ In (dl y a) G).
          { intro F. apply Hy. apply (gt_mem_In m a X y NDm HX). apply Hm. auto. }
          apply (dist_step dl isacc x y a). apply Sep; auto; apply (dl_closed d W); assumption. }
      destruct (Href Q HQ (conj I1 (conj R1 D1))) as [P' [[I' [R' D']] Hh]].
      apply (finish_iteration d _ G P' R' D' I').
      intros a x y Ha Hxy Nx Ny.
      destruct (sameb_in_U U _ x y P' Hxy) as [Ux Uy].
      assert (Kx : In x (map fst (d_trans d))) by (apply (universe_key d W); assumption).
      assert (Ky : In y (map fst (d_trans d))) by (apply (universe_key d W); assumption).
      destruct (in_dec N.eq_dec a (map fst m)) as [Ia|Ia].
      + apply in_map_iff in Ia. destruct Ia as [[a' X] [E HX]]. cbn [fst] in E. subst a'.
        assert (Hom : homog A' X).
        { apply Hh. apply in_map_iff. exists (a, X). auto. }
        specialize (Hom x y Hxy).
        rewrite (gt_mem_In m a X x NDm HX), (gt_mem_In m a X y NDm HX), !Hm in Hom. tauto.
      + assert (Nm : forall z, ~ gt_mem m a z).
        { intros z [X [HX _]]. apply Ia. apply in_map_iff. exists (a, X). auto. }
        split; intro F; exfalso.
        * apply (Nm x). apply Hm. auto.
        * apply (Nm y). apply Hm. auto.
    - destruct (Href Q (fun X (H : In X []) => match H with end) (conj I1 (conj R1 D1))) as [P' [[I' [R' D']] _]].
      apply (finish_iteration d _ G P' R' D' I').
      intros a x y Ha Hxy Nx Ny.
      destruct (sameb_in_U U _ x y P' Hxy) as [Ux Uy].
      assert (Kx : In x (map fst (d_trans d))) by (apply (universe_key d W); assumption).
      assert (Ky : In y (map fst (d_trans d))) by (apply (universe_key d W); assumption).
      assert (Hn := window_none d W G mn mx SG Emn Emx Ef a).
      split; intro F; exfalso; [apply (Hn x)|apply (Hn y)]; auto.
  Qed.

  Lemma iteration_any_LInv A A' : LInv d A -> iteration_any image A A' -> LInv d A'.
  Proof.
    intros L [G [Xs [HG [Pm Hs]]]]. apply (iteration_core A G A' L HG).
    intros Q HQ Q0.
    destruct (refine_seq_spec U Q Xs (aclear G A) A' Hs) as [P' [Q' [_ Hh]]].
    - intros X HX. apply HQ. apply (Permutation_in _ Pm). exact HX.
    - apply aclear_APart. apply L.
    - exact Q0.
    - split; [exact P'|]. split; [exact Q'|]. intros X HX. apply Hh.
      apply (Permutation_in _ (Permutation_sym Pm)). exact HX.
  Qed.

  Lemma run_any_LInv A A' :
    run_any image A A' -> LInv d A -> LInv d A' /\ (forall b, ~ In (b, true) A').
  Proof.
    induction 1 as [A Hn|A A1 A' Hi Hr IH]; intro L; [auto|].
    apply IH. eapply iteration_any_LInv; eassumption.
  Qed.

  (** every run, whatever its choices, ends in the Nerode partition *)
  Theorem any_order_nerode A' :
    run_any image (A0 d) A' ->
    (forall x y, sameb A' x y -> forall w, accepts_from d x w = accepts_from d y w)
    /\ (forall x y, In x U -> In y U -> ~ sameb A' x y ->
                    exists w, accepts_from d x w <> accepts_from d y w).
  Proof.
    intro Hr. destruct (run_any_LInv _ _ Hr (A0_LInv d W C)) as [[P [R [D I]]] NW]. split.
    - intros x y Hxy w. rewrite <- !(af_accepts d W).
      apply (stable_nerode dl isacc letters U (delta_nonletter d W) A' P R); [|exact Hxy].
      apply (done_stable dl letters U A' [] P I). exact NW.
    - intros x y Ux Uy Hn. destruct (D x y Ux Uy Hn) as [w Hw]. exists w.
      rewrite <- !(af_accepts d W). exact Hw.
  Qed.

  (** hence any two runs end in the same partition *)
  Corollary any_order_unique A1 A2 :
    run_any image (A0 d) A1 -> run_any image (A0 d) A2 ->
    forall x y, In x U -> In y U -> (sameb A1 x y <-> sameb A2 x y).
  Proof.
    intros H1 H2 x y Ux Uy.
    destruct (any_order_nerode A1 H1) as [E1 D1]. destruct (any_order_nerode A2 H2) as [E2 D2].
    split; intro S.
    - destruct (sameb_dec A2 x y) as [S2|N2]; [exact S2|]. exfalso.
      destruct (D2 x y Ux Uy N2) as [w Hw]. apply Hw. apply E1. exact S.
    - destruct (sameb_dec A1 x y) as [S1|N1]; [exact S1|]. exfalso.
      destruct (D1 x y Ux Uy N1) as [w Hw]. apply Hw. apply E2. exact S.
  Qed.

  (** the loop of the model is one of these runs *)
  Theorem model_run_any fuel : forall h h',
    Good U h -> hopcroft_loop fuel image h = Ok h' -> run_any image (abs h) (abs h').
  Proof.
    induction fuel as [|f IH]; intros h h' Gd E; cbn [hopcroft_loop] in E; [discriminate|].
    destruct (h_work h) as [|gid rest] eqn:Ew.
    - inversion E; subst. apply ra_stop. intros b F. unfold abs in F. apply in_map_iff in F.
      destruct F as [id [F _]]. inversion F as [[F1 F2]]. apply memN_iff in F2. rewrite Ew in F2. contradiction.
    - assert (Hgw : In gid (h_work h)) by (rewrite Ew; left; reflexivity).
      assert (Hgp : In gid (h_parts h)) by (apply (g_work _ _ Gd); exact Hgw).
      destruct (good_lookup U h gid Gd Hgp) as [G [LG [NG HG]]].
      destruct (abs_pop U h gid G Gd Hgp LG) as [Gd1 A1].
      rewrite <- Ew in E.
      destruct (process_group_sim U image _ gid G Gd1 LG NG) as [h2 [E2 [Gd2 A2]]].
      rewrite E2 in E. cbn [obind] in E.
      apply (ra_step image (abs h) (abs h2) (abs h')); [|apply (IH h2 h' Gd2 E)].
      exists G, (splitters image G). split; [|split; [apply Permutation_refl|]].
      + unfold abs. apply in_map_iff. exists gid. split; [|exact Hgp].
        unfold content. rewrite LG. f_equal. apply memN_iff. exact Hgw.
      + rewrite A2, A1, aprocess_splitters. apply refine_seq_arefine.
  Qed.
End OrderSem.
