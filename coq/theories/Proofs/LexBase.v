(** Basic facts about strings, positions and the character classes of the lexer.
    The closed facts about the character classes (which characters are regular, escapable, blank)
    are decided by [vm_compute] on the tables regenerated from parse.rs: if the Rust source
    changes a class in a way that breaks the round trip, this file stops compiling. *)
From CG Require Import Base.Prelude Model.Ast Model.Lexer Model.Parser Spec.Printer.
From CGgen Require Import Consts.

(** keep the named characters and classes folded under [cbn] *)
Arguments Ascii.eqb : simpl never.
Arguments is_regular : simpl never.
Arguments is_escapable : simpl never.
Arguments is_multispace : simpl never.
Arguments comment_end_char : simpl never.
Arguments comment_start_char : simpl never.
Arguments form_feed_char : simpl never.
Arguments LF : simpl never.
Arguments FF : simpl never.
Arguments HASH : simpl never.
Arguments BACKSLASH : simpl never.
Arguments DQUOTE : simpl never.
Arguments DOT : simpl never.
Arguments LT : simpl never.
Arguments GT : simpl never.
Arguments AT : simpl never.
Arguments SEMI : simpl never.
Arguments LBRACK : simpl never.
Arguments RBRACK : simpl never.
Arguments LPAREN : simpl never.
Arguments RPAREN : simpl never.
Arguments BAR : simpl never.

(** *** Strings *)

Lemma app_nil_r_s : forall s, append s EmptyString = s.
Proof. induction s; cbn; congruence. Qed.

Lemma app_assoc_s : forall a b c, append (append a b) c = append a (append b c).
Proof. induction a; cbn; intros; congruence. Qed.

Lemma length_app_s : forall a b, String.length (append a b) = (String.length a + String.length b)%nat.
Proof. induction a; cbn; intros; auto. Qed.

Lemma adv_str_app : forall a b p, adv_str (append a b) p = adv_str b (adv_str a p).
Proof. induction a; cbn; intros; auto. Qed.

Lemma eqb_eq_a : forall a b, Ascii.eqb a b = true <-> a = b.
Proof. intros; apply Ascii.eqb_eq. Qed.

Lemma eqb_neq_a : forall a b, Ascii.eqb a b = false <-> a <> b.
Proof. intros; apply Ascii.eqb_neq. Qed.

(** first character tests; the empty string passes *)
Definition hd_in (P : ascii -> bool) (s : string) : bool :=
  match s with EmptyString => true | String c _ => P c end.

Definition hd_is (P : ascii -> bool) (s : string) : bool :=
  match s with EmptyString => false | String c _ => P c end.

(** *** All 256 characters *)

Definition all_ascii : list ascii := map ascii_of_nat (seq 0 256).

Lemma in_all_ascii : forall c, In c all_ascii.
Proof.
  intro c. unfold all_ascii. rewrite <- (ascii_nat_embedding c).
  apply in_map. apply in_seq. pose proof (nat_ascii_bounded c). lia.
Qed.

Lemma ascii_forall : forall P : ascii -> bool, forallb P all_ascii = true -> forall c, P c = true.
Proof. intros P H c. rewrite forallb_forall in H. apply H, in_all_ascii. Qed.

Ltac by_enum := apply ascii_forall; vm_compute; reflexivity.

(** *** Character classes *)

Definition blank_start (c : ascii) : bool :=
  is_multispace c || Ascii.eqb c form_feed_char || Ascii.eqb c comment_start_char.

Definition LBRACE : ascii := ascii_of_N 123.

(** a character on which no [unary_expr] can start *)
Definition no_unary (c : ascii) : bool :=
  negb (is_regular c || Ascii.eqb c BACKSLASH || Ascii.eqb c DOT || Ascii.eqb c LT
        || Ascii.eqb c LBRACK || Ascii.eqb c LPAREN || Ascii.eqb c LBRACE).

(** a character a printed expression can start with *)
Definition ustart (c : ascii) : bool :=
  (is_regular c && negb (Ascii.eqb c HASH)) || Ascii.eqb c BACKSLASH || Ascii.eqb c DOT
  || Ascii.eqb c LT || Ascii.eqb c LBRACK || Ascii.eqb c LPAREN || Ascii.eqb c LBRACE.

(** an opening bracket *)
Definition bstart (c : ascii) : bool :=
  Ascii.eqb c LT || Ascii.eqb c LBRACK || Ascii.eqb c LPAREN || Ascii.eqb c LBRACE.

(** the end of a literal token: not regular, not a backslash, not a dot *)
Definition tok_stop (c : ascii) : bool :=
  negb (is_regular c || Ascii.eqb c BACKSLASH || Ascii.eqb c DOT).

Lemma regular_not_backslash : is_regular BACKSLASH = false. Proof. vm_compute; reflexivity. Qed.
Lemma regular_not_dot : is_regular DOT = false. Proof. vm_compute; reflexivity. Qed.
Lemma escapable_dot : is_escapable DOT = true. Proof. vm_compute; reflexivity. Qed.
Lemma escapable_backslash : is_escapable BACKSLASH = true. Proof. vm_compute; reflexivity. Qed.

Lemma blank_not_ustart : forall c, implb (blank_start c) (negb (ustart c)) = true.
Proof. by_enum. Qed.

(** a blank that is not the start of a comment *)
Definition ws_start (c : ascii) : bool := is_multispace c || Ascii.eqb c form_feed_char.

Lemma ws_no_unary : forall c, implb (ws_start c) (no_unary c) = true.
Proof. by_enum. Qed.

Lemma ws_blank : forall c, implb (ws_start c) (blank_start c) = true.
Proof. by_enum. Qed.

Lemma no_unary_tok_stop : forall c, implb (no_unary c) (tok_stop c) = true.
Proof. by_enum. Qed.

Lemma ustart_not_no_unary : forall c, implb (ustart c) (negb (no_unary c)) = true.
Proof. by_enum. Qed.

Lemma bstart_ustart : forall c, implb (bstart c) (ustart c) = true.
Proof. by_enum. Qed.

Lemma bstart_tok_stop : forall c, implb (bstart c) (tok_stop c) = true.
Proof. by_enum. Qed.

Lemma multispace_blank : forall c, implb (is_multispace c) (blank_start c) = true.
Proof. by_enum. Qed.

Lemma regular_not_multispace : forall c, implb (is_regular c) (negb (is_multispace c)) = true.
Proof. by_enum. Qed.

Lemma implb_elim : forall a b, implb a b = true -> a = true -> b = true.
Proof. destruct a, b; cbn; auto; discriminate. Qed.
