(** The bridge of [LangBridge] extended to within-word expressions.

    Inside a word ([wbridge]): [Lang.wdenotes c] (words over [Lang.witem]) is the language of
    [Spec.Meaning.trw c], piece by piece through [witem_of_wleaf] -- for [c] whose leaves are
    literals, commands and undefined nonterminals.

    On the command line ([sbridge]): [Lang.denotes e w] iff [tr e] denotes a sequence of leaves
    that stand for the items of [w] ([leaf_item]: a plain leaf stands for the equal item, a
    within-word leaf [LSub x l] for any [IWord L l] with [L] = the language of [x]) -- for [e]
    whose leaves are plain leaves and within-word expressions of the kind above ([sub_tree]). *)
From CG Require Import Base.Prelude Model.Ast Model.Dfa Spec.Lang Spec.Rx Spec.Meaning.
From CG Require Import Proofs.RxFacts Proofs.MeaningFacts Proofs.MeaningLevels Proofs.TreeFacts Proofs.LangBridge.

Definition witem_of_wleaf (a : wleaf) : witem :=
  match a with
  | WLit t d l => Lang.WLit t d l
  | WCmd c l => Lang.WCmd c l
  | WAny => WStar
  end.

Definition wlangI (x : rx wleaf) (v : list witem) : Prop :=
  exists ls, RxFacts.denotes x ls /\ v = map witem_of_wleaf ls.

(** *** folded alternatives and sequences, any leaf type *)
Lemma gdenotes_fold_alt_in {A} (l : list (rx A)) r w : In r l -> RxFacts.denotes r w -> RxFacts.denotes (fold_right alt Zero l) w.
Proof.
  induction l as [| x l IH]; intros Hin Hd; [destruct Hin |].
  cbn [fold_right]. apply alt_denotes. destruct Hin as [<- | Hin]; [apply D_alt_l; assumption | apply D_alt_r; apply IH; assumption].
Qed.

Lemma gdenotes_fold_alt_inv {A} (l : list (rx A)) w : RxFacts.denotes (fold_right alt Zero l) w -> exists r, In r l /\ RxFacts.denotes r w.
Proof.
  induction l as [| x l IH]; cbn [fold_right]; intro H; [exfalso; eapply denotes_zero; eassumption |].
  apply alt_denotes in H. inversion H as [| | | r0 s0 u Hu | r0 s0 u Hu | |]; subst.
  - exists x. split; [left; reflexivity | assumption].
  - destruct (IH Hu) as [r [Hin Hr]]. exists r. split; [right; assumption | assumption].
Qed.

(** *** inside a word *)
Lemma wbridge_to e w :
  Lang.wdenotes e w -> toplevel_tree e = true -> wlangI (trw e) w.
Proof.
  unfold Lang.wdenotes, wlangI. induction 1 as [e w Hl Hw | sp | c cs sp u v Hc IHc Hcs IHcs | c cs sp u Hin Hc IHc
                                       | c cs sp u Hin Hc IHc | c sp | c sp u Hc IHc | c sp u Hc IHc
                                       | c sp u v Hc IHc Hm IHm]; intro Ht.
  - destruct e; cbn [is_leaf toplevel_tree Lang.wleaf] in *; try discriminate; try contradiction; subst w.
    + exists [WLit term descr level]. split; [constructor | reflexivity].
    + exists [WAny]. split; [constructor | reflexivity].
    + destruct compadd; [discriminate |]. exists [WCmd cmd level]. split; [constructor | reflexivity].
  - exists []. split; [rewrite trw_seq; constructor | reflexivity].
  - cbn [toplevel_tree forallb] in Ht. apply andb_true_iff in Ht. destruct Ht as [Ht1 Ht2].
    destruct (IHc Ht1) as [l1 [D1 ->]]. destruct (IHcs Ht2) as [l2 [D2 ->]].
    exists (l1 ++ l2). split; [| rewrite map_app; reflexivity].
    rewrite trw_seq in *. cbn [map fold_right]. apply cat_denotes. constructor; assumption.
  - cbn [toplevel_tree] in Ht. rewrite forallb_forall in Ht.
    destruct (IHc (Ht c Hin)) as [l1 [D1 ->]]. exists l1. split; [| reflexivity].
    rewrite trw_alt. eapply gdenotes_fold_alt_in; [apply in_map; exact Hin | assumption].
  - cbn [toplevel_tree] in Ht. rewrite forallb_forall in Ht.
    destruct (IHc (Ht c Hin)) as [l1 [D1 ->]]. exists l1. split; [| reflexivity].
    rewrite trw_fb. eapply gdenotes_fold_alt_in; [apply in_map; exact Hin | assumption].
  - exists []. split; [cbn [trw]; apply D_alt_r; constructor | reflexivity].
  - cbn [toplevel_tree] in Ht. destruct (IHc Ht) as [l1 [D1 ->]]. exists l1. split; [cbn [trw]; apply D_alt_l; assumption | reflexivity].
  - cbn [toplevel_tree] in Ht. destruct (IHc Ht) as [l1 [D1 ->]]. exists l1. split; [cbn [trw]; apply D_plus_one; assumption | reflexivity].
  - cbn [toplevel_tree] in Ht. destruct (IHc Ht) as [l1 [D1 ->]]. destruct (IHm Ht) as [l2 [D2 ->]].
    exists (l1 ++ l2). split; [| rewrite map_app; reflexivity].
    cbn [trw] in *. apply D_plus_more; assumption.
Qed.

Lemma wbridge_from e : toplevel_tree e = true ->
  forall ls, RxFacts.denotes (trw e) ls -> Lang.wdenotes e (map witem_of_wleaf ls).
Proof.
  unfold Lang.wdenotes. induction e using expr_ind'; intros Ht ls Hd; cbn [toplevel_tree] in Ht; try discriminate.
  - cbn [trw] in Hd. inversion Hd; subst. apply Lang.D_leaf; reflexivity.
  - cbn [trw] in Hd. inversion Hd; subst. apply Lang.D_leaf; reflexivity.
  - cbn [trw] in Hd. inversion Hd; subst. destruct z; [discriminate |]. apply Lang.D_leaf; reflexivity.
  - rewrite trw_seq in Hd. revert ls Hd. rewrite forallb_forall in Ht.
    induction H as [| c cs Hc Hcs IH]; intros ls Hd.
    + cbn in Hd. inversion Hd; subst. apply D_seq_nil.
    + cbn [map fold_right] in Hd. apply cat_denotes in Hd.
      inversion Hd as [| | r s u v Hu Hv | | | |]; subst. rewrite map_app.
      apply D_seq_cons.
      * apply Hc; [apply Ht; left; reflexivity | assumption].
      * apply IH; [intros x Hx; apply Ht; right; assumption | assumption].
  - rewrite trw_alt in Hd. apply gdenotes_fold_alt_inv in Hd. destruct Hd as [r [Hr Hd]].
    apply in_map_iff in Hr. destruct Hr as [c [<- Hc]].
    rewrite Forall_forall in H. rewrite forallb_forall in Ht.
    eapply D_alt; [exact Hc | apply H; [assumption | apply Ht; assumption | assumption]].
  - cbn [trw] in Hd. inversion Hd as [| | | r0 s0 u Hu | r0 s0 u Hu | |]; subst.
    + apply D_opt_some. apply IHe; assumption.
    + inversion Hu; subst. apply D_opt_none.
  - cbn [trw] in Hd. remember (Plus (trw e)) as p eqn:Ep. induction Hd; try discriminate.
    + inversion Ep; subst. apply D_many_one. apply IHe; assumption.
    + inversion Ep; subst. rewrite map_app. apply D_many_more; [apply IHe; assumption | apply IHHd2; reflexivity].
  - rewrite trw_fb in Hd. apply gdenotes_fold_alt_inv in Hd. destruct Hd as [r [Hr Hd]].
    apply in_map_iff in Hr. destruct Hr as [c [<- Hc]].
    rewrite Forall_forall in H. rewrite forallb_forall in Ht.
    eapply D_fb; [exact Hc | apply H; [assumption | apply Ht; assumption | assumption]].
Qed.

Theorem wbridge c v : toplevel_tree c = true -> (Lang.wdenotes c v <-> wlangI (trw c) v).
Proof.
  intro Ht. split; [intro H; apply wbridge_to; assumption |].
  intros [ls [Hd ->]]. apply wbridge_from; assumption.
Qed.

(** *** on the command line *)
Fixpoint sub_tree (e : expr) : bool :=
  match e with
  | Terminal _ _ _ _ | NontermRef _ _ _ => true
  | Command _ z _ _ => negb z
  | Subword c _ _ => toplevel_tree c
  | Sequence cs _ | Alternative cs _ | Fallback cs _ => forallb sub_tree cs
  | Optional c _ | Many1 c _ => sub_tree c
  | DistDescr _ _ _ => false
  end.

Definition item_of_leaf' (a : leaf) : item :=
  match a with
  | LSub x l => IWord (wlangI x) l
  | _ => item_of_leaf a
  end.

Definition leaf_item (a : leaf) (it : item) : Prop := item_equiv it (item_of_leaf' a).

Lemma item_equiv_sym x y : item_equiv x y -> item_equiv y x.
Proof.
  destruct x, y; cbn; try contradiction; [intro H; symmetry; exact H |].
  intros [-> H]. split; [reflexivity | intro v; symmetry; apply H].
Qed.

Lemma item_equiv_trans x y z : item_equiv x y -> item_equiv y z -> item_equiv x z.
Proof.
  destruct x, y, z; cbn; try contradiction; [intros -> ->; reflexivity |].
  intros [-> H1] [-> H2]. split; [reflexivity | intro v; rewrite H1; apply H2].
Qed.

Lemma item_equiv_refl' it : item_equiv it it.
Proof. destruct it; cbn; [reflexivity | split; [reflexivity | intro; reflexivity]]. Qed.

Lemma leaf_item_refl a : leaf_item a (item_of_leaf' a).
Proof. apply item_equiv_refl'. Qed.

Lemma sbridge_to e w :
  Lang.denotes e w -> sub_tree e = true ->
  exists ls, RxFacts.denotes (tr e) ls /\ Forall2 leaf_item ls w.
Proof.
  unfold Lang.denotes. induction 1 as [e w Hl Hw | sp | c cs sp u v Hc IHc Hcs IHcs | c cs sp u Hin Hc IHc
                                       | c cs sp u Hin Hc IHc | c sp | c sp u Hc IHc | c sp u Hc IHc
                                       | c sp u v Hc IHc Hm IHm]; intro Ht.
  - destruct Hw as [it [-> Hit]].
    destruct e; cbn [is_leaf sub_tree] in *; try discriminate.
    + exists [LLit term descr level]. split; [constructor | constructor; [exact Hit | constructor]].
    + exists [LAny]. split; [constructor | constructor; [exact Hit | constructor]].
    + destruct compadd; [discriminate |].
      exists [LCmd cmd level]. split; [constructor | constructor; [exact Hit | constructor]].
    + exists [LSub (trw e) level]. split; [constructor | constructor; [| constructor]].
      unfold leaf_item. cbn [item_of_leaf']. eapply item_equiv_trans; [exact Hit |].
      cbn [item_equiv]. split; [reflexivity | intro v; apply wbridge; exact Ht].
  - exists []. split; [rewrite tr_seq; constructor | constructor].
  - cbn [sub_tree forallb] in Ht. apply andb_true_iff in Ht. destruct Ht as [Ht1 Ht2].
    destruct (IHc Ht1) as [l1 [D1 F1]]. destruct (IHcs Ht2) as [l2 [D2 F2]].
    exists (l1 ++ l2). split; [| apply Forall2_app; assumption].
    rewrite tr_seq in *. cbn [map fold_right]. apply cat_denotes. constructor; assumption.
  - cbn [sub_tree] in Ht. rewrite forallb_forall in Ht.
    destruct (IHc (Ht c Hin)) as [l1 [D1 F1]]. exists l1. split; [| exact F1].
    rewrite tr_alt. eapply gdenotes_fold_alt_in; [apply in_map; exact Hin | assumption].
  - cbn [sub_tree] in Ht. rewrite forallb_forall in Ht.
    destruct (IHc (Ht c Hin)) as [l1 [D1 F1]]. exists l1. split; [| exact F1].
    rewrite tr_fb. eapply gdenotes_fold_alt_in; [apply in_map; exact Hin | assumption].
  - exists []. split; [cbn [tr]; apply D_alt_r; constructor | constructor].
  - cbn [sub_tree] in Ht. destruct (IHc Ht) as [l1 [D1 F1]]. exists l1. split; [cbn [tr]; apply D_alt_l; assumption | exact F1].
  - cbn [sub_tree] in Ht. destruct (IHc Ht) as [l1 [D1 F1]]. exists l1. split; [cbn [tr]; apply D_plus_one; assumption | exact F1].
  - cbn [sub_tree] in Ht. destruct (IHc Ht) as [l1 [D1 F1]]. destruct (IHm Ht) as [l2 [D2 F2]].
    exists (l1 ++ l2). split; [| apply Forall2_app; assumption].
    cbn [tr] in *. apply D_plus_more; assumption.
Qed.

Lemma Forall2_single_l {A B} (R : A -> B -> Prop) a w : Forall2 R [a] w -> exists b, w = [b] /\ R a b.
Proof. intro H. inversion H as [| x y l l' Hxy Hl]; subst. inversion Hl; subst. eauto. Qed.

Lemma sbridge_from e : sub_tree e = true ->
  forall ls w, RxFacts.denotes (tr e) ls -> Forall2 leaf_item ls w -> Lang.denotes e w.
Proof.
  unfold Lang.denotes. induction e using expr_ind'; intros Ht ls w Hd Hf; cbn [sub_tree] in Ht; try discriminate.
  - cbn [tr] in Hd. inversion Hd; subst. apply Forall2_single_l in Hf. destruct Hf as [it [-> Hit]].
    apply Lang.D_leaf; [reflexivity |]. exists it. split; [reflexivity | exact Hit].
  - cbn [tr] in Hd. inversion Hd; subst. apply Forall2_single_l in Hf. destruct Hf as [it [-> Hit]].
    apply Lang.D_leaf; [reflexivity |]. exists it. split; [reflexivity | exact Hit].
  - cbn [tr] in Hd. inversion Hd; subst. apply Forall2_single_l in Hf. destruct Hf as [it [-> Hit]].
    destruct z; [discriminate |]. apply Lang.D_leaf; [reflexivity |]. exists it. split; [reflexivity | exact Hit].
  - rewrite tr_seq in Hd. revert ls w Hd Hf. rewrite forallb_forall in Ht.
    induction H as [| c cs Hc Hcs IH]; intros ls w Hd Hf.
    + cbn in Hd. inversion Hd; subst. inversion Hf; subst. apply D_seq_nil.
    + cbn [map fold_right] in Hd. apply cat_denotes in Hd.
      inversion Hd as [| | r s u v Hu Hv | | | |]; subst.
      apply Forall2_app_inv_l in Hf. destruct Hf as [w1 [w2 [F1 [F2 ->]]]].
      apply D_seq_cons.
      * eapply Hc; [apply Ht; left; reflexivity | eassumption | assumption].
      * eapply IH; [intros x Hx; apply Ht; right; assumption | eassumption | assumption].
  - rewrite tr_alt in Hd. apply gdenotes_fold_alt_inv in Hd. destruct Hd as [r [Hr Hd]].
    apply in_map_iff in Hr. destruct Hr as [c [<- Hc]].
    rewrite Forall_forall in H. rewrite forallb_forall in Ht.
    eapply D_alt; [exact Hc | eapply H; [assumption | apply Ht; assumption | eassumption | assumption]].
  - cbn [tr] in Hd. inversion Hd as [| | | r0 s0 u Hu | r0 s0 u Hu | |]; subst.
    + apply D_opt_some. eapply IHe; eassumption.
    + inversion Hu; subst. inversion Hf; subst. apply D_opt_none.
  - cbn [tr] in Hd. remember (Plus (tr e)) as p eqn:Ep. revert w Hf. induction Hd; intros w Hf; try discriminate.
    + inversion Ep; subst. apply D_many_one. eapply IHe; eassumption.
    + inversion Ep; subst. apply Forall2_app_inv_l in Hf. destruct Hf as [w1 [w2 [F1 [F2 ->]]]].
      apply D_many_more; [eapply IHe; eassumption | apply IHHd2; [reflexivity | assumption]].
  - rewrite tr_fb in Hd. apply gdenotes_fold_alt_inv in Hd. destruct Hd as [r [Hr Hd]].
    apply in_map_iff in Hr. destruct Hr as [c [<- Hc]].
    rewrite Forall_forall in H. rewrite forallb_forall in Ht.
    eapply D_fb; [exact Hc | eapply H; [assumption | apply Ht; assumption | eassumption | assumption]].
  - cbn [tr] in Hd. inversion Hd; subst. apply Forall2_single_l in Hf. destruct Hf as [it [-> Hit]].
    apply Lang.D_leaf; [reflexivity |]. exists it. split; [reflexivity |].
    unfold leaf_item in Hit. cbn [item_of_leaf'] in Hit. eapply item_equiv_trans; [exact Hit |].
    cbn [item_equiv]. split; [reflexivity | intro v; symmetry; apply wbridge; exact Ht].
Qed.

Theorem sbridge e w : sub_tree e = true ->
  (Lang.denotes e w <-> exists ls, RxFacts.denotes (tr e) ls /\ Forall2 leaf_item ls w).
Proof.
  intro Ht. split; [intro H; apply sbridge_to; assumption |].
  intros [ls [Hd Hf]]. eapply sbridge_from; eassumption.
Qed.
