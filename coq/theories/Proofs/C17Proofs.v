(** C17: Model/BashSem.v against Spec/Invocations.v on the clean top-level domain. *)
From CG Require Import Base.Prelude Model.Dfa Model.Glob Model.BashSem Spec.Invocations.
From CG Require Import Proofs.GlobFacts Proofs.SubwordFacts.

(** *** 1. candidates: on clean output `read -r f1 _` + `echo "$f1"` + readarray is the identity on lines *)
Definition nl : string := String c_nl EmptyString.
Definition unlines (ls : list string) : string := sconcat (map (fun l => (l ++ nl)%string) ls).

(** no newline, no blank (space or tab), and not an option word of echo *)
Definition clean_line (l : string) : Prop :=
  contains_char c_nl l = false /\ contains_char c_sp l = false /\ contains_char c_tab l = false
  /\ echo_text l = (l ++ nl)%string.

Lemma append_assoc a b c : ((a ++ b) ++ c)%string = (a ++ (b ++ c))%string.
Proof. induction a; cbn; [reflexivity|]. now rewrite IHa. Qed.

Lemma append_nil_r a : (a ++ "")%string = a.
Proof. induction a; cbn; [reflexivity|]. now rewrite IHa. Qed.

Lemma contains_char_cons c d s : contains_char c (String d s) = false -> aeq d c = false /\ contains_char c s = false.
Proof. cbn [contains_char]. unfold aeq. destruct (Ascii.eqb d c); [discriminate|]. now split. Qed.

Lemma lines_acc_line l : forall rest cur,
    contains_char c_nl l = false ->
    lines_acc (l ++ nl ++ rest) cur = (cur ++ l)%string :: lines_acc rest EmptyString.
Proof.
  induction l as [|d l IH]; intros rest cur H.
  - cbn [append nl lines_acc]. rewrite aeq_refl. now rewrite append_nil_r.
  - apply contains_char_cons in H as [Hd Hl]. cbn [append lines_acc]. rewrite Hd.
    rewrite (IH rest _ Hl). now rewrite append_assoc.
Qed.

Lemma readarray_acc_line l : forall rest cur,
    contains_char c_nl l = false ->
    readarray_acc (l ++ nl ++ rest) cur = (cur ++ l)%string :: readarray_acc rest EmptyString.
Proof.
  induction l as [|d l IH]; intros rest cur H.
  - cbn [append nl readarray_acc]. rewrite aeq_refl. now rewrite append_nil_r.
  - apply contains_char_cons in H as [Hd Hl]. cbn [append readarray_acc]. rewrite Hd.
    rewrite (IH rest _ Hl). now rewrite append_assoc.
Qed.

Lemma unlines_cons l ls : unlines (l :: ls) = (l ++ nl ++ unlines ls)%string.
Proof. unfold unlines. cbn [map sconcat fold_right]. now rewrite append_assoc. Qed.

Lemma complete_lines_unlines ls :
  Forall (fun l => contains_char c_nl l = false) ls -> complete_lines (unlines ls) = ls.
Proof.
  unfold complete_lines. induction ls as [|l ls IH]; intros H; [reflexivity|].
  inversion H as [|? ? Hl Hls]; subst. rewrite unlines_cons, (lines_acc_line l _ _ Hl). cbn [append].
  now rewrite IH.
Qed.

Lemma readarray_unlines ls :
  Forall (fun l => contains_char c_nl l = false) ls -> readarray_acc (unlines ls) EmptyString = ls.
Proof.
  induction ls as [|l ls IH]; intros H; [reflexivity|].
  inversion H as [|? ? Hl Hls]; subst. rewrite unlines_cons, (readarray_acc_line l _ _ Hl). cbn [append].
  now rewrite IH.
Qed.

Lemma is_blank_false d : aeq d c_sp = false -> aeq d c_tab = false -> is_blank d = false.
Proof. intros H1 H2. unfold is_blank. now rewrite H1, H2. Qed.

Lemma until_blank_clean l :
  contains_char c_sp l = false -> contains_char c_tab l = false -> until_blank l = l.
Proof.
  induction l as [|d l IH]; intros H1 H2; [reflexivity|].
  apply contains_char_cons in H1 as [A1 B1]. apply contains_char_cons in H2 as [A2 B2].
  cbn [until_blank]. rewrite (is_blank_false d A1 A2). now rewrite IH.
Qed.

Lemma first_field_clean l :
  contains_char c_sp l = false -> contains_char c_tab l = false -> first_field l = l.
Proof.
  intros H1 H2. unfold first_field. destruct l as [|d l]; [reflexivity|].
  pose proof (contains_char_cons _ _ _ H1) as [A1 _]. pose proof (contains_char_cons _ _ _ H2) as [A2 _].
  cbn [skip_blanks]. rewrite (is_blank_false d A1 A2). now apply until_blank_clean.
Qed.

Lemma until_tab_clean l : contains_char c_tab l = false -> until_tab l = l.
Proof.
  induction l as [|d l IH]; intros H; [reflexivity|].
  apply contains_char_cons in H as [A B]. cbn [until_tab]. rewrite A. now rewrite IH.
Qed.

Theorem filter_lines_clean ls : Forall clean_line ls -> filter_lines (unlines ls) = ls.
Proof.
  intros H. unfold filter_lines.
  assert (Hn : Forall (fun l => contains_char c_nl l = false) ls).
  { eapply Forall_impl; [|exact H]. intros l (A & _). exact A. }
  rewrite (complete_lines_unlines ls Hn).
  replace (sconcat (map (fun l => echo_text (first_field l)) ls)) with (unlines ls).
  - now apply readarray_unlines.
  - unfold unlines. f_equal. apply map_ext_in. intros l Hin.
    rewrite Forall_forall in H. destruct (H l Hin) as (_ & B & C & D).
    now rewrite (first_field_clean l B C), D.
Qed.

Theorem spec_candidates_clean ls : Forall clean_line ls -> spec_candidates (unlines ls) = ls.
Proof.
  intros H. unfold spec_candidates.
  assert (Hn : Forall (fun l => contains_char c_nl l = false) ls).
  { eapply Forall_impl; [|exact H]. intros l (A & _). exact A. }
  rewrite (complete_lines_unlines ls Hn).
  rewrite <- (map_id ls) at 2. apply map_ext_in. intros l Hin.
  rewrite Forall_forall in H. destruct (H l Hin) as (_ & _ & C & _). now apply until_tab_clean.
Qed.

(** every command of the environment prints clean lines *)
Definition clean_env (e : env) : Prop :=
  forall cid, exists ls, cmd_output e cid = unlines ls /\ Forall clean_line ls.

Lemma clean_env_candidates e : clean_env e -> forall cid, filter_lines (cmd_output e cid) = spec_candidates (cmd_output e cid).
Proof.
  intros H cid. destruct (H cid) as (ls & -> & Hc).
  now rewrite (filter_lines_clean ls Hc), (spec_candidates_clean ls Hc).
Qed.

(** *** 2. a glob-free word among the sorted candidates *)
Lemma any_glob_plain w : plain w = true -> forall cands, any_glob w cands = Ok (existsb (String.eqb w) cands).
Proof.
  intros Hw. induction cands as [|c r IH]; [reflexivity|].
  cbn [any_glob existsb]. rewrite (globm_exact w c Hw). cbn [obind].
  destruct (String.eqb w c); [reflexivity|exact IH].
Qed.

Lemma existsb_insert_desc f x : forall l,
    existsb f (map snd (insert_desc x l)) = f (snd x) || existsb f (map snd l).
Proof.
  induction l as [|y r IH]; [reflexivity|].
  cbn [insert_desc]. destruct (cand_before y x).
  - cbn [map existsb]. rewrite IH. rewrite !orb_assoc. f_equal. apply orb_comm.
  - reflexivity.
Qed.

Lemma existsb_sorted f : forall L : list (N * string),
    existsb f (map snd (fold_right insert_desc [] L)) = existsb f (map snd L).
Proof.
  induction L as [|x r IH]; [reflexivity|].
  cbn [fold_right map existsb]. now rewrite existsb_insert_desc, IH.
Qed.

Lemma map_snd_indexed_from {A} (l : list A) : forall k, map snd (indexed_from k l) = l.
Proof. induction l as [|a r IH]; intros k; cbn; [reflexivity|]. now rewrite IH. Qed.

Lemma existsb_sort_desc f l : existsb f (sort_desc l) = existsb f l.
Proof. unfold sort_desc. now rewrite existsb_sorted, map_snd_indexed_from. Qed.

(** [Repaired]: the candidates of a command are the text before the first tab of every line, always *)
Lemma lines_acc_no_nl : forall s cur,
    contains_char c_nl cur = false ->
    Forall (fun l => contains_char c_nl l = false) (lines_acc s cur).
Proof.
  induction s as [|c r IH]; intros cur Hc; [constructor|].
  cbn [lines_acc]. destruct (aeq c c_nl) eqn:E.
  - constructor; [exact Hc|]. now apply IH.
  - apply IH. clear IH. induction cur as [|d cur IHc]; cbn [append contains_char].
    + unfold aeq in E. rewrite E. reflexivity.
    + apply contains_char_cons in Hc as [A B]. unfold aeq in A. rewrite A. now apply IHc.
Qed.

Lemma until_tab_no_nl l : contains_char c_nl l = false -> contains_char c_nl (until_tab l) = false.
Proof.
  induction l as [|d l IH]; intros H; [reflexivity|].
  apply contains_char_cons in H as [A B]. cbn [until_tab].
  destruct (aeq d c_tab); [reflexivity|]. cbn [contains_char]. unfold aeq in A. rewrite A. now apply IH.
Qed.

Theorem filter_lines_repaired_spec output : filter_lines_repaired output = spec_candidates output.
Proof.
  unfold filter_lines_repaired, spec_candidates.
  pose proof (lines_acc_no_nl output EmptyString eq_refl) as H. fold (complete_lines output) in H.
  change (sconcat (map (fun l => (until_tab l ++ String c_nl "")%string) (complete_lines output)))
    with (sconcat (map (fun l => (until_tab l ++ nl)%string) (complete_lines output))).
  rewrite <- (map_map until_tab (fun l => (l ++ nl)%string)).
  change (sconcat (map (fun l => (l ++ nl)%string) (map until_tab (complete_lines output))))
    with (unlines (map until_tab (complete_lines output))).
  apply readarray_unlines. apply Forall_map. eapply Forall_impl; [|exact H].
  intros l Hl. now apply until_tab_no_nl.
Qed.

(** *** 3. the walk and the completion loop against the specification *)
Section TopLevel.
  Variables (v : variant) (tabs : alltables) (e : env).
  Hypothesis Hfree : spec_subword_free tabs.
  (** holds for the quirky variants on clean environments, and for [Repaired] always *)
  Hypothesis Hcands : forall cid, command_lines v (cmd_output e cid) = spec_candidates (cmd_output e cid).
  Hypothesis Hcase : e_ignore_case e = false.

  Lemma run_cmd_spec cid a1 a2 log : run_cmd v tabs e cid a1 a2 log = spec_call tabs e cid a1 a2 log.
  Proof. unfold run_cmd, spec_call. destruct (nthN (a_commands tabs) cid); [|reflexivity]. now rewrite Hcands. Qed.

  Lemma top_cmd_loop_spec w last : (quirky v = true -> plain w = true) -> forall cmds log r log' esc,
      spec_cmd_loop tabs e cmds w last log = Ok (r, log', esc) ->
      (quirky v = true -> esc = false) ->
      top_cmd_loop v tabs e cmds w last log
      = Ok (match r with Some to => WNext to | None => WNone end, log').
  Proof.
    intros Hw. induction cmds as [|[cid to] rest IH]; intros log r log' esc H Hq.
    - cbn in H. injection H as <- <- _. reflexivity.
    - cbn [spec_cmd_loop top_cmd_loop] in *. rewrite run_cmd_spec.
      destruct (spec_call tabs e cid "" "" log) as [[cands log1]| | |]; cbn [obind] in *; try discriminate.
      destruct cands as [|c cs].
      + cbn [existsb] in H.
        destruct (spec_cmd_loop tabs e rest w last log1) as [[[r2 l2] esc2]| | |] eqn:E; cbn [obind] in H; try discriminate.
        injection H as <- <- Hesc. rewrite andb_false_r, orb_false_r in Hesc. subst esc2.
        eapply IH; eauto.
      + destruct (quirky v) eqn:Q.
        * rewrite (any_glob_plain w (Hw eq_refl)), existsb_sort_desc. cbn [obind].
          destruct (existsb (String.eqb w) (c :: cs)).
          -- injection H as <- <- _. reflexivity.
          -- destruct (spec_cmd_loop tabs e rest w last log1) as [[[r2 l2] esc2]| | |] eqn:E; cbn [obind] in H; try discriminate.
             injection H as <- <- Hesc.
             specialize (Hq eq_refl). rewrite Hq in Hesc.
             apply orb_false_iff in Hesc as [-> Hl]. rewrite andb_true_r in Hl. subst last.
             cbn [andb]. eapply IH; eauto.
        * rewrite existsb_sort_desc. cbn [obind].
          destruct (existsb (String.eqb w) (c :: cs)).
          -- injection H as <- <- _. reflexivity.
          -- destruct (spec_cmd_loop tabs e rest w last log1) as [[[r2 l2] esc2]| | |] eqn:E; cbn [obind] in H; try discriminate.
             injection H as <- <- Hesc.
             rewrite andb_false_r. eapply IH; eauto. discriminate.
  Qed.

  Lemma walk_spec : forall ws state log r log' esc,
      (quirky v = true -> Forall (fun w => plain w = true) ws) ->
      spec_walk tabs e state ws log = Ok (r, log', esc) ->
      (quirky v = true -> esc = false) ->
      walk v tabs e state ws log = Ok (r, log').
  Proof.
    induction ws as [|w rest IH]; intros state log r log' esc Hp H Hq.
    - cbn in H. injection H as <- <- _. reflexivity.
    - assert (Hw : quirky v = true -> plain w = true).
      { intros Q. specialize (Hp Q). now inversion Hp. }
      assert (Hrest : quirky v = true -> Forall (fun w => plain w = true) rest).
      { intros Q. specialize (Hp Q). now inversion Hp. }
      cbn [spec_walk walk] in *.
      destruct (match assocN state (t_mlit (a_main tabs)) with
                | Some st => top_lit_loop (indexed_from 0 (literal_texts (a_main tabs))) st w
                | None => None
                end) as [to|].
      { eapply IH; eauto. }
      destruct Hfree as [Hs _]. rewrite Hs. cbn [assocN obind].
      set (last := match rest with [] => true | _ => false end) in *.
      (* the tail of both functions after the command loop *)
      assert (Tail : forall r1 l1 esc1,
                 match r1 with
                 | Some to => do (r2, log2, esc2) <- spec_walk tabs e to rest l1; Ok (r2, log2, esc1 || esc2)
                 | None =>
                   match (match t_mstar (a_main tabs) with Some stars => assocN state stars | None => None end) with
                   | Some to => do (r2, log2, esc2) <- spec_walk tabs e to rest l1; Ok (r2, log2, esc1 || esc2)
                   | None => Ok (None, l1, esc1)
                   end
                 end = Ok (r, log', esc) ->
                 (quirky v = true -> esc1 = false)
                 /\ match (match r1 with Some to => WNext to | None => WNone end) with
                    | WNext to => walk v tabs e to rest l1
                    | WEscape => Ok (Some state, l1)
                    | WNone =>
                      match (match t_mstar (a_main tabs) with Some stars => assocN state stars | None => None end) with
                      | Some to => walk v tabs e to rest l1
                      | None => Ok (None, l1)
                      end
                    end = Ok (r, log')).
      { intros r1 l1 esc1 HT.
        destruct r1 as [to|].
        - destruct (spec_walk tabs e to rest l1) as [[[r2 l2] esc2]| | |] eqn:E2; cbn [obind] in HT; try discriminate.
          injection HT as <- <- Hesc. split.
          + intros Q. specialize (Hq Q). rewrite Hq in Hesc. now apply orb_false_iff in Hesc as [-> _].
          + eapply IH; eauto. intros Q. specialize (Hq Q). rewrite Hq in Hesc.
            now apply orb_false_iff in Hesc as [_ ->].
        - destruct (match t_mstar (a_main tabs) with Some stars => assocN state stars | None => None end) as [to|].
          + destruct (spec_walk tabs e to rest l1) as [[[r2 l2] esc2]| | |] eqn:E2; cbn [obind] in HT; try discriminate.
            injection HT as <- <- Hesc. split.
            * intros Q. specialize (Hq Q). rewrite Hq in Hesc. now apply orb_false_iff in Hesc as [-> _].
            * eapply IH; eauto. intros Q. specialize (Hq Q). rewrite Hq in Hesc.
              now apply orb_false_iff in Hesc as [_ ->].
          + injection HT as <- <- ->. split; [exact Hq|reflexivity]. }
      destruct (t_mcmd (a_main tabs)) as [ct|].
      + destruct (assocN state ct) as [row|].
        * destruct (spec_cmd_loop tabs e (assoc_of row) w last log) as [[[r1 l1] esc1]| | |] eqn:E;
            cbn [obind] in H; try discriminate.
          destruct (Tail r1 l1 esc1 H) as [Hq1 HW].
          rewrite (top_cmd_loop_spec w last Hw _ _ _ _ _ E Hq1). cbn [obind]. exact HW.
        * cbn [obind] in *. destruct (Tail None log false H) as [_ HW]. exact HW.
      + cbn [obind] in *. destruct (Tail None log false H) as [_ HW]. exact HW.
  Qed.

  Variable p : string.
  Hypothesis Hprint : printable_str p = true.

  Lemma filter_app {A} (f : A -> bool) a b : filter f (a ++ b) = filter f a ++ filter f b.
  Proof. induction a as [|x a IH]; cbn; [reflexivity|]. destruct (f x); cbn; now rewrite IH. Qed.

  Lemma spec_cmds_level_appends : forall cids matches log m' l',
      spec_cmds_level tabs e cids p matches log = Ok (m', l') -> exists extra, m' = matches ++ extra.
  Proof.
    induction cids as [|cid r IH]; intros matches log m' l' H.
    - cbn in H. injection H as <- <-. exists []. now rewrite app_nil_r.
    - cbn [spec_cmds_level] in H.
      destruct (spec_call tabs e cid p "" log) as [[cands1 log1]| | |]; cbn [obind] in H; try discriminate.
      destruct (IH _ _ _ _ H) as [extra ->]. exists (filter (String.prefix p) cands1 ++ extra).
      now rewrite app_assoc.
  Qed.

  (** the commands of one level: same matches and log; the array left in [candidates] offers nothing new if
      nothing was offered *)
  Lemma top_cmds_level_spec : forall cids cands matches log m' l',
      spec_cmds_level tabs e cids p matches log = Ok (m', l') ->
      exists cands', top_cmds_level v tabs e cids p cands matches log = Ok (cands', m', l')
                     /\ (filter (String.prefix p) cands = [] -> m' = [] -> filter (String.prefix p) cands' = []).
  Proof.
    induction cids as [|cid r IH]; intros cands matches log m' l' H.
    - cbn in H. injection H as <- <-. cbn. exists cands. split; [reflexivity|tauto].
    - cbn [spec_cmds_level top_cmds_level] in *. rewrite run_cmd_spec.
      destruct (spec_call tabs e cid p "" log) as [[cands1 log1]| | |]; cbn [obind] in *; try discriminate.
      assert (Hm : (match cands1 with [] => Ok [] | _ => match_fn e p cands1 end)
                   = (Ok (filter (String.prefix p) cands1) : M (list string))).
      { destruct cands1; [reflexivity|]. now apply match_fn_prefix_filter. }
      rewrite Hm. cbn [obind].
      destruct (IH cands1 _ _ _ _ H) as (cands' & -> & Hinv). exists cands'. split; [reflexivity|].
      intros _ Hnil. apply Hinv; [|exact Hnil].
      destruct (spec_cmds_level_appends _ _ _ _ _ H) as [extra Hx]. rewrite Hnil in Hx.
      symmetry in Hx. apply app_eq_nil in Hx as [Hx _]. now apply app_eq_nil in Hx as [_ Hx].
  Qed.

  Lemma top_levels_spec : forall n level state cands log,
      filter (String.prefix p) cands = [] ->
      forall res, spec_levels n level tabs e state p log = Ok res ->
      top_levels n level v tabs e state p cands [] log = Ok res.
  Proof.
    induction n as [|n IH]; intros level state cands log Hinv0 res H.
    - exact H.
    - cbn [spec_levels top_levels] in *.
      set (cands0 := if quirky v then cands else []).
      assert (Hinv : filter (String.prefix p) cands0 = []) by (unfold cands0; destruct (quirky v); [exact Hinv0|reflexivity]).
      clearbody cands0.
      set (lits := map (fun id => (literal_at (a_main tabs) id ++ " ")%string)
                       (level_row (t_clit (a_main tabs)) level state)) in *.
      assert (Hm : (match cands0 ++ lits with [] => Ok [] | _ => match_fn e p (cands0 ++ lits) end)
                   = (Ok (filter (String.prefix p) lits) : M (list string))).
      { replace (filter (String.prefix p) lits) with (filter (String.prefix p) (cands0 ++ lits))
          by (now rewrite filter_app, Hinv).
        destruct (cands0 ++ lits); [reflexivity|]. now apply match_fn_prefix_filter. }
      rewrite Hm. cbn [obind List.app].
      destruct Hfree as [_ Hc]. rewrite Hc. cbn [top_subs_level obind].
      destruct (t_ccmd (a_main tabs)) as [cc|].
      + destruct (spec_cmds_level tabs e (level_row cc level state) p (filter (String.prefix p) lits) log)
          as [[m' l']| | |] eqn:E; cbn [obind] in H; try discriminate.
        destruct (top_cmds_level_spec _ (cands0 ++ lits) _ _ _ _ E) as (cands' & -> & Hinv'). cbn [obind].
        destruct m' as [|x m'].
        * apply IH; [|exact H]. apply Hinv'; [|reflexivity].
          rewrite filter_app, Hinv. cbn [List.app].
          destruct (spec_cmds_level_appends _ _ _ _ _ E) as [extra Hx].
          symmetry in Hx. now apply app_eq_nil in Hx as [Hx _].
        * exact H.
      + cbn [obind] in *.
        destruct (filter (String.prefix p) lits) as [|x m'] eqn:El.
        * apply IH; [|exact H]. now rewrite filter_app, Hinv, El.
        * exact H.
  Qed.
End TopLevel.

(** *** the theorems *)
Theorem run_from_spec_gen :
  forall v start tabs e ws p r esc,
    spec_subword_free tabs -> e_ignore_case e = false -> printable_str p = true ->
    (forall cid, command_lines v (cmd_output e cid) = spec_candidates (cmd_output e cid)) ->
    (quirky v = true -> Forall (fun w => plain w = true) ws) ->
    spec_run start tabs e ws p = Ok (r, esc) ->
    (quirky v = true -> esc = false) ->
    run_from v start tabs e ws p = Ok r.
Proof.
  intros v start tabs e ws p r esc Hfree Hcase Hp Hc Hws H Hq.
  unfold spec_run in H. unfold run_from.
  destruct (spec_walk tabs e start ws []) as [[[st log] esc0]| | |] eqn:E; cbn [obind] in H; try discriminate.
  assert (esc0 = esc) as ->.
  { destruct st as [state|].
    - destruct (spec_levels _ 0 tabs e state p log) as [[reply log1]| | |]; cbn [obind] in H; try discriminate.
      now injection H.
    - now injection H. }
  rewrite (walk_spec v tabs e Hfree Hc ws start [] st log esc Hws E Hq). cbn [obind].
  destruct st as [state|].
  - destruct (spec_levels _ 0 tabs e state p log) as [[reply log1]| | |] eqn:E2; cbn [obind] in H; try discriminate.
    rewrite (top_levels_spec v tabs e Hfree Hc Hcase p Hp _ 0 state [] log eq_refl _ E2). cbn [obind].
    now injection H as <-.
  - now injection H as <-.
Qed.

(** the templates before the repair: on the clean domain, outside the escape situation *)
Theorem run_from_spec :
  forall v start tabs e ws p r,
    spec_subword_free tabs -> clean_env e -> e_ignore_case e = false ->
    Forall (fun w => plain w = true) ws -> printable_str p = true ->
    spec_run start tabs e ws p = Ok (r, false) ->
    run_from v start tabs e ws p = Ok r.
Proof.
  intros v start tabs e ws p r Hfree Hclean Hcase Hws Hp H.
  apply (run_from_spec_gen v start tabs e ws p r false Hfree Hcase Hp); try assumption; try tauto.
  intros cid. unfold command_lines. destruct (quirky v).
  - now apply clean_env_candidates.
  - apply filter_lines_repaired_spec.
Qed.

(** the repaired templates: for every environment and every command line *)
Theorem run_from_spec_repaired :
  forall start tabs e ws p r esc,
    spec_subword_free tabs -> e_ignore_case e = false -> printable_str p = true ->
    spec_run start tabs e ws p = Ok (r, esc) ->
    run_from Repaired start tabs e ws p = Ok r.
Proof.
  intros start tabs e ws p r esc Hfree Hcase Hp H.
  apply (run_from_spec_gen Repaired start tabs e ws p r esc Hfree Hcase Hp); try assumption.
  - intros cid. apply filter_lines_repaired_spec.
  - discriminate.
  - discriminate.
Qed.
