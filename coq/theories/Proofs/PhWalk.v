(** [check_tail_only] on the regex of a word, in terms of the tables of its tree: it accepts iff
    no unbounded item has a follower inside the tree ([nofollow]). *)
From CG Require Import Base.Prelude Model.Ast Model.Regex.
From CG Require Import Proofs.RxLang Proofs.Glushkov Proofs.Useful Proofs.FromExpr Proofs.SubsetConstr.
From CG Require Import Proofs.TreeFacts Proofs.RegexFuel Proofs.RegexNoPanic Proofs.TailOnlySpec.
From CG Require Import Spec.Mistakes Proofs.C02Lang.
From CG Require Import Proofs.PhFollow Proofs.PhExpr.

Section Bridge.
  Variable r : regex.
  Variable t : rx.
  Hypothesis Htree : r_tree r = with_end t (r_end r).
  Hypothesis Hsh : shape t.
  Hypothesis Hor : ors_nonempty t = true.
  Hypothesis Hrg : in_range 0 (r_end r) (positions t).

  Let fw := regex_follow r.
  Let e := r_end r.

  Lemma end_not_pos : ~ In e (positions t).
  Proof. intro H. specialize (Hrg e H). unfold e in Hrg. lia. Qed.

  Lemma fw_tin p q : tin fw p q <-> In (p, q) (followpos (with_end t e)).
  Proof. unfold fw, regex_follow. rewrite Htree. apply follow_table_tin. Qed.

  Lemma first_in a : In a (firstpos t) -> In a (regex_first r).
  Proof. intro H. unfold regex_first. rewrite Htree. apply firstpos_with_end. left. exact H. Qed.

  Lemma chain_reach S a : reach_from r fw S a -> forall w, chain (followpos t) a w -> reach_from r fw S (last w a).
  Proof.
    intros Ha w. revert a Ha. induction w as [|b w IH]; intros a Ha C; [exact Ha|].
    cbn [chain] in C. destruct C as [Hab C]. rewrite Glushkov.last_cons. apply IH; [|exact C].
    assert (Ht : tin fw a b) by (apply fw_tin; apply followpos_with_end; left; exact Hab).
    destruct Ht as [s [Hs Hb]]. eapply rf_step; [exact Ha| |exact Hs|exact Hb].
    intro Heq. apply follow_pos in Hab. destruct Hab as [Hp _]. rewrite Heq in Hp. exact (end_not_pos Hp).
  Qed.

  (** every position of the tree is reached by the walk *)
  Lemma positions_reachable p : In p (positions t) -> reachable_pos r p.
  Proof.
    intro Hp. destruct (reached_first t Hsh Hor p Hp) as (a & w & Ha & C & Hl). rewrite <- Hl.
    apply chain_reach; [|exact C]. apply rf_start. apply first_in. exact Ha.
  Qed.

  Lemma reachable_positions p : reachable_pos r p -> In p (positions t) \/ p = e.
  Proof.
    induction 1 as [p Hp|p s q Hr IH Hne Hs Hq].
    - unfold regex_first in Hp. rewrite Htree in Hp. apply firstpos_with_end in Hp.
      destruct Hp as [Hp|[_ Hp]]; [left; apply first_pos; exact Hp|right; exact Hp].
    - assert (Ht : tin fw p q) by (exists s; split; assumption).
      apply fw_tin in Ht. apply followpos_with_end in Ht. destruct Ht as [Ht|[_ Ht]]; [|right; exact Ht].
      apply follow_pos in Ht. left. tauto.
  Qed.

  Lemma not_only_end_ex s : ~ only_end r s -> exists q, In q s /\ q <> e.
  Proof.
    induction s as [|x s IH]; intro H.
    - exfalso. apply H. intros q [].
    - destruct (N.eq_dec x e) as [Heq|Hne].
      + destruct IH as [q [Hq Hne]].
        * intro Ho. apply H. intros q [Hq|Hq]; [rewrite <- Hq; exact Heq|apply Ho; exact Hq].
        * exists q. split; [right; exact Hq|exact Hne].
      + exists x. split; [left; reflexivity|exact Hne].
  Qed.

  Theorem no_bad_iff_nofollow :
    (forall p, reachable_pos r p -> ~ bad_pos r p) <-> nofollow (starI (r_inputs r)) t.
  Proof.
    rewrite (nofollow_with_end (starI (r_inputs r)) t e end_not_pos). split.
    - intros H p q Hpq Hm.
      destruct (N.eq_dec q e) as [Hq|Hq]; [exact Hq|]. exfalso.
      assert (Hpp : In p (positions t)).
      { apply followpos_with_end in Hpq. destruct Hpq as [Hpq|[Hl _]].
        - apply follow_pos in Hpq. tauto.
        - apply last_pos. exact Hl. }
      apply (H p (positions_reachable p Hpp)).
      apply fw_tin in Hpq. destruct Hpq as [s [Hs Hqs]].
      split; [intro Heq; rewrite Heq in Hpp; exact (end_not_pos Hpp)|]. split; [exact Hm|].
      exists s. split; [exact Hs|]. intro Ho. apply Hq. apply Ho. exact Hqs.
    - intros H p _ (Hne & Hst & s & Hs & Hno).
      destruct (not_only_end_ex s Hno) as [q [Hq Hqe]]. apply Hqe.
      apply (H p q); [|exact Hst]. apply fw_tin. exists s. split; assumption.
  Qed.
End Bridge.

(** the regex [from_expr] finishes around the tree of a word *)
Lemma finish_regex_good c pl cid ct cs pl1 :
  do_from_expr c empty_bst pl = Ok (cid, ct, cs, pl1) ->
  subword_free c = true -> ops_nonempty c = true ->
  let r := finish_regex cid ct cs in
  r_tree r = with_end ct (r_end r) /\ shape ct /\ ors_nonempty ct = true /\
  in_range 0 (r_end r) (positions ct) /\ r_inputs r = b_inputs cs.
Proof.
  intros E Hf Ho r.
  destruct (do_from_expr_PhG c _ _ _ _ _ _ E Hf Ho) as (_ & Sh & Or & Rg & _ & _).
  destruct (finish_regex_fields cid ct cs) as [Hi [He Ht]]. fold r in Hi, He, Ht.
  rewrite Ht, He. split; [reflexivity|]. split; [exact Sh|]. split; [exact Or|]. split; [|exact Hi].
  intros q Hq. specialize (Rg q Hq). cbn in Rg. lia.
Qed.

Theorem word_regex_verdict c pl cid ct cs pl1 :
  do_from_expr c empty_bst pl = Ok (cid, ct, cs, pl1) ->
  subword_free c = true -> ops_nonempty c = true ->
  (check_tail_only (finish_regex cid ct cs) = Ok tt <-> ph_last isref c = true).
Proof.
  intros E Hf Ho. destruct (finish_regex_good c pl cid ct cs pl1 E Hf Ho) as (Ht & Sh & Or & Rg & Hi).
  assert (Hok : pool_ok (finish_regex cid ct cs)).
  { split; [eapply finish_ranged; exact E|]. rewrite Hi.
    destruct (do_from_expr_pure _ _ _ _ _ _ _ Hf E) as [_ Hp]. apply Hp. constructor. }
  rewrite (check_tail_only_decides _ Hok), (no_bad_iff_nofollow _ ct Ht Sh Or Rg), Hi.
  destruct (do_from_expr_PhG c _ _ _ _ _ _ E Hf Ho) as (_ & _ & _ & _ & _ & L).
  destruct (L (b_inputs cs) (prefix_refl _)) as [_ Ln]. exact Ln.
Qed.

(** * [check_subwords]: every word met on the walk of the main regex is checked *)
From CG Require Import Proofs.DiagSpans Proofs.PipelineSpans.

Lemma omap_In_iff {E A B} (h : A -> outcome E B) l : forall l', omap h l = Ok l' ->
  forall y, In y l' <-> exists x, In x l /\ h x = Ok y.
Proof.
  induction l as [|a l IH]; intros l' H y; cbn [omap] in H.
  - inversion H; subst. split; [intros []|intros [x [[] _]]].
  - destruct (h a) as [b| | |] eqn:Ea; cbn [obind] in H; try discriminate.
    destruct (omap h l) as [bs| | |] eqn:El; cbn [obind] in H; try discriminate.
    inversion H; subst. cbn [In]. rewrite (IH bs eq_refl y). split.
    + intros [Hy|[x [Hx Hh]]]; [exists a; subst; auto|exists x; auto].
    + intros [x [[Hx|Hx] Hh]]; [left; congruence|right; eauto].
Qed.

Lemma all_checks_ok pl ids :
  all_checks pl ids = Ok tt -> forall rid, In rid ids -> exists x, nthN pl rid = Some x /\ check_tail_only x = Ok tt.
Proof.
  induction ids as [|a ids IH]; intros H rid Hr; [destruct Hr|]. cbn [all_checks] in H.
  destruct (nthN pl a) as [x|] eqn:Ex; [|discriminate].
  destruct (check_tail_only x) as [[]| | |] eqn:Ec; cbn [obind] in H; try discriminate.
  destruct Hr as [Hr|Hr]; [subst; eauto|apply IH; assumption].
Qed.

Lemma all_checks_err pl ids e :
  all_checks pl ids = Err e -> exists rid x, In rid ids /\ nthN pl rid = Some x /\ check_tail_only x = Err e.
Proof.
  induction ids as [|a ids IH]; intro H; [discriminate|]. cbn [all_checks] in H.
  destruct (nthN pl a) as [x|] eqn:Ex; [|discriminate].
  destruct (check_tail_only x) as [[]|e1| |] eqn:Ec; cbn [obind] in H; try discriminate.
  - destruct (IH H) as (rid & y & Hr & Hy & Hc). exists rid, y. split; [right; exact Hr|auto].
  - inversion H; subst. exists a, x. split; [left; reflexivity|auto].
Qed.

Section SubWalk.
  Variable r : regex.
  Variable fw : list (N * list N).
  Variable pl : pool.

  Definition sub_ok (p : N) : Prop :=
    forall rid l sp, nthN (r_inputs r) p = Some (RSub rid l sp) ->
                     exists x, nthN pl rid = Some x /\ check_tail_only x = Ok tt.
  Definition sub_err (p : N) (e : rerror) : Prop :=
    exists rid l sp x, nthN (r_inputs r) p = Some (RSub rid l sp) /\ nthN pl rid = Some x /\ check_tail_only x = Err e.

  Lemma inputs_of_pos S inputs : inputs_of r S = Ok inputs ->
    forall i, In i inputs <-> exists p, In p S /\ p <> r_end r /\ nthN (r_inputs r) p = Some i.
  Proof.
    unfold inputs_of. intros H i. rewrite (omap_In_iff _ _ _ H i). split.
    - intros [p [Hp Hi]]. apply filter_In in Hp. destruct Hp as [Hp Hne]. exists p. split; [exact Hp|]. split.
      + intro Heq. subst p. rewrite N.eqb_refl in Hne. discriminate.
      + unfold input_at in Hi. destruct (nthN (r_inputs r) p); inversion Hi; reflexivity.
    - intros [p (Hp & Hne & Hi)]. exists p. split.
      + apply filter_In. split; [exact Hp|]. apply negb_true_iff. apply N.eqb_neq. exact Hne.
      + unfold input_at. rewrite Hi. reflexivity.
  Qed.

  Lemma sub_ids_in inputs rid : In rid (sub_ids_of inputs) <-> exists l sp, In (RSub rid l sp) inputs.
  Proof.
    unfold sub_ids_of. rewrite in_flat_map. split.
    - intros [i [Hi Hr]]. destruct i; cbn in Hr; try contradiction. destruct Hr as [Hr|[]]. subst. eauto.
    - intros (l & sp & H). exists (RSub rid l sp). split; [exact H|left; reflexivity].
  Qed.

  Definition sdone (v' : list N) (u : N) : Prop :=
    forall s q, assocN u fw = Some s -> In q s -> (q <> r_end r -> sub_ok q) /\ (In q v' \/ assocN q fw = None).

  Lemma sdone_mono v1 v' u : incl v1 v' -> sdone v1 u -> sdone v' u.
  Proof.
    intros Hi D s q Hs Hq. destruct (D s q Hs Hq) as [A [B|B]]; split; auto.
  Qed.

  Definition sok_post (S visited v' : list N) : Prop :=
    incl visited v' /\ (forall p, In p S -> In p v' \/ assocN p fw = None)
    /\ (forall u, In u v' -> ~ In u visited -> sdone v' u).

  Lemma check_subwords_ok f : forall S visited checked v' c',
    In (r_end r) visited -> Cinv pl checked ->
    check_subwords r fw pl f S visited checked = Ok (v', c') ->
    Cinv pl c' /\ (forall p, In p S -> p <> r_end r -> sub_ok p) /\ sok_post S visited v'.
  Proof.
    induction f as [|f IHf]; intros S visited checked v' c' Hend Hc H; [discriminate|].
    rewrite check_subwords_S in H.
    destruct (inputs_of r S) as [inputs| | |] eqn:Ei; cbn [obind] in H; try discriminate.
    cbn zeta in H.
    pose proof (check_each_sub_char pl (sub_ids_of inputs) checked checked Hc Hc) as Hch.
    destruct (check_each_sub pl (filter (fun rid => negb (memN rid checked)) (sub_ids_of inputs)) checked)
      as [c1| | |]; cbn [obind] in H; try discriminate.
    destruct Hch as [Hall Hc1].
    assert (HS : forall p, In p S -> p <> r_end r -> sub_ok p).
    { intros p Hp Hne rid l sp Hn. apply (all_checks_ok _ _ Hall). apply sub_ids_in. exists l, sp.
      apply (inputs_of_pos _ _ Ei). exists p. auto. }
    assert (Hloop : forall ps visited c1 v' c', In (r_end r) visited -> Cinv pl c1 ->
               each_s (check_subwords r fw pl f) fw ps visited c1 = Ok (v', c') ->
               Cinv pl c' /\ sok_post ps visited v').
    { clear H HS Hall Ei inputs Hc1 c1 Hend Hc visited checked v' c'.
      induction ps as [|p rest IHps]; intros visited c1 v' c' Hend Hc1 H.
      - cbn in H. inversion H; subst. split; [exact Hc1|]. split; [apply incl_refl|].
        split; [intros p []|]. intros u Hu Hn. contradiction.
      - cbn [each_s] in H. destruct (memN p visited) eqn:Hm.
        + apply memN_In' in Hm. destruct (IHps _ _ _ _ Hend Hc1 H) as (Cc & A & B & C).
          split; [exact Cc|]. split; [exact A|]. split; [|exact C].
          intros q [Hq|Hq]; [subst; left; apply A; exact Hm|apply B; exact Hq].
        + destruct (assocN p fw) as [follow|] eqn:Ha.
          2:{ destruct (IHps _ _ _ _ Hend Hc1 H) as (Cc & A & B & C).
              split; [exact Cc|]. split; [exact A|]. split; [|exact C].
              intros q [Hq|Hq]; [subst; right; exact Ha|apply B; exact Hq]. }
          destruct (check_subwords r fw pl f follow (p :: visited) c1) as [[v1 c2]| | |] eqn:Hrec;
            cbn [obind fst snd] in H; try discriminate.
          assert (Hend' : In (r_end r) (p :: visited)) by (right; exact Hend).
          destruct (IHf _ _ _ _ _ Hend' Hc1 Hrec) as (Cc2 & HS1 & A1 & B1 & C1).
          assert (Hend1 : In (r_end r) v1) by (apply A1; right; exact Hend).
          destruct (IHps _ _ _ _ Hend1 Cc2 H) as (Cc & A & B & C).
          split; [exact Cc|].
          assert (Dp : sdone v1 p).
          { intros s q Hs Hq. rewrite Ha in Hs. inversion Hs; subst s. split; [apply HS1; exact Hq|apply B1; exact Hq]. }
          split; [intros u Hu; apply A; apply A1; right; exact Hu|]. split.
          * intros q [Hq|Hq]; [subst; left; apply A; apply A1; left; reflexivity|apply B; exact Hq].
          * intros u Hu Hn. destruct (in_dec N.eq_dec u v1) as [Hu1|Hu1]; [|apply C; assumption].
            destruct (N.eq_dec u p) as [->|Hne]; [exact (sdone_mono v1 v' p A Dp)|].
            apply (sdone_mono v1 v' u A). apply C1; [exact Hu1|]. intros [Hx|Hx]; [congruence|contradiction]. }
    destruct (Hloop _ _ _ _ _ Hend Hc1 H) as [Cc P]. auto.
  Qed.

  Lemma check_subwords_err f : forall S visited checked e,
    In (r_end r) visited -> Cinv pl checked ->
    check_subwords r fw pl f S visited checked = Err e ->
    exists u, reach_from r fw S u /\ u <> r_end r /\ sub_err u e.
  Proof.
    induction f as [|f IHf]; intros S visited checked e Hend Hc H; [discriminate|].
    rewrite check_subwords_S in H.
    destruct (inputs_of r S) as [inputs| | |] eqn:Ei; cbn [obind] in H; try discriminate.
    2:{ destruct (inputs_of_no_err _ _ _ Ei). }
    cbn zeta in H.
    pose proof (check_each_sub_char pl (sub_ids_of inputs) checked checked Hc Hc) as Hch.
    destruct (check_each_sub pl (filter (fun rid => negb (memN rid checked)) (sub_ids_of inputs)) checked)
      as [c1|e1| |]; cbn [obind] in H; try discriminate.
    2:{ inversion H; subst e1. destruct (all_checks_err _ _ _ Hch) as (rid & x & Hr & Hx & Hce).
        apply sub_ids_in in Hr. destruct Hr as (l & sp & Hr). apply (inputs_of_pos _ _ Ei) in Hr.
        destruct Hr as (p & Hp & Hne & Hn). exists p. split; [apply rf_start; exact Hp|]. split; [exact Hne|].
        exists rid, l, sp, x. auto. }
    destruct Hch as [_ Hc1].
    assert (Hloop : forall ps visited c1, incl ps S -> In (r_end r) visited -> Cinv pl c1 ->
               each_s (check_subwords r fw pl f) fw ps visited c1 = Err e ->
               exists u, reach_from r fw S u /\ u <> r_end r /\ sub_err u e).
    { clear H Hc1 c1 Hend Hc visited checked Ei inputs.
      induction ps as [|p rest IHps]; intros visited c1 Hps Hend Hc1 H; [discriminate|].
      assert (Hrest : incl rest S) by (intros x Hx; apply Hps; right; exact Hx).
      cbn [each_s] in H. destruct (memN p visited) eqn:Hm; [eapply IHps; eauto|].
      destruct (assocN p fw) as [follow|] eqn:Ha; [|eapply IHps; eauto].
      assert (Hpne : p <> r_end r).
      { intro Heq. subst p. apply memN_In' in Hend. congruence. }
      assert (Hend' : In (r_end r) (p :: visited)) by (right; exact Hend).
      destruct (check_subwords r fw pl f follow (p :: visited) c1) as [[v1 c2]|e1| |] eqn:Hrec;
        cbn [obind fst snd] in H; try discriminate.
      - destruct (check_subwords_ok _ _ _ _ _ _ Hend' Hc1 Hrec) as (Cc2 & _ & A1 & _).
        eapply IHps; [exact Hrest| |exact Cc2|exact H]. apply A1. right. exact Hend.
      - inversion H; subst e1. destruct (IHf _ _ _ _ Hend' Hc1 Hrec) as (u & Hu & Hb).
        exists u. split; [|exact Hb].
        eapply reach_from_follow; [apply Hps; left; reflexivity|exact Hpne|exact Ha|exact Hu]. }
    eapply Hloop; [apply incl_refl|exact Hend|exact Hc1|exact H].
  Qed.
End SubWalk.

Theorem check_ambiguities_accepts r pl :
  check_ambiguities r pl = Ok tt -> forall p, reachable_pos r p -> p <> r_end r -> sub_ok r pl p.
Proof.
  unfold check_ambiguities. intro H.
  destruct (check_subwords r (regex_follow r) pl (regex_fuel r) (regex_first r) [r_end r] []) as [[v' c']| | |] eqn:E;
    cbn [obind] in H; try discriminate.
  assert (He : In (r_end r) [r_end r]) by (left; reflexivity).
  assert (Hc0 : Cinv pl []) by (intros rid []).
  destruct (check_subwords_ok r (regex_follow r) pl _ _ _ _ _ _ He Hc0 E) as (_ & HS & A & B & C).
  assert (Hinv : forall p, reachable_pos r p ->
                   (p <> r_end r -> sub_ok r pl p) /\ (In p v' \/ assocN p (regex_follow r) = None)).
  { induction 1 as [p Hp|p s q Hr IH Hne Hs Hq]; [split; [apply HS; exact Hp|apply B; exact Hp]|].
    destruct IH as [_ [IH|IH]]; [|congruence].
    assert (D : sdone r (regex_follow r) pl v' p) by (apply (C p IH); intros [Hx|[]]; congruence).
    exact (D s q Hs Hq). }
  intros p Hp Hne. apply (Hinv p Hp). exact Hne.
Qed.

Theorem check_ambiguities_rejects r pl e :
  check_ambiguities r pl = Err e -> exists p, reachable_pos r p /\ p <> r_end r /\ sub_err r pl p e.
Proof.
  unfold check_ambiguities. intro H.
  destruct (check_subwords r (regex_follow r) pl (regex_fuel r) (regex_first r) [r_end r] []) as [[v' c']|e'| |] eqn:E;
    cbn [obind] in H; try discriminate.
  inversion H; subst e'. eapply check_subwords_err; [| |exact E]; [left; reflexivity|intros rid []].
Qed.
