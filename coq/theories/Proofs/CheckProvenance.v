(** C13, checker part: every span reported by the model of [from_grammar] -- in an error or in
    one of the three warning maps -- is the span of a construct of the *source* grammar, of the
    kind the diagnostic talks about. *)
From CG Require Import Base.Prelude Model.Ast Model.Check Spec.Choice Spec.Mistakes.
From CG Require Import Proofs.CheckChoice Proofs.CheckMistakes Proofs.CheckLemmas Proofs.CheckWarnings.
From CG Require Import Proofs.CheckCycle Proofs.CheckTotal Proofs.CheckFront Proofs.CheckCycleSpec.
From CG Require Import Proofs.CheckSpans.

(** *** The nodes of a tree: every [NontermRef] (name and span), every [Terminal] (span) *)
Fixpoint ref_spans (e : expr) : list (string * span) :=
  match e with
  | Terminal _ _ _ _ | Command _ _ _ _ => []
  | NontermRef n _ sp => [(n, sp)]
  | Subword c _ _ | Optional c _ | Many1 c _ | DistDescr c _ _ => ref_spans c
  | Sequence cs _ | Alternative cs _ | Fallback cs _ => flat_map ref_spans cs
  end.

Fixpoint term_spans (e : expr) : list span :=
  match e with
  | NontermRef _ _ _ | Command _ _ _ _ => []
  | Terminal _ _ _ sp => [sp]
  | Subword c _ _ | Optional c _ | Many1 c _ | DistDescr c _ _ => term_spans c
  | Sequence cs _ | Alternative cs _ | Fallback cs _ => flat_map term_spans cs
  end.

Definition stmt_expr (s : statement) : expr :=
  match s with CallVariant _ _ e => e | NontermDef _ _ _ rhs => rhs end.

Definition grammar_refs (g : grammar) : list (string * span) :=
  flat_map (fun s => ref_spans (stmt_expr s)) g.
Definition grammar_terms (g : grammar) : list span :=
  flat_map (fun s => term_spans (stmt_expr s)) g.

(** [within R T e]: all nodes of [e] come from the universe [R] / [T] *)
Definition within (R : list (string * span)) (T : list span) (e : expr) : Prop :=
  incl (ref_spans e) R /\ incl (term_spans e) T.

Lemma incl_flat_map {A B} (h : A -> list B) l U :
  incl (flat_map h l) U <-> Forall (fun x => incl (h x) U) l.
Proof.
  induction l as [|x l IH]; cbn; split; intro H.
  - constructor.
  - intros y [].
  - constructor; [intros y Hy; apply H; apply in_or_app; left; exact Hy|].
    apply IH. intros y Hy. apply H. apply in_or_app. right. exact Hy.
  - inversion H; subst. intros y Hy. apply in_app_or in Hy. destruct Hy as [Hy|Hy]; [auto|].
    apply IH in H3. auto.
Qed.

Lemma within_list R T cs :
  Forall (within R T) cs <-> incl (flat_map ref_spans cs) R /\ incl (flat_map term_spans cs) T.
Proof.
  rewrite !incl_flat_map. unfold within. split.
  - intro H. split; eapply Forall_impl; try exact H; cbn; tauto.
  - intros [H1 H2]. rewrite Forall_forall in *. intros x Hx. split; auto.
Qed.

(** *** Preservation by the passes *)
Lemma distribute_spans e : forall d,
  ref_spans (fst (distribute e d)) = ref_spans e /\ term_spans (fst (distribute e d)) = term_spans e.
Proof.
  assert (Hl : forall cs, Forall (fun e => forall d, ref_spans (fst (distribute e d)) = ref_spans e
                                                     /\ term_spans (fst (distribute e d)) = term_spans e) cs ->
                          forall d, flat_map ref_spans (fst (distribute_list cs d)) = flat_map ref_spans cs
                                    /\ flat_map term_spans (fst (distribute_list cs d)) = flat_map term_spans cs).
  { induction 1 as [|x l Hx _ IH]; intro d; cbn; [split; reflexivity|].
    destruct (Hx d) as [H1 H2]. destruct (distribute x d) as [c' d1].
    destruct (IH d1) as [H3 H4]. destruct (distribute_list l d1) as [r' d2]. cbn in *.
    rewrite H1, H2, H3, H4. split; reflexivity. }
  induction e using expr_ind'; intro d0.
  - cbn. destruct d; [split; reflexivity|]. destruct d0; split; reflexivity.
  - split; reflexivity.
  - split; reflexivity.
  - rewrite distribute_seq. specialize (Hl cs H d0). destruct (distribute_list cs d0). exact Hl.
  - cbn [distribute fst ref_spans term_spans]. rewrite !flat_map_map. split;
      apply flat_map_ext_Forall; eapply Forall_impl; try exact H; intros a Ha; apply Ha.
  - cbn [distribute]. specialize (IHe d0). destruct (distribute e d0). exact IHe.
  - cbn [distribute]. specialize (IHe d0). destruct (distribute e d0). exact IHe.
  - cbn [distribute fst ref_spans term_spans]. apply IHe.
  - rewrite distribute_fb. specialize (Hl cs H d0). destruct (distribute_list cs d0). exact Hl.
  - cbn [distribute]. specialize (IHe d0). destruct (distribute e d0). exact IHe.
Qed.

Lemma distribute_within R T e : within R T e -> within R T (distribute_descriptions e).
Proof.
  unfold within, distribute_descriptions. destruct (distribute_spans e None) as [H1 H2].
  rewrite H1, H2. tauto.
Qed.

Lemma map_within R T (h : expr -> expr) cs :
  Forall (fun c => within R T c -> within R T (h c)) cs ->
  Forall (within R T) cs -> Forall (within R T) (map h cs).
Proof.
  induction 1; intro Hf; [constructor|]. inversion Hf; subst. cbn. constructor; auto.
Qed.

Lemma within_seq R T cs sp : within R T (Sequence cs sp) <-> Forall (within R T) cs.
Proof. rewrite within_list. reflexivity. Qed.
Lemma within_alt R T cs sp : within R T (Alternative cs sp) <-> Forall (within R T) cs.
Proof. rewrite within_list. reflexivity. Qed.
Lemma within_fb R T cs sp : within R T (Fallback cs sp) <-> Forall (within R T) cs.
Proof. rewrite within_list. reflexivity. Qed.

Lemma specialize_within R T sh us bi fs plain e :
  within R T e -> within R T (specialize sh us bi fs plain e).
Proof.
  induction e using expr_ind'; intro Hw; cbn [specialize]; try exact Hw; try (apply IHe; exact Hw).
  - unfold specialize_ref. destruct (assoc n us); [split; intros x []|].
    destruct (assoc n fs) as [[c s]|]; [split; intros x []|].
    destruct (mem_str n plain); [exact Hw|]. destruct (assoc n bi); [split; intros x []|exact Hw].
  - rewrite within_seq in *. apply map_within; assumption.
  - rewrite within_alt in *. apply map_within; assumption.
  - rewrite within_fb in *. apply map_within; assumption.
Qed.

Definition table_within R T (t : list (string * expr)) : Prop :=
  forall n rhs, assoc n t = Some rhs -> within R T rhs.

Lemma resolve_within R T t e : table_within R T t -> within R T e -> within R T (resolve t e).
Proof.
  intro Ht. induction e using expr_ind'; intro Hw; cbn [resolve]; try exact Hw; try (apply IHe; exact Hw).
  - destruct (assoc n t) eqn:E; [eapply Ht; eauto|exact Hw].
  - rewrite within_seq in *. apply map_within; assumption.
  - rewrite within_alt in *. apply map_within; assumption.
  - rewrite within_fb in *. apply map_within; assumption.
Qed.

Lemma resolve_in_order_within R T ord : forall t,
  table_within R T t -> table_within R T (resolve_in_order ord t).
Proof.
  induction ord as [|n r IH]; intros t Ht; cbn [resolve_in_order]; [exact Ht|].
  destruct (assoc n t) as [rhs|] eqn:E; [|apply IH; exact Ht].
  apply IH. intros m rhs' Hm. rewrite assoc_update_def in Hm.
  destruct (String.eqb m n); [|eapply Ht; eauto].
  destruct (assoc m t); [|discriminate]. inversion Hm; subst.
  apply resolve_within; [exact Ht|eapply Ht; eauto].
Qed.

Lemma flatten_spans e : ref_spans (flatten e) = ref_spans e.
Proof.
  induction e using expr_ind'; cbn [flatten ref_spans]; try reflexivity; try assumption;
    rewrite flat_map_map; apply flat_map_ext_Forall; exact H.
Qed.

Lemma collapse_spans e : ref_spans (collapse e) = ref_spans e.
Proof.
  induction e using expr_ind'; cbn [collapse ref_spans]; try reflexivity; try assumption;
    try (rewrite flat_map_map; apply flat_map_ext_Forall; exact H).
  apply flatten_spans.
Qed.

Lemma propagate_spans e : forall lvl, ref_spans (propagate e lvl) = ref_spans e.
Proof.
  induction e using expr_ind'; intro lvl; try reflexivity; try (cbn [propagate ref_spans]; apply IHe).
  - cbn [propagate ref_spans]. rewrite flat_map_map. apply flat_map_ext_Forall.
    eapply Forall_impl; [|exact H]. intros a Ha. apply Ha.
  - cbn [propagate ref_spans]. rewrite flat_map_map. apply flat_map_ext_Forall.
    eapply Forall_impl; [|exact H]. intros a Ha. apply Ha.
  - rewrite propagate_fb. cbn [ref_spans]. generalize 0 as i.
    induction H as [|x l Hx _ IH]; intro i; cbn; [reflexivity|]. rewrite Hx, IH. reflexivity.
Qed.

Lemma nonterm_refs_incl e : incl (nonterm_refs e) (ref_spans e).
Proof.
  induction e using expr_ind'; cbn [nonterm_refs ref_spans]; try apply incl_refl; try assumption;
    try (intros x []).
  - intros x Hx. apply in_flat_map in Hx. destruct Hx as [c [Hc Hx]]. apply in_flat_map. exists c.
    split; [exact Hc|]. rewrite Forall_forall in H. apply (H c Hc). exact Hx.
  - intros x Hx. apply in_flat_map in Hx. destruct Hx as [c [Hc Hx]]. apply in_flat_map. exists c.
    split; [exact Hc|]. rewrite Forall_forall in H. apply (H c Hc). exact Hx.
  - intros x Hx. apply in_flat_map in Hx. destruct Hx as [c [Hc Hx]]. apply in_flat_map. exists c.
    split; [exact Hc|]. rewrite Forall_forall in H. apply (H c Hc). exact Hx.
Qed.

Lemma refs_map_incl l : forall acc, incl (refs_map l acc) (l ++ acc).
Proof.
  induction l as [|[n sp] r IH]; intro acc; cbn [refs_map app]; [apply incl_refl|].
  intros x Hx. apply IH in Hx. apply in_app_or in Hx. destruct Hx as [Hx|Hx].
  - right. apply in_or_app. left. exact Hx.
  - destruct (mem_str n (map fst acc)).
    + apply in_map_iff in Hx. destruct Hx as [[k v] [Hk Hx]]. cbn in Hk.
      destruct (String.eqb k n); [left; exact Hk|].
      subst x. right. apply in_or_app. right. exact Hx.
    + apply in_app_or in Hx. destruct Hx as [Hx|[Hx|[]]].
      * right. apply in_or_app. right. exact Hx.
      * left. exact Hx.
Qed.

Lemma get_nonterm_refs_incl e : incl (get_nonterm_refs e) (ref_spans e).
Proof.
  unfold get_nonterm_refs. intros x Hx. apply refs_map_incl in Hx. rewrite app_nil_r in Hx.
  apply nonterm_refs_incl. exact Hx.
Qed.

(** *** [expr_head] / [expr_tail] return a node of the tree or of the table *)
Definition follow_within (T : list span) (follow : option (list (string * expr))) : Prop :=
  forall n rhs, followed follow n = Some rhs -> incl (term_spans rhs) T.

Lemma expr_head_terminal T follow (Hf : follow_within T follow) f : forall e t d l sp,
  incl (term_spans e) T -> expr_head follow f e = Ok (Terminal t d l sp) -> In sp T.
Proof.
  induction f as [|f IH]; intros e t d l sp He Hh; [discriminate|]. rewrite expr_head_S in Hh.
  destruct e; try discriminate.
  - inversion Hh; subst. apply He. left. reflexivity.
  - destruct (followed follow name) as [rhs|] eqn:E; [|discriminate].
    eapply IH; [|exact Hh]. eapply Hf; eauto.
  - destruct children as [|c r]; [discriminate|]. eapply IH; [|exact Hh].
    intros x Hx. apply He. cbn. apply in_or_app. left. exact Hx.
  - eapply IH; [|exact Hh]. exact He.
Qed.

Lemma expr_tail_terminal T follow (Hf : follow_within T follow) f : forall e t d l sp,
  incl (term_spans e) T -> expr_tail follow f e = Ok (Terminal t d l sp) -> In sp T.
Proof.
  induction f as [|f IH]; intros e t d l sp He Hh; [discriminate|]. rewrite expr_tail_S in Hh.
  destruct e; try discriminate.
  - inversion Hh; subst. apply He. left. reflexivity.
  - destruct (followed follow name) as [rhs|] eqn:E; [|discriminate].
    eapply IH; [|exact Hh]. eapply Hf; eauto.
  - destruct (last_opt children) as [c|] eqn:El; [|discriminate]. apply last_opt_In in El.
    eapply IH; [|exact Hh].
    intros x Hx. apply He. cbn. apply in_flat_map. exists c. split; assumption.
  - eapply IH; [|exact Hh]. exact He.
Qed.

Lemma adjacent_terminals_spans T follow (Hf : follow_within T follow) f cs l r :
  incl (flat_map term_spans cs) T ->
  adjacent_terminals follow f cs = Ok (Some (l, r)) -> In l T /\ In r T.
Proof.
  induction cs as [|a rest IH]; intros Hc H; [discriminate|]. destruct rest as [|b rest']; [discriminate|].
  cbn [adjacent_terminals] in H.
  assert (Hrest : incl (flat_map term_spans (b :: rest')) T).
  { intros x Hx. apply Hc. cbn [flat_map]. apply in_or_app. right. exact Hx. }
  destruct (expr_tail follow f a) as [ta| | |] eqn:Et; cbn [obind] in H; try discriminate.
  destruct (expr_head follow f b) as [hb| | |] eqn:Eh; cbn [obind] in H; try discriminate.
  destruct ta; try (apply IH; assumption). destruct hb; try (apply IH; assumption).
  inversion H; subst. split.
  - eapply expr_tail_terminal; [exact Hf| |exact Et].
    intros x Hx. apply Hc. cbn [flat_map]. apply in_or_app. left. exact Hx.
  - eapply expr_head_terminal; [exact Hf| |exact Eh].
    intros x Hx. apply Hc. cbn [flat_map]. apply in_or_app. right. apply in_or_app. left. exact Hx.
Qed.

(** *** What [spaces] reports *)
Definition spaces_report (R : list (string * span)) (T : list span) (trace0 : list span) (e : cerror) : Prop :=
  match e with
  | SubwordSpaces l r trace =>
      In l T /\ In r T /\ forall sp, In sp trace -> In sp trace0 \/ In sp (map snd R)
  | _ => False
  end.

Lemma spaces_report_weaken R T tr0 tr1 e :
  (forall sp, In sp tr1 -> In sp tr0 \/ In sp (map snd R)) ->
  spaces_report R T tr1 e -> spaces_report R T tr0 e.
Proof.
  intros Hw. destruct e; cbn; try tauto. intros (H1 & H2 & H3). repeat split; auto.
  intros sp Hsp. destruct (H3 sp Hsp) as [H|H]; auto.
Qed.

Lemma sp_all_report R T tr rec cs e :
  Forall (fun c => forall e, rec c = Err e -> spaces_report R T tr e) cs ->
  sp_all rec cs = Err e -> spaces_report R T tr e.
Proof.
  induction 1 as [|x l Hx Hl IH]; cbn; [discriminate|].
  destruct (rec x) as [[]|e'| |] eqn:E; cbn; try discriminate.
  - exact IH.
  - intro H. inversion H; subst. apply Hx. reflexivity.
Qed.

Lemma spaces_provenance R T table (Ht : table_within R T table) f : forall e trace within0 juxt err,
  within R T e ->
  spaces table f e trace within0 juxt = Err err -> spaces_report R T trace err.
Proof.
  induction f as [|f IH]; intros e trace w juxt err Hw H; [discriminate|].
  rewrite spaces_S in H.
  assert (Hall : forall cs err, Forall (within R T) cs ->
                                sp_all (fun c => spaces table f c trace w false) cs = Err err ->
                                spaces_report R T trace err).
  { intros cs err' Hcs H'. eapply sp_all_report; [|exact H']. rewrite Forall_forall in *.
    intros c Hc e' He'. eapply IH; [apply Hcs; exact Hc|exact He']. }
  destruct e; try discriminate.
  - (* NontermRef *)
    destruct (assoc name table) as [rhs|] eqn:En; [|discriminate].
    apply (IH _ _ _ _ _ (Ht _ _ En)) in H. eapply spaces_report_weaken; [|exact H].
    intros s Hs. apply in_app_or in Hs. destruct Hs as [Hs|[Hs|[]]]; [left; exact Hs|].
    right. subst s. destruct Hw as [Hr _]. apply in_map_iff. exists (name, sp).
    split; [reflexivity|apply Hr; left; reflexivity].
  - (* Sequence *)
    apply within_seq in Hw.
    destruct (sp_all _ children) as [[]|e'| |] eqn:E; cbn [obind] in H; try discriminate.
    + destruct w; [|discriminate].
      destruct (adjacent_terminals _ f children) as [[[l r]|]|e'| |] eqn:Ea; cbn [obind] in H;
        try discriminate.
      * inversion H; subst. apply within_list in Hw. destruct Hw as [_ HT].
        eapply adjacent_terminals_spans in Ea; [|clear Ea|exact HT].
        -- destruct Ea as [H1 H2]. cbn. repeat split; auto.
        -- intros n rhs Hn. destruct juxt; cbn in Hn; [discriminate|]. apply (Ht _ _ Hn).
      * exfalso. eapply adjacent_terminals_no_err; eauto.
    + inversion H; subst. eapply Hall; eauto.
  - apply within_alt in Hw. eapply Hall; eauto.
  - eapply IH; [|exact H]. exact Hw.
  - eapply IH; [|exact H]. exact Hw.
  - apply within_fb in Hw. eapply Hall; eauto.
  - eapply IH; [|exact H]. exact Hw.
Qed.

(** *** Definition-level errors, on the list of definitions *)
Definition same_kind (target : shell) (sh1 sh2 : option (string * span)) : Prop :=
  (sh1 = None /\ sh2 = None) \/
  (exists shn1 sp1 shn2 sp2, sh1 = Some (shn1, sp1) /\ sh2 = Some (shn2, sp2)
                             /\ is_shell shn1 target = true /\ is_shell shn2 target = true).

Definition defs_err_prov (target : shell) (all : defs_t) (e : cerror) : Prop :=
  match e with
  | UnknownShell sp =>
      exists n nsp shn rhs, In (n, nsp, Some (shn, sp), rhs) all /\ shell_of_string shn = None
  | NonCommandSpecialization sp =>
      exists n nsp sho rhs, In (n, nsp, sho, rhs) all /\ sp = expr_span rhs /\ is_command rhs = false
  | DuplicateNonterminalDefinition a b =>
      exists n p1 sh1 rhs1 p2 sh2 rhs2 r,
        all = p1 ++ (n, a, sh1, rhs1) :: p2 ++ (n, b, sh2, rhs2) :: r /\ same_kind target sh1 sh2
  | _ => False
  end.

Lemma app_cons_assoc {A} (pre : list A) x r : (pre ++ [x]) ++ r = pre ++ x :: r.
Proof. rewrite <- app_assoc. reflexivity. Qed.

Lemma collect_plain_defs_prov target ds : forall pre acc e,
  (forall d, In d acc -> exists rhs, In (d_name d, d_span d, None, rhs) pre) ->
  collect_plain_defs ds acc = Err e -> defs_err_prov target (pre ++ ds) e.
Proof.
  induction ds as [|[[[n nsp] sh] rhs] r IH]; intros pre acc e Hacc H; [discriminate|].
  cbn [collect_plain_defs] in H. destruct sh as [s|].
  - rewrite <- app_cons_assoc. eapply IH; [|exact H].
    intros d Hd. destruct (Hacc d Hd) as [rhs' Hin]. exists rhs'. apply in_or_app. left. exact Hin.
  - destruct (find (fun d => String.eqb (d_name d) n) acc) as [dup|] eqn:F.
    + inversion H; subst e. clear H. apply find_some in F. destruct F as [Hin Heq].
      apply String.eqb_eq in Heq. destruct (Hacc dup Hin) as [rhs' Hpre]. rewrite Heq in Hpre.
      apply in_split in Hpre. destruct Hpre as [p1 [p2 Hp]].
      exists n, p1, None, rhs', p2, None, rhs, r. split; [|left; split; reflexivity].
      rewrite Hp, <- app_assoc. reflexivity.
    + rewrite <- app_cons_assoc. eapply IH; [|exact H].
      intros d Hd. apply in_app_or in Hd. destruct Hd as [Hd|[Hd|[]]].
      * destruct (Hacc d Hd) as [rhs' Hin]. exists rhs'. apply in_or_app. left. exact Hin.
      * subst d. cbn. exists rhs. apply in_or_app. right. left. reflexivity.
Qed.

Lemma get_user_specs_prov target ds : forall pre acc e,
  (forall n s, In (n, s) acc ->
               exists shn shsp rhs, In (n, us_span s, Some (shn, shsp), rhs) pre
                                    /\ is_shell shn target = true) ->
  get_user_specs target ds acc = Err e -> defs_err_prov target (pre ++ ds) e.
Proof.
  induction ds as [|[[[n nsp] sh] rhs] r IH]; intros pre acc e Hacc H; [discriminate|].
  assert (Hacc' : forall n0 s, In (n0, s) acc ->
               exists shn shsp rhs0, In (n0, us_span s, Some (shn, shsp), rhs0) (pre ++ [(n, nsp, sh, rhs)])
                                     /\ is_shell shn target = true).
  { intros n0 s Hin. destruct (Hacc n0 s Hin) as (shn & shsp & rhs0 & Hp & Hs).
    exists shn, shsp, rhs0. split; [apply in_or_app; left; exact Hp|exact Hs]. }
  cbn [get_user_specs] in H. destruct sh as [[shn shsp]|].
  2:{ rewrite <- app_cons_assoc. eapply IH; eauto. }
  destruct (is_command rhs) eqn:Ec.
  2:{ assert (He : e = NonCommandSpecialization (expr_span rhs)) by (destruct rhs; inversion H; try reflexivity; discriminate).
      subst e. cbn. exists n, nsp, (Some (shn, shsp)), rhs. split; [|split; [reflexivity|exact Ec]].
      apply in_or_app. right. left. reflexivity. }
  destruct rhs as [| |cmd z lv csp| | | | | | |]; try discriminate.
  destruct (shell_of_string shn) as [s|] eqn:Hs.
  2:{ inversion H; subst e. cbn. exists n, nsp, shn, (Command cmd z lv csp).
      split; [apply in_or_app; right; left; reflexivity|exact Hs]. }
  destruct (shell_eqb s target) eqn:Est.
  2:{ rewrite <- app_cons_assoc. eapply IH; eauto. }
  destruct (assoc n acc) as [prev|] eqn:Ea.
  - inversion H; subst e. clear H. apply assoc_In in Ea.
    destruct (Hacc n prev Ea) as (shn1 & shsp1 & rhs1 & Hp & Hs1).
    apply in_split in Hp. destruct Hp as [p1 [p2 Hp]]. cbn.
    exists n, p1, (Some (shn1, shsp1)), rhs1, p2, (Some (shn, shsp)), (Command cmd z lv csp), r.
    split; [rewrite Hp, <- app_assoc; reflexivity|].
    right. exists shn1, shsp1, shn, shsp. repeat split; auto. unfold is_shell. rewrite Hs. exact Est.
  - rewrite <- app_cons_assoc. eapply IH; [|exact H].
    intros n0 s0 Hin. apply in_app_or in Hin. destruct Hin as [Hin|[Hin|[]]]; [apply Hacc'; exact Hin|].
    inversion Hin; subst. cbn. exists shn, shsp. eexists.
    split; [apply in_or_app; right; left; reflexivity|]. unfold is_shell. rewrite Hs. exact Est.
Qed.

Lemma get_fallback_specs_prov target sp ds : forall pre acc e,
  (forall n c s, In (n, (c, s)) acc -> exists rhs, In (n, s, None, rhs) pre) ->
  get_fallback_specs sp ds acc = Err e -> defs_err_prov target (pre ++ ds) e.
Proof.
  induction ds as [|[[[n nsp] sh] rhs] r IH]; intros pre acc e Hacc H; [discriminate|].
  assert (Hacc' : forall n0 c s, In (n0, (c, s)) acc ->
                                 exists rhs0, In (n0, s, None, rhs0) (pre ++ [(n, nsp, sh, rhs)])).
  { intros n0 c s Hin. destruct (Hacc n0 c s Hin) as [rhs0 Hp]. exists rhs0. apply in_or_app. left. exact Hp. }
  cbn [get_fallback_specs] in H. destruct sh as [s|].
  { rewrite <- app_cons_assoc. eapply IH; eauto. }
  destruct (mem_str n sp).
  2:{ rewrite <- app_cons_assoc. eapply IH; eauto. }
  destruct (is_command rhs) eqn:Ec.
  2:{ assert (He : e = NonCommandSpecialization (expr_span rhs)) by (destruct rhs; inversion H; try reflexivity; discriminate).
      subst e. cbn. exists n, nsp, None, rhs. split; [|split; [reflexivity|exact Ec]].
      apply in_or_app. right. left. reflexivity. }
  destruct rhs as [| |cmd z lv csp| | | | | | |]; try discriminate.
  destruct (assoc n acc) as [[c prev]|] eqn:Ea.
  - inversion H; subst e. clear H. apply assoc_In in Ea.
    destruct (Hacc n c prev Ea) as [rhs1 Hp].
    apply in_split in Hp. destruct Hp as [p1 [p2 Hp]]. cbn.
    exists n, p1, None, rhs1, p2, None, (Command cmd z lv csp), r.
    split; [rewrite Hp, <- app_assoc; reflexivity|left; split; reflexivity].
  - rewrite <- app_cons_assoc. eapply IH; [|exact H].
    intros n0 c0 s0 Hin. apply in_app_or in Hin. destruct Hin as [Hin|[Hin|[]]]; [eapply Hacc'; exact Hin|].
    inversion Hin; subst. eexists. apply in_or_app. right. left. reflexivity.
Qed.

(** *** ... and on the grammar *)
Definition stmt_of (d : string * span * option (string * span) * expr) : statement :=
  match d with (n, nsp, sh, rhs) => NontermDef n nsp sh rhs end.

Lemma all_defs_split g : forall l1 d l2,
  all_defs g = l1 ++ d :: l2 ->
  exists g1 g2, g = g1 ++ stmt_of d :: g2 /\ all_defs g1 = l1 /\ all_defs g2 = l2.
Proof.
  induction g as [|s g IH]; intros l1 d l2 H; [destruct l1; discriminate|].
  destruct s as [n sp e|n sp sh rhs].
  - change (all_defs (CallVariant n sp e :: g)) with (all_defs g) in H.
    destruct (IH _ _ _ H) as (g1 & g2 & Hg & H1 & H2).
    exists (CallVariant n sp e :: g1), g2. subst g. repeat split; auto.
  - change (all_defs (NontermDef n sp sh rhs :: g)) with ((n, sp, sh, rhs) :: all_defs g) in H.
    destruct l1 as [|x l1]; cbn [app] in H; inversion H; subst.
    + exists [], g. repeat split; auto.
    + destruct (IH _ _ _ H2) as (g1 & g2 & Hg & H1 & H3).
      exists (NontermDef n sp sh rhs :: g1), g2. subst g. repeat split; auto. cbn. unfold all_defs in *.
      cbn. rewrite H1. reflexivity.
Qed.

Definition err_provenance (g : grammar) (sh : shell) (e : cerror) : Prop :=
  match e with
  | MissingCallVariants => True
  | VaryingCommandNames spans =>
      forall sp, In sp spans -> exists n e, In (CallVariant n sp e) g
  | InvalidCommandName sp => exists n e, In (CallVariant n sp e) g
  | DuplicateNonterminalDefinition a b =>
      exists n g1 sh1 rhs1 g2 sh2 rhs2 g3,
        g = g1 ++ NontermDef n a sh1 rhs1 :: g2 ++ NontermDef n b sh2 rhs2 :: g3
        /\ same_kind sh sh1 sh2
  | UnknownShell sp =>
      exists n nsp shn rhs, In (NontermDef n nsp (Some (shn, sp)) rhs) g /\ shell_of_string shn = None
  | NonCommandSpecialization sp =>
      exists n nsp sho rhs, In (NontermDef n nsp sho rhs) g /\ sp = expr_span rhs
                            /\ is_command rhs = false
  | NonterminalDefinitionsCycle spans =>
      exists nsp rest, spans = nsp :: rest
                       /\ (exists n rhs, In (NontermDef n nsp None rhs) g)
                       /\ forall sp, In sp rest -> In sp (map snd (grammar_refs g))
  | SubwordSpaces l r trace =>
      In l (grammar_terms g) /\ In r (grammar_terms g)
      /\ forall sp, In sp trace -> In sp (map snd (grammar_refs g))
  end.

Lemma defs_err_prov_grammar g sh e :
  defs_err_prov sh (all_defs g) e -> err_provenance g sh e.
Proof.
  destruct e; cbn; try tauto.
  - intros (n & p1 & sh1 & rhs1 & p2 & sh2 & rhs2 & r & Heq & Hk).
    destruct (all_defs_split _ _ _ _ Heq) as (g1 & g2' & Hg & H1 & H2).
    destruct (all_defs_split _ _ _ _ H2) as (g2 & g3 & Hg2 & H3 & H4).
    exists n, g1, sh1, rhs1, g2, sh2, rhs2, g3. split; [|exact Hk]. subst g g2'. reflexivity.
  - intros (n & nsp & shn & rhs & Hin & Hs). apply in_all_defs in Hin. eauto 10.
  - intros (n & nsp & sho & rhs & Hin & Hs). apply in_all_defs in Hin. eauto 10.
Qed.

(** *** Call-variant errors *)
Lemma dedup_names_incl l : forall seen, incl (dedup_names seen l) l.
Proof.
  induction l as [|[n sp] l IH]; intro seen; cbn; [apply incl_refl|].
  destruct (mem_str n seen).
  - intros x Hx. right. eapply IH; eauto.
  - intros x [Hx|Hx]; [left; exact Hx|right; eapply IH; eauto].
Qed.

Lemma cv_names_in g n sp : In (n, sp) (cv_names g) -> exists e, In (CallVariant n sp e) g.
Proof.
  unfold cv_names, call_variants. rewrite in_map_iff. intros [[[n' sp'] e] [Heq Hin]].
  cbn in Heq. inversion Heq; subst. apply in_flat_map in Hin. destruct Hin as [s [Hs Hin]].
  destruct s; [|destruct Hin]. destruct Hin as [Hin|[]]. inversion Hin; subst. exists e. exact Hs.
Qed.

(** *** Universe facts *)
Lemma stmt_within g s : In s g -> within (grammar_refs g) (grammar_terms g) (stmt_expr s).
Proof.
  intro H. split; intros x Hx; apply in_flat_map; exists s; split; assumption.
Qed.

Lemma expr0_within g : within (grammar_refs g) (grammar_terms g) (expr0_of g).
Proof.
  assert (Hall : Forall (within (grammar_refs g) (grammar_terms g)) (map snd (call_variants g))).
  { apply Forall_forall. intros e He. apply in_map_iff in He. destruct He as [[[n sp] e'] [Heq Hin]].
    cbn in Heq. subst e'. unfold call_variants in Hin. apply in_flat_map in Hin.
    destruct Hin as [s [Hs Hin]]. destruct s; [|destruct Hin]. destruct Hin as [Hin|[]].
    inversion Hin; subst. apply (stmt_within g _ Hs). }
  unfold expr0_of. destruct (map snd (call_variants g)) as [|e [|e' r]] eqn:E.
  - split; intros x [].
  - inversion Hall; subst. assumption.
  - apply within_alt. exact Hall.
Qed.

Lemma plain_defs_in g d :
  In d (plain_defs_of (all_defs g)) -> In (NontermDef (d_name d) (d_span d) None (d_rhs d)) g.
Proof.
  unfold plain_defs_of. rewrite in_flat_map. intros [[[[n nsp] [s|]] rhs] [Hin Hd]]; [destruct Hd|].
  destruct Hd as [Hd|[]]. subst d. cbn. apply in_all_defs. exact Hin.
Qed.

Section Back.
  Variable builtins : shell -> list (string * string).
  Variable g : grammar.
  Variable sh : shell.
  Variable defs0 : list defn.
  Variable us : list (string * user_spec).
  Variable fs : list (string * (string * span)).
  Hypothesis Hcollect : collect_plain_defs (all_defs g) [] = Ok defs0.

  Let R := grammar_refs g.
  Let T := grammar_terms g.
  Let defs1 := defs1_of defs0.
  Let spec := spec_of builtins sh us fs defs1.
  Let defs2 := defs2_of spec defs1.

  Lemma defs2_in d2 :
    In d2 defs2 -> exists rhs0, In (NontermDef (d_name d2) (d_span d2) None rhs0) g
                                /\ d_rhs d2 = spec (distribute_descriptions rhs0).
  Proof.
    unfold defs2, defs2_of, defs1, defs1_of. rewrite map_map. intro H. apply in_map_iff in H.
    destruct H as [d0 [Heq Hin]]. subst d2. cbn. exists (d_rhs d0). split; [|reflexivity].
    apply plain_defs_in. pose proof (collect_plain_defs_eq _ _ _ Hcollect) as Hd. cbn in Hd.
    rewrite <- Hd. exact Hin.
  Qed.

  Lemma table0_within : table_within R T (table0_of defs2).
  Proof.
    intros n rhs Hn. apply assoc_In in Hn. unfold table0_of in Hn. apply in_map_iff in Hn.
    destruct Hn as [d2 [Heq Hin]]. inversion Heq; subst.
    destruct (defs2_in d2 Hin) as [rhs0 [Hg Hr]]. rewrite Hr.
    apply specialize_within. apply distribute_within. apply (stmt_within g _ Hg).
  Qed.

  Lemma expr2_within : within R T (spec (distribute_descriptions (expr0_of g))).
  Proof. apply specialize_within. apply distribute_within. apply expr0_within. Qed.

  Lemma children_refs a b sb :
    In (b, sb) (children (graph_of defs2) a) -> In sb (map snd R).
  Proof.
    unfold children, graph_of. rewrite assoc_graph_of'.
    destruct (assoc a (table0_of defs2)) as [rhs|] eqn:E; cbn [option_map]; [|intros []].
    intro H. apply filter_In in H. destruct H as [H _]. apply get_nonterm_refs_incl in H.
    apply in_map_iff. exists (b, sb). split; [reflexivity|].
    destruct (table0_within _ _ E) as [Hr _]. apply Hr. exact H.
  Qed.

  Lemma chain_refs a rest :
    chain (graph_of defs2) a rest -> forall sp, In sp (map snd rest) -> In sp (map snd R).
  Proof.
    revert a. induction rest as [|[b sb] r IH]; intros a Hc sp Hsp; [destruct Hsp|].
    cbn [chain] in Hc. destruct Hc as [Hb Hc]. destruct Hsp as [Hsp|Hsp].
    - cbn in Hsp. subst sp. eapply children_refs. exact Hb.
    - eapply IH; eauto.
  Qed.

  Lemma cycle_provenance e :
    resolution_order defs2 = Err e -> err_provenance g sh e.
  Proof.
    intro H. apply resolution_order_err in H.
    destruct H as (r & rsp & rest & c & sp & Hv & Hch & Hnd & Hc & Hin & He). subst e. cbn.
    exists rsp, (map snd rest ++ [sp]). split; [reflexivity|]. split.
    - unfold verts_of in Hv. apply in_map_iff in Hv. destruct Hv as [d2 [Heq Hd2]].
      inversion Heq; subst. destruct (defs2_in d2 Hd2) as [rhs0 [Hg _]]. eauto.
    - intros s Hs. apply in_app_or in Hs. destruct Hs as [Hs|[Hs|[]]].
      + eapply chain_refs; eauto.
      + subst s. eapply children_refs. exact Hc.
  Qed.

  Lemma spaces_provenance_top ord err :
    let table := resolve_in_order ord (table0_of defs2) in
    let expr2 := spec (distribute_descriptions (expr0_of g)) in
    spaces table (spaces_fuel table expr2) expr2 [] false false = Err err -> err_provenance g sh err.
  Proof.
    intros table expr2 H.
    eapply (spaces_provenance R T) in H.
    - destruct err; cbn in H; try contradiction. destruct H as (H1 & H2 & H3). cbn. repeat split; auto.
      intros s Hs. destruct (H3 s Hs) as [[]|H]. exact H.
    - apply resolve_in_order_within. apply table0_within.
    - apply expr2_within.
  Qed.

  Lemma undefined_provenance ord n sp :
    let table := resolve_in_order ord (table0_of defs2) in
    let expr2 := spec (distribute_descriptions (expr0_of g)) in
    In (n, sp) (get_nonterm_refs (propagate (collapse (resolve table expr2)) 0)) -> In (n, sp) R.
  Proof.
    intros table expr2 H. apply get_nonterm_refs_incl in H.
    rewrite propagate_spans, collapse_spans in H.
    assert (Hw : within R T (resolve table expr2)).
    { apply resolve_within; [apply resolve_in_order_within; apply table0_within|apply expr2_within]. }
    destruct Hw as [Hr _]. apply Hr. exact H.
  Qed.
End Back.

(** *** The theorem *)
Theorem errors_provenance builtins g sh e :
  from_grammar builtins g sh = Err e -> err_provenance g sh e.
Proof.
  rewrite from_grammar_named_eq. unfold from_grammar_named.
  destruct (dedup_names [] (cv_names g)) as [|[command cspan] more] eqn:Hd.
  { intro H. inversion H. exact I. }
  assert (Hin : forall n sp, In (n, sp) ((command, cspan) :: more) -> exists e0, In (CallVariant n sp e0) g).
  { intros n sp H. apply cv_names_in. rewrite <- Hd in H. eapply dedup_names_incl. exact H. }
  destruct more as [|m more].
  2:{ intro H. inversion H; subst e. cbn. intros sp Hsp.
      assert (Hsp' : In sp (map snd ((command, cspan) :: m :: more))) by exact Hsp.
      clear Hsp. rename Hsp' into Hsp. apply in_map_iff in Hsp. destruct Hsp as [[n sp'] [Heq Hsp]]. cbn in Heq. subst sp'.
      exists n. apply Hin. exact Hsp. }
  destruct (contains_char slash command).
  { intro H. inversion H; subst e. cbn. exists command. apply Hin. left. reflexivity. }
  destruct (collect_plain_defs (all_defs g) []) as [defs0|e0| |] eqn:Hc; cbn [obind]; try discriminate.
  2:{ intro H. inversion H; subst e0. apply defs_err_prov_grammar.
      apply (collect_plain_defs_prov sh (all_defs g) [] [] e); [intros d []|exact Hc]. }
  unfold get_specializations.
  destruct (get_user_specs sh (all_defs g) []) as [us|e0| |] eqn:Hus; cbn [obind]; try discriminate.
  2:{ intro H. inversion H; subst e0. apply defs_err_prov_grammar.
      apply (get_user_specs_prov sh (all_defs g) [] [] e); [intros n s []|exact Hus]. }
  destruct (get_fallback_specs (map fst us) (all_defs g) []) as [fs|e0| |] eqn:Hfs; cbn [obind];
    try discriminate.
  2:{ intro H. inversion H; subst e0. apply defs_err_prov_grammar.
      apply (get_fallback_specs_prov sh (map fst us) (all_defs g) [] [] e); [intros n c s []|exact Hfs]. }
  cbn [fst snd]. unfold back_end. cbn zeta.
  destruct (resolution_order _) as [ord|e0| |] eqn:Ho; cbn [obind]; try discriminate.
  2:{ intro H. inversion H; subst e0. eapply cycle_provenance; eauto. }
  match goal with |- context [spaces ?t ?f ?x [] false false] =>
    destruct (spaces t f x [] false false) as [[]|e0| |] eqn:Es end; cbn [obind]; try discriminate.
  intro H. inversion H; subst e0. eapply spaces_provenance_top; eauto.
Qed.

Theorem warnings_provenance builtins g sh v :
  from_grammar builtins g sh = Ok v ->
  (forall n sp, In (n, sp) (v_undefined v) -> In (n, sp) (grammar_refs g)) /\
  (forall n sp, In (n, sp) (v_unused v) -> exists rhs, In (NontermDef n sp None rhs) g) /\
  (forall n sp, In (n, sp) (v_unused_specs v) ->
                exists shn shsp rhs, In (NontermDef n sp (Some (shn, shsp)) rhs) g
                                     /\ is_shell shn sh = true).
Proof.
  intro H. split; [|split].
  - apply from_grammar_ok in H. rename H into A. rewrite (a_v _ _ _ _ A). cbn [v_undefined].
    intros n sp Hin. eapply undefined_provenance; [exact (a_collect _ _ _ _ A)|exact Hin].
  - apply (unused_plain_exact builtins g sh v H).
  - apply (unused_for_shell_exact builtins g sh v H).
Qed.
