(** Parser half of C13 for *arbitrary* input: with the span reset of [terminal] repaired, every
    position the parser model reaches is the nom_locate position of the text consumed so far, so
    every span it attaches (and the [ParseError] span) is where the construct starts and ends in
    the input -- for any text, accepted or not, not only for printed grammars. *)
From CG Require Import Base.Prelude Model.Ast Model.Lexer Model.Parser Spec.Printer Spec.Spans
  Proofs.LexBase Proofs.LexBlanks Proofs.LexTerminal.
From CGgen Require Import Consts.

Lemma adv_refl : forall i, adv i i.
Proof. intros. exists EmptyString. split; reflexivity. Qed.

Lemma adv_trans : forall a b c, adv a b -> adv b c -> adv a c.
Proof.
  intros a b c (w1 & E1 & P1) (w2 & E2 & P2). exists (append w1 w2). split.
  - rewrite E1, E2, app_assoc_s. reflexivity.
  - rewrite P2, P1, adv_str_app. reflexivity.
Qed.

Lemma at_pre_adv : forall s i i', at_pre s i -> adv i i' -> at_pre s i'.
Proof.
  intros s i i' (pre & E & P) (w & E1 & P1). exists (append pre w). split.
  - rewrite E, E1, app_assoc_s. reflexivity.
  - rewrite P1, P, adv_str_app. reflexivity.
Qed.

Lemma at_pre_start : forall s, at_pre s (start s).
Proof. intros. exists EmptyString. split; reflexivity. Qed.

Definition Advances {A} (f : input -> pres A) : Prop :=
  forall i x i', f i = Ok (x, i') -> adv i i'.

(** *** Primitives *)

Lemma span_while_adv : forall p s a b q, span_while p s = (a, b) -> adv (mkin s q) (mkin b (adv_str a q)).
Proof. intros. exists a. cbn [rest at_]. split; [apply (span_while_app _ _ _ _ H)|reflexivity]. Qed.

Lemma take_while_adv : forall p i a i', take_while p i = (a, i') -> adv i i'.
Proof.
  intros p [s q] a i' H. unfold take_while in H. cbn [rest at_] in H.
  destruct (span_while p s) as [x y] eqn:E. inversion H; subst. eapply span_while_adv; eauto.
Qed.

Lemma take_while1_adv : forall p, Advances (take_while1 p).
Proof.
  intros p i x i' H. unfold take_while1 in H. destruct (take_while p i) as [a j] eqn:E.
  destruct a; [discriminate|]. inversion H; subst. eapply take_while_adv; eauto.
Qed.

Lemma char_p_adv : forall c, Advances (char_p c).
Proof.
  intros c [s q] x i' H. unfold char_p in H. cbn [rest at_] in H. destruct s as [|d r]; [discriminate|].
  destruct (Ascii.eqb d c); [|discriminate]. inversion H; subst.
  exists (String d EmptyString). split; reflexivity.
Qed.

Lemma strip_prefix_app : forall t s r, strip_prefix t s = Some r -> s = append t r.
Proof.
  induction t; cbn [strip_prefix]; intros s r H.
  - inversion H; reflexivity.
  - destruct s as [|b s']; [discriminate|]. destruct (Ascii.eqb a b) eqn:E; [|discriminate].
    apply eqb_eq_a in E. subst. cbn. f_equal. apply IHt; auto.
Qed.

Lemma tag_p_adv : forall t, Advances (tag_p t).
Proof.
  intros t [s q] x i' H. unfold tag_p in H. cbn [rest at_] in H.
  destruct (strip_prefix t s) as [r|] eqn:E; [|discriminate]. inversion H; subst.
  exists t. split; [apply strip_prefix_app; auto|reflexivity].
Qed.

Ltac dobind H :=
  match type of H with
  | obind ?m _ = Ok _ =>
      let E := fresh "E" in
      destruct m as [[? ?]| ? | ? |] eqn:E; cbn [obind] in H; try discriminate H
  end.

Ltac alt H :=
  match type of H with
  | match ?m with Err _ => _ | Ok _ => _ | Panic _ => _ | OutOfFuel => _ end = Ok _ =>
      let E := fresh "E" in
      destruct m as [[? ?]| ? | ? |] eqn:E; try discriminate H
  end.

Lemma comment_adv : Advances comment.
Proof.
  intros i x i' H. unfold comment in H. dobind H.
  destruct (take_while _ i0) as [a j] eqn:T. inversion H; subst.
  eapply adv_trans; [eapply char_p_adv; eauto|eapply take_while_adv; eauto].
Qed.

Lemma blanks_adv : Advances blanks.
Proof.
  intros i x i' H. unfold blanks in H.
  destruct (take_while1 is_multispace i) as [[a j]| | |] eqn:E; cbn [obind] in H; try discriminate H.
  - inversion H; subst. eapply take_while1_adv; eauto.
  - destruct (comment i) as [[a j]| | |] eqn:C; try discriminate H.
    + inversion H; subst. eapply comment_adv; eauto.
    + unfold form_feed in H. eapply char_p_adv; eauto.
Qed.

Lemma skipb_adv : forall s com q, exists w, s = append w (fst (skipb com s q)) /\ snd (skipb com s q) = adv_str w q.
Proof.
  induction s as [|c r IH]; intros com q; cbn [skipb].
  - exists EmptyString. split; reflexivity.
  - destruct com.
    + destruct (Ascii.eqb c comment_end_char);
        [destruct (IH false (adv_char c q)) as (w & E & P)|destruct (IH true (adv_char c q)) as (w & E & P)];
        exists (String c w); cbn [append adv_str]; split; congruence.
    + destruct (is_multispace c || Ascii.eqb c form_feed_char).
      { destruct (IH false (adv_char c q)) as (w & E & P). exists (String c w). cbn [append adv_str]. split; congruence. }
      destruct (Ascii.eqb c comment_start_char).
      { destruct (IH true (adv_char c q)) as (w & E & P). exists (String c w). cbn [append adv_str]. split; congruence. }
      exists EmptyString. split; reflexivity.
Qed.

Lemma skip_adv : forall i, adv i (skip i).
Proof.
  intros [s q]. unfold skip. cbn [rest at_]. destruct (skipb_adv s false q) as (w & E & P).
  destruct (skipb false s q) as [s' q']. cbn [fst snd] in *. exists w. cbn [rest at_]. split; auto.
Qed.

Lemma multiblanks0_adv : Advances multiblanks0.
Proof. intros i x i' H. rewrite multiblanks0_spec in H. inversion H; subst. apply skip_adv. Qed.

Lemma multiblanks1_adv : Advances multiblanks1.
Proof.
  intros i x i' H. rewrite multiblanks1_spec in H. destruct (hd_is blank_start (rest i)); [|discriminate].
  inversion H; subst. apply skip_adv.
Qed.

(** *** terminal, with both resets off *)

Lemma escape_run_adv : forall fuel, Advances (escape_run false false fuel).
Proof.
  induction fuel; intros [s q] x i' H; [discriminate|]. cbn [escape_run rest at_] in H.
  destruct s as [|b after]; [inversion H; subst; apply adv_refl|].
  destruct (Ascii.eqb b BACKSLASH); [|inversion H; subst; apply adv_refl].
  cbn [rest] in H. destruct after as [|c after2]; [discriminate|].
  destruct (is_escapable c); [|discriminate]. dobind H. inversion H; subst.
  eapply adv_trans; [|eapply IHfuel; eauto].
  exists (String b (String c EmptyString)). split; reflexivity.
Qed.

Lemma terminal_loop_adv : forall fuel, Advances (terminal_loop false false fuel).
Proof.
  induction fuel; intros i x i' H; [discriminate|]. cbn [terminal_loop] in H.
  destruct (take_while is_regular i) as [reg i1] eqn:T1. dobind H.
  pose proof (take_while_adv _ _ _ _ T1) as A1. pose proof (escape_run_adv _ _ _ _ E) as A2.
  destruct (starts_with "..." (rest i0)).
  { inversion H; subst. eapply adv_trans; eauto. }
  destruct (take_while is_dot i0) as [dots i3] eqn:T3. pose proof (take_while_adv _ _ _ _ T3) as A3.
  destruct (N.eqb _ 0).
  { inversion H; subst. eapply adv_trans; [eauto|]. eapply adv_trans; eauto. }
  dobind H. inversion H; subst.
  eapply adv_trans; [eauto|]. eapply adv_trans; [eauto|]. eapply adv_trans; [eauto|]. eapply IHfuel; eauto.
Qed.

Lemma terminal_adv : Advances (terminal repaired).
Proof.
  intros i x i' H. unfold terminal, repaired, terminal_with in H. cbn [reset_after_backslash reset_after_escaped] in H.
  dobind H. destruct s; [discriminate|]. inversion H; subst. eapply terminal_loop_adv; eauto.
Qed.

(** *** descriptions, nonterminals, commands *)

Lemma parse_fragment_adv : Advances parse_fragment.
Proof.
  intros i x i' H. unfold parse_fragment in H.
  destruct (parse_literal i) as [[a j]| | |] eqn:L; cbn [obind] in H; try discriminate H.
  - inversion H; subst. eapply take_while1_adv; eauto.
  - destruct (parse_escaped_char i) as [[a j]| | |] eqn:C; cbn [obind] in H; try discriminate H.
    + inversion H; subst. unfold parse_escaped_char in C. dobind C.
      pose proof (char_p_adv _ _ _ _ E) as A1.
      destruct (char_p BACKSLASH i0) as [[? j1]| | |] eqn:B; cbn [obind] in C; try discriminate C.
      * inversion C; subst. eapply adv_trans; [eauto|]. eapply char_p_adv; eauto.
      * dobind C. inversion C; subst. eapply adv_trans; [eauto|]. eapply char_p_adv; eauto.
    + dobind H. inversion H; subst. unfold parse_escaped_whitespace in E. dobind E. dobind E. inversion E; subst.
      eapply adv_trans; [eapply char_p_adv; eauto|]. eapply take_while1_adv; eauto.
Qed.

Lemma description_inner_f_adv : forall fuel, Advances (description_inner_f fuel).
Proof.
  induction fuel; intros i x i' H; [discriminate|]. cbn [description_inner_f] in H.
  destruct (parse_fragment i) as [[fr i1]| | |] eqn:F; try discriminate H.
  - dobind H. inversion H; subst. eapply adv_trans; [eapply parse_fragment_adv; eauto|eapply IHfuel; eauto].
  - inversion H; subst. apply adv_refl.
Qed.

Lemma description_adv : Advances description.
Proof.
  intros i x i' H. unfold description in H. dobind H. dobind H. dobind H. inversion H; subst.
  eapply adv_trans; [eapply char_p_adv; eauto|].
  eapply adv_trans; [eapply description_inner_f_adv; eauto|eapply char_p_adv; eauto].
Qed.

Lemma opt_description_adv : Advances opt_description.
Proof.
  intros i x i' H. unfold opt_description in H.
  destruct (multiblanks0 i) as [[u i1]| | |] eqn:B; cbn [obind] in H.
  - destruct (description i1) as [[d i2]| | |] eqn:D; try discriminate H; inversion H; subst.
    + eapply adv_trans; [eapply multiblanks0_adv; eauto|eapply description_adv; eauto].
    + apply adv_refl.
  - inversion H; subst. apply adv_refl.
  - discriminate.
  - discriminate.
Qed.

Lemma split_until_app : forall t s a b, split_until t s = Some (a, b) -> s = append a b.
Proof.
  induction s as [|c r IH]; intros a b H.
  - cbn in H. destruct (starts_with t EmptyString); inversion H; reflexivity.
  - cbn [split_until] in H. destruct (starts_with t (String c r)); [inversion H; reflexivity|].
    destruct (split_until t r) as [[x y]|]; [|discriminate]. inversion H; subst. cbn. f_equal. apply IH; auto.
Qed.

Lemma take_until_adv : forall t, Advances (take_until t).
Proof.
  intros t [s q] x i' H. unfold take_until in H. cbn [rest at_] in H.
  destruct (split_until t s) as [[a b]|] eqn:E; [|discriminate]. inversion H; subst.
  exists x. split; [apply (split_until_app _ _ _ _ E)|reflexivity].
Qed.

Lemma triple_bracket_command_adv : Advances triple_bracket_command.
Proof.
  intros i x i' H. unfold triple_bracket_command in H. dobind H. dobind H. dobind H. inversion H; subst.
  eapply adv_trans; [eapply tag_p_adv; eauto|].
  eapply adv_trans; [eapply take_until_adv; eauto|eapply tag_p_adv; eauto].
Qed.

Lemma many1_tag_adv : Advances many1_tag.
Proof.
  intros i x i' H. unfold many1_tag in H. dobind H.
  eapply adv_trans; [eapply multiblanks0_adv; eauto|eapply tag_p_adv; eauto].
Qed.

Lemma end_of_statement_adv : Advances end_of_statement.
Proof.
  intros i x i' H. unfold end_of_statement in H.
  destruct (char_p SEMI i) as [[u j]| | |] eqn:C; try discriminate H.
  - inversion H; subst. eapply char_p_adv; eauto.
  - destruct (rest i); [|discriminate]. inversion H; subst. apply adv_refl.
Qed.

(** *** Expressions *)

Definition all_ok (s : string) (l : list expr) : Prop :=
  (fix all (l : list expr) : Prop := match l with [] => True | x :: r => spans_ok s x /\ all r end) l.

Lemma all_ok_Forall : forall s l, all_ok s l <-> Forall (spans_ok s) l.
Proof.
  induction l; cbn; split; intros; auto.
  - destruct H. constructor; auto. apply IHl; auto.
  - inversion H; subst. split; auto. apply IHl; auto.
Qed.

Lemma all_ok_map : forall s (f : expr -> expr) l,
    (forall x, spans_ok s x -> spans_ok s (f x)) -> all_ok s l -> all_ok s (map f l).
Proof. induction l; cbn; intros; auto. destruct H0. split; auto. apply IHl; auto. Qed.

Lemma flatten_spans : forall s e, spans_ok s e -> spans_ok s (flatten_expr e).
Proof.
  induction e using expr_ind'; cbn [flatten_expr spans_ok]; intros Hs; auto.
  - destruct Hs as [Hs Ha]. split; auto. fold (all_ok s cs) in Ha. fold (all_ok s (map flatten_expr cs)).
    apply all_ok_Forall. apply all_ok_Forall in Ha. rewrite Forall_forall in *. intros y Hy.
    apply in_map_iff in Hy as (x & <- & Hx). apply H; auto.
  - destruct Hs as [Hs Ha]. split; auto. fold (all_ok s cs) in Ha. fold (all_ok s (map flatten_expr cs)).
    apply all_ok_Forall. apply all_ok_Forall in Ha. rewrite Forall_forall in *. intros y Hy.
    apply in_map_iff in Hy as (x & <- & Hx). apply H; auto.
  - destruct Hs; split; auto.
  - destruct Hs; split; auto.
  - destruct Hs; split; auto.
  - destruct Hs as [Hs Ha]. split; auto. fold (all_ok s cs) in Ha. fold (all_ok s (map flatten_expr cs)).
    apply all_ok_Forall. apply all_ok_Forall in Ha. rewrite Forall_forall in *. intros y Hy.
    apply in_map_iff in Hy as (x & <- & Hx). apply H; auto.
  - destruct Hs; auto.
Qed.

(** *** strictness: every construct has at least one byte *)

Definition ilen (i : input) : nat := String.length (rest i).

Lemma adv_ilen : forall i i', adv i i' -> (ilen i' <= ilen i)%nat.
Proof. intros i i' (w & E & _). unfold ilen. rewrite E, length_app_s. lia. Qed.

Lemma adv1_intro : forall i i', adv i i' -> (ilen i' < ilen i)%nat -> adv1 i i'.
Proof.
  intros i i' (w & E & P) L. exists w. repeat split; auto. intros ->. unfold ilen in L. rewrite E in L. cbn in L. lia.
Qed.

Lemma adv1_adv : forall i i', adv1 i i' -> adv i i'.
Proof. intros i i' (w & _ & E & P). exists w. auto. Qed.

Lemma adv1_ilen : forall i i', adv1 i i' -> (ilen i' < ilen i)%nat.
Proof.
  intros i i' (w & N & E & _). unfold ilen. rewrite E, length_app_s. destruct w; [congruence|]. cbn. lia.
Qed.

Lemma char_p_strict : forall c i x i', char_p c i = Ok (x, i') -> (ilen i' < ilen i)%nat.
Proof.
  intros c [s q] x i' H. unfold char_p in H. cbn [rest at_] in H. destruct s as [|d r]; [discriminate|].
  destruct (Ascii.eqb d c); [|discriminate]. inversion H; subst. unfold ilen. cbn. lia.
Qed.

Lemma tag_p_strict : forall t i x i', t <> EmptyString -> tag_p t i = Ok (x, i') -> (ilen i' < ilen i)%nat.
Proof.
  intros t [s q] x i' Ht H. unfold tag_p in H. cbn [rest at_] in H.
  destruct (strip_prefix t s) as [r|] eqn:E; [|discriminate]. inversion H; subst.
  apply strip_prefix_app in E. subst s. unfold ilen. cbn [rest]. rewrite length_app_s. destruct t; [congruence|]. cbn. lia.
Qed.

Lemma take_while1_strict : forall p i x i', take_while1 p i = Ok (x, i') -> (ilen i' < ilen i)%nat.
Proof.
  intros p [s q] x i' H. unfold take_while1, take_while in H. cbn [rest at_] in H.
  destruct (span_while p s) as [a b] eqn:E. destruct a; [discriminate|]. inversion H; subst.
  unfold ilen. cbn [rest]. rewrite (span_while_len _ _ _ _ E). cbn. lia.
Qed.

Section Sound.
  Variable s : string.

  Definition GoodP (p : input -> pres expr) : Prop :=
    forall i e i', at_pre s i -> p i = Ok (e, i') -> adv1 i i' /\ spans_ok s e.

  Lemma span_from_range : forall i i', at_pre s i -> adv1 i i' -> span_ok s (from_range i i').
  Proof. intros. exists i, i'. auto. Qed.

  Lemma good_terminal : GoodP (terminal_opt_description_expr repaired).
  Proof.
    intros i e i' P H. unfold terminal_opt_description_expr in H. dobind H. dobind H. inversion H; subst.
    pose proof (terminal_adv _ _ _ E) as A1. pose proof (opt_description_adv _ _ _ E0) as A2.
    assert (A : adv1 i i').
    { apply adv1_intro; [eapply adv_trans; eauto|]. pose proof (terminal_consumes _ _ _ _ E). pose proof (adv_ilen _ _ A2).
      unfold ilen in *. lia. }
    split; auto. cbn [spans_ok]. apply span_from_range; auto.
  Qed.

  Lemma nonterm_adv : Advances nonterm.
  Proof.
    intros i x i' H. unfold nonterm in H. dobind H. dobind H. dobind H. inversion H; subst.
    eapply adv_trans; [eapply char_p_adv; eauto|].
    eapply adv_trans; [eapply take_while1_adv; eauto|eapply char_p_adv; eauto].
  Qed.

  Lemma nonterm_adv1 : forall i x i', nonterm i = Ok (x, i') -> adv1 i i'.
  Proof.
    intros i x i' H. apply adv1_intro; [eapply nonterm_adv; eauto|].
    unfold nonterm in H. dobind H. dobind H. dobind H. inversion H; subst.
    pose proof (char_p_strict _ _ _ _ E). pose proof (take_while1_strict _ _ _ _ E0). pose proof (char_p_strict _ _ _ _ E1). lia.
  Qed.

  Lemma good_nonterm : GoodP nonterm_expr.
  Proof.
    intros i e i' P H. unfold nonterm_expr in H. dobind H. inversion H; subst.
    pose proof (nonterm_adv1 _ _ _ E) as A. split; auto. cbn [spans_ok]. apply span_from_range; auto.
  Qed.

  Lemma command_adv1 : forall i x i', triple_bracket_command i = Ok (x, i') -> adv1 i i'.
  Proof.
    intros i x i' H. apply adv1_intro; [eapply triple_bracket_command_adv; eauto|].
    unfold triple_bracket_command in H. dobind H. dobind H. dobind H. inversion H; subst.
    pose proof (tag_p_strict "{{{" _ _ _ ltac:(discriminate) E). pose proof (adv_ilen _ _ (take_until_adv _ _ _ _ E0)).
    pose proof (tag_p_strict "}}}" _ _ _ ltac:(discriminate) E1). lia.
  Qed.

  Lemma good_command : GoodP command_expr.
  Proof.
    intros i e i' P H. unfold command_expr in H. dobind H. inversion H; subst.
    pose proof (command_adv1 _ _ _ E) as A. split; auto. cbn [spans_ok]. apply span_from_range; auto.
  Qed.

  Lemma good_optional : forall ex, GoodP ex -> GoodP (optional_expr ex).
  Proof.
    intros ex G i e i' P H. unfold optional_expr in H. dobind H. dobind H. dobind H. dobind H. dobind H.
    inversion H; subst.
    pose proof (char_p_adv _ _ _ _ E) as A1. pose proof (multiblanks0_adv _ _ _ E0) as A2.
    assert (P2 : at_pre s i1) by (eapply at_pre_adv; [|exact A2]; eapply at_pre_adv; eauto).
    destruct (G _ _ _ P2 E1) as [A3 S3]. apply adv1_adv in A3.
    pose proof (multiblanks0_adv _ _ _ E2) as A4. pose proof (char_p_adv _ _ _ _ E3) as A5.
    assert (A : adv1 i i').
    { apply adv1_intro; [exact (adv_trans _ _ _ A1 (adv_trans _ _ _ A2 (adv_trans _ _ _ A3 (adv_trans _ _ _ A4 A5))))|].
      pose proof (char_p_strict _ _ _ _ E). pose proof (adv_ilen _ _ A2). pose proof (adv_ilen _ _ A3).
      pose proof (adv_ilen _ _ A4). pose proof (adv_ilen _ _ A5). lia. }
    split; auto. cbn [spans_ok]. split; auto. apply span_from_range; auto.
  Qed.

  Lemma good_paren : forall ex, GoodP ex -> GoodP (parenthesized_expr ex).
  Proof.
    intros ex G i e i' P H. unfold parenthesized_expr in H. dobind H. dobind H. dobind H. dobind H. dobind H.
    inversion H; subst.
    pose proof (char_p_adv _ _ _ _ E) as A1. pose proof (multiblanks0_adv _ _ _ E0) as A2.
    assert (P2 : at_pre s i1) by (eapply at_pre_adv; [|exact A2]; eapply at_pre_adv; eauto).
    destruct (G _ _ _ P2 E1) as [A3 S3]. apply adv1_adv in A3.
    pose proof (multiblanks0_adv _ _ _ E2) as A4. pose proof (char_p_adv _ _ _ _ E3) as A5.
    split; auto. apply adv1_intro; [exact (adv_trans _ _ _ A1 (adv_trans _ _ _ A2 (adv_trans _ _ _ A3 (adv_trans _ _ _ A4 A5))))|].
    pose proof (char_p_strict _ _ _ _ E). pose proof (adv_ilen _ _ A2). pose proof (adv_ilen _ _ A3).
    pose proof (adv_ilen _ _ A4). pose proof (adv_ilen _ _ A5). lia.
  Qed.

  Lemma adv1_adv_trans : forall a b c, adv1 a b -> adv b c -> adv1 a c.
  Proof.
    intros a b c H1 H2. apply adv1_intro; [eapply adv_trans; [apply adv1_adv|]; eauto|].
    pose proof (adv1_ilen _ _ H1). pose proof (adv_ilen _ _ H2). lia.
  Qed.

  Lemma adv_adv1_trans : forall a b c, adv a b -> adv1 b c -> adv1 a c.
  Proof.
    intros a b c H1 H2. apply adv1_intro; [eapply adv_trans; [|apply adv1_adv]; eauto|].
    pose proof (adv1_ilen _ _ H2). pose proof (adv_ilen _ _ H1). lia.
  Qed.

  Lemma good_unary : forall ex, GoodP ex -> GoodP (unary_expr repaired ex).
  Proof.
    intros ex G i e i' P H. unfold unary_expr in H. dobind H.
    assert (X : adv1 i i0 /\ spans_ok s e0).
    { destruct (nonterm_expr i) as [[a j]| | |] eqn:N; try discriminate E.
      { inversion E; subst. eapply good_nonterm; eauto. }
      destruct (optional_expr ex i) as [[a j]| | |] eqn:O; try discriminate E.
      { inversion E; subst. eapply good_optional; eauto. }
      destruct (parenthesized_expr ex i) as [[a j]| | |] eqn:Pa; try discriminate E.
      { inversion E; subst. eapply good_paren; eauto. }
      destruct (command_expr i) as [[a j]| | |] eqn:C; try discriminate E.
      { inversion E; subst. eapply good_command; eauto. }
      eapply good_terminal; eauto. }
    destruct X as [A1 S1].
    destruct (many1_tag i0) as [[u j]| | |] eqn:T; try discriminate H; inversion H; subst.
    - pose proof (many1_tag_adv _ _ _ T) as A2. assert (A : adv1 i i') by (eapply adv1_adv_trans; eauto).
      split; auto. cbn [spans_ok]. split; auto. apply span_from_range; auto.
    - split; auto.
  Qed.

  Lemma good_loop : forall step, GoodP step ->
      forall k i l i', at_pre s i -> loop_p k step i = Ok (l, i') -> adv i i' /\ all_ok s l.
  Proof.
    intros step G. induction k; intros i l i' P H; [discriminate|]. cbn [loop_p] in H.
    destruct (step i) as [[a i1]| | |] eqn:E; try discriminate H.
    - dobind H. inversion H; subst. destruct (G _ _ _ P E) as [A1 S1]. apply adv1_adv in A1.
      destruct (IHk _ _ _ (at_pre_adv _ _ _ P A1) E0) as [A2 S2].
      split; [eapply adv_trans; eauto|]. cbn. split; auto.
    - inversion H; subst. split; [apply adv_refl|exact Logic.I].
  Qed.

  Lemma good_subword : forall k u, GoodP u -> GoodP (subword_sequence_expr k u).
  Proof.
    intros k u G i e i' P H. unfold subword_sequence_expr in H. dobind H. dobind H.
    destruct (G _ _ _ P E) as [A1 S1].
    destruct (good_loop u G _ _ _ _ (at_pre_adv _ _ _ P (adv1_adv _ _ A1)) E0) as [A2 S2].
    assert (A : adv1 i i1) by (eapply adv1_adv_trans; eauto).
    destruct l as [|m more]; inversion H; subst; [split; auto|].
    split; auto.
    assert (Hsub : forall l sp1 lv sp2, span_ok s sp2 -> span_ok s sp1 -> all_ok s l ->
                                        spans_ok s (Subword (Sequence l sp1) lv sp2)).
    { intros. unfold all_ok in *. cbn [spans_ok]. split; [|split]; assumption. }
    apply Hsub; try (apply span_from_range; auto).
    change (all_ok s (map flatten_expr (e0 :: m :: more))).
    apply all_ok_map; [apply flatten_spans|]. unfold all_ok in *. cbn. cbn in S2. tauto.
  Qed.

  Lemma good_item : forall k u, GoodP u -> GoodP (subword_sequence_expr_opt_description k u).
  Proof.
    intros k u G i e i' P H. unfold subword_sequence_expr_opt_description in H. dobind H. dobind H.
    destruct (good_subword k u G _ _ _ P E) as [A1 S1].
    pose proof (opt_description_adv _ _ _ E0) as A2.
    destruct o; inversion H; subst.
    - assert (A : adv1 i i') by (eapply adv1_adv_trans; eauto). split; auto. cbn [spans_ok]. split; auto.
      apply span_from_range; auto.
    - split; auto.
  Qed.

  Lemma good_nary : forall (mk : list expr -> span -> expr) k first step,
      (forall cs sp, spans_ok s (mk cs sp) <-> span_ok s sp /\ all_ok s cs) ->
      GoodP first -> GoodP step ->
      GoodP (fun i => do (lft, after) <- first i;
                      do (more, after) <- loop_p k step after;
                      match more with
                      | [] => Ok (lft, after)
                      | _ => Ok (mk (lft :: more) (from_range i after), after)
                      end).
  Proof.
    intros mk k first step Hmk G1 G2 i e i' P H. cbv beta in H. dobind H. dobind H.
    destruct (G1 _ _ _ P E) as [A1 S1].
    destruct (good_loop step G2 _ _ _ _ (at_pre_adv _ _ _ P (adv1_adv _ _ A1)) E0) as [A2 S2].
    assert (A : adv1 i i1) by (eapply adv1_adv_trans; eauto).
    destruct l as [|m more]; inversion H; subst; [split; auto|].
    split; auto. apply Hmk. split; [apply span_from_range; auto|]. cbn. cbn in S2. tauto.
  Qed.

  Lemma good_sequence : forall k item, GoodP item -> GoodP (sequence_expr k item).
  Proof.
    intros k item G. unfold sequence_expr.
    apply (good_nary Sequence k item (fun j => do (_, j1) <- multiblanks1 j; item j1)); auto.
    - intros. cbn [spans_ok]. reflexivity.
    - intros i e i' P H. dobind H. pose proof (multiblanks1_adv _ _ _ E) as A1.
      destruct (G _ _ _ (at_pre_adv _ _ _ P A1) H) as [A2 S2]. split; auto. eapply adv_adv1_trans; eauto.
  Qed.

  Lemma good_alternative : forall k sq, GoodP sq -> GoodP (alternative_expr k sq).
  Proof.
    intros k sq G. unfold alternative_expr.
    apply (good_nary Alternative k sq (do_alternative_expr sq)); auto.
    - intros. cbn [spans_ok]. reflexivity.
    - intros i e i' P H. unfold do_alternative_expr in H. dobind H. dobind H. dobind H.
      pose proof (multiblanks0_adv _ _ _ E) as A1. pose proof (char_p_adv _ _ _ _ E0) as A2.
      pose proof (multiblanks0_adv _ _ _ E1) as A3.
      assert (A : adv i i2) by (eapply adv_trans; [eauto|]; eapply adv_trans; eauto).
      destruct (G _ _ _ (at_pre_adv _ _ _ P A) H) as [A4 S4]. split; auto. eapply adv_adv1_trans; eauto.
  Qed.

  Lemma good_fallback : forall k al, GoodP al -> GoodP (fallback_expr k al).
  Proof.
    intros k al G. unfold fallback_expr.
    apply (good_nary Fallback k al (do_fallback_expr al)); auto.
    - intros. cbn [spans_ok]. reflexivity.
    - intros i e i' P H. unfold do_fallback_expr in H. dobind H. dobind H. dobind H.
      pose proof (multiblanks0_adv _ _ _ E) as A1. pose proof (tag_p_adv _ _ _ _ E0) as A2.
      pose proof (multiblanks0_adv _ _ _ E1) as A3.
      assert (A : adv i i2) by (eapply adv_trans; [eauto|]; eapply adv_trans; eauto).
      destruct (G _ _ _ (at_pre_adv _ _ _ P A) H) as [A4 S4]. split; auto. eapply adv_adv1_trans; eauto.
  Qed.

  Theorem good_expr : forall n, GoodP (expr_p repaired n).
  Proof.
    induction n; [intros i e i' P H; discriminate|]. cbn [expr_p].
    apply good_fallback, good_alternative, good_sequence, good_item, good_unary. exact IHn.
  Qed.
End Sound.

(** *** Statements and grammars *)

Section SoundStmt.
  Variable s : string.
  Variable n : nat.

  Lemma call_variant_good : forall i st i', at_pre s i ->
      call_variant repaired (expr_p repaired n) i = Ok (st, i') -> adv1 i i' /\ stmt_ok s st.
  Proof.
    intros i st i' P H. unfold call_variant in H. dobind H. dobind H. dobind H. dobind H. dobind H.
    inversion H; subst.
    pose proof (terminal_adv _ _ _ E) as A1. pose proof (multiblanks1_adv _ _ _ E0) as A2.
    assert (T1 : adv1 i i0) by (apply adv1_intro; auto; apply (terminal_consumes _ _ _ _ E)).
    assert (P2 : at_pre s i1) by (eapply at_pre_adv; [|exact A2]; eapply at_pre_adv; eauto).
    destruct (good_expr s n _ _ _ P2 E1) as [A3 S3]. apply adv1_adv in A3.
    pose proof (multiblanks0_adv _ _ _ E2) as A4. pose proof (end_of_statement_adv _ _ _ E3) as A5.
    split; [eapply adv1_adv_trans; [exact T1|]; exact (adv_trans _ _ _ A2 (adv_trans _ _ _ A3 (adv_trans _ _ _ A4 A5)))|].
    cbn [stmt_ok]. split; auto. apply span_from_range; auto.
  Qed.

  Lemma nonterm_def_good : forall i hd i', at_pre s i -> nonterm_def i = Ok (hd, i') ->
      adv1 i i' /\ span_ok s (snd (fst hd))
      /\ match snd hd with Some (_, ssp) => span_ok s ssp | None => True end.
  Proof.
    intros i hd i' P H. unfold nonterm_def in H.
    destruct (nonterm_specialization i) as [[[[[nm nsp] sh] ssp] j]| | |] eqn:Sp; try discriminate H.
    - inversion H; subst. clear H. unfold nonterm_specialization in Sp.
      dobind Sp. dobind Sp. dobind Sp. dobind Sp. dobind Sp. inversion Sp; subst.
      pose proof (char_p_adv _ _ _ _ E) as A1. pose proof (take_while1_adv _ _ _ _ E0) as A2.
      pose proof (char_p_adv _ _ _ _ E1) as A3. pose proof (take_while1_adv _ _ _ _ E2) as A4.
      pose proof (char_p_adv _ _ _ _ E3) as A5.
      assert (A13 : adv i i2) by exact (adv_trans _ _ _ A1 (adv_trans _ _ _ A2 A3)).
      assert (A : adv1 i i').
      { apply adv1_intro; [exact (adv_trans _ _ _ A13 (adv_trans _ _ _ A4 A5))|].
        pose proof (char_p_strict _ _ _ _ E). pose proof (adv_ilen _ _ A2). pose proof (adv_ilen _ _ A3).
        pose proof (adv_ilen _ _ A4). pose proof (adv_ilen _ _ A5). lia. }
      cbn [fst snd]. repeat split; auto.
      + apply span_from_range; auto.
      + apply span_from_range; [eapply at_pre_adv; eauto|].
        apply adv1_intro; auto. apply (take_while1_strict _ _ _ _ E2).
    - destruct (nonterm i) as [[[nm nsp] j]| | |] eqn:N; try discriminate H. inversion H; subst.
      pose proof (nonterm_adv1 _ _ _ N) as A. cbn [fst snd]. repeat split; auto.
      unfold nonterm in N. dobind N. dobind N. dobind N. inversion N; subst. apply span_from_range; auto.
  Qed.

  Lemma nonterm_def_statement_good : forall i st i', at_pre s i ->
      nonterm_def_statement (expr_p repaired n) i = Ok (st, i') -> adv1 i i' /\ stmt_ok s st.
  Proof.
    intros i st i' P H. unfold nonterm_def_statement in H. dobind H. dobind H. dobind H. dobind H. dobind H.
    dobind H. dobind H. destruct p as [[nm nsp] sh]. inversion H; subst.
    destruct (nonterm_def_good _ _ _ P E) as (A1 & S1 & S2). cbn [fst snd] in *.
    pose proof (multiblanks0_adv _ _ _ E0) as A2.
    assert (A3 : adv i1 i2).
    { destruct (tag_p "::=" i1) as [[? ?]| | |] eqn:T; try discriminate E1.
      - inversion E1; subst. eapply tag_p_adv; eauto.
      - eapply tag_p_adv; eauto. }
    pose proof (multiblanks0_adv _ _ _ E2) as A4.
    assert (P4 : at_pre s i3).
    { eapply at_pre_adv; [|exact A4]. eapply at_pre_adv; [|exact A3]. eapply at_pre_adv; [|exact A2].
      eapply at_pre_adv; [exact P|apply adv1_adv; exact A1]. }
    destruct (good_expr s n _ _ _ P4 E3) as [A5 S5]. apply adv1_adv in A5.
    pose proof (multiblanks0_adv _ _ _ E4) as A6. pose proof (end_of_statement_adv _ _ _ E5) as A7.
    split.
    - eapply adv1_adv_trans; [exact A1|].
      exact (adv_trans _ _ _ A2 (adv_trans _ _ _ A3 (adv_trans _ _ _ A4 (adv_trans _ _ _ A5 (adv_trans _ _ _ A6 A7))))).
    - cbn [stmt_ok]. repeat split; auto.
  Qed.

  Lemma statement_good : forall i st i', at_pre s i ->
      statement_p repaired (expr_p repaired n) i = Ok (st, i') -> adv1 i i' /\ stmt_ok s st.
  Proof.
    intros i st i' P H. unfold statement_p in H. dobind H. dobind H. inversion H; subst.
    pose proof (multiblanks0_adv _ _ _ E0) as A2.
    assert (X : adv1 i i0 /\ stmt_ok s st).
    { destruct (call_variant repaired (expr_p repaired n) i) as [[a j]| | |] eqn:C; try discriminate E.
      - inversion E; subst. eapply call_variant_good; eauto.
      - eapply nonterm_def_statement_good; eauto. }
    destruct X as [A1 S1]. split; auto. eapply adv1_adv_trans; eauto.
  Qed.

  Lemma many0_good : forall k i,
      at_pre s i ->
      match many0_p k (statement_p repaired (expr_p repaired n)) i with
      | Ok (l, i') => adv i i' /\ Forall (stmt_ok s) l
      | Err e => False
      | _ => True
      end.
  Proof.
    induction k; intros i P; cbn [many0_p]; auto.
    destruct (statement_p repaired (expr_p repaired n) i) as [[st i1]| | |] eqn:E; auto.
    - destruct (statement_good _ _ _ P E) as [A1 S1].
      pose proof (adv1_ilen _ _ A1) as L. unfold ilen in L.
      destruct (Nat.eqb _ _) eqn:Q; [apply Nat.eqb_eq in Q; lia|].
      specialize (IHk i1 (at_pre_adv _ _ _ P (adv1_adv _ _ A1))).
      destruct (many0_p k _ i1) as [[l i2]| | |]; auto.
      destruct IHk as [A2 S2]. split; [eapply adv_trans; [apply adv1_adv|]; eauto|constructor; auto].
    - split; [apply adv_refl|constructor].
  Qed.
End SoundStmt.

(** With the span reset repaired, for every input text: every span of an accepted grammar, and the
    span of the syntax error of a rejected one, is made of true nom_locate positions of the text. *)
Theorem parse_spans_sound : forall s g, parse_with repaired s = Ok g -> Forall (stmt_ok s) g.
Proof.
  intros s g H. unfold parse_with, grammar_p in H.
  rewrite multiblanks0_spec in H.
  pose proof (many0_good s (S (S (String.length s))) (S (S (String.length s))) (skip (start s))
                (at_pre_adv _ _ _ (at_pre_start s) (skip_adv _))) as X.
  destruct (many0_p _ _ (skip (start s))) as [[l i2]| | |]; try discriminate H; try contradiction.
  rewrite multiblanks0_spec in H. destruct X as [_ X].
  destruct (rest (skip i2)); [|discriminate]. inversion H; subst. exact X.
Qed.

(** the [ParseError] span is the position of a byte of the text: the first one that is not part of
    a statement (or of the blanks after the last one) *)
Theorem parse_error_sound : forall s sp, parse_with repaired s = Err sp ->
    exists pre rest, s = append pre rest /\ rest <> EmptyString
                     /\ sp = from_machine (mkin rest (adv_str pre pos0)).
Proof.
  intros s sp H. unfold parse_with, grammar_p in H.
  rewrite multiblanks0_spec in H.
  assert (P0 : at_pre s (skip (start s))) by (eapply at_pre_adv; [apply at_pre_start|apply skip_adv]).
  pose proof (many0_good s (S (S (String.length s))) (S (S (String.length s))) (skip (start s)) P0) as X.
  destruct (many0_p _ _ (skip (start s))) as [[l i2]|e| |]; try discriminate H; try contradiction.
  rewrite multiblanks0_spec in H. destruct X as [A _].
  assert (P2 : at_pre s (skip i2)) by (eapply at_pre_adv; [|apply skip_adv]; eapply at_pre_adv; eauto).
  destruct (skip i2) as [r q] eqn:Sk. cbn [rest] in H. destruct r as [|ch r]; [discriminate|]. inversion H; subst.
  destruct P2 as (pre & E & Q). cbn [rest at_] in *. exists pre, (String ch r). repeat split; auto; [discriminate|].
  rewrite Q. reflexivity.
Qed.
