(** Structural facts about validated trees that the C02 totality theorems need, as executable
    predicates; the statements about [Check.from_grammar] are proved in Proofs/CheckTree.v. *)
From CG Require Import Base.Prelude Model.Ast Model.Check Spec.Lang.

(** no [DistributiveDescription] node is left *)
Fixpoint dd_free (e : expr) : bool :=
  match e with
  | Terminal _ _ _ _ | NontermRef _ _ _ | Command _ _ _ _ => true
  | Sequence cs _ | Alternative cs _ | Fallback cs _ => forallb dd_free cs
  | Optional c _ | Many1 c _ | Subword c _ _ => dd_free c
  | DistDescr _ _ _ => false
  end.

(** no composite word inside a composite word *)
Fixpoint subword_free (e : expr) : bool :=
  match e with
  | Terminal _ _ _ _ | NontermRef _ _ _ | Command _ _ _ _ => true
  | Sequence cs _ | Alternative cs _ | Fallback cs _ => forallb subword_free cs
  | Optional c _ | Many1 c _ | DistDescr c _ _ => subword_free c
  | Subword _ _ _ => false
  end.

Fixpoint flat_subwords (e : expr) : bool :=
  match e with
  | Terminal _ _ _ _ | NontermRef _ _ _ | Command _ _ _ _ => true
  | Sequence cs _ | Alternative cs _ | Fallback cs _ => forallb flat_subwords cs
  | Optional c _ | Many1 c _ | DistDescr c _ _ => flat_subwords c
  | Subword c _ _ => subword_free c
  end.

(** every [|] and [||] has at least one operand (the parser only builds them with two or more) *)
Fixpoint alts_nonempty (e : expr) : bool :=
  match e with
  | Terminal _ _ _ _ | NontermRef _ _ _ | Command _ _ _ _ => true
  | Sequence cs _ => forallb alts_nonempty cs
  | Alternative cs _ | Fallback cs _ =>
      match cs with [] => false | _ => forallb alts_nonempty cs end
  | Optional c _ | Many1 c _ | DistDescr c _ _ | Subword c _ _ => alts_nonempty c
  end.

Definition grammar_alts_nonempty (g : grammar) : bool :=
  forallb (fun s => match s with
                    | CallVariant _ _ e => alts_nonempty e
                    | NontermDef _ _ _ rhs => alts_nonempty rhs
                    end) g.

(** What [Check.from_grammar] guarantees about the tree it returns. *)
Definition check_tree_statement : Prop :=
  forall builtins g sh v, from_grammar builtins g sh = Ok v ->
    dd_free (v_expr v) = true /\
    flat_subwords (v_expr v) = true /\
    levels_ok 0 (v_expr v) = true /\
    (grammar_alts_nonempty g = true -> alts_nonempty (v_expr v) = true).
