(** [den] (what an expression denotes) against the language of its translation [tr], and the two
    automaton instances ([re_nfa], [dfa_nfa]) against their languages. *)
From CG Require Import Base.Prelude Model.Ast Model.Dfa Spec.Lang Proofs.LangRe Proofs.LangNfa.

(** *** Iteration *)
Inductive plusP {A} (P : list A -> Prop) : list A -> Prop :=
| PP_one u : P u -> plusP P u
| PP_more u v : P u -> plusP P v -> plusP P (u ++ v).

Lemma plusP_iff : forall {A} (P Q : list A -> Prop),
  (forall w, P w <-> Q w) -> forall w, plusP P w <-> plusP Q w.
Proof.
  intros A P Q H w. split; intros D; induction D.
  - apply PP_one. apply H. assumption.
  - apply PP_more; [apply H|]; assumption.
  - apply PP_one. apply H. assumption.
  - apply PP_more; [apply H|]; assumption.
Qed.

(** *** Inversions of [den] *)
Section DenInv.
  Variable A : Type.
  Variable leaf : expr -> list A -> Prop.
  Notation den := (den A leaf).

  Lemma den_leaf_iff : forall e w, is_leaf e = true -> (den e w <-> leaf e w).
  Proof.
    intros e w H. split.
    - intros D. inversion D; subst; simpl in H; try discriminate. assumption.
    - intros L. apply D_leaf; assumption.
  Qed.

  Lemma den_seq_nil : forall sp w, den (Sequence [] sp) w <-> w = [].
  Proof.
    intros sp w. split.
    - intros D. inversion D; subst; try reflexivity. simpl in *. discriminate.
    - intros ->. apply D_seq_nil.
  Qed.

  Lemma den_seq_cons : forall c cs sp w,
    den (Sequence (c :: cs) sp) w <-> exists u v, w = u ++ v /\ den c u /\ den (Sequence cs sp) v.
  Proof.
    intros c cs sp w. split.
    - intros D. inversion D; subst; [simpl in *; discriminate|]. eauto.
    - intros [u [v [-> [D1 D2]]]]. apply D_seq_cons; assumption.
  Qed.

  Lemma den_alt : forall cs sp w, den (Alternative cs sp) w <-> exists c, In c cs /\ den c w.
  Proof.
    intros cs sp w. split.
    - intros D. inversion D; subst; [simpl in *; discriminate|]. eauto.
    - intros [c [Hin D]]. eapply D_alt; eauto.
  Qed.

  Lemma den_fb : forall cs sp w, den (Fallback cs sp) w <-> exists c, In c cs /\ den c w.
  Proof.
    intros cs sp w. split.
    - intros D. inversion D; subst; [simpl in *; discriminate|]. eauto.
    - intros [c [Hin D]]. eapply D_fb; eauto.
  Qed.

  Lemma den_opt : forall c sp w, den (Optional c sp) w <-> w = [] \/ den c w.
  Proof.
    intros c sp w. split.
    - intros D. inversion D; subst; [simpl in *; discriminate| |]; auto.
    - intros [->|D]; [apply D_opt_none|apply D_opt_some; assumption].
  Qed.

  Lemma den_many : forall c sp w, den (Many1 c sp) w <-> plusP (den c) w.
  Proof.
    intros c sp w. split.
    - intros D. remember (Many1 c sp) as e eqn:E. induction D; try discriminate.
      + subst. simpl in *. discriminate.
      + inversion E; subst. apply PP_one. assumption.
      + inversion E; subst. apply PP_more; auto.
    - intros D. induction D.
      + apply D_many_one. assumption.
      + apply D_many_more; assumption.
  Qed.

  Lemma den_dd : forall c d sp w, den (DistDescr c d sp) w -> False.
  Proof. intros c d sp w D. inversion D; subst. simpl in *. discriminate. Qed.
End DenInv.

(** *** The translation *)
Section DenTr.
  Variables A B : Type.
  Variable leaf : expr -> list A -> Prop.
  Variable trl : expr -> option (re B).
  Variable rel : B -> A -> Prop.

  (** the words related, letter by letter, to a word of [r] *)
  Definition img (r : re B) (w : list A) : Prop := exists v, Lre r v /\ Forall2 rel v w.

  Hypothesis leaf_ok : forall e r, is_leaf e = true -> trl e = Some r ->
    forall w, leaf e w <-> img r w.

  Lemma img_emp : forall w, img Emp w <-> False.
  Proof. intros w. split; [|tauto]. intros [v [H _]]. inversion H. Qed.

  Lemma img_eps : forall w, img Eps w <-> w = [].
  Proof.
    intros w. split.
    - intros [v [H F]]. inversion H; subst. inversion F. reflexivity.
    - intros ->. exists []. split; constructor.
  Qed.

  Lemma img_cat : forall r s w, img (Cat r s) w <-> exists u v, w = u ++ v /\ img r u /\ img s v.
  Proof.
    intros r s w. split.
    - intros [x [H F]]. apply Lre_cat_inv in H. destruct H as [u [v [-> [H1 H2]]]].
      apply Forall2_app_inv_l in F. destruct F as [u' [v' [F1 [F2 ->]]]].
      exists u', v'. split; [reflexivity|]. split; [exists u|exists v]; auto.
    - intros [u [v [-> [[x [H1 F1]] [z [H2 F2]]]]]]. exists (x ++ z). split.
      + constructor; assumption.
      + apply Forall2_app; assumption.
  Qed.

  Lemma img_alt : forall r s w, img (Alt r s) w <-> img r w \/ img s w.
  Proof.
    intros r s w. split.
    - intros [x [H F]]. apply Lre_alt_inv in H. destruct H; [left|right]; exists x; auto.
    - intros [[x [H F]]|[x [H F]]]; exists x; split; auto; [apply L_altl|apply L_altr]; auto.
  Qed.

  Lemma img_plus : forall r w, img (Plus r) w <-> plusP (img r) w.
  Proof.
    intros r w. split.
    - intros [x [H F]]. revert w F. remember (Plus r) as pr eqn:E.
      induction H; try discriminate; inversion E; subst; intros w F.
      + apply PP_one. exists u. auto.
      + apply Forall2_app_inv_l in F. destruct F as [u' [v' [F1 [F2 ->]]]].
        apply PP_more; [exists u; auto|]. apply IHLre2; auto.
    - intros D. induction D as [u [x [H F]]|u v [x [H F]] D [z [H2 F2]]].
      + exists x. split; auto. apply L_plus1. assumption.
      + exists (x ++ z). split; [apply L_plusS; assumption|apply Forall2_app; assumption].
  Qed.

  Fixpoint tr_seq (l : list expr) : option (re B) :=
    match l with
    | [] => Some Eps
    | c :: r => match tr B trl c, tr_seq r with
                | Some x, Some y => Some (Cat x y)
                | _, _ => None
                end
    end.

  Fixpoint tr_alt (l : list expr) : option (re B) :=
    match l with
    | [] => Some Emp
    | c :: r => match tr B trl c, tr_alt r with
                | Some x, Some y => Some (Alt x y)
                | _, _ => None
                end
    end.

  Lemma tr_sequence : forall cs sp, tr B trl (Sequence cs sp) = tr_seq cs.
  Proof.
    intros cs sp. induction cs as [|c cs IH]; [reflexivity|].
    simpl. simpl in IH. rewrite IH. reflexivity.
  Qed.

  Lemma tr_alternative : forall cs sp, tr B trl (Alternative cs sp) = tr_alt cs.
  Proof.
    intros cs sp. induction cs as [|c cs IH]; [reflexivity|].
    simpl. simpl in IH. rewrite IH. reflexivity.
  Qed.

  Lemma tr_fallback : forall cs sp, tr B trl (Fallback cs sp) = tr_alt cs.
  Proof.
    intros cs sp. induction cs as [|c cs IH]; [reflexivity|].
    simpl. simpl in IH. rewrite IH. reflexivity.
  Qed.

  Notation den := (den A leaf).
  Notation good e := (forall r, tr B trl e = Some r -> forall w, den e w <-> img r w).

  Lemma seq_good : forall cs sp, Forall (fun e => good e) cs ->
    forall r, tr_seq cs = Some r -> forall w, den (Sequence cs sp) w <-> img r w.
  Proof.
    intros cs sp HF. induction HF as [|c cs Hc HF IH]; simpl; intros r E w.
    - inversion E; subst. rewrite den_seq_nil, img_eps. tauto.
    - destruct (tr B trl c) as [x|] eqn:Ex; [|discriminate].
      destruct (tr_seq cs) as [y|] eqn:Ey; [|discriminate]. inversion E; subst.
      rewrite den_seq_cons, img_cat. split; intros [u [v [-> [H1 H2]]]]; exists u, v;
        (split; [reflexivity|]); split.
      + apply (Hc x eq_refl). assumption.
      + apply (IH y eq_refl). assumption.
      + apply (Hc x eq_refl). assumption.
      + apply (IH y eq_refl). assumption.
  Qed.

  Lemma alt_good : forall cs, Forall (fun e => good e) cs ->
    forall r, tr_alt cs = Some r -> forall w, (exists c, In c cs /\ den c w) <-> img r w.
  Proof.
    intros cs HF. induction HF as [|c cs Hc HF IH]; simpl; intros r E w.
    - inversion E; subst. rewrite img_emp. split; [intros [c [[] _]]|tauto].
    - destruct (tr B trl c) as [x|] eqn:Ex; [|discriminate].
      destruct (tr_alt cs) as [y|] eqn:Ey; [|discriminate]. inversion E; subst.
      rewrite img_alt. split.
      + intros [c' [[->|Hin] D]].
        * left. apply (Hc x eq_refl). assumption.
        * right. apply (IH y eq_refl). eauto.
      + intros [H|H].
        * exists c. split; auto. apply (Hc x eq_refl). assumption.
        * apply (IH y eq_refl) in H. destruct H as [c' [Hin D]]. exists c'. auto.
  Qed.

  Theorem tr_den : forall e, good e.
  Proof.
    induction e using expr_ind'; intros r E w.
    - simpl in E. rewrite den_leaf_iff by reflexivity. apply leaf_ok; auto.
    - simpl in E. rewrite den_leaf_iff by reflexivity. apply leaf_ok; auto.
    - simpl in E. rewrite den_leaf_iff by reflexivity. apply leaf_ok; auto.
    - rewrite tr_sequence in E. apply seq_good; assumption.
    - rewrite tr_alternative in E. rewrite den_alt. apply alt_good; assumption.
    - simpl in E. destruct (tr B trl e) as [x|] eqn:Ex; [|discriminate]. inversion E; subst.
      rewrite den_opt, img_alt, img_eps. rewrite (IHe x eq_refl). tauto.
    - simpl in E. destruct (tr B trl e) as [x|] eqn:Ex; [|discriminate]. inversion E; subst.
      rewrite den_many, img_plus. apply plusP_iff. apply (IHe x eq_refl).
    - simpl in E. inversion E; subst. rewrite img_emp. split; [apply den_dd|tauto].
    - rewrite tr_fallback in E. rewrite den_fb. apply alt_good; assumption.
    - simpl in E. rewrite den_leaf_iff by reflexivity. apply leaf_ok; auto.
  Qed.
End DenTr.

(** *** The automaton of a regular expression *)
Section ReNfa.
  Variable B : Type.
  Variable eqB : B -> B -> bool.
  Hypothesis eqB_spec : forall a b, eqB a b = true <-> a = b.

  Lemma re_nfa_acc : forall (r0 : re B) w (r : re B), nfa_acc (re_nfa eqB r0) r w <-> Lre r w.
  Proof.
    intros r0. induction w as [|b w IH]; intros r; simpl.
    - apply (nul_spec B).
    - rewrite (pd_spec B eqB eqB_spec). split; intros [s [Hin H]]; exists s; split; auto; apply IH; auto.
  Qed.

  Lemma re_nfa_lang : forall (r : re B) w, nfa_lang (re_nfa eqB r) w <-> Lre r w.
  Proof.
    intros r w. unfold nfa_lang. simpl. split.
    - intros [s [[<-|[]] H]]. apply (re_nfa_acc r). exact H.
    - intros H. exists r. split; [left; reflexivity|]. apply (re_nfa_acc r). exact H.
  Qed.

  Lemma re_nfa_eqb : forall (r : re B) s t, n_eqb (re_nfa eqB r) s t = true <-> s = t.
  Proof. intros r s t. simpl. apply (re_eqb_spec B eqB eqB_spec). Qed.
End ReNfa.

(** *** An automaton of [Model/Dfa.v] read over letters *)
Section DfaNfa.
  Variable B : Type.
  Variable eqB : B -> B -> bool.
  Hypothesis eqB_spec : forall a b, eqB a b = true <-> a = b.
  Variable d : dfa.
  Variable labs : list (option B).

  (** words over letters that label an accepted word of input ids *)
  Definition lab_accepts_from (s : N) (v : list B) : Prop :=
    exists ids, accepts_from d s ids = true /\
                Forall2 (fun i b => nthN labs i = Some (Some b)) ids v.

  Definition lab_accepts (v : list B) : Prop := lab_accepts_from (d_start d) v.

  Lemma ids_with_gen : forall (l : list (option B)) b i0 j,
    In j ((fix go (l : list (option B)) (i : N) : list N :=
             match l with
             | [] => []
             | Some c :: r => if eqB c b then i :: go r (N.succ i) else go r (N.succ i)
             | None :: r => go r (N.succ i)
             end) l i0)
    <-> exists k, nth_error l k = Some (Some b) /\ j = i0 + N.of_nat k.
  Proof.
    induction l as [|o l IH]; intros b i0 j.
    - simpl. split; [tauto|]. intros [k [H _]]. destruct k; discriminate.
    - assert (Hshift : (exists k, nth_error l k = Some (Some b) /\ j = N.succ i0 + N.of_nat k) <->
                       (exists k, nth_error (o :: l) (S k) = Some (Some b) /\ j = i0 + N.of_nat (S k))).
      { split; intros [k [H1 H2]]; exists k; split; auto; simpl in *; lia. }
      destruct o as [c|].
      + destruct (eqB c b) eqn:E.
        * simpl; try rewrite E; simpl. rewrite IH, Hshift. split.
          -- intros [H|[k [H1 H2]]].
             ++ exists O. simpl. apply eqB_spec in E. subst. split; [reflexivity|lia].
             ++ exists (S k). auto.
          -- intros [[|k] [H1 H2]].
             ++ left. simpl in H2. lia.
             ++ right. exists k. auto.
        * simpl; try rewrite E; simpl. rewrite IH, Hshift. split.
          -- intros [k [H1 H2]]. exists (S k). auto.
          -- intros [[|k] [H1 H2]].
             ++ simpl in H1. inversion H1; subst.
                assert (eqB b b = true) by (apply eqB_spec; reflexivity). congruence.
             ++ exists k. auto.
      + simpl. rewrite IH, Hshift. split.
        * intros [k [H1 H2]]. exists (S k). auto.
        * intros [[|k] [H1 H2]]; [discriminate|]. exists k. auto.
  Qed.

  Lemma ids_with_In : forall b i, In i (ids_with eqB labs b) <-> nthN labs i = Some (Some b).
  Proof.
    intros b i. unfold ids_with. rewrite ids_with_gen. unfold nthN. split.
    - intros [k [H1 H2]]. subst i. rewrite N.add_0_l, Nnat.Nat2N.id. exact H1.
    - intros H. exists (N.to_nat i). split; auto. rewrite N.add_0_l, Nnat.N2Nat.id. reflexivity.
  Qed.

  Lemma dfa_nfa_acc : forall w s, nfa_acc (dfa_nfa eqB d labs) s w <-> lab_accepts_from s w.
  Proof.
    induction w as [|b w IH]; intros s; simpl.
    - unfold lab_accepts_from. split.
      + intros H. exists []. split; [|constructor]. unfold accepts_from. simpl. exact H.
      + intros [ids [H F]]. inversion F; subst. unfold accepts_from in H. simpl in H. exact H.
    - split.
      + intros [t [Hin H]]. apply in_flat_map in Hin. destruct Hin as [i [Hi Ht]].
        apply ids_with_In in Hi. destruct (step d s i) as [t'|] eqn:Es; [|destruct Ht].
        destruct Ht as [<-|[]]. apply IH in H. destruct H as [ids [H F]].
        exists (i :: ids). split; [|constructor; assumption].
        unfold accepts_from in *. simpl. rewrite Es. exact H.
      + intros [ids [H F]]. inversion F as [|i b' ids' w' Hi F']; subst.
        unfold accepts_from in H. simpl in H. destruct (step d s i) as [t|] eqn:Es; [|discriminate].
        exists t. split.
        * apply in_flat_map. exists i. split; [apply ids_with_In; exact Hi|].
          rewrite Es. left. reflexivity.
        * apply IH. exists ids'. split; auto.
  Qed.

  Lemma dfa_nfa_lang : forall w, nfa_lang (dfa_nfa eqB d labs) w <-> lab_accepts w.
  Proof.
    intros w. unfold nfa_lang, lab_accepts. simpl. split.
    - intros [s [[<-|[]] H]]. apply dfa_nfa_acc. exact H.
    - intros H. exists (d_start d). split; [left; reflexivity|]. apply dfa_nfa_acc. exact H.
  Qed.

  Lemma dfa_nfa_eqb : forall s t, n_eqb (dfa_nfa eqB d labs) s t = true <-> s = t.
  Proof. intros s t. simpl. apply N.eqb_eq. Qed.

  Lemma lab_letters_In : forall i b, nthN labs i = Some (Some b) -> In b (lab_letters labs).
  Proof.
    intros i b H. unfold lab_letters. apply in_flat_map. exists (Some b). split; [|left; reflexivity].
    unfold nthN in H. eapply nth_error_In. exact H.
  Qed.

  Lemma lab_accepts_letters : forall v, lab_accepts v -> Forall (fun b => In b (lab_letters labs)) v.
  Proof.
    intros v [ids [_ F]]. induction F; constructor; auto. eapply lab_letters_In; eauto.
  Qed.
End DfaNfa.
