(** C08: verdicts of the model of [from_grammar] on the statement-level mistake classes of
    Spec/Mistakes.v, in the order in which the code checks them. *)
From CG Require Import Base.Prelude Model.Ast Model.Check Spec.Choice Spec.Mistakes.

Lemma call_names_variants g :
  call_names g = map (fun x => fst (fst x)) (call_variants g).
Proof.
  unfold call_names, call_variants.
  induction g as [|s g IH]; cbn; [reflexivity|].
  destruct s; cbn; rewrite IH; reflexivity.
Qed.

Lemma dedup_names_nil seen l :
  dedup_names seen l = [] <-> forallb (fun p => mem_str (fst p) seen) l = true.
Proof.
  revert seen; induction l as [|[n sp] l IH]; intro seen; cbn; [tauto|].
  destruct (mem_str n seen) eqn:E; cbn.
  - apply IH.
  - split; intro H; discriminate.
Qed.

Lemma mem_str_single n m : mem_str m [n] = String.eqb m n.
Proof. unfold mem_str. cbn. apply orb_false_r. Qed.

(** 1. no call variant at all *)
Theorem no_call_variant_rejected builtins g sh :
  no_call_variant g = true -> from_grammar builtins g sh = Err MissingCallVariants.
Proof.
  unfold no_call_variant, from_grammar. rewrite call_names_variants.
  destruct (call_variants g) as [|[[n sp] e] r]; cbn; [reflexivity|discriminate].
Qed.

(** 2. call variants for different command names *)
Theorem varying_names_rejected builtins g sh :
  varying_names g = true ->
  exists spans, from_grammar builtins g sh = Err (VaryingCommandNames spans).
Proof.
  unfold varying_names, from_grammar. rewrite call_names_variants.
  destruct (call_variants g) as [|[[n sp] e] r]; cbn; [discriminate|].
  intro H.
  destruct (dedup_names [n] (map (fun x => (fst (fst x), snd (fst x))) r)) as [|p more] eqn:D.
  - exfalso. apply dedup_names_nil in D.
    rewrite existsb_exists in H. destruct H as [m [Hin Hm]].
    apply in_map_iff in Hin. destruct Hin as [[[m' sp'] e'] [Hm' Hin]]. cbn in Hm'. subst m'.
    rewrite forallb_forall in D.
    specialize (D (m, sp')). rewrite mem_str_single in D. cbn [fst] in D.
    assert (Hin' : In (m, sp') (map (fun x => (fst (fst x), snd (fst x))) r)).
    { apply in_map_iff. exists (m, sp', e'). split; [reflexivity|exact Hin]. }
    apply D in Hin'. rewrite String.eqb_sym in Hin'. rewrite Hin' in Hm. discriminate.
  - eexists. reflexivity.
Qed.

Lemma not_varying_all_equal n r :
  existsb (fun m => negb (String.eqb n m)) r = false -> forall m, In m r -> m = n.
Proof.
  intros H m Hin. destruct (String.eqb n m) eqn:E.
  - apply String.eqb_eq in E. auto.
  - exfalso. assert (existsb (fun m => negb (String.eqb n m)) r = true).
    { apply existsb_exists. exists m. split; [exact Hin|]. rewrite E. reflexivity. }
    congruence.
Qed.

(** 3. a command name containing a slash (when the names do not vary) *)
Theorem slash_in_name_rejected builtins g sh :
  varying_names g = false -> slash_in_name g = true ->
  exists sp, from_grammar builtins g sh = Err (InvalidCommandName sp).
Proof.
  unfold varying_names, slash_in_name, from_grammar. rewrite call_names_variants.
  destruct (call_variants g) as [|[[n sp] e] r]; cbn; [discriminate|].
  intros Hv Hs.
  assert (Hd : dedup_names [n] (map (fun x => (fst (fst x), snd (fst x))) r) = []).
  { apply dedup_names_nil. apply forallb_forall. intros [m sp'] Hin. cbn [fst].
    rewrite mem_str_single. apply in_map_iff in Hin. destruct Hin as [[[m' sp''] e'] [Heq Hin]].
    cbn in Heq. inversion Heq; subst.
    rewrite (not_varying_all_equal _ _ Hv m); [apply String.eqb_refl|].
    apply in_map_iff. exists (m, sp', e'). split; [reflexivity|exact Hin]. }
  rewrite Hd.
  assert (Hc : contains_char slash n = true).
  { apply orb_true_iff in Hs. destruct Hs as [Hs|Hs]; [exact Hs|].
    apply existsb_exists in Hs. destruct Hs as [m [Hin Hm]].
    rewrite (not_varying_all_equal _ _ Hv m Hin) in Hm. exact Hm. }
  unfold slash in *. rewrite Hc. eexists. reflexivity.
Qed.

(** 4. two plain definitions of one nonterminal *)
Fixpoint plain_names_of (ds : list (string * span * option (string * span) * expr)) : list string :=
  match ds with
  | [] => []
  | (n, _, None, _) :: r => n :: plain_names_of r
  | _ :: r => plain_names_of r
  end.

Lemma plain_names_all_defs g : plain_names g = plain_names_of (all_defs g).
Proof.
  unfold plain_names, all_defs.
  induction g as [|s g IH]; cbn; [reflexivity|].
  destruct s as [n sp e|n sp [[shn shsp]|] rhs]; cbn; rewrite IH; reflexivity.
Qed.

Lemma find_name_none acc n :
  find (fun d => String.eqb (d_name d) n) acc = None <-> mem_str n (map d_name acc) = false.
Proof.
  induction acc as [|d acc IH]; cbn; [tauto|].
  rewrite (String.eqb_sym n (d_name d)).
  destruct (String.eqb (d_name d) n); cbn; [split; discriminate|exact IH].
Qed.

Lemma mem_str_In n l : mem_str n l = true <-> In n l.
Proof.
  unfold mem_str. rewrite existsb_exists. split.
  - intros [x [Hin Hx]]. apply String.eqb_eq in Hx. subst. exact Hin.
  - intro H. exists n. split; [exact H|apply String.eqb_refl].
Qed.

Lemma collect_plain_defs_dup ds : forall acc,
  (has_dup (plain_names_of ds) = true \/
   exists x, In x (plain_names_of ds) /\ In x (map d_name acc)) ->
  exists a b, collect_plain_defs ds acc = Err (DuplicateNonterminalDefinition a b).
Proof.
  induction ds as [|[[[n nsp] sh] rhs] r IH]; intros acc H.
  - cbn in H. destruct H as [H|[x [[] _]]]. discriminate.
  - cbn [collect_plain_defs]. destruct sh as [s|]; [apply IH; exact H|].
    cbn [plain_names_of has_dup] in H.
    destruct (find (fun d => String.eqb (d_name d) n) acc) as [dup|] eqn:F.
    + eexists; eexists; reflexivity.
    + apply find_name_none in F. apply IH.
      destruct H as [H|[x [Hx Hacc]]].
      * apply orb_true_iff in H. destruct H as [H|H]; [|left; exact H].
        right. exists n. split; [apply mem_str_In; exact H|].
        rewrite map_app. apply in_or_app. right. left. reflexivity.
      * destruct Hx as [Hx|Hx].
        -- subst x. apply mem_str_In in Hacc. congruence.
        -- right. exists x. split; [exact Hx|]. rewrite map_app. apply in_or_app. left. exact Hacc.
Qed.

Theorem duplicate_plain_rejected builtins g sh :
  no_call_variant g = false -> varying_names g = false -> slash_in_name g = false ->
  duplicate_plain g = true ->
  exists a b, from_grammar builtins g sh = Err (DuplicateNonterminalDefinition a b).
Proof.
  unfold no_call_variant, varying_names, slash_in_name, duplicate_plain, from_grammar.
  rewrite call_names_variants, plain_names_all_defs.
  destruct (call_variants g) as [|[[n sp] e] r]; cbn; [discriminate|].
  intros _ Hv Hs Hd.
  assert (Hdd : dedup_names [n] (map (fun x => (fst (fst x), snd (fst x))) r) = []).
  { apply dedup_names_nil. apply forallb_forall. intros [m sp'] Hin. cbn [fst].
    rewrite mem_str_single. apply in_map_iff in Hin. destruct Hin as [[[m' sp''] e'] [Heq Hin]].
    cbn in Heq. inversion Heq; subst.
    rewrite (not_varying_all_equal _ _ Hv m); [apply String.eqb_refl|].
    apply in_map_iff. exists (m, sp', e'). split; [reflexivity|exact Hin]. }
  rewrite Hdd.
  apply orb_false_iff in Hs. destruct Hs as [Hs _]. unfold slash. rewrite Hs.
  destruct (collect_plain_defs_dup (all_defs g) []) as [a [b Hc]].
  { left. exact Hd. }
  rewrite Hc. cbn. eexists; eexists; reflexivity.
Qed.
