(** [Spec.TwoReadings]: the lines on which the judgement of C01 is withheld ([ambiguous_run]: two
    different non-literal items accept a word) are among the lines that meet two readings. *)
From CG Require Import Base.Prelude Model.Ast Spec.Rx Spec.Meaning Spec.TwoReadings.

Lemma lit_next_nil w mv : lit_next w mv = [] ->
  forall t d l k, In (LLit t d l, k) mv -> String.eqb t w = false.
Proof.
  unfold lit_next. induction mv as [|[a k'] mv IH]; cbn [flat_map]; intros H t d l k Hin; [destruct Hin|].
  apply app_eq_nil in H. destruct H as [H1 H2]. destruct Hin as [E|Hin].
  - inversion E; subst. cbn [fst snd] in H1. destruct (String.eqb t w); [discriminate|reflexivity].
  - exact (IH H2 _ _ _ _ Hin).
Qed.

Lemma ambiguous_two_step en s w : ambiguous_step en s w = true -> two_step en s w = true.
Proof.
  unfold ambiguous_step, two_step. destruct (lit_next w (moves s)) eqn:E; [|discriminate].
  assert (F : filter (fun ak => reads_word en (fst ak) w) (moves s)
              = filter (fun ak => mid_accepts en (fst ak) w) (moves s)).
  { apply filter_ext_in. intros [a k] Hin. cbn [fst]. destruct a; try reflexivity.
    cbn [reads_word mid_accepts]. exact (lit_next_nil _ _ E _ _ _ _ Hin). }
  unfold readers. rewrite F.
  destruct (dedup_leaf (map fst (filter (fun ak => mid_accepts en (fst ak) w) (moves s)))) as [|x [|y r]];
    intro H; try discriminate. reflexivity.
Qed.

Theorem ambiguous_run_two_readings en : forall ws s,
  ambiguous_run en s ws = true -> two_readings en s ws = true.
Proof.
  induction ws as [|w r IH]; intros s H; cbn [ambiguous_run two_readings] in *; [discriminate|].
  apply orb_true_iff in H. destruct H as [H|H].
  - rewrite (ambiguous_two_step en s w H). reflexivity.
  - rewrite (IH _ H). apply orb_true_r.
Qed.
