(** L-glushkov: Berry-Sethi for the tables [nullable] / [firstpos] / [lastpos] / [followpos] of
    Model/Regex.v.

    Architecture:
    - membership lemmas for [pins] / [punion] / [pprod];
    - an abstract layer on tables [(n, F, E, L)] (nullable flag, first set, edge list, last set)
      with three composition lemmas ([cat_local], [or_local], [plus_local]) that never mention
      trees;
    - unfolding lemmas that give the n-ary tree functions a binary view
      ([XCat (x :: xs)] = [x] followed by [XCat xs]; [XCat [c; XStar c]] = [c]+);
    - [local_shape]: for the trees the builder produces, [Lrx t w <-> Local t w];
    - [glushkov_root]: the statement of RxLang.v for the root with its end marker. *)
From CG Require Import Base.Prelude Model.Ast Model.Regex Proofs.RxLang.

(** * Position sets *)

Lemma in_pins x y l : In x (pins y l) <-> x = y \/ In x l.
Proof.
  induction l as [|a l IH]; cbn [pins].
  - simpl. intuition congruence.
  - destruct (N.ltb y a).
    + simpl. intuition congruence.
    + destruct (N.eqb_spec y a).
      * subst. simpl. intuition congruence.
      * simpl. rewrite IH. intuition congruence.
Qed.

Lemma in_punion x a b : In x (punion a b) <-> In x a \/ In x b.
Proof.
  unfold punion. induction b as [|y b IH]; simpl.
  - tauto.
  - rewrite in_pins, IH. intuition congruence.
Qed.

Lemma in_pprod x y xs ys : In (x, y) (pprod xs ys) <-> In x xs /\ In y ys.
Proof.
  unfold pprod. rewrite in_flat_map. split.
  - intros [x' [Hx Hy]]. apply in_map_iff in Hy. destruct Hy as [y' [E Hy]].
    inversion E; subst. auto.
  - intros [Hx Hy]. exists x. split; auto. apply in_map_iff. exists y. auto.
Qed.

Lemma pair_dec (p q : N * N) : {p = q} + {p <> q}.
Proof. decide equality; apply N.eq_dec. Qed.

(** * Induction on trees *)

Section RxInd.
  Variable P : rx -> Prop.
  Hypothesis Heps : P XEps.
  Hypothesis Hpos : forall k p, P (XPos k p).
  Hypothesis Hcat : forall cs, Forall P cs -> P (XCat cs).
  Hypothesis Hor : forall cs, Forall P cs -> P (XOr cs).
  Hypothesis Hstar : forall c, P c -> P (XStar c).

  Fixpoint rx_ind' (t : rx) : P t :=
    let fix go (l : list rx) : Forall P l :=
      match l with
      | [] => Forall_nil P
      | x :: r => Forall_cons x (rx_ind' x) (go r)
      end in
    match t with
    | XEps => Heps
    | XPos k p => Hpos k p
    | XCat cs => Hcat cs (go cs)
    | XOr cs => Hor cs (go cs)
    | XStar c => Hstar c (rx_ind' c)
    end.
End RxInd.

(** * Paths and the local description, on abstract tables *)

(** [path E a w b]: the word [a :: w] is a chain of [E]-edges ending in [b]. *)
Inductive path (E : list (N * N)) : N -> list N -> N -> Prop :=
| P_nil a : path E a [] a
| P_cons a c w b : In (a, c) E -> path E c w b -> path E a (c :: w) b.

Definition LocalT (n : bool) (F : list N) (E : list (N * N)) (L : list N) (w : list N) : Prop :=
  match w with
  | [] => n = true
  | a :: r => In a F /\ exists b, path E a r b /\ In b L
  end.

Lemma path_mono E G a w b :
  (forall x y, In (x, y) E -> In (x, y) G) -> path E a w b -> path G a w b.
Proof. intros H P. induction P; constructor; auto. Qed.

Lemma path_app E a u m c v b :
  path E a u m -> In (m, c) E -> path E c v b -> path E a (u ++ c :: v) b.
Proof. intros P. induction P; intros; simpl; econstructor; eauto. Qed.

Lemma path_restrict (A : N -> Prop) E G x w e :
  (forall u v, A u -> In (u, v) E -> In (u, v) G /\ A v) ->
  A x -> path E x w e -> path G x w e /\ A e.
Proof.
  intros H Hx P. induction P as [a|a c w b Hac P IH].
  - split; [constructor|auto].
  - destruct (H _ _ Hx Hac) as [HG Hc]. destruct (IH Hc). split; [econstructor; eauto|auto].
Qed.

(** ** Concatenation *)

Section Cat.
  Variables A B : list N -> Prop.
  Variables PA PB : list N.
  Variables nA nB n : bool.
  Variables FA FB F LA LB L : list N.
  Variables EA EB E : list (N * N).
  Hypothesis D : disjoint PA PB.
  Hypothesis FA_P : forall x, In x FA -> In x PA.
  Hypothesis LA_P : forall x, In x LA -> In x PA.
  Hypothesis EA_P : forall x y, In (x, y) EA -> In x PA /\ In y PA.
  Hypothesis FB_P : forall x, In x FB -> In x PB.
  Hypothesis LB_P : forall x, In x LB -> In x PB.
  Hypothesis EB_P : forall x y, In (x, y) EB -> In x PB /\ In y PB.
  Hypothesis HA : forall w, A w <-> LocalT nA FA EA LA w.
  Hypothesis HB : forall w, B w <-> LocalT nB FB EB LB w.
  Hypothesis Hn : n = nA && nB.
  Hypothesis HF : forall x, In x F <-> In x FA \/ (nA = true /\ In x FB).
  Hypothesis HL : forall x, In x L <-> In x LB \/ (nB = true /\ In x LA).
  Hypothesis HE : forall x y,
      In (x, y) E <-> In (x, y) EA \/ In (x, y) EB \/ (In x LA /\ In y FB).

  Lemma cat_side_b u v : In u PB -> In (u, v) E -> In (u, v) EB /\ In v PB.
  Proof.
    intros Hu Huv. apply HE in Huv. destruct Huv as [H|[H|[H _]]].
    - destruct (EA_P _ _ H) as [Ha _]. exfalso. exact (D u Ha Hu).
    - split; [exact H|]. exact (proj2 (EB_P _ _ H)).
    - apply LA_P in H. exfalso. exact (D u H Hu).
  Qed.

  Lemma cat_split x w e :
    In x PA -> path E x w e ->
    (path EA x w e /\ In e PA) \/
    exists w1 m c w2, w = w1 ++ c :: w2 /\ path EA x w1 m /\ In m LA /\
                      In c FB /\ path EB c w2 e /\ In e PB.
  Proof.
    intros Hx P. induction P as [x|x c w e He P IH].
    - left. split; [constructor|auto].
    - apply HE in He. destruct He as [He|[He|[Hm Hc]]].
      + destruct (EA_P _ _ He) as [_ Hc].
        destruct (IH Hc) as [[P' Q]|(w1 & m & c' & w2 & E0 & P1 & Hm & Hc' & P2 & Q)].
        * left. split; [econstructor; eauto|auto].
        * right. exists (c :: w1), m, c', w2. subst. repeat split; auto. econstructor; eauto.
      + destruct (EB_P _ _ He) as [Hxb _]. exfalso. eapply D; eauto.
      + right. exists [], x, c, w.
        destruct (path_restrict (fun u => In u PB) E EB c w e cat_side_b (FB_P _ Hc) P)
          as [P' Q].
        simpl. repeat split; auto. constructor.
  Qed.

  Lemma cat_local w : (exists u v, w = u ++ v /\ A u /\ B v) <-> LocalT n F E L w.
  Proof.
    split.
    - intros (u & v & Ew & Hu & Hv). subst w. apply HA in Hu. apply HB in Hv.
      destruct u as [|x u]; destruct v as [|c v].
      + simpl in *. rewrite Hn, Hu, Hv. reflexivity.
      + simpl in *. destruct Hv as [Hc (b & P & Hb)]. split.
        * apply HF. auto.
        * exists b. split.
          -- eapply path_mono; [|exact P]. intros; apply HE; auto.
          -- apply HL; auto.
      + rewrite app_nil_r. simpl in *. destruct Hu as [Hx (m & P & Hm)]. split.
        * apply HF; auto.
        * exists m. split.
          -- eapply path_mono; [|exact P]. intros; apply HE; auto.
          -- apply HL; auto.
      + simpl in *. destruct Hu as [Hx (m & P & Hm)]. destruct Hv as [Hc (b & Q & Hb)]. split.
        * apply HF; auto.
        * exists b. split.
          -- eapply path_app.
             ++ eapply path_mono; [|exact P]. intros; apply HE; auto.
             ++ apply HE. auto.
             ++ eapply path_mono; [|exact Q]. intros; apply HE; auto.
          -- apply HL; auto.
    - destruct w as [|x w]; simpl.
      + intros H. rewrite Hn in H. apply andb_true_iff in H. destruct H as [Ha Hb].
        exists [], []. split; [reflexivity|]. split; [apply HA|apply HB]; simpl; auto.
      + intros [Hx (e & P & He)]. apply HF in Hx. destruct Hx as [Hx|[Na Hx]].
        * destruct (cat_split _ _ _ (FA_P _ Hx) P)
            as [[P' Q]|(w1 & m & c & w2 & E0 & P1 & Hm & Hc & P2 & Q)].
          -- apply HL in He. destruct He as [He|[Nb He]].
             { apply LB_P in He. exfalso. eapply D; eauto. }
             exists (x :: w), []. rewrite app_nil_r. split; [reflexivity|].
             split; [apply HA|apply HB]; simpl; auto. split; auto. exists e. auto.
          -- subst w. exists (x :: w1), (c :: w2). split; [reflexivity|].
             split; [apply HA|apply HB]; simpl.
             ++ split; auto. exists m. auto.
             ++ split; auto. exists e. split; auto.
                apply HL in He. destruct He as [He|[Nb He]]; auto.
                apply LA_P in He. exfalso. eapply D; eauto.
        * destruct (path_restrict (fun u => In u PB) E EB x w e cat_side_b (FB_P _ Hx) P)
            as [P' Q].
          exists [], (x :: w). split; [reflexivity|].
          split; [apply HA|apply HB]; simpl; auto.
          split; auto. exists e. split; auto.
          apply HL in He. destruct He as [He|[Nb He]]; auto.
          apply LA_P in He. exfalso. eapply D; eauto.
  Qed.
End Cat.

(** ** Alternative *)

Section Or.
  Variables A B : list N -> Prop.
  Variables PA PB : list N.
  Variables nA nB n : bool.
  Variables FA FB F LA LB L : list N.
  Variables EA EB E : list (N * N).
  Hypothesis D : disjoint PA PB.
  Hypothesis FA_P : forall x, In x FA -> In x PA.
  Hypothesis LA_P : forall x, In x LA -> In x PA.
  Hypothesis EA_P : forall x y, In (x, y) EA -> In x PA /\ In y PA.
  Hypothesis FB_P : forall x, In x FB -> In x PB.
  Hypothesis LB_P : forall x, In x LB -> In x PB.
  Hypothesis EB_P : forall x y, In (x, y) EB -> In x PB /\ In y PB.
  Hypothesis HA : forall w, A w <-> LocalT nA FA EA LA w.
  Hypothesis HB : forall w, B w <-> LocalT nB FB EB LB w.
  Hypothesis Hn : n = nA || nB.
  Hypothesis HF : forall x, In x F <-> In x FA \/ In x FB.
  Hypothesis HL : forall x, In x L <-> In x LA \/ In x LB.
  Hypothesis HE : forall x y, In (x, y) E <-> In (x, y) EA \/ In (x, y) EB.

  Lemma or_side_a u v : In u PA -> In (u, v) E -> In (u, v) EA /\ In v PA.
  Proof.
    intros Hu Huv. apply HE in Huv. destruct Huv as [H|H].
    - split; [exact H|]. exact (proj2 (EA_P _ _ H)).
    - destruct (EB_P _ _ H) as [Hb _]. exfalso. exact (D u Hu Hb).
  Qed.

  Lemma or_side_b u v : In u PB -> In (u, v) E -> In (u, v) EB /\ In v PB.
  Proof.
    intros Hu Huv. apply HE in Huv. destruct Huv as [H|H].
    - destruct (EA_P _ _ H) as [Ha _]. exfalso. exact (D u Ha Hu).
    - split; [exact H|]. exact (proj2 (EB_P _ _ H)).
  Qed.

  Lemma or_local w : (A w \/ B w) <-> LocalT n F E L w.
  Proof.
    split.
    - intros [H|H]; [apply HA in H|apply HB in H]; destruct w as [|x w]; simpl in *.
      + rewrite Hn, H. reflexivity.
      + destruct H as [Hx (e & P & He)]. split; [apply HF; auto|].
        exists e. split; [|apply HL; auto].
        eapply path_mono; [|exact P]. intros; apply HE; auto.
      + rewrite Hn, H. apply orb_true_r.
      + destruct H as [Hx (e & P & He)]. split; [apply HF; auto|].
        exists e. split; [|apply HL; auto].
        eapply path_mono; [|exact P]. intros; apply HE; auto.
    - destruct w as [|x w]; simpl.
      + intros H. rewrite Hn in H. apply orb_true_iff in H.
        destruct H; [left; apply HA|right; apply HB]; simpl; auto.
      + intros [Hx (e & P & He)]. apply HF in Hx. destruct Hx as [Hx|Hx].
        * destruct (path_restrict (fun u => In u PA) E EA x w e or_side_a (FA_P _ Hx) P)
            as [P' Q].
          left. apply HA. simpl. split; auto. exists e. split; auto.
          apply HL in He. destruct He as [He|He]; auto.
          apply LB_P in He. exfalso. eapply D; eauto.
        * destruct (path_restrict (fun u => In u PB) E EB x w e or_side_b (FB_P _ Hx) P)
            as [P' Q].
          right. apply HB. simpl. split; auto. exists e. split; auto.
          apply HL in He. destruct He as [He|He]; auto.
          apply LA_P in He. exfalso. eapply D; eauto.
  Qed.
End Or.

(** ** Iteration (one or more) *)

Inductive plus (A : list N -> Prop) : list N -> Prop :=
| plus_one u : A u -> plus A u
| plus_more u v : A u -> plus A v -> plus A (u ++ v).

Section Plus.
  Variable A : list N -> Prop.
  Variable nA : bool.
  Variables FA LA : list N.
  Variables EA E : list (N * N).
  Hypothesis HA : forall w, A w <-> LocalT nA FA EA LA w.
  Hypothesis HE : forall x y, In (x, y) E <-> In (x, y) EA \/ (In x LA /\ In y FA).

  Lemma plus_split x w e :
    path E x w e ->
    path EA x w e \/
    exists w1 m c w2, w = w1 ++ c :: w2 /\ path EA x w1 m /\ In m LA /\
                      In c FA /\ path E c w2 e.
  Proof.
    intros P. induction P as [x|x c w e He P IH].
    - left. constructor.
    - destruct (in_dec pair_dec (x, c) EA) as [Hin|Hnin].
      + destruct IH as [P'|(w1 & m & c' & w2 & E0 & P1 & Hm & Hc' & P2)].
        * left. econstructor; eauto.
        * right. exists (c :: w1), m, c', w2. subst. repeat split; auto. econstructor; eauto.
      + apply HE in He. destruct He as [He|[Hm Hc]]; [contradiction|].
        right. exists [], x, c, w. simpl. repeat split; auto. constructor.
  Qed.

  Lemma plus_sound w : plus A w -> LocalT nA FA E LA w.
  Proof.
    intros H. induction H as [u Hu|u v Hu Hv IH].
    - apply HA in Hu. destruct u as [|x u]; simpl in *; auto.
      destruct Hu as [Hx (e & P & He)]. split; auto. exists e. split; auto.
      eapply path_mono; [|exact P]. intros; apply HE; auto.
    - apply HA in Hu. destruct u as [|x u]; [exact IH|].
      simpl in Hu. destruct Hu as [Hx (m & P & Hm)].
      destruct v as [|c v].
      + rewrite app_nil_r. simpl. split; auto. exists m. split; auto.
        eapply path_mono; [|exact P]. intros; apply HE; auto.
      + simpl in IH. destruct IH as [Hc (e & Q & He)]. simpl. split; auto.
        exists e. split; auto. eapply path_app.
        * eapply path_mono; [|exact P]. intros; apply HE; auto.
        * apply HE. auto.
        * exact Q.
  Qed.

  Lemma plus_complete w : LocalT nA FA E LA w -> plus A w.
  Proof.
    destruct w as [|x w]; simpl.
    - intros H. apply plus_one. apply HA. exact H.
    - intros [Hx (e & P & He)].
      remember (List.length w) as k eqn:Hk. revert x w Hx P Hk.
      induction k as [k IHk] using lt_wf_ind. intros x w Hx P Hk.
      destruct (plus_split _ _ _ P) as [P'|(w1 & m & c & w2 & E0 & P1 & Hm & Hc & P2)].
      + apply plus_one. apply HA. simpl. split; auto. exists e. auto.
      + subst w. change (x :: w1 ++ c :: w2) with ((x :: w1) ++ (c :: w2)). apply plus_more.
        * apply HA. simpl. split; auto. exists m. auto.
        * apply (IHk (List.length w2)); auto. subst k. rewrite app_length. simpl. lia.
  Qed.

  Lemma plus_local w : plus A w <-> LocalT nA FA E LA w.
  Proof. split; [apply plus_sound|apply plus_complete]. Qed.
End Plus.

(** * The binary view of the n-ary tree functions *)

Lemma nullable_cat_cons x xs : nullable (XCat (x :: xs)) = nullable x && nullable (XCat xs).
Proof. reflexivity. Qed.

Lemma firstpos_cat_cons_eq x xs :
  firstpos (XCat (x :: xs)) =
  if nullable x then punion (firstpos x) (firstpos (XCat xs)) else firstpos x.
Proof. reflexivity. Qed.

Lemma lastpos_cat_cons_eq x xs :
  lastpos (XCat (x :: xs)) =
  if nullable (XCat xs) then punion (lastpos x) (lastpos (XCat xs)) else lastpos (XCat xs).
Proof. reflexivity. Qed.

Lemma followpos_cat_cons_eq x xs :
  followpos (XCat (x :: xs)) =
  (followpos x ++ flat_map followpos xs) ++ (pprod (lastpos x) (cat_heads xs) ++ cat_pairs xs).
Proof. reflexivity. Qed.

Lemma followpos_cat_eq xs : followpos (XCat xs) = flat_map followpos xs ++ cat_pairs xs.
Proof. reflexivity. Qed.

Lemma cat_heads_first xs : cat_heads xs = firstpos (XCat xs).
Proof.
  induction xs as [|a xs IH]; [reflexivity|].
  rewrite firstpos_cat_cons_eq. cbn [cat_heads]. rewrite IH. reflexivity.
Qed.

Lemma firstpos_cat_cons p x xs :
  In p (firstpos (XCat (x :: xs))) <->
  In p (firstpos x) \/ (nullable x = true /\ In p (firstpos (XCat xs))).
Proof.
  rewrite firstpos_cat_cons_eq. destruct (nullable x).
  - rewrite in_punion. intuition.
  - intuition discriminate.
Qed.

Lemma lastpos_cat_cons p x xs :
  In p (lastpos (XCat (x :: xs))) <->
  In p (lastpos (XCat xs)) \/ (nullable (XCat xs) = true /\ In p (lastpos x)).
Proof.
  rewrite lastpos_cat_cons_eq. destruct (nullable (XCat xs)).
  - rewrite in_punion. intuition.
  - intuition discriminate.
Qed.

Lemma followpos_cat_cons p x xs :
  In p (followpos (XCat (x :: xs))) <->
  In p (followpos x) \/ In p (followpos (XCat xs)) \/
  In p (pprod (lastpos x) (firstpos (XCat xs))).
Proof.
  rewrite followpos_cat_cons_eq, followpos_cat_eq, cat_heads_first, !in_app_iff. tauto.
Qed.

Lemma positions_cat_cons x xs : positions (XCat (x :: xs)) = positions x ++ positions (XCat xs).
Proof. reflexivity. Qed.

Lemma nullable_or_cons x xs : nullable (XOr (x :: xs)) = nullable x || nullable (XOr xs).
Proof. reflexivity. Qed.

Lemma firstpos_or_cons p x xs :
  In p (firstpos (XOr (x :: xs))) <-> In p (firstpos x) \/ In p (firstpos (XOr xs)).
Proof.
  change (firstpos (XOr (x :: xs))) with (punion (firstpos x) (firstpos (XOr xs))).
  apply in_punion.
Qed.

Lemma lastpos_or_cons p x xs :
  In p (lastpos (XOr (x :: xs))) <-> In p (lastpos x) \/ In p (lastpos (XOr xs)).
Proof.
  change (lastpos (XOr (x :: xs))) with (punion (lastpos x) (lastpos (XOr xs))).
  apply in_punion.
Qed.

Lemma followpos_or_cons p x xs :
  In p (followpos (XOr (x :: xs))) <-> In p (followpos x) \/ In p (followpos (XOr xs)).
Proof.
  change (followpos (XOr (x :: xs))) with (followpos x ++ followpos (XOr xs)).
  apply in_app_iff.
Qed.

Lemma positions_or_cons x xs : positions (XOr (x :: xs)) = positions x ++ positions (XOr xs).
Proof. reflexivity. Qed.

(** * The tables stay inside the positions of the tree *)

Lemma first_pos t : forall x, In x (firstpos t) -> In x (positions t).
Proof.
  induction t as [|k p|cs IH|cs IH|c IH] using rx_ind'; try (simpl; tauto).
  - induction IH as [|c cs Hc _ IHcs]; [simpl; tauto|].
    intros x H. apply firstpos_cat_cons in H. rewrite positions_cat_cons, in_app_iff.
    destruct H as [H|[_ H]]; auto.
  - induction IH as [|c cs Hc _ IHcs]; [simpl; tauto|].
    intros x H. apply firstpos_or_cons in H. rewrite positions_or_cons, in_app_iff.
    destruct H as [H|H]; auto.
Qed.

Lemma last_pos t : forall x, In x (lastpos t) -> In x (positions t).
Proof.
  induction t as [|k p|cs IH|cs IH|c IH] using rx_ind'; try (simpl; tauto).
  - induction IH as [|c cs Hc _ IHcs]; [simpl; tauto|].
    intros x H. apply lastpos_cat_cons in H. rewrite positions_cat_cons, in_app_iff.
    destruct H as [H|[_ H]]; auto.
  - induction IH as [|c cs Hc _ IHcs]; [simpl; tauto|].
    intros x H. apply lastpos_or_cons in H. rewrite positions_or_cons, in_app_iff.
    destruct H as [H|H]; auto.
Qed.

Lemma follow_pos t : forall x y, In (x, y) (followpos t) -> In x (positions t) /\ In y (positions t).
Proof.
  induction t as [|k p|cs IH|cs IH|c IH] using rx_ind'; try (simpl; tauto).
  - induction IH as [|c cs Hc _ IHcs]; [simpl; tauto|].
    intros x y H. apply followpos_cat_cons in H. rewrite positions_cat_cons, !in_app_iff.
    destruct H as [H|[H|H]].
    + apply Hc in H. tauto.
    + apply IHcs in H. tauto.
    + apply in_pprod in H. destruct H as [Hx Hy].
      apply last_pos in Hx. apply first_pos in Hy. tauto.
  - induction IH as [|c cs Hc _ IHcs]; [simpl; tauto|].
    intros x y H. apply followpos_or_cons in H. rewrite positions_or_cons, !in_app_iff.
    destruct H as [H|H].
    + apply Hc in H. tauto.
    + apply IHcs in H. tauto.
  - intros x y H. cbn [followpos] in H. apply in_pprod in H. destruct H as [Hx Hy].
    apply last_pos in Hx. apply first_pos in Hy. cbn [positions]. tauto.
Qed.

(** * The language of the n-ary constructors, binary view *)

Lemma Lrx_cat_nil w : Lrx (XCat []) w <-> w = [].
Proof. split; intros H; [inversion H; reflexivity|subst; constructor]. Qed.

Lemma Lrx_cat_cons c cs w :
  Lrx (XCat (c :: cs)) w <-> exists u v, w = u ++ v /\ Lrx c u /\ Lrx (XCat cs) v.
Proof.
  split.
  - intros H. inversion H; subst. eauto.
  - intros (u & v & E & Hu & Hv). subst. constructor; auto.
Qed.

Lemma Lrx_or_nil w : ~ Lrx (XOr []) w.
Proof. intros H. inversion H; subst. simpl in *. contradiction. Qed.

Lemma Lrx_or_cons c cs w : Lrx (XOr (c :: cs)) w <-> Lrx c w \/ Lrx (XOr cs) w.
Proof.
  split.
  - intros H. inversion H; subst. simpl in *. destruct H1 as [E|Hin].
    + subst. auto.
    + right. econstructor; eauto.
  - intros [H|H].
    + econstructor; [left; reflexivity|exact H].
    + inversion H; subst. econstructor; [right; eassumption|assumption].
Qed.

Lemma Lrx_cat_star c w :
  Lrx (XCat [c; XStar c]) w <-> exists u s, w = u ++ s /\ Lrx c u /\ Lrx (XStar c) s.
Proof.
  rewrite Lrx_cat_cons. split.
  - intros (u & v & E & Hu & Hv). apply Lrx_cat_cons in Hv.
    destruct Hv as (s & z & E' & Hs & Hz). apply Lrx_cat_nil in Hz. subst.
    rewrite app_nil_r. eauto.
  - intros (u & s & E & Hu & Hs). exists u, s. repeat split; auto.
    rewrite <- (app_nil_r s). constructor; auto. constructor.
Qed.

Lemma star_plus c s : Lrx (XStar c) s -> forall u, Lrx c u -> plus (Lrx c) (u ++ s).
Proof.
  intros H. remember (XStar c) as t eqn:Et. induction H; inversion Et; subst.
  - intros u Hu. rewrite app_nil_r. apply plus_one. exact Hu.
  - intros u' Hu'. apply plus_more; auto.
Qed.

Lemma Lrx_many c w : Lrx (XCat [c; XStar c]) w <-> plus (Lrx c) w.
Proof.
  rewrite Lrx_cat_star. split.
  - intros (u & s & E & Hu & Hs). subst. apply star_plus; auto.
  - intros H. induction H as [u Hu|u v Hu Hv IH].
    + exists u, []. rewrite app_nil_r. repeat split; auto. constructor.
    + destruct IH as (v1 & s & E & Hv1 & Hs). subst.
      exists u, (v1 ++ s). repeat split; auto. constructor; auto.
Qed.

(** The tables of [XCat [c; XStar c]] are those of a primitive [c]+. *)

Lemma nullable_many c : nullable (XCat [c; XStar c]) = nullable c.
Proof. cbn [nullable forallb]. rewrite !andb_true_r. reflexivity. Qed.

Lemma firstpos_many c p : In p (firstpos (XCat [c; XStar c])) <-> In p (firstpos c).
Proof.
  rewrite !firstpos_cat_cons. cbn [firstpos In]. intuition.
Qed.

Lemma lastpos_many c p : In p (lastpos (XCat [c; XStar c])) <-> In p (lastpos c).
Proof.
  rewrite !lastpos_cat_cons. cbn [lastpos nullable forallb andb In]. intuition.
Qed.

Lemma followpos_many c x y :
  In (x, y) (followpos (XCat [c; XStar c])) <->
  In (x, y) (followpos c) \/ (In x (lastpos c) /\ In y (firstpos c)).
Proof.
  rewrite !followpos_cat_cons. cbn [followpos flat_map cat_pairs app].
  rewrite !in_pprod, !firstpos_cat_cons. cbn [firstpos lastpos In]. intuition.
Qed.

(** * Berry-Sethi for the builder's trees *)

Definition Local (t : rx) : list N -> Prop :=
  LocalT (nullable t) (firstpos t) (followpos t) (lastpos t).

Lemma disjoint_flat x (l : list rx) :
  Forall (disjoint x) (map positions l) -> disjoint x (flat_map positions l).
Proof.
  induction l as [|c l IH]; simpl; intros H.
  - intros y _ [].
  - inversion H; subst. intros y Hx Hy. apply in_app_iff in Hy. destruct Hy as [Hy|Hy].
    + eapply H2; eauto.
    + eapply IH; eauto.
Qed.

Lemma local_eps w : Lrx XEps w <-> Local XEps w.
Proof.
  unfold Local. destruct w as [|a r]; simpl; split; intros H.
  - reflexivity.
  - constructor.
  - inversion H.
  - tauto.
Qed.

Lemma local_pos k p w : k <> KEnd -> (Lrx (XPos k p) w <-> Local (XPos k p) w).
Proof.
  intros Hk. unfold Local. destruct w as [|a r]; simpl; split; intros H.
  - inversion H.
  - destruct k; simpl in H; try discriminate. contradiction.
  - inversion H; subst. split; [auto|]. eexists. split; [constructor|auto].
  - destruct H as [[E|[]] (b & P & _)]. subst. inversion P; subst.
    + constructor.
    + simpl in *. contradiction.
Qed.

Definition local_goal (t : rx) : Prop := shape t -> forall w, Lrx t w <-> Local t w.

Lemma local_cat cs :
  Forall local_goal cs -> Forall shape cs -> pairwise_disjoint (map positions cs) ->
  forall w, Lrx (XCat cs) w <-> Local (XCat cs) w.
Proof.
  intros IH. induction IH as [|c cs Hc _ IHcs]; intros Hs Hd w.
  - rewrite Lrx_cat_nil. unfold Local. destruct w as [|a r]; simpl; split; intros H;
      try reflexivity; try discriminate. tauto.
  - inversion Hs as [|? ? Hsc Hscs]; subst. simpl in Hd. destruct Hd as [Hd1 Hd2].
    rewrite Lrx_cat_cons. unfold Local.
    apply (cat_local (Lrx c) (Lrx (XCat cs)) (positions c) (positions (XCat cs))
             (nullable c) (nullable (XCat cs)) _
             (firstpos c) (firstpos (XCat cs)) _ (lastpos c) (lastpos (XCat cs)) _
             (followpos c) (followpos (XCat cs)) _).
    + apply disjoint_flat. exact Hd1.
    + apply first_pos.
    + apply last_pos.
    + apply follow_pos.
    + apply first_pos.
    + apply last_pos.
    + apply follow_pos.
    + apply Hc. exact Hsc.
    + apply IHcs; assumption.
    + apply nullable_cat_cons.
    + intros x. apply firstpos_cat_cons.
    + intros x. apply lastpos_cat_cons.
    + intros x y. rewrite followpos_cat_cons, in_pprod. reflexivity.
Qed.

Lemma local_or cs :
  Forall local_goal cs -> Forall shape cs -> pairwise_disjoint (map positions cs) ->
  forall w, Lrx (XOr cs) w <-> Local (XOr cs) w.
Proof.
  intros IH. induction IH as [|c cs Hc _ IHcs]; intros Hs Hd w.
  - split; intros H.
    + exfalso. eapply Lrx_or_nil; eauto.
    + unfold Local in H. destruct w as [|a r]; simpl in H; [discriminate|tauto].
  - inversion Hs as [|? ? Hsc Hscs]; subst. simpl in Hd. destruct Hd as [Hd1 Hd2].
    rewrite Lrx_or_cons. unfold Local.
    apply (or_local (Lrx c) (Lrx (XOr cs)) (positions c) (positions (XOr cs))
             (nullable c) (nullable (XOr cs)) _
             (firstpos c) (firstpos (XOr cs)) _ (lastpos c) (lastpos (XOr cs)) _
             (followpos c) (followpos (XOr cs)) _).
    + apply disjoint_flat. exact Hd1.
    + apply first_pos.
    + apply last_pos.
    + apply follow_pos.
    + apply first_pos.
    + apply last_pos.
    + apply follow_pos.
    + apply Hc. exact Hsc.
    + apply IHcs; assumption.
    + apply nullable_or_cons.
    + intros x. apply firstpos_or_cons.
    + intros x. apply lastpos_or_cons.
    + intros x y. apply followpos_or_cons.
Qed.

Lemma local_many c :
  (forall w, Lrx c w <-> Local c w) ->
  forall w, Lrx (XCat [c; XStar c]) w <-> Local (XCat [c; XStar c]) w.
Proof.
  intros Hc w. rewrite Lrx_many.
  rewrite (plus_local (Lrx c) (nullable c) (firstpos c) (lastpos c) (followpos c)
             (followpos (XCat [c; XStar c])) Hc (followpos_many c)).
  unfold Local. rewrite nullable_many.
  destruct w as [|a r]; cbn [LocalT]; [reflexivity|].
  rewrite firstpos_many. split; intros [Ha (b & P & Hb)]; (split; [exact Ha|]); exists b;
    (split; [exact P|]).
  - apply (proj2 (lastpos_many c b)). exact Hb.
  - apply (proj1 (lastpos_many c b)). exact Hb.
Qed.

Theorem local_shape t : shape t -> forall w, Lrx t w <-> Local t w.
Proof.
  change (local_goal t).
  induction t as [|k p|cs IH|cs IH|c IH] using rx_ind'; intros Hs.
  - apply local_eps.
  - inversion Hs; subst. intros w. apply local_pos. assumption.
  - inversion Hs as [| |cs' Hf Hd| |c Hc]; subst.
    + apply local_cat; assumption.
    + apply local_many. inversion IH as [|? ? IHc _]; subst. apply IHc. exact Hc.
  - inversion Hs; subst. apply local_or; assumption.
  - inversion Hs.
Qed.

(** * The root, with its end marker *)

Lemma firstpos_with_end t e x :
  In x (firstpos (with_end t e)) <-> In x (firstpos t) \/ (nullable t = true /\ x = e).
Proof.
  unfold with_end. rewrite !firstpos_cat_cons. cbn [firstpos In]. intuition.
Qed.

Lemma followpos_with_end t e x y :
  In (x, y) (followpos (with_end t e)) <->
  In (x, y) (followpos t) \/ (In x (lastpos t) /\ y = e).
Proof.
  unfold with_end. rewrite !followpos_cat_cons. cbn [followpos flat_map cat_pairs app].
  rewrite !in_pprod, !firstpos_cat_cons. cbn [firstpos lastpos In]. intuition.
Qed.

Lemma last_cons (b : N) r a : last (b :: r) a = last r b.
Proof.
  revert a b. induction r as [|c r IH]; intros a b; [reflexivity|].
  change (last (b :: c :: r) a) with (last (c :: r) a). rewrite !IH. reflexivity.
Qed.

Lemma path_chain E a r b : path E a r b -> chain E a r /\ last r a = b.
Proof.
  intros P. induction P as [a|a c w b H P [IH1 IH2]].
  - simpl. auto.
  - split; [simpl; auto|]. rewrite last_cons. exact IH2.
Qed.

Theorem glushkov_root : glushkov_statement.
Proof.
  intros t e Hs He w. rewrite (local_shape t Hs w). unfold Local.
  assert (Hsrc : forall x y, In (x, y) (followpos (with_end t e)) -> In x (positions t)).
  { intros x y H. apply followpos_with_end in H. destruct H as [H|[H _]].
    - apply (follow_pos _ _ _ H).
    - apply last_pos. exact H. }
  destruct w as [|a r]; cbn [LocalT glushkov_word].
  - rewrite firstpos_with_end. split.
    + intros H. right. auto.
    + intros [H|[H _]]; [|exact H]. apply first_pos in H. contradiction.
  - split.
    + intros [Ha (b & P & Hb)]. split; [apply firstpos_with_end; auto|].
      destruct (path_chain _ _ _ _ P) as [C Lb]. split.
      * clear - C. revert a C. induction r as [|c r IH]; intros a C; simpl in *; auto.
        destruct C as [C1 C2]. split; auto. apply followpos_with_end. auto.
      * rewrite Lb. apply followpos_with_end. auto.
    + intros [Ha [C Hl]].
      assert (Hin : In a (positions t)).
      { destruct r as [|c r]; simpl in *.
        - eapply Hsrc; eauto.
        - destruct C as [C _]. eapply Hsrc; eauto. }
      split.
      * apply firstpos_with_end in Ha. destruct Ha as [Ha|[_ Ha]]; [exact Ha|].
        subst. contradiction.
      * exists (last r a). clear Ha. revert a C Hl Hin.
        induction r as [|c r IH]; intros a C Hl Hin.
        -- simpl in *. split; [constructor|].
           apply followpos_with_end in Hl. destruct Hl as [Hl|[Hl _]]; [|exact Hl].
           apply follow_pos in Hl. destruct Hl. contradiction.
        -- rewrite last_cons in *. simpl in C. destruct C as [C1 C2].
           assert (Hc : In c (positions t)).
           { destruct r as [|d r]; simpl in *.
             - eapply Hsrc; eauto.
             - destruct C2 as [C2 _]. eapply Hsrc; eauto. }
           destruct (IH c C2 Hl Hc) as [P Hb]. split; [|exact Hb].
           constructor; [|exact P].
           apply followpos_with_end in C1. destruct C1 as [C1|[_ C1]]; [exact C1|].
           subst. contradiction.
Qed.

Print Assumptions glushkov_root.
