(** Statements of L-subset (proved in Proofs/SubsetConstr.v): what [Model/Subset.v]'s
    [dfa_from_regex] returns, for every pop order [pick]. *)
From CG Require Import Base.Prelude Model.Ast Model.Dfa Model.Regex Model.Subset Proofs.RxLang.

(** The set of positions that may come next after the input ids [ids], starting from the set [s]:
    one [target] step per id (an id that names no input leads to the empty set). *)
Fixpoint reach_from (labels : list inp) (fw : list (N * list N)) (inputs : list inp)
         (s : list N) (ids : list N) : list N :=
  match ids with
  | [] => s
  | i :: rest =>
      match nthN inputs i with
      | Some x => reach_from labels fw inputs (target labels fw s x) rest
      | None => []
      end
  end.

Definition subset_run_statement : Prop :=
  forall pick fuel submap r d states labels,
    dfa_from_regex pick fuel submap r = Ok (d, states) ->
    omap (from_input submap) (r_inputs r) = Ok labels ->
    let reach := reach_from labels (regex_follow r) (intern_all labels) (regex_first r) in
    (* the alphabet: inputs interned in position order *)
    d_inputs d = intern_all labels /\
    (* deterministic: one row per state, one target per input id *)
    NoDup (map fst (d_trans d)) /\
    Forall (fun row => NoDup (map fst (snd row))) (d_trans d) /\
    (* the numbering is one-to-one between states and position sets *)
    NoDup (map fst states) /\ NoDup (map snd states) /\
    (* the state after an item word is (the number of) the set of positions that may come next *)
    (forall ids, match run d (d_start d) ids with
                 | Some s => In (reach ids, s) states
                 | None => reach ids = []
                 end) /\
    (* accepting = contains the end marker *)
    (forall ids, accepts d ids = true <-> In (r_end r) (reach ids)) /\
    (* every state is reachable, and the rows are exactly those of the states *)
    (forall S s, In (S, s) states -> exists ids, run d (d_start d) ids = Some s) /\
    (forall s, In s (map fst (d_trans d)) <-> In s (map snd states)).

(** Hence the language of the automaton (over input ids) is the image of the Glushkov position
    language of the regex under the labelling of positions by inputs. *)
Definition subset_language_statement : Prop :=
  forall pick fuel submap r d states labels,
    dfa_from_regex pick fuel submap r = Ok (d, states) ->
    omap (from_input submap) (r_inputs r) = Ok labels ->
    forall ids,
      accepts d ids = true <->
      exists ps,
        Forall2 (fun p i => exists x, nthN labels p = Some x /\ nthN (d_inputs d) i = Some x) ps ids /\
        glushkov_word (r_tree r) (r_end r) ps.
