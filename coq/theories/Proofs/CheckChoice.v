(** C11: the lookup performed by the model of [specialize_nonterminals] (+ [resolve]) agrees
    with [Spec.Choice.spec] on every accepted grammar. *)
From CG Require Import Base.Prelude Model.Ast Model.Check Spec.Choice.

Lemma assoc_app {V} (k : string) (l1 l2 : list (string * V)) :
  assoc k (l1 ++ l2) = match assoc k l1 with Some v => Some v | None => assoc k l2 end.
Proof.
  induction l1 as [|[k' v] l1 IH]; cbn [assoc app]; [reflexivity|].
  destruct (String.eqb k k'); [reflexivity|apply IH].
Qed.

Lemma mem_str_app k l1 l2 : mem_str k (l1 ++ l2) = mem_str k l1 || mem_str k l2.
Proof. unfold mem_str. apply existsb_app. Qed.

Lemma mem_str_assoc {V} k (l : list (string * V)) :
  mem_str k (map fst l) = match assoc k l with Some _ => true | None => false end.
Proof.
  induction l as [|[k' v] l IH]; cbn; [reflexivity|].
  destruct (String.eqb k k'); cbn; [reflexivity|apply IH].
Qed.

(** The same searches as [Spec.Choice], on the list of definitions. *)
Definition defs_t := list (string * span * option (string * span) * expr).

Fixpoint sd (ds : defs_t) (sh : shell) (x : string) : option expr :=
  match ds with
  | [] => None
  | (n, _, Some (shn, _), rhs) :: r =>
      if String.eqb n x && is_shell shn sh then Some rhs else sd r sh x
  | _ :: r => sd r sh x
  end.

Fixpoint pd (ds : defs_t) (x : string) : option expr :=
  match ds with
  | [] => None
  | (n, _, None, rhs) :: r => if String.eqb n x then Some rhs else pd r x
  | _ :: r => pd r x
  end.

Lemma sd_all_defs g sh x : shell_definition g sh x = sd (all_defs g) sh x.
Proof.
  induction g as [|s g IH]; cbn; [reflexivity|].
  destruct s as [n sp e|n sp [[shn shsp]|] rhs]; cbn; rewrite ?IH; reflexivity.
Qed.

Lemma pd_all_defs g x : plain_definition g x = pd (all_defs g) x.
Proof.
  induction g as [|s g IH]; cbn; [reflexivity|].
  destruct s as [n sp e|n sp [[shn shsp]|] rhs]; cbn; rewrite ?IH; reflexivity.
Qed.

Definition cmd_of (e : option expr) : option string :=
  match e with Some (Command c _ _ _) => Some c | _ => None end.

Lemma shell_eqb_eq a b : shell_eqb a b = true <-> a = b.
Proof. destruct a, b; cbn; split; intro H; try reflexivity; discriminate. Qed.

(** (a) the user-specialisation table holds exactly the command of the target-shell definition *)
Lemma get_user_specs_spec target ds : forall acc us x,
  get_user_specs target ds acc = Ok us ->
  option_map us_cmd (assoc x us) =
    match option_map us_cmd (assoc x acc) with
    | Some c => Some c
    | None => cmd_of (sd ds target x)
    end
  /\ (option_map us_cmd (assoc x acc) = None -> sd ds target x <> None ->
      cmd_of (sd ds target x) <> None).
Proof.
  induction ds as [|[[[n nsp] sh] rhs] r IH]; intros acc us x H.
  - cbn in H. inversion H; subst. cbn. split.
    + destruct (option_map us_cmd (assoc x us)); reflexivity.
    + intros _ Hn. exfalso. apply Hn. reflexivity.
  - cbn [get_user_specs] in H. destruct sh as [[shn shsp]|].
    2:{ cbn [sd]. apply IH. exact H. }
    destruct rhs as [| |cmd z lv csp| | | | | | |]; try discriminate.
    destruct (shell_of_string shn) as [s|] eqn:Hs; [|discriminate].
    cbn [sd]. unfold is_shell. rewrite Hs.
    destruct (shell_eqb s target) eqn:Hst.
    + destruct (assoc n acc) as [prev|] eqn:Hprev; [discriminate|].
      specialize (IH _ _ x H). destruct IH as [IH1 IH2].
      rewrite assoc_app in IH1, IH2. cbn [assoc] in IH1, IH2.
      destruct (String.eqb n x) eqn:Hnx.
      * apply String.eqb_eq in Hnx. subst x. rewrite Hprev in *. cbn [andb].
        rewrite String.eqb_refl in IH1. cbn in IH1. cbn. split; [exact IH1|].
        intros _ _. discriminate.
      * cbn [andb]. rewrite String.eqb_sym in Hnx. rewrite Hnx in IH1, IH2.
        destruct (assoc x acc); cbn in *; split; auto.
    + rewrite andb_false_r. apply IH. exact H.
Qed.

(** (b) the fallback table only has entries for names that are specialised for the target *)
Lemma get_fallback_specs_keys specialized ds : forall acc fs x,
  get_fallback_specs specialized ds acc = Ok fs ->
  assoc x fs <> None -> assoc x acc <> None \/ mem_str x specialized = true.
Proof.
  induction ds as [|[[[n nsp] sh] rhs] r IH]; intros acc fs x H Hx.
  - cbn in H. inversion H; subst. left. exact Hx.
  - cbn [get_fallback_specs] in H. destruct sh as [s|]; [eapply IH; eauto|].
    destruct (mem_str n specialized) eqn:Hm; [|eapply IH; eauto].
    destruct rhs as [| |cmd z lv csp| | | | | | |]; try discriminate.
    destruct (assoc n acc) as [[c prev]|] eqn:Hprev; [discriminate|].
    destruct (IH _ _ x H Hx) as [Ha|Hs]; [|right; exact Hs].
    rewrite assoc_app in Ha. cbn [assoc] in Ha.
    destruct (assoc x acc) eqn:Hxa; [left; discriminate|].
    destruct (String.eqb x n) eqn:Hxn; [|exfalso; apply Ha; reflexivity].
    apply String.eqb_eq in Hxn. subst. right. exact Hm.
Qed.

(** (c) the plain-definition table has exactly the names with a plain definition *)
Lemma collect_plain_defs_names ds : forall acc defs x,
  collect_plain_defs ds acc = Ok defs ->
  mem_str x (map d_name defs) =
    mem_str x (map d_name acc) || match pd ds x with Some _ => true | None => false end.
Proof.
  induction ds as [|[[[n nsp] sh] rhs] r IH]; intros acc defs x H.
  - cbn in H. inversion H; subst. cbn. rewrite orb_false_r. reflexivity.
  - cbn [collect_plain_defs] in H. destruct sh as [s|]; [cbn [pd]; eapply IH; eauto|].
    destruct (find _ acc) eqn:Hf; [discriminate|].
    rewrite (IH _ _ x H). rewrite map_app, mem_str_app. cbn [map pd d_name mem_str existsb].
    rewrite (String.eqb_sym x n).
    destruct (String.eqb n x); cbn; rewrite ?orb_false_r, ?orb_true_r; reflexivity.
Qed.

(** What a node left behind by [specialize] stands for: a command, or -- after [resolve] -- the
    plain definition, or any word. *)
Definition meaning (plain_rhs : string -> option expr) (e : expr) : choice :=
  match e with
  | Command c _ _ _ => ChCommand c
  | NontermRef n _ _ =>
      match plain_rhs n with Some rhs => ChPlain rhs | None => ChAny end
  | _ => ChAny
  end.

Theorem choice_correct :
  forall (builtins : shell -> list (string * string)) g sh us fs defs x l sp,
    get_specializations g sh = Ok (us, fs) ->
    collect_plain_defs (all_defs g) [] = Ok defs ->
    meaning (plain_definition g)
            (specialize_ref sh us (builtins sh) fs (map d_name defs) x l sp)
    = Choice.spec builtins g sh x.
Proof.
  intros builtins g sh us fs defs x l sp Hs Hd.
  unfold get_specializations in Hs.
  destruct (get_user_specs sh (all_defs g) []) as [us'| | |] eqn:Hus; cbn in Hs; try discriminate.
  destruct (get_fallback_specs (map fst us') (all_defs g) []) as [fs'| | |] eqn:Hfs;
    cbn in Hs; try discriminate.
  inversion Hs; subst us' fs'. clear Hs.
  destruct (get_user_specs_spec _ _ _ _ x Hus) as [H1 H2]. cbn in H1, H2.
  pose proof (collect_plain_defs_names _ _ _ x Hd) as H3. cbn in H3.
  unfold spec, specialize_ref. rewrite sd_all_defs, pd_all_defs.
  destruct (assoc x us) as [s|] eqn:Hxu.
  - cbn in H1. destruct (sd (all_defs g) sh x) as [[| |c z lv csp| | | | | | |]|];
      cbn in H1; try discriminate. inversion H1. reflexivity.
  - cbn in H1.
    assert (Hnone : sd (all_defs g) sh x = None).
    { destruct (sd (all_defs g) sh x) eqn:E; [|reflexivity].
      exfalso. apply H2; [reflexivity|discriminate|]. symmetry. exact H1. }
    rewrite Hnone.
    assert (Hfx : assoc x fs = None).
    { destruct (assoc x fs) eqn:E; [|reflexivity]. exfalso.
      destruct (get_fallback_specs_keys _ _ _ _ x Hfs) as [Ha|Hm].
      - rewrite E. discriminate.
      - apply Ha. reflexivity.
      - rewrite mem_str_assoc, Hxu in Hm. discriminate. }
    rewrite Hfx, H3.
    destruct (pd (all_defs g) x) as [rhs|] eqn:Hpd; cbn.
    + rewrite pd_all_defs, Hpd. reflexivity.
    + destruct (assoc x (builtins sh)); cbn; [reflexivity|].
      rewrite pd_all_defs, Hpd. reflexivity.
Qed.

(** The reference left for [resolve] really is replaced by the table entry. *)
Lemma resolve_ref table n l sp rhs :
  assoc n table = Some rhs -> resolve table (NontermRef n l sp) = rhs.
Proof. intro H. cbn. rewrite H. reflexivity. Qed.

(** Definitions for other shells never influence the result. *)
Lemma spec_ignores_other_shells builtins g sh x n nsp shn shsp rhs :
  is_shell shn sh = false ->
  Choice.spec builtins (NontermDef n nsp (Some (shn, shsp)) rhs :: g) sh x = Choice.spec builtins g sh x.
Proof. intro H. unfold spec. cbn. rewrite H, andb_false_r. reflexivity. Qed.
