(** Expression round trip, part 2: no unary expression starts on a stopper, loops as chains of
    steps, and the lifting lemmas between precedence levels. *)
From CG Require Import Base.Prelude Model.Ast Model.Lexer Model.Parser Spec.Printer
  Proofs.LexBase Proofs.LexBlanks Proofs.LexTerminal Proofs.LexTokens Proofs.LexCommand Proofs.ExprDefs.
From CGgen Require Import Consts.

Lemma rest_skip_i : forall i, rest (skip i) = skips (rest i).
Proof. intros [s p]. apply rest_skip. Qed.

Lemma no_unary_facts : forall c, no_unary c = true ->
    is_regular c = false /\ Ascii.eqb c BACKSLASH = false /\ Ascii.eqb c DOT = false /\ Ascii.eqb c LT = false
    /\ Ascii.eqb c LBRACK = false /\ Ascii.eqb c LPAREN = false /\ Ascii.eqb c LBRACE = false.
Proof.
  intros c H. unfold no_unary in H. apply negb_true_iff in H.
  do 6 (apply orb_false_iff in H; destruct H as [H ?]). repeat split; auto.
Qed.

Section Lift.
  Variable c : cfg.

  Lemma atom_fails : forall n i, hd_in no_unary (rest i) = true -> Atom c n i = Err tt.
  Proof.
    intros n [s p] H. cbn [rest] in H. unfold Atom.
    assert (T : terminal_opt_description_expr c (mkin s p) = Err tt).
    { unfold terminal_opt_description_expr, terminal. rewrite terminal_spec.
      rewrite lex1_stop; [reflexivity| | |]; destruct s as [|ch r]; cbn [hd_in] in *; auto;
        apply no_unary_facts in H; destruct H as (R & B & D & _); unfold is_dot; rewrite ?R, ?B, ?D; reflexivity. }
    destruct s as [|ch r].
    - cbn. exact T.
    - cbn [hd_in] in H. apply no_unary_facts in H. destruct H as (R & B & D & L1 & L2 & L3 & L4).
      unfold nonterm_expr, nonterm, optional_expr, parenthesized_expr, command_expr, triple_bracket_command, tag_p, char_p.
      cbn [rest at_]. rewrite L1, L2, L3. cbn [obind fail].
      unfold LBRACE3. cbn [strip_prefix]. change "{"%char with LBRACE. rewrite Ascii.eqb_sym, L4.
      cbn [obind fail]. exact T.
  Qed.

  Lemma unary_fails : forall n i, hd_in no_unary (rest i) = true -> U c n i = Err tt.
  Proof. intros. rewrite U_Atom, atom_fails by assumption. reflexivity. Qed.

  Lemma sw_fails : forall n i, hd_in no_unary (rest i) = true -> SW c n i = Err tt.
  Proof. intros. unfold SW, subword_sequence_expr. fold (U c n). rewrite unary_fails by assumption. reflexivity. Qed.

  Lemma item_fails : forall n i, hd_in no_unary (rest i) = true -> I c n i = Err tt.
  Proof.
    intros. unfold I, subword_sequence_expr_opt_description. fold (SW c n).
    rewrite sw_fails by assumption. reflexivity.
  Qed.

  Lemma seq_fails : forall n i, hd_in no_unary (rest i) = true -> Sq c n i = Err tt.
  Proof. intros. unfold Sq, sequence_expr. fold (I c n). rewrite item_fails by assumption. reflexivity. Qed.

  (** *** Loops as chains of steps *)

  Inductive steps {X} (step : input -> pres X) : input -> list X -> input -> Prop :=
  | steps_nil : forall i, steps step i [] i
  | steps_cons : forall i a i1 l i2,
      step i = Ok (a, i1) -> (String.length (rest i1) < String.length (rest i))%nat ->
      steps step i1 l i2 -> steps step i (a :: l) i2.

  Lemma loop_p_steps : forall X (step : input -> pres X) i l i',
      steps step i l i' -> step i' = Err tt ->
      forall k, (String.length (rest i) < k)%nat -> loop_p k step i = Ok (l, i').
  Proof.
    induction 1; intros E k Hk.
    - destruct k; [lia|]. cbn [loop_p]. rewrite E. reflexivity.
    - destruct k; [lia|]. cbn [loop_p]. rewrite H. rewrite IHsteps by (auto; lia). reflexivity.
  Qed.

  (** *** Lifting *)

  Lemma many1_tag_fails : forall i, c5 (rest i) -> many1_tag i = Err tt.
  Proof.
    intros i H. unfold many1_tag. rewrite multiblanks0_spec. cbn [obind]. unfold tag_p.
    rewrite rest_skip_i. unfold c5, starts_with in H.
    destruct (strip_prefix "..." (skips (rest i))); [discriminate|reflexivity].
  Qed.

  Lemma lift65 : forall n i e i', Atom c n i = Ok (e, i') -> c5 (rest i') -> U c n i = Ok (e, i').
  Proof. intros. rewrite U_Atom, H. cbn [obind]. rewrite many1_tag_fails by assumption. reflexivity. Qed.

  Lemma lift54 : forall n i e i', U c n i = Ok (e, i') -> c4 (rest i') ->
      (String.length (rest i') < n)%nat -> SW c n i = Ok (e, i').
  Proof.
    intros. unfold SW, subword_sequence_expr. fold (U c n). rewrite H. cbn [obind].
    rewrite (loop_p_steps _ (U c n) i' [] i' (steps_nil _ _)); auto.
    apply unary_fails; assumption.
  Qed.

  Lemma lift43 : forall n i e i', SW c n i = Ok (e, i') -> c3 (rest i') -> I c n i = Ok (e, i').
  Proof.
    intros. unfold I, subword_sequence_expr_opt_description. fold (SW c n). rewrite H. cbn [obind].
    rewrite opt_description_none; [reflexivity|]. rewrite rest_skip_i. exact H0.
  Qed.

  Lemma seq_step_fails : forall n i, c4 (rest i) -> c2 (rest i) ->
      (do (_, j1) <- multiblanks1 i; I c n j1) = Err tt.
  Proof.
    intros n i H4 H2. rewrite multiblanks1_spec.
    destruct (hd_is blank_start (rest i)); [|reflexivity]. cbn [obind].
    apply item_fails. rewrite rest_skip_i. exact H2.
  Qed.

  Lemma lift32 : forall n i e i', I c n i = Ok (e, i') -> c4 (rest i') -> c2 (rest i') ->
      (String.length (rest i') < n)%nat -> Sq c n i = Ok (e, i').
  Proof.
    intros. unfold Sq, sequence_expr. fold (I c n). rewrite H. cbn [obind].
    rewrite (loop_p_steps _ _ i' [] i' (steps_nil _ _)); auto.
    apply seq_step_fails; assumption.
  Qed.

  Lemma hd_BAR_no_unary : no_unary BAR = true. Proof. vm_compute; reflexivity. Qed.
  Lemma BAR_not_blank : blank_start BAR = false. Proof. vm_compute; reflexivity. Qed.

  Lemma alt_step_fails : forall n i, c1 (rest i) -> do_alternative_expr (Sq c n) i = Err tt.
  Proof.
    intros n i H1. unfold do_alternative_expr. rewrite multiblanks0_spec. cbn [obind].
    unfold char_p. pose proof (rest_skip_i i) as R. destruct (skip i) as [s q]. cbn [rest at_] in *.
    rewrite R. unfold c1, nobar in H1.
    destruct (skips (rest i)) as [|ch r]; [reflexivity|].
    destruct (Ascii.eqb ch BAR) eqn:B; [|reflexivity]. cbn [obind].
    destruct H1 as [H1|H1]; [cbn [hd_in] in H1; rewrite B in H1; discriminate|].
    (* the next character is a bar too *)
    assert (exists r', r = String BAR r') as [r' ->].
    { unfold starts_with in H1. cbn [strip_prefix] in H1. change "|"%char with BAR in H1.
      destruct (Ascii.eqb BAR ch); [|discriminate]. destruct r as [|x r']; [discriminate|].
      destruct (Ascii.eqb BAR x) eqn:X; [|discriminate]. apply eqb_eq_a in X. subst. eauto. }
    rewrite multiblanks0_spec. cbn [obind].
    rewrite skip_no_blank by (cbn [hd_in]; rewrite BAR_not_blank; reflexivity).
    apply seq_fails. cbn [rest hd_in]. exact hd_BAR_no_unary.
  Qed.

  Lemma lift21 : forall n i e i', Sq c n i = Ok (e, i') -> c1 (rest i') ->
      (String.length (rest i') < n)%nat -> A c n i = Ok (e, i').
  Proof.
    intros. unfold A, alternative_expr. fold (Sq c n). rewrite H. cbn [obind].
    rewrite (loop_p_steps _ _ i' [] i' (steps_nil _ _)); auto.
    apply alt_step_fails; assumption.
  Qed.

  Lemma fb_step_fails : forall n i, c0 (rest i) -> do_fallback_expr (A c n) i = Err tt.
  Proof.
    intros n i H0. unfold do_fallback_expr. rewrite multiblanks0_spec. cbn [obind].
    unfold tag_p. rewrite rest_skip_i. unfold c0, nobar in H0.
    destruct (skips (rest i)) as [|ch r]; [reflexivity|]. cbn [hd_in] in H0.
    cbn [strip_prefix]. change "|"%char with BAR. rewrite Ascii.eqb_sym.
    apply negb_true_iff in H0. rewrite H0. reflexivity.
  Qed.

  Lemma lift10 : forall n i e i', A c n i = Ok (e, i') -> c0 (rest i') ->
      (String.length (rest i') < n)%nat -> F c n i = Ok (e, i').
  Proof.
    intros. unfold F, fallback_expr. fold (A c n). rewrite H. cbn [obind].
    rewrite (loop_p_steps _ _ i' [] i' (steps_nil _ _)); auto.
    apply fb_step_fails; assumption.
  Qed.

  Lemma c0_c1 : forall r, c0 r -> c1 r.
  Proof. intros r H. left. exact H. Qed.

  Lemma lift1 : forall n b i e i', (b <= 5)%nat -> P c n (S b) i = Ok (e, i') -> st b (rest i') ->
      (String.length (rest i') < n)%nat -> P c n b i = Ok (e, i').
  Proof.
    intros n b i e i' Hb H (S5 & S4 & S3 & S2 & S1 & S0) Hn.
    destruct b as [|[|[|[|[|[|b]]]]]]; try lia; cbn [P] in *.
    - apply lift10; auto; try (apply S0; lia).
    - apply lift21; auto; try (apply S1; lia).
    - apply lift32; auto; try (apply S4; lia); try (apply S2; lia).
    - apply lift43; auto; try (apply S3; lia).
    - apply lift54; auto; try (apply S4; lia).
    - apply lift65; auto; try (apply S5; lia).
  Qed.

  Lemma lift : forall n a b i e i', (b <= a)%nat -> (a <= 6)%nat ->
      P c n a i = Ok (e, i') -> st b (rest i') -> (String.length (rest i') < n)%nat ->
      P c n b i = Ok (e, i').
  Proof.
    intros n a b i e i' Hba. induction Hba; intros Ha H S Hn; auto.
    apply IHHba; try lia; auto.
    apply lift1; auto; try lia. eapply st_mono; [|exact S]. lia.
  Qed.
End Lift.
