(** Descriptions, nonterminals and commands: the printed form lexes back. *)
From CG Require Import Base.Prelude Model.Ast Model.Lexer Model.Parser Spec.Printer
  Proofs.LexBase Proofs.LexBlanks Proofs.LexTerminal.
From CGgen Require Import Consts.

(** *** Descriptions *)

Lemma descr_body_plain : forall a, all_chars not_quote_backslash a = true -> descr_body a = a.
Proof.
  induction a; cbn [all_chars descr_body]; intros H; auto.
  apply andb_true_iff in H as [H1 H2]. unfold not_quote_backslash in H1.
  apply andb_true_iff in H1 as [Q B]. apply negb_true_iff in Q, B. rewrite Q, B. cbn [orb].
  rewrite IHa; auto.
Qed.

Lemma descr_body_app : forall a b, all_chars not_quote_backslash a = true ->
    descr_body (append a b) = append a (descr_body b).
Proof.
  induction a; cbn [all_chars descr_body append]; intros b H; auto.
  apply andb_true_iff in H as [H1 H2]. unfold not_quote_backslash in H1.
  apply andb_true_iff in H1 as [Q B]. apply negb_true_iff in Q, B. rewrite Q, B. cbn [orb].
  rewrite IHa; auto.
Qed.

(** [descr_body d] followed by a quote starts with a quote or backslash when [d] does not start
    with a plain character *)
Lemma descr_body_stop : forall d r,
    hd_in (fun c => negb (not_quote_backslash c)) d = true ->
    hd_in (fun c => negb (not_quote_backslash c)) (append (descr_body d) (String DQUOTE r)) = true.
Proof.
  intros [|c d] r H; cbn [descr_body append hd_in] in *.
  - vm_compute. reflexivity.
  - unfold not_quote_backslash in H. 
    destruct (Ascii.eqb c DQUOTE) eqn:Q; cbn [orb negb andb] in *.
    + cbn [append hd_in]. vm_compute. reflexivity.
    + destruct (Ascii.eqb c BACKSLASH) eqn:B; cbn [orb negb andb] in *; [|discriminate].
      cbn [append hd_in]. vm_compute. reflexivity.
Qed.

Lemma description_inner_printed : forall fuel d r p,
    (String.length (append (descr_body d) (String DQUOTE r)) < fuel)%nat ->
    description_inner_f fuel (mkin (append (descr_body d) (String DQUOTE r)) p)
    = Ok (d, mkin (String DQUOTE r) (adv_str (descr_body d) p)).
Proof.
  induction fuel; intros d r p H; [lia|]. cbn [description_inner_f].
  unfold parse_fragment, parse_literal, take_while1, take_while. cbn [rest at_].
  destruct (span_while not_quote_backslash d) as [a d'] eqn:E.
  pose proof (span_while_app _ _ _ _ E) as Ed. pose proof (span_while_all _ _ _ _ E) as Ea.
  pose proof (span_while_stop _ _ _ _ E) as Es. subst d.
  rewrite descr_body_app in H by assumption. rewrite app_assoc_s in H.
  rewrite descr_body_app by assumption. rewrite app_assoc_s.
  rewrite (span_while_exact not_quote_backslash a _ Ea (descr_body_stop d' r Es)).
  destruct a as [|c a].
  - (* no plain run: an escaped character or the end *)
    cbn [append obind fail adv_str]. cbn [append] in H.
    destruct d' as [|c d'].
    + cbn [descr_body append]. unfold parse_escaped_char, parse_escaped_whitespace, char_p. cbn [rest at_].
      replace (Ascii.eqb DQUOTE BACKSLASH) with false by (vm_compute; reflexivity). cbn [obind fail]. reflexivity.
    + cbn [hd_in] in Es. unfold not_quote_backslash in Es.
      cbn [descr_body].
      assert (Hc : Ascii.eqb c DQUOTE || Ascii.eqb c BACKSLASH = true).
      { destruct (Ascii.eqb c DQUOTE), (Ascii.eqb c BACKSLASH); cbn in *; auto; discriminate. }
      rewrite Hc. cbn [append]. cbn [descr_body] in H. rewrite Hc in H. cbn [append String.length] in H.
      unfold parse_escaped_char, char_p. cbn [rest at_].
      rewrite (proj2 (eqb_eq_a BACKSLASH BACKSLASH) eq_refl). cbn [obind rest at_].
      destruct (Ascii.eqb c BACKSLASH) eqn:B.
      * cbn [obind]. rewrite IHfuel by lia. cbn [obind adv_str].
        apply eqb_eq_a in B. subst c. reflexivity.
      * rewrite orb_false_r in Hc. cbn [obind fail]. rewrite Hc. cbn [obind].
        rewrite IHfuel by lia. cbn [obind adv_str].
        apply eqb_eq_a in Hc. subst c. reflexivity.
  - cbn [obind]. rewrite length_app_s in H. cbn [String.length] in H.
    rewrite IHfuel by (cbn [String.length]; lia). cbn [obind]. rewrite adv_str_app. reflexivity.
Qed.

Theorem description_printed : forall d r p,
    description (mkin (append (descr_text d) r) p) = Ok (d, mkin r (adv_str (descr_text d) p)).
Proof.
  intros. unfold description, descr_text, char_p. cbn [append rest at_].
  rewrite (proj2 (eqb_eq_a DQUOTE DQUOTE) eq_refl). cbn [obind].
  unfold description_inner. cbn [rest]. rewrite app_assoc_s. cbn [append].
  rewrite description_inner_printed by lia. cbn [obind rest at_].
  rewrite (proj2 (eqb_eq_a DQUOTE DQUOTE) eq_refl). cbn [obind adv_str].
  rewrite adv_str_app. reflexivity.
Qed.

(** a gap, then a description *)
Theorem opt_description_printed : forall g d r p,
    opt_description (mkin (append (gap_text g) (append (descr_text d) r)) p)
    = Ok (Some d, mkin r (adv_str (descr_text d) (adv_str (gap_text g) p))).
Proof.
  intros. unfold opt_description. rewrite multiblanks0_spec. cbn [obind].
  rewrite skip_gap. rewrite skip_no_blank by (vm_compute; reflexivity).
  rewrite description_printed. reflexivity.
Qed.

(** no description when, after blanks, something other than a quote follows *)
Theorem opt_description_none : forall i,
    hd_in (fun c => negb (Ascii.eqb c DQUOTE)) (rest (skip i)) = true ->
    opt_description i = Ok (None, i).
Proof.
  intros i H. unfold opt_description. rewrite multiblanks0_spec. cbn [obind].
  unfold description, char_p. destruct (rest (skip i)) as [|c r]; [reflexivity|].
  cbn [hd_in] in H. apply negb_true_iff in H. rewrite H. reflexivity.
Qed.

(** *** Nonterminals *)

Lemma all_chars_app : forall f a b, all_chars f (append a b) = all_chars f a && all_chars f b.
Proof. induction a; cbn; intros; auto. rewrite IHa. apply andb_assoc. Qed.

Theorem nonterm_printed : forall n r p,
    wf_nt n = true ->
    nonterm (mkin (String LT (append n (String GT r))) p)
    = Ok ((n, pspan p (adv_char GT (adv_str n (adv_char LT p)))),
          mkin r (adv_char GT (adv_str n (adv_char LT p)))).
Proof.
  intros n r p W. unfold wf_nt in W. apply andb_true_iff in W as [W1 W2].
  unfold nonterm, char_p, take_while1, take_while. cbn [rest at_].
  rewrite (proj2 (eqb_eq_a LT LT) eq_refl). cbn [obind rest at_].
  rewrite (span_while_exact _ n (String GT r) W2)
    by (cbn [hd_in]; rewrite (proj2 (eqb_eq_a GT GT) eq_refl); reflexivity).
  destruct n as [|c n]; [discriminate|]. cbn [obind rest at_].
  rewrite (proj2 (eqb_eq_a GT GT) eq_refl). cbn [obind]. reflexivity.
Qed.

(** a plain definition head [<n>] is not read as a specialisation *)
Lemma all_chars_both : forall n,
    all_chars (fun c => negb (Ascii.eqb c GT)) n = true -> all_chars (fun c => negb (Ascii.eqb c AT)) n = true ->
    all_chars (fun c => negb (Ascii.eqb c GT) && negb (Ascii.eqb c AT)) n = true.
Proof.
  induction n; cbn [all_chars]; intros A B; auto.
  apply andb_true_iff in A as [A1 A2]. apply andb_true_iff in B as [B1 B2]. rewrite A1, B1. cbn. auto.
Qed.

Lemma nonterm_specialization_plain : forall n r p,
    wf_nt n = true -> negb (spec_like n) = true ->
    nonterm_specialization (mkin (String LT (append n (String GT r))) p) = Err tt.
Proof.
  intros n r p W Wa. unfold wf_nt in W. apply andb_true_iff in W as [W1 W2]. apply negb_true_iff in Wa.
  unfold spec_like in Wa.
  destruct (span_while (fun c => negb (Ascii.eqb c AT)) n) as [a b] eqn:E.
  pose proof (span_while_app _ _ _ _ E) as En. pose proof (span_while_all _ _ _ _ E) as Ea.
  pose proof (span_while_stop _ _ _ _ E) as Es. subst n.
  rewrite all_chars_app in W2. apply andb_true_iff in W2 as [Wa2 Wb2].
  unfold nonterm_specialization, char_p, take_while1, take_while. cbn [rest at_].
  rewrite (proj2 (eqb_eq_a LT LT) eq_refl). cbn [obind rest at_].
  rewrite app_assoc_s.
  rewrite (span_while_exact _ a (append b (String GT r)) (all_chars_both a Wa2 Ea)).
  2:{ destruct b as [|x b']; cbn [append hd_in].
      - rewrite (proj2 (eqb_eq_a GT GT) eq_refl). reflexivity.
      - cbn [hd_in] in Es. apply negb_true_iff in Es. apply negb_false_iff in Es. rewrite Es.
        rewrite andb_false_r. reflexivity. }
  destruct a as [|c a]; [reflexivity|]. cbn [obind rest at_ is_empty negb andb] in *.
  destruct b as [|x sh]; cbn [append].
  - replace (Ascii.eqb GT AT) with false by (vm_compute; reflexivity). reflexivity.
  - cbn [hd_in] in Es. apply negb_true_iff in Es. apply negb_false_iff in Es. rewrite Es. cbn [obind rest at_].
    destruct sh; [|discriminate]. cbn [append span_while].
    rewrite (proj2 (eqb_eq_a GT GT) eq_refl). cbn [negb]. reflexivity.
Qed.

Theorem nonterm_specialization_printed : forall n sh r p,
    wf_nt n = true -> all_chars (fun c => negb (Ascii.eqb c AT)) n = true -> wf_nt sh = true ->
    let p1 := adv_str n (adv_char LT p) in
    let q := adv_char AT p1 in
    let q' := adv_str sh q in
    nonterm_specialization (mkin (String LT (append n (String AT (append sh (String GT r))))) p)
    = Ok ((n, pspan p (adv_char GT q'), sh, pspan q q'), mkin r (adv_char GT q')).
Proof.
  intros n sh r p W Wa Ws. unfold wf_nt in W, Ws.
  apply andb_true_iff in W as [W1 W2]. apply andb_true_iff in Ws as [S1 S2].
  unfold nonterm_specialization, char_p, take_while1, take_while. cbn [rest at_].
  rewrite (proj2 (eqb_eq_a LT LT) eq_refl). cbn [obind rest at_].
  assert (Hall : all_chars (fun c => negb (Ascii.eqb c GT) && negb (Ascii.eqb c AT)) n = true).
  { clear W1. induction n; cbn [all_chars] in *; auto.
    apply andb_true_iff in W2 as [A1 A2]. apply andb_true_iff in Wa as [B1 B2].
    rewrite A1, B1. cbn. auto. }
  rewrite (span_while_exact _ n _ Hall)
    by (cbn [hd_in]; rewrite (proj2 (eqb_eq_a AT AT) eq_refl); rewrite andb_false_r; reflexivity).
  destruct n as [|c n]; [discriminate|]. cbn [obind rest at_].
  rewrite (proj2 (eqb_eq_a AT AT) eq_refl). cbn [obind rest at_].
  rewrite (span_while_exact _ sh (String GT r) S2)
    by (cbn [hd_in]; rewrite (proj2 (eqb_eq_a GT GT) eq_refl); reflexivity).
  destruct sh as [|d sh]; [discriminate|]. cbn [obind rest at_].
  rewrite (proj2 (eqb_eq_a GT GT) eq_refl). cbn [obind]. reflexivity.
Qed.
