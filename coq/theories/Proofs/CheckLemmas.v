(** Shared lemmas about the passes of Model/Check.v: named intermediate results of
    [from_grammar] and its inversion lemma, list views of the nested fixpoints of [distribute],
    reference lists, [DistDescr]-freeness. *)
From CG Require Import Base.Prelude Model.Ast Model.Check Spec.Choice Spec.Mistakes.
From CG Require Import Proofs.CheckChoice Proofs.CheckMistakes.

(** *** Small list / string facts *)
Lemma mem_str_false_In n l : mem_str n l = false <-> ~ In n l.
Proof.
  split.
  - intros H Hin. apply mem_str_In in Hin. congruence.
  - intro H. destruct (mem_str n l) eqn:E; [|reflexivity]. exfalso. apply H. apply mem_str_In. exact E.
Qed.

Lemma mem_str_ext n l1 l2 :
  (forall x, In x l1 <-> In x l2) -> mem_str n l1 = mem_str n l2.
Proof.
  intro H. destruct (mem_str n l2) eqn:E.
  - apply mem_str_In. apply H. apply mem_str_In. exact E.
  - apply mem_str_false_In. intro H'. apply H in H'. apply mem_str_In in H'. congruence.
Qed.

Lemma assoc_In {V} k (l : list (string * V)) v : assoc k l = Some v -> In (k, v) l.
Proof.
  induction l as [|[k' v'] l IH]; cbn; [discriminate|].
  destruct (String.eqb k k') eqn:E.
  - apply String.eqb_eq in E. subst. intro H. inversion H. left. reflexivity.
  - intro H. right. apply IH. exact H.
Qed.

Lemma assoc_None_notin {V} k (l : list (string * V)) : assoc k l = None <-> ~ In k (map fst l).
Proof.
  rewrite <- mem_str_false_In, mem_str_assoc. destruct (assoc k l); split; intro; congruence.
Qed.

Lemma assoc_Some_in {V} k (l : list (string * V)) v : assoc k l = Some v -> In k (map fst l).
Proof. intro H. apply assoc_In in H. apply in_map_iff. exists (k, v). split; [reflexivity|exact H]. Qed.

Lemma In_assoc_some {V} k (l : list (string * V)) : In k (map fst l) -> exists v, assoc k l = Some v.
Proof.
  intro H. destruct (assoc k l) eqn:E; [eexists; reflexivity|].
  apply assoc_None_notin in E. contradiction.
Qed.

Lemma assoc_NoDup_In {V} k (l : list (string * V)) v :
  NoDup (map fst l) -> In (k, v) l -> assoc k l = Some v.
Proof.
  induction l as [|[k' v'] l IH]; cbn; [intros _ []|].
  intros Hnd [H|H].
  - inversion H; subst. rewrite String.eqb_refl. reflexivity.
  - inversion Hnd; subst. destruct (String.eqb k k') eqn:E.
    + apply String.eqb_eq in E. subst. exfalso. apply H2. apply in_map_iff.
      exists (k', v). split; [reflexivity|exact H].
    + apply IH; assumption.
Qed.

Lemma NoDup_app_snoc {A} (l : list A) x : NoDup l -> ~ In x l -> NoDup (l ++ [x]).
Proof.
  induction l as [|y l IH]; cbn; intros Hnd Hx.
  - constructor; [intros []|constructor].
  - inversion Hnd; subst. constructor.
    + rewrite in_app_iff. cbn. intros [H|[H|[]]]; [contradiction|]. subst. apply Hx. left. reflexivity.
    + apply IH; [assumption|]. intro H. apply Hx. right. exact H.
Qed.

Lemma flat_map_map {A B C} (f : B -> list C) (g : A -> B) l :
  flat_map f (map g l) = flat_map (fun x => f (g x)) l.
Proof. induction l; cbn; [reflexivity|]. rewrite IHl. reflexivity. Qed.

Lemma map_flat_map {A B C} (f : B -> C) (g : A -> list B) l :
  map f (flat_map g l) = flat_map (fun x => map f (g x)) l.
Proof. induction l; cbn; [reflexivity|]. rewrite map_app, IHl. reflexivity. Qed.

Lemma flat_map_ext_Forall {A B} (f g : A -> list B) l :
  Forall (fun x => f x = g x) l -> flat_map f l = flat_map g l.
Proof. induction 1; cbn; [reflexivity|]. rewrite H, IHForall. reflexivity. Qed.

Lemma map_ext_Forall {A B} (f g : A -> B) l :
  Forall (fun x => f x = g x) l -> map f l = map g l.
Proof. induction 1; cbn; [reflexivity|]. rewrite H, IHForall. reflexivity. Qed.

(** *** The list loops of [distribute] as a top-level function *)
Fixpoint distribute_list (l : list expr) (d : option string) : list expr * option string :=
  match l with
  | [] => ([], d)
  | c :: r => let (c', d1) := distribute c d in
              let (r', d2) := distribute_list r d1 in (c' :: r', d2)
  end.

Lemma distribute_seq cs sp d :
  distribute (Sequence cs sp) d = let (cs', d') := distribute_list cs d in (Sequence cs' sp, d').
Proof. reflexivity. Qed.

Lemma distribute_fb cs sp d :
  distribute (Fallback cs sp) d = let (cs', d') := distribute_list cs d in (Fallback cs' sp, d').
Proof. reflexivity. Qed.

(** *** [DistDescr]-free trees *)
Fixpoint dd_free (e : expr) : Prop :=
  match e with
  | Terminal _ _ _ _ | NontermRef _ _ _ | Command _ _ _ _ => True
  | Sequence cs _ | Alternative cs _ | Fallback cs _ =>
      (fix all (l : list expr) : Prop :=
         match l with [] => True | c :: r => dd_free c /\ all r end) cs
  | Optional c _ | Many1 c _ | Subword c _ _ => dd_free c
  | DistDescr _ _ _ => False
  end.

Fixpoint dd_free_list (l : list expr) : Prop :=
  match l with [] => True | c :: r => dd_free c /\ dd_free_list r end.

Lemma dd_free_seq cs sp : dd_free (Sequence cs sp) = dd_free_list cs.
Proof. reflexivity. Qed.
Lemma dd_free_alt cs sp : dd_free (Alternative cs sp) = dd_free_list cs.
Proof. reflexivity. Qed.
Lemma dd_free_fb cs sp : dd_free (Fallback cs sp) = dd_free_list cs.
Proof. reflexivity. Qed.

Lemma dd_free_list_Forall l : dd_free_list l <-> Forall dd_free l.
Proof.
  induction l; cbn [dd_free_list]; split; intro H.
  - constructor.
  - exact I.
  - destruct H. constructor; [assumption|apply IHl; assumption].
  - inversion H; subst. split; [assumption|apply IHl; assumption].
Qed.

Lemma distribute_dd_free e : forall d, dd_free (fst (distribute e d)).
Proof.
  induction e using expr_ind'; intro d0.
  - cbn. destruct d; [exact I|]. destruct d0; exact I.
  - exact I.
  - exact I.
  - rewrite distribute_seq.
    assert (G : forall d, dd_free_list (fst (distribute_list cs d))).
    { induction H; intro d1; cbn; [exact I|].
      pose proof (H d1) as Hx. destruct (distribute x d1) as [c' d2].
      pose proof (IHForall d2) as Hr. destruct (distribute_list l d2) as [r' d3].
      cbn in *. split; assumption. }
    specialize (G d0). destruct (distribute_list cs d0). exact G.
  - cbn [distribute fst]. rewrite dd_free_alt. apply dd_free_list_Forall.
    apply Forall_forall. intros x Hx. apply in_map_iff in Hx. destruct Hx as [c [Hc Hin]].
    subst x. rewrite Forall_forall in H. apply H. exact Hin.
  - cbn [distribute]. specialize (IHe d0). destruct (distribute e d0). exact IHe.
  - cbn [distribute]. specialize (IHe d0). destruct (distribute e d0). exact IHe.
  - cbn [distribute fst]. apply IHe.
  - rewrite distribute_fb.
    assert (G : forall d, dd_free_list (fst (distribute_list cs d))).
    { induction H; intro d1; cbn; [exact I|].
      pose proof (H d1) as Hx. destruct (distribute x d1) as [c' d2].
      pose proof (IHForall d2) as Hr. destruct (distribute_list l d2) as [r' d3].
      cbn in *. split; assumption. }
    specialize (G d0). destruct (distribute_list cs d0). exact G.
  - cbn [distribute]. specialize (IHe d0). destruct (distribute e d0). exact IHe.
Qed.

(** *** References survive [distribute] (which only moves descriptions and drops wrappers) *)
Lemma distribute_refs e : forall d,
  map fst (nonterm_refs (fst (distribute e d))) = all_refs e.
Proof.
  induction e using expr_ind'; intro d0.
  - cbn. destruct d; [reflexivity|]. destruct d0; reflexivity.
  - reflexivity.
  - reflexivity.
  - rewrite distribute_seq.
    assert (G : forall d, map fst (flat_map nonterm_refs (fst (distribute_list cs d)))
                          = flat_map all_refs cs).
    { induction H; intro d1; cbn; [reflexivity|].
      pose proof (H d1) as Hx. destruct (distribute x d1) as [c' d2].
      pose proof (IHForall d2) as Hr. destruct (distribute_list l d2) as [r' d3].
      cbn in *. rewrite map_app, Hx, Hr. reflexivity. }
    specialize (G d0). destruct (distribute_list cs d0). exact G.
  - cbn [distribute fst nonterm_refs all_refs].
    induction H; cbn; [reflexivity|]. rewrite map_app, H, IHForall. reflexivity.
  - cbn [distribute]. specialize (IHe d0). destruct (distribute e d0). exact IHe.
  - cbn [distribute]. specialize (IHe d0). destruct (distribute e d0). exact IHe.
  - cbn [distribute fst all_refs]. apply IHe.
  - rewrite distribute_fb.
    assert (G : forall d, map fst (flat_map nonterm_refs (fst (distribute_list cs d)))
                          = flat_map all_refs cs).
    { induction H; intro d1; cbn; [reflexivity|].
      pose proof (H d1) as Hx. destruct (distribute x d1) as [c' d2].
      pose proof (IHForall d2) as Hr. destruct (distribute_list l d2) as [r' d3].
      cbn in *. rewrite map_app, Hx, Hr. reflexivity. }
    specialize (G d0). destruct (distribute_list cs d0). exact G.
  - cbn [distribute]. specialize (IHe d0). destruct (distribute e d0). exact IHe.
Qed.

Lemma distribute_descriptions_refs e :
  map fst (nonterm_refs (distribute_descriptions e)) = all_refs e.
Proof. apply distribute_refs. Qed.

(** On [DistDescr]-free trees [nonterm_refs] sees every reference. *)
Lemma dd_free_refs e : dd_free e -> map fst (nonterm_refs e) = all_refs e.
Proof.
  induction e using expr_ind'; intro Hf; try reflexivity; try (cbn in *; auto; fail).
  - rewrite dd_free_seq in Hf. cbn [nonterm_refs all_refs].
    induction H; cbn; [reflexivity|]. destruct Hf as [Hx Hl].
    rewrite map_app, H, IHForall by assumption. reflexivity.
  - rewrite dd_free_alt in Hf. cbn [nonterm_refs all_refs].
    induction H; cbn; [reflexivity|]. destruct Hf as [Hx Hl].
    rewrite map_app, H, IHForall by assumption. reflexivity.
  - destruct Hf.
  - rewrite dd_free_fb in Hf. cbn [nonterm_refs all_refs].
    induction H; cbn; [reflexivity|]. destruct Hf as [Hx Hl].
    rewrite map_app, H, IHForall by assumption. reflexivity.
Qed.

(** *** Named intermediate results of [from_grammar] *)
Definition cv_names (g : grammar) : list (string * span) :=
  map (fun x => (fst (fst x), snd (fst x))) (call_variants g).

Definition expr0_of (g : grammar) : expr :=
  match map snd (call_variants g) with
  | [e] => e
  | es => Alternative es (match es with e :: _ => expr_span e | [] => mkspan 0 0 0 end)
  end.

Definition defs1_of (defs0 : list defn) : list defn :=
  map (fun d => mkdefn (d_name d) (d_span d) (distribute_descriptions (d_rhs d))) defs0.

Definition spec_of (builtins : shell -> list (string * string)) (sh : shell)
           (us : list (string * user_spec)) (fs : list (string * (string * span)))
           (defs1 : list defn) : expr -> expr :=
  specialize sh us (builtins sh) fs (map d_name defs1).

Definition defs2_of (spec : expr -> expr) (defs1 : list defn) : list defn :=
  map (fun d => mkdefn (d_name d) (d_span d) (spec (d_rhs d))) defs1.

Definition table0_of (defs2 : list defn) : list (string * expr) :=
  map (fun d => (d_name d, d_rhs d)) defs2.

Definition referenced_of (defs1 : list defn) (expr1 : expr) : list string :=
  map fst (flat_map (fun d => nonterm_refs (d_rhs d)) defs1 ++ nonterm_refs expr1).

Definition spaces_fuel (table : list (string * expr)) (expr2 : expr) : nat :=
  (S (fold_right (fun p n => expr_size (snd p) + n) (expr_size expr2) table)
   * S (List.length table))%nat.

Definition unused_of (referenced : list string) (defs1 : list defn) : list (string * span) :=
  filter (fun p => negb (mem_str (fst p) referenced)) (map (fun d => (d_name d, d_span d)) defs1).

Definition unused_specs_of (referenced : list string) (us : list (string * user_spec))
  : list (string * span) :=
  filter (fun p => negb (mem_str (fst p) referenced)) (map (fun p => (fst p, us_span (snd p))) us).

(** Everything [from_grammar] computed on the way to [Ok v]. *)
Record accepted (builtins : shell -> list (string * string)) (g : grammar) (sh : shell)
       (v : valid_grammar) : Type := mkacc {
  a_command : string;
  a_cspan : span;
  a_defs0 : list defn;
  a_us : list (string * user_spec);
  a_fs : list (string * (string * span));
  a_ord : list string;
  a_dedup : dedup_names [] (cv_names g) = [(a_command, a_cspan)];
  a_noslash : contains_char slash a_command = false;
  a_collect : collect_plain_defs (all_defs g) [] = Ok a_defs0;
  a_specs : get_specializations g sh = Ok (a_us, a_fs);
  a_defs1 := defs1_of a_defs0;
  a_expr1 := distribute_descriptions (expr0_of g);
  a_spec := spec_of builtins sh a_us a_fs a_defs1;
  a_defs2 := defs2_of a_spec a_defs1;
  a_expr2 := a_spec a_expr1;
  a_order : resolution_order a_defs2 = Ok a_ord;
  a_table := resolve_in_order a_ord (table0_of a_defs2);
  a_spaces : spaces a_table (spaces_fuel a_table a_expr2) a_expr2 [] false false = Ok tt;
  a_expr5 := propagate (collapse (resolve a_table a_expr2)) 0;
  a_referenced := referenced_of a_defs1 a_expr1;
  a_v : v = mkvalid a_command a_expr5 (get_nonterm_refs a_expr5)
                    (unused_of a_referenced a_defs1) (unused_specs_of a_referenced a_us)
}.

Lemma from_grammar_ok builtins g sh v :
  from_grammar builtins g sh = Ok v -> accepted builtins g sh v.
Proof.
  unfold from_grammar. fold (cv_names g). fold (expr0_of g).
  destruct (dedup_names [] (cv_names g)) as [|[command cspan] more] eqn:Hd; [discriminate|].
  destruct more; [|discriminate].
  destruct (contains_char slash command) eqn:Hs; [discriminate|].
  destruct (collect_plain_defs (all_defs g) []) as [defs0| | |] eqn:Hc; cbn [obind]; try discriminate.
  destruct (get_specializations g sh) as [[us fs]| | |] eqn:Hsp; cbn [obind]; try discriminate.
  fold (defs1_of defs0).
  fold (spec_of builtins sh us fs (defs1_of defs0)).
  fold (defs2_of (spec_of builtins sh us fs (defs1_of defs0)) (defs1_of defs0)).
  destruct (resolution_order _) as [ord| | |] eqn:Ho; cbn [obind]; try discriminate.
  fold (table0_of (defs2_of (spec_of builtins sh us fs (defs1_of defs0)) (defs1_of defs0))).
  match goal with |- context [spaces ?t ?f ?e [] false false] => destruct (spaces t f e [] false false) as [[]| | |] eqn:Hsps end;
    cbn [obind]; try discriminate.
  intro H. inversion H; subst v. clear H.
  eapply (mkacc builtins g sh _ command cspan defs0 us fs ord); try eassumption; try reflexivity.
Qed.
