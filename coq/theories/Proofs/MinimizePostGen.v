(** Generic facts about what [do_minimize] does after the loop: the [outcome] monad, the
    representative map, [renumber_states], [hashmap_transitions_from_vec]. *)
From CG Require Import Base.Prelude Model.Dfa Model.Minimize Spec.DfaEquiv Spec.MinimizeSpec
  Proofs.MinimizeBasics Proofs.MinimizeImage.

(** *** the outcome monad *)
Lemma obind_ok {E A B} (x : outcome E A) (f : A -> outcome E B) b :
  obind x f = Ok b -> exists a, x = Ok a /\ f a = Ok b.
Proof. destruct x; cbn [obind]; try discriminate. intro H. eauto. Qed.

Lemma omap_ok {E A B} (f : A -> outcome E B) l l' :
  omap f l = Ok l' -> Forall2 (fun x y => f x = Ok y) l l'.
Proof.
  revert l'. induction l as [|x r IH]; intros l' H; cbn [omap] in H.
  - inversion H. constructor.
  - apply obind_ok in H. destruct H as [y [Hy H]]. apply obind_ok in H. destruct H as [ys [Hys H]].
    inversion H; subst. constructor; [exact Hy|apply IH; exact Hys].
Qed.

Lemma Forall2_map_eq {A B} (g : A -> B) (P : A -> B -> Prop) l l' :
  Forall2 P l l' -> (forall x y, In x l -> P x y -> y = g x) -> l' = map g l.
Proof.
  induction 1 as [|x y r r' Hxy Hr IH]; intro H; cbn [map]; [reflexivity|].
  f_equal; [apply H; [left; reflexivity|exact Hxy]|]. apply IH. intros x' y' Hx'. apply H. right. exact Hx'.
Qed.

Lemma Forall2_In_l {A B} (P : A -> B -> Prop) l l' x :
  Forall2 P l l' -> In x l -> exists y, In y l' /\ P x y.
Proof.
  induction 1 as [|x0 y0 r r' Hxy Hr IH]; intros []; subst.
  - exists y0. split; [left; reflexivity|exact Hxy].
  - destruct (IH H) as [y [H1 H2]]. exists y. split; [right; exact H1|exact H2].
Qed.

(** a lookup function with a default, to talk about successful [rep_get]s *)
Definition getf (m : list (N * N)) (s : N) : N :=
  match assocN s m with Some r => r | None => 0 end.

Lemma rep_get_ok site m s r : rep_get site m s = Ok r <-> assocN s m = Some r.
Proof.
  unfold rep_get. destruct (assocN s m); split; intro H; inversion H; reflexivity.
Qed.

Lemma omap_rep_get site m l l' :
  omap (rep_get site m) l = Ok l' ->
  l' = map (getf m) l /\ forall s, In s l -> assocN s m = Some (getf m s).
Proof.
  intro H. apply omap_ok in H. split.
  - apply (Forall2_map_eq (getf m) _ _ _ H). intros x y _ Hxy. apply rep_get_ok in Hxy.
    unfold getf. rewrite Hxy. reflexivity.
  - intros s Hs. destruct (Forall2_In_l _ _ _ s H Hs) as [y [_ Hy]]. apply rep_get_ok in Hy.
    unfold getf. rewrite Hy. reflexivity.
Qed.

(** *** map_insert and the representative map *)
Lemma map_insert_assoc k v m k' :
  assocN k' (map_insert k v m) = if N.eqb k' k then Some v else assocN k' m.
Proof.
  induction m as [|[k0 v0] r IH]; cbn [map_insert assocN].
  - reflexivity.
  - destruct (N.eqb_spec k0 k) as [->|Hn]; cbn [assocN].
    + destruct (N.eqb_spec k' k); reflexivity.
    + destruct (N.eqb_spec k' k0) as [->|Hn'].
      * destruct (N.eqb_spec k0 k); [contradiction|reflexivity].
      * exact IH.
Qed.

Lemma fold_map_insert_assoc el rep m k :
  assocN k (fold_left (fun m s => map_insert s rep m) el m)
  = if memN k el then Some rep else assocN k m.
Proof.
  revert m. induction el as [|s r IH]; intro m; cbn [fold_left]; [reflexivity|].
  rewrite IH, map_insert_assoc. unfold memN. cbn [existsb]. fold (memN k r).
  destruct (memN k r); [rewrite orb_true_r; reflexivity|]. rewrite orb_false_r. reflexivity.
Qed.

(** result of [representatives]: every state of a block is mapped to the minimum of the last
    block (in iteration order) containing it *)
Lemma representatives_spec pool : forall parts m0 reps,
  ofold (fun m id =>
           match pool_lookup pool id with
           | None => Panic "do_minimize: pool.lookup(*intern_id).unwrap()"
           | Some element =>
               match bm_min element with
               | None => Panic "do_minimize: partition_element.min().unwrap()"
               | Some rep => Ok (fold_left (fun m s => map_insert s rep m) element m)
               end
           end) parts m0 = @Ok noerr _ reps ->
  (forall s r, assocN s reps = Some r ->
               assocN s m0 = Some r
               \/ exists id b, In id parts /\ pool_lookup pool id = Some b /\ In s b /\ bm_min b = Some r)
  /\ (forall id b s, In id parts -> pool_lookup pool id = Some b -> In s b -> assocN s reps <> None)
  /\ (forall s, assocN s m0 <> None -> assocN s reps <> None).
Proof.
  induction parts as [|id r IH]; intros m0 reps H; cbn [ofold] in H.
  - inversion H; subst. split; [auto|]. split; [intros ? ? ? []|auto].
  - apply obind_ok in H. destruct H as [m1 [H1 H2]].
    destruct (pool_lookup pool id) as [el|] eqn:L; [|discriminate].
    destruct (bm_min el) as [rp|] eqn:Emin; [|discriminate]. inversion H1; subst m1. clear H1.
    destruct (IH _ _ H2) as [I1 [I2 I3]]. split; [|split].
    + intros s r0 Hs. destruct (I1 s r0 Hs) as [Hm|[id' [b [A [B [C0 D]]]]]].
      * rewrite fold_map_insert_assoc in Hm. destruct (memN s el) eqn:Em.
        -- inversion Hm; subst. right. exists id, el. apply memN_iff in Em. split; [left; reflexivity|auto].
        -- auto.
      * right. exists id', b. split; [right; exact A|auto].
    + intros id' b s [->|Hid] Lb Hs.
      * rewrite L in Lb. inversion Lb; subst. apply I3. rewrite fold_map_insert_assoc.
        apply memN_iff in Hs. rewrite Hs. discriminate.
      * eapply I2; eauto.
    + intros s Hs. apply I3. rewrite fold_map_insert_assoc. destruct (memN s el); [discriminate|exact Hs].
Qed.

(** *** renumber_states *)
Definition alloc_inv (st : list (N * N) * N) : Prop :=
  NoDup (map snd (fst st)) /\ forall k v, In (k, v) (fst st) -> v < snd st.

Lemma alloc_spec old st :
  alloc_inv st ->
  alloc_inv (alloc old st)
  /\ assocN old (fst (alloc old st)) <> None
  /\ (forall k v, assocN k (fst st) = Some v -> assocN k (fst (alloc old st)) = Some v).
Proof.
  intros [ND Lt]. unfold alloc. destruct (assocN old (fst st)) as [v|] eqn:E.
  - split; [split; assumption|]. split; [congruence|auto].
  - unfold alloc_inv. cbn [fst snd]. split; [split|split].
    + rewrite map_app. cbn [map snd]. apply NoDup_snoc; [exact ND|].
      intro F. apply in_map_iff in F. destruct F as [[k v] [Ev F]]. cbn [snd] in Ev. subst v.
      specialize (Lt _ _ F). lia.
    + intros k v H. apply in_app_iff in H. destruct H as [H|[H|[]]].
      * specialize (Lt _ _ H). lia.
      * inversion H; subst. lia.
    + clear ND Lt. induction (fst st) as [|[k0 v0] r IH]; cbn [app assocN] in *.
      * rewrite N.eqb_refl. discriminate.
      * destruct (N.eqb_spec old k0); [discriminate|]. apply IH. exact E.
    + intros k v H. clear ND Lt E. induction (fst st) as [|[k0 v0] r IH]; cbn [app assocN] in *; [discriminate|].
      destruct (N.eqb_spec k k0); [exact H|apply IH; exact H].
Qed.

Lemma alloc_fold_spec ks : forall st,
  alloc_inv st ->
  let st' := fold_left (fun st k => alloc k st) ks st in
  alloc_inv st'
  /\ (forall k, In k ks -> assocN k (fst st') <> None)
  /\ (forall k v, assocN k (fst st) = Some v -> assocN k (fst st') = Some v).
Proof.
  induction ks as [|k0 r IH]; intros st I; cbn [fold_left].
  - split; [exact I|]. split; [intros ? []|auto].
  - destruct (alloc_spec k0 st I) as [I1 [I2 I3]].
    destruct (IH _ I1) as [J1 [J2 J3]]. split; [exact J1|]. split.
    + intros k [->|Hk]; [|apply J2; exact Hk].
      destruct (assocN k (fst (alloc k st))) as [v|] eqn:E; [|congruence].
      rewrite (J3 _ _ E). discriminate.
    + intros k v H. apply J3, I3, H.
Qed.

Definition renumber_keys (starting_state : N) (ts : list transition) : list N :=
  starting_state :: flat_map (fun t => [tr_from t; tr_to t]) ts.

Definition renumber_map (starting_state : N) (ts : list transition) : list (N * N) :=
  fst (fold_left (fun st t => alloc (tr_to t) (alloc (tr_from t) st)) ts (alloc starting_state ([], 0))).

Lemma renumber_map_eq s ts :
  renumber_map s ts = fst (fold_left (fun st k => alloc k st) (renumber_keys s ts) ([], 0)).
Proof.
  unfold renumber_map, renumber_keys. cbn [fold_left].
  generalize (alloc s ([], 0)). induction ts as [|t r IH]; intro st; cbn [fold_left flat_map app]; [reflexivity|].
  apply IH.
Qed.

Lemma assocN_inj_values (m : list (N * N)) k k' v :
  NoDup (map snd m) -> assocN k m = Some v -> assocN k' m = Some v -> k = k'.
Proof.
  intros ND H H'. apply assocN_In in H. apply assocN_In in H'.
  induction m as [|[k0 v0] r IH]; [contradiction|]. cbn [map snd] in ND.
  inversion ND as [|? ? Hn Hr]; subst.
  destruct H as [H|H], H' as [H'|H'].
  - congruence.
  - inversion H; subst. exfalso. apply Hn. apply in_map_iff. exists (k', v). auto.
  - inversion H'; subst. exfalso. apply Hn. apply in_map_iff. exists (k, v). auto.
  - apply IH; assumption.
Qed.

Lemma renumber_map_spec s ts :
  let nf := renumber_map s ts in
  (forall k, In k (renumber_keys s ts) -> assocN k nf <> None)
  /\ (forall k k' v, assocN k nf = Some v -> assocN k' nf = Some v -> k = k').
Proof.
  cbn zeta. rewrite renumber_map_eq.
  assert (I0 : alloc_inv ([], 0)) by (split; [constructor|intros ? ? []]).
  destruct (alloc_fold_spec (renumber_keys s ts) _ I0) as [[ND _] [J2 _]].
  split; [exact J2|]. intros k k' v. apply assocN_inj_values. exact ND.
Qed.

Lemma renumber_states_ok s ts acc s' ts' acc' :
  renumber_states s ts acc = Ok (s', ts', acc') ->
  let nf := renumber_map s ts in
  let rho := getf nf in
  s' = rho s
  /\ ts' = map (fun t => mktr (rho (tr_from t)) (rho (tr_to t)) (tr_input t)) ts
  /\ acc' = bm_from_iter (map rho acc)
  /\ (forall a, In a acc -> assocN a nf = Some (rho a)).
Proof.
  unfold renumber_states. fold (renumber_map s ts). intro H. cbn zeta.
  apply obind_ok in H. destruct H as [s1 [H1 H]]. apply rep_get_ok in H1.
  apply obind_ok in H. destruct H as [ts1 [H2 H]].
  apply obind_ok in H. destruct H as [acc1 [H3 H]]. inversion H; subst. clear H.
  apply omap_rep_get in H3. destruct H3 as [H3 H3'].
  split; [unfold getf; rewrite H1; reflexivity|]. split; [|split; [rewrite H3; reflexivity|exact H3']].
  apply omap_ok in H2. apply (Forall2_map_eq _ _ _ _ H2).
  intros t y _ Hy. apply obind_ok in Hy. destruct Hy as [f [Hf Hy]].
  apply obind_ok in Hy. destruct Hy as [to [Hto Hy]]. inversion Hy; subst.
  apply rep_get_ok in Hf. apply rep_get_ok in Hto. unfold getf. rewrite Hf, Hto. reflexivity.
Qed.

(** *** hashmap_transitions_from_vec *)
Definition tbl_step (tbl : list (N * list (N * N))) (s i : N) : option N :=
  match assocN s tbl with Some row => assocN i row | None => None end.

Lemma row_insert_assoc i t row j :
  assocN j (row_insert i t row) = if N.eqb j i then Some t else assocN j row.
Proof.
  induction row as [|[i0 t0] r IH]; cbn [row_insert assocN]; [reflexivity|].
  destruct (N.eqb_spec i0 i) as [->|Hn]; cbn [assocN].
  - destruct (N.eqb_spec j i); reflexivity.
  - destruct (N.eqb_spec j i0) as [->|Hn'].
    + destruct (N.eqb_spec i0 i); [contradiction|reflexivity].
    + exact IH.
Qed.

Lemma tbl_insert_step f i t tbl s j :
  tbl_step (tbl_insert f i t tbl) s j
  = if N.eqb s f && N.eqb j i then Some t else tbl_step tbl s j.
Proof.
  unfold tbl_step. induction tbl as [|[f0 row] r IH]; cbn [tbl_insert assocN].
  - destruct (N.eqb_spec s f); cbn [andb assocN]; [|reflexivity].
    destruct (N.eqb_spec j i); reflexivity.
  - destruct (N.eqb_spec f0 f) as [->|Hn]; cbn [assocN].
    + destruct (N.eqb_spec s f); cbn [andb]; [|reflexivity]. apply row_insert_assoc.
    + destruct (N.eqb_spec s f0) as [->|Hn'].
      * destruct (N.eqb_spec f0 f); [contradiction|reflexivity].
      * exact IH.
Qed.

Fixpoint tfind (ts : list transition) (s i : N) (acc : option N) : option N :=
  match ts with
  | [] => acc
  | t :: r => tfind r s i (if N.eqb s (tr_from t) && N.eqb i (tr_input t) then Some (tr_to t) else acc)
  end.

Lemma hashmap_step_gen ts : forall tbl s i,
  tbl_step (fold_left (fun tbl t => tbl_insert (tr_from t) (tr_input t) (tr_to t) tbl) ts tbl) s i
  = tfind ts s i (tbl_step tbl s i).
Proof.
  induction ts as [|t r IH]; intros tbl s i; cbn [fold_left tfind]; [reflexivity|].
  rewrite IH, tbl_insert_step. reflexivity.
Qed.

Lemma tfind_some ts s i : forall acc to,
  tfind ts s i acc = Some to -> In (mktr s to i) ts \/ acc = Some to.
Proof.
  induction ts as [|t r IH]; intros acc to H; cbn [tfind] in H; [auto|].
  destruct (IH _ _ H) as [H'|H']; [left; right; exact H'|].
  destruct (N.eqb_spec s (tr_from t)) as [Es|Es]; cbn [andb] in H'; [|auto].
  destruct (N.eqb_spec i (tr_input t)) as [Ei|Ei]; [|auto].
  inversion H'; subst. left. left. destruct t; reflexivity.
Qed.

Lemma tfind_in ts s i to :
  (forall t, In t ts -> tr_from t = s -> tr_input t = i -> tr_to t = to) ->
  forall acc, (acc = Some to \/ exists t, In t ts /\ tr_from t = s /\ tr_input t = i) ->
  tfind ts s i acc = Some to.
Proof.
  induction ts as [|t r IH]; intros F acc H; cbn [tfind].
  - destruct H as [H|[t [[] _]]]. exact H.
  - assert (F' : forall t, In t r -> tr_from t = s -> tr_input t = i -> tr_to t = to).
    { intros t1 H1. apply F. right. exact H1. }
    apply (IH F').
    destruct (N.eqb_spec s (tr_from t)) as [Es|Es]; cbn [andb].
    + destruct (N.eqb_spec i (tr_input t)) as [Ei|Ei].
      * left. f_equal. apply F; [left; reflexivity|auto|auto].
      * destruct H as [H|[t1 [[->|H1] [E1 E2]]]]; [auto|congruence|right; exists t1; auto].
    + destruct H as [H|[t1 [[->|H1] [E1 E2]]]]; [auto|congruence|right; exists t1; auto].
Qed.

(** the step function of the table built from a list of transitions in which a source and an
    input determine the target *)
Lemma hashmap_step ts s i to :
  (forall t t', In t ts -> In t' ts -> tr_from t = tr_from t' -> tr_input t = tr_input t' -> tr_to t = tr_to t') ->
  (tbl_step (hashmap_transitions_from_vec ts) s i = Some to <-> In (mktr s to i) ts).
Proof.
  intro F. unfold hashmap_transitions_from_vec. rewrite hashmap_step_gen.
  change (tbl_step [] s i) with (@None N). split.
  - intro H. destruct (tfind_some _ _ _ _ _ H) as [H'|H']; [exact H'|discriminate].
  - intro H. apply tfind_in.
    + intros t Ht E1 E2. apply (F t (mktr s to i)); auto.
    + right. exists (mktr s to i). auto.
Qed.

(** every entry of the table comes from a transition of the list *)
Lemma row_insert_entries i t row i0 t0 :
  In (i0, t0) (row_insert i t row) -> (i0 = i /\ t0 = t) \/ In (i0, t0) row.
Proof.
  induction row as [|[i1 t1] r IH]; cbn [row_insert].
  - intros [H|[]]. inversion H. auto.
  - destruct (N.eqb_spec i1 i) as [->|Hn]; cbn [In].
    + intros [H|H]; [inversion H; auto|auto].
    + intros [H|H]; [auto|]. destruct (IH H); auto.
Qed.

Lemma tbl_insert_entries f i t tbl f0 row i0 t0 :
  In (f0, row) (tbl_insert f i t tbl) -> In (i0, t0) row ->
  (f0 = f /\ i0 = i /\ t0 = t) \/ exists row', In (f0, row') tbl /\ In (i0, t0) row'.
Proof.
  induction tbl as [|[f1 row1] r IH]; cbn [tbl_insert].
  - intros [H|[]] H'. inversion H; subst. destruct H' as [H'|[]]. inversion H'. auto.
  - destruct (N.eqb_spec f1 f) as [->|Hn]; cbn [In].
    + intros [H|H] H'.
      * inversion H; subst. destruct (row_insert_entries _ _ _ _ _ H') as [[-> ->]|H'']; [auto|].
        right. exists row1. auto.
      * right. exists row. auto.
    + intros [H|H] H'.
      * inversion H; subst. right. exists row. auto.
      * destruct (IH H H') as [H''|[row' [H1 H2]]]; [auto|]. right. exists row'. auto.
Qed.

Lemma tbl_insert_keys f i t tbl f0 :
  In f0 (map fst (tbl_insert f i t tbl)) -> f0 = f \/ In f0 (map fst tbl).
Proof.
  induction tbl as [|[f1 row1] r IH]; cbn [tbl_insert map fst In].
  - intros [H|[]]. auto.
  - destruct (N.eqb_spec f1 f) as [->|Hn]; cbn [map fst In].
    + intros [H|H]; auto.
    + intros [H|H]; [auto|]. destruct (IH H); auto.
Qed.

Lemma hashmap_entries ts f0 row i0 t0 :
  In (f0, row) (hashmap_transitions_from_vec ts) -> In (i0, t0) row -> In (mktr f0 t0 i0) ts.
Proof.
  unfold hashmap_transitions_from_vec.
  assert (Gen : forall ts tbl,
             In (f0, row) (fold_left (fun tbl t => tbl_insert (tr_from t) (tr_input t) (tr_to t) tbl) ts tbl) ->
             In (i0, t0) row ->
             In (mktr f0 t0 i0) ts \/ exists row', In (f0, row') tbl /\ In (i0, t0) row').
  { clear ts. induction ts as [|t r IH]; intros tbl H H'; cbn [fold_left] in H.
    - right. exists row. auto.
    - destruct (IH _ H H') as [I|[row' [I1 I2]]]; [left; right; exact I|].
      destruct (tbl_insert_entries _ _ _ _ _ _ _ _ I1 I2) as [[-> [-> ->]]|[row'' [J1 J2]]].
      + left. left. destruct t; reflexivity.
      + right. exists row''. auto. }
  intros H H'. destruct (Gen ts [] H H') as [I|[row' [[] _]]]. exact I.
Qed.

Lemma hashmap_keys ts f0 :
  In f0 (map fst (hashmap_transitions_from_vec ts)) -> exists t, In t ts /\ tr_from t = f0.
Proof.
  unfold hashmap_transitions_from_vec.
  assert (Gen : forall ts tbl,
             In f0 (map fst (fold_left (fun tbl t => tbl_insert (tr_from t) (tr_input t) (tr_to t) tbl) ts tbl)) ->
             (exists t, In t ts /\ tr_from t = f0) \/ In f0 (map fst tbl)).
  { clear ts. induction ts as [|t r IH]; intros tbl H; cbn [fold_left] in H.
    - auto.
    - destruct (IH _ H) as [[t1 [I1 I2]]|I]; [left; exists t1; split; [right; exact I1|exact I2]|].
      destruct (tbl_insert_keys _ _ _ _ _ I) as [->|J]; [|auto].
      left. exists t. split; [left; reflexivity|reflexivity]. }
  intro H. destruct (Gen ts [] H) as [I|[]]. exact I.
Qed.
