(** Facts about [Spec.Meaning] that do not depend on the model of the bash script:
    - [step_spec]: reading one word follows exactly the items chosen by the rule of the property
      text (literal first, catch-all last);
    - [run_sound]: every residual reached by reading words is a residual of the grammar by a
      sequence of items that accept those words (soundness w.r.t. the inductive denotation);
    - [lowest_spec], [complete_levels]: the candidates offered all carry the lowest level that has one;
    - [state_cands_prefix]: every candidate extends the typed word;
    - word-break stripping lemmas. *)
From CG Require Import Base.Prelude Model.Ast Spec.Rx Spec.Meaning Proofs.RxFacts.

(** *** Boolean equalities *)
Lemma option_eqb_str_sound (x y : option string) : option_eqb String.eqb x y = true -> x = y.
Proof.
  destruct x, y; cbn; intro H; try discriminate; try reflexivity.
  apply String.eqb_eq in H. subst; reflexivity.
Qed.

Lemma wleaf_eqb_sound a b : wleaf_eqb a b = true -> a = b.
Proof.
  destruct a, b; cbn [wleaf_eqb]; intro H; try discriminate; try reflexivity.
  - apply andb_true_iff in H. destruct H as [H Hl]. apply andb_true_iff in H. destruct H as [Ht Hd].
    apply String.eqb_eq in Ht. apply option_eqb_str_sound in Hd. apply N.eqb_eq in Hl. subst; reflexivity.
  - apply andb_true_iff in H. destruct H as [Hc Hl].
    apply String.eqb_eq in Hc. apply N.eqb_eq in Hl. subst; reflexivity.
Qed.

Lemma leaf_eqb_sound a b : leaf_eqb a b = true -> a = b.
Proof.
  destruct a, b; cbn [leaf_eqb]; intro H; try discriminate; try reflexivity.
  - apply andb_true_iff in H. destruct H as [H Hl]. apply andb_true_iff in H. destruct H as [Ht Hd].
    apply String.eqb_eq in Ht. apply option_eqb_str_sound in Hd. apply N.eqb_eq in Hl. subst; reflexivity.
  - apply andb_true_iff in H. destruct H as [Hc Hl].
    apply String.eqb_eq in Hc. apply N.eqb_eq in Hl. subst; reflexivity.
  - apply andb_true_iff in H. destruct H as [Hw Hl].
    apply (rx_eqb_sound wleaf_eqb wleaf_eqb_sound) in Hw. apply N.eqb_eq in Hl. subst; reflexivity.
Qed.

Lemma dedup_state_In k l : In k (dedup_state l) <-> In k l.
Proof. apply (dedup_rx_In leaf_eqb leaf_eqb_sound). Qed.

(** *** Which items accept a word *)
Definition reads (en : env) (a : leaf) (w : string) : Prop :=
  match a with
  | LLit t _ _ => t = w
  | LCmd c _ => In w (candidates en c)
  | LAny => True
  | LSub x _ => waccepts en x w = true
  end.

Definition is_lit (a : leaf) : bool := match a with LLit _ _ _ => true | _ => false end.
Definition is_any (a : leaf) : bool := match a with LAny => true | _ => false end.

(** Some expected literal equals the word. *)
Definition lit_expected (mv : list (leaf * rx leaf)) (w : string) : Prop :=
  exists d l k, In (LLit w d l, k) mv.

(** Some expected within-word expression or command accepts the word. *)
Definition mid_expected (en : env) (mv : list (leaf * rx leaf)) (w : string) : Prop :=
  exists a k, In (a, k) mv /\ mid_accepts en a w = true.

(** The rule of the property text: "a word equal to an expected literal is read as that literal";
    a catch-all is used only when nothing else accepts the word. *)
Definition chosen (en : env) (mv : list (leaf * rx leaf)) (w : string) (a : leaf) : Prop :=
  match a with
  | LLit t _ _ => t = w
  | LCmd _ _ | LSub _ _ => mid_accepts en a w = true /\ ~ lit_expected mv w
  | LAny => ~ lit_expected mv w /\ ~ mid_expected en mv w
  end.

Lemma mem_str_In w l : mem_str w l = true <-> In w l.
Proof.
  unfold mem_str. rewrite existsb_exists. split.
  - intros [x [Hin Hx]]. apply String.eqb_eq in Hx. subst; assumption.
  - intro H. exists w. split; [assumption | apply String.eqb_refl].
Qed.

Lemma chosen_reads en mv w a : chosen en mv w a -> reads en a w.
Proof.
  destruct a; cbn [chosen reads mid_accepts]; intro H.
  - assumption.
  - destruct H as [H _]. apply mem_str_In. assumption.
  - exact I.
  - destruct H as [H _]. assumption.
Qed.

Lemma lit_next_In w mv k :
  In k (lit_next w mv) <-> exists d l, In (LLit w d l, k) mv.
Proof.
  unfold lit_next. rewrite in_flat_map. split.
  - intros [[a k'] [Hin H]]. cbn [fst snd] in H. destruct a; try solve [destruct H].
    destruct (String.eqb t w) eqn:E; [| destruct H].
    apply String.eqb_eq in E. subst. destruct H as [-> | []]. eauto.
  - intros [d [l Hin]]. exists (LLit w d l, k). split; [assumption |].
    cbn [fst snd]. rewrite String.eqb_refl. left; reflexivity.
Qed.

Lemma lit_next_nil w mv : lit_next w mv = [] <-> ~ lit_expected mv w.
Proof.
  split.
  - intros E [d [l [k Hin]]].
    assert (H : In k (lit_next w mv)) by (apply lit_next_In; eauto).
    rewrite E in H. destruct H.
  - intro H. destruct (lit_next w mv) as [| k r] eqn:E; [reflexivity |].
    exfalso. apply H.
    assert (Hk : In k (lit_next w mv)) by (rewrite E; left; reflexivity).
    apply lit_next_In in Hk. destruct Hk as [d [l Hin]]. exists d, l, k. assumption.
Qed.

Lemma mid_next_In en w mv k :
  In k (mid_next en w mv) <-> exists a, In (a, k) mv /\ mid_accepts en a w = true.
Proof.
  unfold mid_next. rewrite in_flat_map. split.
  - intros [[a k'] [Hin H]]. cbn [fst snd] in H.
    destruct (mid_accepts en a w) eqn:E; [| destruct H].
    destruct H as [-> | []]. eauto.
  - intros [a [Hin E]]. exists (a, k). split; [assumption |].
    cbn [fst snd]. rewrite E. left; reflexivity.
Qed.

Lemma mid_next_nil en w mv : mid_next en w mv = [] <-> ~ mid_expected en mv w.
Proof.
  split.
  - intros E [a [k [Hin Ha]]].
    assert (H : In k (mid_next en w mv)) by (apply mid_next_In; eauto).
    rewrite E in H. destruct H.
  - intro H. destruct (mid_next en w mv) as [| k r] eqn:E; [reflexivity |].
    exfalso. apply H.
    assert (Hk : In k (mid_next en w mv)) by (rewrite E; left; reflexivity).
    apply mid_next_In in Hk. destruct Hk as [a [Hin Ha]]. exists a, k. split; assumption.
Qed.

Lemma any_next_In mv k : In k (any_next mv) <-> In (LAny, k) mv.
Proof.
  unfold any_next. rewrite in_flat_map. split.
  - intros [[a k'] [Hin H]]. cbn [fst snd] in H. destruct a; try solve [destruct H].
    destruct H as [-> | []]. assumption.
  - intro Hin. exists (LAny, k). split; [assumption | left; reflexivity].
Qed.

Lemma mid_accepts_not_lit en a w : mid_accepts en a w = true -> is_lit a = false /\ is_any a = false.
Proof. destruct a; cbn; intro H; try discriminate; split; reflexivity. Qed.

(** Reading one word follows exactly the continuations of the chosen items. *)
Theorem step_spec en s w k :
  In k (step en s w) <-> exists a, In (a, k) (moves s) /\ chosen en (moves s) w a.
Proof.
  unfold step. set (mv := moves s).
  destruct (lit_next w mv) as [| k0 r0] eqn:El.
  - assert (Hnl : ~ lit_expected mv w) by (apply lit_next_nil; assumption).
    destruct (mid_next en w mv) as [| k1 r1] eqn:Em.
    + assert (Hnm : ~ mid_expected en mv w) by (apply mid_next_nil; assumption).
      rewrite dedup_state_In, any_next_In. split.
      * intro Hin. exists LAny. split; [assumption | split; assumption].
      * intros [a [Hin Hc]]. destruct a; cbn [chosen] in Hc.
        -- subst. exfalso. apply Hnl. exists d, lvl, k. assumption.
        -- destruct Hc as [Hc _]. exfalso. apply Hnm. exists (LCmd c lvl), k. split; assumption.
        -- assumption.
        -- destruct Hc as [Hc _]. exfalso. apply Hnm. exists (LSub w0 lvl), k. split; assumption.
    + rewrite dedup_state_In, <- Em, mid_next_In. split.
      * intros [a [Hin Ha]]. exists a. split; [assumption |].
        destruct a; cbn [mid_accepts] in Ha; try discriminate; cbn [chosen mid_accepts]; split; assumption.
      * intros [a [Hin Hc]]. destruct a; cbn [chosen] in Hc.
        -- subst. exfalso. apply Hnl. exists d, lvl, k. assumption.
        -- destruct Hc as [Hc _]. exists (LCmd c lvl). split; assumption.
        -- destruct Hc as [_ Hc]. exfalso. apply Hc.
           assert (Hk : In k1 (mid_next en w mv)) by (rewrite Em; left; reflexivity).
           apply mid_next_In in Hk. destruct Hk as [a [Hin' Ha]]. exists a, k1. split; assumption.
        -- destruct Hc as [Hc _]. exists (LSub w0 lvl). split; assumption.
  - assert (Hl : lit_expected mv w).
    { assert (Hk : In k0 (lit_next w mv)) by (rewrite El; left; reflexivity).
      apply lit_next_In in Hk. destruct Hk as [d [l Hin]]. exists d, l, k0. assumption. }
    rewrite dedup_state_In, <- El, lit_next_In. split.
    + intros [d [l Hin]]. exists (LLit w d l). split; [assumption | reflexivity].
    + intros [a [Hin Hc]]. destruct a; cbn [chosen] in Hc.
      * subst. eauto.
      * destruct Hc as [_ Hc]. contradiction.
      * destruct Hc as [Hc _]. contradiction.
      * destruct Hc as [_ Hc]. contradiction.
Qed.

Lemma moves_In (s : state) a k : In (a, k) (moves s) <-> exists r, In r s /\ In (a, k) (lf r).
Proof. unfold moves. rewrite in_flat_map. reflexivity. Qed.

(** Soundness of residuals: whatever continues a residual reached by reading [ws] continues the
    original expression after a sequence of items that accept those words one by one. *)
Theorem run_sound en : forall ws s k,
    In k (run en s ws) ->
    exists r items, In r s /\ Forall2 (reads en) items ws
                    /\ forall rest, denotes k rest -> denotes r (items ++ rest).
Proof.
  induction ws as [| w ws IH]; intros s k Hin.
  - cbn in Hin. exists k, []. split; [assumption | split; [constructor | intros; assumption]].
  - cbn [run fold_left] in Hin. change (In k (run en (step en s w) ws)) in Hin.
    destruct (IH _ _ Hin) as [r1 [items [Hr1 [Hf Hd]]]].
    apply step_spec in Hr1. destruct Hr1 as [a [Hmv Hc]].
    apply moves_In in Hmv. destruct Hmv as [r [Hr Hlf]].
    exists r, (a :: items). split; [assumption | split].
    + constructor; [eapply chosen_reads; eassumption | assumption].
    + intros rest Hk. cbn [app]. eapply lf_sound; [eassumption |]. apply Hd. assumption.
Qed.

Corollary matched_sound en e ws :
  matched en e ws = true ->
  exists items k, Forall2 (reads en) items ws
                  /\ forall rest, denotes k rest -> denotes (tr e) (items ++ rest).
Proof.
  unfold matched. destruct (run en (start e) ws) as [| k r] eqn:E; [discriminate |]. intros _.
  assert (Hin : In k (run en (start e) ws)) by (rewrite E; left; reflexivity).
  destruct (run_sound en ws _ _ Hin) as [r0 [items [Hr0 [Hf Hd]]]].
  destruct Hr0 as [<- | []]. exists items, k. split; assumption.
Qed.

(** *** Levels *)
Lemma fold_min_le (r : list (N * string)) : forall m, fold_left (fun m c => N.min m (fst c)) r m <= m.
Proof.
  induction r as [| c r IH]; intro m; cbn [fold_left]; [lia |].
  specialize (IH (N.min m (fst c))). lia.
Qed.

Lemma fold_min_lower (r : list (N * string)) :
  forall m c, In c r -> fold_left (fun m c => N.min m (fst c)) r m <= fst c.
Proof.
  induction r as [| c0 r IH]; intros m c Hin; [destruct Hin |].
  cbn [fold_left]. destruct Hin as [-> | Hin].
  - pose proof (fold_min_le r (N.min m (fst c))). lia.
  - apply IH. assumption.
Qed.

Lemma fold_min_attained (r : list (N * string)) :
  forall m, fold_left (fun m c => N.min m (fst c)) r m = m
            \/ exists c, In c r /\ fold_left (fun m c => N.min m (fst c)) r m = fst c.
Proof.
  induction r as [| c0 r IH]; intro m; cbn [fold_left]; [left; reflexivity |].
  destruct (IH (N.min m (fst c0))) as [E | [c [Hin E]]].
  - rewrite E. destruct (N.min_spec m (fst c0)) as [[_ Hm] | [_ Hm]]; rewrite Hm.
    + left; reflexivity.
    + right. exists c0. split; [left; reflexivity | reflexivity].
  - right. exists c. split; [right; assumption | assumption].
Qed.

(** The candidates offered are those of the lowest level that has any. *)
Theorem lowest_spec cs c :
  In c (lowest cs) <->
  exists l, In (l, c) cs /\ forall l' c', In (l', c') cs -> l <= l'.
Proof.
  unfold lowest. destruct cs as [| c0 r]; [cbn; split; [intros [] | intros [l [[] _]]] |].
  set (m := fold_left (fun m c => N.min m (fst c)) r (fst c0)).
  assert (Hlow : forall x, In x (c0 :: r) -> m <= fst x).
  { intros x [<- | Hx]; [apply fold_min_le | apply fold_min_lower; assumption]. }
  assert (Hatt : exists x, In x (c0 :: r) /\ m = fst x).
  { destruct (fold_min_attained r (fst c0)) as [E | [x [Hx E]]].
    - exists c0. split; [left; reflexivity | assumption].
    - exists x. split; [right; assumption | assumption]. }
  rewrite in_map_iff. split.
  - intros [[l c1] [E Hin]]. cbn [snd] in E. subst c1.
    apply filter_In in Hin. destruct Hin as [Hin Hl]. cbn [fst] in Hl. apply N.eqb_eq in Hl. subst l.
    exists m. split; [assumption |]. intros l' c' H'. apply (Hlow (l', c')). assumption.
  - intros [l [Hin Hmin]]. exists (l, c). split; [reflexivity |].
    apply filter_In. split; [assumption |]. cbn [fst]. apply N.eqb_eq.
    destruct Hatt as [[lx cx] [Hx Em]]. cbn [fst] in Em.
    pose proof (Hmin _ _ Hx). pose proof (Hlow _ Hin). cbn [fst] in *. lia.
Qed.

Corollary lowest_incl cs c : In c (lowest cs) -> In c (map snd cs).
Proof.
  intro H. apply lowest_spec in H. destruct H as [l [Hin _]].
  apply in_map_iff. exists (l, c). split; [reflexivity | assumption].
Qed.

(** "every candidate ... is also offered ... whenever no candidate of an earlier branch extends
    the typed prefix": a candidate none of whose competitors has a lower level is offered. *)
Corollary lowest_offers cs l c :
  In (l, c) cs -> (forall l' c', In (l', c') cs -> l <= l') -> In c (lowest cs).
Proof. intros H1 H2. apply lowest_spec. exists l. split; assumption. Qed.

(** *** Strings and word breaks *)
Lemma sdrop_app (s t : string) : sdrop (String.length s) (append s t) = t.
Proof. induction s; cbn; [reflexivity | assumption]. Qed.

Lemma last_break_le wb p : (last_break wb p <= String.length p)%nat.
Proof.
  induction p as [| a r IH]; cbn [last_break String.length]; [lia |].
  destruct (last_break wb r); [destruct (contains_char a wb); lia | lia].
Qed.

Lemma last_break_nil p : last_break EmptyString p = O.
Proof.
  induction p as [| a r IH]; cbn [last_break]; [reflexivity |]. rewrite IH. reflexivity.
Qed.

(** With an empty COMP_WORDBREAKS nothing is stripped. *)
Lemma strip_no_breaks p c : strip EmptyString p c = c.
Proof. unfold strip. rewrite last_break_nil. reflexivity. Qed.

Lemma sdrop_append_le n : forall p x, (n <= String.length p)%nat ->
                                      sdrop n (append p x) = append (sdrop n p) x.
Proof.
  induction n as [| n IH]; intros p x H; [reflexivity |].
  destruct p as [| a r]; cbn [String.length] in H; [lia |].
  cbn [append sdrop]. apply IH. lia.
Qed.

(** Stripping only touches the typed part: a candidate [p ++ x] is shown as what is left of [p]
    after its last word break, followed by [x]. *)
Theorem strip_extends wb p x : strip wb p (append p x) = append (strip wb p p) x.
Proof. unfold strip. apply sdrop_append_le. apply last_break_le. Qed.

Fixpoint has_break (wb s : string) : bool :=
  match s with
  | EmptyString => false
  | String a r => contains_char a wb || has_break wb r
  end.

Lemma last_break_zero wb p : last_break wb p = O -> has_break wb p = false.
Proof.
  induction p as [| a r IH]; cbn [last_break has_break]; [reflexivity |].
  destruct (last_break wb r) eqn:E; [| discriminate].
  destruct (contains_char a wb); [discriminate |]. intros _. cbn. apply IH. reflexivity.
Qed.

(** What is left of the typed word contains no word-break character ... *)
Theorem strip_no_break_left wb p : has_break wb (strip wb p p) = false.
Proof.
  unfold strip. induction p as [| a r IH]; [reflexivity |].
  cbn [last_break]. destruct (last_break wb r) eqn:E.
  - destruct (contains_char a wb) eqn:Ea.
    + cbn [sdrop]. apply last_break_zero. assumption.
    + cbn [sdrop has_break]. rewrite Ea. cbn. apply last_break_zero. assumption.
  - cbn [sdrop]. cbn [sdrop] in IH. assumption.
Qed.

(** ... and a typed word without word-break characters is not touched. *)
Theorem strip_id wb p c : has_break wb p = false -> strip wb p c = c.
Proof.
  unfold strip. intro H.
  assert (E : last_break wb p = O).
  { induction p as [| a r IH]; [reflexivity |].
    cbn [has_break] in H. apply orb_false_iff in H. destruct H as [Ha Hr].
    cbn [last_break]. rewrite (IH Hr), Ha. reflexivity. }
  rewrite E. reflexivity.
Qed.

(** *** Every candidate extends the typed word *)
Lemma prefix_split s : forall t, String.prefix s t = true -> t = append s (sdrop (String.length s) t).
Proof.
  induction s as [| a s IH]; intros t H; [reflexivity |].
  destruct t as [| b t]; cbn [String.prefix] in H; [discriminate |].
  destruct (Ascii.ascii_dec a b) as [-> | Ne]; [| discriminate].
  cbn [String.length sdrop append]. f_equal. apply IH. assumption.
Qed.

Lemma prefix_app d : forall r t, String.prefix (append d r) (append d t) = String.prefix r t.
Proof.
  induction d as [| a d IH]; intros r t; [reflexivity |].
  cbn [append String.prefix]. destruct (Ascii.ascii_dec a a) as [_ | Ne]; [apply IH | contradiction].
Qed.

Lemma prefix_append_r p : forall t x, String.prefix p t = true -> String.prefix p (append t x) = true.
Proof.
  induction p as [| a p IH]; intros t x H; [destruct (append t x); reflexivity |].
  destruct t as [| b t]; cbn [String.prefix] in H; [discriminate |].
  cbn [append String.prefix]. destruct (Ascii.ascii_dec a b); [apply IH; assumption | discriminate].
Qed.

Lemma append_nil_r s : append s EmptyString = s.
Proof. induction s as [| a s IH]; cbn; [reflexivity | rewrite IH; reflexivity]. Qed.

Lemma append_assoc a : forall b c, append (append a b) c = append a (append b c).
Proof. induction a as [| x a IH]; intros b c; cbn; [reflexivity | rewrite IH; reflexivity]. Qed.

Lemma wconsume_split en a r tok rest : In (tok, rest) (wconsume en a r) -> r = append tok rest.
Proof.
  destruct a as [t d l | c l |]; cbn [wconsume].
  - destruct (nonempty t && String.prefix t r) eqn:E; [| intros []].
    apply andb_true_iff in E. destruct E as [_ E].
    intros [H | []]. inversion H; subst. apply prefix_split. assumption.
  - intro H. apply in_flat_map in H. destruct H as [o [_ H]].
    destruct (nonempty o && String.prefix o r) eqn:E; [| destruct H].
    apply andb_true_iff in E. destruct E as [_ E].
    destruct H as [H | []]. inversion H; subst. apply prefix_split. assumption.
  - destruct (nonempty r); [| intros []]. intros [H | []]. inversion H; subst.
    symmetry. apply append_nil_r.
Qed.

(** Every split of a typed text puts it back together. *)
Lemma wsplits_inv en : forall fuel e d r e' d' r',
    In (e', d', r') (wsplits en fuel e d r) -> append d' r' = append d r.
Proof.
  induction fuel as [| f IH]; intros e d r e' d' r' H; cbn [wsplits] in H.
  - destruct H as [H | []]. inversion H; subst. reflexivity.
  - destruct H as [H | H]; [inversion H; subst; reflexivity |].
    apply in_flat_map in H. destruct H as [[a k] [_ H]]. cbn [fst snd] in H.
    apply in_flat_map in H. destruct H as [[tok rest] [Hc H]]. cbn [fst snd] in H.
    apply IH in H. rewrite H. apply wconsume_split in Hc. subst r. apply append_assoc.
Qed.

Lemma wcands_prefix en x p l c : In (l, c) (wcands en x p) -> String.prefix p c = true.
Proof.
  unfold wcands, wsplits_of. intro H. apply in_flat_map in H. destruct H as [[[e' d] r] [Hs H]].
  apply wsplits_inv in Hs. cbn [append] in Hs. subst p.
  apply in_flat_map in H. destruct H as [[a k] [_ H]]. cbn [fst] in H.
  destruct a as [t dd lv | cc lv |].
  - destruct (String.prefix r t) eqn:E; [| destruct H]. destruct H as [H | []]. inversion H; subst.
    rewrite prefix_app. assumption.
  - apply in_map_iff in H. destruct H as [o [H Ho]]. inversion H; subst.
    apply filter_In in Ho. destruct Ho as [_ Ho]. rewrite prefix_app. assumption.
  - destruct H.
Qed.

Lemma wproper_incl en x p c : In c (wproper en x p) -> exists l, In (l, c) (wcands en x p) /\ c <> p.
Proof.
  unfold wproper. intro H. apply lowest_spec in H. destruct H as [l [H _]].
  apply filter_In in H. destruct H as [H Hne]. cbn [snd] in Hne.
  exists l. split; [assumption |]. intro E. subst. rewrite String.eqb_refl in Hne. discriminate.
Qed.

Theorem state_cands_prefix en s p l c : In (l, c) (state_cands en s p) -> String.prefix p c = true.
Proof.
  unfold state_cands. intro H. apply in_flat_map in H. destruct H as [[a k] [_ H]]. cbn [fst] in H.
  destruct a as [t d lv | cc lv | | x lv]; cbn [item_cands] in H.
  - destruct (String.prefix p (append t " ")) eqn:E; [| destruct H]. destruct H as [H | []]. inversion H; subst.
    assumption.
  - apply in_map_iff in H. destruct H as [o [H Ho]]. inversion H; subst.
    apply filter_In in Ho. destruct Ho as [_ Ho]. assumption.
  - destruct H.
  - apply in_map_iff in H. destruct H as [o [H Ho]]. inversion H; subst.
    apply wproper_incl in Ho. destruct Ho as [l0 [Ho _]]. eapply wcands_prefix. eassumption.
Qed.

(** The answer, spelled out: status 1 exactly when the words cannot be matched; otherwise every
    required candidate is (the visible part of) a candidate of the reached point that extends
    the typed word and whose level no other such candidate undercuts; everything required is
    allowed, and the only other thing allowed is the typed word itself. *)
Theorem complete_spec e en ws p :
  match complete e en ws p with
  | None => matched en e ws = false
  | Some (req, al) =>
      matched en e ws = true
      /\ (forall c, In c req <->
                    exists l c0, c = strip (e_wordbreaks en) p c0
                                 /\ In (l, c0) (state_cands en (run en (start e) ws) p)
                                 /\ String.prefix p c0 = true
                                 /\ forall l' c', In (l', c') (state_cands en (run en (start e) ws) p) -> l <= l')
      /\ (forall c, In c al -> In c req \/ c = strip (e_wordbreaks en) p p)
      /\ incl req al
  end.
Proof.
  unfold complete, matched. destruct (run en (start e) ws) as [| k0 s0] eqn:E; [reflexivity |].
  set (s := k0 :: s0). split; [reflexivity | split; [| split]].
  - intro c. rewrite in_map_iff. split.
    + intros [c0 [<- Hc0]]. apply lowest_spec in Hc0. destruct Hc0 as [l [Hin Hmin]].
      exists l, c0. split; [reflexivity | split; [assumption | split; [| assumption]]].
      eapply state_cands_prefix. eassumption.
    + intros [l [c0 [-> [Hin [_ Hmin]]]]]. exists c0. split; [reflexivity |].
      apply lowest_spec. exists l. split; assumption.
  - intros c Hc. rewrite map_app in Hc. apply in_app_or in Hc. destruct Hc as [Hc | Hc]; [left; assumption |].
    destruct (state_identical en s p); [| destruct Hc]. destruct Hc as [<- | []]. right; reflexivity.
  - intros c Hc. rewrite map_app. apply in_or_app. left; assumption.
Qed.
