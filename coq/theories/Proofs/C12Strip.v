(** C12, second half, for any COMP_WORDBREAKS without glob characters (bash's default value included): the reply
    is the extending values with the typed word removed up to its last word-break character
    ([Spec.Meaning.strip], through Proofs/StripFacts.v). *)
From CG Require Import Base.Prelude Spec.Meaning Proofs.StripFacts.
From CG Require Import Model.Dfa Model.Glob Model.BashSem Model.ChainTables.
From CG Require Import Proofs.GlobFacts Proofs.SubwordFacts Proofs.C12Proofs Proofs.C12Chain.

Lemma prefix_app_same' a : forall b c, String.prefix (a ++ b) (a ++ c) = String.prefix b c.
Proof.
  induction a as [|x a IH]; intros b c; cbn [append]; [reflexivity|].
  cbn [String.prefix]. destruct (ascii_dec x x); [apply IH|congruence].
Qed.

Theorem chain_partial_offers_wordbreaks :
  forall lits ipre pre next,
    nthN lits ipre = Some pre ->
    forall var, var <> Pinned ->
    (forall l, In l lits -> plain l = true) ->
    (forall l, In l lits -> printable_str l = true) ->
    (forall l, In l lits -> l <> EmptyString) ->
    sorted_len lits ->
    forall e p,
      e_ignore_case e = false -> breaks_ok (e_wordbreaks e) = true ->
      plain p = true -> printable_str p = true ->
      (exists v, is_value lits pre v /\ String.prefix p v = true /\ p <> v) ->
      run_from var 0 (chain_alltables lits ipre next) e [] (pre ++ p)
      = Ok (mkresult 0 (map (Meaning.strip (e_wordbreaks e) (pre ++ p))
                            (map (append pre) (filter (String.prefix p) (values lits ipre)))) []).
Proof.
  intros lits ipre pre next Hpre var Hvar Hplain Hprint Hne Hs e p Hi Hwb Hpp Hpr Hex.
  rewrite (chain_partial_offers_gen lits ipre pre next Hpre var Hvar (or_intror Hplain) Hprint Hne Hs e p Hi
             (or_intror Hpp) Hpr Hex).
  rewrite strip_reply_plain; [reflexivity|exact Hwb| |].
  - rewrite plain_app, (Hplain pre (pre_in lits ipre pre Hpre)), Hpp. reflexivity.
  - intros m Hm. apply in_map_iff in Hm as (v & <- & Hv). apply filter_In in Hv as [_ Hv].
    now rewrite prefix_app_same'.
Qed.
