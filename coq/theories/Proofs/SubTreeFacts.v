(** Trees of layer (c): the leaves are literals and within-word expressions all of whose pieces
    are literals ([subw_tree]).  Their translations contain no [Zero]; every leaf is a literal or
    a within-word leaf over literal pieces without [Zero] ([sl_leaf]). *)
From CG Require Import Base.Prelude Model.Ast Spec.Rx Spec.Meaning.
From CG Require Import Proofs.RxFacts Proofs.MeaningFacts Proofs.MeaningLevels Proofs.TreeFacts Proofs.LangBridge
     Proofs.BashMeaningLit Proofs.SubBridge.

Fixpoint subw_tree (e : expr) : bool :=
  match e with
  | Terminal _ _ _ _ => true
  | Subword c _ _ => lit_tree c
  | NontermRef _ _ _ | Command _ _ _ _ | DistDescr _ _ _ => false
  | Sequence cs _ | Alternative cs _ | Fallback cs _ => forallb subw_tree cs
  | Optional c _ | Many1 c _ => subw_tree c
  end.

Lemma subw_sub_tree e : subw_tree e = true -> sub_tree e = true.
Proof.
  induction e using expr_ind'; cbn [subw_tree sub_tree]; intro Ht; try discriminate; try reflexivity;
    try (apply IHe; assumption); try (apply lit_tree_toplevel; assumption);
    (rewrite forallb_forall in *; rewrite Forall_forall in H; intros x Hx; apply H; [assumption | apply Ht; assumption]).
Qed.

(** *** generic facts about folded translations *)
Lemma gleaves_fold_cat {A} (l : list (rx A)) a :
  In a (leaves (fold_right cat Eps l)) -> exists r, In r l /\ In a (leaves r).
Proof.
  induction l as [| r l IH]; cbn [fold_right]; intro H; [destruct H |].
  apply leaves_cat in H. destruct H as [H | H].
  - exists r. split; [left; reflexivity | assumption].
  - destruct (IH H) as [r' [Hin Ha]]. exists r'. split; [right; assumption | assumption].
Qed.

Lemma gleaves_fold_alt {A} (l : list (rx A)) a :
  In a (leaves (fold_right alt Zero l)) -> exists r, In r l /\ In a (leaves r).
Proof.
  induction l as [| r l IH]; cbn [fold_right]; intro H; [destruct H |].
  apply leaves_alt in H. destruct H as [H | H].
  - exists r. split; [left; reflexivity | assumption].
  - destruct (IH H) as [r' [Hin Ha]]. exists r'. split; [right; assumption | assumption].
Qed.

(** *** inside a word *)
Definition wlit_leaf (b : wleaf) : Prop := exists t d l, b = WLit t d l.

Lemma lit_tree_wleaves c : lit_tree c = true -> forall b, In b (leaves (trw c)) -> wlit_leaf b.
Proof.
  induction c using expr_ind'; intros Ht b Hb; cbn [lit_tree] in Ht; try discriminate.
  - cbn in Hb. destruct Hb as [<- | []]. unfold wlit_leaf. eauto.
  - rewrite trw_seq in Hb. apply gleaves_fold_cat in Hb. destruct Hb as [r [Hr Hb]].
    apply in_map_iff in Hr. destruct Hr as [c [<- Hc]].
    rewrite Forall_forall in H. rewrite forallb_forall in Ht. apply (H c Hc (Ht c Hc) b Hb).
  - rewrite trw_alt in Hb. apply gleaves_fold_alt in Hb. destruct Hb as [r [Hr Hb]].
    apply in_map_iff in Hr. destruct Hr as [c [<- Hc]].
    rewrite Forall_forall in H. rewrite forallb_forall in Ht. apply (H c Hc (Ht c Hc) b Hb).
  - cbn [trw leaves] in Hb. rewrite app_nil_r in Hb. apply IHc; assumption.
  - cbn [trw leaves] in Hb. apply IHc; assumption.
  - rewrite trw_fb in Hb. apply gleaves_fold_alt in Hb. destruct Hb as [r [Hr Hb]].
    apply in_map_iff in Hr. destruct Hr as [c [<- Hc]].
    rewrite Forall_forall in H. rewrite forallb_forall in Ht. apply (H c Hc (Ht c Hc) b Hb).
Qed.

Lemma zero_free_trw c : lit_tree c = true -> alts_nonempty c = true -> zero_free (trw c) = true.
Proof.
  induction c using expr_ind'; intros Ht Ha; cbn [lit_tree alts_nonempty] in *; try discriminate; try reflexivity.
  - rewrite trw_seq. apply zero_free_fold_cat. rewrite Forall_forall in *. rewrite forallb_forall in Ht, Ha.
    intros r Hr. apply in_map_iff in Hr. destruct Hr as [c [<- Hc]]. apply H; [assumption | apply Ht; assumption | apply Ha; assumption].
  - rewrite trw_alt. destruct cs as [| c0 cs0]; [discriminate |]. apply zero_free_fold_alt; [discriminate |].
    rewrite Forall_forall in *. rewrite forallb_forall in Ht, Ha.
    intros r Hr. apply in_map_iff in Hr. destruct Hr as [c [<- Hc]]. apply H; [assumption | apply Ht; assumption | apply Ha; assumption].
  - cbn [trw zero_free]. rewrite IHc by assumption. reflexivity.
  - cbn [trw zero_free]. apply IHc; assumption.
  - rewrite trw_fb. destruct cs as [| c0 cs0]; [discriminate |]. apply zero_free_fold_alt; [discriminate |].
    rewrite Forall_forall in *. rewrite forallb_forall in Ht, Ha.
    intros r Hr. apply in_map_iff in Hr. destruct Hr as [c [<- Hc]]. apply H; [assumption | apply Ht; assumption | apply Ha; assumption].
Qed.

(** *** on the command line *)
Definition sl_leaf (a : leaf) : Prop :=
  match a with
  | LLit _ _ _ => True
  | LSub x _ => (forall b, In b (leaves x) -> wlit_leaf b) /\ zero_free x = true
  | _ => False
  end.

Lemma subw_tree_leaves e : subw_tree e = true -> alts_nonempty e = true -> forall a, In a (leaves (tr e)) -> sl_leaf a.
Proof.
  induction e using expr_ind'; intros Ht Hne a Ha; cbn [subw_tree alts_nonempty] in Ht, Hne; try discriminate.
  - cbn in Ha. destruct Ha as [<- | []]. exact I.
  - rewrite tr_seq in Ha. apply gleaves_fold_cat in Ha. destruct Ha as [r [Hr Ha]].
    apply in_map_iff in Hr. destruct Hr as [c [<- Hc]].
    rewrite Forall_forall in H. rewrite forallb_forall in Ht, Hne. apply (H c Hc (Ht c Hc) (Hne c Hc) a Ha).
  - rewrite tr_alt in Ha. apply gleaves_fold_alt in Ha. destruct Ha as [r [Hr Ha]].
    apply in_map_iff in Hr. destruct Hr as [c [<- Hc]].
    destruct cs as [| c0 cs0]; [discriminate |].
    rewrite Forall_forall in H. rewrite forallb_forall in Ht, Hne. apply (H c Hc (Ht c Hc) (Hne c Hc) a Ha).
  - cbn [tr leaves] in Ha. rewrite app_nil_r in Ha. apply IHe; assumption.
  - cbn [tr leaves] in Ha. apply IHe; assumption.
  - rewrite tr_fb in Ha. apply gleaves_fold_alt in Ha. destruct Ha as [r [Hr Ha]].
    apply in_map_iff in Hr. destruct Hr as [c [<- Hc]].
    destruct cs as [| c0 cs0]; [discriminate |].
    rewrite Forall_forall in H. rewrite forallb_forall in Ht, Hne. apply (H c Hc (Ht c Hc) (Hne c Hc) a Ha).
  - cbn in Ha. destruct Ha as [<- | []]. cbn [sl_leaf]. split; [apply lit_tree_wleaves; assumption | apply zero_free_trw; assumption].
Qed.

Lemma zero_free_tr_sub e : subw_tree e = true -> alts_nonempty e = true -> zero_free (tr e) = true.
Proof.
  induction e using expr_ind'; intros Ht Ha; cbn [subw_tree alts_nonempty] in *; try discriminate; try reflexivity.
  - rewrite tr_seq. apply zero_free_fold_cat. rewrite Forall_forall in *. rewrite forallb_forall in Ht, Ha.
    intros r Hr. apply in_map_iff in Hr. destruct Hr as [c [<- Hc]]. apply H; [assumption | apply Ht; assumption | apply Ha; assumption].
  - rewrite tr_alt. destruct cs as [| c0 cs0]; [discriminate |]. apply zero_free_fold_alt; [discriminate |].
    rewrite Forall_forall in *. rewrite forallb_forall in Ht, Ha.
    intros r Hr. apply in_map_iff in Hr. destruct Hr as [c [<- Hc]]. apply H; [assumption | apply Ht; assumption | apply Ha; assumption].
  - cbn [tr zero_free]. rewrite IHe by assumption. reflexivity.
  - cbn [tr zero_free]. apply IHe; assumption.
  - rewrite tr_fb. destruct cs as [| c0 cs0]; [discriminate |]. apply zero_free_fold_alt; [discriminate |].
    rewrite Forall_forall in *. rewrite forallb_forall in Ht, Ha.
    intros r Hr. apply in_map_iff in Hr. destruct Hr as [c [<- Hc]]. apply H; [assumption | apply Ht; assumption | apply Ha; assumption].
Qed.
