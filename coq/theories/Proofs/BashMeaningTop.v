(** C01, layer (b): grammars whose leaves are literals, external commands and undefined
    nonterminals (no within-word expressions).  Same architecture as Proofs/BashMeaningLit.v: the
    walk of [Invocations.spec_run] over the emitted tables maintains [DfaMeaning.sim] with the
    residual set of [Spec.Meaning]; here a complete word may be read by a literal (first), by the
    one command whose candidates list it (the line must not be ambiguous:
    [Meaning.ambiguous_run = false]), or by the catch-all (last). *)
From CG Require Import Base.Prelude Model.Ast Model.Dfa Model.Tables Model.Glob Model.BashSem.
From CG Require Import Spec.Lang Spec.Rx Spec.Meaning Spec.Domain Spec.DfaEquiv Spec.Invocations.
From CG Require Import Proofs.RxFacts Proofs.MeaningFacts Proofs.MeaningLevels Proofs.TreeFacts Proofs.DomainFacts.
From CG Require Import Proofs.TablesSound Proofs.TablesKeys Proofs.TableLookup Proofs.LangBridge Proofs.DfaMeaning.
From CG Require Import Proofs.BashMeaningLit Proofs.SubsetConstr.

(** *** bash's enumeration order of an associative array is a permutation of its entries *)
Lemma bucket_insert_in {V} k (v : V) l x : In x (bucket_insert k v l) <-> x = (k, v) \/ In x l.
Proof.
  induction l as [| [k' v'] r IH]; cbn [bucket_insert In].
  - split; [intros [H | []]; left; symmetry; exact H | intros [H | []]; left; symmetry; exact H].
  - destruct (N.ltb (bucket k') (bucket k)); cbn [In].
    + rewrite IH. split; [intros [H | [H | H]]; [right; left; exact H | left; exact H | right; right; exact H]
                        | intros [H | [H | H]]; [right; left; exact H | left; exact H | right; right; exact H]].
    + split; [intros [H | H]; [left; symmetry; exact H | right; exact H] | intros [H | H]; [left; symmetry; exact H | right; exact H]].
Qed.

Lemma assocN_none_keys {V} k (l : list (N * V)) : assocN k l = None <-> ~ In k (map fst l).
Proof.
  induction l as [| [k' v'] r IH]; cbn [assocN map fst In]; [split; [intros _ [] | reflexivity] |].
  destruct (N.eqb k k') eqn:E.
  - apply N.eqb_eq in E. subst. split; [discriminate | intro H; exfalso; apply H; left; reflexivity].
  - apply N.eqb_neq in E. rewrite IH. split; [intros H [H1 | H1]; [apply E; symmetry; exact H1 | apply H; exact H1] | intros H H1; apply H; right; exact H1].
Qed.

Lemma assoc_of_in {V} (l : list (N * V)) : NoDup (map fst l) -> forall x, In x (assoc_of l) <-> In x l.
Proof.
  unfold assoc_of. intro ND.
  assert (G : forall acc : list (N * V),
             (forall k, In k (map fst acc) -> ~ In k (map fst l)) ->
             forall x, In x (fold_left (fun acc kv => match assocN (fst kv) acc with
                                                      | Some _ => replace_val (fst kv) (snd kv) acc
                                                      | None => bucket_insert (fst kv) (snd kv) acc
                                                      end) l acc) <-> In x acc \/ In x l).
  { induction l as [| [k v] l IH]; intros acc Hd x; cbn [fold_left].
    - split; [intro H; left; exact H | intros [H | []]; exact H].
    - cbn [map fst] in ND. inversion ND as [| k0 ks Hnot ND']; subst. cbn [fst snd].
      assert (En : assocN k acc = None).
      { apply assocN_none_keys. intro Hin. apply (Hd k Hin). left; reflexivity. }
      rewrite En. rewrite (IH ND').
      + rewrite bucket_insert_in. cbn [In]. split; [intros [[H | H] | H]; [right; left; symmetry; exact H | left; exact H | right; right; exact H]
                                                   | intros [H | [H | H]]; [left; right; exact H | left; left; symmetry; exact H | right; exact H]].
      + intros k1 Hk1 Hin. apply in_map_iff in Hk1. destruct Hk1 as [[k2 v2] [E Hk2]]. cbn [fst] in E. subst k2.
        apply bucket_insert_in in Hk2. destruct Hk2 as [E | Hk2].
        * inversion E; subst. apply Hnot. exact Hin.
        * apply (Hd k1); [apply in_map_iff; exists (k1, v2); split; [reflexivity | exact Hk2] | right; exact Hin]. }
  intro x. rewrite G; [split; [intros [[] | H]; exact H | intro H; right; exact H] | intros k []].
Qed.

(** *** command ids *)
Lemma index_of_nth c l : forall k, Tables.index_of c l = Some k -> nthN l k = Some c.
Proof.
  induction l as [| x r IH]; cbn [Tables.index_of]; intros k H; [discriminate |].
  destruct (String.eqb c x) eqn:E.
  - inversion H; subst. apply String.eqb_eq in E. subst. reflexivity.
  - destruct (Tables.index_of c r) as [j |] eqn:Ej; [| discriminate]. cbn in H. inversion H; subst.
    specialize (IH j eq_refl). unfold nthN in *. rewrite N2Nat.inj_succ. cbn. exact IH.
Qed.

Lemma index_of_inj c c' l k : Tables.index_of c l = Some k -> Tables.index_of c' l = Some k -> c = c'.
Proof. intros H1 H2. apply index_of_nth in H1. apply index_of_nth in H2. rewrite H1 in H2. inversion H2. reflexivity. Qed.

(** *** the loop over the commands expected at a state *)
Section CmdLoop.
  Variables (a : alltables) (benv : BashSem.env) (w : string).
  Definition accepts_cid (cid : N) : bool := existsb (String.eqb w) (spec_candidates (cmd_output benv cid)).

  Lemma spec_cmd_loop_spec : forall entries last log,
      (forall cid to, In (cid, to) entries -> nthN (a_commands a) cid <> None) ->
      exists log' esc,
        spec_cmd_loop a benv entries w last log
        = Ok (match find (fun ct => accepts_cid (fst ct)) entries with Some ct => Some (snd ct) | None => None end, log', esc).
  Proof.
    induction entries as [| [cid to] r IH]; intros last log Hc; cbn [spec_cmd_loop find].
    - eauto.
    - unfold spec_call. destruct (nthN (a_commands a) cid) eqn:En; [| exfalso; apply (Hc cid to (or_introl eq_refl)); exact En].
      cbn [obind fst]. fold (accepts_cid cid). destruct (accepts_cid cid); [eauto |].
      destruct (IH last ((cid, EmptyString, EmptyString) :: log)) as [log' [esc E]].
      { intros c' t' Hin. apply (Hc c' t'). right; exact Hin. }
      rewrite E. cbn [obind]. eauto.
  Qed.
End CmdLoop.

(** the candidates the commands of a level contribute *)
Definition cmd_offered (benv : BashSem.env) (p : string) (cids : list N) : list string :=
  flat_map (fun cid => filter (String.prefix p) (spec_candidates (cmd_output benv cid))) cids.

Lemma spec_cmds_level_spec (a : alltables) benv p : forall cids m log,
    (forall cid, In cid cids -> nthN (a_commands a) cid <> None) ->
    exists log', spec_cmds_level a benv cids p m log = Ok (m ++ cmd_offered benv p cids, log').
Proof.
  induction cids as [| cid r IH]; intros m log Hc; cbn [spec_cmds_level cmd_offered flat_map].
  - rewrite app_nil_r. eauto.
  - unfold spec_call. destruct (nthN (a_commands a) cid) eqn:En; [| exfalso; apply (Hc cid (or_introl eq_refl)); exact En].
    cbn [obind]. destruct (IH (m ++ filter (String.prefix p) (spec_candidates (cmd_output benv cid))) ((cid, p, EmptyString) :: log)) as [log' E].
    { intros c' Hin. apply Hc. right; exact Hin. }
    rewrite E. rewrite <- app_assoc. eauto.
Qed.

Section Top.
  Variables (c : cdfa) (e : expr) (om : list (string * string)) (os : list (N * list (string * string)))
            (nd : needs) (a : alltables).
  Variables (benv : BashSem.env) (en : Meaning.env) (p : string).
  Hypothesis Htop : toplevel_tree e = true.
  Hypothesis Hne : alts_nonempty e = true.
  Hypothesis HL : forall w, accepts_items c w <-> Lang.denotes e w.
  Hypothesis Hwf : dfa_wf (c_main c).
  Hypothesis Hinp : NoDup (d_inputs (c_main c)).
  Hypothesis Htrim : trim (c_main c).
  Hypothesis Hall : all_tables Bash c om os = Ok (nd, a).
  Hypothesis Hord : NoDup om.
  Hypothesis Hvalid : valid_literal_order (c_main c) om = true.
  Hypothesis Hdom : C01_domain e = true.
  Hypothesis Hstrip : forall ms, (forall m, In m ms -> String.prefix p m = true) ->
                                 strip_reply benv p ms = Ok (map (Meaning.strip (Meaning.e_wordbreaks en) p) ms).
  (** the two environments describe the same commands: what command number [cid] of the script
      prints gives the candidates the specification attributes to that command text *)
  Hypothesis Henv : forall cm cid, Tables.index_of cm (a_commands a) = Some cid ->
                                   spec_candidates (cmd_output benv cid) = candidates en cm.

  Notation d := (c_main c).
  Notation T := (a_main a).

  Lemma Hglt' : get_lookup_tables d (a_commands a) 0 (n_top_cmd nd) false (n_top_star nd) om = Ok T.
  Proof. destruct (all_tables_inv _ _ _ _ _ _ Hall) as [rt F]. exact (af_main _ _ _ _ _ _ _ F). Qed.

  Lemma needs_flags : exists rt, rtrans d = Ok rt /\ n_top_cmd nd = has_cmd rt /\ n_top_star nd = has_star rt.
  Proof.
    destruct (all_tables_inv _ _ _ _ _ _ Hall) as [rt F]. exists rt. split; [exact (af_rt _ _ _ _ _ _ _ F) |].
    pose proof (af_needs _ _ _ _ _ _ _ F) as H. unfold get_needs in H.
    rewrite (af_rt _ _ _ _ _ _ _ F) in H. cbn [obind] in H.
    apply obind_ok in H. destruct H as [subs [_ H]]. apply obind_ok in H. destruct H as [srts [_ H]].
    inversion H; subst. split; reflexivity.
  Qed.

  Record rel (s : N) (S : state) : Prop := {
    rel_sim : sim d s S;
    rel_good : good_state S;
    rel_reach : reach same_item (start e) S;
    rel_co : coreachable d s
  }.

  Lemma rel_start : rel (d_start d) (start e).
  Proof.
    constructor.
    - apply sim_start; [exact Htop | exact HL].
    - apply good_start; [exact Htop | exact Hne].
    - apply reach_here. apply seq_refl.
    - destruct Htrim as [_ Hco]. apply Hco. unfold states. apply nodup_In. left; reflexivity.
  Qed.

  Lemma targets_co s i t : Dfa.step d s i = Some t -> coreachable d t.
  Proof. intro H. destruct Htrim as [_ Hco]. apply Hco. apply (step_in_states d s i t H). Qed.

  Lemma rel_nonempty s S : rel s S -> S <> [].
  Proof.
    intros R E. destruct (rel_co _ _ R) as [w Hw].
    destruct (accepted_has_inputs d Hwf w s Hw) as [xs [Hd _]].
    apply (rel_sim _ _ R) in Hd. destruct Hd as [k [_ [Hk _]]]. rewrite E in Hk. destruct Hk.
  Qed.

  Lemma trans_item s S x t :
    rel s S -> trans_on d s x t -> exists a1 k, In (a1, k) (moves S) /\ inp_of_leaf a1 = x /\ plain_leaf a1 = true.
  Proof.
    intros R Htr.
    assert (H : exists a1 k, In (a1, k) (moves S) /\ inp_of_leaf a1 = x).
    { apply (sim_trans_iff d Hwf s S x (rel_sim _ _ R) (rel_good _ _ R)); [intros i t'; apply targets_co | eauto]. }
    destruct H as [a1 [k [Hin Ha]]]. exists a1, k. split; [exact Hin | split; [exact Ha |]].
    apply (good_moves S a1 k (rel_good _ _ R) Hin).
  Qed.

  Lemma item_trans s S a1 k : rel s S -> In (a1, k) (moves S) -> exists t, trans_on d s (inp_of_leaf a1) t.
  Proof.
    intros R Hin.
    apply (sim_trans_iff d Hwf s S (inp_of_leaf a1) (rel_sim _ _ R) (rel_good _ _ R)); [intros i t'; apply targets_co |].
    exists a1, k. split; [exact Hin | reflexivity].
  Qed.

  Lemma trans_fun s x t t' : trans_on d s x t -> trans_on d s x t' -> t = t'.
  Proof.
    intros [i [Hs Hn]] [j [Hs' Hn']]. rewrite (nthN_inj d Hinp i j x Hn Hn') in Hs. rewrite Hs in Hs'. inversion Hs'. reflexivity.
  Qed.

  Lemma same_label s S w d1 l1 k1 d2 l2 k2 :
    rel s S -> In (LLit w d1 l1, k1) (moves S) -> In (LLit w d2 l2, k2) (moves S) -> d1 = d2 /\ l1 = l2.
  Proof.
    intros R H1 H2. destruct (C01_domain_sound e Hdom) as [_ Hp].
    destruct (Hp S (rel_reach _ _ R)) as [P1 _]. apply (P1 w d1 l1 d2 l2 k1 k2); assumption.
  Qed.

  (** on an unambiguous word all chosen items are one input *)
  Lemma chosen_same_input s S w a1 k1 a2 k2 :
    rel s S -> ambiguous_step en S w = false ->
    In (a1, k1) (moves S) -> chosen en (moves S) w a1 -> In (a2, k2) (moves S) -> chosen en (moves S) w a2 ->
    inp_of_leaf a2 = inp_of_leaf a1.
  Proof.
    intros R Hamb H1 C1 H2 C2.
    assert (Hmid : forall b kb b' kb', In (b, kb) (moves S) -> mid_accepts en b w = true -> ~ lit_expected (moves S) w ->
                                      In (b', kb') (moves S) -> mid_accepts en b' w = true -> b' = b).
    { intros b kb b' kb' Hb Mb Hnl Hb' Mb'. unfold ambiguous_step in Hamb.
      apply lit_next_nil in Hnl. rewrite Hnl in Hamb.
      set (L := map fst (filter (fun ak => mid_accepts en (fst ak) w) (moves S))) in *.
      assert (I1 : In b L) by (apply in_map_iff; exists (b, kb); split; [reflexivity | apply filter_In; split; assumption]).
      assert (I2 : In b' L) by (apply in_map_iff; exists (b', kb'); split; [reflexivity | apply filter_In; split; assumption]).
      destruct (dedup_leaf_rep _ _ I1) as [x [Hx ->]]. destruct (dedup_leaf_rep _ _ I2) as [y [Hy ->]].
      destruct (dedup_leaf L) as [| z [| z' rest]]; [destruct Hx | | discriminate].
      destruct Hx as [<- | []]. destruct Hy as [<- | []]. reflexivity. }
    destruct a1 as [t1 d1 l1 | c1 l1 | | x1 l1]; cbn [chosen] in C1.
    - subst t1. destruct a2 as [t2 d2 l2 | c2 l2 | | x2 l2]; cbn [chosen] in C2.
      + subst t2. destruct (same_label s S w d2 l2 k2 d1 l1 k1 R H2 H1) as [-> ->]. reflexivity.
      + destruct C2 as [_ C2]. exfalso. apply C2. exists d1, l1, k1. exact H1.
      + destruct C2 as [C2 _]. exfalso. apply C2. exists d1, l1, k1. exact H1.
      + destruct C2 as [_ C2]. exfalso. apply C2. exists d1, l1, k1. exact H1.
    - destruct C1 as [M1 Nl]. destruct a2 as [t2 d2 l2 | c2 l2 | | x2 l2]; cbn [chosen] in C2.
      + subst t2. exfalso. apply Nl. exists d2, l2, k2. exact H2.
      + destruct C2 as [M2 _]. rewrite (Hmid _ k1 _ k2 H1 M1 Nl H2 M2). reflexivity.
      + destruct C2 as [_ C2]. exfalso. apply C2. exists (LCmd c1 l1), k1. split; assumption.
      + destruct C2 as [M2 _]. rewrite (Hmid _ k1 _ k2 H1 M1 Nl H2 M2). reflexivity.
    - destruct C1 as [Nl Nm]. destruct a2 as [t2 d2 l2 | c2 l2 | | x2 l2]; cbn [chosen] in C2.
      + subst t2. exfalso. apply Nl. exists d2, l2, k2. exact H2.
      + destruct C2 as [M2 _]. exfalso. apply Nm. exists (LCmd c2 l2), k2. split; assumption.
      + reflexivity.
      + destruct C2 as [M2 _]. exfalso. apply Nm. exists (LSub x2 l2), k2. split; assumption.
    - destruct C1 as [M1 Nl]. destruct a2 as [t2 d2 l2 | c2 l2 | | x2 l2]; cbn [chosen] in C2.
      + subst t2. exfalso. apply Nl. exists d2, l2, k2. exact H2.
      + destruct C2 as [M2 _]. rewrite (Hmid _ k1 _ k2 H1 M1 Nl H2 M2). reflexivity.
      + destruct C2 as [_ C2]. exfalso. apply C2. exists (LSub x1 l1), k1. split; assumption.
      + destruct C2 as [M2 _]. rewrite (Hmid _ k1 _ k2 H1 M1 Nl H2 M2). reflexivity.
  Qed.

  (** *** the script follows the transition of a chosen item = the specification reads the word *)
  Lemma rel_step_item s S w a1 k0 t :
    rel s S -> ambiguous_step en S w = false ->
    In (a1, k0) (moves S) -> chosen en (moves S) w a1 -> trans_on d s (inp_of_leaf a1) t ->
    rel t (step en S w) /\ step en S w <> [].
  Proof.
    intros R Hamb Hin0 Hc0 Htr.
    assert (Hk0 : In k0 (step en S w)) by (apply step_spec; exists a1; split; assumption).
    assert (Hne' : step en S w <> []) by (intro E0; rewrite E0 in Hk0; destruct Hk0).
    split; [| exact Hne']. destruct Htr as [i [Hs Hn]]. constructor.
    - apply (sim_step d Hinp s S i t (inp_of_leaf a1) (step en S w) (rel_sim _ _ R) (rel_good _ _ R) Hs Hn).
      intro k. rewrite step_spec. split.
      + intros [a' [Hin Hc']]. exists a'. split; [exact Hin |]. apply (chosen_same_input s S w a1 k0 a' k R Hamb Hin0 Hc0 Hin Hc').
      + intros [a' [Hin Ha]]. exists a'. split; [exact Hin |].
        destruct (good_moves S a' k (rel_good _ _ R) Hin) as [Hp' _]. destruct (good_moves S a1 k0 (rel_good _ _ R) Hin0) as [Hp1 _].
        rewrite (inp_of_leaf_inj a' a1 Hp' Hp1 Ha). exact Hc0.
    - apply step_good_state. apply (rel_good _ _ R).
    - destruct (step_istep en S w Hamb Hne') as [a' [Ha' Hi]].
      eapply reach_next; [apply (rel_reach _ _ R) | exact Ha' | exact Hi].
    - apply (targets_co s i t Hs).
  Qed.

  Lemma step_dead s S w : rel s S -> (forall a1 k, In (a1, k) (moves S) -> ~ chosen en (moves S) w a1) -> step en S w = [].
  Proof.
    intros R H. destruct (step en S w) as [| k r] eqn:E; [reflexivity | exfalso].
    assert (Hk : In k (step en S w)) by (rewrite E; left; reflexivity).
    apply step_spec in Hk. destruct Hk as [a1 [Hin Hc]]. apply (H a1 k Hin Hc).
  Qed.

  (** *** tables at a related state *)
  Lemma mcmd_present s S cm l k : rel s S -> In (LCmd cm l, k) (moves S) ->
    exists ct cid row to, t_mcmd T = Some ct /\ Tables.index_of cm (a_commands a) = Some cid
                          /\ assocN s ct = Some row /\ In (cid, to) row.
  Proof.
    intros R Hin. destruct (item_trans s S _ k R Hin) as [t Htr]. cbn [inp_of_leaf] in Htr.
    destruct needs_flags as [rt [Hrt [Hnc _]]]. destruct (glt_inv _ _ _ _ _ _ _ _ Hglt') as [rt' F].
    rewrite (gf_rt _ _ _ _ _ _ _ _ _ F) in Hrt. inversion Hrt; subst rt'.
    assert (Hhas : has_cmd rt = true).
    { unfold has_cmd. apply existsb_exists. exists (s, ICmd cm l, t). split; [exact (proj2 (trans_on_rt d rt s _ t Hwf (gf_rt _ _ _ _ _ _ _ _ _ F)) Htr) | reflexivity]. }
    destruct (gf_mcmd _ _ _ _ _ _ _ _ _ F) as [[_ [ct [Hct Ect]]] | [Hf _]]; [| rewrite Hnc, Hhas in Hf; discriminate].
    (* the command has an id: the table was computed *)
    pose proof Htr as [i [Hs Hn]]. apply (step_in _ _ _ _ Hwf) in Hs.
    assert (Hid : exists cid, cmd_sel (a_commands a) (ICmd cm l) = Some (Ok cid)).
    { assert (Hs0 : In s (get_all_states d)) by (eapply has_transition_state; eassumption).
      unfold match_table in Hct. apply obind_ok in Hct. destruct Hct as [rows [Hrows _]].
      destruct (omap_ok_total _ _ _ Hrows s Hs0) as [y [Hy _]].
      apply obind_ok in Hy. destruct Hy as [tr [Htr' Hy]]. apply obind_ok in Hy. destruct Hy as [kvs [Hkvs _]].
      assert (Hx : In (ICmd cm l, t) tr) by (apply (rtrans_from_in _ _ _ _ _ Htr'); eauto).
      destruct (omap_ok_total _ _ _ Hkvs _ Hx) as [y' [Hy' _]]. cbn [fst cmd_sel] in Hy'.
      cbn [cmd_sel]. unfold cmd_id_or_panic in *. destruct (Tables.index_of cm (a_commands a)) as [cid |].
      - exists cid. reflexivity.
      - cbn in Hy'. discriminate. }
    destruct Hid as [cid Hsel].
    destruct (match_table_has _ _ _ _ _ _ _ _ Hct Hs Hn Hsel) as [to' Hh].
    destruct (match_table_keys _ _ _ _ (get_all_states_NoDup d) Hct) as [K1 K2].
    apply (tbl_has_assoc _ _ _ _ K1 K2) in Hh. destruct Hh as [row [Hr Hk]].
    exists ct, cid, row, to'. split; [exact Ect | split; [| split; [exact Hr | apply assocN_in; exact Hk]]].
    cbn [cmd_sel] in Hsel. inversion Hsel as [Hc']. apply cmd_id_at in Hc'. exact Hc'.
  Qed.

  Lemma mcmd_entry s S ct row cid to :
    rel s S -> t_mcmd T = Some ct -> assocN s ct = Some row -> In (cid, to) row ->
    exists cm l k, Tables.index_of cm (a_commands a) = Some cid /\ trans_on d s (ICmd cm l) to /\ In (LCmd cm l, k) (moves S).
  Proof.
    intros R Hct Hr Hin.
    assert (Hh : tbl_has ct s cid to) by (exists row; split; [apply assocN_in; exact Hr | exact Hin]).
    destruct (mcmd_sound d (a_commands a) 0 _ _ _ om T Hwf Hglt' ct s cid to Hct Hh) as [cm [l [Htr Hid]]].
    destruct (trans_item s S _ to R Htr) as [a1 [k [Hmv [Ha Hp]]]].
    destruct a1; cbn in Ha, Hp; try discriminate. inversion Ha; subst. exists cm, l, k. repeat split; assumption.
  Qed.

  Lemma accepts_cid_item cm cid w : Tables.index_of cm (a_commands a) = Some cid ->
    accepts_cid benv w cid = mid_accepts en (LCmd cm 0) w.
  Proof.
    intro Hid. unfold accepts_cid. rewrite (Henv cm cid Hid). cbn [mid_accepts]. unfold mem_str. reflexivity.
  Qed.

  Lemma mstar_lookup s S : rel s S ->
    match (match t_mstar T with Some stars => assocN s stars | None => None end) with
    | Some to => trans_on d s IStar to
    | None => forall k, ~ In (LAny, k) (moves S)
    end.
  Proof.
    intro R. destruct needs_flags as [rt [Hrt [_ Hns]]]. destruct (glt_inv _ _ _ _ _ _ _ _ Hglt') as [rt' F].
    rewrite (gf_rt _ _ _ _ _ _ _ _ _ F) in Hrt. inversion Hrt; subst rt'.
    destruct (t_mstar T) as [stars |] eqn:Est.
    - destruct (assocN s stars) as [to |] eqn:Ea.
      + apply assocN_in in Ea. apply (mstar_exact d (a_commands a) 0 _ _ _ om T Hwf Hglt' stars s to Est). exact Ea.
      + intros k Hin. destruct (item_trans s S _ k R Hin) as [t Htr]. cbn [inp_of_leaf] in Htr.
        apply (mstar_exact d (a_commands a) 0 _ _ _ om T Hwf Hglt' stars s t Est) in Htr.
        apply assocN_none_keys in Ea. apply Ea. apply in_map_iff. exists (s, t). split; [reflexivity | exact Htr].
    - intros k Hin. destruct (item_trans s S _ k R Hin) as [t Htr]. cbn [inp_of_leaf] in Htr.
      rewrite (gf_mstar _ _ _ _ _ _ _ _ _ F) in Est. rewrite Hns in Est.
      assert (Hhas : has_star rt = true).
      { unfold has_star. apply existsb_exists. exists (s, IStar, t). split; [exact (proj2 (trans_on_rt d rt s _ t Hwf (gf_rt _ _ _ _ _ _ _ _ _ F)) Htr) | reflexivity]. }
      rewrite Hhas in Est. discriminate.
  Qed.


  Lemma plain_mid s S b kb w : rel s S -> In (b, kb) (moves S) -> mid_accepts en b w = true -> exists cm l, b = LCmd cm l.
  Proof.
    intros R Hin Hm. destruct (good_moves S b kb (rel_good _ _ R) Hin) as [Hp _].
    destruct b; cbn in Hm, Hp; try discriminate. eauto.
  Qed.

  (** the command part of the walk at a related state, when no expected literal equals the word *)
  Lemma cmd_part s S w last log :
    rel s S ->
    exists r log1 esc,
      match t_mcmd T with
      | Some ct => match assocN s ct with
                   | Some row => spec_cmd_loop a benv (assoc_of row) w last log
                   | None => Ok (None, log, false)
                   end
      | None => Ok (None, log, false)
      end = Ok (r, log1, esc)
      /\ match r with
         | Some to => exists cm l k, In (LCmd cm l, k) (moves S) /\ mid_accepts en (LCmd cm l) w = true /\ trans_on d s (ICmd cm l) to
         | None => forall cm l k, In (LCmd cm l, k) (moves S) -> mid_accepts en (LCmd cm l) w = false
         end.
  Proof.
    intro R. destruct (t_mcmd T) as [ct |] eqn:Ect.
    - destruct (assocN s ct) as [row |] eqn:Er.
      + assert (Hvalid' : forall cid to, In (cid, to) (assoc_of row) -> nthN (a_commands a) cid <> None).
        { intros cid to Hin. destruct (glt_inv _ _ _ _ _ _ _ _ Hglt') as [rt F].
          pose proof Ect as Ect0.
          destruct (gf_mcmd _ _ _ _ _ _ _ _ _ F) as [[_ [m [Hm Em]]] | [_ Em]]; rewrite Em in Ect0; [| discriminate].
          inversion Ect0; subst m.
          destruct (match_table_keys _ _ _ _ (get_all_states_NoDup d) Hm) as [_ K2].
          apply (assoc_of_in row (K2 s row (assocN_in _ _ _ Er))) in Hin.
          destruct (mcmd_entry s S ct row cid to R Ect Er Hin) as [cm [l [k [Hid _]]]].
          rewrite (index_of_nth _ _ _ Hid). discriminate. }
        assert (Krow : NoDup (map fst row)).
        { destruct (glt_inv _ _ _ _ _ _ _ _ Hglt') as [rt F].
          pose proof Ect as Ect0.
          destruct (gf_mcmd _ _ _ _ _ _ _ _ _ F) as [[_ [m [Hm Em]]] | [_ Em]]; rewrite Em in Ect0; [| discriminate].
          inversion Ect0; subst m.
          destruct (match_table_keys _ _ _ _ (get_all_states_NoDup d) Hm) as [_ K2]. apply (K2 s row). apply assocN_in. exact Er. }
        destruct (spec_cmd_loop_spec a benv w (assoc_of row) last log Hvalid') as [log' [esc E]].
        eexists _, log', esc. split; [exact E |].
        destruct (find (fun ct0 => accepts_cid benv w (fst ct0)) (assoc_of row)) as [[cid to] |] eqn:Ef.
        * apply find_some in Ef. destruct Ef as [Hin Hacc]. cbn [fst snd] in *.
          apply (assoc_of_in row Krow) in Hin.
          destruct (mcmd_entry s S ct row cid to R Ect Er Hin) as [cm [l [k [Hid [Htr Hmv]]]]].
          exists cm, l, k. split; [exact Hmv | split; [| exact Htr]].
          rewrite (accepts_cid_item cm cid w Hid) in Hacc. exact Hacc.
        * intros cm l k Hmv. destruct (mcmd_present s S cm l k R Hmv) as [ct' [cid [row' [to [Ect' [Hid [Er' Hin]]]]]]].
          rewrite Ect in Ect'. inversion Ect'; subst ct'. rewrite Er in Er'. inversion Er'; subst row'.
          apply (assoc_of_in row Krow) in Hin.
          pose proof (find_none _ _ Ef _ Hin) as Hn. cbn [fst] in Hn. rewrite (accepts_cid_item cm cid w Hid) in Hn. exact Hn.
      + exists None, log, false. split; [reflexivity |].
        intros cm l k Hmv. destruct (mcmd_present s S cm l k R Hmv) as [ct' [cid [row' [to [Ect' [_ [Er' _]]]]]]].
        rewrite Ect in Ect'. inversion Ect'; subst ct'. rewrite Er in Er'. discriminate.
    - exists None, log, false. split; [reflexivity |].
      intros cm l k Hmv. destruct (mcmd_present s S cm l k R Hmv) as [ct' [cid [row' [to [Ect' _]]]]]. rewrite Ect in Ect'. discriminate.
  Qed.

  Lemma lit_case s S w t : rel s S -> lit_lookup T s w = Some t ->
    exists dso lvl k, In (LLit w dso lvl, k) (moves S) /\ trans_on d s (ILit w dso lvl) t.
  Proof.
    intros R El. destruct (lit_lookup_sound d (a_commands a) _ _ _ om T Hwf Hord Hglt' s w t El) as [dso [lvl Htr]].
    destruct (trans_item s S _ t R Htr) as [a1 [k [Hmv [Ha Hp]]]].
    destruct a1; cbn in Ha, Hp; try discriminate. inversion Ha; subst. exists dso, lvl, k. split; assumption.
  Qed.

  Lemma nolit_case s S w : rel s S -> lit_lookup T s w = None -> ~ lit_expected (moves S) w.
  Proof.
    intros R El [dd [l [k Hmv]]]. destruct (item_trans s S _ k R Hmv) as [t Htr]. cbn [inp_of_leaf] in Htr.
    destruct (lit_lookup_complete d (a_commands a) _ _ _ om T Hwf Hord Hglt' s w dd l t Hvalid Htr) as [to' E].
    rewrite El in E. discriminate.
  Qed.

  (** *** the complete words *)
  Lemma walk_words : forall ws s S log,
      rel s S -> ambiguous_run en S ws = false ->
      exists log' esc,
        (run en S ws = [] /\ spec_walk a benv s ws log = Ok (None, log', esc))
        \/ (exists t, spec_walk a benv s ws log = Ok (Some t, log', esc) /\ rel t (run en S ws)).
  Proof.
    induction ws as [| w ws IH]; intros s S log R Hamb.
    - exists log, false. right. exists s. split; [reflexivity | exact R].
    - cbn [ambiguous_run] in Hamb. apply orb_false_iff in Hamb. destruct Hamb as [Ha Hr].
      cbn [spec_walk run fold_left]. change (fold_left (step en) ws (step en S w)) with (run en (step en S w) ws).
      pose proof (lit_case s S w) as Hlc. pose proof (nolit_case s S w) as Hnc. unfold lit_lookup in Hlc, Hnc.
      destruct (match assocN s (t_mlit T) with
                | Some st => top_lit_loop (indexed_from 0 (literal_texts T)) st w
                | None => None
                end) as [t |] eqn:El.
      + destruct (Hlc t R eq_refl) as [dso [lvl [k [Hmv Htr]]]].
        destruct (rel_step_item s S w (LLit w dso lvl) k t R Ha Hmv eq_refl Htr) as [R' _].
        apply (IH t _ log R' Hr).
      + specialize (Hnc R eq_refl).
        destruct (cmd_part s S w (match ws with [] => true | _ :: _ => false end) log R) as [r [log1 [esc [Ecmd Hcmd]]]].
        match goal with |- context [obind ?X _] => assert (EE : X = Ok (r, log1, esc)) by exact Ecmd; rewrite EE; clear EE end.
        cbn [obind]. destruct r as [to |].
        * destruct Hcmd as [cm [l [k [Hmv [Hacc Htr]]]]].
          assert (Hch : chosen en (moves S) w (LCmd cm l)) by (cbn [chosen]; split; assumption).
          destruct (rel_step_item s S w (LCmd cm l) k to R Ha Hmv Hch Htr) as [R' _].
          destruct (IH to _ log1 R' Hr) as [log' [esc' [[Hrun Hw] | [t' [Hw R2]]]]]; rewrite Hw; cbn [obind].
          -- eexists _, _. left. split; [exact Hrun | reflexivity].
          -- eexists _, _. right. exists t'. split; [reflexivity | exact R2].
        * pose proof (mstar_lookup s S R) as Hst.
          assert (Hnomid : ~ mid_expected en (moves S) w).
          { intros [b [kb [Hb Mb]]]. destruct (plain_mid s S b kb w R Hb Mb) as [cm [l ->]].
            rewrite (Hcmd cm l kb Hb) in Mb. discriminate. }
          destruct (match t_mstar T with Some stars => assocN s stars | None => None end) as [to |] eqn:Est.
          -- destruct (trans_item s S _ to R Hst) as [a1 [k [Hmv [Ha1 Hp]]]].
             destruct a1; cbn in Ha1, Hp; try discriminate.
             assert (Hch : chosen en (moves S) w LAny) by (cbn [chosen]; split; assumption).
             destruct (rel_step_item s S w LAny k to R Ha Hmv Hch Hst) as [R' _].
             destruct (IH to _ log1 R' Hr) as [log' [esc' [[Hrun Hw] | [t' [Hw R2]]]]]; rewrite Hw; cbn [obind].
             ++ eexists _, _. left. split; [exact Hrun | reflexivity].
             ++ eexists _, _. right. exists t'. split; [reflexivity | exact R2].
          -- exists log1, esc. left. split; [| reflexivity].
             rewrite (step_dead s S w R); [apply run_nil |].
             intros a1 k Hmv Hc. destruct (good_moves S a1 k (rel_good _ _ R) Hmv) as [Hp _].
             destruct a1 as [t1 d1 l1 | c1 l1 | | x1 l1]; cbn [chosen] in Hc; cbn in Hp; try discriminate.
             ++ subst t1. apply Hnc. exists d1, l1, k. exact Hmv.
             ++ destruct Hc as [Hc _]. rewrite (Hcmd c1 l1 k Hmv) in Hc. discriminate.
             ++ apply (Hst k Hmv).
  Qed.

  (** *** every transition of the automaton is on a literal, a command or the catch-all *)
  Lemma related0 : forall ids s S t, sim d s S -> good_state S -> Dfa.run d s ids = Some t -> exists S', sim d t S' /\ good_state S'.
  Proof.
    induction ids as [| i ids IH]; intros s S t Hs Hg H; cbn [Dfa.run] in H.
    - inversion H; subst. eauto.
    - destruct (Dfa.step d s i) as [t1 |] eqn:Es; [| discriminate].
      destruct (step_has_input d Hwf s i t1 Es) as [x Hx].
      set (S1 := flat_map (fun ak => if inp_eqb (inp_of_leaf (fst ak)) x then [snd ak] else []) (moves S)).
      assert (HS1 : forall k, In k S1 <-> exists a', In (a', k) (moves S) /\ inp_of_leaf a' = x).
      { intro k. unfold S1. rewrite in_flat_map. split.
        - intros [[a' k'] [Hin H1]]. cbn [fst snd] in H1. destruct (inp_eqb (inp_of_leaf a') x) eqn:E; [| destruct H1].
          destruct H1 as [<- | []]. exists a'. split; [exact Hin | apply SubsetConstr.inp_eqb_eq; exact E].
        - intros [a' [Hin Ha]]. exists (a', k). split; [exact Hin |]. cbn [fst snd].
          assert (E : inp_eqb (inp_of_leaf a') x = true) by (apply SubsetConstr.inp_eqb_eq; exact Ha). rewrite E. left; reflexivity. }
      apply (IH t1 S1 t); [| | exact H].
      + apply (sim_step d Hinp s S i t1 x S1 Hs Hg Es Hx HS1).
      + intros k Hk. apply HS1 in Hk. destruct Hk as [a' [Hin _]]. destruct (good_moves S a' k Hg Hin) as [_ G]. apply G. left; reflexivity.
  Qed.

  Lemma all_trans_plain s x t : trans_on d s x t -> exists a1, plain_leaf a1 = true /\ inp_of_leaf a1 = x.
  Proof.
    intro Htr. pose proof Htr as [i [Hs _]].
    destruct Htrim as [Hre _]. destruct (Hre s (proj1 (step_in_states d s i t Hs))) as [ids Hrun].
    destruct (related0 ids (d_start d) (start e) s (rel_sim _ _ rel_start) (rel_good _ _ rel_start) Hrun) as [S [Hsim Hg]].
    assert (H : exists a1 k, In (a1, k) (moves S) /\ inp_of_leaf a1 = x).
    { apply (sim_trans_iff d Hwf s S x Hsim Hg); [intros i' t'; apply targets_co | eauto]. }
    destruct H as [a1 [k [Hin Ha]]]. exists a1. split; [apply (good_moves S a1 k Hg Hin) | exact Ha].
  Qed.

  Lemma tables_subword_free_top : spec_subword_free a.
  Proof.
    split.
    - destruct (a_subtrans a) as [| [s row] r] eqn:E; [reflexivity | exfalso].
      destruct (all_tables_inv _ _ _ _ _ _ Hall) as [rt F]. pose proof (af_subtrans _ _ _ _ _ _ _ F) as H.
      unfold subword_transitions in H. apply obind_ok in H. destruct H as [rows [_ H]]. inversion H as [Ha].
      assert (Hin : In (s, row) (a_subtrans a)) by (rewrite E; left; reflexivity).
      rewrite <- Ha in Hin. apply filter_In in Hin. destruct Hin as [_ Hne'].
      destruct row as [| [pi to] row']; [discriminate |].
      assert (Hx : exists lvl, trans_on d s (ISub pi lvl) to).
      { apply (subtrans_exact Bash c om os nd a Hwf Hall s pi to). exists ((pi, to) :: row').
        split; [rewrite E; left; reflexivity | left; reflexivity]. }
      destruct Hx as [lvl Htr]. destruct (all_trans_plain s _ to Htr) as [a1 [Hp Ha1]]. destruct a1; cbn in Hp, Ha1; discriminate.
    - intros level s. destruct (level_row (a_csub a) level s) as [| id r] eqn:E; [reflexivity | exfalso].
      assert (M : mem3 (a_csub a) (N.of_nat level) s id).
      { unfold level_row in E. unfold mem3, mem2. rewrite Nat2N.id.
        destruct (nth_error (a_csub a) level) as [rows |]; [| discriminate]. exists rows. split; [reflexivity |].
        destruct (assocN s rows) as [ids |] eqn:Ea; [| discriminate]. exists ids. split; [apply assocN_in; exact Ea | rewrite E; left; reflexivity]. }
      apply (csub_exact Bash c om os nd a Hwf Hall) in M. destruct M as [rt [pi [to [_ [Htr _]]]]].
      destruct (all_trans_plain s _ to Htr) as [a1 [Hp Ha1]]. destruct a1; cbn in Hp, Ha1; discriminate.
  Qed.

  (** *** at the cursor *)
  Definition lit_offered (s : N) (j : nat) : list string :=
    filter (String.prefix p) (map (fun id => (literal_at T id ++ " ")%string) (level_row (t_clit T) j s)).

  Definition offered (s : N) (j : nat) : list string :=
    lit_offered s j ++ match t_ccmd T with Some cc => cmd_offered benv p (level_row cc j s) | None => [] end.

  Lemma ccmd_facts : forall cc, t_ccmd T = Some cc ->
    Forall (fun lv => NoDup (map fst lv)) cc /\ List.length cc = (N.to_nat (t_maxlevel T) + 1)%nat.
  Proof.
    intros cc Hcc. destruct (glt_inv _ _ _ _ _ _ _ _ Hglt') as [rt F].
    destruct (gf_ccmd _ _ _ _ _ _ _ _ _ F) as [[_ [m [Hm Em]]] | [_ Em]]; rewrite Em in Hcc; [| discriminate].
    inversion Hcc; subst m. split; [eapply completion_table_keys; exact Hm |].
    apply (completion_table_spec _ _ _ _ _ insertN_in Hm).
  Qed.

  Lemma level_row_mem3 (L : list (list (N * list N))) j s id : In id (level_row L j s) -> mem3 L (N.of_nat j) s id.
  Proof.
    unfold level_row, mem3, mem2. rewrite Nat2N.id. intro H.
    destruct (nth_error L j) as [rows |]; [| destruct H]. exists rows. split; [reflexivity |].
    destruct (assocN s rows) as [ids |] eqn:Ea; [| destruct H]. exists ids. split; [apply assocN_in; exact Ea | exact H].
  Qed.

  Lemma ccmd_present s S cm l k : rel s S -> In (LCmd cm l, k) (moves S) ->
    exists cc cid, t_ccmd T = Some cc /\ Tables.index_of cm (a_commands a) = Some cid /\ In cid (level_row cc (N.to_nat l) s).
  Proof.
    intros R Hin. destruct (mcmd_present s S cm l k R Hin) as [ct [cid [row [to [Ect [Hid _]]]]]].
    destruct (item_trans s S _ k R Hin) as [t Htr]. cbn [inp_of_leaf] in Htr.
    destruct (glt_inv _ _ _ _ _ _ _ _ Hglt') as [rt F].
    destruct (gf_mcmd _ _ _ _ _ _ _ _ _ F) as [[Hnc _] | [_ Em]]; [| rewrite Em in Ect; discriminate].
    destruct (gf_ccmd _ _ _ _ _ _ _ _ _ F) as [[_ [cc [Hm Ecc]]] | [Hf _]]; [| rewrite Hnc in Hf; discriminate].
    exists cc, cid. split; [exact Ecc | split; [exact Hid |]].
    destruct (ccmd_facts cc Ecc) as [K _].
    unfold level_row. apply (mem3_level_row cc l s cid K).
    apply (ccmd_exact d (a_commands a) 0 _ _ _ om T Hwf Hglt' cc l s cid Ecc). eauto.
  Qed.

  Lemma offered_spec s S k cnd : rel s S -> (In cnd (offered s (N.to_nat k)) <-> In (k, cnd) (state_cands en S p)).
  Proof.
    intro R. unfold offered. rewrite in_app_iff. split.
    - intros [H | H].
      + unfold lit_offered in H. apply filter_In in H. destruct H as [H Hp]. apply in_map_iff in H. destruct H as [id [<- Hid]].
        apply (level_row_lit d (a_commands a) _ _ _ om T Hwf Hord Hglt' k s id) in Hid.
        destruct Hid as [text [dso [to [Htr Hl]]]].
        rewrite (literal_at_lit d (a_commands a) _ _ _ om T Hglt' id text _ Hl) in *.
        destruct (trans_item s S _ to R Htr) as [a1 [k' [Hmv [Ha Hpl]]]].
        destruct a1; cbn in Ha, Hpl; try discriminate. inversion Ha; subst.
        unfold state_cands. apply in_flat_map. exists (LLit text dso k, k'). split; [exact Hmv |].
        cbn [fst item_cands]. rewrite Hp. left; reflexivity.
      + destruct (t_ccmd T) as [cc |] eqn:Ecc; [| destruct H].
        unfold cmd_offered in H. apply in_flat_map in H. destruct H as [cid [Hcid H]].
        apply filter_In in H. destruct H as [H Hp].
        apply level_row_mem3 in Hcid. rewrite N2Nat.id in Hcid.
        apply (ccmd_exact d (a_commands a) 0 _ _ _ om T Hwf Hglt' cc k s cid Ecc) in Hcid.
        destruct Hcid as [cm [to [Htr Hid]]].
        destruct (trans_item s S _ to R Htr) as [a1 [k' [Hmv [Ha Hpl]]]].
        destruct a1; cbn in Ha, Hpl; try discriminate. inversion Ha; subst.
        unfold state_cands. apply in_flat_map. exists (LCmd cm k, k'). split; [exact Hmv |].
        cbn [fst item_cands]. apply in_map_iff. exists cnd. split; [reflexivity |].
        apply filter_In. split; [| exact Hp]. rewrite <- (Henv cm cid Hid). exact H.
    - intro H. unfold state_cands in H. apply in_flat_map in H. destruct H as [[a1 k'] [Hmv H]]. cbn [fst] in H.
      destruct (good_moves S a1 k' (rel_good _ _ R) Hmv) as [Hpl _].
      destruct a1 as [t dd l | cm l | | x l]; cbn in Hpl; try discriminate; cbn [item_cands] in H.
      + left. destruct (String.prefix p (t ++ " ")) eqn:Hp; [| destruct H]. destruct H as [H | []]. inversion H; subst.
        destruct (item_trans s S _ k' R Hmv) as [to Htr]. cbn [inp_of_leaf] in Htr.
        pose proof Htr as [i [_ Hn]].
        destruct (valid_order_covers d om 0 i t dd k Hvalid Hn) as [id Hlid].
        unfold lit_offered. apply filter_In. split; [| exact Hp]. apply in_map_iff. exists id. split.
        * rewrite (literal_at_lit d (a_commands a) _ _ _ om T Hglt' id t _ Hlid). reflexivity.
        * apply (level_row_lit d (a_commands a) _ _ _ om T Hwf Hord Hglt' k s id). eauto.
      + right. apply in_map_iff in H. destruct H as [o [E Ho]]. inversion E; subst. apply filter_In in Ho. destruct Ho as [Ho Hp].
        destruct (ccmd_present s S cm k k' R Hmv) as [cc [cid [Ecc [Hid Hrow]]]]. rewrite Ecc.
        unfold cmd_offered. apply in_flat_map. exists cid. split; [exact Hrow |].
        apply filter_In. split; [| exact Hp]. rewrite (Henv cm cid Hid). exact Ho.
      + destruct H.
  Qed.

  Lemma cand_level_in_range s S k cnd : rel s S -> In (k, cnd) (state_cands en S p) -> (N.to_nat k < Datatypes.S (N.to_nat (t_maxlevel T)))%nat.
  Proof.
    intros R H. unfold state_cands in H. apply in_flat_map in H. destruct H as [[a1 k'] [Hmv H]]. cbn [fst] in H.
    destruct (good_moves S a1 k' (rel_good _ _ R) Hmv) as [Hpl _].
    destruct a1 as [t dd l | cm l | | x l]; cbn in Hpl; try discriminate; cbn [item_cands] in H.
    - destruct (String.prefix p (t ++ " ")); [| destruct H]. destruct H as [H | []]. inversion H; subst.
      destruct (item_trans s S _ k' R Hmv) as [to Htr]. cbn [inp_of_leaf] in Htr.
      apply (level_in_range d (a_commands a) _ _ _ om T Hwf Hord Hglt' k s t dd to Hvalid Htr).
    - apply in_map_iff in H. destruct H as [o [E _]]. inversion E; subst.
      destruct (ccmd_present s S cm k k' R Hmv) as [cc [cid [Ecc [_ Hrow]]]].
      destruct (ccmd_facts cc Ecc) as [_ Hlen].
      unfold level_row in Hrow. destruct (nth_error cc (N.to_nat k)) as [rows |] eqn:En; [| destruct Hrow].
      assert (N.to_nat k < List.length cc)%nat by (apply nth_error_Some; rewrite En; discriminate). lia.
    - destruct H.
  Qed.

  Lemma level_unfold s S n j log : rel s S ->
    exists log1, spec_levels (Datatypes.S n) j a benv s p log
                 = match offered s j with
                   | [] => spec_levels n (Datatypes.S j) a benv s p log1
                   | _ :: _ => do reply <- strip_reply benv p (offered s j); Ok (reply, log1)
                   end.
  Proof.
    intro R. cbn [spec_levels]. fold (lit_offered s j). unfold offered.
    destruct (t_ccmd T) as [cc |] eqn:Ecc.
    - destruct (spec_cmds_level_spec a benv p (level_row cc j s) (lit_offered s j) log) as [log1 E].
      { intros cid Hcid. apply level_row_mem3 in Hcid.
        apply (ccmd_exact d (a_commands a) 0 _ _ _ om T Hwf Hglt' cc (N.of_nat j) s cid Ecc) in Hcid.
        destruct Hcid as [cm [to [_ Hid]]]. rewrite (index_of_nth _ _ _ Hid). discriminate. }
      exists log1. rewrite E. cbn [obind]. reflexivity.
    - exists log. cbn [obind]. rewrite app_nil_r. reflexivity.
  Qed.

  Lemma levels_loop s S : rel s S -> forall n j log,
      exists reply log', spec_levels n j a benv s p log = Ok (reply, log')
        /\ ((exists j', (j <= j' < j + n)%nat /\ offered s j' <> [] /\ (forall i, (j <= i < j')%nat -> offered s i = [])
                        /\ reply = map (Meaning.strip (Meaning.e_wordbreaks en) p) (offered s j'))
            \/ ((forall i, (j <= i < j + n)%nat -> offered s i = []) /\ reply = [])).
  Proof.
    intro R. induction n as [| n IH]; intros j log.
    - exists [], log. split; [reflexivity |]. right. split; [intros i Hi; lia | reflexivity].
    - destruct (level_unfold s S n j log R) as [log1 E]. rewrite E. clear E.
      destruct (offered s j) as [| m ms] eqn:Eo.
      + destruct (IH (Datatypes.S j) log1) as [reply [log' [Hr Hc]]]. exists reply, log'. split; [exact Hr |].
        destruct Hc as [[j' [Hj [Hne' [Hfirst ->]]]] | [Hall0 ->]].
        * left. exists j'. split; [lia | split; [exact Hne' | split; [| reflexivity]]].
          intros i Hi. destruct (Nat.eq_dec i j) as [-> | Hij]; [exact Eo | apply Hfirst; lia].
        * right. split; [| reflexivity]. intros i Hi. destruct (Nat.eq_dec i j) as [-> | Hij]; [exact Eo | apply Hall0; lia].
      + rewrite <- Eo. rewrite Hstrip.
        * cbn [obind]. eexists _, log1. split; [reflexivity |]. left. exists j. split; [lia | split; [rewrite Eo; discriminate | split; [intros i Hi; lia | reflexivity]]].
        * intros m' Hm'. assert (Hk : In (N.of_nat j, m') (state_cands en S p)).
          { apply (offered_spec s S (N.of_nat j) m' R). rewrite Nat2N.id. exact Hm'. }
          eapply state_cands_prefix. exact Hk.
  Qed.

  Lemma levels_lowest s S log :
    rel s S ->
    exists reply log', spec_levels (Datatypes.S (N.to_nat (t_maxlevel T))) 0 a benv s p log = Ok (reply, log')
      /\ forall x, In x reply <-> In x (map (Meaning.strip (Meaning.e_wordbreaks en) p) (lowest (state_cands en S p))).
  Proof.
    intro R. destruct (levels_loop s S R (Datatypes.S (N.to_nat (t_maxlevel T))) 0%nat log) as [reply [log' [Hr Hc]]].
    exists reply, log'. split; [exact Hr |].
    assert (Hset : forall cnd, In cnd (lowest (state_cands en S p)) <->
                               (exists j', (0 <= j' < 0 + Datatypes.S (N.to_nat (t_maxlevel T)))%nat /\ offered s j' <> []
                                           /\ (forall i, (0 <= i < j')%nat -> offered s i = []) /\ In cnd (offered s j'))).
    { intro cnd. rewrite lowest_spec. split.
      - intros [l [Hin Hmin]]. exists (N.to_nat l).
        pose proof (cand_level_in_range s S l cnd R Hin) as Hrange.
        assert (Ho : In cnd (offered s (N.to_nat l))) by (apply (offered_spec s S l cnd R); exact Hin).
        split; [lia | split; [intro E0; rewrite E0 in Ho; destruct Ho | split; [| exact Ho]]].
        intros i Hi. destruct (offered s i) as [| m ms] eqn:Eo; [reflexivity | exfalso].
        assert (Hm : In m (offered s (N.to_nat (N.of_nat i)))) by (rewrite Nat2N.id, Eo; left; reflexivity).
        apply (offered_spec s S (N.of_nat i) m R) in Hm. specialize (Hmin _ _ Hm). lia.
      - intros [j' [Hj [Hne' [Hfirst Hin]]]].
        exists (N.of_nat j'). split.
        + apply (offered_spec s S (N.of_nat j') cnd R). rewrite Nat2N.id. exact Hin.
        + intros l' c' Hc'. destruct (N.lt_ge_cases l' (N.of_nat j')) as [Hlt | Hge]; [exfalso | exact Hge].
          apply (offered_spec s S l' c' R) in Hc'. rewrite (Hfirst (N.to_nat l')) in Hc' by lia. destruct Hc'. }
    intro x. rewrite in_map_iff. destruct Hc as [[j' [Hj [Hne' [Hfirst ->]]]] | [Hall0 ->]].
    - rewrite in_map_iff. split.
      + intros [cnd [<- Hin]]. exists cnd. split; [reflexivity |]. apply Hset. exists j'. repeat split; try assumption; lia.
      + intros [cnd [<- Hin]]. apply Hset in Hin. destruct Hin as [j2 [Hj2 [Hne2 [Hfirst2 Hin2]]]].
        assert (j2 = j') as ->.
        { destruct (Nat.lt_trichotomy j2 j') as [Hlt | [E | Hgt]]; [| exact E |].
          - exfalso. apply Hne2. apply Hfirst. lia.
          - exfalso. apply Hne'. apply Hfirst2. lia. }
        exists cnd. split; [reflexivity | exact Hin2].
    - split; [intros [] |]. intros [cnd [_ Hin]]. apply Hset in Hin. destruct Hin as [j2 [Hj2 [Hne2 _]]].
      exfalso. apply Hne2. apply Hall0. lia.
  Qed.

  Lemma state_identical_plain S : good_state S -> state_identical en S p = false.
  Proof.
    intro G. unfold state_identical. apply not_true_is_false. intro H. apply existsb_exists in H.
    destruct H as [[a1 k] [Hin Ha]]. destruct (good_moves S a1 k G Hin) as [Hp _]. destruct a1; cbn in Hp, Ha; discriminate.
  Qed.

  (** *** layer (b) *)
  Theorem spec_run_meaning_top ws :
    ambiguous_run en (start e) ws = false ->
    match complete e en ws p with
    | None => exists log esc, spec_run (d_start d) a benv ws p = Ok (mkresult 1 [] log, esc)
    | Some (req, al) =>
        exists reply log esc, spec_run (d_start d) a benv ws p = Ok (mkresult 0 reply log, esc)
                              /\ (forall x, In x reply <-> In x req) /\ (forall x, In x al <-> In x req)
    end.
  Proof.
    intro Hamb. unfold complete, spec_run.
    destruct (walk_words ws (d_start d) (start e) [] rel_start Hamb) as [log' [esc [[Hrun Hw] | [t [Hw R]]]]].
    - rewrite Hrun, Hw. cbn [obind]. eauto.
    - rewrite Hw. cbn [obind]. pose proof (rel_nonempty _ _ R) as Hne'.
      destruct (run en (start e) ws) as [| k0 S0] eqn:Er; [contradiction |].
      destruct (levels_lowest t (k0 :: S0) log' R) as [reply [log2 [Hr Hset]]]. rewrite Hr. cbn [obind].
      exists reply, (rev log2), esc. split; [reflexivity | split; [exact Hset |]].
      rewrite (state_identical_plain (k0 :: S0) (rel_good _ _ R)). rewrite app_nil_r. intro x. reflexivity.
  Qed.
End Top.
