(** Facts about [Spec.Rx]: the inductive denotation of an expression (sequences of leaves), and the
    linear form as a sound and complete one-leaf derivative for it. *)
From CG Require Import Base.Prelude Spec.Rx.

Section Denotes.
  Context {A : Type}.

  Inductive denotes : rx A -> list A -> Prop :=
  | D_eps : denotes Eps []
  | D_leaf a : denotes (Leaf a) [a]
  | D_cat r s u v : denotes r u -> denotes s v -> denotes (Cat r s) (u ++ v)
  | D_alt_l r s u : denotes r u -> denotes (Alt r s) u
  | D_alt_r r s u : denotes s u -> denotes (Alt r s) u
  | D_plus_one r u : denotes r u -> denotes (Plus r) u
  | D_plus_more r u v : denotes r u -> denotes (Plus r) v -> denotes (Plus r) (u ++ v).

  Lemma denotes_zero w : ~ denotes (@Zero A) w.
  Proof. intro H; inversion H. Qed.

  Lemma denotes_eps w : denotes (@Eps A) w -> w = [].
  Proof. intro H; inversion H; reflexivity. Qed.

  Lemma nullable_denotes (r : rx A) : nullable r = true <-> denotes r [].
  Proof.
    induction r; cbn [nullable].
    - split; [discriminate | intro H; inversion H].
    - split; [constructor | reflexivity].
    - split; [discriminate | intro H; inversion H].
    - rewrite andb_true_iff, IHr1, IHr2. split.
      + intros [H1 H2]. change (@nil A) with (@nil A ++ @nil A). constructor; assumption.
      + intro H. inversion H as [| | r s u v Hu Hv Hr Hw | | | |]; subst.
        apply app_eq_nil in Hw. destruct Hw; subst. split; assumption.
    - rewrite orb_true_iff, IHr1, IHr2. split.
      + intros [H | H]; [apply D_alt_l | apply D_alt_r]; assumption.
      + intro H. inversion H; subst; [left | right]; assumption.
    - rewrite IHr. split.
      + intro H. apply D_plus_one; assumption.
      + intro H. remember (Plus r) as p eqn:Ep. remember (@nil A) as w eqn:Ew.
        induction H; try discriminate.
        * inversion Ep; subst. assumption.
        * inversion Ep; subst. apply app_eq_nil in Ew. destruct Ew; subst. assumption.
  Qed.

  Lemma cat_denotes (r s : rx A) w : denotes (cat r s) w <-> denotes (Cat r s) w.
  Proof.
    assert (Hz1 : forall s w, denotes (Cat (@Zero A) s) w -> False).
    { intros s0 w0 H; inversion H; subst. eapply denotes_zero; eassumption. }
    assert (Hz2 : forall r w, denotes (Cat r (@Zero A)) w -> False).
    { intros r0 w0 H; inversion H; subst. eapply denotes_zero; eassumption. }
    assert (He1 : forall s w, denotes s w <-> denotes (Cat (@Eps A) s) w).
    { intros s0 w0. split.
      - intro H. change w0 with ([] ++ w0). constructor; [constructor | assumption].
      - intro H. inversion H as [| | r1 s1 u v Hu Hv | | | |]; subst.
        apply denotes_eps in Hu; subst. assumption. }
    assert (He2 : forall r w, denotes r w <-> denotes (Cat r (@Eps A)) w).
    { intros r0 w0. split.
      - intro H. rewrite <- (app_nil_r w0). constructor; [assumption | constructor].
      - intro H. inversion H as [| | r1 s1 u v Hu Hv | | | |]; subst.
        apply denotes_eps in Hv; subst. rewrite app_nil_r. assumption. }
    destruct r; destruct s; cbn [cat];
      try (split; [intro H; exfalso; eapply denotes_zero; eassumption
                  | intro H; exfalso; first [eapply Hz1; eassumption | eapply Hz2; eassumption]]);
      try apply He1; try apply He2; try reflexivity.
  Qed.

  Lemma alt_denotes (r s : rx A) w : denotes (alt r s) w <-> denotes (Alt r s) w.
  Proof.
    destruct r; destruct s; cbn [alt]; try reflexivity;
      (split;
       [ intro H; first [apply D_alt_l; exact H | apply D_alt_r; exact H]
       | intro H; inversion H; subst; try assumption; exfalso; eapply denotes_zero; eassumption ]).
  Qed.

  Lemma star_denotes (r : rx A) w : denotes (star r) w <-> (w = [] \/ denotes (Plus r) w).
  Proof.
    unfold star. split.
    - intro H. inversion H; subst; [right; assumption | left; apply denotes_eps; assumption].
    - intros [-> | H]; [apply D_alt_r; constructor | apply D_alt_l; assumption].
  Qed.

  (** Soundness of the linear form. *)
  Lemma lf_sound (r : rx A) : forall a k w, In (a, k) (lf r) -> denotes k w -> denotes r (a :: w).
  Proof.
    induction r; cbn [lf]; intros a0 k w Hin Hk.
    - destruct Hin.
    - destruct Hin.
    - destruct Hin as [E | []]. inversion E; subst. apply denotes_eps in Hk; subst. constructor.
    - apply in_app_or in Hin. destruct Hin as [Hin | Hin].
      + apply in_map_iff in Hin. destruct Hin as [[a1 k1] [E Hin]]. cbn in E. inversion E; subst.
        apply cat_denotes in Hk.
        inversion Hk as [| | r s u v Hu Hv | | | |]; subst.
        change (a0 :: u ++ v) with ((a0 :: u) ++ v). constructor; [eapply IHr1; eassumption | assumption].
      + destruct (nullable r1) eqn:En; [| destruct Hin].
        change (a0 :: w) with ([] ++ a0 :: w). constructor.
        * apply nullable_denotes; assumption.
        * eapply IHr2; eassumption.
    - apply in_app_or in Hin. destruct Hin as [Hin | Hin].
      + apply D_alt_l. eapply IHr1; eassumption.
      + apply D_alt_r. eapply IHr2; eassumption.
    - apply in_map_iff in Hin. destruct Hin as [[a1 k1] [E Hin]]. cbn in E. inversion E; subst.
      apply cat_denotes in Hk.
      inversion Hk as [| | r0 s u v Hu Hv | | | |]; subst.
      apply star_denotes in Hv. destruct Hv as [-> | Hv].
      + rewrite app_nil_r. apply D_plus_one. eapply IHr; eassumption.
      + change (a0 :: u ++ v) with ((a0 :: u) ++ v). apply D_plus_more; [eapply IHr; eassumption | assumption].
  Qed.

  (** Completeness of the linear form. *)
  Lemma lf_complete (r : rx A) :
    forall a w, denotes r (a :: w) -> exists k, In (a, k) (lf r) /\ denotes k w.
  Proof.
    intros a w H. remember (a :: w) as aw eqn:E. revert a w E.
    induction H; intros a0 w0 E; try discriminate.
    - inversion E; subst. exists Eps. split; [left; reflexivity | constructor].
    - (* Cat *)
      destruct u as [| b u'].
      + cbn in E. subst v. destruct (IHdenotes2 a0 w0 eq_refl) as [k [Hin Hk]].
        exists k. split; [| assumption]. cbn [lf]. apply in_or_app. right.
        assert (En : nullable r = true) by (apply nullable_denotes; assumption).
        rewrite En. assumption.
      + cbn in E. inversion E; subst.
        destruct (IHdenotes1 a0 u' eq_refl) as [k [Hin Hk]].
        exists (cat k s). split.
        * cbn [lf]. apply in_or_app. left. apply in_map_iff. exists (a0, k). split; [reflexivity | assumption].
        * apply cat_denotes. constructor; assumption.
    - destruct (IHdenotes a0 w0 E) as [k [Hin Hk]]. exists k. split; [| assumption].
      cbn [lf]. apply in_or_app. left; assumption.
    - destruct (IHdenotes a0 w0 E) as [k [Hin Hk]]. exists k. split; [| assumption].
      cbn [lf]. apply in_or_app. right; assumption.
    - (* Plus, one *)
      destruct (IHdenotes a0 w0 E) as [k [Hin Hk]].
      exists (cat k (star r)). split.
      + cbn [lf]. apply in_map_iff. exists (a0, k). split; [reflexivity | assumption].
      + apply cat_denotes. rewrite <- (app_nil_r w0). constructor; [assumption |].
        apply star_denotes. left; reflexivity.
    - (* Plus, more *)
      destruct u as [| b u'].
      + cbn in E. subst v. apply IHdenotes2. reflexivity.
      + cbn in E. inversion E; subst.
        destruct (IHdenotes1 a0 u' eq_refl) as [k [Hin Hk]].
        exists (cat k (star r)). split.
        * cbn [lf]. apply in_map_iff. exists (a0, k). split; [reflexivity | assumption].
        * apply cat_denotes. constructor; [assumption |]. apply star_denotes. right; assumption.
  Qed.

  Theorem lf_correct (r : rx A) a w :
    denotes r (a :: w) <-> exists k, In (a, k) (lf r) /\ denotes k w.
  Proof.
    split; [apply lf_complete |].
    intros [k [Hin Hk]]. eapply lf_sound; eassumption.
  Qed.

  (** *** Boolean equality and duplicate removal *)
  Variable eqA : A -> A -> bool.
  Hypothesis eqA_sound : forall a b, eqA a b = true -> a = b.

  Lemma rx_eqb_sound (r : rx A) : forall s, rx_eqb eqA r s = true -> r = s.
  Proof.
    induction r; destruct s; cbn [rx_eqb]; intro H; try discriminate; try reflexivity.
    - apply eqA_sound in H. subst; reflexivity.
    - apply andb_true_iff in H. destruct H as [H1 H2].
      rewrite (IHr1 _ H1), (IHr2 _ H2). reflexivity.
    - apply andb_true_iff in H. destruct H as [H1 H2].
      rewrite (IHr1 _ H1), (IHr2 _ H2). reflexivity.
    - rewrite (IHr _ H). reflexivity.
  Qed.

  Lemma mem_rx_In r l : mem_rx eqA r l = true -> In r l.
  Proof.
    unfold mem_rx. intro H. apply existsb_exists in H. destruct H as [x [Hin Hx]].
    apply rx_eqb_sound in Hx. subst; assumption.
  Qed.

  Lemma dedup_rx_In r l : In r (dedup_rx eqA l) <-> In r l.
  Proof.
    induction l as [| x l IH]; cbn [dedup_rx]; [reflexivity |].
    destruct (mem_rx eqA x (dedup_rx eqA l)) eqn:E.
    - rewrite IH. split; [right; assumption |].
      intros [-> | H]; [| assumption]. apply IH. apply mem_rx_In. assumption.
    - cbn [In]. rewrite IH. reflexivity.
  Qed.
End Denotes.

(** *** Relabelling the leaves commutes with everything above. *)
Section Map.
  Context {A B : Type}.
  Variable f : A -> B.

  Fixpoint rmap (r : rx A) : rx B :=
    match r with
    | Zero => Zero
    | Eps => Eps
    | Leaf a => Leaf (f a)
    | Cat r s => Cat (rmap r) (rmap s)
    | Alt r s => Alt (rmap r) (rmap s)
    | Plus r => Plus (rmap r)
    end.

  Lemma rmap_nullable r : nullable (rmap r) = nullable r.
  Proof. induction r; cbn [rmap nullable]; congruence. Qed.

  Lemma rmap_cat r s : rmap (cat r s) = cat (rmap r) (rmap s).
  Proof. destruct r; destruct s; reflexivity. Qed.

  Lemma rmap_alt r s : rmap (alt r s) = alt (rmap r) (rmap s).
  Proof. destruct r; destruct s; reflexivity. Qed.

  Lemma rmap_lf r : lf (rmap r) = map (fun ak => (f (fst ak), rmap (snd ak))) (lf r).
  Proof.
    induction r; cbn [rmap lf]; try reflexivity.
    - rewrite map_app, IHr1, rmap_nullable. rewrite !map_map. cbn [fst snd].
      f_equal.
      + apply map_ext. intros [a k]. cbn [fst snd]. rewrite rmap_cat. reflexivity.
      + destruct (nullable r1); [assumption | reflexivity].
    - rewrite map_app, IHr1, IHr2. reflexivity.
    - rewrite IHr, !map_map. apply map_ext. intros [a k]. cbn [fst snd].
      rewrite rmap_cat. reflexivity.
  Qed.
End Map.
