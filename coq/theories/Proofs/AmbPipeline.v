(** The description-conflict class in the model pipeline: the ambiguity check of the minimised
    main automaton fails iff the language of the raw automaton (by C02 the language of the
    validated tree, over input ids) has a point where the same literal text is expected with two
    different descriptions; it never fails for another reason. *)
From CG Require Import Base.Prelude Model.Ast Model.Dfa Model.Regex Model.Subset Model.Minimize Model.Ambiguity.
From CG Require Import Spec.DfaEquiv Spec.MinimizeSpec.
From CG Require Import Proofs.TreeFacts Proofs.WfTrim Proofs.MinimizeCorrect Proofs.C02Total Proofs.CompiledFacts.
From CG Require Import Proofs.AmbLang.

Theorem main_amb_verdict pick fuel submap e r pl d states m :
  alts_nonempty e = true ->
  from_expr e [] = Ok (r, pl) ->
  dfa_from_regex pick fuel submap r = Ok (d, states) ->
  minimize d = Ok m ->
  ((exists ae, check_ambiguity_best_effort m = Err ae) <-> lang_conflict d) /\
  (forall ae, check_ambiguity_best_effort m = Err ae -> exists q t l r', ae = ConflictingDescriptions q t l r').
Proof.
  intros Ha E Ed Em.
  destruct (wf_trim_from_regex pick fuel submap e [] r pl d states Ha (Forall_nil _) E Ed) as [W TR].
  destruct (minimize_correct d m W TR Em) as [Hl [TRm _]].
  pose proof (minimize_dfa_wf d m W TR Em) as Wm.
  assert (Hnd : NoDup (d_inputs m)).
  { rewrite (minimize_inputs d m Em). eapply dfa_from_regex_inputs. exact Ed. }
  split.
  - rewrite (conflict_language m Wm Hnd TRm). split.
    + apply lang_conflict_ext; [symmetry; apply (minimize_inputs d m Em)|intro w; symmetry; apply Hl].
    + apply lang_conflict_ext; [apply (minimize_inputs d m Em)|exact Hl].
  - apply (only_conflicts m Wm Hnd).
Qed.
