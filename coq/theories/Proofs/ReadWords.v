(** Which typed words an item reads, as far as the grammar fixes it (the notion of
    [Spec.Ambig.matches_item], on the items of [Spec.Lang]): a literal reads its text; a composite
    word reads the concatenations of what its pieces read, where a literal piece reads its
    (non-empty) text and any other piece (command, undefined nonterminal) any non-empty text;
    what a command or an undefined nonterminal reads as a whole word is not fixed by the grammar
    and is a parameter ([wild]). *)
From CG Require Import Base.Prelude Model.Ast Model.Dfa Spec.Lang.

Definition tok_reads (a : witem) (u : string) : Prop :=
  match a with
  | WLit t _ _ => u = t /\ t <> EmptyString
  | WCmd _ _ | WCompadd _ _ | WStar => u <> EmptyString
  end.

Inductive wreads : list witem -> string -> Prop :=
| wr_nil : wreads [] EmptyString
| wr_cons a v u w : tok_reads a u -> wreads v w -> wreads (a :: v) (append u w).

Section Reads.
  (** what a command / undefined nonterminal reads as a whole word *)
  Variable wild : witem -> string -> Prop.

  Definition item_reads (it : item) (w : string) : Prop :=
    match it with
    | ILeaf (WLit t _ _) => w = t
    | ILeaf a => wild a w
    | IWord L _ => exists v, L v /\ wreads v w
    end.

  Lemma item_reads_equiv : forall x y w, item_equiv x y -> item_reads x w -> item_reads y w.
  Proof.
    intros [a|L l] [b|L' l'] w He H; simpl in He; try tauto.
    - subst. exact H.
    - destruct He as [_ He]. simpl in *. destruct H as [v [Hv Hr]]. exists v. split; auto. apply He. exact Hv.
  Qed.
End Reads.
