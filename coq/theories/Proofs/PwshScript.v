(** C04, PowerShell: the WHOLE emitted script ([Model/EmitPwsh.script]) is read back by the
    specification-side reader.  Same construction as Proofs/ZshScript.v. *)
From Coq Require Import DecimalString.
From CG Require Import Base.Prelude Model.Ast Model.Dfa Model.Tpl Model.Quote Model.Tables Model.EmitBash Model.EmitData
     Model.EmitPwsh Spec.ShellDQ Spec.ScriptRead Proofs.QuoteRT Proofs.BashCodec Proofs.BashScript Proofs.ScriptGen
     Proofs.ZshCodec Proofs.PwshCodec.
From CGgen Require Import Consts TplPwsh.
Open Scope N_scope.
Open Scope list_scope.

Notation envP := EmitPwsh.env_cmd.
Notation line_semP := (line_semG Pwsh).
Notation scansP := (scansE Pwsh).
Notation unit_scansP := (unit_scans_envG Pwsh).

Definition pdp : string := "         ".
Lemma pdeep x : stmt_of Pwsh (append pdp x) = None.
Proof. reflexivity. Qed.
Lemma pblank rest : stmt_of Pwsh (append nl rest) = None.
Proof. reflexivity. Qed.

Ltac closed_lineP :=
  apply (closed_render_semG Pwsh); [reflexivity | vm_compute; reflexivity | intro; vm_compute; reflexivity | vm_compute; exact I].
Ltac deep_lineP Hnl :=
  apply (deep_render_semG Pwsh pdp pdeep);
  [ reflexivity
  | unfold seg_no_nl, EmitPwsh.env_cmd; cbn [forallb assoc String.eqb Ascii.eqb Bool.eqb]; rewrite ?Hnl, ?no_nl_sN; reflexivity ].

Ltac unit_openP :=
  unfold unit_scans_envG; intros k rest;
  rewrite render_region by (vm_compute; reflexivity);
  match goal with |- context [render_lines ?E ?R] =>
    replace (List.length (region_lines R)) with (List.length (render_lines E R)) by apply map_length
  end.
Ltac unit_linesP :=
  unfold render_lines;
  match goal with |- context [region_lines ?R] => region_list R end;
  cbn [map].
Ltac unit_closeP :=
  match goal with |- _ = _ ++ ?T => generalize T; intro end; vm_compute; reflexivity.
Ltac rest_linesP Hnl := repeat (eapply Forall2_cons; [first [closed_lineP | deep_lineP Hnl]|]).
Ltac unit_tacP Hnl first_lines :=
  unit_openP; erewrite (scan_lines_semG Pwsh);
  [ | unit_linesP; first_lines; rest_linesP Hnl; apply Forall2_nil ];
  unit_closeP.

(** the command name: name characters, and no single quote (it is written between single quotes in
    the registration line) *)
Definition no_squote (s : string) : bool := forallb (fun c => negb (Ascii.eqb c "'")) (list_ascii_of_string s).
Definition pname_ok (command : string) : Prop := name_ok command /\ no_squote command = true.

Lemma take_while_app (p : ascii -> bool) s c r :
  forallb p (list_ascii_of_string s) = true -> p c = false -> take_while p (append s (String c r)) = (s, String c r).
Proof.
  intros H Hc. induction s as [|a t IH]; cbn [append take_while].
  - rewrite Hc. reflexivity.
  - cbn in H. apply andb_prop in H. destruct H as [Ha Ht]. rewrite Ha, (IH Ht). reflexivity.
Qed.

(** ** the lines that carry the command name at statement indentation *)
Lemma pheader_reads cmd suf :
  name_ok cmd -> forallb is_name_char (list_ascii_of_string suf) = true -> no_nl suf = true ->
  no_nl (append "function _" (append cmd (append suf " {"))) = true
  /\ forall rest, pwsh_stmt (append (append "function _" (append cmd (append suf " {"))) (append nl rest))
                  = Some (SFunc (append "_" (append cmd suf)), rest).
Proof.
  intros Hc Hsuf Hnl. split.
  - cbn [append no_nl]. rewrite !no_nl_app, (name_ok_no_nl _ Hc), Hnl. reflexivity.
  - intros rest. unfold pwsh_stmt. rewrite !append_assoc.
    do 6 (rewrite alt_skip by reflexivity).
    apply alt_take. erewrite pbind_lit' by reflexivity.
    assert (T : forallb is_name_char (list_ascii_of_string ("_" ++ cmd ++ suf)) = true).
    { destruct Hc as [_ Hc]. apply (name_chars_app "_"); [reflexivity | apply name_chars_app; assumption]. }
    change ("_" ++ cmd ++ suf ++ " {" ++ nl ++ rest)%string with ("_" ++ cmd ++ suf ++ String " " ("{" ++ nl ++ rest))%string.
    rewrite <- (append_assoc cmd suf).
    erewrite pbind_some
      by (apply (name_read ("_" ++ (cmd ++ suf))%string " "%char ("{" ++ nl ++ rest)%string ltac:(discriminate));
          [exact T | reflexivity]).
    erewrite pbind_lit' by reflexivity.
    rewrite (pbind_some _ _ _ _ _ (eol_nl rest)). reflexivity.
Qed.

Lemma pheader_sem cmd suf :
  name_ok cmd -> forallb is_name_char (list_ascii_of_string suf) = true -> no_nl suf = true ->
  strip "_cmd_" suf = None ->
  line_semP cmd (append "function _" (append cmd (append suf " {"))) (Some (SFunc (append "_" (append cmd suf)))).
Proof.
  intros Hc Hsuf Hnl Hs. destruct (pheader_reads cmd suf Hc Hsuf Hnl) as [H1 H2].
  split; [exact H1|]. split; [exact H2|]. apply is_cmd_fn_suffix. exact Hs.
Qed.

(** [    _<cmd><suffix> $args[0] $args[1]] *)
Lemma pcall_sem cmd suf :
  name_ok cmd -> forallb is_name_char (list_ascii_of_string suf) = true -> no_nl suf = true ->
  line_semP cmd (append "    _" (append cmd (append suf (append " $args[0] $args[1]" EmptyString))))
            (Some (SCall (append "_" (append cmd suf)))).
Proof.
  intros [Hne Hc] Hsuf Hsnl. pose proof (name_ok_no_nl cmd (conj Hne Hc)) as Hnl. rewrite QuoteRT.append_nil_r.
  assert (Hv : forallb is_name_char (list_ascii_of_string (cmd ++ suf)%string) = true) by (apply name_chars_app; assumption).
  assert (Hvne : (cmd ++ suf)%string <> EmptyString) by (destruct cmd; [congruence | discriminate]).
  split; [|split; [|exact I]].
  - nonl Hnl Hsnl.
  - intros rest. change (stmt_of Pwsh) with pwsh_stmt. unfold pwsh_stmt. rewrite !append_assoc.
    do 5 (rewrite alt_skip by reflexivity).
    apply alt_take.
    change (" $args[0] $args[1]" ++ nl ++ rest)%string with (String " " ("$args[0] $args[1]" ++ nl ++ rest))%string.
    rewrite <- (append_assoc cmd suf).
    rewrite pbind_lit.
    rewrite (pbind_some _ _ _ _ _ (name_read (cmd ++ suf)%string " "%char _ Hvne Hv eq_refl)).
    erewrite pbind_lit' by reflexivity.
    match goal with |- context [line ?X] =>
      replace (line X) with ("[0] $args[1]", rest) by (symmetry; apply (line_app "[0] $args[1]" rest eq_refl))
    end.
    try rewrite append_assoc. reflexivity.
Qed.

(** Register-ArgumentCompleter -Native -CommandName '<cmd>' -ScriptBlock { *)
Lemma pregister_sem cmd :
  pname_ok cmd ->
  line_semP cmd (append "Register-ArgumentCompleter -Native -CommandName '" (append cmd "' -ScriptBlock {"))
            (Some (SRegister [cmd])).
Proof.
  intros [[Hne Hc] Hq]. pose proof (name_ok_no_nl cmd (conj Hne Hc)) as Hnl.
  split; [|split; [|exact I]].
  - nonl Hnl Hnl.
  - intros rest. change (stmt_of Pwsh) with pwsh_stmt. unfold pwsh_stmt. rewrite !append_assoc.
    do 8 (rewrite alt_skip by reflexivity).
    rewrite pbind_lit.
    change ("' -ScriptBlock {" ++ nl ++ rest)%string with (String "'" (" -ScriptBlock {" ++ nl ++ rest))%string.
    rewrite (take_while_app _ cmd "'"%char _ Hq eq_refl). reflexivity.
Qed.

Lemma pscalar_sem cmd var n :
  vname var -> no_nl var = true ->
  line_semP cmd (append "    $" (append var (append " = " (append (sN n) EmptyString)))) (Some (SScalar var n)).
Proof.
  intros Hv Hvn. rewrite QuoteRT.append_nil_r. split; [|split; [|exact I]].
  - nonl Hvn no_nl_sN.
  - intros rest. pose proof (pwsh_scalar_stmt var n rest Hv) as H. unfold pscalar_line in H.
    rewrite !append_assoc in H. rewrite !append_assoc. exact H.
Qed.

Lemma phash_sem cmd x : no_nl x = true -> line_semP cmd (append "# " x) None.
Proof. intros H. split; [exact H|]. split; [|exact I]. intros rest. reflexivity. Qed.

Lemma pclose_sem cmd : line_semP cmd "}" (Some SEnd).
Proof. split; [reflexivity|]. split; [intros rest; reflexivity | exact I]. Qed.

Lemma pclose_table_sem cmd : line_semP cmd "    }" None.
Proof. split; [reflexivity|]. split; [intros rest; reflexivity | exact I]. Qed.

(** ** units *)
Ltac special_lineP L :=
  eapply Forall2_cons; [cbn [render assoc String.eqb Ascii.eqb Bool.eqb EmitPwsh.env_cmd]; apply L|].

Section Units.
Variable command : string.
Hypothesis Hp : pname_ok command.
Let Hc : name_ok command := proj1 Hp.
Let Hnl := name_ok_no_nl _ Hc.

Definition P_s0 := (write_subword_fn_0 ++ seg_nl) ++ seg_nl.

Lemma P_s0_scans :
  unit_scansP command (envP command) P_s0
    [SFunc (append "_" (append command "_subword")); SScalar "subword_state" 0; SScalar "char_index" 0].
Proof. unit_tacP Hnl ltac:(eapply Forall2_cons; [apply (pheader_sem command "_subword" Hc); reflexivity|]). Qed.
Lemma P_s1_scans : unit_scansP command (envP command) (sh_nl write_subword_fn_1) [].
Proof. unit_tacP Hnl idtac. Qed.
Lemma P_s2_scans : unit_scansP command (envP command) (sh_nl write_subword_fn_2) [].
Proof. unit_tacP Hnl idtac. Qed.
Lemma P_s3_scans : unit_scansP command (envP command) (sh_nl write_subword_fn_3) [SLits "completions" []].
Proof. unit_tacP Hnl idtac. Qed.
Lemma P_s4_scans : unit_scansP command (envP command) (sh_nl write_subword_fn_4) [].
Proof. unit_tacP Hnl idtac. Qed.
Lemma P_s5_scans : unit_scansP command (envP command) (drop_nl write_subword_fn_5) [SEnd].
Proof. unit_tacP Hnl idtac. Qed.

Definition P_m2 := write_completion_script_2 ++ seg_nl.
Definition P_m3 := write_completion_script_3 ++ seg_nl.
Definition P_m6 := write_completion_script_6 ++ seg_nl.
Definition P_m13 := write_completion_script_13 ++ seg_nl.

Lemma P_m0_scans : unit_scansP command [] write_completion_script_0 [].
Proof. unit_tacP Hnl idtac. Qed.
Lemma P_m2_scans : unit_scansP command (envP command) P_m2 [SRegister [command]].
Proof. unit_tacP Hnl ltac:(special_lineP (pregister_sem command Hp)). Qed.
Lemma P_m3_scans : unit_scansP command (envP command) P_m3 [].
Proof. unit_tacP Hnl idtac. Qed.

Definition penv_state (start : N) : list (string * string) := ("starting_state", sN start) :: envP command.
Definition penv_max (m : N) : list (string * string) := ("max_fallback_level", sN m) :: envP command.

Lemma P_m6_scans start :
  unit_scansP command (penv_state start) P_m6 [SScalar "state" start; SScalar "word_index" 1].
Proof.
  unit_tacP Hnl ltac:(eapply Forall2_cons; [closed_lineP|];
                      eapply Forall2_cons;
                      [unfold penv_state; cbn [render assoc String.eqb Ascii.eqb Bool.eqb EmitPwsh.env_cmd];
                       apply (pscalar_sem command "state" start); [split; [discriminate | reflexivity] | reflexivity]|]).
Qed.
Lemma P_m7_scans : unit_scansP command (envP command) (sh_nl write_completion_script_7) [].
Proof. unit_tacP Hnl idtac. Qed.
Lemma P_m8_scans : unit_scansP command (envP command) (sh_nl write_completion_script_8) [].
Proof. unit_tacP Hnl idtac. Qed.
Lemma P_m9_scans : unit_scansP command (envP command) (sh_nl write_completion_script_9) [].
Proof. unit_tacP Hnl idtac. Qed.
Lemma P_m10_scans : unit_scansP command (envP command) (drop_nl write_completion_script_10) [].
Proof. unit_tacP Hnl idtac. Qed.
Lemma P_m13_scans m :
  unit_scansP command (penv_max m) P_m13 [SScalar "max_fallback_level" m; SLits "results" []].
Proof.
  unit_tacP Hnl ltac:(eapply Forall2_cons; [closed_lineP|];
                      eapply Forall2_cons;
                      [unfold penv_max; cbn [render assoc String.eqb Ascii.eqb Bool.eqb EmitPwsh.env_cmd];
                       apply (pscalar_sem command "max_fallback_level" m); [split; [discriminate | reflexivity] | reflexivity]|]).
Qed.
Lemma P_m14_scans : unit_scansP command (envP command) (sh_nl write_completion_script_14) [].
Proof. unit_tacP Hnl idtac. Qed.
Lemma P_m15_scans : unit_scansP command (envP command) (sh_nl write_completion_script_15) [].
Proof. unit_tacP Hnl idtac. Qed.
Lemma P_m16_scans : unit_scansP command (envP command) (drop_nl write_completion_script_16) [SEnd].
Proof. unit_tacP Hnl idtac. Qed.
End Units.

(** ** data sections as scanned pieces *)
Lemma pmatch_scans cmd t : scansP cmd (P.write_matching_tables t) (pmatch_stmts t).
Proof. rewrite pwrite_match_lines. apply reads_scansG, preads_match. Qed.
Lemma pcompletion_scans cmd t : scansP cmd (P.write_completion_tables t) (completion_stmts t).
Proof. rewrite pwrite_completion_lines. apply reads_scansG, preads_completion. Qed.

Lemma join_nl_unlines (x : string) l : append (join EmitBash.nl (x :: l)) EmitBash.nl = sconcat (map (fun y => append y EmitBash.nl) (x :: l)).
Proof.
  revert x. induction l as [|y l IH]; intros x.
  - Transparent join. cbn [join map sconcat]. Opaque join. rewrite QuoteRT.append_nil_r. reflexivity.
  - Transparent join. change (join EmitBash.nl (x :: y :: l)) with (append x (append EmitBash.nl (join EmitBash.nl (y :: l)))). Opaque join.
    change (sconcat (map (fun y0 => append y0 EmitBash.nl) (x :: y :: l)))
      with (append (append x EmitBash.nl) (sconcat (map (fun y0 => append y0 EmitBash.nl) (y :: l)))).
    rewrite <- IH. rewrite !append_assoc. reflexivity.
Qed.

Lemma plits_scans cmd lits : lits_smart_free lits -> scansP cmd (P.write_literals lits) (plits_stmts lits).
Proof.
  intros Hs. unfold P.write_literals, plits_stmts.
  assert (Ht : Forall (fun s => smart_free s = true) (map (fun l : N * string * string => snd (fst l)) lits)).
  { clear -Hs. induction Hs as [|l lits [H1 _] _ IH]; constructor; assumption. }
  assert (Hd : Forall (fun kd : N * string => smart_free (snd kd) = true) (pdescrs lits)).
  { clear -Hs. unfold pdescrs. induction Hs as [|l lits [_ H2] _ IH]; cbn [flat_map]; [constructor|].
    apply Forall_app. split; [|exact IH]. destruct (snd l); [constructor | constructor; [exact H2 | constructor]]. }
  assert (E : flat_map (fun l : N * string * string =>
                          match snd l with
                          | EmptyString => []
                          | d => [("        " ++ sN (fst (fst l)) ++ " = " ++ P.msc d ++ ";")%string]
                          end) lits
              = map (fun kd : N * string => ("        " ++ sN (fst kd) ++ " = " ++ P.msc (snd kd) ++ ";")%string) (pdescrs lits)).
  { unfold pdescrs. rewrite map_flat_map. apply flat_map_ext. intros l. destruct (snd l); reflexivity. }
  rewrite E. clear E. rewrite ptpl_literals.
  assert (L : scansP cmd ("    $literals = @(" ++ join ", " (map (fun l : N * string * string => P.msc (snd (fst l))) lits) ++ ")" ++ EmitBash.nl)%string
                     [SLits "literals" (map (fun l : N * string * string => snd (fst l)) lits)]).
  { apply reads_scans1. split; [discriminate|]. split; [exact I|]. intros rest.
    pose proof (pwsh_literals_stmt _ rest Ht) as H. unfold plits_line in H. rewrite map_map in H. exact H. }
  match goal with |- scansE _ _ _ (?a :: ?X) => change (a :: X) with ([a] ++ X) end.
  apply scansE_app; [exact L|]. clear L.
  destruct (pdescrs lits) as [|kd kds] eqn:Ek; cbn [map].
  - rewrite ptpl_descr_empty. apply reads_scans1. apply (preads_pairs "descriptions" []). split; [discriminate | reflexivity].
  - rewrite ptpl_descr_block.
    change (map (fun kd0 : N * string => ("        " ++ sN (fst kd0) ++ " = " ++ P.msc (snd kd0) ++ ";")%string) (kd :: kds))
      with (("        " ++ sN (fst kd) ++ " = " ++ P.msc (snd kd) ++ ";")%string
            :: map (fun kd0 : N * string => ("        " ++ sN (fst kd0) ++ " = " ++ P.msc (snd kd0) ++ ";")%string) kds).
    rewrite <- (append_assoc (join EmitBash.nl _) EmitBash.nl). rewrite join_nl_unlines.
    change (("        " ++ sN (fst kd) ++ " = " ++ P.msc (snd kd) ++ ";")%string
            :: map (fun kd0 : N * string => ("        " ++ sN (fst kd0) ++ " = " ++ P.msc (snd kd0) ++ ";")%string) kds)
      with (map (fun kd0 : N * string => ("        " ++ sN (fst kd0) ++ " = " ++ P.msc (snd kd0) ++ ";")%string) (kd :: kds)).
    rewrite map_map.
    rewrite (sconcat_map_fmtln _ (fun kd0 : N * string => pdescr_line (fst kd0) (snd kd0)))
      by (intros x; unfold pdescr_line, P.msc; rewrite !append_assoc; reflexivity).
    change (SDecl "descriptions" :: SStr "descriptions" (fst kd) (snd kd) :: map (fun kd0 : N * string => SStr "descriptions" (fst kd0) (snd kd0)) kds)
      with ([SDecl "descriptions"] ++ map (fun kd0 : N * string => SStr "descriptions" (fst kd0) (snd kd0)) (kd :: kds)).
    apply scansE_app; [apply reads_scans1; split; [discriminate|]; split; [exact I | intros rest; apply pwsh_descr_open_stmt]|].
    rewrite <- (app_nil_r (map (fun kd0 : N * string => SStr "descriptions" (fst kd0) (snd kd0)) (kd :: kds))).
    apply scansE_app.
    + apply reads_scansG. clear Ek. induction Hd as [|x xs Hx _ IH]; cbn [map]; constructor; [|exact IH].
      split; [discriminate|]. split; [exact I|]. intros rest. apply pwsh_descr_stmt. exact Hx.
    + apply (scansG_line Pwsh cmd "    }" None). apply pclose_table_sem.
Qed.

(** ** wrapper and shape functions of within-word automata *)
Lemma ptpl_wrapper_header command id :
  fmtln write_subword_wrapper_fn_0 [("command", command); ("id", sN id)]
  = append (append "function _" (append command (append (append "_subword_" (sN id)) " {"))) nl.
Proof. tpl_norm. Qed.
Lemma ptpl_shape_wrapper_header command id :
  fmtln write_subword_shape_wrapper_fn_0 [("command", command); ("id", sN id)]
  = append (append "function _" (append command (append (append "_subword_" (sN id)) " {"))) nl.
Proof. tpl_norm. Qed.
Lemma ptpl_shape_header command sid :
  fmtln write_subword_shape_fn_0 [("command", command); ("shape_id", sN sid)]
  = append (append "function _" (append command (append (append "_subword_shape_" (sN sid)) " {"))) nl.
Proof. tpl_norm. Qed.
Lemma ptpl_wrapper_call command :
  fmtln write_subword_wrapper_fn_1 [("command", command)]
  = append (append "    _" (append command (append "_subword" (append " $args[0] $args[1]" EmptyString)))) nl.
Proof. tpl_norm. Qed.
Lemma ptpl_shape_call command :
  fmtln write_subword_shape_fn_1 [("command", command)]
  = append (append "    _" (append command (append "_subword" (append " $args[0] $args[1]" EmptyString)))) nl.
Proof. tpl_norm. Qed.
Lemma ptpl_shape_wrapper_call command sid :
  fmtln write_subword_shape_wrapper_fn_1 [("command", command); ("shape_id", sN sid)]
  = append (append "    _" (append command (append (append "_subword_shape_" (sN sid)) (append " $args[0] $args[1]" EmptyString)))) nl.
Proof. tpl_norm. Qed.
Lemma ptpl_close_wrapper : fmtln write_subword_wrapper_fn_2 [] = append "}" nl.
Proof. tpl_norm. Qed.
Lemma ptpl_close_shape : fmtln write_subword_shape_fn_2 [] = append "}" nl.
Proof. tpl_norm. Qed.
Lemma ptpl_close_shape_wrapper : fmtln write_subword_shape_wrapper_fn_2 [] = append "}" nl.
Proof. tpl_norm. Qed.

Definition pwrapper_stmts (command : string) (id : N) (t : tables) : list stmt :=
  [SFunc (fn_name command (append "_subword_" (sN id)))]
  ++ plits_stmts (t_literals t) ++ pmatch_stmts t ++ completion_stmts t
  ++ [SCall (fn_name command "_subword")] ++ [SEnd].

Definition pshape_fn_stmts (command : string) (sid : N) (t : tables) : list stmt :=
  [SFunc (fn_name command (append "_subword_shape_" (sN sid)))]
  ++ pmatch_stmts t ++ completion_stmts t ++ [SCall (fn_name command "_subword")] ++ [SEnd].

Definition pshape_wrapper_stmts (command : string) (id sid : N) (t : tables) : list stmt :=
  [SFunc (fn_name command (append "_subword_" (sN id)))] ++ plits_stmts (t_literals t)
  ++ [SCall (fn_name command (append "_subword_shape_" (sN sid)))] ++ [SEnd].

Section Wrappers.
Variable command : string.
Hypothesis Hc : name_ok command.

Lemma pheader_scans suf :
  forallb is_name_char (list_ascii_of_string suf) = true -> no_nl suf = true -> strip "_cmd_" suf = None ->
  scansP command (append (append "function _" (append command (append suf " {"))) nl) [SFunc (fn_name command suf)].
Proof. intros H1 H2 H3. apply (scansG_line Pwsh command _ _ (pheader_sem command suf Hc H1 H2 H3)). Qed.

Lemma pcall_scans suf :
  forallb is_name_char (list_ascii_of_string suf) = true -> no_nl suf = true ->
  scansP command (append (append "    _" (append command (append suf (append " $args[0] $args[1]" EmptyString)))) nl)
         [SCall (fn_name command suf)].
Proof. intros H1 H2. apply (scansG_line Pwsh command _ _ (pcall_sem command suf Hc H1 H2)). Qed.

Lemma pclose_scans : scansP command (append "}" nl) [SEnd].
Proof. apply (scansG_line Pwsh command _ _ (pclose_sem command)). Qed.

Lemma pblank_scans : scansP command nl [].
Proof. apply (blank_scansG Pwsh pblank). Qed.

Lemma pwrapper_scans id t :
  lits_smart_free (t_literals t) ->
  scansP command (append (P.wrapper command id t) nl) (pwrapper_stmts command id t).
Proof.
  intros Hs. destruct (sub_suffix_ok "_subword_" id eq_refl eq_refl) as [S1 S2].
  unfold P.wrapper, pwrapper_stmts. cbn [sconcat].
  rewrite ptpl_wrapper_header, ptpl_wrapper_call, ptpl_close_wrapper.
  set (A := (("function _" ++ command ++ ("_subword_" ++ sN id) ++ " {") ++ nl)%string).
  set (F := (("    _" ++ command ++ "_subword" ++ " $args[0] $args[1]" ++ "") ++ nl)%string).
  set (G := ("}" ++ nl)%string).
  rewrite !append_assoc. cbn [append].
  apply scansE_app; [apply (pheader_scans _ S1 S2 eq_refl)|].
  apply scansE_app; [apply plits_scans; exact Hs|].
  apply scansE_app; [apply pmatch_scans|].
  apply scansE_app; [apply pcompletion_scans|].
  apply scansE_app; [apply (pcall_scans "_subword" eq_refl eq_refl)|].
  rewrite <- (app_nil_r [SEnd]).
  apply scansE_app; [apply pclose_scans | apply pblank_scans].
Qed.

Lemma pshape_fn_scans sid t :
  scansP command (append (P.shape_fn command sid t) nl) (pshape_fn_stmts command sid t).
Proof.
  destruct (sub_suffix_ok "_subword_shape_" sid eq_refl eq_refl) as [S1 S2].
  unfold P.shape_fn, pshape_fn_stmts. cbn [sconcat].
  rewrite ptpl_shape_header, ptpl_shape_call, ptpl_close_shape.
  set (A := (("function _" ++ command ++ ("_subword_shape_" ++ sN sid) ++ " {") ++ nl)%string).
  set (F := (("    _" ++ command ++ "_subword" ++ " $args[0] $args[1]" ++ "") ++ nl)%string).
  set (G := ("}" ++ nl)%string).
  rewrite !append_assoc. cbn [append].
  apply scansE_app; [apply (pheader_scans _ S1 S2 eq_refl)|].
  apply scansE_app; [apply pmatch_scans|].
  apply scansE_app; [apply pcompletion_scans|].
  apply scansE_app; [apply (pcall_scans "_subword" eq_refl eq_refl)|].
  rewrite <- (app_nil_r [SEnd]).
  apply scansE_app; [apply pclose_scans | apply pblank_scans].
Qed.

Lemma pshape_wrapper_scans id sid t :
  lits_smart_free (t_literals t) ->
  scansP command (append (P.shape_wrapper command id sid t) nl) (pshape_wrapper_stmts command id sid t).
Proof.
  intros Hs. destruct (sub_suffix_ok "_subword_" id eq_refl eq_refl) as [S1 S2].
  destruct (sub_suffix_ok "_subword_shape_" sid eq_refl eq_refl) as [T1 T2].
  unfold P.shape_wrapper, pshape_wrapper_stmts. cbn [sconcat].
  rewrite ptpl_shape_wrapper_header, ptpl_shape_wrapper_call, ptpl_close_shape_wrapper.
  set (A := (("function _" ++ command ++ ("_subword_" ++ sN id) ++ " {") ++ nl)%string).
  set (F := (("    _" ++ command ++ ("_subword_shape_" ++ sN sid) ++ " $args[0] $args[1]" ++ "") ++ nl)%string).
  set (G := ("}" ++ nl)%string).
  rewrite !append_assoc. cbn [append].
  apply scansE_app; [apply (pheader_scans _ S1 S2 eq_refl)|].
  apply scansE_app; [apply plits_scans; exact Hs|].
  apply scansE_app; [apply (pcall_scans _ T1 T2)|].
  rewrite <- (app_nil_r [SEnd]).
  apply scansE_app; [apply pclose_scans | apply pblank_scans].
Qed.
End Wrappers.

(** ** the functions of external commands *)
Definition pcmd_fns_stmts (command : string) (ics : list (N * string)) : list stmt :=
  flat_map (fun ic => [SFunc (fn_name command (append "_cmd_" (sN (fst ic)))); SBody (P.cmd_body (snd ic)); SEnd]) ics.

Lemma ptpl_cmd_fn command id body :
  fmtln write_completion_script_1 (("id", sN id) :: ("cmd", body) :: envP command)
  = cmd_fn_textG Pwsh (append "function _" (append command (append (append "_cmd_" (sN id)) " {"))) body.
Proof. unfold cmd_fn_textG. tpl_norm. Qed.

Lemma pcmd_fns_scans command (Hc : name_ok command) ics :
  Forall (fun ic => body_okG Pwsh (P.cmd_body (snd ic))) ics ->
  scansP command
    (sconcat (map (fun ic : N * string => fmtln write_completion_script_1
                                            (("id", sN (fst ic)) :: ("cmd", P.cmd_body (snd ic)) :: envP command)) ics))
    (pcmd_fns_stmts command ics).
Proof.
  induction 1 as [|ic ics Hb _ IH]; [apply scansE_nil|].
  cbn [map sconcat pcmd_fns_stmts flat_map]. rewrite ptpl_cmd_fn.
  apply scansE_app; [|exact IH].
  assert (Hsuf : forallb is_name_char (list_ascii_of_string ("_cmd_" ++ sN (fst ic))%string) = true)
    by (apply (name_chars_app "_cmd_"); [reflexivity | apply name_chars_sN]).
  assert (Hsnl : no_nl ("_cmd_" ++ sN (fst ic))%string = true) by (rewrite no_nl_app, no_nl_sN; reflexivity).
  destruct (pheader_reads command ("_cmd_" ++ sN (fst ic))%string Hc Hsuf Hsnl) as [_ Hrd].
  apply (cmd_fn_scansG Pwsh pdp pdeep pblank command); [discriminate | exact Hrd | apply is_cmd_fn_true | exact Hb].
Qed.

(** ** the within-word matcher *)
Definition psub_fn_stmts (command : string) : list stmt :=
  [SFunc (fn_name command "_subword"); SScalar "subword_state" 0; SScalar "char_index" 0] ++ [SLits "completions" []] ++ [SEnd].

Lemma psub_fn_text command nc ns :
  EmitPwsh.write_subword_fn command nc ns
  = (render (envP command) P_s0
     ++ (if nc then render (envP command) (sh_nl write_subword_fn_1) else EmptyString)
     ++ (if ns then render (envP command) (sh_nl write_subword_fn_2) else EmptyString)
     ++ render (envP command) (sh_nl write_subword_fn_3)
     ++ (if nc then render (envP command) (sh_nl write_subword_fn_4) else EmptyString)
     ++ render (envP command) (drop_nl write_subword_fn_5) ++ EmptyString)%string.
Proof.
  unfold EmitPwsh.write_subword_fn, fmt. cbn [sconcat]. rewrite fmtln_unit'.
  rewrite (render_starts_nl (envP command) write_subword_fn_5) by reflexivity.
  rewrite (append_assoc nl).
  rewrite (shift_if _ write_subword_fn_4) by reflexivity.
  rewrite (shift1 _ write_subword_fn_3) by reflexivity.
  rewrite (shift_if _ write_subword_fn_2) by reflexivity.
  rewrite (shift_if _ write_subword_fn_1) by reflexivity.
  rewrite render_snoc_nl. reflexivity.
Qed.

Ltac unitP1 L := refine (unit_scansG Pwsh _ _ _ _ _ L); vm_compute; reflexivity.
Ltac unitP L command Hp := first [unitP1 (L command Hp) | unitP1 (L command)].

Lemma psub_fn_scans command (Hp : pname_ok command) nc ns :
  scansP command (EmitPwsh.write_subword_fn command nc ns) (psub_fn_stmts command).
Proof.
  rewrite psub_fn_text. unfold psub_fn_stmts.
  apply scansE_app; [unitP P_s0_scans command Hp|].
  apply scansE_app0; [apply scansE_if0; unitP P_s1_scans command Hp|].
  apply scansE_app0; [apply scansE_if0; unitP P_s2_scans command Hp|].
  apply scansE_app; [unitP P_s3_scans command Hp|].
  apply scansE_app0; [apply scansE_if0; unitP P_s4_scans command Hp|].
  rewrite <- (app_nil_r [SEnd]).
  apply scansE_app; [unitP P_s5_scans command Hp | apply scansE_nil].
Qed.

(** ** the whole script *)
Definition pgroup_stmts (command : string) : alltables -> N -> list N -> res (list stmt) :=
  group_stmtsG (pwrapper_stmts command) (pshape_fn_stmts command) (pshape_wrapper_stmts command).

Definition psubtrans_stmts (rows : list (N * list (N * N))) : list stmt :=
  SAssoc "subword_transitions" [] :: row_stmts "subword_transitions" rows.

Definition pscript_stmts (command : string) (start : N) (nd : needs) (a : alltables) (groups : list (list N))
  : res (list stmt) :=
  let main := a_main a in
  do gs <- (if n_subwords nd then
              do l <- omap (fun ig : N * list N => pgroup_stmts command a (fst ig) (snd ig)) (number_from 0 groups);
              Ok (List.concat l)
            else Ok []);
  do rows <- (if n_subwords nd then resolve_rows a else Ok []);
  Ok (pcmd_fns_stmts command (number_from 0 (a_commands a)) ++ gs
      ++ (if n_subwords nd then psub_fn_stmts command else [])
      ++ [SRegister [command]] ++ plits_stmts (t_literals main) ++ pmatch_stmts main
      ++ (if n_subwords nd then psubtrans_stmts rows else [])
      ++ [SScalar "state" start; SScalar "word_index" 1]
      ++ completion_stmts main
      ++ (if n_subwords nd then level_stmts "subword_transitions_level_" (a_csub a) else [])
      ++ [SScalar "max_fallback_level" (t_maxlevel main); SLits "results" []] ++ [SEnd]).

Lemma ptpl_subdecl : fmtln write_completion_script_4 [] = ppairs_line "subword_transitions" [].
Proof. reflexivity. Qed.
Lemma ptpl_subrow a b :
  fmtln write_completion_script_5 [("state", a); ("state_transitions", b)]
  = ("    $" ++ "subword_transitions" ++ "[" ++ a ++ "] = @{" ++ b ++ "}" ++ nl)%string.
Proof. tpl_eq. Qed.
Lemma ptpl_subcell a b : fmt write_completion_script_11 [("from_state", a); ("0", b)] = (a ++ "=@(" ++ b ++ ")")%string.
Proof. tpl_eq. Qed.
Lemma ptpl_sublevel a b :
  fmtln write_completion_script_12 [("level", a); ("initializer", b)]
  = ("    $" ++ "subword_transitions_level_" ++ a ++ " = @{" ++ b ++ "}" ++ nl)%string.
Proof. tpl_eq. Qed.

Lemma psubrows_scans cmd rows :
  scansP cmd
    (append (fmtln write_completion_script_4 [])
            (sconcat (map (fun row : N * list (N * N) =>
                             fmtln write_completion_script_5
                               [("state", sN (fst row)); ("state_transitions", join ";" (map P.pkv (snd row)))]) rows)))
    (psubtrans_stmts rows).
Proof.
  rewrite ptpl_subdecl.
  rewrite (sconcat_map_fmtln _ (fun row : N * list (N * N) => prow_line "subword_transitions" (fst row) (snd row)))
    by (intros [s row]; apply ptpl_subrow).
  change (ppairs_line "subword_transitions" [] ++ sconcat (map (fun row : N * list (N * N) => prow_line "subword_transitions" (fst row) (snd row)) rows))%string
    with (sconcat (ppairs_line "subword_transitions" [] :: prow_lines "subword_transitions" rows)).
  apply reads_scansG. constructor; [apply (preads_pairs "subword_transitions" []); vn | apply preads_rows; vn].
Qed.

Lemma psublevels_scans cmd (ls : list (list (N * list N))) :
  scansP cmd
    (sconcat (map (fun kl : N * list (N * list N) =>
                     fmtln write_completion_script_12
                       [("level", sN (fst kl));
                        ("initializer",
                         join "; " (map (fun r : N * list N => fmt write_completion_script_11
                                                    [("from_state", sN (fst r)); ("0", join "," (map sN (snd r)))])
                                        (snd kl)))])
                  (number_from 0 ls)))
    (level_stmts "subword_transitions_level_" ls).
Proof.
  rewrite (sconcat_map_fmtln _ (fun kl : N * list (N * list N) => plevel_line "subword_transitions_level_" (fst kl) (snd kl))).
  - apply (reads_scansG Pwsh cmd (plevel_lines "subword_transitions_level_" ls)). apply preads_levels. vn.
  - intros [k rows]. cbn [fst snd]. rewrite ptpl_sublevel. unfold plevel_line.
    assert (E : map (fun r : N * list N => fmt write_completion_script_11
                                             [("from_state", sN (fst r)); ("0", join "," (map sN (snd r)))]) rows
                = map P.cell rows)
      by (apply map_ext; intros r; rewrite ptpl_subcell; reflexivity).
    rewrite E. reflexivity.
Qed.

Lemma psig_scans cmd sig : no_nl sig = true -> scansP cmd (append "# " (append sig EmitBash.nl)) [].
Proof.
  intros H. rewrite <- append_assoc. apply (scansG_line Pwsh cmd (append "# " sig) None). apply phash_sem. exact H.
Qed.

Definition alltables_smart_free (a : alltables) : Prop :=
  lits_smart_free (t_literals (a_main a))
  /\ forall id t, tables_of a id = Ok t -> lits_smart_free (t_literals t).

Theorem pwsh_script_read command sig start nd a groups s :
  pname_ok command -> no_nl sig = true ->
  Forall (fun c => body_okG Pwsh (P.cmd_body c)) (a_commands a) ->
  alltables_smart_free a ->
  EmitPwsh.script command sig start nd a groups = Ok s ->
  exists sts, pscript_stmts command start nd a groups = Ok sts /\ read_stmts Pwsh command s = sts.
Proof.
  intros Hp Hsig Hbodies [Hmain Hsubs] H. pose proof (proj1 Hp) as Hc. unfold EmitPwsh.script in H.
  apply obind_ok' in H. destruct H as [groups_part [Hgroups H]].
  apply obind_ok' in H. destruct H as [rows [Hrows H]].
  assert (G : exists gs, (if n_subwords nd then
                            do l <- omap (fun ig : N * list N => pgroup_stmts command a (fst ig) (snd ig)) (number_from 0 groups);
                            Ok (List.concat l)
                          else Ok []) = Ok gs /\ scansP command groups_part gs).
  { destruct (n_subwords nd).
    - apply obind_ok' in Hgroups. destruct Hgroups as [texts [Ht Hs]].
      destruct (groups_scansG Pwsh command _ _ _ _ _ _ (fun t => lits_smart_free (t_literals t))
                  (pwrapper_scans command Hc) (pshape_fn_scans command Hc) (pshape_wrapper_scans command Hc) a _ _ Hsubs Ht)
        as [stss [Hss Hn]].
      unfold pgroup_stmts. rewrite Hss. cbn [obind]. eexists. split; [reflexivity|].
      assert (E : sconcat texts = groups_part) by congruence. rewrite <- E. exact Hn.
    - assert (E : EmptyString = groups_part) by congruence. rewrite <- E.
      exists []. split; [reflexivity | apply scansE_nil]. }
  destruct G as [gs [Hgs Hgn]].
  unfold pscript_stmts. rewrite Hgs. cbn [obind]. rewrite Hrows. cbn [obind]. eexists. split; [reflexivity|].
  match type of H with Ok ?X = Ok _ => assert (E : X = s) by congruence end.
  rewrite <- E. clear E H Hgroups Hgs.
  apply scansE_read.
  cbn [sconcat]. unfold fmt. rewrite !fmtln_unit'.
  change (("max_fallback_level", sN (t_maxlevel (a_main a))) :: envP command) with (penv_max command (t_maxlevel (a_main a))).
  change (("starting_state", sN start) :: envP command) with (penv_state command start).
  rewrite (render_starts_nl (envP command) write_completion_script_16) by reflexivity.
  rewrite (append_assoc nl).
  rewrite (shift_if _ write_completion_script_15) by reflexivity.
  rewrite (shift_if _ write_completion_script_14) by reflexivity.
  rewrite (render_snoc_nl _ write_completion_script_13).
  rewrite (render_starts_nl (envP command) write_completion_script_10) by reflexivity.
  rewrite (append_assoc nl).
  rewrite (shift_if _ write_completion_script_9) by reflexivity.
  rewrite (shift_if _ write_completion_script_8) by reflexivity.
  rewrite (shift_if _ write_completion_script_7) by reflexivity.
  rewrite (render_snoc_nl _ write_completion_script_6).
  rewrite (QuoteRT.append_nil_r (render (envP command) (drop_nl write_completion_script_16))).
  apply scansE_app0; [apply (psig_scans command sig Hsig)|].
  apply scansE_app0; [unitP1 (P_m0_scans command)|].
  apply scansE_app.
  { apply (pcmd_fns_scans command Hc). clear -Hbodies. revert Hbodies. generalize 0. generalize (a_commands a).
    induction l as [|c l IH]; intros n0 Hb; cbn [number_from]; constructor; inversion Hb; subst; [assumption | apply IH; assumption]. }
  apply scansE_app; [exact Hgn|].
  apply scansE_app; [apply scansE_if; apply (psub_fn_scans command Hp)|].
  apply scansE_app; [unitP P_m2_scans command Hp|].
  apply scansE_app0; [unitP P_m3_scans command Hp|].
  apply scansE_app; [apply plits_scans; exact Hmain|].
  apply scansE_app; [apply pmatch_scans|].
  apply scansE_app; [apply scansE_if; apply psubrows_scans|].
  apply scansE_app; [first [unitP1 (P_m6_scans command Hp start) | unitP1 (P_m6_scans command start)]|].
  apply scansE_app0; [apply scansE_if0; unitP P_m7_scans command Hp|].
  apply scansE_app0; [apply scansE_if0; unitP P_m8_scans command Hp|].
  apply scansE_app0; [apply scansE_if0; unitP P_m9_scans command Hp|].
  apply scansE_app0; [unitP P_m10_scans command Hp|].
  apply scansE_app; [apply pcompletion_scans|].
  apply scansE_app; [apply scansE_if; apply psublevels_scans|].
  apply scansE_app; [first [unitP1 (P_m13_scans command Hp (t_maxlevel (a_main a))) | unitP1 (P_m13_scans command (t_maxlevel (a_main a)))]|].
  apply scansE_app0; [apply scansE_if0; unitP P_m14_scans command Hp|].
  apply scansE_app0; [apply scansE_if0; unitP P_m15_scans command Hp|].
  unitP P_m16_scans command Hp.
Qed.

(** ** a decidable form of the hypothesis on literal texts *)
Definition lits_smart_freeb (lits : list (N * string * string)) : bool :=
  forallb (fun l : N * string * string => smart_free (snd (fst l)) && smart_free (snd l)) lits.
Definition alltables_smart_freeb (a : alltables) : bool :=
  lits_smart_freeb (t_literals (a_main a))
  && forallb (fun e => lits_smart_freeb (t_literals (snd e))) (a_subwords a).

Lemma lits_smart_freeb_sound lits : lits_smart_freeb lits = true -> lits_smart_free lits.
Proof.
  unfold lits_smart_freeb, lits_smart_free. rewrite forallb_forall, Forall_forall. intros H l Hl.
  apply andb_prop. apply H. exact Hl.
Qed.

Lemma alltables_smart_freeb_sound a : alltables_smart_freeb a = true -> alltables_smart_free a.
Proof.
  unfold alltables_smart_freeb. intros H. apply andb_prop in H. destruct H as [Hm Hs]. split.
  - apply lits_smart_freeb_sound. exact Hm.
  - intros id t Ht. unfold tables_of, tables_of_id in Ht.
    destruct (find (fun e => N.eqb (snd (fst e)) id) (a_subwords a)) as [e|] eqn:E; [|discriminate].
    assert (Et : snd e = t) by congruence. subst t. apply find_some in E. destruct E as [Hin _].
    rewrite forallb_forall in Hs. apply lits_smart_freeb_sound. apply Hs. exact Hin.
Qed.
