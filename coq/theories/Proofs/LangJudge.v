(** Soundness of the judges of Spec/Lang.v:
    - [equiv_src] / [equiv_wdfa_expr] (inside a word);
    - [equiv_dfa_expr] (the main automaton with its within-word automata against a validated tree):
      [Equal] implies equal languages over items, [Differ w] gives a word that distinguishes. *)
From CG Require Import Base.Prelude Model.Ast Model.Dfa Spec.Lang.
From CG Require Import Proofs.SubsetConstr Proofs.LangRe Proofs.LangNfa Proofs.LangDen.

(** *** Letters *)
Lemma witem_eqb_spec : forall a b, witem_eqb a b = true <-> a = b.
Proof.
  intros a b. destruct a, b; simpl; split; intros H; try discriminate; try reflexivity.
  - apply andb_true_iff in H. destruct H as [H H3]. apply andb_true_iff in H. destruct H as [H1 H2].
    apply String.eqb_eq in H1. apply option_string_eqb_eq in H2. apply N.eqb_eq in H3. congruence.
  - inversion H; subst. rewrite !andb_true_iff. repeat split.
    + apply String.eqb_eq. reflexivity.
    + apply option_string_eqb_eq. reflexivity.
    + apply N.eqb_eq. reflexivity.
  - apply andb_true_iff in H. destruct H as [H1 H2].
    apply String.eqb_eq in H1. apply N.eqb_eq in H2. congruence.
  - inversion H; subst. rewrite andb_true_iff. split; [apply String.eqb_eq|apply N.eqb_eq]; reflexivity.
  - apply andb_true_iff in H. destruct H as [H1 H2].
    apply String.eqb_eq in H1. apply N.eqb_eq in H2. congruence.
  - inversion H; subst. rewrite andb_true_iff. split; [apply String.eqb_eq|apply N.eqb_eq]; reflexivity.
Qed.

Lemma tl_eqb_spec : forall a b, tl_eqb a b = true <-> a = b.
Proof.
  intros a b. destruct a, b; simpl; split; intros H; try discriminate.
  - apply witem_eqb_spec in H. congruence.
  - inversion H; subst. apply witem_eqb_spec. reflexivity.
  - apply andb_true_iff in H. destruct H as [H1 H2]. apply N.eqb_eq in H1, H2. congruence.
  - inversion H; subst. rewrite andb_true_iff. split; apply N.eqb_eq; reflexivity.
Qed.

(** *** Small list facts *)
Lemma Forall2_eq : forall {A} (v w : list A), Forall2 eq v w <-> v = w.
Proof.
  intros A v w. split.
  - intros F. induction F; congruence.
  - intros ->. induction w; constructor; auto.
Qed.

Lemma Forall2_iff : forall {A B} (P Q : A -> B -> Prop) l m,
  (forall a b, P a b <-> Q a b) -> (Forall2 P l m <-> Forall2 Q l m).
Proof.
  intros A B P Q l m H. split; intros F; induction F; constructor; auto; apply H; auto.
Qed.

Lemma nthN_map : forall {A B} (f : A -> B) l i, nthN (map f l) i = option_map f (nthN l i).
Proof.
  intros A B f l i. unfold nthN. generalize (N.to_nat i). clear i.
  induction l as [|x l IH]; intros [|n]; simpl; auto.
Qed.

Lemma Forall_incl_app_l : forall {A} (l m : list A) v,
  Forall (fun b => In b l) v -> Forall (fun b => In b (l ++ m)) v.
Proof. intros. eapply Forall_impl; [|eassumption]. intros; apply in_app_iff; auto. Qed.

Lemma Forall_incl_app_r : forall {A} (l m : list A) v,
  Forall (fun b => In b m) v -> Forall (fun b => In b (l ++ m)) v.
Proof. intros. eapply Forall_impl; [|eassumption]. intros; apply in_app_iff; auto. Qed.

(** *** Inside a word *)

Lemma img_sym : forall {A B} (rel : B -> A -> Prop) b w,
  img A B rel (Sym b) w <-> exists a, w = [a] /\ rel b a.
Proof.
  intros A B rel b w. split.
  - intros [v [H F]]. apply Lre_sym_inv in H. subst v. inversion F as [|? a ? m R F']; subst.
    inversion F'; subst. eauto.
  - intros [a [-> R]]. exists [b]. split; [constructor|repeat constructor; assumption].
Qed.

Lemma wleaf_ok : forall e r, is_leaf e = true -> wtrl e = Some r ->
  forall w, wleaf e w <-> img witem witem eq r w.
Proof.
  intros e r _ E w. destruct e; simpl in E; inversion E; subst; simpl;
    try (rewrite img_sym; split; [intros ->; eauto|intros [a [-> <-]]; reflexivity]).
  all: rewrite img_emp; tauto.
Qed.

Lemma wdenotes_tr : forall c r, wtr c = Some r -> forall w, wdenotes c w <-> Lre r w.
Proof.
  intros c r E w. unfold wdenotes, wtr in *.
  rewrite (tr_den witem witem wleaf wtrl eq wleaf_ok c r E w).
  unfold img. split.
  - intros [v [H F]]. apply Forall2_eq in F. subst. exact H.
  - intros H. exists w. split; auto. apply Forall2_eq. reflexivity.
Qed.

Lemma waccepts_lab : forall d v,
  waccepts d v <-> lab_accepts witem d (map wlab (d_inputs d)) v.
Proof.
  intros d v. unfold waccepts, lab_accepts, lab_accepts_from, accepts.
  assert (Hp : forall i a, (exists x, nthN (d_inputs d) i = Some x /\ wlab x = Some a) <->
                           nthN (map wlab (d_inputs d)) i = Some (Some a)).
  { intros i a. rewrite nthN_map. split.
    - intros [x [H1 H2]]. rewrite H1. simpl. congruence.
    - destruct (nthN (d_inputs d) i) as [x|]; simpl; [|discriminate].
      intros E. exists x. split; congruence. }
  split; intros [ids [H F]]; exists ids; split; auto.
  - apply (proj1 (Forall2_iff _ _ ids v Hp)). exact F.
  - apply (proj2 (Forall2_iff _ _ ids v Hp)). exact F.
Qed.

(** what [src_nfa] returns: an automaton for the language of the source, with its letters *)
Record nfa_for (L : list witem -> Prop) (x : nfa witem) (lx : list witem) : Prop := {
  nf_eqb : forall s t, n_eqb x s t = true <-> s = t;
  nf_lang : forall v, nfa_lang x v <-> L v;
  nf_letters : forall v, L v -> Forall (fun b => In b lx) v
}.

Lemma src_nfa_ok : forall s x lx, src_nfa s = Some (x, lx) -> nfa_for (src_lang s) x lx.
Proof.
  intros [d|c] x lx E; simpl in E.
  - inversion E; subst. split.
    + apply dfa_nfa_eqb.
    + intros v. rewrite (dfa_nfa_lang witem witem_eqb witem_eqb_spec). symmetry. apply waccepts_lab.
    + intros v H. apply waccepts_lab in H. apply lab_accepts_letters in H. exact H.
  - destruct (wtr c) as [r|] eqn:Er; [|discriminate]. inversion E; subst. split.
    + apply (re_nfa_eqb witem witem_eqb witem_eqb_spec).
    + intros v. rewrite (re_nfa_lang witem witem_eqb witem_eqb_spec). symmetry.
      apply wdenotes_tr. exact Er.
    + intros v H. apply (wdenotes_tr c r Er) in H. apply (Lre_syms witem). exact H.
Qed.

Theorem equiv_src_equal : forall fuel s t,
  equiv_src fuel s t = Equal -> forall v, src_lang s v <-> src_lang t v.
Proof.
  intros fuel s t E v. unfold equiv_src in E.
  destruct (src_nfa s) as [[x lx]|] eqn:Es; [|discriminate].
  destruct (src_nfa t) as [[y ly]|] eqn:Et; [|discriminate].
  destruct (src_nfa_ok _ _ _ Es) as [Hx1 Hx2 Hx3]. destruct (src_nfa_ok _ _ _ Et) as [Hy1 Hy2 Hy3].
  pose proof (equiv_nfa_equal witem x y (lx ++ ly) Hx1 Hy1 fuel E v) as HE.
  split; intros H.
  - apply Hy2. apply HE; [apply Forall_incl_app_l; auto|]. apply Hx2. exact H.
  - apply Hx2. apply HE; [apply Forall_incl_app_r; auto|]. apply Hy2. exact H.
Qed.

Theorem equiv_src_differ : forall fuel s t v,
  equiv_src fuel s t = Differ v -> ~ (src_lang s v <-> src_lang t v).
Proof.
  intros fuel s t v E. unfold equiv_src in E.
  destruct (src_nfa s) as [[x lx]|] eqn:Es; [|discriminate].
  destruct (src_nfa t) as [[y ly]|] eqn:Et; [|discriminate].
  destruct (src_nfa_ok _ _ _ Es) as [Hx1 Hx2 Hx3]. destruct (src_nfa_ok _ _ _ Et) as [Hy1 Hy2 Hy3].
  destruct (equiv_nfa_differ witem x y (lx ++ ly) Hx1 Hy1 fuel v E) as [HD _].
  intros H. apply HD. rewrite Hx2, Hy2. exact H.
Qed.

(** The judge for a within-word automaton is sound. *)
Theorem wjudge_sound : forall fuel d c,
  equiv_wdfa_expr fuel d c = Equal -> forall v, waccepts d v <-> wdenotes c v.
Proof. intros fuel d c E v. apply (equiv_src_equal fuel (SD d) (SE c) E v). Qed.

Theorem wjudge_differ : forall fuel d c v,
  equiv_wdfa_expr fuel d c = Differ v -> ~ (waccepts d v <-> wdenotes c v).
Proof. intros fuel d c v E. apply (equiv_src_differ fuel (SD d) (SE c) v E). Qed.

(** *** Items *)
Lemma item_equiv_refl : forall x, item_equiv x x.
Proof. intros [a|L l]; simpl; [reflexivity|]. split; [reflexivity|tauto]. Qed.

Lemma item_equiv_sym : forall x y, item_equiv x y -> item_equiv y x.
Proof.
  intros [a|L l] [b|L' l']; simpl; try tauto; [congruence|].
  intros [-> H]. split; [reflexivity|]. intros v. symmetry. apply H.
Qed.

Lemma item_equiv_trans : forall x y z, item_equiv x y -> item_equiv y z -> item_equiv x z.
Proof.
  intros [a|L l] [b|L' l'] [c|L'' l'']; simpl; try tauto; [congruence|].
  intros [-> H1] [-> H2]. split; [reflexivity|]. intros v. rewrite H1. apply H2.
Qed.

(** *** On the command line *)
Section TopFacts.
  Variable fuel : nat.
  Variable cd : cdfa.
  Variable srcs : list src.

  Definition src_at (j : N) : src := nth (N.to_nat j) srcs (SD dead_dfa).

  (** what a letter stands for *)
  Definition sem (t : tl) : item :=
    match t with
    | TLeaf a => ILeaf a
    | TSub j l => IWord (src_lang (src_at j)) l
    end.

  Definition rel (t : tl) (it : item) : Prop := item_equiv (sem t) it.

  Lemma class_from_spec : forall l i s j,
    class_from fuel l i s = Some j ->
    exists k t, j = i + N.of_nat k /\ nth_error l k = Some t /\
                equiv_src fuel t s = Equal /\
                forall k' t', (k' < k)%nat -> nth_error l k' = Some t' ->
                              exists v, equiv_src fuel t' s = Differ v.
  Proof.
    induction l as [|t l IH]; intros i s j E; simpl in E; [discriminate|].
    destruct (equiv_src fuel t s) as [|v|] eqn:Eq; [| |discriminate].
    - inversion E; subst. exists O, t. split; [simpl; lia|]. split; [reflexivity|]. split; auto.
      intros k' t' Hk. lia.
    - apply IH in E. destruct E as [k [t0 [Hj [Hn [He Hd]]]]].
      exists (S k), t0. split; [lia|]. split; [exact Hn|]. split; auto.
      intros [|k'] t' Hk Hn'.
      + simpl in Hn'. inversion Hn'; subst. eauto.
      + simpl in Hn'. apply (Hd k' t'); [lia|exact Hn'].
  Qed.

  Lemma class_of_spec : forall s j, class_of fuel srcs s = Some j ->
    (forall v, src_lang (src_at j) v <-> src_lang s v).
  Proof.
    intros s j E. unfold class_of in E. apply class_from_spec in E.
    destruct E as [k [t [Hj [Hn [He _]]]]]. unfold src_at. subst j.
    rewrite N.add_0_l, Nnat.Nat2N.id. rewrite (nth_error_nth _ _ _ Hn).
    apply (equiv_src_equal fuel t s He).
  Qed.

  (** class ids are canonical: two of them with one language are equal *)
  Definition canonical (j : N) : Prop := exists s, class_of fuel srcs s = Some j.

  Lemma canonical_inj : forall j j', canonical j -> canonical j' ->
    (forall v, src_lang (src_at j) v <-> src_lang (src_at j') v) -> j = j'.
  Proof.
    assert (Hlt : forall j j' s s', class_of fuel srcs s = Some j -> class_of fuel srcs s' = Some j' ->
                  (forall v, src_lang (src_at j) v <-> src_lang (src_at j') v) -> ~ (j < j')).
    { intros j j' s s' E E' H Hlt.
      pose proof (class_of_spec _ _ E') as Hs'.
      unfold class_of in E, E'. apply class_from_spec in E, E'.
      destruct E as [k [t [Hj [Hn [He _]]]]]. destruct E' as [k' [t' [Hj' [Hn' [He' Hd']]]]].
      subst j j'. assert (Hk : (k < k')%nat) by lia.
      destruct (Hd' k t Hk Hn) as [v Hv]. apply equiv_src_differ in Hv. apply Hv. clear Hv.
      rewrite <- Hs'. rewrite <- H. unfold src_at.
      rewrite N.add_0_l, Nnat.Nat2N.id. rewrite (nth_error_nth _ _ _ Hn). tauto. }
    intros j j' [s E] [s' E'] H.
    destruct (N.lt_total j j') as [L|[L|L]]; auto.
    - exfalso. apply (Hlt j j' s s' E E' H L).
    - exfalso. apply (Hlt j' j s' s E' E); auto. intros v. symmetry. apply H.
  Qed.

  Definition canon_letter (t : tl) : Prop :=
    match t with TLeaf _ => True | TSub j _ => canonical j end.

  Lemma rel_inj : forall t t' it, canon_letter t -> canon_letter t' -> rel t it -> rel t' it -> t = t'.
  Proof.
    intros t t' it C C' R R'. unfold rel in *.
    pose proof (item_equiv_trans _ _ _ R (item_equiv_sym _ _ R')) as E.
    destruct t as [a|j l], t' as [a'|j' l']; simpl in E; try tauto.
    - congruence.
    - destruct E as [-> E]. f_equal. apply canonical_inj; auto.
  Qed.

  Lemma top_lab_ok : forall x t, top_lab fuel cd srcs x = Some t ->
    item_equiv (sem t) (item_of_inp cd x) /\ canon_letter t.
  Proof.
    intros x t E. destruct x; simpl in E; try (inversion E; subst; simpl; split; auto; reflexivity).
    destruct (class_of fuel srcs (SD (sub_dfa cd sub))) as [j|] eqn:Ec; [|discriminate].
    simpl in E. inversion E; subst. simpl. split.
    - split; [reflexivity|]. apply (class_of_spec _ _ Ec).
    - exists (SD (sub_dfa cd sub)). exact Ec.
  Qed.

  Lemma tleaf_ok : forall e r, is_leaf e = true -> ttrl fuel srcs e = Some r ->
    forall w, tleaf e w <-> img item tl rel r w.
  Proof.
    intros e r _ E w.
    assert (Hgen : forall b X, item_equiv (sem b) X ->
                   ((exists it, w = [it] /\ item_equiv it X) <-> img item tl rel (Sym b) w)).
    { intros b X HX. rewrite img_sym. unfold rel. split; intros [it [-> H]]; exists it; split; auto.
      - eapply item_equiv_trans; [exact HX|apply item_equiv_sym; exact H].
      - eapply item_equiv_trans; [apply item_equiv_sym; exact H|exact HX]. }
    destruct e; simpl in E; unfold tleaf.
    - inversion E; subst. apply Hgen. apply item_equiv_refl.
    - inversion E; subst. apply Hgen. apply item_equiv_refl.
    - inversion E; subst. apply Hgen. apply item_equiv_refl.
    - inversion E; subst. rewrite img_emp. split; [intros [it [_ []]]|tauto].
    - inversion E; subst. rewrite img_emp. split; [intros [it [_ []]]|tauto].
    - inversion E; subst. rewrite img_emp. split; [intros [it [_ []]]|tauto].
    - inversion E; subst. rewrite img_emp. split; [intros [it [_ []]]|tauto].
    - inversion E; subst. rewrite img_emp. split; [intros [it [_ []]]|tauto].
    - inversion E; subst. rewrite img_emp. split; [intros [it [_ []]]|tauto].
    - destruct (class_of fuel srcs (SE e)) as [j|] eqn:Ec; [|discriminate].
      simpl in E. inversion E; subst. apply Hgen. simpl. split; [reflexivity|].
      apply (class_of_spec _ _ Ec).
  Qed.

  Lemma ttrl_canon : forall e r, ttrl fuel srcs e = Some r ->
    Forall canon_letter (syms tl r).
  Proof.
    intros e r E. destruct e; simpl in E; try (inversion E; subst; simpl; repeat constructor).
    destruct (class_of fuel srcs (SE e)) as [j|] eqn:Ec; [|discriminate].
    simpl in E. inversion E; subst. simpl. constructor; [|constructor]. exists (SE e). exact Ec.
  Qed.

  Lemma tr_canon : forall e r, tr tl (ttrl fuel srcs) e = Some r -> Forall canon_letter (syms tl r).
  Proof.
    assert (Hseq : forall cs, Forall (fun e => forall r, tr tl (ttrl fuel srcs) e = Some r ->
                                                  Forall canon_letter (syms tl r)) cs ->
                   forall r, tr_seq tl (ttrl fuel srcs) cs = Some r -> Forall canon_letter (syms tl r)).
    { intros cs HF. induction HF as [|c cs Hc HF IH]; simpl; intros r E.
      - inversion E; subst. constructor.
      - destruct (tr tl (ttrl fuel srcs) c) as [x|] eqn:Ex; [|discriminate].
        destruct (tr_seq tl (ttrl fuel srcs) cs) as [y|] eqn:Ey; [|discriminate].
        inversion E; subst. simpl. apply Forall_app. split; auto. }
    assert (Halt : forall cs, Forall (fun e => forall r, tr tl (ttrl fuel srcs) e = Some r ->
                                                  Forall canon_letter (syms tl r)) cs ->
                   forall r, tr_alt tl (ttrl fuel srcs) cs = Some r -> Forall canon_letter (syms tl r)).
    { intros cs HF. induction HF as [|c cs Hc HF IH]; simpl; intros r E.
      - inversion E; subst. constructor.
      - destruct (tr tl (ttrl fuel srcs) c) as [x|] eqn:Ex; [|discriminate].
        destruct (tr_alt tl (ttrl fuel srcs) cs) as [y|] eqn:Ey; [|discriminate].
        inversion E; subst. simpl. apply Forall_app. split; auto. }
    induction e using expr_ind'; intros r E.
    - eapply ttrl_canon; exact E.
    - eapply ttrl_canon; exact E.
    - eapply ttrl_canon; exact E.
    - rewrite tr_sequence in E. eapply Hseq; eauto.
    - rewrite tr_alternative in E. eapply Halt; eauto.
    - simpl in E. destruct (tr tl (ttrl fuel srcs) e) as [x|] eqn:Ex; [|discriminate].
      inversion E; subst. simpl. auto.
    - simpl in E. destruct (tr tl (ttrl fuel srcs) e) as [x|] eqn:Ex; [|discriminate].
      inversion E; subst. simpl. auto.
    - simpl in E. inversion E; subst. constructor.
    - rewrite tr_fallback in E. eapply Halt; eauto.
    - eapply ttrl_canon; exact E.
  Qed.

  Lemma all_some_nth : forall {A} (l : list (option A)) i o,
    all_some l = true -> nthN l i = Some o -> exists a, o = Some a.
  Proof.
    intros A l i o H E. unfold nthN in E. revert E. generalize (N.to_nat i). clear i.
    induction l as [|[a|] l IH]; intros [|n] E; simpl in *; try discriminate.
    - inversion E; subst. eauto.
    - eapply IH; eauto.
  Qed.

  Notation main := (c_main cd).
  Notation labs := (map (top_lab fuel cd srcs) (d_inputs main)).

  Lemma accepts_items_img : all_some labs = true ->
    forall w, accepts_items cd w <->
              exists v, lab_accepts tl main labs v /\ Forall2 rel v w.
  Proof.
    intros Hall w. unfold accepts_items, lab_accepts, lab_accepts_from, accepts. split.
    - intros [ids [H F]].
      assert (G : exists v, Forall2 (fun i b => nthN labs i = Some (Some b)) ids v /\ Forall2 rel v w).
      { clear H. induction F as [|i it ids w [x [Hx Hit]] F [v [F1 F2]]].
        - exists []. split; constructor.
        - assert (Hl : nthN labs i = Some (top_lab fuel cd srcs x)) by (rewrite nthN_map, Hx; reflexivity).
          destruct (all_some_nth _ _ _ Hall Hl) as [t Ht].
          exists (t :: v). split; constructor; auto.
          + rewrite Hl, Ht. reflexivity.
          + unfold rel. eapply item_equiv_trans; [apply (top_lab_ok _ _ Ht)|exact Hit]. }
      destruct G as [v [F1 F2]]. exists v. split; auto. exists ids. auto.
    - intros [v [[ids [H F1]] F2]]. exists ids. split; auto.
      clear H. revert w F2. induction F1 as [|i t ids v Hi F1 IH]; intros w F2.
      + inversion F2; subst. constructor.
      + inversion F2 as [|? it ? w' R F2']; subst. constructor; auto.
        rewrite nthN_map in Hi. destruct (nthN (d_inputs main) i) as [x|] eqn:Hx; [|discriminate].
        simpl in Hi. inversion Hi as [Ht]. exists x. split; auto.
        eapply item_equiv_trans; [apply item_equiv_sym; apply (top_lab_ok _ _ Ht)|exact R].
  Qed.

  Lemma labs_canon : forall b, In b (lab_letters labs) -> canon_letter b.
  Proof.
    intros b H. unfold lab_letters in H. apply in_flat_map in H. destruct H as [o [Ho Hb]].
    destruct o as [t|]; [|destruct Hb]. destruct Hb as [<-|[]].
    apply in_map_iff in Ho. destruct Ho as [x [Ex _]]. apply (top_lab_ok _ _ Ex).
  Qed.
End TopFacts.

(** The judge is sound: [Equal] means the automaton, with its within-word automata, accepts
    exactly the item words the validated tree denotes. *)
Theorem judge_sound : forall fuel cd e,
  equiv_dfa_expr fuel cd e = Equal ->
  forall w, accepts_items cd w <-> denotes e w.
Proof.
  intros fuel cd e E w. unfold equiv_dfa_expr in E.
  set (srcs := sources cd e) in *.
  set (labs := map (top_lab fuel cd srcs) (d_inputs (c_main cd))) in *.
  destruct (all_some labs) eqn:Hall; [|discriminate].
  destruct (tr tl (ttrl fuel srcs) e) as [r|] eqn:Er; [|discriminate].
  pose proof (equiv_nfa_equal tl _ _ _ (dfa_nfa_eqb tl tl_eqb (c_main cd) labs)
                (re_nfa_eqb tl tl_eqb tl_eqb_spec r) fuel E) as HE.
  assert (HL : forall v, lab_accepts tl (c_main cd) labs v <-> Lre r v).
  { intros v. split; intros H.
    - apply (re_nfa_lang tl tl_eqb tl_eqb_spec). apply HE.
      + apply Forall_incl_app_l. eapply lab_accepts_letters; exact H.
      + apply (dfa_nfa_lang tl tl_eqb tl_eqb_spec). exact H.
    - apply (dfa_nfa_lang tl tl_eqb tl_eqb_spec). apply HE.
      + apply Forall_incl_app_r. apply (Lre_syms tl). exact H.
      + apply (re_nfa_lang tl tl_eqb tl_eqb_spec). exact H. }
  rewrite (accepts_items_img fuel cd srcs Hall w).
  unfold denotes. rewrite (tr_den item tl tleaf (ttrl fuel srcs) (rel srcs) (tleaf_ok fuel srcs) e r Er w).
  unfold img. split; intros [v [H F]]; exists v; split; auto; apply HL; auto.
Qed.

(** a word related letter by letter to [w] and made of canonical letters is unique *)
Lemma rel_unique : forall fuel srcs (P : tl -> Prop),
  (forall b, P b -> canon_letter fuel srcs b) ->
  forall v v' w, Forall P v -> Forall P v' ->
  Forall2 (rel srcs) v w -> Forall2 (rel srcs) v' w -> v' = v.
Proof.
  intros fuel srcs P HP v v' w Hv Hv' F. revert v' Hv'.
  induction F as [|b it v w R F IH]; intros v' Hv' F'.
  - inversion F'. reflexivity.
  - inversion F' as [|b' ? v'' ? R' F'']; subst.
    inversion Hv; subst. inversion Hv'; subst. f_equal.
    + eapply rel_inj; eauto.
    + apply IH; auto.
Qed.

(** A returned word distinguishes: reading every letter as the item it stands for gives an item
    word on which the automaton and the tree disagree. *)
Theorem judge_differ : forall fuel cd e v,
  equiv_dfa_expr fuel cd e = Differ v ->
  let w := map (sem (sources cd e)) v in
  ~ (accepts_items cd w <-> denotes e w).
Proof.
  intros fuel cd e v E w. unfold equiv_dfa_expr in E.
  set (srcs := sources cd e) in *.
  set (labs := map (top_lab fuel cd srcs) (d_inputs (c_main cd))) in *.
  destruct (all_some labs) eqn:Hall; [|discriminate].
  destruct (tr tl (ttrl fuel srcs) e) as [r|] eqn:Er; [|discriminate].
  destruct (equiv_nfa_differ tl _ _ _ (dfa_nfa_eqb tl tl_eqb (c_main cd) labs)
              (re_nfa_eqb tl tl_eqb tl_eqb_spec r) fuel v E) as [HD HV].
  rewrite (dfa_nfa_lang tl tl_eqb tl_eqb_spec), (re_nfa_lang tl tl_eqb tl_eqb_spec) in HD.
  assert (Hcanon : forall b, In b (lab_letters labs ++ syms tl r) -> canon_letter fuel srcs b).
  { intros b Hb. apply in_app_iff in Hb. destruct Hb as [Hb|Hb].
    - apply (labs_canon fuel cd srcs). exact Hb.
    - pose proof (tr_canon fuel srcs e r Er) as HF. rewrite Forall_forall in HF. auto. }
  assert (Hvw : Forall2 (rel srcs) v w).
  { subst w. clear. induction v; simpl; constructor; auto. apply item_equiv_refl. }
  assert (Huniq : forall v', Forall (fun b => In b (lab_letters labs ++ syms tl r)) v' ->
                  Forall2 (rel srcs) v' w -> v' = v).
  { intros v' Hv' F. apply (rel_unique fuel srcs _ Hcanon v v' w); auto. }
  intros H. apply HD.
  rewrite (accepts_items_img fuel cd srcs Hall w) in H.
  unfold denotes in H.
  rewrite (tr_den item tl tleaf (ttrl fuel srcs) (rel srcs) (tleaf_ok fuel srcs) e r Er w) in H.
  unfold img in H. split; intros Hv.
  - destruct (proj1 H (ex_intro _ v (conj Hv Hvw))) as [v' [H1 H2]].
    rewrite <- (Huniq v'); auto. apply Forall_incl_app_r. apply (Lre_syms tl). exact H1.
  - destruct (proj2 H (ex_intro _ v (conj Hv Hvw))) as [v' [H1 H2]].
    rewrite <- (Huniq v'); auto. apply Forall_incl_app_l. eapply lab_accepts_letters; exact H1.
Qed.
