(** C15: the warning sets computed by the model of [from_grammar] are the sets of
    Spec/Warnings.v, and the warning bookkeeping has no influence on the validated expression. *)
From CG Require Import Base.Prelude Model.Ast Model.Check Spec.Choice Spec.Mistakes Spec.Warnings.
From CG Require Import Proofs.CheckChoice Proofs.CheckMistakes Proofs.CheckLemmas.

(** *** Views of the definition list *)
Definition plain_defs_of (ds : defs_t) : list defn :=
  flat_map (fun x => match x with
                     | (n, nsp, None, rhs) => [mkdefn n nsp rhs]
                     | _ => []
                     end) ds.

Definition shell_defs_of (target : shell) (ds : defs_t) : list (string * span) :=
  flat_map (fun x => match x with
                     | (n, nsp, Some (shn, _), _) => if is_shell shn target then [(n, nsp)] else []
                     | _ => []
                     end) ds.

Lemma plain_defs_of_names ds : map d_name (plain_defs_of ds) = plain_names_of ds.
Proof.
  unfold plain_defs_of.
  induction ds as [|[[[n nsp] [[shn shsp]|]] rhs] r IH]; cbn; rewrite ?IH; reflexivity.
Qed.

Lemma shell_defs_of_names g sh : map fst (shell_defs_of sh (all_defs g)) = shell_names g sh.
Proof.
  unfold shell_names, shell_defs_of, all_defs. induction g as [|s g IH]; cbn; [reflexivity|].
  destruct s as [n sp e|n sp [[shn shsp]|] rhs]; cbn; [exact IH| |exact IH].
  rewrite <- IH. destruct (is_shell shn sh); reflexivity.
Qed.

Lemma collect_plain_defs_eq ds : forall acc defs,
  collect_plain_defs ds acc = Ok defs -> defs = acc ++ plain_defs_of ds.
Proof.
  induction ds as [|[[[n nsp] sh] rhs] r IH]; intros acc defs H.
  - cbn in H. inversion H. cbn. rewrite app_nil_r. reflexivity.
  - cbn [collect_plain_defs] in H. destruct sh as [[shn shsp]|].
    + apply IH in H. exact H.
    + destruct (find _ acc); [discriminate|]. apply IH in H. rewrite H, <- app_assoc. reflexivity.
Qed.

Lemma collect_plain_defs_nodup ds : forall acc defs,
  collect_plain_defs ds acc = Ok defs -> NoDup (map d_name acc) -> NoDup (map d_name defs).
Proof.
  induction ds as [|[[[n nsp] sh] rhs] r IH]; intros acc defs H Hnd.
  - cbn in H. inversion H; subst. exact Hnd.
  - cbn [collect_plain_defs] in H. destruct sh as [[shn shsp]|]; [eapply IH; eauto|].
    destruct (find _ acc) eqn:F; [discriminate|]. apply find_name_none in F.
    eapply IH; [exact H|]. rewrite map_app. cbn.
    apply NoDup_app_snoc; [exact Hnd|]. apply mem_str_false_In. exact F.
Qed.

(** [get_user_specs]: one entry per definition for the target shell, in source order, with the
    span of the definition's name; it only succeeds when every shell-specific definition (for
    whatever shell) is an external command for a known shell. *)
Definition us_spans (us : list (string * user_spec)) : list (string * span) :=
  map (fun p => (fst p, us_span (snd p))) us.

Lemma get_user_specs_spans target ds : forall acc us,
  get_user_specs target ds acc = Ok us ->
  us_spans us = us_spans acc ++ shell_defs_of target ds.
Proof.
  induction ds as [|[[[n nsp] sh] rhs] r IH]; intros acc us H.
  - cbn in H. inversion H. cbn. rewrite app_nil_r. reflexivity.
  - cbn [get_user_specs] in H. destruct sh as [[shn shsp]|]; [|apply IH in H; exact H].
    destruct rhs as [| |cmd z lv csp| | | | | | |]; try discriminate.
    destruct (shell_of_string shn) as [s|] eqn:Hs; [|discriminate].
    unfold shell_defs_of. cbn [flat_map]. fold (shell_defs_of target r).
    unfold is_shell. rewrite Hs.
    destruct (shell_eqb s target).
    + destruct (assoc n acc); [discriminate|]. apply IH in H. rewrite H.
      unfold us_spans. rewrite map_app, <- app_assoc. reflexivity.
    + apply IH in H. exact H.
Qed.

Lemma get_user_specs_commands target ds : forall acc us,
  get_user_specs target ds acc = Ok us ->
  forall n nsp s rhs, In (n, nsp, Some s, rhs) ds -> is_command rhs = true.
Proof.
  induction ds as [|[[[n nsp] sh] rhs] r IH]; intros acc us H n' nsp' s' rhs' Hin; [destruct Hin|].
  cbn [get_user_specs] in H. destruct sh as [[shn shsp]|].
  - destruct rhs as [| |cmd z lv csp| | | | | | |]; try discriminate.
    destruct (shell_of_string shn) as [s|] eqn:Hs; [|discriminate].
    destruct Hin as [Hin|Hin]; [inversion Hin; subst; reflexivity|].
    destruct (shell_eqb s target).
    + destruct (assoc n acc); [discriminate|]. eapply IH; eauto.
    + eapply IH; eauto.
  - destruct Hin as [Hin|Hin]; [discriminate|]. eapply IH; eauto.
Qed.

Lemma get_user_specs_nodup target ds : forall acc us,
  get_user_specs target ds acc = Ok us -> NoDup (map fst acc) -> NoDup (map fst us).
Proof.
  induction ds as [|[[[n nsp] sh] rhs] r IH]; intros acc us H Hnd.
  - cbn in H. inversion H; subst. exact Hnd.
  - cbn [get_user_specs] in H. destruct sh as [[shn shsp]|]; [|eapply IH; eauto].
    destruct rhs as [| |cmd z lv csp| | | | | | |]; try discriminate.
    destruct (shell_of_string shn) as [s|] eqn:Hs; [|discriminate].
    destruct (shell_eqb s target); [|eapply IH; eauto].
    destruct (assoc n acc) eqn:Ha; [discriminate|]. eapply IH; [exact H|].
    rewrite map_app. cbn. apply NoDup_app_snoc; [exact Hnd|]. apply assoc_None_notin. exact Ha.
Qed.

(** *** The names referred to *)
Lemma all_refs_command e : is_command e = true -> all_refs e = [].
Proof. destruct e; cbn; try discriminate. reflexivity. Qed.

Lemma call_exprs_variants g : call_exprs g = map snd (call_variants g).
Proof.
  unfold call_exprs, call_variants. induction g as [|s g IH]; cbn; [reflexivity|].
  destruct s; cbn; rewrite IH; reflexivity.
Qed.

Lemma expr0_refs g : all_refs (expr0_of g) = flat_map all_refs (call_exprs g).
Proof.
  rewrite call_exprs_variants. unfold expr0_of.
  destruct (map snd (call_variants g)) as [|e [|e' r]]; cbn; rewrite ?app_nil_r; reflexivity.
Qed.

Lemma referred_split g :
  (forall n nsp s rhs, In (n, nsp, Some s, rhs) (all_defs g) -> is_command rhs = true) ->
  forall x, In x (referred g) <->
            In x (flat_map (fun d => all_refs (d_rhs d)) (plain_defs_of (all_defs g))
                  ++ flat_map all_refs (call_exprs g)).
Proof.
  unfold referred, call_exprs, plain_defs_of, all_defs.
  induction g as [|s g IH]; intros Hc x; cbn; [tauto|].
  assert (Hc' : forall n nsp s rhs,
             In (n, nsp, Some s, rhs)
                (flat_map (fun s => match s with NontermDef n sp sh rhs => [(n, sp, sh, rhs)]
                                            | CallVariant _ _ _ => [] end) g) ->
             is_command rhs = true).
  { intros. eapply Hc. cbn. apply in_or_app. right. eassumption. }
  specialize (IH Hc' x). rewrite in_app_iff, IH. rewrite !in_app_iff.
  destruct s as [n sp e|n sp [s|] rhs]; cbn; rewrite ?in_app_iff.
  - tauto.
  - rewrite all_refs_command by (eapply Hc; cbn; left; reflexivity). cbn. tauto.
  - tauto.
Qed.

Lemma defs1_refs defs0 :
  map fst (flat_map (fun d => nonterm_refs (d_rhs d)) (defs1_of defs0))
  = flat_map (fun d => all_refs (d_rhs d)) defs0.
Proof.
  unfold defs1_of. induction defs0 as [|d r IH]; cbn; [reflexivity|].
  rewrite map_app, IH, distribute_descriptions_refs. reflexivity.
Qed.

Lemma referenced_referred builtins g sh v (A : accepted builtins g sh v) :
  forall x, In x (a_referenced _ _ _ _ A) <-> In x (referred g).
Proof.
  intro x. unfold a_referenced, referenced_of, a_defs1, a_expr1.
  rewrite map_app, defs1_refs, distribute_descriptions_refs, expr0_refs.
  pose proof (a_collect _ _ _ _ A) as Hc. apply collect_plain_defs_eq in Hc. cbn in Hc.
  pose proof (a_specs _ _ _ _ A) as Hs. unfold get_specializations in Hs.
  destruct (get_user_specs sh (all_defs g) []) as [us'| | |] eqn:Hus; cbn in Hs; try discriminate.
  rewrite referred_split by (eapply get_user_specs_commands; eassumption).
  rewrite Hc. tauto.
Qed.

(** *** The unused sets *)
Theorem unused_plain_exact builtins g sh v :
  from_grammar builtins g sh = Ok v ->
  map fst (v_unused v) = unused_plain g /\ NoDup (map fst (v_unused v)) /\
  forall n sp, In (n, sp) (v_unused v) -> exists rhs, In (NontermDef n sp None rhs) g.
Proof.
  intro H. apply from_grammar_ok in H. rename H into A.
  pose proof (a_collect _ _ _ _ A) as Hc.
  pose proof (collect_plain_defs_nodup _ _ _ Hc (NoDup_nil _)) as Hnd.
  apply collect_plain_defs_eq in Hc. cbn in Hc.
  rewrite (a_v _ _ _ _ A). cbn [v_unused]. unfold unused_of.
  assert (Hn : map fst (map (fun d => (d_name d, d_span d)) (a_defs1 _ _ _ _ A)) = plain_names g).
  { unfold a_defs1, defs1_of. rewrite !map_map. cbn. rewrite plain_names_all_defs, Hc.
    apply plain_defs_of_names. }
  assert (Hf : forall l, map fst (filter (fun p : string * span =>
                                             negb (mem_str (fst p) (a_referenced _ _ _ _ A))) l)
                         = filter (fun n => negb (mem_str n (referred g))) (map fst l)).
  { induction l as [|[n sp] l IH]; cbn; [reflexivity|].
    rewrite (mem_str_ext n _ _ (referenced_referred _ _ _ _ A)).
    destruct (mem_str n (referred g)); cbn; rewrite IH; reflexivity. }
  split; [|split].
  - rewrite Hf, Hn. reflexivity.
  - rewrite Hf, Hn. apply NoDup_filter. rewrite plain_names_all_defs, <- plain_defs_of_names, <- Hc.
    exact Hnd.
  - intros n sp Hin. apply filter_In in Hin. destruct Hin as [Hin _].
    unfold a_defs1, defs1_of in Hin. rewrite map_map in Hin. cbn in Hin.
    apply in_map_iff in Hin. destruct Hin as [d [Hd Hin]]. inversion Hd; subst. clear Hd.
    rewrite Hc in Hin. unfold plain_defs_of in Hin. apply in_flat_map in Hin.
    destruct Hin as [[[[n nsp] [s|]] rhs] [Hin Hd]]; [destruct Hd|].
    destruct Hd as [Hd|[]]. subst d. cbn. exists rhs.
    unfold all_defs in Hin. apply in_flat_map in Hin. destruct Hin as [st [Hst Hin]].
    destruct st; [destruct Hin|]. destruct Hin as [Hin|[]]. inversion Hin; subst. exact Hst.
Qed.

Theorem unused_for_shell_exact builtins g sh v :
  from_grammar builtins g sh = Ok v ->
  map fst (v_unused_specs v) = unused_for_shell g sh /\ NoDup (map fst (v_unused_specs v)) /\
  forall n sp, In (n, sp) (v_unused_specs v) ->
               exists shn shsp rhs, In (NontermDef n sp (Some (shn, shsp)) rhs) g /\
                                    is_shell shn sh = true.
Proof.
  intro H. apply from_grammar_ok in H. rename H into A.
  pose proof (a_specs _ _ _ _ A) as Hs. unfold get_specializations in Hs.
  destruct (get_user_specs sh (all_defs g) []) as [us'| | |] eqn:Hus; cbn in Hs; try discriminate.
  destruct (get_fallback_specs _ _ _); cbn in Hs; try discriminate.
  inversion Hs; subst us'. clear Hs.
  pose proof (get_user_specs_nodup _ _ _ _ Hus (NoDup_nil _)) as Hnd.
  apply get_user_specs_spans in Hus. cbn in Hus.
  rewrite (a_v _ _ _ _ A). cbn [v_unused_specs]. unfold unused_specs_of.
  fold (us_spans (a_us _ _ _ _ A)). rewrite Hus.
  assert (Hf : forall l, map fst (filter (fun p : string * span =>
                                             negb (mem_str (fst p) (a_referenced _ _ _ _ A))) l)
                         = filter (fun n => negb (mem_str n (referred g))) (map fst l)).
  { induction l as [|[n sp] l IH]; cbn; [reflexivity|].
    rewrite (mem_str_ext n _ _ (referenced_referred _ _ _ _ A)).
    destruct (mem_str n (referred g)); cbn; rewrite IH; reflexivity. }
  split; [|split].
  - rewrite Hf, shell_defs_of_names. reflexivity.
  - rewrite Hf. apply NoDup_filter. rewrite <- Hus. unfold us_spans. rewrite map_map. exact Hnd.
  - intros n sp Hin. apply filter_In in Hin. destruct Hin as [Hin _].
    unfold shell_defs_of in Hin. apply in_flat_map in Hin.
    destruct Hin as [[[[n' nsp] [[shn shsp]|]] rhs] [Hin Hd]]; [|destruct Hd].
    destruct (is_shell shn sh) eqn:Hsh; [|destruct Hd]. destruct Hd as [Hd|[]].
    inversion Hd; subst. exists shn, shsp, rhs. split; [|exact Hsh].
    unfold all_defs in Hin. apply in_flat_map in Hin. destruct Hin as [st [Hst Hin]].
    destruct st; [destruct Hin|]. destruct Hin as [Hin|[]]. inversion Hin; subst. exact Hst.
Qed.

(** *** Harmlessness: the accepted command and expression are computed by passes that never read
    the warning bookkeeping. *)
Definition from_grammar_core (builtins : shell -> list (string * string)) (g : grammar) (sh : shell)
  : res (string * expr) :=
  match dedup_names [] (cv_names g) with
  | [] => Err MissingCallVariants
  | (command, command_span) :: more =>
      match more with
      | _ :: _ => Err (VaryingCommandNames (command_span :: map snd more))
      | [] =>
          if contains_char slash command then Err (InvalidCommandName command_span) else
          do defs0 <- collect_plain_defs (all_defs g) [];
          let defs1 := defs1_of defs0 in
          do specs <- get_specializations g sh;
          let spec := spec_of builtins sh (fst specs) (snd specs) defs1 in
          let defs2 := defs2_of spec defs1 in
          let expr2 := spec (distribute_descriptions (expr0_of g)) in
          do ord <- resolution_order defs2;
          let table := resolve_in_order ord (table0_of defs2) in
          do _ <- spaces table (spaces_fuel table expr2) expr2 [] false false;
          Ok (command, propagate (collapse (resolve table expr2)) 0)
      end
  end.

Definition outcome_map {E A B} (f : A -> B) (x : outcome E A) : outcome E B :=
  match x with Ok a => Ok (f a) | Err e => Err e | Panic s => Panic s | OutOfFuel => OutOfFuel end.

Theorem warnings_harmless builtins g sh :
  outcome_map (fun v => (v_command v, v_expr v)) (from_grammar builtins g sh)
  = from_grammar_core builtins g sh.
Proof.
  unfold from_grammar, from_grammar_core. fold (cv_names g). fold (expr0_of g).
  destruct (dedup_names [] (cv_names g)) as [|[command cspan] more]; [reflexivity|].
  destruct more; [|reflexivity].
  destruct (contains_char slash command); [reflexivity|].
  destruct (collect_plain_defs (all_defs g) []) as [defs0| | |]; cbn [obind]; try reflexivity.
  destruct (get_specializations g sh) as [[us fs]| | |]; cbn [obind fst snd]; try reflexivity.
  fold (defs1_of defs0).
  fold (spec_of builtins sh us fs (defs1_of defs0)).
  fold (defs2_of (spec_of builtins sh us fs (defs1_of defs0)) (defs1_of defs0)).
  destruct (resolution_order _) as [ord| | |]; cbn [obind]; try reflexivity.
  fold (table0_of (defs2_of (spec_of builtins sh us fs (defs1_of defs0)) (defs1_of defs0))).
  match goal with |- context [spaces ?t ?f ?e [] false false] =>
    change f with (spaces_fuel t e); destruct (spaces t (spaces_fuel t e) e [] false false) as [[]| | |] end;
    reflexivity.
Qed.
