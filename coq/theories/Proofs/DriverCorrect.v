(** [Driver.compile_valid]: the oracle it computes itself ([compile_subs]) satisfies the hypotheses
    of the C02 theorems, so the compiled automaton accepts exactly what the validated tree denotes
    ([driver_correct]); and it is total: [Ok], or one of the three diagnostics
    ([driver_total]). *)
From CG Require Import Base.Prelude Model.Ast Model.Dfa Model.Regex Model.Subset Model.Check Spec.Lang.
From CG Require Import Model.DfaEqb Model.Minimize Model.Ambiguity Model.Driver.
From CG Require Import Spec.DfaEquiv Spec.MinimizeSpec.
From CG Require Import Proofs.SubsetConstr Proofs.FromExpr Proofs.C02Lang Proofs.TreeFacts Proofs.CheckTree.
From CG Require Import Proofs.WfTrim Proofs.C02Total Proofs.RegexNoPanic Proofs.DfaEq.
From CG Require Import Proofs.MinimizePostGen Proofs.HopcroftLoop Proofs.MinimizeCorrect Proofs.MinimizeTotal.
From CG Require Import Proofs.AmbTotal.

(** *** The minimised automaton only uses input ids of the raw one *)
Lemma step_in_range : forall d s i y, wf d -> step d s i = Some y -> i < lenN (d_inputs d).
Proof.
  intros d s i y W H. unfold step in H.
  destruct (assocN s (d_trans d)) as [row|] eqn:Er; [|discriminate].
  apply assocN_Some_In in Er. apply assocN_Some_In in H. eapply (wf_inputs d W); eauto.
Qed.

Lemma minimize_inputs_in_range : forall d m,
  wf d -> trim d -> minimize d = Ok m -> inputs_in_range m.
Proof.
  intros d m W TR H s i t Hin.
  rewrite (minimize_inputs d m H).
  unfold minimize in H.
  destruct (do_minimize_inv d _ m H) as [h [reps [Hloop [Hreps [_ [_ Hrest]]]]]].
  cbn zeta in Hrest. destruct Hrest as [s' [ts' [accn [Hren ->]]]].
  destruct (hopcroft_loop_correct d W (proj2 TR) _ h Hloop) as [Gd [N1 N2]].
  unfold transitions_from in Hin. simpl in Hin.
  destruct (assocN s (hashmap_transitions_from_vec ts')) as [row|] eqn:Er; [|destruct Hin].
  apply assocN_Some_In in Er.
  pose proof (hashmap_entries ts' s row i t Er Hin) as Hts.
  apply (ts'_In d reps s' ts' accn Hren) in Hts.
  destruct Hts as [a [b [HE _]]].
  eapply E_inv in HE; try eassumption. destruct HE as [y [Ey _]].
  eapply step_in_range; eauto.
Qed.

(** *** Interning *)
Lemma intern_dfa_spec : forall d subs i k subs',
  intern_dfa d subs i = (k, subs') ->
  exists j, k = i + N.of_nat j /\ nth_error subs' j = Some d /\ prefix subs subs'.
Proof.
  intros d. induction subs as [|x r IH]; intros i k subs' H; simpl in H.
  - inversion H; subst. exists O. split; [simpl; lia|]. split; [reflexivity|]. exists [d]. reflexivity.
  - destruct (dfa_eqb x d) eqn:E.
    + inversion H; subst. apply dfa_eqb_eq in E. subst. exists O. split; [simpl; lia|].
      split; [reflexivity|apply prefix_refl].
    + destruct (intern_dfa d r (N.succ i)) as [k' r'] eqn:Ei. inversion H; subst.
      destruct (IH _ _ _ Ei) as [j [Hk [Hn [m Hp]]]].
      exists (S j). split; [lia|]. split; [exact Hn|]. exists m. simpl. rewrite Hp. reflexivity.
Qed.

Lemma prefix_nth_error : forall {A} (l l' : list A) n x,
  prefix l l' -> nth_error l n = Some x -> nth_error l' n = Some x.
Proof.
  intros A l l' n x [m ->] H. rewrite nth_error_app1; auto. apply nth_error_Some. congruence.
Qed.

(** *** The oracle [compile_subs] computes *)
Section Subs.
  Variable pick : nat -> list (list N) -> nat.
  Variable fuel : nat.
  Variable pl : pool.

  (** [m] is what [compile_sub] makes of the within-word regex [rid] *)
  Definition sub_compiled (rid : N) (m : dfa) : Prop :=
    exists rr raw st, nthN pl rid = Some rr /\
                      dfa_from_regex pick fuel [] rr = Ok (raw, st) /\ minimize raw = Ok m.

  Definition cache_ok (cache : list (N * N)) (subs : list dfa) : Prop :=
    forall rid k, assocN rid cache = Some k ->
      exists m, nth_error subs (N.to_nat k) = Some m /\ sub_compiled rid m.

  Lemma cache_ok_nil : cache_ok [] [].
  Proof. intros rid k H. discriminate. Qed.

  Lemma compile_sub_ok : forall r m, compile_sub pick fuel r = Ok m ->
    exists raw st, dfa_from_regex pick fuel [] r = Ok (raw, st) /\ minimize raw = Ok m.
  Proof.
    intros r m H. unfold compile_sub in H.
    destruct (dfa_from_regex pick fuel [] r) as [[raw st]| | |] eqn:E1; simpl in H; try discriminate.
    destruct (check_ambiguity_best_effort raw) as [[]| | |]; simpl in H; try discriminate.
    destruct (minimize raw) as [m'| | |] eqn:E2; simpl in H; try discriminate.
    destruct (check_ambiguity_best_effort m') as [[]| | |]; simpl in H; try discriminate.
    inversion H; subst. eauto.
  Qed.

  Lemma compile_subs_ok : forall inputs cache subs cache' subs',
    cache_ok cache subs ->
    compile_subs pick fuel inputs pl cache subs = Ok (cache', subs') ->
    cache_ok cache' subs' /\
    (forall rid, assocN rid cache <> None -> assocN rid cache' <> None) /\
    (forall rid l sp, In (RSub rid l sp) inputs -> assocN rid cache' <> None).
  Proof.
    induction inputs as [|x inputs IH]; intros cache subs cache' subs' Hc H; simpl in H.
    - inversion H; subst. split; [exact Hc|]. split; [auto|]. intros rid l sp [].
    - assert (Hskip : forall (Hx : forall rid l sp, x <> RSub rid l sp),
                compile_subs pick fuel inputs pl cache subs = Ok (cache', subs') ->
                cache_ok cache' subs' /\
                (forall rid, assocN rid cache <> None -> assocN rid cache' <> None) /\
                (forall rid l sp, In (RSub rid l sp) (x :: inputs) -> assocN rid cache' <> None)).
      { intros Hx H'. destruct (IH _ _ _ _ Hc H') as [A [B C]]. split; [exact A|]. split; [exact B|].
        intros rid l sp [E|Hin]; [exfalso; eapply Hx; eauto|eauto]. }
      destruct x as [t d l sp|n l sp|c z l sp|rid l sp];
        try (apply Hskip; [intros; discriminate|exact H]).
      destruct (assocN rid cache) as [k0|] eqn:Ec.
      + destruct (IH _ _ _ _ Hc H) as [A [B C]]. split; [exact A|]. split; [exact B|].
        intros rid' l' sp' [E|Hin]; [|eauto]. inversion E; subst. apply B. congruence.
      + destruct (nthN pl rid) as [r|] eqn:En; [|discriminate].
        destruct (compile_sub pick fuel r) as [d| | |] eqn:Ed; simpl in H; try discriminate.
        destruct (intern_dfa d subs 0) as [k subs1] eqn:Ei.
        destruct (intern_dfa_spec _ _ _ _ _ Ei) as [j [Hk [Hn Hp]]].
        assert (Hc1 : cache_ok (cache ++ [(rid, k)]) subs1).
        { intros rid' k' Ha. rewrite assocN_app in Ha.
          destruct (assocN rid' cache) as [k1|] eqn:E1.
          - inversion Ha; subst. destruct (Hc _ _ E1) as [m [Hm Hs]]. exists m. split; auto.
            eapply prefix_nth_error; eauto.
          - simpl in Ha. destruct (N.eqb rid' rid) eqn:Er; [|discriminate]. inversion Ha; subst.
            apply N.eqb_eq in Er. subst. exists d. split.
            + rewrite N.add_0_l, Nnat.Nat2N.id. exact Hn.
            + destruct (compile_sub_ok _ _ Ed) as [raw [st [E1' E2']]]. exists r, raw, st. auto. }
        destruct (IH _ _ _ _ Hc1 H) as [A [B C]]. split; [exact A|]. split.
        * intros rid' Hne. apply B. rewrite assocN_app. destruct (assocN rid' cache); congruence.
        * intros rid' l' sp' [E|Hin]; [|eauto]. inversion E; subst. apply B.
          rewrite assocN_app, Ec. simpl. rewrite N.eqb_refl. discriminate.
  Qed.

  Lemma cache_ok_minimised : forall cache subs, cache_ok cache subs -> subs_minimised cache pl subs.
  Proof.
    intros cache subs H rid k Hk. destruct (H rid k Hk) as [m [Hm [rr [raw [st [Hn [Hd Hmin]]]]]]].
    exists rr, pick, fuel, [], raw, st. split; [exact Hn|]. split; [exact Hd|].
    rewrite (nth_error_nth _ _ _ Hm). exact Hmin.
  Qed.
End Subs.

(** *** Correctness of the driver *)
Lemma from_valid_expr_ok : forall e r pl, from_valid_expr e = Ok (r, pl) -> from_expr e [] = Ok (r, pl).
Proof.
  intros e r pl E. unfold from_valid_expr in E.
  destruct (from_expr e []) as [[r' pl']| | |] eqn:E1; simpl in E; try discriminate.
  destruct (check_ambiguities r' pl'); simpl in E; try discriminate. inversion E; subst. reflexivity.
Qed.

Theorem driver_correct : forall pick fuel v c,
  alts_nonempty (v_expr v) = true ->
  compile_valid pick fuel v = Ok c ->
  forall w, accepts_items c w <-> denotes (v_expr v) w.
Proof.
  intros pick fuel v c Ha H w. unfold compile_valid in H.
  destruct (from_valid_expr (v_expr v)) as [[r pl]| | |] eqn:E; simpl in H; try discriminate.
  apply from_valid_expr_ok in E.
  destruct (compile_subs pick fuel (r_inputs r) pl [] []) as [[submap subs]| | |] eqn:Es;
    simpl in H; try discriminate.
  destruct (dfa_from_regex pick fuel submap r) as [[raw st]| | |] eqn:Ed; simpl in H; try discriminate.
  destruct (minimize raw) as [m| | |] eqn:Em; simpl in H; try discriminate.
  destruct (check_ambiguity_best_effort m) as [[]| | |]; simpl in H; try discriminate.
  inversion H; subst c.
  destruct (compile_subs_ok pick fuel pl _ _ _ _ _ (cache_ok_nil pick fuel pl) Es) as [Hc _].
  eapply C02_minimised_model; eauto.
  eapply cache_ok_minimised; eauto.
Qed.

(** *** Totality of the driver *)
Section Total.
  Variable pick : nat -> list (list N) -> nat.
  Variable fuel : nat.

  Definition enough_fuel (r : regex) : Prop := (pow2 (S (List.length (r_inputs r))) < fuel)%nat.

  Lemma amb_cases : forall d, inputs_in_range d ->
    lift DAmb (check_ambiguity_best_effort d) = Ok tt \/
    exists e, lift DAmb (check_ambiguity_best_effort d) = Err (DAmb e).
  Proof.
    intros d H. destruct (check_ambiguity_total d H) as [E|[e E]]; rewrite E; simpl; eauto.
  Qed.

  Lemma compile_sub_total : forall rr,
    regex_good rr -> pure_inputs (r_inputs rr) -> enough_fuel rr ->
    (exists m, compile_sub pick fuel rr = Ok m) \/ (exists e, compile_sub pick fuel rr = Err (DAmb e)).
  Proof.
    intros rr Hg Hp Hf. unfold compile_sub.
    destruct (dfa_from_regex_total pick fuel [] rr Hg) as [raw [st Hd]]; [|exact Hf|].
    { intros rid l sp Hin. exfalso. apply (proj1 (pure_inputs_spec _) Hp rid l sp Hin). }
    rewrite Hd. simpl.
    destruct (wf_trim_pool _ _ _ _ _ _ Hg Hd) as [W T].
    destruct (amb_cases raw (wf_inputs_in_range raw W)) as [E|[e E]]; rewrite E; simpl; [|eauto].
    destruct (minimize_total raw W T) as [m Hm]. rewrite Hm. simpl.
    destruct (amb_cases m (minimize_inputs_in_range raw m W T Hm)) as [E'|[e E']]; rewrite E'; simpl; eauto.
  Qed.

  Variable pl : pool.
  Hypothesis pool_good : Forall (fun rr => regex_good rr /\ pure_inputs (r_inputs rr) /\ enough_fuel rr) pl.

  Lemma compile_subs_total : forall inputs cache subs,
    subs_in pl inputs ->
    (exists cs, compile_subs pick fuel inputs pl cache subs = Ok cs) \/
    (exists e, compile_subs pick fuel inputs pl cache subs = Err (DAmb e)).
  Proof.
    induction inputs as [|x inputs IH]; intros cache subs Hs; simpl; [eauto|].
    assert (Hs' : subs_in pl inputs) by (intros rid l sp Hin; apply (Hs rid l sp); right; exact Hin).
    destruct x as [t d l sp|n l sp|c z l sp|rid l sp]; try (apply IH; exact Hs').
    destruct (assocN rid cache); [apply IH; exact Hs'|].
    destruct (Hs rid l sp (or_introl eq_refl)) as [rr Hrr]. rewrite Hrr.
    assert (Hin : In rr pl) by (unfold nthN in Hrr; eapply nth_error_In; eauto).
    rewrite Forall_forall in pool_good. destruct (pool_good rr Hin) as [Hg [Hp Hf]].
    destruct (compile_sub_total rr Hg Hp Hf) as [[m Hm]|[e He]].
    - rewrite Hm. simpl. destruct (intern_dfa m subs 0). apply IH. exact Hs'.
    - rewrite He. simpl. eauto.
  Qed.
End Total.

Definition good_result (x : dres cdfa) : Prop :=
  (exists c, x = Ok c) \/
  (exists a b, x = Err (DRegex (UnboundedMatchable a b))) \/
  (exists e, x = Err (DAmb e)).

Theorem driver_total : forall builtins g sh v pick fuel,
  from_grammar builtins g sh = Ok v -> grammar_alts_nonempty g = true ->
  (forall r pl, from_expr (v_expr v) [] = Ok (r, pl) ->
     enough_fuel fuel r /\ Forall (enough_fuel fuel) pl) ->
  good_result (compile_valid pick fuel v).
Proof.
  intros builtins g sh v pick fuel Hv Hga Hfuel.
  destruct (check_tree builtins g sh v Hv) as [Hdd [Hflat [_ Halts]]]. specialize (Halts Hga).
  destruct (from_expr_total (v_expr v) [] Hdd) as [r [pl E]].
  destruct (Hfuel r pl E) as [Hf Hfp].
  destruct (from_expr_good _ _ _ _ Halts E (Forall_nil _)) as [Hg Hpg].
  destruct (from_expr_invariants _ _ _ Hflat E) as [_ [Hpok Hsin]].
  unfold compile_valid, from_valid_expr. rewrite E. simpl.
  destruct (check_ambiguities_result _ _ _ Hflat E) as [Ec|[a [b Ec]]]; rewrite Ec; simpl.
  2: { right. left. eauto. }
  assert (Hpool : Forall (fun rr => regex_good rr /\ pure_inputs (r_inputs rr) /\ enough_fuel fuel rr) pl).
  { rewrite Forall_forall in *. intros rr Hin. split; [auto|]. split; [apply (Hpok rr Hin)|auto]. }
  destruct (compile_subs_total pick fuel pl Hpool (r_inputs r) [] [] Hsin) as [[[submap subs] Hs]|[e He]].
  2: { rewrite He. simpl. right. right. eauto. }
  rewrite Hs. simpl.
  destruct (compile_subs_ok pick fuel pl _ _ _ _ _ (cache_ok_nil pick fuel pl) Hs) as [_ [_ Hdef]].
  destruct (dfa_from_regex_total pick fuel submap r Hg Hdef Hf) as [raw [st Hd]].
  rewrite Hd. simpl.
  destruct (wf_trim_pool _ _ _ _ _ _ Hg Hd) as [W T].
  destruct (minimize_total raw W T) as [m Hm]. rewrite Hm. simpl.
  destruct (amb_cases m (minimize_inputs_in_range raw m W T Hm)) as [E'|[e E']]; rewrite E'; simpl.
  - left. eauto.
  - right. right. eauto.
Qed.

(** the two together, from the checker's output *)
Theorem driver_correct_from_grammar : forall builtins g sh v pick fuel c,
  from_grammar builtins g sh = Ok v -> grammar_alts_nonempty g = true ->
  compile_valid pick fuel v = Ok c ->
  forall w, accepts_items c w <-> denotes (v_expr v) w.
Proof.
  intros builtins g sh v pick fuel c Hv Hga H.
  destruct (check_tree builtins g sh v Hv) as [_ [_ [_ Halts]]].
  apply (driver_correct pick fuel v c (Halts Hga) H).
Qed.
