(** Completeness of [Ambig.find] up to the fuel of the product search: on an automaton whose
    transition table has no duplicate keys, [find] answers [None] on every unambiguous automaton
    unless one of the product searches ran out of fuel ([gave_up]).  Together with
    [AmbigFacts.find_none_unambiguous] this is the equivalence [find c = None <-> unambiguous c]
    for well-formed automata on which no search gave up. *)
From CG Require Import Base.Prelude Model.Dfa Spec.TokAut Spec.Ambig
     Proofs.TokAutFacts Proofs.TokAutSearch Proofs.AmbigFacts.

(** The transition table is a map: one row per state, one entry per input in a row (what the
    [IndexMap]s of the implementation guarantee). *)
Definition wf_trans (d : dfa) : Prop :=
  NoDup (map fst (d_trans d)) /\ forall s tos, In (s, tos) (d_trans d) -> NoDup (map fst tos).

Lemma In_assocN {V} k (v : V) : forall l, NoDup (map fst l) -> In (k, v) l -> assocN k l = Some v.
Proof.
  induction l as [| [k' v'] l IH]; intros ND Hin; [destruct Hin |].
  cbn [map fst] in ND. inversion ND as [| x xs Hnot ND']; subst.
  cbn [assocN]. destruct Hin as [E | Hin].
  - inversion E; subst. rewrite N.eqb_refl. reflexivity.
  - destruct (N.eqb k k') eqn:Ek.
    + apply N.eqb_eq in Ek. subst k'. exfalso. apply Hnot.
      apply in_map_iff. exists (k, v). split; [reflexivity | assumption].
    + apply IH; assumption.
Qed.

Lemma In_step d s tos i t :
  wf_trans d -> In (s, tos) (d_trans d) -> In (i, t) tos -> step d s i = Some t.
Proof.
  intros [ND1 ND2] Hrow Hin. unfold step.
  rewrite (In_assocN s tos _ ND1 Hrow). apply In_assocN; [apply (ND2 s); assumption | assumption].
Qed.

Definition search_of (d d' : dfa) :=
  search N N (dnext d) (dnext d') (dfinal d) (dfinal d') N.eqb N.eqb search_fuel
         [(start_pair N N (d_start d) (d_start d'), [])] [].

(** Some product search on two within-word automata of [c] ran out of fuel. *)
Definition gave_up (c : cdfa) : Prop :=
  exists d d', In d (c_subs c) /\ In d' (c_subs c) /\ search_of d d' = PUnknown N N.

Lemma nthN_In {A} (l : list A) k x : nthN l k = Some x -> In x l.
Proof. unfold nthN. apply nth_error_In. Qed.

Lemma subs_verdict c k k' d d' :
  nthN (c_subs c) k = Some d -> nthN (c_subs c) k' = Some d' ->
  subs_disjoint d d' = false ->
  (exists w, subs_common d d' = Some w) \/ gave_up c.
Proof.
  intros Hd Hd' Hdis.
  pose proof (search_correct N N (dnext d) (dnext d') (dfinal d) (dfinal d') N.eqb N.eqb
                             Neqb_sound Neqb_sound N.eqb_refl N.eqb_refl
                             (start_pair N N (d_start d) (d_start d')) search_fuel _ _
                             (inv_init N N (dnext d) (dnext d') (dfinal d) (dfinal d') _)) as C.
  destruct (search_of d d') as [w | r |] eqn:E; unfold search_of in E; rewrite E in C.
  - left. exists w. unfold subs_common.
    apply (common_word_found N N (dnext d) (dnext d') (dfinal d) (dfinal d') N.eqb N.eqb
                             Neqb_sound Neqb_sound N.eqb_refl N.eqb_refl). assumption.
  - exfalso. unfold subs_disjoint, disjoint in Hdis. rewrite E, C in Hdis. discriminate.
  - right. exists d, d'. repeat split; [eapply nthN_In; eassumption | eapply nthN_In; eassumption | assumption].
Qed.

Theorem find_some_word_or_fuel c wit :
  find c = Some wit -> (exists w, w_word wit = Some w) \/ gave_up c.
Proof.
  unfold find. intro H. apply first_some_some in H. destruct H as [[s0 tos] [_ H]].
  unfold find_at in H. cbn [fst snd] in H.
  apply first_some_some in H. destruct H as [[i0 t] [_ H]].
  apply first_some_some in H. destruct H as [[j0 u] [_ H]].
  unfold check_pair in H. cbn [fst snd] in H.
  destruct (N.eqb t u); [discriminate |].
  destruct (nthN (d_inputs (c_main c)) i0) as [ii |]; [| discriminate].
  destruct (nthN (d_inputs (c_main c)) j0) as [ij |]; [| destruct ii; discriminate].
  destruct ii as [a da la | k lk | | |]; try discriminate;
    destruct ij as [b db lb | k' lk' | | |]; try discriminate.
  - destruct (String.eqb a b); [| discriminate]. inversion H; subst. left. eexists; reflexivity.
  - destruct (nthN (c_subs c) k'); [| discriminate]. destruct (sub_accepts d a); [| discriminate].
    inversion H; subst. left. eexists; reflexivity.
  - destruct (nthN (c_subs c) k); [| discriminate]. destruct (sub_accepts d b); [| discriminate].
    inversion H; subst. left. eexists; reflexivity.
  - destruct (nthN (c_subs c) k) as [d |] eqn:Hd; [| discriminate].
    destruct (nthN (c_subs c) k') as [d' |] eqn:Hd'; [| discriminate].
    destruct (subs_disjoint d d') eqn:Ed; [discriminate |].
    inversion H; subst. cbn [w_word].
    destruct (subs_verdict c k k' d d' Hd Hd' Ed) as [[w Ew] | G]; [left; exists w; assumption | right; assumption].
Qed.

Theorem find_some_refutes c s i j w :
  wf_trans (c_main c) -> find c = Some (mkwit s i j (Some w)) -> ~ unambiguous c.
Proof.
  intros WF H U. apply find_some_genuine in H.
  destruct H as [tos [t [u [ii [ij [Hrow [Hit [Hju [Htu [Hi [Hj [Mi Mj]]]]]]]]]]]].
  apply Htu. apply (U s i j ii ij w t u); try assumption.
  - eapply In_step; eassumption.
  - eapply In_step; eassumption.
Qed.

Theorem find_complete c :
  wf_trans (c_main c) -> unambiguous c -> find c = None \/ gave_up c.
Proof.
  intros WF U. destruct (find c) as [[s i j ow] |] eqn:E; [| left; reflexivity].
  destruct (find_some_word_or_fuel c _ E) as [[w Ew] | G]; [| right; assumption].
  cbn [w_word] in Ew. subst ow. exfalso. exact (find_some_refutes c s i j w WF E U).
Qed.

(** The decision is exact on well-formed automata on which no search gave up. *)
Theorem find_correct c :
  wf_trans (c_main c) -> ~ gave_up c -> (find c = None <-> unambiguous c).
Proof.
  intros WF NG. split; [apply find_none_unambiguous |].
  intro U. destruct (find_complete c WF U) as [H | G]; [assumption | contradiction].
Qed.
