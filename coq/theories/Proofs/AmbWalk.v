(** C08, "the same literal expected at one point with two different descriptions": what the walk
    of [DFA::check_ambiguity_best_effort] (Model/Ambiguity.v) decides.

    - [check_state] accepts a state iff it has neither two literal inputs with equal text and
      different descriptions ([conflicting]) nor two or more star inputs one of which leads to a
      non-accepting state ([star_ambiguous]) -- the sort / dedup / neighbour comparison is a
      correct implementation of "some two labels clash";
    - the walk visits exactly the states reachable from the start state: [Ok] means every
      reachable state is clean, an error is the error of a reachable state and its path is the
      list of inputs of a real path from the start state to that state.
    (Totality -- no [Panic], no [OutOfFuel] -- is proved elsewhere; here it is a hypothesis
    [fine] where needed.) *)
From CG Require Import Base.Prelude Model.Dfa Model.Ambiguity.

(** * The order on literal texts *)
Lemma N_of_ascii_inj x y : N_of_ascii x = N_of_ascii y -> x = y.
Proof. intro H. rewrite <- (ascii_N_embedding x), <- (ascii_N_embedding y), H. reflexivity. Qed.

Lemma str_leb_refl a : str_leb a a = true.
Proof. induction a as [|x r IH]; cbn [str_leb]; [reflexivity|]. rewrite N.ltb_irrefl. exact IH. Qed.

Lemma str_leb_total a : forall b, str_leb a b = true \/ str_leb b a = true.
Proof.
  induction a as [|x r IH]; intro b; [left; reflexivity|]. destruct b as [|y s]; [right; reflexivity|].
  cbn [str_leb]. destruct (N.ltb_spec (N_of_ascii x) (N_of_ascii y)); [left; reflexivity|].
  destruct (N.ltb_spec (N_of_ascii y) (N_of_ascii x)); [right; reflexivity|].
  apply IH.
Qed.

Lemma str_leb_trans a : forall b c, str_leb a b = true -> str_leb b c = true -> str_leb a c = true.
Proof.
  induction a as [|x r IH]; intros b c Hab Hbc; [reflexivity|].
  destruct b as [|y s]; [discriminate|]. destruct c as [|z t]; [discriminate|].
  cbn [str_leb] in *.
  destruct (N.ltb_spec (N_of_ascii x) (N_of_ascii y)) as [Hxy|Hxy];
    destruct (N.ltb_spec (N_of_ascii y) (N_of_ascii z)) as [Hyz|Hyz];
    destruct (N.ltb_spec (N_of_ascii x) (N_of_ascii z)) as [Hxz|Hxz]; try reflexivity; try lia.
  - destruct (N.ltb_spec (N_of_ascii z) (N_of_ascii y)); [discriminate|]. lia.
  - destruct (N.ltb_spec (N_of_ascii y) (N_of_ascii x)); [discriminate|]. lia.
  - destruct (N.ltb_spec (N_of_ascii y) (N_of_ascii x)) as [H1|H1]; [discriminate|].
    destruct (N.ltb_spec (N_of_ascii z) (N_of_ascii y)) as [H2|H2]; [discriminate|].
    destruct (N.ltb_spec (N_of_ascii z) (N_of_ascii x)) as [H3|H3]; [lia|].
    eapply IH; eauto.
Qed.

Lemma str_leb_antisym a : forall b, str_leb a b = true -> str_leb b a = true -> a = b.
Proof.
  induction a as [|x r IH]; intros b Hab Hba; destruct b as [|y s]; try reflexivity; try discriminate.
  cbn [str_leb] in *.
  destruct (N.ltb_spec (N_of_ascii x) (N_of_ascii y)) as [Hxy|Hxy];
    destruct (N.ltb_spec (N_of_ascii y) (N_of_ascii x)) as [Hyx|Hyx]; try discriminate; try lia.
  assert (E : x = y) by (apply N_of_ascii_inj; lia). subst y. f_equal. apply IH; assumption.
Qed.

(** * Sorting, dedup, first conflict *)
Definition lab := (string * option string)%type.

Fixpoint sortedT (l : list lab) : Prop :=
  match l with
  | x :: ((y :: _) as r) => str_leb (fst x) (fst y) = true /\ sortedT r
  | _ => True
  end.

Lemma sortedT_tail x l : sortedT (x :: l) -> sortedT l.
Proof. destruct l; cbn; tauto. Qed.

Lemma insert_In x l z : In z (insert_by_text x l) <-> z = x \/ In z l.
Proof.
  induction l as [|y r IH]; cbn; [intuition congruence|].
  destruct (str_leb (fst y) (fst x)); cbn; rewrite ?IH; intuition congruence.
Qed.

Lemma insert_sorted x l : sortedT l -> sortedT (insert_by_text x l).
Proof.
  induction l as [|y r IH]; intro Hs; [exact I|]. cbn [insert_by_text].
  destruct (str_leb (fst y) (fst x)) eqn:E.
  - specialize (IH (sortedT_tail _ _ Hs)). destruct r as [|z r']; cbn [insert_by_text] in *.
    + cbn. split; [exact E|exact I].
    + destruct (str_leb (fst z) (fst x)) eqn:E2.
      * cbn in Hs |- *. destruct Hs as [Hyz _]. split; [exact Hyz|exact IH].
      * split; [exact E|exact IH].
  - cbn [sortedT]. split; [|exact Hs].
    destruct (str_leb_total (fst x) (fst y)) as [H|H]; [exact H|congruence].
Qed.

Lemma sort_In_acc l : forall acc z,
  In z (fold_left (fun a x => insert_by_text x a) l acc) <-> In z l \/ In z acc.
Proof.
  induction l as [|x r IH]; intros acc z; cbn [fold_left]; [cbn; tauto|].
  rewrite IH, insert_In. cbn. intuition congruence.
Qed.

Lemma sort_sorted_acc l : forall acc, sortedT acc -> sortedT (fold_left (fun a x => insert_by_text x a) l acc).
Proof.
  induction l as [|x r IH]; intros acc H; cbn [fold_left]; [exact H|]. apply IH. apply insert_sorted. exact H.
Qed.

Lemma sort_In l z : In z (sort_by_text l) <-> In z l.
Proof. unfold sort_by_text. rewrite sort_In_acc. cbn. tauto. Qed.

Lemma sort_sorted l : sortedT (sort_by_text l).
Proof. apply sort_sorted_acc. exact I. Qed.

Lemma sorted_head_le x l : sortedT (x :: l) -> forall b, In b l -> str_leb (fst x) (fst b) = true.
Proof.
  revert x. induction l as [|y r IH]; intros x Hs b Hb; [destruct Hb|].
  cbn in Hs. destruct Hs as [Hxy Hs]. destruct Hb as [Hb|Hb]; [subst; exact Hxy|].
  eapply str_leb_trans; [exact Hxy|]. apply (IH y Hs b Hb).
Qed.

(** two labels clash: same text, different descriptions *)
Definition clash (a b : lab) : Prop := fst a = fst b /\ snd a <> snd b.

Definition has_clash (l : list lab) : Prop := exists a b, In a l /\ In b l /\ clash a b.

Fixpoint adj_clash (l : list lab) : Prop :=
  match l with
  | x :: ((y :: _) as r) => clash x y \/ adj_clash r
  | _ => False
  end.

Lemma option_str_eqb_eq (a b : option string) : option_eqb String.eqb a b = true <-> a = b.
Proof.
  destruct a, b; cbn; try (split; [discriminate|congruence]); try (split; reflexivity).
  rewrite String.eqb_eq. split; congruence.
Qed.

Lemma option_str_dec (a b : option string) : a = b \/ a <> b.
Proof.
  destruct (option_eqb String.eqb a b) eqn:E; [left; apply option_str_eqb_eq; exact E|].
  right. intro H. apply option_str_eqb_eq in H. congruence.
Qed.

Lemma adj_clash_in l : adj_clash l -> has_clash l.
Proof.
  induction l as [|x r IH]; [intros []|]. destruct r as [|y r']; [intros []|].
  cbn [adj_clash]. intros [H|H].
  - exists x, y. cbn. tauto.
  - destruct (IH H) as (a & b & Ha & Hb & Hc). exists a, b. cbn in *. tauto.
Qed.

Lemma sorted_clash_adj l : sortedT l -> has_clash l -> adj_clash l.
Proof.
  induction l as [|x r IH]; intros Hs (a & b & Ha & Hb & Hc); [destruct Ha|].
  assert (Hr : has_clash r -> adj_clash (x :: r)).
  { intro H. destruct r as [|y r']; [destruct H as (? & ? & [] & _)|].
    right. apply IH; [exact (sortedT_tail _ _ Hs)|exact H]. }
  (* one of the two is the head *)
  assert (Hhead : forall b, In b r -> fst x = fst b -> snd x <> snd b -> adj_clash (x :: r)).
  { intros b0 Hb0 Ht Hd. destruct r as [|y r']; [destruct Hb0|].
    assert (Hxy : str_leb (fst x) (fst y) = true) by (cbn in Hs; tauto).
    assert (Hyb : str_leb (fst y) (fst b0) = true).
    { destruct Hb0 as [Hb0|Hb0]; [subst; apply str_leb_refl|].
      apply (sorted_head_le y r' (sortedT_tail _ _ Hs) b0 Hb0). }
    assert (Hty : fst x = fst y).
    { apply str_leb_antisym; [exact Hxy|]. rewrite Ht. exact Hyb. }
    destruct (option_str_dec (snd x) (snd y)) as [Hd'|Hd'].
    - apply Hr. exists y, b0. split; [left; reflexivity|]. split; [exact Hb0|].
      split; [congruence|congruence].
    - left. split; assumption. }
  destruct Ha as [Ha|Ha], Hb as [Hb|Hb].
  - subst. destruct Hc as [_ Hc]. congruence.
  - subst a. destruct Hc as [Ht Hd]. apply (Hhead b Hb Ht Hd).
  - subst b. destruct Hc as [Ht Hd]. apply (Hhead a Ha); [congruence|congruence].
  - apply Hr. exists a, b. tauto.
Qed.

Lemma lit_eqb_eq (a b : lab) : lit_eqb a b = true <-> a = b.
Proof.
  unfold lit_eqb. rewrite andb_true_iff, String.eqb_eq, option_str_eqb_eq.
  destruct a, b; cbn. split; [intros [H1 H2]; congruence|intro H; inversion H; tauto].
Qed.

Lemma dedup_cons2 x y r :
  dedup (x :: y :: r) = if lit_eqb x y then dedup (y :: r) else x :: dedup (y :: r).
Proof. reflexivity. Qed.

Lemma dedup_head x r : exists r', dedup (x :: r) = x :: r'.
Proof.
  revert x. induction r as [|y r IH]; intro x; [exists []; reflexivity|].
  rewrite dedup_cons2. destruct (lit_eqb x y) eqn:E.
  - apply lit_eqb_eq in E. subst y. apply IH.
  - eexists. reflexivity.
Qed.

Lemma dedup_In l z : In z (dedup l) -> In z l.
Proof.
  induction l as [|x r IH]; [intros []|]. destruct r as [|y r']; [cbn; tauto|].
  rewrite dedup_cons2. destruct (lit_eqb x y); intro H.
  - right. apply IH. exact H.
  - destruct H as [H|H]; [left; exact H|right; apply IH; exact H].
Qed.

Lemma dedup_adj l : adj_clash (dedup l) <-> adj_clash l.
Proof.
  induction l as [|x r IH]; [reflexivity|]. destruct r as [|y r']; [reflexivity|].
  rewrite dedup_cons2. destruct (lit_eqb x y) eqn:E.
  - apply lit_eqb_eq in E. subst y. rewrite IH. cbn [adj_clash]. unfold clash. intuition congruence.
  - destruct (dedup_head y r') as [r'' Hd]. rewrite Hd in *. cbn [adj_clash] in *. tauto.
Qed.

Lemma first_conflict_adj l : first_conflict l <> None <-> adj_clash l.
Proof.
  induction l as [|[t1 d1] r IH]; [cbn; intuition congruence|]. destruct r as [|[t2 d2] r']; [cbn; intuition congruence|].
  cbn [first_conflict adj_clash]. unfold clash at 1. cbn [fst snd].
  destruct (String.eqb t1 t2) eqn:Et; cbn [andb].
  - apply String.eqb_eq in Et. subst t2.
    destruct (option_eqb String.eqb d1 d2) eqn:Ed; cbn [negb].
    + apply option_str_eqb_eq in Ed. subst d2. rewrite IH. intuition congruence.
    + split; [intros _|discriminate]. left. split; [reflexivity|]. intro H.
      apply option_str_eqb_eq in H. congruence.
  - apply String.eqb_neq in Et. rewrite IH. intuition congruence.
Qed.

Lemma first_conflict_some l t d1 d2 :
  first_conflict l = Some (t, d1, d2) -> In (t, d1) l /\ In (t, d2) l /\ d1 <> d2.
Proof.
  induction l as [|[t1 e1] r IH]; [discriminate|]. destruct r as [|[t2 e2] r']; [discriminate|].
  cbn [first_conflict].
  destruct (String.eqb t1 t2 && negb (option_eqb String.eqb e1 e2)) eqn:E.
  - intro H. inversion H; subst. apply andb_true_iff in E. destruct E as [Et Ed].
    apply String.eqb_eq in Et. subst t2. split; [left; reflexivity|]. split; [right; left; reflexivity|].
    intro Heq. apply option_str_eqb_eq in Heq. rewrite Heq in Ed. discriminate.
  - intro H. destruct (IH H) as (A & B & C). cbn in *. tauto.
Qed.

Theorem conflict_search_correct (lits : list lab) :
  first_conflict (dedup (sort_by_text lits)) = None <-> ~ has_clash lits.
Proof.
  split.
  - intros H Hc. assert (Hs : has_clash (sort_by_text lits)).
    { destruct Hc as (a & b & Ha & Hb & Hc). exists a, b. rewrite !sort_In. tauto. }
    apply (sorted_clash_adj _ (sort_sorted lits)) in Hs. apply dedup_adj in Hs.
    apply first_conflict_adj in Hs. congruence.
  - intro H. destruct (first_conflict (dedup (sort_by_text lits))) as [[[t d1] d2]|] eqn:E; [|reflexivity].
    exfalso. apply H. apply first_conflict_some in E. destruct E as (A & B & C).
    apply dedup_In in A. apply dedup_In in B. rewrite sort_In in A, B.
    exists (t, d1), (t, d2). split; [exact A|]. split; [exact B|]. split; [reflexivity|]. cbn. congruence.
Qed.

(** * One state *)
Definition star_targets (d : dfa) (s : N) : list N :=
  flat_map (fun p => match nthN (d_inputs d) (fst p) with Some IStar => [snd p] | _ => [] end)
           (transitions_from d s).

Definition lit_labels (d : dfa) (s : N) : list lab :=
  flat_map (fun p => match nthN (d_inputs d) (fst p) with Some (ILit t de _) => [(t, de)] | _ => [] end)
           (transitions_from d s).

(** two or more star inputs, one of which leads to a state that is not accepting *)
Definition star_ambiguous (d : dfa) (s : N) : Prop :=
  (2 <= List.length (star_targets d s))%nat /\ exists t, In t (star_targets d s) /\ is_accepting d t = false.

(** two literal inputs with the same text and different descriptions *)
Definition conflicting (d : dfa) (s : N) : Prop := has_clash (lit_labels d s).

Definition inputs_in_range (d : dfa) (s : N) : Prop :=
  forall i t, In (i, t) (transitions_from d s) -> nthN (d_inputs d) i <> None.

Definition ins_of (d : dfa) (ts : list (N * N)) : ares (list (inp * N)) :=
  omap (fun p => do x <- input_of d (fst p); Ok (x, snd p)) ts.

Lemma ins_of_ok d ts ins : ins_of d ts = Ok ins ->
  (forall i t, In (i, t) ts -> nthN (d_inputs d) i <> None) /\
  map snd (filter (fun p => match fst p with IStar => true | _ => false end) ins)
  = flat_map (fun p => match nthN (d_inputs d) (fst p) with Some IStar => [snd p] | _ => [] end) ts /\
  flat_map (fun p => match fst p with ILit t de _ => [(t, de)] | _ => [] end) ins
  = flat_map (fun p => match nthN (d_inputs d) (fst p) with Some (ILit t de _) => [(t, de)] | _ => [] end) ts.
Proof.
  revert ins. induction ts as [|[i t] r IH]; intros ins H.
  - cbn in H. inversion H; subst. cbn. repeat split. intros ? ? [].
  - unfold ins_of in H. cbn [omap] in H. unfold input_of in H at 1. cbn [fst snd] in H.
    destruct (nthN (d_inputs d) i) as [x|] eqn:Ei; cbn [obind] in H; [|discriminate].
    fold (ins_of d r) in H. destruct (ins_of d r) as [ins'| | |] eqn:Er; cbn [obind] in H; try discriminate.
    inversion H; subst ins. destruct (IH ins' eq_refl) as (A & B & C). repeat split.
    + intros i0 t0 [Hin|Hin]; [inversion Hin; subst; congruence|eapply A; eauto].
    + cbn [filter flat_map fst snd]. rewrite Ei. destruct x; cbn; rewrite B; reflexivity.
    + cbn [flat_map fst snd]. rewrite Ei. destruct x; cbn; rewrite C; reflexivity.
Qed.

Lemma ins_of_total d ts :
  (forall i t, In (i, t) ts -> nthN (d_inputs d) i <> None) -> exists ins, ins_of d ts = Ok ins.
Proof.
  induction ts as [|[i t] r IH]; intro H; [eexists; reflexivity|].
  unfold ins_of. cbn [omap]. unfold input_of at 1. cbn [fst snd].
  destruct (nthN (d_inputs d) i) as [x|] eqn:Ei; [|exfalso; eapply H; [left; reflexivity|exact Ei]].
  cbn [obind]. destruct IH as [ins Hi]; [intros; eapply H; right; eauto|].
  fold (ins_of d r). rewrite Hi. cbn. eexists; reflexivity.
Qed.

Lemma check_state_unfold d s path :
  check_state d s path =
  do ins <- ins_of d (transitions_from d s);
  let stars := filter (fun p => match fst p with IStar => true | _ => false end) ins in
  if (Nat.leb 2 (List.length stars)) && existsb (fun p => negb (is_accepting d (snd p))) stars
  then Err (AmbiguousDFA path (map fst stars))
  else
    let lits := flat_map (fun p => match fst p with ILit t de _ => [(t, de)] | _ => [] end) ins in
    match first_conflict (dedup (sort_by_text lits)) with
    | Some (t, l, r) => Err (ConflictingDescriptions path t (descr_or_empty l) (descr_or_empty r))
    | None => Ok tt
    end.
Proof. reflexivity. Qed.

Lemma star_test d (stars : list (inp * N)) :
  (Nat.leb 2 (List.length stars)) && existsb (fun p => negb (is_accepting d (snd p))) stars = true
  <-> (2 <= List.length (map snd stars))%nat /\ exists t, In t (map snd stars) /\ is_accepting d t = false.
Proof.
  rewrite andb_true_iff, Nat.leb_le, map_length, existsb_exists. split.
  - intros [H1 [p [Hp Ha]]]. split; [exact H1|]. exists (snd p). split; [apply in_map; exact Hp|].
    destruct (is_accepting d (snd p)); [discriminate|reflexivity].
  - intros [H1 [t [Ht Ha]]]. split; [exact H1|]. apply in_map_iff in Ht. destruct Ht as [p [Hp Hin]].
    exists p. split; [exact Hin|]. subst t. rewrite Ha. reflexivity.
Qed.

(** what [check_state] decides *)
Theorem check_state_ok d s path :
  check_state d s path = Ok tt <->
  inputs_in_range d s /\ ~ star_ambiguous d s /\ ~ conflicting d s.
Proof.
  rewrite check_state_unfold. split.
  - destruct (ins_of d (transitions_from d s)) as [ins| | |] eqn:Ei; cbn [obind]; try discriminate.
    destruct (ins_of_ok _ _ _ Ei) as (A & B & C). cbn zeta.
    destruct (_ && _) eqn:Es; [discriminate|].
    destruct (first_conflict _) as [[[t l] r]|] eqn:Ef; [discriminate|]. intros _.
    split; [exact A|]. split.
    + intro H. unfold star_ambiguous, star_targets in H. rewrite <- B in H.
      apply star_test in H. congruence.
    + unfold conflicting, lit_labels. rewrite <- C. apply conflict_search_correct. exact Ef.
  - intros (A & Hs & Hc). destruct (ins_of_total d _ A) as [ins Ei]. rewrite Ei. cbn [obind].
    destruct (ins_of_ok _ _ _ Ei) as (_ & B & C). cbn zeta.
    destruct (_ && _) eqn:Es.
    + exfalso. apply Hs. apply star_test in Es. unfold star_ambiguous, star_targets. rewrite <- B. exact Es.
    + unfold conflicting, lit_labels in Hc. rewrite <- C in Hc. apply conflict_search_correct in Hc.
      rewrite Hc. reflexivity.
Qed.

Theorem check_state_err d s path e :
  check_state d s path = Err e ->
  (exists ins, e = AmbiguousDFA path ins /\ star_ambiguous d s) \/
  (exists t l r, e = ConflictingDescriptions path t l r /\ conflicting d s).
Proof.
  rewrite check_state_unfold.
  destruct (ins_of d (transitions_from d s)) as [ins| | |] eqn:Ei; cbn [obind]; try discriminate.
  - destruct (ins_of_ok _ _ _ Ei) as (A & B & C). cbn zeta.
    destruct (_ && _) eqn:Es.
    + intro H. inversion H; subst. left. eexists. split; [reflexivity|].
      apply star_test in Es. unfold star_ambiguous, star_targets. rewrite <- B. exact Es.
    + destruct (first_conflict _) as [[[t l] r]|] eqn:Ef; [|discriminate].
      intro H. inversion H; subst. right. do 3 eexists. split; [reflexivity|].
      unfold conflicting, lit_labels. rewrite <- C.
      destruct (option_str_dec None (Some "")) as [Hx|_]; [discriminate|].
      assert (Hn : first_conflict (dedup (sort_by_text
                     (flat_map (fun p => match fst p with ILit t de _ => [(t, de)] | _ => [] end) ins))) <> None)
        by congruence.
      destruct (first_conflict_some _ _ _ _ Ef) as (X & Y & Z).
      apply dedup_In in X. apply dedup_In in Y. rewrite sort_In in X, Y.
      exists (t, l), (t, r). split; [exact X|]. split; [exact Y|]. split; [reflexivity|]. cbn. congruence.
  - unfold ins_of in Ei. intro H. exfalso. clear H.
    (* [ins_of] never returns [Err] *)
    revert Ei. generalize (transitions_from d s). intro ts. revert e0.
    induction ts as [|[i t] r IH]; intros e0 H; [discriminate|].
    cbn [omap] in H. unfold input_of in H at 1. cbn [fst snd] in H.
    destruct (nthN (d_inputs d) i); cbn [obind] in H; [|discriminate].
    destruct (omap _ r) as [x| | |] eqn:Er; cbn [obind] in H; try discriminate.
    inversion H; subst. eapply IH. reflexivity.
Qed.

(** * The walk *)
Section Each.
  Variable d : dfa.
  Variable rec : N -> list N -> list inp -> ares (list N).
  Variable path : list inp.

  Fixpoint each (ts : list (N * N)) (visited : list N) : ares (list N) :=
    match ts with
    | [] => Ok visited
    | (i, to) :: r =>
        if memN to visited then each r visited
        else
          do x <- input_of d i;
          do v' <- rec to (to :: visited) (path ++ [x]);
          each r v'
    end.
End Each.

Lemma walk_S f d s visited path :
  walk (S f) d s visited path =
  do _ <- check_state d s path;
  each d (walk f d) path (transitions_from d s) visited.
Proof. reflexivity. Qed.

Lemma memN_In k l : memN k l = true <-> In k l.
Proof.
  unfold memN. rewrite existsb_exists. split.
  - intros [x [Hx He]]. apply N.eqb_eq in He. subst. exact Hx.
  - intro H. exists k. split; [exact H|apply N.eqb_refl].
Qed.

Section Walk.
  Variable d : dfa.

  Definition succ (s t : N) : Prop := exists i, In (i, t) (transitions_from d s).

  Inductive reachable : N -> Prop :=
  | reach_start : reachable (d_start d)
  | reach_step s t : reachable s -> succ s t -> reachable t.

  (** [lpath s t p]: [p] is the list of inputs along a path from [s] to [t] *)
  Inductive lpath (s : N) : N -> list inp -> Prop :=
  | lpath_nil : lpath s s []
  | lpath_snoc u t p i x : lpath s u p -> In (i, t) (transitions_from d u) ->
                           nthN (d_inputs d) i = Some x -> lpath s t (p ++ [x]).

  Definition clean (s : N) : Prop := exists p, check_state d s p = Ok tt.

  (** states entered during a call: checked, and all their successors end up visited *)
  Definition closed_new (visited v' : list N) : Prop :=
    forall u, In u v' -> ~ In u visited -> clean u /\ forall t, succ u t -> In t v'.

  Lemma each_ok rec path
        (IHrec : forall s visited p v', rec s visited p = Ok v' ->
                   incl visited v' /\ clean s /\ (forall t, succ s t -> In t v') /\ closed_new visited v') :
    forall ts visited v', each d rec path ts visited = Ok v' ->
      incl visited v' /\ (forall i t, In (i, t) ts -> In t v') /\
      (forall u, In u v' -> ~ In u visited ->
                 clean u /\ forall t, succ u t -> In t v').
  Proof.
    induction ts as [|[i t] r IH]; intros visited v' H.
    - cbn in H. inversion H; subst. split; [apply incl_refl|]. split; [intros ? ? []|]. intros u Hu Hn. contradiction.
    - cbn [each] in H. destruct (memN t visited) eqn:Em.
      + apply memN_In in Em. destruct (IH _ _ H) as (A & B & C). split; [exact A|]. split; [|exact C].
        intros i0 t0 [Hin|Hin]; [inversion Hin; subst; apply A; exact Em|eapply B; eauto].
      + destruct (input_of d i) as [x| | |]; cbn [obind] in H; try discriminate.
        destruct (rec t (t :: visited) (path ++ [x])) as [v1| | |] eqn:Er; cbn [obind] in H; try discriminate.
        destruct (IHrec _ _ _ _ Er) as (A1 & B1 & C1 & D1).
        destruct (IH _ _ H) as (A & B & C).
        assert (Hinc : incl visited v') by (intros u Hu; apply A; apply A1; right; exact Hu).
        split; [exact Hinc|]. split.
        * intros i0 t0 [Hin|Hin]; [inversion Hin; subst; apply A; apply A1; left; reflexivity|eapply B; eauto].
        * intros u Hu Hn. destruct (in_dec N.eq_dec u v1) as [Hu1|Hu1].
          -- destruct (N.eq_dec u t) as [Heq|Hne].
             ++ subst u. split; [exact B1|]. intros t0 Ht0. apply A. apply C1. exact Ht0.
             ++ destruct (D1 u Hu1) as [Hc Hs]; [intros [Hx|Hx]; [congruence|contradiction]|].
                split; [exact Hc|]. intros t0 Ht0. apply A. apply Hs. exact Ht0.
          -- apply C; assumption.
  Qed.

  Lemma walk_ok f : forall s visited p v', walk f d s visited p = Ok v' ->
    incl visited v' /\ clean s /\ (forall t, succ s t -> In t v') /\ closed_new visited v'.
  Proof.
    induction f as [|f IH]; intros s visited p v' H; [discriminate|].
    rewrite walk_S in H. destruct (check_state d s p) as [[]| | |] eqn:Ec; cbn [obind] in H; try discriminate.
    destruct (each_ok (walk f d) p IH _ _ _ H) as (A & B & C).
    split; [exact A|]. split; [exists p; exact Ec|]. split; [|exact C].
    intros t [i Hi]. eapply B; eauto.
  Qed.

  Lemma each_err rec path s0
        (IHrec : forall s visited p e, rec s visited p = Err e ->
                   exists u q, lpath s u q /\ check_state d u (p ++ q) = Err e) :
    forall ts visited e, incl ts (transitions_from d s0) -> each d rec path ts visited = Err e ->
      exists u q, lpath s0 u q /\ q <> [] /\ check_state d u (path ++ q) = Err e.
  Proof.
    induction ts as [|[i t] r IH]; intros visited e Hincl H; [discriminate|].
    assert (Hr : incl r (transitions_from d s0)) by (intros x Hx; apply Hincl; right; exact Hx).
    cbn [each] in H. destruct (memN t visited); [eapply IH; eauto|].
    unfold input_of in H. destruct (nthN (d_inputs d) i) as [x|] eqn:Ei; cbn [obind] in H; [|discriminate].
    destruct (rec t (t :: visited) (path ++ [x])) as [v1|e1| |] eqn:Er; cbn [obind] in H; try discriminate.
    - eapply IH; eauto.
    - inversion H; subst e1. destruct (IHrec _ _ _ _ Er) as (u & q & Hl & Hc).
      exists u, ([x] ++ q). split; [|split].
      + clear - Hl Hincl Ei. induction Hl as [|u' t' p' i' x' Hl IHl Hin Hx].
        * cbn. apply (lpath_snoc s0 s0 t [] i x); [constructor|apply Hincl; left; reflexivity|exact Ei].
        * rewrite app_assoc. eapply lpath_snoc; eauto.
      + discriminate.
      + rewrite app_assoc. exact Hc.
  Qed.

  Lemma walk_err f : forall s visited p e, walk f d s visited p = Err e ->
    exists u q, lpath s u q /\ check_state d u (p ++ q) = Err e.
  Proof.
    induction f as [|f IH]; intros s visited p e H; [discriminate|].
    rewrite walk_S in H. destruct (check_state d s p) as [[]|e0| |] eqn:Ec; cbn [obind] in H; try discriminate.
    - destruct (each_err (walk f d) p s IH _ _ _ (incl_refl _) H) as (u & q & Hl & _ & Hc). eauto.
    - inversion H; subst e0. exists s, []. rewrite app_nil_r. split; [constructor|exact Ec].
  Qed.

  Lemma lpath_reachable u q : lpath (d_start d) u q -> reachable u.
  Proof.
    induction 1 as [|u t p i x Hl IH Hin Hx]; [constructor|]. eapply reach_step; [exact IH|]. exists i. exact Hin.
  Qed.

  Theorem walk_complete :
    check_ambiguity_best_effort d = Ok tt -> forall u, reachable u -> clean u.
  Proof.
    unfold check_ambiguity_best_effort. intro H.
    destruct (walk _ d (d_start d) [] []) as [v'| | |] eqn:Ew; cbn [obind] in H; try discriminate.
    destruct (walk_ok _ _ _ _ _ Ew) as (_ & Hc & Hs & Hn).
    assert (Hinv : forall u, reachable u -> u = d_start d \/ In u v').
    { induction 1 as [|s t Hr IH Hst]; [left; reflexivity|]. right.
      destruct IH as [IH|IH]; [subst s; apply Hs; exact Hst|].
      destruct (Hn s IH) as [_ Hs']; [intros []|]. apply Hs'. exact Hst. }
    intros u Hu. destruct (Hinv u Hu) as [Heq|Hin]; [subst; exact Hc|].
    destruct (Hn u Hin) as [Hcl _]; [intros []|]. exact Hcl.
  Qed.
End Walk.

(** * What the walk decides *)
Definition fine {A} (x : ares A) : Prop := match x with Ok _ | Err _ => True | _ => False end.

Theorem amb_accepts d :
  check_ambiguity_best_effort d = Ok tt ->
  forall u, reachable d u ->
    inputs_in_range d u /\ ~ star_ambiguous d u /\ ~ conflicting d u.
Proof.
  intros H u Hu. destruct (walk_complete d H u Hu) as [p Hp]. apply check_state_ok in Hp. exact Hp.
Qed.

Theorem amb_rejects d e :
  check_ambiguity_best_effort d = Err e ->
  exists u q, lpath d (d_start d) u q /\ reachable d u /\
    ((exists ins, e = AmbiguousDFA q ins /\ star_ambiguous d u) \/
     (exists t l r, e = ConflictingDescriptions q t l r /\ conflicting d u)).
Proof.
  unfold check_ambiguity_best_effort. intro H.
  destruct (walk _ d (d_start d) [] []) as [v'|e0| |] eqn:Ew; cbn [obind] in H; try discriminate.
  inversion H; subst e0. destruct (walk_err d _ _ _ _ _ Ew) as (u & q & Hl & Hc). cbn [app] in Hc.
  exists u, q. split; [exact Hl|]. split; [eapply lpath_reachable; exact Hl|].
  apply check_state_err. exact Hc.
Qed.

Theorem amb_decides d :
  fine (check_ambiguity_best_effort d) ->
  (check_ambiguity_best_effort d = Ok tt <->
   forall u, reachable d u -> ~ star_ambiguous d u /\ ~ conflicting d u).
Proof.
  intro Hf. split.
  - intros H u Hu. destruct (amb_accepts d H u Hu) as (_ & A & B). split; assumption.
  - intro H. destruct (check_ambiguity_best_effort d) as [[]|e| |] eqn:E; try destruct Hf; [reflexivity|].
    exfalso. destruct (amb_rejects d e E) as (u & q & _ & Hu & [[ins [_ Hs]]|[t [l [r [_ Hc]]]]]).
    + apply (proj1 (H u Hu)). exact Hs.
    + apply (proj2 (H u Hu)). exact Hc.
Qed.
