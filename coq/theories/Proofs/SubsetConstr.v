(** L-subset: correctness of the subset construction work-list loop of [Model/Subset.v], for an
    arbitrary pop order [pick].  Statements are in [Proofs/SubsetStmt.v]. *)
From CG Require Import Base.Prelude Model.Ast Model.Dfa Model.Regex Model.Subset
     Proofs.RxLang Proofs.SubsetStmt.

(** * Reflection lemmas *)

Lemma option_string_eqb_eq : forall a b : option string,
  option_eqb String.eqb a b = true <-> a = b.
Proof.
  intros [a|] [b|]; cbn; split; intros H; try discriminate; try reflexivity.
  - apply String.eqb_eq in H. now subst.
  - inversion H; subst. apply String.eqb_refl.
Qed.

Lemma inp_eqb_eq : forall a b, inp_eqb a b = true <-> a = b.
Proof.
  intros a b; split.
  - destruct a, b; cbn; intros H; try discriminate; try reflexivity;
      repeat (apply andb_true_iff in H; destruct H as [H ?]);
      repeat match goal with
             | H : String.eqb _ _ = true |- _ => apply String.eqb_eq in H
             | H : N.eqb _ _ = true |- _ => apply N.eqb_eq in H
             | H : option_eqb String.eqb _ _ = true |- _ => apply option_string_eqb_eq in H
             end; subst; reflexivity.
  - intros <-. destruct a; cbn;
      repeat (apply andb_true_iff; split);
      try apply String.eqb_refl; try apply N.eqb_refl; try reflexivity.
    apply option_string_eqb_eq; reflexivity.
Qed.

Lemma listN_eqb_eq : forall a b, listN_eqb a b = true <-> a = b.
Proof.
  induction a as [|x a IH]; intros [|y b]; cbn; split; intros H;
    try discriminate; try reflexivity.
  - apply andb_true_iff in H. destruct H as [H1 H2].
    apply N.eqb_eq in H1. apply IH in H2. now subst.
  - inversion H; subst. apply andb_true_iff. split.
    + apply N.eqb_refl.
    + now apply IH.
Qed.

(** * Generic list facts *)

Lemma NoDup_map_inj : forall {A B} (f : A -> B) l x y,
  NoDup (map f l) -> In x l -> In y l -> f x = f y -> x = y.
Proof.
  induction l as [|a l IH]; cbn; intros x y Hnd Hx Hy Hf; [contradiction|].
  inversion Hnd as [|? ? Hnot Hnd']; subst.
  destruct Hx as [->|Hx], Hy as [->|Hy].
  - reflexivity.
  - exfalso. apply Hnot. rewrite Hf. now apply in_map.
  - exfalso. apply Hnot. rewrite <- Hf. now apply in_map.
  - now apply IH.
Qed.

Lemma NoDup_fst_fun : forall {A B} (l : list (A * B)) a b b',
  NoDup (map fst l) -> In (a, b) l -> In (a, b') l -> b = b'.
Proof.
  intros A B l a b b' Hnd H1 H2.
  assert (E : (a, b) = (a, b')) by (eapply (NoDup_map_inj fst); eauto).
  now inversion E.
Qed.

Lemma NoDup_snd_fun : forall {A B} (l : list (A * B)) a a' b,
  NoDup (map snd l) -> In (a, b) l -> In (a', b) l -> a = a'.
Proof.
  intros A B l a a' b Hnd H1 H2.
  assert (E : (a, b) = (a', b)) by (eapply (NoDup_map_inj snd); eauto).
  now inversion E.
Qed.

Lemma assocN_Some_In : forall {V} k (v : V) l, assocN k l = Some v -> In (k, v) l.
Proof.
  induction l as [|[k' v'] l IH]; cbn [assocN]; intros H; [discriminate|].
  destruct (N.eqb_spec k k') as [->|Hne].
  - inversion H; subst. now left.
  - right. now apply IH.
Qed.

Lemma assocN_None_iff : forall {V} k (l : list (N * V)),
  assocN k l = None <-> ~ In k (map fst l).
Proof.
  induction l as [|[k' v'] l IH]; cbn [assocN map fst In].
  - split; [intros _ []|reflexivity].
  - destruct (N.eqb_spec k k') as [->|Hne].
    + split; [discriminate|]. intros H. exfalso. apply H. now left.
    + rewrite IH. split.
      * intros H [E|H']; [now apply Hne|now apply H].
      * intros H H'. apply H. now right.
Qed.

Lemma assocN_In : forall {V} k (v : V) l,
  NoDup (map fst l) -> In (k, v) l -> assocN k l = Some v.
Proof.
  intros V k v l Hnd Hin.
  destruct (assocN k l) as [v'|] eqn:E.
  - apply assocN_Some_In in E. f_equal. eapply NoDup_fst_fun; eauto.
  - apply assocN_None_iff in E. exfalso. apply E.
    change k with (fst (k, v)). now apply in_map.
Qed.

Lemma assocN_app : forall {V} k (l l' : list (N * V)),
  assocN k (l ++ l') = match assocN k l with Some v => Some v | None => assocN k l' end.
Proof.
  induction l as [|[k' v'] l IH]; intros l'; cbn [assocN app]; [reflexivity|].
  destruct (N.eqb k k'); [reflexivity|apply IH].
Qed.

Lemma last_cons : forall {A} (r : list A) a b, last (b :: r) a = last r b.
Proof.
  induction r as [|c r IH]; intros a b; [reflexivity|].
  change (last (b :: c :: r) a) with (last (c :: r) a).
  rewrite IH. symmetry. apply IH.
Qed.

(** * Position sets and the follow table *)

Lemma pins_In : forall x y l, In x (pins y l) <-> x = y \/ In x l.
Proof.
  induction l as [|z l IH]; cbn [pins].
  - cbn. intuition.
  - destruct (N.ltb y z).
    + cbn. intuition.
    + destruct (N.eqb_spec y z) as [->|Hne].
      * cbn. intuition.
      * cbn [In]. rewrite IH. intuition.
Qed.

Lemma punion_In : forall x a b, In x (punion a b) <-> In x a \/ In x b.
Proof.
  intros x a b. unfold punion. induction b as [|y b IH]; cbn [fold_right].
  - cbn. intuition.
  - rewrite pins_In, IH. cbn. intuition.
Qed.

(** [q] is in the row of [p]. *)
Definition tin (t : list (N * list N)) (p q : N) : Prop :=
  exists s, assocN p t = Some s /\ In q s.

Fixpoint tsorted (t : list (N * list N)) : Prop :=
  match t with
  | [] => True
  | (k, _) :: r => Forall (fun kv => k < fst kv) r /\ tsorted r
  end.

Lemma assocN_lb : forall k p (r : list (N * list N)),
  Forall (fun kv => k < fst kv) r -> p <= k -> assocN p r = None.
Proof.
  intros k p r H Hle. apply assocN_None_iff. intros Hin.
  apply in_map_iff in Hin. destruct Hin as [[k' v] [E Hin]]. cbn in E. subst k'.
  rewrite Forall_forall in H. apply H in Hin. cbn in Hin. lia.
Qed.

Lemma tbl_add_lb : forall lb p q t,
  Forall (fun kv => lb < fst kv) t -> lb < p ->
  Forall (fun kv : N * list N => lb < fst kv) (tbl_add p q t).
Proof.
  induction t as [|[k s] r IH]; cbn [tbl_add]; intros H Hlt.
  - constructor; [exact Hlt|constructor].
  - inversion H as [|? ? Hk Hr]; subst. cbn in Hk.
    destruct (N.ltb_spec p k).
    + constructor; [exact Hlt|exact H].
    + destruct (N.eqb_spec p k) as [->|Hne].
      * constructor; [exact Hk|exact Hr].
      * constructor; [exact Hk|now apply IH].
Qed.

Lemma tbl_add_sorted : forall p q t, tsorted t -> tsorted (tbl_add p q t).
Proof.
  induction t as [|[k s] r IH]; cbn [tbl_add]; intros H.
  - cbn. split; [constructor|exact I].
  - destruct H as [Hk Hr].
    destruct (N.ltb_spec p k).
    + cbn [tsorted]. split; [|split; assumption].
      constructor; [exact H|].
      eapply Forall_impl; [|exact Hk]. cbn. intros; lia.
    + destruct (N.eqb_spec p k) as [->|Hne].
      * cbn [tsorted]. split; assumption.
      * cbn [tsorted]. split; [|now apply IH].
        apply tbl_add_lb; [exact Hk|lia].
Qed.

Lemma tbl_add_tin : forall p q t p' q',
  tsorted t -> (tin (tbl_add p q t) p' q' <-> (p' = p /\ q' = q) \/ tin t p' q').
Proof.
  unfold tin. induction t as [|[k s] r IH]; intros p' q' Hs; cbn [tbl_add].
  - cbn [assocN]. destruct (N.eqb_spec p' p) as [->|Hne].
    + split.
      * intros [s [E Hin]]. inversion E; subst. destruct Hin as [->|[]]. now left.
      * intros [[_ ->]|[s [E _]]]; [|discriminate]. exists [q]. split; [reflexivity|now left].
    + split.
      * intros [s [E _]]. discriminate.
      * intros [[E _]|[s [E _]]]; [contradiction|discriminate].
  - destruct Hs as [Hk Hr].
    destruct (N.ltb_spec p k).
    + cbn [assocN]. destruct (N.eqb_spec p' p) as [->|Hne].
      * assert (En : assocN p r = None) by (eapply assocN_lb; [exact Hk|lia]).
        destruct (N.eqb_spec p k); [lia|]. rewrite En. split.
        -- intros [s' [E Hin]]. inversion E; subst. destruct Hin as [->|[]]. now left.
        -- intros [[_ ->]|[s' [E _]]]; [|discriminate].
           exists [q]. split; [reflexivity|now left].
      * split.
        -- intros H'. now right.
        -- intros [[E _]|H']; [contradiction|exact H'].
    + destruct (N.eqb_spec p k) as [->|Hne].
      * cbn [assocN]. destruct (N.eqb_spec p' k) as [->|Hne'].
        -- split.
           ++ intros [s' [E Hin]]. inversion E; subst. apply pins_In in Hin.
              destruct Hin as [->|Hin]; [now left|]. right. exists s. now split.
           ++ intros [[_ ->]|[s' [E Hin]]].
              ** exists (pins q s). split; [reflexivity|]. apply pins_In. now left.
              ** inversion E; subst. exists (pins q s'). split; [reflexivity|].
                 apply pins_In. now right.
        -- split.
           ++ intros H'. now right.
           ++ intros [[E _]|H']; [contradiction|exact H'].
      * cbn [assocN]. destruct (N.eqb_spec p' k) as [->|Hne'].
        -- split.
           ++ intros H'. now right.
           ++ intros [[E _]|H']; [congruence|exact H'].
        -- apply IH. exact Hr.
Qed.

Lemma follow_table_gen : forall F t,
  tsorted t ->
  tsorted (fold_left (fun t pq => tbl_add (fst pq) (snd pq) t) F t) /\
  forall p q, tin (fold_left (fun t pq => tbl_add (fst pq) (snd pq) t) F t) p q <->
              In (p, q) F \/ tin t p q.
Proof.
  induction F as [|[a b] F IH]; intros t Hs; cbn [fold_left].
  - split; [exact Hs|]. intros p q. cbn. intuition.
  - destruct (IH (tbl_add a b t) (tbl_add_sorted a b t Hs)) as [IH1 IH2].
    split; [exact IH1|]. intros p q. rewrite IH2. cbn [fst snd].
    rewrite tbl_add_tin by exact Hs. cbn [In]. split.
    + intros [H|[[-> ->]|H]]; auto.
    + intros [[E|H]|H]; auto. inversion E; subst. auto.
Qed.

Lemma follow_table_tin : forall F p q, tin (follow_table F) p q <-> In (p, q) F.
Proof.
  intros F p q. unfold follow_table.
  destruct (follow_table_gen F [] I) as [_ H]. rewrite H.
  split; [|now left]. intros [H'|[s [E _]]]; [exact H'|discriminate].
Qed.

(** * [target] and [reach_from] as sets of positions *)

Section Reach.
  Variable labels : list inp.
  Variable F : list (N * N).
  Variable fw : list (N * list N).
  Variable inputs : list inp.
  Hypothesis fw_ok : forall p q, tin fw p q <-> In (p, q) F.

  Let tstep := fun (x : inp) (acc : list N) (p : N) =>
                 match nthN labels p with
                 | Some y => if inp_eqb y x
                             then match assocN p fw with
                                  | Some f => punion acc f
                                  | None => acc
                                  end
                             else acc
                 | None => acc
                 end.

  Lemma target_gen : forall x S acc q,
    In q (fold_left (tstep x) S acc) <->
    In q acc \/ exists p, In p S /\ nthN labels p = Some x /\ In (p, q) F.
  Proof.
    induction S as [|a S IH]; intros acc q; cbn [fold_left].
    - split; [now left|]. intros [H|[p [[] _]]]. exact H.
    - rewrite IH. unfold tstep.
      destruct (nthN labels a) as [y|] eqn:Ey.
      + destruct (inp_eqb y x) eqn:Eyx.
        * apply inp_eqb_eq in Eyx. subst y.
          destruct (assocN a fw) as [f|] eqn:Ef.
          -- rewrite punion_In. split.
             ++ intros [[H|H]|[p [Hp [Hl HF]]]].
                ** now left.
                ** right. exists a. split; [now left|]. split; [exact Ey|].
                   apply fw_ok. exists f. now split.
                ** right. exists p. split; [now right|]. now split.
             ++ intros [H|[p [[->|Hp] [Hl HF]]]].
                ** left. now left.
                ** left. right. apply fw_ok in HF. destruct HF as [s [E Hin]].
                   rewrite Ef in E. inversion E; subst. exact Hin.
                ** right. exists p. now repeat split.
          -- split.
             ++ intros [H|[p [Hp [Hl HF]]]]; [now left|].
                right. exists p. split; [now right|]. now split.
             ++ intros [H|[p [[->|Hp] [Hl HF]]]].
                ** now left.
                ** apply fw_ok in HF. destruct HF as [s [E _]]. rewrite Ef in E. discriminate.
                ** right. exists p. now repeat split.
        * split.
          -- intros [H|[p [Hp [Hl HF]]]]; [now left|].
             right. exists p. split; [now right|]. now split.
          -- intros [H|[p [[->|Hp] [Hl HF]]]].
             ++ now left.
             ++ rewrite Ey in Hl. inversion Hl; subst.
                assert (inp_eqb x x = true) by now apply inp_eqb_eq. congruence.
             ++ right. exists p. now repeat split.
      + split.
        * intros [H|[p [Hp [Hl HF]]]]; [now left|].
          right. exists p. split; [now right|]. now split.
        * intros [H|[p [[->|Hp] [Hl HF]]]].
          -- now left.
          -- congruence.
          -- right. exists p. now repeat split.
  Qed.

  Lemma target_In : forall S x q,
    In q (target labels fw S x) <->
    exists p, In p S /\ nthN labels p = Some x /\ In (p, q) F.
  Proof.
    intros S x q. unfold target. fold (tstep x). rewrite target_gen.
    split; [|now right]. intros [[]|H]. exact H.
  Qed.

  Lemma target_nil : forall x, target labels fw [] x = [].
  Proof. reflexivity. Qed.

  Lemma reach_from_nil : forall ids, reach_from labels fw inputs [] ids = [].
  Proof.
    induction ids as [|i ids IH]; cbn [reach_from]; [reflexivity|].
    destruct (nthN inputs i); [|reflexivity]. rewrite target_nil. exact IH.
  Qed.

  Definition lab_ok (p i : N) : Prop :=
    exists x, nthN labels p = Some x /\ nthN inputs i = Some x.

  (** A position word from the set [S] along [F]-edges, followed by [q]. *)
  Definition path_from (S : list N) (ps : list N) (q : N) : Prop :=
    match ps with
    | [] => In q S
    | a :: r => In a S /\ chain F a r /\ In (last r a, q) F
    end.

  Lemma reach_from_In : forall ids S q,
    In q (reach_from labels fw inputs S ids) <->
    exists ps, Forall2 lab_ok ps ids /\ path_from S ps q.
  Proof.
    induction ids as [|i ids IH]; intros S q; cbn [reach_from].
    - split.
      + intros H. exists []. split; [constructor|exact H].
      + intros [ps [H2 Hp]]. inversion H2; subst. exact Hp.
    - destruct (nthN inputs i) as [x|] eqn:Ei.
      + rewrite IH. split.
        * intros [ps [H2 Hp]]. destruct ps as [|b r]; cbn [path_from] in Hp.
          -- apply target_In in Hp. destruct Hp as [a [Ha [Hl HF]]].
             exists [a]. split.
             ++ constructor; [|exact H2]. exists x. now split.
             ++ cbn. now repeat split.
          -- destruct Hp as [Hb [Hc Hlast]].
             apply target_In in Hb. destruct Hb as [a [Ha [Hl HF]]].
             exists (a :: b :: r). split.
             ++ constructor; [|exact H2]. exists x. now split.
             ++ cbn [path_from chain]. rewrite last_cons. now repeat split.
        * intros [ps [H2 Hp]]. inversion H2 as [|a i' r ids' Hlab H2']; subst.
          destruct Hlab as [x' [Hl Hi]]. rewrite Ei in Hi. inversion Hi; subst x'.
          cbn [path_from] in Hp. destruct Hp as [Ha [Hc Hlast]].
          exists r. split; [exact H2'|].
          destruct r as [|b r]; cbn [path_from].
          -- cbn in Hlast. apply target_In. exists a. now repeat split.
          -- cbn [chain] in Hc. destruct Hc as [Hab Hc]. rewrite last_cons in Hlast.
             split; [|now split]. apply target_In. exists a. now repeat split.
      + split; [intros []|].
        intros [ps [H2 _]]. inversion H2 as [|a i' r ids' Hlab H2']; subst.
        destruct Hlab as [x' [_ Hi]]. congruence.
  Qed.
End Reach.

(** * More list facts: [find_set], [pop], [memN] *)

Lemma NoDup_snoc : forall {A} (l : list A) x, NoDup l -> ~ In x l -> NoDup (l ++ [x]).
Proof.
  induction l as [|a l IH]; cbn; intros x Hnd Hx.
  - constructor; [intros []|constructor].
  - inversion Hnd; subst. constructor.
    + rewrite in_app_iff. cbn. intuition.
    + apply IH; intuition.
Qed.

Lemma find_set_Some : forall S ids s, find_set S ids = Some s -> In (S, s) ids.
Proof.
  induction ids as [|[S' i] ids IH]; cbn [find_set]; intros s H; [discriminate|].
  destruct (listN_eqb S' S) eqn:E.
  - apply listN_eqb_eq in E. inversion H; subst. now left.
  - right. now apply IH.
Qed.

Lemma find_set_None : forall S ids, find_set S ids = None -> ~ In S (map fst ids).
Proof.
  induction ids as [|[S' i] ids IH]; cbn [find_set map fst In]; intros H; [intros []|].
  destruct (listN_eqb S' S) eqn:E; [discriminate|].
  intros [->|H']; [|now apply IH].
  assert (listN_eqb S S = true) by now apply listN_eqb_eq. congruence.
Qed.

Lemma remove_nth_split : forall {A} n (l : list A) x,
  nth_error l n = Some x -> exists l1 l2, l = l1 ++ x :: l2 /\ remove_nth n l = l1 ++ l2.
Proof.
  induction n as [|n IH]; intros [|a l] x H; cbn in H; try discriminate.
  - inversion H; subst. exists [], l. now split.
  - destruct (IH l x H) as [l1 [l2 [E1 E2]]].
    exists (a :: l1), l2. cbn. now rewrite <- E1, E2.
Qed.

Lemma pop_Some : forall {A} n (l : list A) x rest,
  pop n l = Some (x, rest) -> exists l1 l2, l = l1 ++ x :: l2 /\ rest = l1 ++ l2.
Proof.
  unfold pop. intros A n l x rest H.
  destruct (nth_error l n) as [y|] eqn:E.
  - inversion H; subst. now apply remove_nth_split.
  - destruct l as [|a l]; [discriminate|]. inversion H; subst. exists [], rest. now split.
Qed.

Lemma pop_None : forall {A} n (l : list A), pop n l = None -> l = [].
Proof.
  unfold pop. intros A n l H.
  destruct (nth_error l n); [discriminate|]. destruct l; [reflexivity|discriminate].
Qed.

Lemma memN_In : forall k l, memN k l = true <-> In k l.
Proof.
  intros k l. unfold memN. rewrite existsb_exists. split.
  - intros [x [Hin E]]. apply N.eqb_eq in E. now subst.
  - intros H. exists k. split; [exact H|apply N.eqb_refl].
Qed.

Lemma nthN_app_mid : forall {A} (pre : list A) x rest,
  nthN (pre ++ x :: rest) (N.of_nat (List.length pre)) = Some x.
Proof.
  intros. unfold nthN. rewrite Nnat.Nat2N.id, nth_error_app2 by lia.
  now rewrite Nat.sub_diag.
Qed.

(** * The loop invariant *)

Section LoopInv.
  Variable labels : list inp.
  Variable fw : list (N * list N).
  Variable inputs : list inp.
  Variable start : list N.

  Local Notation reach := (reach_from labels fw inputs).

  (** One step of [reach_from]. *)
  Definition sstep (S : list N) (i : N) : list N :=
    match nthN inputs i with Some x => target labels fw S x | None => [] end.

  Lemma reach_cons : forall S i w, reach S (i :: w) = reach (sstep S i) w.
  Proof.
    intros. unfold sstep. cbn [reach_from]. destruct (nthN inputs i); [reflexivity|].
    symmetry. apply reach_from_nil.
  Qed.

  Lemma reach_app : forall w S w', reach S (w ++ w') = reach (reach S w) w'.
  Proof.
    induction w as [|i w IH]; intros S w'; [reflexivity|].
    cbn [app]. rewrite !reach_cons. apply IH.
  Qed.

  Definition reachable (S : list N) : Prop :=
    exists w, reach start w = S /\ (S = [] -> w = []).

  Lemma reachable_step : forall S i, reachable S -> sstep S i <> [] -> reachable (sstep S i).
  Proof.
    intros S i [w [Hw _]] Hne. exists (w ++ [i]). split.
    - rewrite reach_app, Hw, reach_cons. reflexivity.
    - intros E. contradiction.
  Qed.

  Definition row_ok (ids : list (list N * N)) (S : list N) (row : list (N * N)) : Prop :=
    forall i, match assocN i row with
              | Some to => sstep S i <> [] /\ In (sstep S i, to) ids
              | None => sstep S i = []
              end.

  Lemma row_ok_mono : forall ids ids' S row, incl ids ids' -> row_ok ids S row -> row_ok ids' S row.
  Proof.
    intros ids ids' S row Hi H i. specialize (H i).
    destruct (assocN i row); [|exact H]. destruct H as [H1 H2]. split; [exact H1|now apply Hi].
  Qed.

  Record Inv (done : list N) (st : sst) : Prop := mkInv {
    inv_nd_fst : NoDup (map fst (s_ids st));
    inv_nd_snd : NoDup (map snd (s_ids st));
    inv_lt : forall S s, In (S, s) (s_ids st) -> s < s_next st;
    inv_nd_todo : NoDup (s_todo st);
    inv_todo : forall T, In T (s_todo st) <-> exists t, In (T, t) (s_ids st) /\ ~ In t done;
    inv_nd_trans : NoDup (map fst (s_trans st));
    inv_rows : forall s row, In (s, row) (s_trans st) ->
                 exists S, In (S, s) (s_ids st) /\ row_ok (s_ids st) S row /\ NoDup (map fst row);
    inv_reach : forall S s, In (S, s) (s_ids st) -> reachable S;
    inv_done : forall s, In s done -> In s (map snd (s_ids st))
  }.

  Lemma Inv_init : forall s0,
    Inv [] (mksst [(start, s0)] (N.succ s0) [] [start]).
  Proof.
    intros s0. constructor; cbn [s_ids s_next s_trans s_todo map fst snd].
    - constructor; [intros []|constructor].
    - constructor; [intros []|constructor].
    - intros S s [E|[]]. inversion E; subst. lia.
    - constructor; [intros []|constructor].
    - intros T. split.
      + intros [<-|[]]. exists s0. split; [now left|intros []].
      + intros [t [[E|[]] _]]. inversion E; subst. now left.
    - constructor.
    - intros s row [].
    - intros S s [E|[]]. inversion E; subst. exists []. split; [reflexivity|reflexivity].
    - intros s [].
  Qed.

  Lemma Inv_alloc : forall done st t,
    Inv done st -> reachable t -> ~ In t (map fst (s_ids st)) ->
    Inv done (mksst (s_ids st ++ [(t, s_next st)]) (N.succ (s_next st)) (s_trans st)
                    (s_todo st ++ [t])).
  Proof.
    intros done st t HI Hr Hnew.
    assert (Hfresh : ~ In (s_next st) (map snd (s_ids st))).
    { intros H. apply in_map_iff in H. destruct H as [[S s] [E Hin]]. cbn in E. subst s.
      apply (inv_lt _ _ HI) in Hin. lia. }
    constructor; cbn [s_ids s_next s_trans s_todo].
    - rewrite map_app. cbn [map fst]. apply NoDup_snoc; [apply (inv_nd_fst _ _ HI)|exact Hnew].
    - rewrite map_app. cbn [map snd]. apply NoDup_snoc; [apply (inv_nd_snd _ _ HI)|exact Hfresh].
    - intros S s H. apply in_app_iff in H. destruct H as [H|[E|[]]].
      + apply (inv_lt _ _ HI) in H. lia.
      + inversion E; subst. lia.
    - apply NoDup_snoc; [apply (inv_nd_todo _ _ HI)|].
      intros H. apply (inv_todo _ _ HI) in H. destruct H as [t' [Hin _]].
      apply Hnew. change t with (fst (t, t')). now apply in_map.
    - intros T. rewrite in_app_iff. split.
      + intros [H|[<-|[]]].
        * apply (inv_todo _ _ HI) in H. destruct H as [t' [Hin Hnd]].
          exists t'. split; [|exact Hnd]. apply in_app_iff. now left.
        * exists (s_next st). split; [apply in_app_iff; right; now left|].
          intros H. apply Hfresh. now apply (inv_done _ _ HI).
      + intros [t' [Hin Hnd]]. apply in_app_iff in Hin. destruct Hin as [Hin|[E|[]]].
        * left. apply (inv_todo _ _ HI). now exists t'.
        * inversion E; subst. right. now left.
    - apply (inv_nd_trans _ _ HI).
    - intros s row H. destruct (inv_rows _ _ HI s row H) as [S [H1 [H2 H3]]].
      exists S. split; [apply in_app_iff; now left|]. split; [|exact H3].
      eapply row_ok_mono; [|exact H2]. intros x Hx. apply in_app_iff. now left.
    - intros S s H. apply in_app_iff in H. destruct H as [H|[E|[]]].
      + eapply (inv_reach _ _ HI); eauto.
      + inversion E; subst. exact Hr.
    - intros s H. rewrite map_app, in_app_iff. left. now apply (inv_done _ _ HI).
  Qed.

  Lemma Inv_pop : forall done st l1 S l2 from,
    Inv done st -> s_todo st = l1 ++ S :: l2 -> In (S, from) (s_ids st) ->
    Inv (from :: done) (mksst (s_ids st) (s_next st) (s_trans st) (l1 ++ l2)).
  Proof.
    intros done st l1 S l2 from HI Et Hin.
    pose proof (inv_nd_todo _ _ HI) as Hnd. rewrite Et in Hnd.
    constructor; cbn [s_ids s_next s_trans s_todo]; try apply HI.
    - eapply NoDup_remove_1; eauto.
    - intros T. split.
      + intros H.
        assert (HT : In T (s_todo st)).
        { rewrite Et. apply in_app_iff in H. apply in_app_iff. cbn. intuition. }
        apply (inv_todo _ _ HI) in HT. destruct HT as [t [Ht Hnd']].
        exists t. split; [exact Ht|]. intros [<-|H']; [|contradiction].
        assert (T = S) by (eapply NoDup_snd_fun; [apply (inv_nd_snd _ _ HI)| |]; eauto).
        subst T. apply NoDup_remove_2 in Hnd. contradiction.
      + intros [t [Ht Hnd']].
        assert (HT : In T (s_todo st)).
        { apply (inv_todo _ _ HI). exists t. split; [exact Ht|]. intros H. apply Hnd'. now right. }
        rewrite Et in HT. apply in_app_iff in HT. apply in_app_iff.
        destruct HT as [HT|[<-|HT]]; [now left| |now right].
        exfalso. apply Hnd'. left.
        eapply NoDup_fst_fun; [apply (inv_nd_fst _ _ HI)| |]; eauto.
    - intros s [<-|H].
      + change from with (snd (S, from)). now apply in_map.
      + now apply (inv_done _ _ HI).
  Qed.

  Lemma Inv_row : forall st S from row,
    Inv (from :: map fst (s_trans st)) st ->
    ~ In from (map fst (s_trans st)) ->
    In (S, from) (s_ids st) -> row_ok (s_ids st) S row -> NoDup (map fst row) ->
    Inv (map fst (s_trans st ++ [(from, row)]))
        (mksst (s_ids st) (s_next st) (s_trans st ++ [(from, row)]) (s_todo st)).
  Proof.
    intros st S from row HI Hnew Hin Hrow Hnd.
    assert (Hd : forall t, In t (map fst (s_trans st ++ [(from, row)])) <->
                           In t (from :: map fst (s_trans st))).
    { intros t. rewrite map_app, in_app_iff. cbn. intuition. }
    constructor; cbn [s_ids s_next s_trans s_todo]; try apply HI.
    - intros T. rewrite (inv_todo _ _ HI). split; intros [t [H1 H2]]; exists t; (split; [exact H1|]);
        intros H; apply H2; now apply Hd.
    - rewrite map_app. cbn [map fst]. apply NoDup_snoc; [apply (inv_nd_trans _ _ HI)|exact Hnew].
    - intros s row' H. apply in_app_iff in H. destruct H as [H|[E|[]]].
      + now apply (inv_rows _ _ HI).
      + inversion E; subst. exists S. now repeat split.
    - intros s H. apply Hd in H. now apply (inv_done _ _ HI).
  Qed.

  (** ** The per-input loop *)

  (** The row built so far: correct below [id], no entry at or above [id]. *)
  Definition prow (ids : list (list N * N)) (S : list N) (id : N) (row : list (N * N)) : Prop :=
    (forall i, i < id -> match assocN i row with
                         | Some to => sstep S i <> [] /\ In (sstep S i, to) ids
                         | None => sstep S i = []
                         end) /\
    (forall i, In i (map fst row) -> i < id) /\
    NoDup (map fst row).

  Lemma prow_mono : forall ids ids' S id row,
    incl ids ids' -> prow ids S id row -> prow ids' S id row.
  Proof.
    intros ids ids' S id row Hi [H1 [H2 H3]]. split; [|split; assumption].
    intros i Hlt. specialize (H1 i Hlt). destruct (assocN i row); [|exact H1].
    destruct H1 as [H1 H1']. split; [exact H1|now apply Hi].
  Qed.

  Lemma prow_fresh : forall ids S id row, prow ids S id row -> assocN id row = None.
  Proof.
    intros ids S id row [_ [H2 _]]. apply assocN_None_iff. intros H. apply H2 in H. lia.
  Qed.

  Lemma prow_skip : forall ids S id row,
    prow ids S id row -> sstep S id = [] -> prow ids S (N.succ id) row.
  Proof.
    intros ids S id row H He. pose proof (prow_fresh _ _ _ _ H) as Hf.
    destruct H as [H1 [H2 H3]]. split; [|split; [|exact H3]].
    - intros i Hlt. destruct (N.eq_dec i id) as [->|Hne].
      + rewrite Hf. exact He.
      + apply H1. lia.
    - intros i Hi. apply H2 in Hi. lia.
  Qed.

  Lemma prow_push : forall ids S id row to,
    prow ids S id row -> sstep S id <> [] -> In (sstep S id, to) ids ->
    prow ids S (N.succ id) (row ++ [(id, to)]).
  Proof.
    intros ids S id row to H Hne Hin. pose proof (prow_fresh _ _ _ _ H) as Hf.
    destruct H as [H1 [H2 H3]]. split; [|split].
    - intros i Hlt. rewrite assocN_app. destruct (N.eq_dec i id) as [->|Hne'].
      + rewrite Hf. cbn [assocN]. rewrite N.eqb_refl. now split.
      + assert (Hlt' : i < id) by lia. specialize (H1 i Hlt').
        destruct (assocN i row); [exact H1|].
        cbn [assocN]. destruct (N.eqb_spec i id); [contradiction|exact H1].
    - intros i Hi. rewrite map_app, in_app_iff in Hi. destruct Hi as [Hi|[<-|[]]].
      + apply H2 in Hi. lia.
      + cbn. lia.
    - rewrite map_app. cbn [map fst]. apply NoDup_snoc; [exact H3|].
      intros Hi. apply H2 in Hi. lia.
  Qed.

  Lemma prow_final : forall ids S row,
    prow ids S (N.of_nat (List.length inputs)) row -> row_ok ids S row /\ NoDup (map fst row).
  Proof.
    intros ids S row [H1 [H2 H3]]. split; [|exact H3]. intros i.
    destruct (N.lt_ge_cases i (N.of_nat (List.length inputs))) as [Hlt|Hge].
    - now apply H1.
    - assert (E : assocN i row = None).
      { apply assocN_None_iff. intros H. apply H2 in H. lia. }
      rewrite E. unfold sstep, nthN.
      assert (En : nth_error inputs (N.to_nat i) = None) by (apply nth_error_None; lia).
      now rewrite En.
  Qed.

  Lemma process_spec : forall S done xs pre st row st1 row1,
    reachable S ->
    inputs = pre ++ xs ->
    Inv done st -> prow (s_ids st) S (N.of_nat (List.length pre)) row ->
    process labels fw S xs (N.of_nat (List.length pre)) st row = (st1, row1) ->
    Inv done st1 /\ s_trans st1 = s_trans st /\ incl (s_ids st) (s_ids st1) /\
    prow (s_ids st1) S (N.of_nat (List.length inputs)) row1.
  Proof.
    intros S done xs. induction xs as [|x xs IH]; intros pre st row st1 row1 HS Ei HI Hp H;
      cbn [process] in H.
    - inversion H; subst st1 row1. rewrite app_nil_r in Ei. subst pre.
      split; [exact HI|]. split; [reflexivity|]. split; [apply incl_refl|exact Hp].
    - assert (Eid : N.succ (N.of_nat (List.length pre)) = N.of_nat (List.length (pre ++ [x]))).
      { rewrite app_length. cbn. lia. }
      assert (Ei' : inputs = (pre ++ [x]) ++ xs) by (rewrite <- app_assoc; exact Ei).
      assert (Es : sstep S (N.of_nat (List.length pre)) = target labels fw S x).
      { unfold sstep. rewrite Ei. now rewrite nthN_app_mid. }
      rewrite Eid in H.
      destruct (target labels fw S x) as [|a t] eqn:Et.
      + eapply IH; eauto. rewrite <- Eid. now apply prow_skip.
      + assert (Hne : sstep S (N.of_nat (List.length pre)) <> []) by (rewrite Es; discriminate).
        destruct (find_set (a :: t) (s_ids st)) as [to|] eqn:Ef.
        * eapply IH; eauto. rewrite <- Eid. apply prow_push; [exact Hp|exact Hne|].
          rewrite Es. now apply find_set_Some.
        * apply find_set_None in Ef.
          assert (Hr : reachable (a :: t)).
          { rewrite <- Es. now apply reachable_step. }
          pose proof (Inv_alloc _ _ _ HI Hr Ef) as HI'.
          match type of H with process _ _ _ _ _ ?st' _ = _ => set (st2 := st') in * end.
          assert (Hincl : incl (s_ids st) (s_ids st2)).
          { intros y Hy. unfold st2. cbn [s_ids]. apply in_app_iff. now left. }
          assert (Hp' : prow (s_ids st2) S (N.of_nat (List.length (pre ++ [x])))
                             (row ++ [(N.of_nat (List.length pre), s_next st)])).
          { rewrite <- Eid. apply prow_push; [eapply prow_mono; eauto|exact Hne|].
            rewrite Es. unfold st2. cbn [s_ids]. apply in_app_iff. right. now left. }
          destruct (IH _ _ _ _ _ HS Ei' HI' Hp' H) as [R1 [R2 [R3 R4]]].
          split; [exact R1|]. split; [exact R2|]. split; [|exact R4].
          eapply incl_tran; eauto.
  Qed.

  (** ** The work-list loop *)

  Variable pick : nat -> list (list N) -> nat.

  Lemma loop_spec : forall fuel step st st',
    Inv (map fst (s_trans st)) st ->
    loop labels fw inputs pick fuel step st = Ok st' ->
    Inv (map fst (s_trans st')) st' /\ s_todo st' = [].
  Proof.
    induction fuel as [|fuel IH]; intros step st st' HI H; cbn [loop] in H; [discriminate|].
    destruct (pop (pick step (s_todo st)) (s_todo st)) as [[S rest]|] eqn:Ep.
    - destruct (find_set S (s_ids st)) as [from|] eqn:Ef; [|discriminate].
      destruct (process labels fw S inputs 0 _ []) as [st1 row] eqn:Epr.
      apply IH in H; [exact H|]. clear H IH.
      apply pop_Some in Ep. destruct Ep as [l1 [l2 [Et ->]]].
      apply find_set_Some in Ef.
      assert (Hnew : ~ In from (map fst (s_trans st))).
      { assert (HS : In S (s_todo st)) by (rewrite Et; apply in_app_iff; right; now left).
        apply (inv_todo _ _ HI) in HS. destruct HS as [s [Hs Hnd]].
        assert (s = from) by (eapply NoDup_fst_fun; [apply (inv_nd_fst _ _ HI)| |]; eauto).
        now subst s. }
      pose proof (Inv_pop _ _ _ _ _ _ HI Et Ef) as HI0.
      pose proof (inv_reach _ _ HI _ _ Ef) as HS.
      change 0 with (N.of_nat (List.length (@nil inp))) in Epr.
      eapply process_spec in Epr; [|exact HS|reflexivity|exact HI0|].
      + destruct Epr as [R1 [R2 [R3 R4]]]. cbn [s_trans s_ids] in R2, R3.
        apply prow_final in R4. destruct R4 as [R4 R5].
        rewrite <- R2 in R1, Hnew. cbn [s_trans].
        apply (Inv_row st1 S from row); auto.
      + split; [|split].
        * intros i Hlt. cbn in Hlt. lia.
        * intros i [].
        * constructor.
    - inversion H; subst st'. split; [exact HI|]. now apply pop_None in Ep.
  Qed.
End LoopInv.

(** * The automaton at exit *)

Section Final.
  Variable labels : list inp.
  Variable fw : list (N * list N).
  Variable inputs : list inp.
  Variable start : list N.
  Variable st : sst.
  Hypothesis HI : Inv labels fw inputs start (map fst (s_trans st)) st.
  Hypothesis Htodo : s_todo st = [].
  Variable d : dfa.
  Hypothesis Hd : d_trans d = s_trans st.

  Local Notation reach := (reach_from labels fw inputs).

  Lemma has_row : forall S s, In (S, s) (s_ids st) ->
    exists row, assocN s (s_trans st) = Some row /\
                row_ok labels fw inputs (s_ids st) S row /\ NoDup (map fst row).
  Proof.
    intros S s Hin.
    destruct (in_dec N.eq_dec s (map fst (s_trans st))) as [Hs|Hs].
    - apply in_map_iff in Hs. destruct Hs as [[s' row] [E Hrow]]. cbn in E. subst s'.
      exists row. split; [apply assocN_In; [apply (inv_nd_trans _ _ _ _ _ _ HI)|exact Hrow]|].
      destruct (inv_rows _ _ _ _ _ _ HI _ _ Hrow) as [S' [H1 [H2 H3]]].
      assert (S' = S) by (eapply NoDup_snd_fun; [apply (inv_nd_snd _ _ _ _ _ _ HI)| |]; eauto).
      subst S'. now split.
    - exfalso. assert (HT : In S (s_todo st)).
      { apply (inv_todo _ _ _ _ _ _ HI). now exists s. }
      rewrite Htodo in HT. exact HT.
  Qed.

  Lemma run_spec : forall w S s, In (S, s) (s_ids st) ->
    match run d s w with
    | Some s' => In (reach S w, s') (s_ids st)
    | None => reach S w = []
    end.
  Proof.
    induction w as [|i w IH]; intros S s Hin; cbn [run].
    - exact Hin.
    - rewrite reach_cons. unfold step. rewrite Hd.
      destruct (has_row S s Hin) as [row [E [Hrow _]]]. rewrite E.
      specialize (Hrow i). destruct (assocN i row) as [to|].
      + destruct Hrow as [_ Hto]. now apply IH.
      + rewrite Hrow. apply reach_from_nil.
  Qed.

  Lemma rows_states : forall s, In s (map fst (s_trans st)) <-> In s (map snd (s_ids st)).
  Proof.
    intros s. split.
    - now apply (inv_done _ _ _ _ _ _ HI).
    - intros H. apply in_map_iff in H. destruct H as [[S s'] [E Hin]]. cbn in E. subst s'.
      destruct (has_row S s Hin) as [row [E _]]. apply assocN_Some_In in E.
      change s with (fst (s, row)). now apply in_map.
  Qed.
End Final.

Lemma dfa_from_regex_inv : forall pick fuel submap r d states labels,
  dfa_from_regex pick fuel submap r = Ok (d, states) ->
  omap (from_input submap) (r_inputs r) = Ok labels ->
  exists st s0,
    Inv labels (regex_follow r) (intern_all labels) (regex_first r) (map fst (s_trans st)) st /\
    s_todo st = [] /\ states = s_ids st /\ In (regex_first r, s0) (s_ids st) /\
    d = mkdfa s0 (s_trans st)
              (flat_map (fun si => if memN (r_end r) (fst si) then [snd si] else []) (s_ids st))
              (intern_all labels).
Proof.
  intros pick fuel submap r d states labels H Hl.
  unfold dfa_from_regex in H. rewrite Hl in H. cbn [obind] in H.
  destruct (loop labels (regex_follow r) (intern_all labels) pick fuel 0 _) as [st| | |] eqn:El;
    cbn [obind] in H; try discriminate.
  destruct (find_set (regex_first r) (s_ids st)) as [s0|] eqn:Ef; [|discriminate].
  inversion H; subst d states. clear H.
  apply loop_spec with (start := regex_first r) in El;
    [|exact (Inv_init _ _ _ _ first_state_id)].
  destruct El as [HI Ht].
  exists st, s0. split; [exact HI|]. split; [exact Ht|]. split; [reflexivity|].
  split; [now apply find_set_Some|reflexivity].
Qed.

Theorem subset_run : subset_run_statement.
Proof.
  intros pick fuel submap r d states labels H Hl reach.
  destruct (dfa_from_regex_inv _ _ _ _ _ _ _ H Hl) as [st [s0 [HI [Ht [-> [Hs0 Ed]]]]]].
  assert (Hdt : d_trans d = s_trans st) by (subst d; reflexivity).
  assert (Hds : d_start d = s0) by (subst d; reflexivity).
  assert (Hrun : forall ids, match run d (d_start d) ids with
                             | Some s => In (reach ids, s) (s_ids st)
                             | None => reach ids = []
                             end).
  { intros ids. rewrite Hds. unfold reach.
    eapply run_spec; eauto. }
  split; [subst d; reflexivity|].
  split; [rewrite Hdt; apply (inv_nd_trans _ _ _ _ _ _ HI)|].
  split.
  { rewrite Hdt. apply Forall_forall. intros [s row] Hin.
    destruct (inv_rows _ _ _ _ _ _ HI _ _ Hin) as [S [_ [_ Hnd]]]. exact Hnd. }
  split; [apply (inv_nd_fst _ _ _ _ _ _ HI)|].
  split; [apply (inv_nd_snd _ _ _ _ _ _ HI)|].
  split; [exact Hrun|].
  split.
  { intros ids. unfold accepts, accepts_from, is_accepting. specialize (Hrun ids).
    destruct (run d (d_start d) ids) as [t|].
    - rewrite memN_In. subst d. cbn [d_accepting]. rewrite in_flat_map. split.
      + intros [[S' t'] [Hin Hif]]. cbn [fst snd] in Hif.
        destruct (memN (r_end r) S') eqn:Em; [|destruct Hif].
        destruct Hif as [<-|[]]. apply memN_In in Em.
        assert (S' = reach ids)
          by (eapply NoDup_snd_fun; [apply (inv_nd_snd _ _ _ _ _ _ HI)| |]; eauto).
        now subst S'.
      + intros He. exists (reach ids, t). split; [exact Hrun|]. cbn [fst snd].
        apply memN_In in He. rewrite He. now left.
    - rewrite Hrun. split; [discriminate|intros []]. }
  split.
  { intros S s Hin. destruct (inv_reach _ _ _ _ _ _ HI _ _ Hin) as [w [Hw Hnil]].
    exists w. specialize (Hrun w). fold reach in Hw. rewrite Hw in Hrun.
    destruct (run d (d_start d) w) as [s'|] eqn:Er.
    - f_equal. eapply NoDup_fst_fun; [apply (inv_nd_fst _ _ _ _ _ _ HI)| |]; eauto.
    - rewrite (Hnil Hrun) in Er. cbn in Er. discriminate. }
  { intros s. rewrite Hdt. eapply rows_states; eauto. }
Qed.

Theorem subset_language : subset_language_statement.
Proof.
  intros pick fuel submap r d states labels H Hl ids.
  destruct (subset_run pick fuel submap r d states labels H Hl)
    as [Hin [_ [_ [_ [_ [_ [Hacc _]]]]]]].
  rewrite Hacc, Hin. unfold regex_follow.
  rewrite (reach_from_In labels (followpos (r_tree r)) (follow_table (followpos (r_tree r)))
             (intern_all labels) (follow_table_tin _)).
  reflexivity.
Qed.

Print Assumptions subset_run.
Print Assumptions subset_language.
