(** C08, spaces inside a word: a grammar in which some word of the expansion contains two
    space-separated literals ([Mistakes.subword_spaces]) is rejected with [SubwordSpaces] by the
    model of [from_grammar] (completeness of [check_subword_spaces] with respect to the
    specification; possible since the repair of finding F1).

    Plan: (A) the specification's verdict on the fuel-bounded expansion implies an inductive
    judgement that follows references through chosen plain definitions; (B) fuel-free
    presentation of the model's walk ([spacesR], [headR], [tailR], [adjR]) with its recursive
    equations; (C) the walk of an expression with the resolved table errs iff the walk of the
    resolved expression does; (D) the inductive judgement implies that the walk errs. *)
From CG Require Import Base.Prelude Model.Ast Model.Check Spec.Choice Spec.Mistakes.
From CG Require Import Proofs.CheckChoice Proofs.CheckMistakes Proofs.CheckLemmas Proofs.CheckWarnings.
From CG Require Import Proofs.CheckCycle Proofs.CheckTotal Proofs.CheckFront Proofs.CheckCycleSpec.
From CG Require Import Proofs.CheckSpans Proofs.CheckProvenance Proofs.CheckResolve Proofs.CheckOrder.
From CG Require Import Proofs.CheckUndefined.

Lemma last_opt_cons x l :
  last_opt (x :: l) = match last_opt l with Some c => Some c | None => Some x end.
Proof. unfold last_opt. cbn [rev]. destruct (rev l); reflexivity. Qed.

Lemma last_opt_map (h : expr -> expr) l : last_opt (map h l) = option_map h (last_opt l).
Proof. unfold last_opt. rewrite <- map_rev. destruct (rev l); reflexivity. Qed.

(** * (A) The specification, following references *)
Section SpecSide.
  Variable g : grammar.
  Variable sh : shell.

  Inductive lit_head : expr -> Prop :=
  | lh_term t d l s : lit_head (Terminal t d l s)
  | lh_seq c r s : lit_head c -> lit_head (Sequence (c :: r) s)
  | lh_sub c l s : lit_head c -> lit_head (Subword c l s)
  | lh_dd c d s : lit_head c -> lit_head (DistDescr c d s)
  | lh_ref n l s rhs : plain_chosen g sh n = Some rhs -> lit_head rhs -> lit_head (NontermRef n l s).

  Inductive lit_tail : expr -> Prop :=
  | lt_term t d l s : lit_tail (Terminal t d l s)
  | lt_seq cs c s : last_opt cs = Some c -> lit_tail c -> lit_tail (Sequence cs s)
  | lt_sub c l s : lit_tail c -> lit_tail (Subword c l s)
  | lt_dd c d s : lit_tail c -> lit_tail (DistDescr c d s)
  | lt_ref n l s rhs : plain_chosen g sh n = Some rhs -> lit_tail rhs -> lit_tail (NontermRef n l s).

  Inductive adj : list expr -> Prop :=
  | adj_here a b r : lit_tail a -> lit_head b -> adj (a :: b :: r)
  | adj_next a r : adj r -> adj (a :: r).

  (** [sp e j]: inside a word, [e] contains a space-separated sequence with two adjacent
      literals ([j]: [e] is the juxtaposition at the root of the word) *)
  Inductive sp : expr -> bool -> Prop :=
  | sp_seq_child cs s j c : In c cs -> sp c false -> sp (Sequence cs s) j
  | sp_seq_adj cs s : adj cs -> sp (Sequence cs s) false
  | sp_alt cs s j c : In c cs -> sp c false -> sp (Alternative cs s) j
  | sp_fb cs s j c : In c cs -> sp c false -> sp (Fallback cs s) j
  | sp_opt c s j : sp c false -> sp (Optional c s) j
  | sp_many c s j : sp c false -> sp (Many1 c s) j
  | sp_dd c d s j : sp c false -> sp (DistDescr c d s) j
  | sp_sub c l s j : sp c true -> sp (Subword c l s) j
  | sp_ref n l s j rhs : plain_chosen g sh n = Some rhs -> sp rhs j -> sp (NontermRef n l s) j.

  (** [top e]: some word of the expansion of [e] contains such a sequence *)
  Inductive top : expr -> Prop :=
  | top_sub c l s : sp c true -> top (Subword c l s)
  | top_opt c s : top c -> top (Optional c s)
  | top_many c s : top c -> top (Many1 c s)
  | top_dd c d s : top c -> top (DistDescr c d s)
  | top_seq cs s c : In c cs -> top c -> top (Sequence cs s)
  | top_alt cs s c : In c cs -> top c -> top (Alternative cs s)
  | top_fb cs s c : In c cs -> top c -> top (Fallback cs s)
  | top_ref n l s rhs : plain_chosen g sh n = Some rhs -> top rhs -> top (NontermRef n l s).

  (** equations of [expand], for every fuel *)
  Lemma expand_leaf k e :
    match e with Terminal _ _ _ _ | Command _ _ _ _ => True | _ => False end ->
    expand g sh k e = e.
  Proof. destruct k; [reflexivity|]. destruct e; intro H; try destruct H; reflexivity. Qed.

  Lemma expand_ref k n l s :
    expand g sh k (NontermRef n l s) =
    match k with
    | O => NontermRef n l s
    | S k' => match plain_chosen g sh n with
              | Some rhs => expand g sh k' rhs
              | None => NontermRef n l s
              end
    end.
  Proof. destruct k; reflexivity. Qed.

  Lemma expand_seq k cs s : expand g sh k (Sequence cs s) = Sequence (map (expand g sh k) cs) s.
  Proof.
    destruct k; [|reflexivity]. change (expand g sh 0) with (fun e : expr => e).
    rewrite map_id. reflexivity.
  Qed.
  Lemma expand_alt k cs s : expand g sh k (Alternative cs s) = Alternative (map (expand g sh k) cs) s.
  Proof.
    destruct k; [|reflexivity]. change (expand g sh 0) with (fun e : expr => e).
    rewrite map_id. reflexivity.
  Qed.
  Lemma expand_fb k cs s : expand g sh k (Fallback cs s) = Fallback (map (expand g sh k) cs) s.
  Proof.
    destruct k; [|reflexivity]. change (expand g sh 0) with (fun e : expr => e).
    rewrite map_id. reflexivity.
  Qed.
  Lemma expand_opt k c s : expand g sh k (Optional c s) = Optional (expand g sh k c) s.
  Proof. destruct k; reflexivity. Qed.
  Lemma expand_many k c s : expand g sh k (Many1 c s) = Many1 (expand g sh k c) s.
  Proof. destruct k; reflexivity. Qed.
  Lemma expand_dd k c d s : expand g sh k (DistDescr c d s) = DistDescr (expand g sh k c) d s.
  Proof. destruct k; reflexivity. Qed.
  Lemma expand_sub k c l s : expand g sh k (Subword c l s) = Subword (expand g sh k c) l s.
  Proof. destruct k; reflexivity. Qed.

  Lemma tail_leaf_seq cs s :
    tail_leaf (Sequence cs s)
    = match last_opt cs with Some c => tail_leaf c | None => Sequence cs s end.
  Proof.
    cbn [tail_leaf]. generalize (Sequence cs s) as e0.
    induction cs as [|x l IH]; intro e0; [reflexivity|].
    destruct l as [|y l']; [reflexivity|].
    rewrite last_opt_cons. specialize (IH e0). rewrite last_opt_cons in *.
    destruct (last_opt l'); exact IH.
  Qed.

  Lemma spec_head_gen k
        (IHk : forall k', k = S k' -> forall e, is_literal (head_leaf (expand g sh k' e)) = true -> lit_head e) :
    forall e, is_literal (head_leaf (expand g sh k e)) = true -> lit_head e.
  Proof.
    induction e using expr_ind'; intro Hh.
    - constructor.
    - rewrite expand_ref in Hh. destruct k as [|k']; [discriminate|].
      destruct (plain_chosen g sh n) as [rhs|] eqn:E; [|discriminate].
      eapply lh_ref; [exact E|]. eapply IHk; [reflexivity|exact Hh].
    - rewrite expand_leaf in Hh by exact I. discriminate.
    - rewrite expand_seq in Hh. destruct cs as [|c r]; [discriminate|].
      inversion H; subst. constructor. apply H2. exact Hh.
    - rewrite expand_alt in Hh. discriminate.
    - rewrite expand_opt in Hh. discriminate.
    - rewrite expand_many in Hh. discriminate.
    - rewrite expand_dd in Hh. constructor. apply IHe. exact Hh.
    - rewrite expand_fb in Hh. discriminate.
    - rewrite expand_sub in Hh. constructor. apply IHe. exact Hh.
  Qed.

  Lemma spec_head k : forall e, is_literal (head_leaf (expand g sh k e)) = true -> lit_head e.
  Proof.
    induction k as [|k IH]; apply spec_head_gen; intros k' Hk; [discriminate|].
    inversion Hk; subst. exact IH.
  Qed.

  Lemma spec_tail_gen k
        (IHk : forall k', k = S k' -> forall e, is_literal (tail_leaf (expand g sh k' e)) = true -> lit_tail e) :
    forall e, is_literal (tail_leaf (expand g sh k e)) = true -> lit_tail e.
  Proof.
    induction e using expr_ind'; intro Hh.
    - constructor.
    - rewrite expand_ref in Hh. destruct k as [|k']; [discriminate|].
      destruct (plain_chosen g sh n) as [rhs|] eqn:E; [|discriminate].
      eapply lt_ref; [exact E|]. eapply IHk; [reflexivity|exact Hh].
    - rewrite expand_leaf in Hh by exact I. discriminate.
    - rewrite expand_seq, tail_leaf_seq, last_opt_map in Hh.
      destruct (last_opt cs) as [c|] eqn:El; cbn [option_map] in Hh; [|discriminate].
      eapply lt_seq; [exact El|]. apply last_opt_In in El. rewrite Forall_forall in H.
      apply (H c El). exact Hh.
    - rewrite expand_alt in Hh. discriminate.
    - rewrite expand_opt in Hh. discriminate.
    - rewrite expand_many in Hh. discriminate.
    - rewrite expand_dd in Hh. constructor. apply IHe. exact Hh.
    - rewrite expand_fb in Hh. discriminate.
    - rewrite expand_sub in Hh. constructor. apply IHe. exact Hh.
  Qed.

  Lemma spec_tail k : forall e, is_literal (tail_leaf (expand g sh k e)) = true -> lit_tail e.
  Proof.
    induction k as [|k IH]; apply spec_tail_gen; intros k' Hk; [discriminate|].
    inversion Hk; subst. exact IH.
  Qed.

  Lemma spec_adj k cs : adjacent_literals (map (expand g sh k) cs) = true -> adj cs.
  Proof.
    induction cs as [|a r IH]; [discriminate|]. destruct r as [|b r']; [discriminate|].
    cbn [map adjacent_literals]. intro H. apply orb_true_iff in H. destruct H as [H|H].
    - apply andb_true_iff in H. destruct H as [Ha Hb]. apply adj_here.
      + eapply spec_tail; exact Ha.
      + eapply spec_head; exact Hb.
    - apply adj_next. apply IH. exact H.
  Qed.

  Lemma existsb_map_In {A} (P : expr -> bool) (h : A -> expr) l :
    existsb P (map h l) = true -> exists c, In c l /\ P (h c) = true.
  Proof.
    intro H. apply existsb_exists in H. destruct H as [x [Hx Hp]]. apply in_map_iff in Hx.
    destruct Hx as [c [Hc Hin]]. subst x. eauto.
  Qed.

  Lemma spec_sp_gen k
        (IHk : forall k', k = S k' -> forall e j, spaced (expand g sh k' e) j = true -> sp e j) :
    forall e j, spaced (expand g sh k e) j = true -> sp e j.
  Proof.
    induction e using expr_ind'; intros j Hh.
    - rewrite expand_leaf in Hh by exact I. discriminate.
    - rewrite expand_ref in Hh. destruct k as [|k']; [discriminate|].
      destruct (plain_chosen g sh n) as [rhs|] eqn:E; [|discriminate].
      eapply sp_ref; [exact E|]. eapply IHk; [reflexivity|exact Hh].
    - rewrite expand_leaf in Hh by exact I. discriminate.
    - rewrite expand_seq in Hh. cbn [spaced] in Hh. apply orb_true_iff in Hh. destruct Hh as [Hh|Hh].
      + apply existsb_map_In in Hh. destruct Hh as [c [Hc Hs]]. rewrite Forall_forall in H.
        eapply sp_seq_child; [exact Hc|]. apply (H c Hc). exact Hs.
      + apply andb_true_iff in Hh. destruct Hh as [Hj Ha]. destruct j; [discriminate|].
        apply sp_seq_adj. eapply spec_adj. exact Ha.
    - rewrite expand_alt in Hh. cbn [spaced] in Hh. apply existsb_map_In in Hh.
      destruct Hh as [c [Hc Hs]]. rewrite Forall_forall in H.
      eapply sp_alt; [exact Hc|]. apply (H c Hc). exact Hs.
    - rewrite expand_opt in Hh. apply sp_opt. apply IHe. exact Hh.
    - rewrite expand_many in Hh. apply sp_many. apply IHe. exact Hh.
    - rewrite expand_dd in Hh. apply sp_dd. apply IHe. exact Hh.
    - rewrite expand_fb in Hh. cbn [spaced] in Hh. apply existsb_map_In in Hh.
      destruct Hh as [c [Hc Hs]]. rewrite Forall_forall in H.
      eapply sp_fb; [exact Hc|]. apply (H c Hc). exact Hs.
    - rewrite expand_sub in Hh. apply sp_sub. apply IHe. exact Hh.
  Qed.

  Lemma spec_sp k : forall e j, spaced (expand g sh k e) j = true -> sp e j.
  Proof.
    induction k as [|k IH]; apply spec_sp_gen; intros k' Hk; [discriminate|].
    inversion Hk; subst. exact IH.
  Qed.

  Lemma in_words_map k (P : expr -> Prop) cs w :
    Forall (fun c => In w (words_of (expand g sh k c)) -> P c) cs ->
    In w (flat_map words_of (map (expand g sh k) cs)) -> exists c, In c cs /\ P c.
  Proof.
    intros HF H. apply in_flat_map in H. destruct H as [x [Hx Hw]]. apply in_map_iff in Hx.
    destruct Hx as [c [Hc Hin]]. subst x. rewrite Forall_forall in HF. eauto.
  Qed.

  Lemma spec_top_gen k w (Hw : spaced w true = true)
        (IHk : forall k', k = S k' -> forall e, In w (words_of (expand g sh k' e)) -> top e) :
    forall e, In w (words_of (expand g sh k e)) -> top e.
  Proof.
    induction e using expr_ind'; intro Hh.
    - rewrite expand_leaf in Hh by exact I. destruct Hh.
    - rewrite expand_ref in Hh. destruct k as [|k']; [destruct Hh|].
      destruct (plain_chosen g sh n) as [rhs|] eqn:E; [|destruct Hh].
      eapply top_ref; [exact E|]. eapply IHk; [reflexivity|exact Hh].
    - rewrite expand_leaf in Hh by exact I. destruct Hh.
    - rewrite expand_seq in Hh. cbn [words_of] in Hh.
      destruct (in_words_map k top cs w H Hh) as [c [Hc Ht]]. eapply top_seq; eauto.
    - rewrite expand_alt in Hh. cbn [words_of] in Hh.
      destruct (in_words_map k top cs w H Hh) as [c [Hc Ht]]. eapply top_alt; eauto.
    - rewrite expand_opt in Hh. apply top_opt. apply IHe. exact Hh.
    - rewrite expand_many in Hh. apply top_many. apply IHe. exact Hh.
    - rewrite expand_dd in Hh. apply top_dd. apply IHe. exact Hh.
    - rewrite expand_fb in Hh. cbn [words_of] in Hh.
      destruct (in_words_map k top cs w H Hh) as [c [Hc Ht]]. eapply top_fb; eauto.
    - rewrite expand_sub in Hh. cbn [words_of] in Hh. destruct Hh as [Hh|[]]. subst w.
      apply top_sub. eapply spec_sp. exact Hw.
  Qed.

  Lemma spec_top k w : spaced w true = true -> forall e, In w (words_of (expand g sh k e)) -> top e.
  Proof.
    intro Hw. induction k as [|k IH]; apply spec_top_gen; try exact Hw; intros k' Hk; [discriminate|].
    inversion Hk; subst. exact IH.
  Qed.

  Theorem subword_spaces_top :
    subword_spaces g sh = true -> exists e, In e (call_exprs g) /\ top e.
  Proof.
    unfold subword_spaces. intro H. apply existsb_exists in H. destruct H as [e [He H]].
    apply existsb_exists in H. destruct H as [w [Hw Hs]]. exists e. split; [exact He|].
    eapply spec_top; eauto.
  Qed.
End SpecSide.

(** every word of the source is a juxtaposition (what the parser builds: [Subword] over a
    [Sequence] of at least two factors) *)
Fixpoint word_roots_ok (e : expr) : bool :=
  match e with
  | Terminal _ _ _ _ | NontermRef _ _ _ | Command _ _ _ _ => true
  | Subword c _ _ => match c with Sequence _ _ => true | _ => false end && word_roots_ok c
  | Optional c _ | Many1 c _ | DistDescr c _ _ => word_roots_ok c
  | Sequence cs _ | Alternative cs _ | Fallback cs _ => forallb word_roots_ok cs
  end.

Definition grammar_word_roots_ok (g : grammar) : bool :=
  forallb (fun st => word_roots_ok (stmt_expr st)) g.

Definition is_seq (e : expr) : Prop := match e with Sequence _ _ => True | _ => False end.

(** * (B) The walk without fuel *)
Definition is_lit (x : res expr) : Prop := exists t d l s, x = Ok (Terminal t d l s).
Definition isErr {A} (x : res A) : Prop := exists e, x = Err e.

Lemma sp_all_isErr rec cs :
  Forall (fun c => fine (rec c)) cs -> (exists c, In c cs /\ isErr (rec c)) -> isErr (sp_all rec cs).
Proof.
  induction 1 as [|x l Hx Hl IH]; intros [c [Hc He]]; [destruct Hc|]. cbn [sp_all].
  destruct (rec x) as [[]|e|s|] eqn:E; cbn [obind]; try (destruct Hx; fail).
  - apply IH. destruct Hc as [Hc|Hc]; [|eauto]. subst c. destruct He as [e He]. congruence.
  - eexists; reflexivity.
Qed.

Lemma sp_all_isErr_inv rec cs : isErr (sp_all rec cs) -> exists c, In c cs /\ isErr (rec c).
Proof.
  induction cs as [|x l IH]; intros [e H]; [discriminate|]. cbn [sp_all] in H.
  destruct (rec x) as [[]|e'|s|] eqn:E; cbn [obind] in H; try discriminate.
  - destruct IH as [c [Hc He]]; [eexists; exact H|]. exists c. split; [right; exact Hc|exact He].
  - exists x. split; [left; reflexivity|eexists; exact E].
Qed.

Lemma sp_all_fine_cases rec cs :
  Forall (fun c => fine (rec c)) cs -> sp_all rec cs = Ok tt \/ isErr (sp_all rec cs).
Proof.
  intro H. pose proof (sp_all_fine rec cs H) as Hf.
  destruct (sp_all rec cs) as [[]|e|s|]; try destruct Hf; [left; reflexivity|right; eexists; reflexivity].
Qed.

Section Fuelless.
  Variable T : list (string * expr).
  Variable bound : nat.
  Hypothesis t_dd : table_dd_free T.
  Hypothesis t_closed : forall n rhs, assoc n T = Some rhs -> closed (map fst T) rhs.
  Hypothesis t_size : forall n rhs, assoc n T = Some rhs -> (expr_size rhs <= bound)%nat.

  Definition okfol (fol : option (list (string * expr))) : Prop := fol = None \/ fol = Some T.

  Definition fuelR (e : expr) : nat := (expr_size e + bound)%nat.
  Definition headR fol e := expr_head fol (fuelR e) e.
  Definition tailR fol e := expr_tail fol (fuelR e) e.
  Definition spacesR e tr w j := spaces T (fuelR e) e tr w j.

  Fixpoint adjR fol (cs : list expr) : res (option (span * span)) :=
    match cs with
    | a :: ((b :: _) as r) =>
        do ta <- tailR fol a;
        do hb <- headR fol b;
        match ta, hb with
        | Terminal _ _ _ lsp, Terminal _ _ _ rsp => Ok (Some (lsp, rsp))
        | _, _ => adjR fol r
        end
    | _ => Ok None
    end.

  (** enough fuel *)
  Lemma head_ok fol e f : okfol fol -> (f >= fuelR e)%nat -> is_okr (expr_head fol f e).
  Proof.
    intros [Hf|Hf] Hle; subst fol.
    - apply (expr_head_ok None O (fun _ => True)); [intros n rhs f0 _ Hn; discriminate|auto|].
      unfold fuelR in Hle. lia.
    - apply (expr_head_ok (Some T) bound (fun _ => True)); [|auto|exact Hle].
      intros n rhs f0 _ Hn Hf0. cbn in Hn. apply (head_ok_closed T); [eapply t_closed; eauto|].
      pose proof (t_size _ _ Hn). lia.
  Qed.

  Lemma tail_ok fol e f : okfol fol -> (f >= fuelR e)%nat -> is_okr (expr_tail fol f e).
  Proof.
    intros [Hf|Hf] Hle; subst fol.
    - apply (expr_tail_ok None O (fun _ => True)); [intros n rhs f0 _ Hn; discriminate|auto|].
      unfold fuelR in Hle. lia.
    - apply (expr_tail_ok (Some T) bound (fun _ => True)); [|auto|exact Hle].
      intros n rhs f0 _ Hn Hf0. cbn in Hn. apply (tail_ok_closed T); [eapply t_closed; eauto|].
      pose proof (t_size _ _ Hn). lia.
  Qed.

  Lemma okr_not_oof {A} (x : res A) : is_okr x -> x <> OutOfFuel.
  Proof. intros [a H]. congruence. Qed.

  Lemma head_agree fol f1 f2 e :
    is_okr (expr_head fol f1 e) -> is_okr (expr_head fol f2 e) -> expr_head fol f1 e = expr_head fol f2 e.
  Proof.
    intros H1 H2. destruct (Nat.le_ge_cases f1 f2) as [Hle|Hle].
    - symmetry. eapply expr_head_mono; [reflexivity|apply okr_not_oof; exact H1|exact Hle].
    - eapply expr_head_mono; [reflexivity|apply okr_not_oof; exact H2|exact Hle].
  Qed.

  Lemma tail_agree fol f1 f2 e :
    is_okr (expr_tail fol f1 e) -> is_okr (expr_tail fol f2 e) -> expr_tail fol f1 e = expr_tail fol f2 e.
  Proof.
    intros H1 H2. destruct (Nat.le_ge_cases f1 f2) as [Hle|Hle].
    - symmetry. eapply expr_tail_mono; [reflexivity|apply okr_not_oof; exact H1|exact Hle].
    - eapply expr_tail_mono; [reflexivity|apply okr_not_oof; exact H2|exact Hle].
  Qed.

  Lemma head_stable fol e f : okfol fol -> (f >= fuelR e)%nat -> expr_head fol f e = headR fol e.
  Proof.
    intros Ho Hle. apply head_agree; apply head_ok; try exact Ho; [exact Hle|apply Nat.le_refl].
  Qed.

  Lemma tail_stable fol e f : okfol fol -> (f >= fuelR e)%nat -> expr_tail fol f e = tailR fol e.
  Proof.
    intros Ho Hle. apply tail_agree; apply tail_ok; try exact Ho; [exact Hle|apply Nat.le_refl].
  Qed.

  Lemma head_stable_closed e f :
    closed (map fst T) e -> (f >= expr_size e)%nat -> expr_head (Some T) f e = headR (Some T) e.
  Proof.
    intros Hc Hle. apply head_agree; [apply head_ok_closed; assumption|].
    apply head_ok; [right; reflexivity|apply Nat.le_refl].
  Qed.

  Lemma tail_stable_closed e f :
    closed (map fst T) e -> (f >= expr_size e)%nat -> expr_tail (Some T) f e = tailR (Some T) e.
  Proof.
    intros Hc Hle. apply tail_agree; [apply tail_ok_closed; assumption|].
    apply tail_ok; [right; reflexivity|apply Nat.le_refl].
  Qed.

  Lemma headR_okr fol e : okfol fol -> is_okr (headR fol e).
  Proof. intro H. apply head_ok; [exact H|apply Nat.le_refl]. Qed.
  Lemma tailR_okr fol e : okfol fol -> is_okr (tailR fol e).
  Proof. intro H. apply tail_ok; [exact H|apply Nat.le_refl]. Qed.

  Lemma followed_closed fol n rhs : okfol fol -> followed fol n = Some rhs ->
    closed (map fst T) rhs /\ (expr_size rhs <= bound)%nat /\ fol = Some T.
  Proof.
    intros [H|H] Hn; subst fol; [discriminate|]. cbn in Hn.
    split; [eapply t_closed; eauto|]. split; [eapply t_size; eauto|reflexivity].
  Qed.

  Lemma headR_eqn fol e : okfol fol ->
    headR fol e =
    match e with
    | NontermRef n _ _ => match followed fol n with Some rhs => headR fol rhs | None => Ok e end
    | Sequence (c :: _) _ => headR fol c
    | Subword c _ _ => headR fol c
    | _ => Ok e
    end.
  Proof.
    intro Ho. unfold headR at 1. unfold fuelR.
    destruct e; cbn [expr_size Nat.add]; rewrite expr_head_S; try reflexivity.
    - destruct (followed fol name) as [rhs|] eqn:E; [|reflexivity].
      destruct (followed_closed _ _ _ Ho E) as (Hc & Hs & Hf). subst fol.
      apply head_stable_closed; [exact Hc|exact Hs].
    - destruct children as [|c r]; [reflexivity|]. apply head_stable; [exact Ho|].
      unfold fuelR. cbn. lia.
  Qed.

  Lemma tailR_eqn fol e : okfol fol ->
    tailR fol e =
    match e with
    | NontermRef n _ _ => match followed fol n with Some rhs => tailR fol rhs | None => Ok e end
    | Sequence cs _ => match last_opt cs with Some c => tailR fol c | None => Ok e end
    | Subword c _ _ => tailR fol c
    | _ => Ok e
    end.
  Proof.
    intro Ho. unfold tailR at 1. unfold fuelR.
    destruct e; cbn [expr_size Nat.add]; rewrite expr_tail_S; try reflexivity.
    - destruct (followed fol name) as [rhs|] eqn:E; [|reflexivity].
      destruct (followed_closed _ _ _ Ho E) as (Hc & Hs & Hf). subst fol.
      apply tail_stable_closed; [exact Hc|exact Hs].
    - destruct (last_opt children) as [c|] eqn:El; [|reflexivity]. apply tail_stable; [exact Ho|].
      apply last_opt_In in El. pose proof (list_size_In c children El). unfold fuelR, list_size in *. lia.
  Qed.

  Lemma adj_stable fol cs f : okfol fol -> (f >= list_size cs + bound)%nat ->
    adjacent_terminals fol f cs = adjR fol cs.
  Proof.
    intros Ho. induction cs as [|a r IH]; intro Hf; [reflexivity|].
    destruct r as [|b r']; [reflexivity|]. cbn [adjacent_terminals adjR].
    assert (Hr : adjacent_terminals fol f (b :: r') = adjR fol (b :: r')).
    { apply IH. unfold list_size in *. cbn in Hf |- *. lia. }
    rewrite (tail_stable fol a f Ho), (head_stable fol b f Ho).
    - destruct (tailR fol a) as [ta| | |]; cbn [obind]; try reflexivity.
      destruct (headR fol b) as [hb| | |]; cbn [obind]; try reflexivity.
      destruct ta; try exact Hr. destruct hb; try exact Hr. reflexivity.
    - unfold fuelR, list_size in *. cbn in Hf. lia.
    - unfold fuelR, list_size in *. cbn in Hf. lia.
  Qed.

  Lemma adjR_okr fol cs : okfol fol -> is_okr (adjR fol cs).
  Proof.
    intro Ho. induction cs as [|a r IH]; [eexists; reflexivity|].
    destruct r as [|b r']; [eexists; reflexivity|]. cbn [adjR].
    destruct (tailR_okr fol a Ho) as [ta Ha]. destruct (headR_okr fol b Ho) as [hb Hb].
    rewrite Ha, Hb. cbn [obind]. destruct ta; try exact IH. destruct hb; try exact IH.
    eexists; reflexivity.
  Qed.

  (** the walk *)
  Lemma spacesR_fine e tr w j : dd_free e -> fine (spacesR e tr w j).
  Proof. intro Hd. apply (spaces_fine T bound t_dd t_closed t_size); [exact Hd|apply Nat.le_refl]. Qed.

  Lemma spaces_stable e f tr w j :
    dd_free e -> (f >= fuelR e)%nat -> spaces T f e tr w j = spacesR e tr w j.
  Proof.
    intros Hd Hle. apply spaces_fine_agree; [|apply spacesR_fine; exact Hd].
    apply (spaces_fine T bound t_dd t_closed t_size); assumption.
  Qed.

  Lemma spaces_stable_closed e f tr w j :
    dd_free e -> closed (map fst T) e -> (f >= expr_size e)%nat ->
    spaces T f e tr w j = spacesR e tr w j.
  Proof.
    intros Hd Hc Hle. apply spaces_fine_agree; [|apply spacesR_fine; exact Hd].
    apply (spaces_fine_closed T); assumption.
  Qed.

  Lemma follow_of_okfol j : okfol (follow_of T j).
  Proof. destruct j; [left|right]; reflexivity. Qed.

  Lemma sp_all_stable cs f tr w :
    dd_free_list cs -> (f >= list_size cs + bound)%nat ->
    sp_all (fun c => spaces T f c tr w false) cs = sp_all (fun c => spacesR c tr w false) cs.
  Proof.
    intros Hd Hf. apply sp_all_ext. apply dd_free_list_Forall in Hd.
    rewrite Forall_forall in *. intros c Hc. apply spaces_stable; [apply Hd; exact Hc|].
    pose proof (list_size_In c cs Hc). unfold fuelR. lia.
  Qed.

  Lemma spacesR_eqn e tr w j : dd_free e ->
    spacesR e tr w j =
    match e with
    | Sequence cs _ =>
        do _ <- sp_all (fun c => spacesR c tr w false) cs;
        if w then
          do a <- adjR (follow_of T j) cs;
          match a with
          | Some (l, r) => Err (SubwordSpaces l r tr)
          | None => Ok tt
          end
        else Ok tt
    | Terminal _ _ _ _ | Command _ _ _ _ => Ok tt
    | NontermRef n _ s =>
        match assoc n T with
        | None => Ok tt
        | Some rhs => spacesR rhs (tr ++ [s]) w false
        end
    | Subword c _ _ => spacesR c tr true true
    | Alternative cs _ | Fallback cs _ => sp_all (fun c => spacesR c tr w false) cs
    | Optional c _ | Many1 c _ => spacesR c tr w false
    | DistDescr _ _ _ => Panic "check_subword_spaces: DistributiveDescription"
    end.
  Proof.
    intro Hd. unfold spacesR at 1. unfold fuelR.
    destruct e; cbn [expr_size Nat.add]; rewrite spaces_S; try reflexivity.
    - destruct (assoc name T) as [rhs|] eqn:E; [|reflexivity].
      apply spaces_stable_closed; [eapply t_dd; eauto|eapply t_closed; eauto|].
      pose proof (t_size _ _ E). lia.
    - rewrite dd_free_seq in Hd. rewrite sp_all_stable; [|exact Hd|unfold list_size; lia].
      destruct (sp_all _ children) as [[]| | |]; cbn [obind]; try reflexivity.
      destruct w; [|reflexivity]. rewrite adj_stable; [reflexivity|apply follow_of_okfol|].
      unfold list_size. lia.
    - rewrite dd_free_alt in Hd. apply sp_all_stable; [exact Hd|unfold list_size; lia].
    - rewrite dd_free_fb in Hd. apply sp_all_stable; [exact Hd|unfold list_size; lia].
  Qed.

  Lemma children_fine cs tr w :
    dd_free_list cs -> Forall (fun c => fine (spacesR c tr w false)) cs.
  Proof.
    intro Hd. apply dd_free_list_Forall in Hd. rewrite Forall_forall in *. intros c Hc.
    apply spacesR_fine. apply Hd. exact Hc.
  Qed.

  (** * (C) Substituting the table *)
  Fixpoint has_adj fol (cs : list expr) : Prop :=
    match cs with
    | a :: ((b :: _) as r) => (is_lit (tailR fol a) /\ is_lit (headR fol b)) \/ has_adj fol r
    | _ => False
    end.

  Lemma has_adj_cons fol x l : has_adj fol l -> has_adj fol (x :: l).
  Proof. destruct l as [|y l']; [intros []|]. intro H. right. exact H. Qed.

  Lemma adjR_some fol cs : okfol fol -> has_adj fol cs -> exists p, adjR fol cs = Ok (Some p).
  Proof.
    intro Ho. induction cs as [|a r IH]; [intros []|]. destruct r as [|b r']; [intros []|].
    intro H. cbn [adjR].
    destruct (tailR_okr fol a Ho) as [ta Ha]. destruct (headR_okr fol b Ho) as [hb Hb].
    rewrite Ha, Hb. cbn [obind].
    assert (Hrest : (~ (is_lit (tailR fol a) /\ is_lit (headR fol b))) -> exists p, adjR fol (b :: r') = Ok (Some p)).
    { intro Hn. apply IH. destruct H as [H|H]; [contradiction|exact H]. }
    destruct ta; try (apply Hrest; rewrite Ha; intros [[t [d [l [s Hx]]]] _]; discriminate).
    destruct hb; try (apply Hrest; rewrite Hb; intros [_ [t [d [l [s Hx]]]]]; discriminate).
    eexists; reflexivity.
  Qed.

  Lemma adjR_some_inv fol cs p : adjR fol cs = Ok (Some p) -> has_adj fol cs.
  Proof.
    induction cs as [|a r IH]; [discriminate|]. destruct r as [|b r']; [discriminate|].
    cbn [adjR has_adj]. intro H.
    destruct (tailR fol a) as [ta| | |] eqn:Ha; cbn [obind] in H; try discriminate.
    destruct (headR fol b) as [hb| | |] eqn:Hb; cbn [obind] in H; try discriminate.
    destruct ta; try (right; apply IH; exact H).
    destruct hb; try (right; apply IH; exact H).
    left. split; repeat eexists.
  Qed.

  Lemma closed_seq_child cs s c : closed (map fst T) (Sequence cs s) -> In c cs -> closed (map fst T) c.
  Proof. intros H Hc x Hx. apply H. cbn. apply in_flat_map. exists c. split; assumption. Qed.

  (** on a closed tree nothing is followed *)
  Lemma head_closed_nofollow e : closed (map fst T) e -> headR (Some T) e = headR None e.
  Proof.
    induction e using expr_ind'; intro Hc;
      rewrite (headR_eqn (Some T)) by (right; reflexivity);
      rewrite (headR_eqn None) by (left; reflexivity); try reflexivity.
    - cbn [followed]. assert (Hn : assoc n T = None).
      { apply assoc_None_notin. apply Hc. left. reflexivity. }
      rewrite Hn. reflexivity.
    - destruct cs as [|c r]; [reflexivity|]. inversion H; subst. apply H2.
      eapply closed_seq_child; [exact Hc|left; reflexivity].
    - apply IHe. exact Hc.
  Qed.

  Lemma tail_closed_nofollow e : closed (map fst T) e -> tailR (Some T) e = tailR None e.
  Proof.
    induction e using expr_ind'; intro Hc;
      rewrite (tailR_eqn (Some T)) by (right; reflexivity);
      rewrite (tailR_eqn None) by (left; reflexivity); try reflexivity.
    - cbn [followed]. assert (Hn : assoc n T = None).
      { apply assoc_None_notin. apply Hc. left. reflexivity. }
      rewrite Hn. reflexivity.
    - destruct (last_opt cs) as [c|] eqn:El; [|reflexivity]. apply last_opt_In in El.
      rewrite Forall_forall in H. apply (H c El). eapply closed_seq_child; eauto.
    - apply IHe. exact Hc.
  Qed.

  Lemma headR_closed_any fol fol' e :
    okfol fol -> okfol fol' -> closed (map fst T) e -> headR fol e = headR fol' e.
  Proof.
    intros [H|H] [H'|H'] Hc; subst; try reflexivity;
      [symmetry|]; apply head_closed_nofollow; exact Hc.
  Qed.

  Lemma tailR_closed_any fol fol' e :
    okfol fol -> okfol fol' -> closed (map fst T) e -> tailR fol e = tailR fol' e.
  Proof.
    intros [H|H] [H'|H'] Hc; subst; try reflexivity;
      [symmetry|]; apply tail_closed_nofollow; exact Hc.
  Qed.

  (** the leaf of the resolved tree *)
  Lemma head_subst fol fol' e :
    okfol fol -> okfol fol' -> is_lit (headR fol e) -> is_lit (headR fol' (resolve T e)).
  Proof.
    intros Ho Ho'. induction e using expr_ind'; intro Hl;
      rewrite (headR_eqn fol) in Hl by exact Ho; cbn [resolve].
    - rewrite headR_eqn by exact Ho'. exact Hl.
    - destruct (followed fol n) as [rhs|] eqn:E.
      + destruct (followed_closed _ _ _ Ho E) as (Hc & _ & Hf). subst fol. cbn in E. rewrite E.
        rewrite (headR_closed_any fol' (Some T)); [exact Hl|exact Ho'|right; reflexivity|exact Hc].
      + destruct Hl as (t & d & l' & s & Hl). discriminate.
    - destruct Hl as (t & d & l' & s & Hl). discriminate.
    - destruct cs as [|c r]; [destruct Hl as (t & d & l' & s & Hl); discriminate|].
      rewrite headR_eqn by exact Ho'. cbn [map]. inversion H; subst. apply H2. exact Hl.
    - destruct Hl as (t & d & l' & s & Hl). discriminate.
    - destruct Hl as (t & d & l' & s & Hl). discriminate.
    - destruct Hl as (t & d & l' & s & Hl). discriminate.
    - destruct Hl as (t & d' & l' & s & Hl). discriminate.
    - destruct Hl as (t & d & l' & s & Hl). discriminate.
    - rewrite headR_eqn by exact Ho'. apply IHe. exact Hl.
  Qed.

  Lemma tail_subst fol fol' e :
    okfol fol -> okfol fol' -> is_lit (tailR fol e) -> is_lit (tailR fol' (resolve T e)).
  Proof.
    intros Ho Ho'. induction e using expr_ind'; intro Hl;
      rewrite (tailR_eqn fol) in Hl by exact Ho; cbn [resolve].
    - rewrite tailR_eqn by exact Ho'. exact Hl.
    - destruct (followed fol n) as [rhs|] eqn:E.
      + destruct (followed_closed _ _ _ Ho E) as (Hc & _ & Hf). subst fol. cbn in E. rewrite E.
        rewrite (tailR_closed_any fol' (Some T)); [exact Hl|exact Ho'|right; reflexivity|exact Hc].
      + destruct Hl as (t & d & l' & s & Hl). discriminate.
    - destruct Hl as (t & d & l' & s & Hl). discriminate.
    - rewrite tailR_eqn by exact Ho'. rewrite last_opt_map.
      destruct (last_opt cs) as [c|] eqn:El; cbn [option_map];
        [|destruct Hl as (t & d & l' & s & Hl); discriminate].
      apply last_opt_In in El. rewrite Forall_forall in H. apply (H c El). exact Hl.
    - destruct Hl as (t & d & l' & s & Hl). discriminate.
    - destruct Hl as (t & d & l' & s & Hl). discriminate.
    - destruct Hl as (t & d & l' & s & Hl). discriminate.
    - destruct Hl as (t & d' & l' & s & Hl). discriminate.
    - destruct Hl as (t & d & l' & s & Hl). discriminate.
    - rewrite tailR_eqn by exact Ho'. apply IHe. exact Hl.
  Qed.

  Lemma has_adj_subst fol fol' cs :
    okfol fol -> okfol fol' -> has_adj fol cs -> has_adj fol' (map (resolve T) cs).
  Proof.
    intros Ho Ho'. induction cs as [|a r IH]; [intros []|]. destruct r as [|b r']; [intros []|].
    cbn [map has_adj] in *. intros [[Ha Hb]|H].
    - left. split; [apply (tail_subst fol); assumption|apply (head_subst fol); assumption].
    - right. apply IH. exact H.
  Qed.

  Lemma has_adj_closed fol fol' cs :
    okfol fol -> okfol fol' -> (forall c, In c cs -> closed (map fst T) c) ->
    has_adj fol cs -> has_adj fol' cs.
  Proof.
    intros Ho Ho'. induction cs as [|a r IH]; [intros _ []|]. destruct r as [|b r']; [intros _ []|].
    intros Hc. cbn [has_adj]. intros [[Ha Hb]|H].
    - left. rewrite (tailR_closed_any fol' fol), (headR_closed_any fol' fol); auto.
      + apply Hc. right. left. reflexivity.
      + apply Hc. left. reflexivity.
    - right. apply IH; [|exact H]. intros c Hin. apply Hc. right. exact Hin.
  Qed.

  (** building an error *)
  Lemma seq_isErr_child cs s tr w j c :
    dd_free_list cs -> In c cs -> isErr (spacesR c tr w false) -> isErr (spacesR (Sequence cs s) tr w j).
  Proof.
    intros Hd Hc He. rewrite spacesR_eqn by exact Hd.
    assert (Hs : isErr (sp_all (fun c => spacesR c tr w false) cs)).
    { apply sp_all_isErr; [apply children_fine; exact Hd|eauto]. }
    destruct Hs as [e Hs]. rewrite Hs. eexists; reflexivity.
  Qed.

  Lemma seq_isErr_adj cs s tr j :
    dd_free_list cs -> has_adj (follow_of T j) cs -> isErr (spacesR (Sequence cs s) tr true j).
  Proof.
    intros Hd Ha. rewrite spacesR_eqn by exact Hd.
    destruct (sp_all_fine_cases (fun c => spacesR c tr true false) cs (children_fine cs tr true Hd)) as [Hs|[e Hs]];
      rewrite Hs; cbn [obind]; [|eexists; reflexivity].
    destruct (adjR_some _ _ (follow_of_okfol j) Ha) as [[l r] Hp]. rewrite Hp. cbn [obind].
    eexists; reflexivity.
  Qed.

  Lemma seq_isErr_inv cs s tr w j :
    dd_free_list cs -> isErr (spacesR (Sequence cs s) tr w j) ->
    (exists c, In c cs /\ isErr (spacesR c tr w false)) \/ (w = true /\ has_adj (follow_of T j) cs).
  Proof.
    intros Hd [e H]. rewrite spacesR_eqn in H by exact Hd.
    destruct (sp_all (fun c => spacesR c tr w false) cs) as [[]|e'| |] eqn:Hs; cbn [obind] in H;
      try discriminate.
    - right. destruct w; [|discriminate]. split; [reflexivity|].
      destruct (adjR (follow_of T j) cs) as [[[l r]|]| | |] eqn:Ha; cbn [obind] in H; try discriminate.
      + eapply adjR_some_inv. exact Ha.
      + exfalso. destruct (adjR_okr _ cs (follow_of_okfol j)) as [x Hx]. congruence.
    - left. apply sp_all_isErr_inv. eexists. exact Hs.
  Qed.

  Lemma all_isErr (mk : list expr -> span -> expr) cs s tr w j c
        (Heq : forall cs, dd_free_list cs ->
                          spacesR (mk cs s) tr w j = sp_all (fun c => spacesR c tr w false) cs) :
    dd_free_list cs -> In c cs -> isErr (spacesR c tr w false) -> isErr (spacesR (mk cs s) tr w j).
  Proof.
    intros Hd Hc He. rewrite Heq by exact Hd.
    apply sp_all_isErr; [apply children_fine; exact Hd|eauto].
  Qed.

  (** on a closed tree the verdict does not depend on the trace nor on the flag *)
  Lemma closed_indep e : dd_free e -> closed (map fst T) e ->
    forall tr w j tr' j', isErr (spacesR e tr w j) -> isErr (spacesR e tr' w j').
  Proof.
    induction e using expr_ind'; intros Hd Hc tr w j tr' j' He.
    - destruct He as [x He]. rewrite spacesR_eqn in He by exact I. discriminate.
    - destruct He as [x He]. rewrite spacesR_eqn in He by exact I.
      assert (Hn : assoc n T = None) by (apply assoc_None_notin; apply Hc; left; reflexivity).
      rewrite Hn in He. discriminate.
    - destruct He as [x He]. rewrite spacesR_eqn in He by exact I. discriminate.
    - rewrite dd_free_seq in Hd. pose proof (proj1 (dd_free_list_Forall cs) Hd) as Hdf.
      rewrite Forall_forall in H, Hdf.
      destruct (seq_isErr_inv cs sp0 tr w j Hd He) as [[c [Hin Hce]]|[Hw Ha]].
      + eapply seq_isErr_child; [exact Hd|exact Hin|].
        eapply (H c Hin); [apply Hdf; exact Hin|eapply closed_seq_child; eauto|exact Hce].
      + subst w. apply seq_isErr_adj; [exact Hd|].
        eapply has_adj_closed; [apply follow_of_okfol|apply follow_of_okfol| |exact Ha].
        intros c Hin. eapply closed_seq_child; eauto.
    - rewrite dd_free_alt in Hd. pose proof (proj1 (dd_free_list_Forall cs) Hd) as Hdf.
      rewrite Forall_forall in H, Hdf.
      rewrite spacesR_eqn in He by exact Hd. apply sp_all_isErr_inv in He.
      destruct He as [c [Hin Hce]]. rewrite spacesR_eqn by exact Hd.
      apply sp_all_isErr; [apply children_fine; exact Hd|]. exists c. split; [exact Hin|].
      eapply (H c Hin); [apply Hdf; exact Hin| |exact Hce].
      intros x Hx. apply Hc. cbn. apply in_flat_map. exists c. split; assumption.
    - rewrite spacesR_eqn in He by exact Hd. rewrite spacesR_eqn by exact Hd.
      eapply IHe; [exact Hd|exact Hc|exact He].
    - rewrite spacesR_eqn in He by exact Hd. rewrite spacesR_eqn by exact Hd.
      eapply IHe; [exact Hd|exact Hc|exact He].
    - destruct Hd.
    - rewrite dd_free_fb in Hd. pose proof (proj1 (dd_free_list_Forall cs) Hd) as Hdf.
      rewrite Forall_forall in H, Hdf.
      rewrite spacesR_eqn in He by exact Hd. apply sp_all_isErr_inv in He.
      destruct He as [c [Hin Hce]]. rewrite spacesR_eqn by exact Hd.
      apply sp_all_isErr; [apply children_fine; exact Hd|]. exists c. split; [exact Hin|].
      eapply (H c Hin); [apply Hdf; exact Hin| |exact Hce].
      intros x Hx. apply Hc. cbn. apply in_flat_map. exists c. split; assumption.
    - rewrite spacesR_eqn in He by exact Hd. rewrite spacesR_eqn by exact Hd.
      eapply IHe; [exact Hd|exact Hc|exact He].
  Qed.

  Lemma dd_free_list_map_resolve cs : dd_free_list cs -> dd_free_list (map (resolve T) cs).
  Proof.
    intro H. apply dd_free_list_Forall. apply dd_free_list_Forall in H.
    rewrite Forall_forall in *. intros x Hx. apply in_map_iff in Hx. destruct Hx as [c [Heq Hc]].
    subst x. apply resolve_dd_free; [exact t_dd|apply H; exact Hc].
  Qed.

  (** the walk of the resolved expression errs when the walk through the table does *)
  Lemma resolve_isErr e : dd_free e ->
    forall tr w j tr' j', isErr (spacesR e tr w j) -> isErr (spacesR (resolve T e) tr' w j').
  Proof.
    induction e using expr_ind'; intros Hd tr w j tr' j' He; cbn [resolve].
    - destruct He as [x He]. rewrite spacesR_eqn in He by exact I. discriminate.
    - rewrite spacesR_eqn in He by exact I. destruct (assoc n T) as [rhs|] eqn:E.
      + eapply closed_indep; [eapply t_dd; eauto|eapply t_closed; eauto|exact He].
      + destruct He as [x He]. discriminate.
    - destruct He as [x He]. rewrite spacesR_eqn in He by exact I. discriminate.
    - rewrite dd_free_seq in Hd. pose proof (proj1 (dd_free_list_Forall cs) Hd) as Hdf.
      rewrite Forall_forall in H, Hdf.
      destruct (seq_isErr_inv cs sp0 tr w j Hd He) as [[c [Hin Hce]]|[Hw Ha]].
      + eapply seq_isErr_child; [apply dd_free_list_map_resolve; exact Hd|apply in_map; exact Hin|].
        eapply (H c Hin); [apply Hdf; exact Hin|exact Hce].
      + subst w. apply seq_isErr_adj; [apply dd_free_list_map_resolve; exact Hd|].
        eapply has_adj_subst; [apply follow_of_okfol|apply follow_of_okfol|exact Ha].
    - rewrite dd_free_alt in Hd. pose proof (proj1 (dd_free_list_Forall cs) Hd) as Hdf.
      rewrite Forall_forall in H, Hdf.
      rewrite spacesR_eqn in He by exact Hd. apply sp_all_isErr_inv in He.
      destruct He as [c [Hin Hce]].
      rewrite spacesR_eqn by (rewrite dd_free_alt; apply dd_free_list_map_resolve; exact Hd).
      apply sp_all_isErr; [apply children_fine; apply dd_free_list_map_resolve; exact Hd|].
      exists (resolve T c). split; [apply in_map; exact Hin|].
      eapply (H c Hin); [apply Hdf; exact Hin|exact Hce].
    - rewrite spacesR_eqn in He by exact Hd.
      rewrite spacesR_eqn by (apply (resolve_dd_free T (Optional e sp0)); [exact t_dd|exact Hd]).
      eapply IHe; [exact Hd|exact He].
    - rewrite spacesR_eqn in He by exact Hd.
      rewrite spacesR_eqn by (apply (resolve_dd_free T (Many1 e sp0)); [exact t_dd|exact Hd]).
      eapply IHe; [exact Hd|exact He].
    - destruct Hd.
    - rewrite dd_free_fb in Hd. pose proof (proj1 (dd_free_list_Forall cs) Hd) as Hdf.
      rewrite Forall_forall in H, Hdf.
      rewrite spacesR_eqn in He by exact Hd. apply sp_all_isErr_inv in He.
      destruct He as [c [Hin Hce]].
      rewrite spacesR_eqn by (rewrite dd_free_fb; apply dd_free_list_map_resolve; exact Hd).
      apply sp_all_isErr; [apply children_fine; apply dd_free_list_map_resolve; exact Hd|].
      exists (resolve T c). split; [apply in_map; exact Hin|].
      eapply (H c Hin); [apply Hdf; exact Hin|exact Hce].
    - rewrite spacesR_eqn in He by exact Hd.
      rewrite spacesR_eqn by (apply (resolve_dd_free T (Subword e l sp0)); [exact t_dd|exact Hd]).
      eapply IHe; [exact Hd|exact He].
  Qed.
  (** * (D) The judgement of the specification makes the walk err *)
  Variable builtins : shell -> list (string * string).
  Variable g : grammar.
  Variable sh : shell.
  Variable us : list (string * user_spec).
  Variable fs : list (string * (string * span)).
  Variable plain : list string.

  Definition mt (d : option string) (e : expr) : expr :=
    specialize sh us (builtins sh) fs plain (fst (distribute e d)).
  Definition mts (d : option string) (cs : list expr) : list expr :=
    map (specialize sh us (builtins sh) fs plain) (fst (distribute_list cs d)).

  Hypothesis mt_ref : forall d n l s rhs,
      plain_chosen g sh n = Some rhs -> mt d (NontermRef n l s) = NontermRef n l s.
  Hypothesis T_eqn : forall n rhs,
      plain_chosen g sh n = Some rhs -> assoc n T = Some (resolve T (mt None rhs)).
  Hypothesis wf_chosen : forall n rhs, plain_chosen g sh n = Some rhs -> word_roots_ok rhs = true.

  Lemma mt_dd_free d e : dd_free (mt d e).
  Proof. apply specialize_dd_free. apply distribute_dd_free. Qed.

  Lemma mts_dd_free cs : forall d, dd_free_list (mts d cs).
  Proof.
    induction cs as [|c r IH]; intro d; [exact I|]. unfold mts in *. cbn [distribute_list].
    pose proof (distribute_dd_free c d) as Hc. destruct (distribute c d) as [c' d1].
    specialize (IH d1). destruct (distribute_list r d1) as [r' d2]. cbn in *.
    split; [apply specialize_dd_free; exact Hc|exact IH].
  Qed.

  Lemma mt_seq d cs s : mt d (Sequence cs s) = Sequence (mts d cs) s.
  Proof. unfold mt, mts. rewrite distribute_seq. destruct (distribute_list cs d). reflexivity. Qed.
  Lemma mt_fb d cs s : mt d (Fallback cs s) = Fallback (mts d cs) s.
  Proof. unfold mt, mts. rewrite distribute_fb. destruct (distribute_list cs d). reflexivity. Qed.
  Lemma mt_alt d cs s : mt d (Alternative cs s) = Alternative (map (mt d) cs) s.
  Proof. unfold mt. cbn [distribute fst specialize]. rewrite map_map. reflexivity. Qed.
  Lemma mt_opt d c s : mt d (Optional c s) = Optional (mt d c) s.
  Proof. unfold mt. cbn [distribute]. destruct (distribute c d). reflexivity. Qed.
  Lemma mt_many d c s : mt d (Many1 c s) = Many1 (mt d c) s.
  Proof. unfold mt. cbn [distribute]. destruct (distribute c d). reflexivity. Qed.
  Lemma mt_sub d c l s : mt d (Subword c l s) = Subword (mt d c) l s.
  Proof. unfold mt. cbn [distribute]. destruct (distribute c d). reflexivity. Qed.
  Lemma mt_dd d c ds s : mt d (DistDescr c ds s) = mt (Some ds) c.
  Proof. reflexivity. Qed.
  Lemma mt_term d t ds l s : exists d', mt d (Terminal t ds l s) = Terminal t d' l s.
  Proof. unfold mt. cbn. destruct ds; [eexists; reflexivity|]. destruct d; eexists; reflexivity. Qed.

  Lemma mts_cons d c r : mts d (c :: r) = mt d c :: mts (snd (distribute c d)) r.
  Proof.
    unfold mts, mt. cbn [distribute_list]. destruct (distribute c d) as [c' d1]. cbn [fst snd].
    destruct (distribute_list r d1). reflexivity.
  Qed.

  Lemma mts_In cs c : In c cs -> forall d, exists d', In (mt d' c) (mts d cs).
  Proof.
    induction cs as [|x r IH]; intros Hc d; [destruct Hc|]. rewrite mts_cons.
    destruct Hc as [Hc|Hc].
    - subst x. exists d. left. reflexivity.
    - destruct (IH Hc (snd (distribute x d))) as [d' Hd']. exists d'. right. exact Hd'.
  Qed.

  Lemma last_opt_mts cs c : last_opt cs = Some c -> forall d, exists d', last_opt (mts d cs) = Some (mt d' c).
  Proof.
    induction cs as [|x r IH]; intros H d; [discriminate|]. rewrite mts_cons, last_opt_cons.
    rewrite last_opt_cons in H. destruct (last_opt r) as [y|] eqn:El.
    - inversion H; subst y. destruct (IH eq_refl (snd (distribute x d))) as [d' Hd']. rewrite Hd'.
      exists d'. reflexivity.
    - inversion H; subst x. assert (Hr : r = []).
      { destruct r as [|z r']; [reflexivity|]. rewrite last_opt_cons in El.
        destruct (last_opt r'); discriminate. }
      subst r. exists d. reflexivity.
  Qed.

  Lemma lit_head_model e : lit_head g sh e -> forall d, is_lit (headR (Some T) (mt d e)).
  Proof.
    assert (Ho : okfol (Some T)) by (right; reflexivity).
    induction 1 as [t ds l s|c r s Hc IH|c l s Hc IH|c ds s Hc IH|n l s rhs Hn Hr IH]; intro d.
    - destruct (mt_term d t ds l s) as [d' Hd]. rewrite Hd, headR_eqn by exact Ho. repeat eexists.
    - rewrite mt_seq, mts_cons, headR_eqn by exact Ho. apply IH.
    - rewrite mt_sub, headR_eqn by exact Ho. apply IH.
    - rewrite mt_dd. apply IH.
    - rewrite (mt_ref d n l s rhs Hn), headR_eqn by exact Ho. cbn [followed].
      rewrite (T_eqn n rhs Hn). apply (head_subst (Some T)); [exact Ho|exact Ho|apply IH].
  Qed.

  Lemma lit_tail_model e : lit_tail g sh e -> forall d, is_lit (tailR (Some T) (mt d e)).
  Proof.
    assert (Ho : okfol (Some T)) by (right; reflexivity).
    induction 1 as [t ds l s|cs c s Hl Hc IH|c l s Hc IH|c ds s Hc IH|n l s rhs Hn Hr IH]; intro d.
    - destruct (mt_term d t ds l s) as [d' Hd]. rewrite Hd, tailR_eqn by exact Ho. repeat eexists.
    - rewrite mt_seq, tailR_eqn by exact Ho. destruct (last_opt_mts cs c Hl d) as [d' Hd'].
      rewrite Hd'. apply IH.
    - rewrite mt_sub, tailR_eqn by exact Ho. apply IH.
    - rewrite mt_dd. apply IH.
    - rewrite (mt_ref d n l s rhs Hn), tailR_eqn by exact Ho. cbn [followed].
      rewrite (T_eqn n rhs Hn). apply (tail_subst (Some T)); [exact Ho|exact Ho|apply IH].
  Qed.

  Lemma adj_model cs : adj g sh cs -> forall d, has_adj (Some T) (mts d cs).
  Proof.
    induction 1 as [a b r Ha Hb|a r Hr IH]; intro d.
    - rewrite !mts_cons. cbn [has_adj]. left. split; [apply lit_tail_model; exact Ha|apply lit_head_model; exact Hb].
    - rewrite mts_cons. apply has_adj_cons. apply IH.
  Qed.

  Lemma word_roots_child cs c : forallb word_roots_ok cs = true -> In c cs -> word_roots_ok c = true.
  Proof. intros H Hc. rewrite forallb_forall in H. apply H. exact Hc. Qed.

  Lemma sp_model e j : sp g sh e j -> word_roots_ok e = true ->
    forall d tr jm, (jm = true -> j = true /\ is_seq e) -> isErr (spacesR (mt d e) tr true jm).
  Proof.
    induction 1 as [cs s j c Hc Hs IH|cs s Ha|cs s j c Hc Hs IH|cs s j c Hc Hs IH|c s j Hs IH|c s j Hs IH
                    |c ds s j Hs IH|c l s j Hs IH|n l s j rhs Hn Hs IH]; intros Hwf d tr jm Hj.
    - rewrite mt_seq. destruct (mts_In cs c Hc d) as [d' Hd'].
      eapply seq_isErr_child; [apply mts_dd_free|exact Hd'|].
      apply IH; [eapply word_roots_child; eauto|]. intro H; discriminate.
    - rewrite mt_seq. assert (Hjm : jm = false).
      { destruct jm; [|reflexivity]. destruct (Hj eq_refl) as [H _]. discriminate. }
      subst jm. apply seq_isErr_adj; [apply mts_dd_free|]. cbn [follow_of]. apply adj_model. exact Ha.
    - rewrite mt_alt.
      rewrite spacesR_eqn by (rewrite <- mt_alt; apply mt_dd_free).
      apply sp_all_isErr.
      + apply children_fine. pose proof (mt_dd_free d (Alternative cs s)) as H. rewrite mt_alt in H. exact H.
      + exists (mt d c). split; [apply in_map; exact Hc|].
        apply IH; [eapply word_roots_child; eauto|]. intro H; discriminate.
    - rewrite mt_fb. destruct (mts_In cs c Hc d) as [d' Hd'].
      rewrite spacesR_eqn by (rewrite dd_free_fb; apply mts_dd_free).
      apply sp_all_isErr; [apply children_fine; apply mts_dd_free|].
      exists (mt d' c). split; [exact Hd'|].
      apply IH; [eapply word_roots_child; eauto|]. intro H; discriminate.
    - rewrite mt_opt, spacesR_eqn by (rewrite <- mt_opt; apply mt_dd_free).
      apply IH; [exact Hwf|]. intro H; discriminate.
    - rewrite mt_many, spacesR_eqn by (rewrite <- mt_many; apply mt_dd_free).
      apply IH; [exact Hwf|]. intro H; discriminate.
    - rewrite mt_dd. assert (Hjm : jm = false).
      { destruct jm; [|reflexivity]. destruct (Hj eq_refl) as [_ H]. destruct H. }
      subst jm. apply IH; [exact Hwf|]. intro H; discriminate.
    - rewrite mt_sub, spacesR_eqn by (rewrite <- mt_sub; apply mt_dd_free).
      cbn [word_roots_ok] in Hwf. apply andb_true_iff in Hwf. destruct Hwf as [Hseq Hwf].
      apply IH; [exact Hwf|]. intros _. split; [reflexivity|]. destruct c; try discriminate. exact I.
    - rewrite (mt_ref d n l s rhs Hn), spacesR_eqn by exact I. rewrite (T_eqn n rhs Hn).
      eapply resolve_isErr; [apply mt_dd_free|].
      apply (IH (wf_chosen n rhs Hn) None tr false). intro H; discriminate.
  Qed.

  Lemma top_model e : top g sh e -> word_roots_ok e = true ->
    forall d tr w jm, isErr (spacesR (mt d e) tr w jm).
  Proof.
    induction 1 as [c l s Hs|c s Ht IH|c s Ht IH|c ds s Ht IH|cs s c Hc Ht IH|cs s c Hc Ht IH
                    |cs s c Hc Ht IH|n l s rhs Hn Ht IH]; intros Hwf d tr w jm.
    - rewrite mt_sub, spacesR_eqn by (rewrite <- mt_sub; apply mt_dd_free).
      cbn [word_roots_ok] in Hwf. apply andb_true_iff in Hwf. destruct Hwf as [Hseq Hwf].
      eapply sp_model; [exact Hs|exact Hwf|]. intros _. split; [reflexivity|].
      destruct c; try discriminate. exact I.
    - rewrite mt_opt, spacesR_eqn by (rewrite <- mt_opt; apply mt_dd_free). apply IH. exact Hwf.
    - rewrite mt_many, spacesR_eqn by (rewrite <- mt_many; apply mt_dd_free). apply IH. exact Hwf.
    - rewrite mt_dd. apply IH. exact Hwf.
    - rewrite mt_seq. destruct (mts_In cs c Hc d) as [d' Hd'].
      eapply seq_isErr_child; [apply mts_dd_free|exact Hd'|].
      apply IH. eapply word_roots_child; eauto.
    - rewrite mt_alt, spacesR_eqn by (rewrite <- mt_alt; apply mt_dd_free).
      apply sp_all_isErr.
      + apply children_fine. pose proof (mt_dd_free d (Alternative cs s)) as H. rewrite mt_alt in H. exact H.
      + exists (mt d c). split; [apply in_map; exact Hc|]. apply IH. eapply word_roots_child; eauto.
    - rewrite mt_fb. destruct (mts_In cs c Hc d) as [d' Hd'].
      rewrite spacesR_eqn by (rewrite dd_free_fb; apply mts_dd_free).
      apply sp_all_isErr; [apply children_fine; apply mts_dd_free|].
      exists (mt d' c). split; [exact Hd'|]. apply IH. eapply word_roots_child; eauto.
    - rewrite (mt_ref d n l s rhs Hn), spacesR_eqn by exact I. rewrite (T_eqn n rhs Hn).
      eapply resolve_isErr; [apply mt_dd_free|]. apply (IH (wf_chosen n rhs Hn) None tr w false).
  Qed.
End Fuelless.

(** * Instantiation on an accepted front end *)
Section Complete.
  Variable builtins : shell -> list (string * string).
  Variable g : grammar.
  Variable sh : shell.
  Variable defs0 : list defn.
  Variable us : list (string * user_spec).
  Variable fs : list (string * (string * span)).
  Hypothesis Hcollect : collect_plain_defs (all_defs g) [] = Ok defs0.
  Hypothesis Hspecs : get_specializations g sh = Ok (us, fs).
  Variable ord : list string.

  Let defs1 := defs1_of defs0.
  Let spec := spec_of builtins sh us fs defs1.
  Let defs2 := defs2_of spec defs1.
  Let t0 := table0_of defs2.
  Hypothesis Hord : resolution_order defs2 = Ok ord.
  Hypothesis Hwf : grammar_word_roots_ok g = true.
  Let T := resolve_in_order ord t0.
  Let bound := fold_right (fun p n => expr_size (snd p) + n)%nat O T.
  Let plain := map d_name defs1.

  Lemma cT_dd : table_dd_free T.
  Proof.
    apply resolve_in_order_dd_free. apply table0_dd_free; [intro e; apply specialize_dd_free|apply defs1_dd_free].
  Qed.

  Lemma cT_closed n rhs : assoc n T = Some rhs -> closed (map fst T) rhs.
  Proof.
    apply (resolved_table_closed defs2 ord); [|exact Hord].
    apply table0_dd_free; [intro e; apply specialize_dd_free|apply defs1_dd_free].
  Qed.

  Lemma cT_size n rhs : assoc n T = Some rhs -> (expr_size rhs <= bound)%nat.
  Proof. apply table_sum_bound. Qed.

  Lemma c_mt_ref d n l s rhs :
    plain_chosen g sh n = Some rhs -> mt builtins sh us fs plain d (NontermRef n l s) = NontermRef n l s.
  Proof.
    intro H. unfold mt. cbn [distribute fst specialize]. unfold plain, defs1.
    rewrite (specialize_ref_choose builtins g sh defs0 us fs Hcollect Hspecs). unfold choose_ref.
    unfold plain_chosen in H. destruct (shell_definition g sh n); [discriminate|]. rewrite H. reflexivity.
  Qed.

  Lemma c_T_eqn n rhs :
    plain_chosen g sh n = Some rhs ->
    assoc n T = Some (resolve T (mt builtins sh us fs plain None rhs)).
  Proof.
    intro H.
    destruct (T_sol builtins sh defs0 us fs ord Hord) as [B HB].
    fold defs1 spec defs2 t0 T in HB.
    rewrite (HB (S B) ltac:(lia)), assoc_sol_S. unfold t0 at 2, defs2, spec, defs1.
    rewrite (t0_assoc builtins g sh defs0 us fs Hcollect n). fold defs1 spec defs2 t0.
    rewrite (plain_chosen_plain g sh n rhs H). cbn [option_map]. f_equal.
    apply resolve_ext. intros c _. symmetry. apply HB. apply Nat.le_refl.
  Qed.

  Lemma c_wf_chosen n rhs : plain_chosen g sh n = Some rhs -> word_roots_ok rhs = true.
  Proof.
    intro H. apply plain_chosen_plain in H. apply plain_definition_some_in in H.
    destruct H as [nsp Hin]. unfold grammar_word_roots_ok in Hwf. rewrite forallb_forall in Hwf.
    apply (Hwf _ Hin).
  Qed.

  Lemma expr0_wf : word_roots_ok (expr0_of g) = true.
  Proof.
    assert (Hall : forallb word_roots_ok (map snd (call_variants g)) = true).
    { apply forallb_forall. intros e He. apply in_map_iff in He. destruct He as [[[n s] e'] [Heq Hin]].
      cbn in Heq. subst e'. unfold call_variants in Hin. apply in_flat_map in Hin.
      destruct Hin as [st [Hst Hin]]. destruct st; [|destruct Hin]. destruct Hin as [Hin|[]].
      inversion Hin; subst. unfold grammar_word_roots_ok in Hwf. rewrite forallb_forall in Hwf.
      apply (Hwf _ Hst). }
    unfold expr0_of. destruct (map snd (call_variants g)) as [|e [|e' r]] eqn:E.
    - reflexivity.
    - cbn in Hall. rewrite andb_true_r in Hall. exact Hall.
    - exact Hall.
  Qed.

  Lemma expr0_top : subword_spaces g sh = true -> top g sh (expr0_of g).
  Proof.
    intro H. apply subword_spaces_top in H. destruct H as [e [He Ht]].
    rewrite call_exprs_variants in He. unfold expr0_of.
    destruct (map snd (call_variants g)) as [|e1 [|e2 r]] eqn:E.
    - destruct He.
    - destruct He as [He|[]]. subst. exact Ht.
    - eapply top_alt; eauto.
  Qed.

  Theorem walk_errs :
    subword_spaces g sh = true ->
    let e2 := spec (distribute_descriptions (expr0_of g)) in
    isErr (spaces T (spaces_fuel T e2) e2 [] false false).
  Proof.
    intros H e2.
    assert (He2 : e2 = mt builtins sh us fs plain None (expr0_of g)) by reflexivity.
    rewrite (spaces_stable T bound cT_dd cT_closed cT_size).
    - rewrite He2.
      apply (top_model T bound cT_dd cT_closed cT_size builtins g sh us fs plain
                       c_mt_ref c_T_eqn c_wf_chosen); [apply expr0_top; exact H|apply expr0_wf].
    - apply specialize_dd_free. apply distribute_dd_free.
    - unfold fuelR. apply spaces_fuel_enough.
  Qed.
End Complete.

Theorem subword_spaces_rejected builtins g sh :
  no_call_variant g = false -> varying_names g = false -> slash_in_name g = false ->
  duplicate_plain g = false ->
  unknown_shell g = false -> non_command_for_shell g = false -> duplicate_for_shell g sh = false ->
  specs_have_command_plain g = true -> cyclic g sh = false ->
  grammar_word_roots_ok g = true ->
  subword_spaces g sh = true ->
  exists l r trace, from_grammar builtins g sh = Err (SubwordSpaces l r trace).
Proof.
  intros Hn Hv Hsl Hdp H1 H2 H3 Hsp Hcyc Hwf Hss.
  destruct (clean_verdict builtins g sh Hn Hv Hsl Hdp H1 H2 H3 Hsp Hcyc) as [[v Hv']|H]; [|exact H].
  exfalso. apply from_grammar_ok in Hv'. rename Hv' into A.
  pose proof (walk_errs builtins g sh _ _ _ (a_collect _ _ _ _ A) (a_specs _ _ _ _ A) _
                        (a_order _ _ _ _ A) Hwf Hss) as He.
  cbn zeta in He. destruct He as [e He].
  pose proof (a_spaces _ _ _ _ A) as Hok.
  pose proof (eq_trans (eq_sym Hok) He) as Habs. discriminate.
Qed.
