(** C16: facts about the names and labels the DFA printer writes: decimal numerals are digits,
    [_PREFIX N] is an identifier and not a keyword, names with different prefixes or numbers are
    different, labels made of digits and underscores need no escaping. *)
From Coq Require Import DecimalString DecimalN.
From CG Require Import Base.Prelude Model.Dfa Spec.DotRead Model.Dot Proofs.DotLex.
Local Open Scope string_scope.

(** ** Decimal numerals *)
Lemma uint_digits d : all_chars is_digit (NilEmpty.string_of_uint d) = true.
Proof. induction d; cbn; try reflexivity; exact IHd. Qed.

Lemma dec_digits n : all_chars is_digit (dec n) = true.
Proof. apply uint_digits. Qed.

Lemma dec_inj a b : dec a = dec b -> a = b.
Proof.
  unfold dec. intro H.
  assert (E : N.to_uint a = N.to_uint b).
  { pose proof (NilEmpty.usu (N.to_uint a)) as Ha. pose proof (NilEmpty.usu (N.to_uint b)) as Hb.
    rewrite H in Ha. rewrite Ha in Hb. now injection Hb. }
  rewrite <- (DecimalN.Unsigned.of_to a), <- (DecimalN.Unsigned.of_to b). now rewrite E.
Qed.

Lemma all_chars_impl (p q : ascii -> bool) s :
  (forall c, p c = true -> q c = true) -> all_chars p s = true -> all_chars q s = true.
Proof.
  intro H. induction s as [|c s IH]; [reflexivity|]. cbn. intro E.
  apply andb_true_iff in E as [E1 E2]. now rewrite (H _ E1), IH.
Qed.

Lemma digit_idchar c : is_digit c = true -> is_idchar c = true.
Proof. intro H. unfold is_idchar. rewrite H. apply orb_true_r. Qed.

Definition plain_char (c : ascii) : bool := negb (Ascii.eqb c c_dq) && negb (Ascii.eqb c c_bs).

Lemma digit_plain c : is_digit c = true -> plain_char c = true.
Proof.
  destruct c as [b0 b1 b2 b3 b4 b5 b6 b7].
  destruct b0, b1, b2, b3, b4, b5, b6, b7; vm_compute; intro H; try reflexivity; discriminate H.
Qed.

Lemma plain_qdecode s : all_chars plain_char s = true -> qdecode false s = Some s.
Proof.
  induction s as [|c s IH]; [reflexivity|]. cbn [all_chars qdecode]. intro H.
  apply andb_true_iff in H as [Hc Hs]. unfold plain_char in Hc. apply andb_true_iff in Hc as [H1 H2].
  apply negb_true_iff in H1, H2. rewrite H1, H2, (IH Hs). reflexivity.
Qed.

Lemma plain_no_bs s : all_chars plain_char s = true -> contains_char c_bs s = false.
Proof.
  induction s as [|c s IH]; [reflexivity|]. cbn [all_chars contains_char]. intro H.
  apply andb_true_iff in H as [Hc Hs]. unfold plain_char in Hc. apply andb_true_iff in Hc as [_ H2].
  apply negb_true_iff in H2. rewrite H2. exact (IH Hs).
Qed.

Lemma plain_body s : all_chars plain_char s = true -> body_ok s /\ qdec s = s.
Proof. intro H. unfold body_ok, qdec. rewrite (plain_qdecode s H). split; [discriminate|reflexivity]. Qed.

(** ** Prefixes: the empty one, or [K_] *)
Definition sub_pre (id : N) : string := dec id ++ "_".

Inductive prefix_ok : string -> Prop :=
| pre_main : prefix_ok ""
| pre_sub id : prefix_ok (sub_pre id).

Lemma prefix_idchars p : prefix_ok p -> all_chars is_idchar p = true.
Proof.
  intros [|id]; [reflexivity|]. unfold sub_pre. rewrite all_chars_app.
  rewrite (all_chars_impl _ _ _ digit_idchar (dec_digits id)). reflexivity.
Qed.

Lemma prefix_plain p : prefix_ok p -> all_chars plain_char p = true.
Proof.
  intros [|id]; [reflexivity|]. unfold sub_pre. rewrite all_chars_app.
  rewrite (all_chars_impl _ _ _ digit_plain (dec_digits id)). reflexivity.
Qed.

Lemma keyword_underscore s : keyword_of (String "_"%char s) = None.
Proof. reflexivity. Qed.

Lemma node_id_ok p n : prefix_ok p -> id_ok (node_id p n).
Proof.
  intro Hp. split.
  - unfold node_id. cbn [append ident_ok]. change (is_idstart "_"%char) with true. cbn [andb].
    rewrite all_chars_app, (prefix_idchars p Hp).
    exact (all_chars_impl _ _ _ digit_idchar (dec_digits n)).
  - apply keyword_underscore.
Qed.

Lemma label_plain p n : prefix_ok p -> all_chars plain_char (p ++ dec n) = true.
Proof.
  intro Hp. rewrite all_chars_app, (prefix_plain p Hp).
  exact (all_chars_impl _ _ _ digit_plain (dec_digits n)).
Qed.

Lemma cluster_name_ok id : id_ok ("cluster_" ++ dec id).
Proof.
  split.
  - cbn [append ident_ok]. change (is_idstart "c"%char) with true. cbn [andb].
    change (all_chars is_idchar ("luster_" ++ dec id) = true). rewrite all_chars_app.
    exact (all_chars_impl _ _ _ digit_idchar (dec_digits id)).
  - reflexivity.
Qed.

(** ** Names are different when prefixes or numbers are *)
Lemma digits_split a : forall a' b b',
  all_chars is_digit a = true -> all_chars is_digit a' = true ->
  a ++ String "_"%char b = a' ++ String "_"%char b' -> a = a' /\ b = b'.
Proof.
  induction a as [|c a IH]; intros a' b b' Ha Ha' E.
  - destruct a' as [|c' a'].
    + cbn in E. injection E as E. now split.
    + cbn in E. injection E as Ec E. subst c'. cbn in Ha'. discriminate Ha'.
  - destruct a' as [|c' a'].
    + cbn in E. injection E as Ec E. subst c. cbn in Ha. discriminate Ha.
    + cbn in E. injection E as Ec E. subst c'. cbn in Ha, Ha'.
      apply andb_true_iff in Ha as [_ Ha]. apply andb_true_iff in Ha' as [_ Ha'].
      destruct (IH a' b b' Ha Ha' E) as [-> ->]. now split.
Qed.

Lemma digits_no_underscore a b : all_chars is_digit (a ++ String "_"%char b) = false.
Proof. induction a as [|c a IH]; [reflexivity|]. cbn. rewrite IH. apply andb_false_r. Qed.

Lemma append_inj_l (a b c : string) : a ++ b = a ++ c -> b = c.
Proof. induction a as [|x a IH]; cbn; intro H; [exact H|]. injection H as H. now apply IH. Qed.

Lemma node_id_inj p p' n n' :
  prefix_ok p -> prefix_ok p' -> node_id p n = node_id p' n' -> p = p' /\ n = n'.
Proof.
  unfold node_id. intros Hp Hp' E. cbn [append] in E. injection E as E.
  destruct Hp as [|id], Hp' as [|id'].
  - cbn in E. split; [reflexivity|now apply dec_inj].
  - cbn [append] in E. unfold sub_pre in E. rewrite sapp_assoc in E. cbn [append] in E.
    pose proof (dec_digits n) as Hd. rewrite E in Hd. now rewrite digits_no_underscore in Hd.
  - cbn [append] in E. unfold sub_pre in E. rewrite sapp_assoc in E. cbn [append] in E.
    pose proof (dec_digits n') as Hd. rewrite <- E in Hd. now rewrite digits_no_underscore in Hd.
  - unfold sub_pre in E. rewrite !sapp_assoc in E. cbn [append] in E.
    destruct (digits_split _ _ _ _ (dec_digits id) (dec_digits id') E) as [E1 E2].
    apply dec_inj in E1, E2. subst. now split.
Qed.

Lemma sub_pre_inj a b : sub_pre a = sub_pre b -> a = b.
Proof.
  unfold sub_pre. intro E.
  destruct (digits_split _ _ _ _ (dec_digits a) (dec_digits b) E) as [E1 _]. now apply dec_inj.
Qed.

Lemma sub_pre_not_main a : sub_pre a <> "".
Proof. unfold sub_pre. destruct (dec a); discriminate. Qed.
