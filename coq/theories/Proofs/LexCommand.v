(** [{{{ command }}}]: the printed form (white space inside the braces chosen by the layout)
    lexes back to the command. *)
From CG Require Import Base.Prelude Model.Ast Model.Lexer Model.Parser Spec.Printer
  Proofs.LexBase Proofs.LexBlanks.
From CGgen Require Import Consts.

Definition RBRACE : ascii := ascii_of_N 125.
Arguments RBRACE : simpl never.

(** *** [take_until "}}}"] *)

Lemma starts_with_self : forall t r, starts_with t (append t r) = true.
Proof.
  unfold starts_with. induction t; cbn [strip_prefix append]; intros; auto.
  rewrite (proj2 (eqb_eq_a a a) eq_refl). apply IHt.
Qed.

Lemma split_until_here : forall t r, split_until t (append t r) = Some (EmptyString, append t r).
Proof.
  intros. assert (E : forall s, split_until t s =
      if starts_with t s then Some (EmptyString, s)
      else match s with
           | EmptyString => None
           | String c r => match split_until t r with Some (a, b) => Some (String c a, b) | None => None end
           end) by (destruct s; reflexivity).
  rewrite E, starts_with_self. reflexivity.
Qed.

Lemma split_until_skip : forall t c s,
    starts_with t (String c s) = false ->
    split_until t (String c s) = match split_until t s with Some (a, b) => Some (String c a, b) | None => None end.
Proof. intros. cbn [split_until]. rewrite H. reflexivity. Qed.

Lemma starts3_head : forall c s, starts_with RBRACE3 (String c s) = true -> c = RBRACE.
Proof.
  intros c s H. unfold starts_with, RBRACE3 in H. cbn [strip_prefix] in H. change "}"%char with RBRACE in H.
  destruct (Ascii.eqb RBRACE c) eqn:E; [|discriminate]. apply eqb_eq_a in E. auto.
Qed.

Lemma starts3_three : forall a b c s s', starts_with RBRACE3 (String a (String b (String c s)))
                                         = starts_with RBRACE3 (String a (String b (String c s'))).
Proof.
  intros. unfold starts_with, RBRACE3. cbn [strip_prefix].
  destruct (Ascii.eqb "}" a), (Ascii.eqb "}" b), (Ascii.eqb "}" c); reflexivity.
Qed.

Lemma starts3_second : forall a b s, starts_with RBRACE3 (String a (String b s)) = true -> b = RBRACE.
Proof.
  intros a b s H. unfold starts_with, RBRACE3 in H. cbn [strip_prefix] in H. change "}"%char with RBRACE in H.
  destruct (Ascii.eqb RBRACE a); [|discriminate].
  destruct (Ascii.eqb RBRACE b) eqn:E; [|discriminate]. apply eqb_eq_a in E. auto.
Qed.

Lemma starts3_third : forall a b c s, starts_with RBRACE3 (String a (String b (String c s))) = true -> c = RBRACE.
Proof.
  intros a b c s H. unfold starts_with, RBRACE3 in H. cbn [strip_prefix] in H. change "}"%char with RBRACE in H.
  destruct (Ascii.eqb RBRACE a); [|discriminate]. destruct (Ascii.eqb RBRACE b); [|discriminate].
  destruct (Ascii.eqb RBRACE c) eqn:E; [|discriminate]. apply eqb_eq_a in E. auto.
Qed.

Lemma tws_not_rbrace : forall w, tws_char w <> RBRACE.
Proof. intros []; vm_compute; discriminate. Qed.

Lemma split_until_ws : forall w s,
    split_until RBRACE3 (append (tws_text w) s)
    = match split_until RBRACE3 s with Some (a, b) => Some (append (tws_text w) a, b) | None => None end.
Proof.
  induction w as [|x w IH]; intros s; cbn [tws_text append].
  - destruct (split_until RBRACE3 s) as [[a b]|]; reflexivity.
  - rewrite split_until_skip.
    + rewrite IH. destruct (split_until RBRACE3 s) as [[a b]|]; reflexivity.
    + destruct (starts_with RBRACE3 (String (tws_char x) (append (tws_text w) s))) eqn:E; auto.
      apply starts3_head in E. exfalso. eapply tws_not_rbrace; eauto.
Qed.

(** last character *)
Lemma rev_append_app : forall a b acc, rev_append (append a b) acc = rev_append b (rev_append a acc).
Proof. induction a; cbn; intros; auto. Qed.

Lemma rev_append_acc : forall a acc, rev_append a acc = append (srev a) acc.
Proof.
  unfold srev. induction a; cbn [rev_append]; intros; auto.
  rewrite IHa. rewrite (IHa (String a EmptyString)). rewrite app_assoc_s. reflexivity.
Qed.

Lemma srev_cons : forall c s, srev (String c s) = append (srev s) (String c EmptyString).
Proof. intros. unfold srev. cbn [rev_append]. apply rev_append_acc. Qed.

Lemma srev_app : forall a b, srev (append a b) = append (srev b) (srev a).
Proof. intros. unfold srev at 1. rewrite rev_append_app. rewrite rev_append_acc. reflexivity. Qed.

Lemma srev_involutive : forall s, srev (srev s) = s.
Proof.
  induction s; [reflexivity|]. rewrite srev_cons, srev_app, IHs. reflexivity.
Qed.

Lemma ends_in_rbrace_cons : forall c x y, ends_in_rbrace (String c (String x y)) = ends_in_rbrace (String x y).
Proof.
  intros. unfold ends_in_rbrace. rewrite (srev_cons c). destruct (srev (String x y)) eqn:E; [|reflexivity].
  exfalso. apply (f_equal srev) in E. rewrite srev_involutive in E. discriminate.
Qed.

Lemma ends_in_rbrace_one : forall c, ends_in_rbrace (String c EmptyString) = Ascii.eqb c RBRACE.
Proof. intros. reflexivity. Qed.

Lemma has_sub_cons : forall t c s, has_sub t (String c s) = false ->
    starts_with t (String c s) = false /\ has_sub t s = false.
Proof. intros t c s H. cbn [has_sub] in H. destruct (starts_with t (String c s)); [discriminate|]. auto. Qed.

Lemma split_until_cmd : forall c w r,
    has_sub RBRACE3 c = false ->
    (ends_in_rbrace c = true -> w <> []) ->
    split_until RBRACE3 (append c (append (tws_text w) (append RBRACE3 r)))
    = Some (append c (tws_text w), append RBRACE3 r).
Proof.
  induction c as [|x c IH]; intros w r H E.
  - cbn [append]. rewrite split_until_ws, split_until_here. rewrite app_nil_r_s. reflexivity.
  - apply has_sub_cons in H as [H1 H2]. cbn [append]. rewrite split_until_skip.
    + rewrite IH; auto.
      intros Hc. apply E. destruct c as [|y c]; [discriminate|]. rewrite ends_in_rbrace_cons. exact Hc.
    + destruct (starts_with RBRACE3 (String x (append c (append (tws_text w) (append RBRACE3 r))))) eqn:T; auto.
      exfalso. destruct c as [|y [|z c]]; cbn [append] in T.
      * (* one character left: x = }, so white space follows *)
        pose proof (starts3_head _ _ T). subst x.
        destruct w as [|w0 w]; [apply E; reflexivity|]. cbn [tws_text append] in T.
        apply starts3_second in T. eapply tws_not_rbrace; eauto.
      * pose proof (starts3_second _ _ _ T). subst y.
        destruct w as [|w0 w].
        { apply E; [|reflexivity]. rewrite ends_in_rbrace_cons. reflexivity. }
        cbn [tws_text append] in T. apply starts3_third in T. eapply tws_not_rbrace; eauto.
      * rewrite (starts3_three x y z _ c) in T. cbn [append] in H1. rewrite H1 in T. discriminate.
Qed.

(** *** [str::trim] *)

Lemma tws_ascii_ws : forall w, ascii_ws (N_of_ascii (tws_char w)) = true.
Proof. intros []; vm_compute; reflexivity. Qed.

Lemma trim_start_ws : forall w s, trim_start (append (tws_text w) s) = trim_start s.
Proof.
  induction w as [|x w IH]; intros; cbn [tws_text append]; auto.
  cbn [trim_start]. rewrite tws_ascii_ws. apply IH.
Qed.

Lemma trim_start_len : forall n s, (String.length s <= n)%nat -> (String.length (trim_start s) <= String.length s)%nat.
Proof.
  induction n; intros s H.
  - destruct s; cbn in *; lia.
  - destruct s as [|a [|b [|c r]]]; cbn [trim_start].
    + cbn; lia.
    + destruct (ascii_ws (N_of_ascii a)); cbn; lia.
    + destruct (ascii_ws (N_of_ascii a)).
      * pose proof (IHn (String b EmptyString)) as Hx. cbn [String.length] in *. specialize (Hx ltac:(lia)). cbn [trim_start] in Hx. lia.
      * destruct (ws2 (N_of_ascii a) (N_of_ascii b)); cbn; lia.
    + cbn [String.length] in H.
      destruct (ascii_ws (N_of_ascii a)).
      * pose proof (IHn (String b (String c r))) as Hx. cbn [String.length] in *. specialize (Hx ltac:(lia)). cbn [trim_start] in Hx. lia.
      * destruct (ws2 (N_of_ascii a) (N_of_ascii b)).
        { pose proof (IHn (String c r)) as Hx. cbn [String.length] in *. specialize (Hx ltac:(lia)). cbn [trim_start] in Hx. lia. }
        destruct (ws3 (N_of_ascii a) (N_of_ascii b) (N_of_ascii c)).
        { pose proof (IHn r) as Hx. cbn [String.length] in *. specialize (Hx ltac:(lia)). cbn [trim_start] in Hx. lia. }
        cbn [String.length]. lia.
Qed.

Lemma trim_start_shorter : forall s t, (String.length s < String.length t)%nat -> trim_start s <> t.
Proof.
  intros s t H E. pose proof (trim_start_len _ s (Nat.le_refl _)). rewrite E in H0. lia.
Qed.

Lemma ws2_tws : forall a w, ws2 a (N_of_ascii (tws_char w)) = false.
Proof. intros a []; unfold ws2; rewrite andb_false_iff; right; vm_compute; reflexivity. Qed.

Lemma ws3_tws_b : forall a w c, ws3 a (N_of_ascii (tws_char w)) c = false.
Proof.
  intros a w c. unfold ws3.
  assert (H1 : N.eqb (N_of_ascii (tws_char w)) 154 = false) by (destruct w; reflexivity).
  assert (H2 : N.eqb (N_of_ascii (tws_char w)) 128 = false) by (destruct w; reflexivity).
  assert (H3 : N.eqb (N_of_ascii (tws_char w)) 129 = false) by (destruct w; reflexivity).
  rewrite H1, H2, H3. rewrite !andb_false_r. reflexivity.
Qed.

Lemma ws3_tws_c : forall a b w, ws3 a b (N_of_ascii (tws_char w)) = false.
Proof.
  intros a b w. unfold ws3.
  assert (H1 : N.eqb (N_of_ascii (tws_char w)) 128 = false) by (destruct w; reflexivity).
  assert (H2 : N.leb 128 (N_of_ascii (tws_char w)) = false) by (destruct w; reflexivity).
  assert (H3 : N.eqb (N_of_ascii (tws_char w)) 168 = false) by (destruct w; reflexivity).
  assert (H4 : N.eqb (N_of_ascii (tws_char w)) 169 = false) by (destruct w; reflexivity).
  assert (H5 : N.eqb (N_of_ascii (tws_char w)) 175 = false) by (destruct w; reflexivity).
  assert (H6 : N.eqb (N_of_ascii (tws_char w)) 159 = false) by (destruct w; reflexivity).
  rewrite H1, H2, H3, H4, H5, H6. cbn [andb orb]. rewrite !andb_false_r. reflexivity.
Qed.

Lemma trim_start_eq : forall s, trim_start s =
  match s with
  | String a r1 =>
      if ascii_ws (N_of_ascii a) then trim_start r1
      else match r1 with
           | String b r2 =>
               if ws2 (N_of_ascii a) (N_of_ascii b) then trim_start r2
               else match r2 with
                    | String c r3 =>
                        if ws3 (N_of_ascii a) (N_of_ascii b) (N_of_ascii c) then trim_start r3 else s
                    | EmptyString => s
                    end
           | EmptyString => s
           end
  | EmptyString => s
  end.
Proof. destruct s; reflexivity. Qed.

Lemma trim_start_fixed_app : forall s w, s <> EmptyString -> trim_start s = s ->
    trim_start (append s (tws_text w)) = append s (tws_text w).
Proof.
  intros s w Hne H. destruct s as [|a [|b [|c r]]]; [congruence| | |].
  - (* one character *)
    rewrite trim_start_eq in H. destruct (ascii_ws (N_of_ascii a)) eqn:A; [discriminate|].
    cbn [append]. destruct w as [|x [|y w]]; cbn [tws_text trim_start]; rewrite A; auto.
    + rewrite ws2_tws. reflexivity.
    + rewrite ws2_tws, ws3_tws_b. reflexivity.
  - rewrite trim_start_eq in H. destruct (ascii_ws (N_of_ascii a)) eqn:A.
    { exfalso. revert H. apply trim_start_shorter. cbn; lia. }
    destruct (ws2 (N_of_ascii a) (N_of_ascii b)) eqn:B; [discriminate|].
    cbn [append]. destruct w as [|x w]; cbn [tws_text trim_start]; rewrite A, B; auto.
    rewrite ws3_tws_c. reflexivity.
  - rewrite trim_start_eq in H. destruct (ascii_ws (N_of_ascii a)) eqn:A.
    { exfalso. revert H. apply trim_start_shorter. cbn; lia. }
    destruct (ws2 (N_of_ascii a) (N_of_ascii b)) eqn:B.
    { exfalso. revert H. apply trim_start_shorter. cbn; lia. }
    destruct (ws3 (N_of_ascii a) (N_of_ascii b) (N_of_ascii c)) eqn:C.
    { exfalso. revert H. apply trim_start_shorter. cbn; lia. }
    cbn [append trim_start]. rewrite A, B, C. reflexivity.
Qed.

Lemma trim_rev_ws : forall w y, trim_rev (rev_append (tws_text w) y) = trim_rev y.
Proof.
  induction w as [|x w IH]; intros; cbn [tws_text rev_append]; auto.
  rewrite IH. cbn [trim_rev]. rewrite tws_ascii_ws. reflexivity.
Qed.

Lemma trim_end_fixed_app : forall s w, trim_end s = s -> trim_end (append s (tws_text w)) = s.
Proof.
  intros s w H. unfold trim_end in *. unfold srev at 2. rewrite rev_append_app, trim_rev_ws.
  exact H.
Qed.

Lemma trim_start_all_ws : forall w, trim_start (tws_text w) = EmptyString.
Proof. induction w; cbn [tws_text trim_start]; auto. rewrite tws_ascii_ws. auto. Qed.

Lemma trim_printed : forall c w0 w1,
    trim_start c = c -> trim_end c = c ->
    trim (append (tws_text w0) (append c (tws_text w1))) = c.
Proof.
  intros c w0 w1 H1 H2. unfold trim. rewrite trim_start_ws.
  destruct c as [|a c].
  - cbn [append]. rewrite trim_start_all_ws. reflexivity.
  - rewrite trim_start_fixed_app by (auto; discriminate). apply trim_end_fixed_app; auto.
Qed.

Lemma strip_prefix_self : forall t r, strip_prefix t (append t r) = Some r.
Proof.
  induction t; cbn [strip_prefix append]; intros; auto.
  rewrite (proj2 (eqb_eq_a a a) eq_refl). apply IHt.
Qed.

Theorem command_printed : forall c w0 w1 r p,
    wf_cmd c = true ->
    triple_bracket_command
      (mkin (append LBRACE3 (append (tws_text w0) (append c (append (tws_text (cmd_ws1 c w1)) (append RBRACE3 r))))) p)
    = Ok (c, mkin r (adv_str RBRACE3 (adv_str (tws_text (cmd_ws1 c w1))
                       (adv_str c (adv_str (tws_text w0) (adv_str LBRACE3 p)))))).
Proof.
  intros c w0 w1 r p W. unfold wf_cmd in W.
  apply andb_true_iff in W as [W W3]. apply andb_true_iff in W as [W1 W2].
  apply negb_true_iff in W1. apply String.eqb_eq in W2, W3.
  unfold triple_bracket_command, tag_p, take_until. cbn [rest at_].
  rewrite strip_prefix_self. cbn [obind rest at_].
  rewrite split_until_ws, split_until_cmd; auto.
  2:{ intros E. unfold cmd_ws1. rewrite E. destruct w1; discriminate. }
  cbn [obind rest at_]. rewrite strip_prefix_self. cbn [obind].
  rewrite trim_printed by assumption.
  rewrite !adv_str_app. reflexivity.
Qed.
