(** Within-word expressions with all kinds of pieces (literals, commands, undefined
    nonterminals), specification side.

    - [wconsume_spec]: what a piece may take from the beginning of a text.
    - [env_ok_sound]: the declarative reading of [Domain.C01_env_ok] for one word expression
      ([env_word_ok]: piece texts are non-empty, a text has one source, two different texts do not
      begin one another).
    - [gacc_sound]: the greedy reading [KnownC01.gacc] is one of the splittings [Meaning.waccepts]
      considers (inside the decided domain, where nothing follows a nonterminal), hence
      [gaccepts en x w = true -> waccepts en x w = true].
    - [sp]: splittings as a relation; [wcands_cand]: the candidates of [Meaning.wcands].
    - [grun]: consuming pieces as long as one begins what is left; [cand_grun]: the candidates
      that add something to the typed text are those offered where the greedy run stops. *)
From CG Require Import Base.Prelude Model.Ast Spec.Rx Spec.Meaning Spec.Domain Spec.KnownC01.
From CG Require Import Proofs.RxFacts Proofs.MeaningFacts Proofs.DfaMeaning Proofs.DomainFacts Proofs.WordTokens
     Proofs.SubwordMatch Proofs.SubwordComplete Proofs.SimGen Proofs.WordSim.

Definition tok_of (en : env) (a : wleaf) (o : string) : Prop :=
  match a with WLit t _ _ => o = t | WCmd c _ => In o (candidates en c) | WAny => False end.

Definition src_of (a : wleaf) : wsrc := match a with WCmd c _ => SCmd c | _ => SLit end.

Lemma nonempty_true s : nonempty s = true <-> s <> EmptyString.
Proof.
  destruct s; cbn; split; intro H.
  - discriminate.
  - contradiction.
  - discriminate.
  - reflexivity.
Qed.

Lemma wconsume_spec en a r o r' :
  In (o, r') (wconsume en a r) <->
  o <> EmptyString /\ r = append o r'
  /\ match a with WLit t _ _ => o = t | WCmd c _ => In o (candidates en c) | WAny => r' = EmptyString end.
Proof.
  destruct a as [t d l | c l |]; cbn [wconsume].
  - destruct (nonempty t && String.prefix t r) eqn:E.
    + apply andb_true_iff in E. destruct E as [E1 E2]. split.
      * intros [H | []]. inversion H; subst. split; [apply nonempty_true; exact E1 | split; [apply prefix_split; exact E2 | reflexivity]].
      * intros [_ [Hr ->]]. left. f_equal. rewrite Hr. apply sdrop_app.
    + split; [intros [] |]. intros [Hn [Hr ->]]. exfalso. apply nonempty_true in Hn. rewrite Hn in E. cbn in E.
      rewrite Hr, prefix_app_l in E. discriminate.
  - rewrite in_flat_map. split.
    + intros [o' [Hin H]]. destruct (nonempty o' && String.prefix o' r) eqn:E; [| destruct H].
      apply andb_true_iff in E. destruct E as [E1 E2]. destruct H as [H | []]. inversion H; subst.
      split; [apply nonempty_true; exact E1 | split; [apply prefix_split; exact E2 | exact Hin]].
    + intros [Hn [Hr Hin]]. exists o. split; [exact Hin |]. apply nonempty_true in Hn. rewrite Hn. cbn.
      rewrite Hr, prefix_app_l. left. f_equal. apply sdrop_app.
  - destruct (nonempty r) eqn:E.
    + split.
      * intros [H | []]. inversion H; subst. split; [apply nonempty_true; exact E | split; [symmetry; apply append_nil_r | reflexivity]].
      * intros [_ [Hr ->]]. rewrite append_nil_r in Hr. subst. left. reflexivity.
    + split; [intros [] |]. intros [Hn [Hr ->]]. rewrite append_nil_r in Hr. subst. apply nonempty_true in Hn. congruence.
Qed.

(** *** the environment, declaratively *)
Definition env_word_ok (en : env) (x : rx wleaf) : Prop :=
  (forall p, In p (wtokens_src en x) -> snd p <> EmptyString)
  /\ (forall p q, In p (wtokens_src en x) -> In q (wtokens_src en x) ->
        (snd p = snd q -> fst p = fst q) /\ (snd p <> snd q -> String.prefix (snd p) (snd q) = false)).

Lemma wsrc_eqb_sound a b : wsrc_eqb a b = true -> a = b.
Proof. destruct a, b; cbn; intro H; try discriminate; [reflexivity |]. apply String.eqb_eq in H. subst. reflexivity. Qed.

Lemma tok_free2_sound p q : tok_free2 p q = true ->
  (snd p = snd q -> fst p = fst q) /\ (snd p <> snd q -> String.prefix (snd p) (snd q) = false /\ String.prefix (snd q) (snd p) = false).
Proof.
  unfold tok_free2. destruct (String.eqb (snd p) (snd q)) eqn:E; intro H.
  - apply String.eqb_eq in E. split; [intros _; apply wsrc_eqb_sound; exact H | intro Hn; contradiction].
  - apply String.eqb_neq in E. split; [intro; contradiction |]. intros _. apply negb_true_iff, orb_false_iff in H. exact H.
Qed.

Lemma env_ok_sound e en : C01_env_ok e en = true -> forall x, In x (subwords_of (tr e)) -> env_word_ok en x.
Proof.
  unfold C01_env_ok. intros H x Hx. apply andb_true_iff in H. destruct H as [H _].
  rewrite forallb_forall in H. specialize (H x Hx). cbn zeta in H. apply andb_true_iff in H. destruct H as [Hn Hp].
  split.
  - intros p Hin. rewrite forallb_forall in Hn. apply nonempty_true. apply (Hn p Hin).
  - intros p q Hp' Hq'. destruct (all_pairs_spec _ _ Hp p q Hp' Hq') as [E | [E | E]].
    + subst q. split; [reflexivity | intro Hne; contradiction].
    + destruct (tok_free2_sound p q E) as [A B]. split; [exact A | intro Hne; apply (B Hne)].
    + destruct (tok_free2_sound q p E) as [A B]. split; [intro Ee; symmetry; apply A; symmetry; exact Ee |].
      intro Hne. apply B. intro Ee. apply Hne. symmetry. exact Ee.
Qed.

Lemma tok_in_src en x a o : In a (leaves x) -> tok_of en a o -> In (src_of a, o) (wtokens_src en x).
Proof.
  intros Ha Ht. unfold wtokens_src. apply in_flat_map. exists a. split; [exact Ha |].
  destruct a as [t d l | c l |]; cbn in Ht |- *.
  - subst. left; reflexivity.
  - apply in_map_iff. exists o. split; [reflexivity | exact Ht].
  - destruct Ht.
Qed.

(** *** sets of residuals inside the decided domain *)
Record winv (x : rx wleaf) (S : list (rx wleaf)) : Prop := {
  wi_reach : reach wsame_item [x] S;
  wi_leaves : forall e, In e S -> forall b, In b (leaves e) -> In b (leaves x)
}.

Lemma winv_start x : winv x [x].
Proof. constructor; [apply reach_here; intro k; reflexivity | intros e [<- | []] b Hb; exact Hb]. Qed.

Lemma after_lit_In t mv k : In k (after_lit t mv) <-> exists d l, In (WLit t d l, k) mv.
Proof.
  unfold after_lit. rewrite in_flat_map. split.
  - intros [[a k'] [Hin H]]. cbn [fst snd] in H. destruct a as [t' d l | |]; try (destruct H; fail).
    destruct (String.eqb t' t) eqn:E; [| destruct H]. apply String.eqb_eq in E. destruct H as [<- | []]. subst t'. eauto.
  - intros [d [l Hin]]. exists (WLit t d l, k). split; [exact Hin |]. cbn [fst snd]. rewrite String.eqb_refl. left; reflexivity.
Qed.

Lemma after_cmd_In c mv k : In k (after_cmd c mv) <-> exists l, In (WCmd c l, k) mv.
Proof.
  unfold after_cmd. rewrite in_flat_map. split.
  - intros [[a k'] [Hin H]]. cbn [fst snd] in H. destruct a as [| c' l |]; try (destruct H; fail).
    destruct (String.eqb c' c) eqn:E; [| destruct H]. apply String.eqb_eq in E. destruct H as [<- | []]. subst c'. eauto.
  - intros [l Hin]. exists (WCmd c l, k). split; [exact Hin |]. cbn [fst snd]. rewrite String.eqb_refl. left; reflexivity.
Qed.

Section InDomain.
  Variable x : rx wleaf.
  Hypothesis Hdom : word_in_domain x.

  Lemma winv_point S : winv x S -> wpoint_decl (mvs S).
  Proof. intro I. destruct Hdom as [_ [_ Hp]]. apply Hp. apply (wi_reach _ _ I). Qed.

  Lemma winv_moves S a k : winv x S -> In (a, k) (mvs S) -> In a (leaves x) /\ forall b, In b (leaves k) -> In b (leaves x).
  Proof.
    intros I Hin. apply mvs_In in Hin. destruct Hin as [r [Hr Hlf]]. destruct (lf_leaves r a k Hlf) as [Ha Hk].
    split; [apply (wi_leaves _ _ I r Hr); exact Ha | intros b Hb; apply (wi_leaves _ _ I r Hr); apply Hk; exact Hb].
  Qed.

  Lemma winv_lit S t d l k0 : winv x S -> In (WLit t d l, k0) (mvs S) -> winv x (after_lit t (mvs S)).
  Proof.
    intros I Hin. constructor.
    - eapply reach_next; [apply (wi_reach _ _ I) | |].
      + apply in_map_iff. exists (WLit t d l, k0). split; [reflexivity | exact Hin].
      + intro k. rewrite after_lit_In. split.
        * intros [d' [l' H]]. exists (WLit t d' l'). split; [exact H | cbn; apply String.eqb_refl].
        * intros [a' [H Ha]]. destruct a'; cbn in Ha; try discriminate. apply String.eqb_eq in Ha. subst. eauto.
    - intros e He b Hb. apply after_lit_In in He. destruct He as [d' [l' H]]. apply (proj2 (winv_moves S _ e I H)). exact Hb.
  Qed.

  Lemma winv_cmd S c l k0 : winv x S -> In (WCmd c l, k0) (mvs S) -> winv x (after_cmd c (mvs S)).
  Proof.
    intros I Hin. destruct (winv_point S I) as [_ [P2 _]]. constructor.
    - eapply reach_next; [apply (wi_reach _ _ I) | |].
      + apply in_map_iff. exists (WCmd c l, k0). split; [reflexivity | exact Hin].
      + intro k. rewrite after_cmd_In. split.
        * intros [l' H]. exists (WCmd c l'). split; [exact H |]. rewrite (P2 c l' l k k0 H Hin). apply wsame_refl.
        * intros [a' [H Ha]]. destruct a'; cbn in Ha; try discriminate.
          apply andb_true_iff in Ha. destruct Ha as [Ha _]. apply String.eqb_eq in Ha. subst. eauto.
    - intros e He b Hb. apply after_cmd_In in He. destruct He as [l' H]. apply (proj2 (winv_moves S _ e I H)). exact Hb.
  Qed.
End InDomain.

(** *** the greedy reading is one of the splittings *)
Lemma first_lit_some mv rest t : first_lit mv rest = Some t ->
  exists d l k, In (WLit t d l, k) mv /\ t <> EmptyString /\ String.prefix t rest = true.
Proof.
  unfold first_lit. destruct (filter _ mv) as [| [a k] r] eqn:E; [discriminate |].
  assert (Hin : In (a, k) (filter (fun ak : wleaf * rx wleaf => match fst ak with
                          | WLit t0 _ _ => nonempty t0 && String.prefix t0 rest | _ => false end) mv)) by (rewrite E; left; reflexivity).
  apply filter_In in Hin. destruct Hin as [Hin Hf]. cbn [fst] in Hf.
  destruct a as [t0 d l | |]; try discriminate. intro H. inversion H; subst t0.
  apply andb_true_iff in Hf. destruct Hf as [H1 H2]. exists d, l, k. split; [exact Hin | split; [apply nonempty_true; exact H1 | exact H2]].
Qed.

Lemma first_lit_none mv rest : first_lit mv rest = None ->
  forall t d l k, In (WLit t d l, k) mv -> t <> EmptyString -> String.prefix t rest = false.
Proof.
  unfold first_lit. intros H t d l k Hin Hne.
  destruct (String.prefix t rest) eqn:Ep; [exfalso | reflexivity].
  assert (Hf : In (WLit t d l, k) (filter (fun ak : wleaf * rx wleaf => match fst ak with
                          | WLit t0 _ _ => nonempty t0 && String.prefix t0 rest | _ => false end) mv)).
  { apply filter_In. split; [exact Hin |]. cbn [fst]. apply nonempty_true in Hne. rewrite Hne, Ep. reflexivity. }
  destruct (filter _ mv) as [| [a k'] r] eqn:E; [destruct Hf |].
  assert (Hh : In (a, k') (filter (fun ak : wleaf * rx wleaf => match fst ak with
                          | WLit t0 _ _ => nonempty t0 && String.prefix t0 rest | _ => false end) mv)) by (rewrite E; left; reflexivity).
  apply filter_In in Hh. destruct Hh as [_ Hh]. cbn [fst] in Hh. destruct a; discriminate.
Qed.

Lemma first_cmd_some en mv rest c o : first_cmd en mv rest = Some (c, o) ->
  exists l k, In (WCmd c l, k) mv /\ In o (candidates en c) /\ o <> EmptyString /\ String.prefix o rest = true.
Proof.
  unfold first_cmd. destruct (flat_map _ mv) as [| co r] eqn:E; [discriminate |]. intro H. inversion H; subst co.
  assert (Hin : In (c, o) (flat_map (fun ak : wleaf * rx wleaf => match fst ak with
                            | WCmd c0 _ => map (fun o0 => (c0, o0)) (filter (fun o0 => nonempty o0 && String.prefix o0 rest) (candidates en c0))
                            | _ => [] end) mv)) by (rewrite E; left; reflexivity).
  apply in_flat_map in Hin. destruct Hin as [[a k] [Hin Hf]]. cbn [fst] in Hf.
  destruct a as [| c0 l |]; try (destruct Hf; fail). apply in_map_iff in Hf. destruct Hf as [o0 [Eo Hf]]. inversion Eo; subst c0 o0.
  apply filter_In in Hf. destruct Hf as [Hc Hf]. apply andb_true_iff in Hf. destruct Hf as [H1 H2].
  exists l, k. split; [exact Hin | split; [exact Hc | split; [apply nonempty_true; exact H1 | exact H2]]].
Qed.

Lemma first_cmd_none en mv rest : first_cmd en mv rest = None ->
  forall c l k o, In (WCmd c l, k) mv -> In o (candidates en c) -> o <> EmptyString -> String.prefix o rest = false.
Proof.
  unfold first_cmd. intros H c l k o Hin Hc Hne. destruct (String.prefix o rest) eqn:Ep; [exfalso | reflexivity].
  assert (Hf : In (c, o) (flat_map (fun ak : wleaf * rx wleaf => match fst ak with
                            | WCmd c0 _ => map (fun o0 => (c0, o0)) (filter (fun o0 => nonempty o0 && String.prefix o0 rest) (candidates en c0))
                            | _ => [] end) mv)).
  { apply in_flat_map. exists (WCmd c l, k). split; [exact Hin |]. cbn [fst]. apply in_map_iff. exists o. split; [reflexivity |].
    apply filter_In. split; [exact Hc |]. apply nonempty_true in Hne. rewrite Hne, Ep. reflexivity. }
  destruct (flat_map _ mv); [destruct Hf | discriminate].
Qed.

Lemma eps_only_sound k : eps_only k = true -> nullable k = true /\ lf k = [].
Proof. unfold eps_only. intro H. apply andb_true_iff in H. destruct H as [H1 H2]. split; [exact H1 |]. destruct (lf k); [reflexivity | discriminate]. Qed.

Lemma sdrop_prefix_shorter t s : String.prefix t s = true -> t <> EmptyString ->
  (String.length (sdrop (String.length t) s) < String.length s)%nat.
Proof.
  intros Hp Hne. pose proof (prefix_split t s Hp) as E. remember (sdrop (String.length t) s) as s' eqn:Es.
  rewrite E, length_append'. destruct t; [contradiction | cbn [String.length]; lia].
Qed.

Section Greedy.
  Variables (en : env) (x : rx wleaf).
  Hypothesis Hdom : word_in_domain x.

  Lemma gacc_sound : forall fuel S rest, winv x S -> gacc en fuel S rest = true ->
    exists e, In e S /\ forall dn f, (String.length rest <= f)%nat ->
      exists e' dn', In (e', dn', EmptyString) (wsplits en f e dn rest) /\ nullable e' = true.
  Proof.
    induction fuel as [| fuel IH]; intros S rest I H.
    - destruct rest as [| ch r]; cbn [gacc] in H; [| discriminate].
      apply existsb_exists in H. destruct H as [e [He Hn]]. exists e. split; [exact He |].
      intros dn f _. exists e, dn. split; [destruct f; cbn [wsplits]; left; reflexivity | exact Hn].
    - destruct rest as [| ch r].
      + cbn [gacc] in H. apply existsb_exists in H. destruct H as [e [He Hn]]. exists e. split; [exact He |].
        intros dn f _. exists e, dn. split; [destruct f; cbn [wsplits]; left; reflexivity | exact Hn].
      + cbn [gacc] in H. set (rest := String ch r) in *. fold (mvs S) in H.
        destruct (first_lit (mvs S) rest) as [t |] eqn:El.
        * destruct (first_lit_some _ _ _ El) as [d [l [k0 [Hin [Hne Hp]]]]].
          destruct (IH _ _ (winv_lit x S t d l k0 I Hin) H) as [k [Hk Hsp]].
          apply after_lit_In in Hk. destruct Hk as [d' [l' Hmv]]. apply mvs_In in Hmv. destruct Hmv as [e [He Hlf]].
          exists e. split; [exact He |]. intros dn f Hf.
          assert (Hr : rest = append t (sdrop (String.length t) rest)) by (apply prefix_split; exact Hp).
          destruct f as [| f]; [cbn in Hf; lia |].
          destruct (Hsp (append dn t) f) as [e' [dn' [Hs Hn]]].
          { pose proof (sdrop_prefix_shorter t rest Hp Hne). lia. }
          exists e', dn'. split; [| exact Hn]. cbn [wsplits]. right. apply in_flat_map. exists (WLit t d' l', k). split; [exact Hlf |].
          cbn [fst snd]. apply in_flat_map. exists (t, sdrop (String.length t) rest). split; [| exact Hs].
          apply wconsume_spec. split; [exact Hne | split; [exact Hr | reflexivity]].
        * destruct (first_cmd en (mvs S) rest) as [[c o] |] eqn:Ec.
          -- destruct (first_cmd_some _ _ _ _ _ Ec) as [l [k0 [Hin [Hc [Hne Hp]]]]].
             destruct (IH _ _ (winv_cmd x Hdom S c l k0 I Hin) H) as [k [Hk Hsp]].
             apply after_cmd_In in Hk. destruct Hk as [l' Hmv]. apply mvs_In in Hmv. destruct Hmv as [e [He Hlf]].
             exists e. split; [exact He |]. intros dn f Hf.
             assert (Hr : rest = append o (sdrop (String.length o) rest)) by (apply prefix_split; exact Hp).
             destruct f as [| f]; [cbn in Hf; lia |].
             destruct (Hsp (append dn o) f) as [e' [dn' [Hs Hn]]].
             { pose proof (sdrop_prefix_shorter o rest Hp Hne). lia. }
             exists e', dn'. split; [| exact Hn]. cbn [wsplits]. right. apply in_flat_map. exists (WCmd c l', k). split; [exact Hlf |].
             cbn [fst snd]. apply in_flat_map. exists (o, sdrop (String.length o) rest). split; [| exact Hs].
             apply wconsume_spec. split; [exact Hne | split; [exact Hr | exact Hc]].
          -- apply existsb_exists in H. destruct H as [[a k] [Hmv Ha]]. cbn [fst] in Ha. destruct a; try discriminate.
             destruct (winv_point x Hdom S I) as [_ [_ P3]]. destruct (eps_only_sound k (P3 k Hmv)) as [Hn _].
             apply mvs_In in Hmv. destruct Hmv as [e [He Hlf]]. exists e. split; [exact He |]. intros dn f Hf.
             destruct f as [| f]; [cbn in Hf; lia |].
             exists k, (append dn rest). split; [| exact Hn]. cbn [wsplits]. right. apply in_flat_map. exists (WAny, k). split; [exact Hlf |].
             cbn [fst snd]. apply in_flat_map. exists (rest, EmptyString). split.
             ++ apply wconsume_spec. split; [discriminate | split; [symmetry; apply append_nil_r | reflexivity]].
             ++ cbn [fst snd]. destruct f; cbn [wsplits]; left; reflexivity.
  Qed.

  Theorem gaccepts_waccepts w : gaccepts en x w = true -> waccepts en x w = true.
  Proof.
    unfold gaccepts, waccepts, wsplits_of. intro H.
    destruct (gacc_sound _ _ _ (winv_start x) H) as [e [[<- | []] Hsp]].
    destruct (Hsp EmptyString (String.length w) (le_n _)) as [e' [dn' [Hs Hn]]].
    apply existsb_exists. exists (e', dn', EmptyString). split; [exact Hs |]. cbn. exact Hn.
  Qed.
End Greedy.

(** *** splittings as a relation *)
Section Splits.
  Variable en : env.

  Inductive sp : rx wleaf -> string -> rx wleaf -> string -> string -> Prop :=
  | sp_here e w : sp e w e EmptyString w
  | sp_step e w a k o r1 e' dn rest :
      In (a, k) (lf e) -> In (o, r1) (wconsume en a w) -> sp k r1 e' dn rest -> sp e w e' (append o dn) rest.

  Lemma wsplits_sp : forall fuel e dn rest e' dn' rest',
      In (e', dn', rest') (wsplits en fuel e dn rest) -> exists d2, sp e rest e' d2 rest' /\ dn' = append dn d2.
  Proof.
    induction fuel as [| f IH]; intros e dn rest e' dn' rest' H; cbn [wsplits] in H.
    - destruct H as [H | []]. inversion H; subst. exists EmptyString. split; [constructor | symmetry; apply append_nil_r].
    - destruct H as [H | H].
      + inversion H; subst. exists EmptyString. split; [constructor | symmetry; apply append_nil_r].
      + apply in_flat_map in H. destruct H as [[a k] [Hlf H]]. cbn [fst snd] in H.
        apply in_flat_map in H. destruct H as [[o r1] [Hc H]]. cbn [fst snd] in H.
        destruct (IH _ _ _ _ _ _ H) as [d2 [Hsp ->]]. exists (append o d2). split; [econstructor; eassumption | apply append_assoc].
  Qed.

  Lemma sp_wsplits e rest e' d2 rest' : sp e rest e' d2 rest' ->
    forall fuel dn, (String.length rest <= fuel)%nat -> In (e', append dn d2, rest') (wsplits en fuel e dn rest).
  Proof.
    induction 1 as [e w | e w a k o r1 e' d rest' Hlf Hc _ IH]; intros fuel dn Hf.
    - rewrite append_nil_r. destruct fuel; cbn [wsplits]; left; reflexivity.
    - pose proof Hc as Hc'. apply wconsume_spec in Hc'. destruct Hc' as [Hne [Hw _]].
      destruct fuel as [| f]; [rewrite Hw, length_append' in Hf; destruct o; [contradiction | cbn in Hf; lia] |].
      cbn [wsplits]. right. apply in_flat_map. exists (a, k). split; [exact Hlf |]. cbn [fst snd].
      apply in_flat_map. exists (o, r1). split; [exact Hc |]. cbn [fst snd]. rewrite <- append_assoc. apply IH.
      rewrite Hw, length_append' in Hf. destruct o; [contradiction | cbn [String.length] in Hf; lia].
  Qed.

  Lemma sp_concat e w e' dn rest : sp e w e' dn rest -> w = append dn rest.
  Proof.
    induction 1 as [e w | e w a k o r1 e' d rest' Hlf Hc _ IH]; [reflexivity |].
    apply wconsume_spec in Hc. destruct Hc as [_ [Hw _]]. rewrite Hw, IH. symmetry. apply append_assoc.
  Qed.

  (** what an expected piece offers for the text [rest] typed so far *)
  Definition item_offer (a : wleaf) (rest : string) (l : N) (o' : string) : Prop :=
    match a with
    | WLit t _ l' => l' = l /\ o' = t /\ String.prefix rest t = true
    | WCmd c l' => l' = l /\ In o' (candidates en c) /\ String.prefix rest o' = true
    | WAny => False
    end.

  Definition cand (S : list (rx wleaf)) (w : string) (l : N) (o : string) : Prop :=
    exists e e' dn rest a k o', In e S /\ sp e w e' dn rest /\ In (a, k) (lf e') /\ item_offer a rest l o' /\ o = append dn o'.

  Definition offers (S : list (rx wleaf)) (rest : string) (l : N) (o' : string) : Prop :=
    exists a k, In (a, k) (mvs S) /\ item_offer a rest l o'.

  Lemma wcands_cand x p l o : In (l, o) (wcands en x p) <-> cand [x] p l o.
  Proof.
    unfold wcands, wsplits_of. rewrite in_flat_map. split.
    - intros [[[e' dn] rest] [Hs H]]. apply in_flat_map in H. destruct H as [[a k] [Hlf H]]. cbn [fst] in H.
      destruct (wsplits_sp _ _ _ _ _ _ _ Hs) as [d2 [Hsp Hd]]. cbn [append] in Hd. subst dn.
      destruct a as [t d l0 | c l0 |].
      + destruct (String.prefix rest t) eqn:Ep; [| destruct H]. destruct H as [E | []]. inversion E; subst.
        exists x, e', d2, rest, (WLit t d l), k, t. split; [left; reflexivity | split; [exact Hsp | split; [exact Hlf | split; [| reflexivity]]]].
        cbn. auto.
      + apply in_map_iff in H. destruct H as [o' [E Ho]]. inversion E; subst. apply filter_In in Ho. destruct Ho as [Ho Hp].
        exists x, e', d2, rest, (WCmd c l), k, o'. split; [left; reflexivity | split; [exact Hsp | split; [exact Hlf | split; [| reflexivity]]]].
        cbn. auto.
      + destruct H.
    - intros [e [e' [dn [rest [a [k [o' [[<- | []] [Hsp [Hlf [Hoff ->]]]]]]]]]]].
      exists (e', dn, rest). split.
      + pose proof (sp_wsplits _ _ _ _ _ Hsp (String.length p) EmptyString (le_n _)) as H. cbn [append] in H. exact H.
      + apply in_flat_map. exists (a, k). split; [exact Hlf |]. cbn [fst].
        destruct a as [t d l0 | c l0 |]; cbn [item_offer] in Hoff.
        * destruct Hoff as [-> [-> Hp]]. rewrite Hp. left; reflexivity.
        * destruct Hoff as [-> [Hc Hp]]. apply in_map_iff. exists o'. split; [reflexivity | apply filter_In; split; assumption].
        * destruct Hoff.
  Qed.

  Lemma cand_inv S w l o :
    cand S w l o <->
    offers S w l o
    \/ exists a k o1 r1 o2, In (a, k) (mvs S) /\ In (o1, r1) (wconsume en a w) /\ cand [k] r1 l o2 /\ o = append o1 o2.
  Proof.
    split.
    - intros [e [e' [dn [rest [a [k [o' [He [Hsp [Hlf [Hoff ->]]]]]]]]]]].
      destruct Hsp as [e w | e w a1 k1 o1 r1 e' d rest Hlf1 Hc Hsp'].
      + left. exists a, k. split; [apply mvs_In; exists e; split; assumption | exact Hoff].
      + right. exists a1, k1, o1, r1, (append d o'). split; [apply mvs_In; exists e; split; assumption | split; [exact Hc | split; [| apply append_assoc]]].
        exists k1, e', d, rest, a, k, o'. split; [left; reflexivity | split; [exact Hsp' | split; [exact Hlf | split; [exact Hoff | reflexivity]]]].
    - intros [[a [k [Hmv Hoff]]] | [a [k [o1 [r1 [o2 [Hmv [Hc [Hcd ->]]]]]]]]].
      + apply mvs_In in Hmv. destruct Hmv as [e [He Hlf]].
        exists e, e, EmptyString, w, a, k, o. split; [exact He | split; [constructor | split; [exact Hlf | split; [exact Hoff | reflexivity]]]].
      + apply mvs_In in Hmv. destruct Hmv as [e [He Hlf]].
        destruct Hcd as [e1 [e' [dn [rest [a2 [k2 [o' [[<- | []] [Hsp [Hlf2 [Hoff ->]]]]]]]]]]].
        exists e, e', (append o1 dn), rest, a2, k2, o'. split; [exact He | split; [econstructor; eassumption | split; [exact Hlf2 | split; [exact Hoff |]]]].
        symmetry. apply append_assoc.
  Qed.

  Lemma cand_mono S S' w l o : (forall e, In e S -> In e S') -> cand S w l o -> cand S' w l o.
  Proof. intros H [e [e' [dn [rest [a [k [o' [He Hr]]]]]]]]. exists e, e', dn, rest, a, k, o'. split; [apply H; exact He | exact Hr]. Qed.

  Lemma cand_single S w l o : cand S w l o -> exists e, In e S /\ cand [e] w l o.
  Proof. intros [e [e' [dn [rest [a [k [o' [He Hr]]]]]]]]. exists e. split; [exact He |]. exists e, e', dn, rest, a, k, o'. split; [left; reflexivity | exact Hr]. Qed.

  Lemma cand_eps k r l o : lf k = [] -> ~ cand [k] r l o.
  Proof.
    intros Hlf H. apply cand_inv in H. unfold offers, mvs in H. cbn [flat_map] in H. rewrite Hlf in H. cbn in H.
    destruct H as [[a [k' [[] _]]] | [a [k' [o1 [r1 [o2 [[] _]]]]]]].
  Qed.

  (** *** the greedy run *)
  Definition etok (S : list (rx wleaf)) (a : wleaf) (k : rx wleaf) (o : string) : Prop := In (a, k) (mvs S) /\ tok_of en a o.

  Definition nextS (S : list (rx wleaf)) (a : wleaf) : list (rx wleaf) :=
    match a with
    | WLit t _ _ => after_lit t (mvs S)
    | WCmd c _ => after_cmd c (mvs S)
    | WAny => []
    end.

  Inductive grun : list (rx wleaf) -> string -> list (rx wleaf) -> string -> string -> Prop :=
  | gr_stop S w : (forall a k o, etok S a k o -> String.prefix o w = false) -> grun S w S EmptyString w
  | gr_step S a k o w' S' mp cp : etok S a k o -> grun (nextS S a) w' S' mp cp -> grun S (append o w') S' (append o mp) cp.

  Section CandGreedy.
    Variable x : rx wleaf.
    Hypothesis Hdom : word_in_domain x.
    Hypothesis Henv : env_word_ok en x.

    Lemma etok_src S a k o : winv x S -> etok S a k o -> o <> EmptyString /\ In (src_of a, o) (wtokens_src en x).
    Proof.
      intros I [Hmv Ht]. destruct (winv_moves x S a k I Hmv) as [Ha _].
      pose proof (tok_in_src en x a o Ha Ht) as Hin. split; [apply (proj1 Henv _ Hin) | exact Hin].
    Qed.

    Lemma etok_prefix S a1 k1 o1 a2 k2 o2 : winv x S -> etok S a1 k1 o1 -> etok S a2 k2 o2 ->
      String.prefix o1 o2 = true -> o1 = o2 /\ src_of a1 = src_of a2.
    Proof.
      intros I E1 E2 Hp. destruct (etok_src S _ _ _ I E1) as [_ H1]. destruct (etok_src S _ _ _ I E2) as [_ H2].
      destruct (proj2 Henv _ _ H1 H2) as [A B]. cbn [fst snd] in A, B.
      destruct (string_dec o1 o2) as [E | Ne]; [split; [exact E | apply A; exact E] |].
      rewrite (B Ne) in Hp. discriminate.
    Qed.

    Lemma etok_consume S a k o w r1 : In (a, k) (mvs S) -> In (o, r1) (wconsume en a w) ->
      (a = WAny /\ r1 = EmptyString) \/ (etok S a k o /\ w = append o r1).
    Proof.
      intros Hmv Hc. apply wconsume_spec in Hc. destruct Hc as [_ [Hw Hk]].
      destruct a as [t d l | c l |]; [right | right | left; split; [reflexivity | exact Hk]];
        (split; [split; [exact Hmv | exact Hk] | exact Hw]).
    Qed.

    Lemma same_src_next S a1 k1 a2 k2 o : etok S a1 k1 o -> etok S a2 k2 o -> src_of a1 = src_of a2 -> In k2 (nextS S a1).
    Proof.
      intros [H1 T1] [H2 T2] Hs. destruct a1 as [t1 d1 l1 | c1 l1 |]; destruct a2 as [t2 d2 l2 | c2 l2 |]; cbn in T1, T2, Hs; try discriminate; try contradiction.
      - subst. cbn [nextS]. apply after_lit_In. eauto.
      - inversion Hs; subst. cbn [nextS]. apply after_cmd_In. eauto.
    Qed.

    Lemma next_member S a k o k2 : etok S a k o -> In k2 (nextS S a) -> exists a2, etok S a2 k2 o.
    Proof.
      intros [H1 T1] Hk. destruct a as [t d l | c l |]; cbn [nextS] in Hk; cbn in T1.
      - apply after_lit_In in Hk. destruct Hk as [d' [l' H]]. exists (WLit t d' l'). split; [exact H | exact T1].
      - apply after_cmd_In in Hk. destruct Hk as [l' H]. exists (WCmd c l'). split; [exact H | exact T1].
      - destruct T1.
    Qed.

    Lemma winv_next S a k o : winv x S -> etok S a k o -> winv x (nextS S a).
    Proof.
      intros I [H1 T1]. destruct a as [t d l | c l |]; cbn [nextS]; cbn in T1.
      - apply (winv_lit x S t d l k I H1).
      - apply (winv_cmd x Hdom S c l k I H1).
      - destruct T1.
    Qed.

    Lemma offer_tok a rest l o : item_offer a rest l o -> tok_of en a o /\ String.prefix rest o = true.
    Proof. destruct a; cbn; intro H; [destruct H as [_ [-> Hp]]; split; [reflexivity | exact Hp] | destruct H as [_ [Hc Hp]]; split; assumption | destruct H]. Qed.

    (** where nothing can be consumed, the candidates are those of the point itself *)
    Lemma cand_stop S w l o : winv x S -> (forall a k o, etok S a k o -> String.prefix o w = false) ->
      (cand S w l o <-> offers S w l o).
    Proof.
      intros I Hstop. rewrite cand_inv. split; [| intro H; left; exact H].
      intros [H | [a [k [o1 [r1 [o2 [Hmv [Hc [Hcd _]]]]]]]]]; [exact H | exfalso].
      destruct (etok_consume S a k o1 w r1 Hmv Hc) as [[-> ->] | [He Hw]].
      - destruct (winv_point x Hdom S I) as [_ [_ P3]]. destruct (eps_only_sound k (P3 k Hmv)) as [_ Hlf].
        apply (cand_eps k _ l o2 Hlf Hcd).
      - pose proof (Hstop _ _ _ He) as Hf. rewrite Hw, prefix_app_l in Hf. discriminate.
    Qed.

    Theorem cand_grun S w S' mp cp : grun S w S' mp cp -> winv x S ->
      w = append mp cp /\ winv x S'
      /\ (forall a k o, etok S' a k o -> String.prefix o cp = false)
      /\ forall l o, (cand S w l o /\ o <> w) <-> exists o', o = append mp o' /\ offers S' cp l o'.
    Proof.
      induction 1 as [S w Hstop | S a k o1 w' S' mp cp He Hg IH]; intro I.
      - split; [reflexivity | split; [exact I | split; [exact Hstop |]]]. intros l o. cbn [append]. split.
        + intros [Hc _]. exists o. split; [reflexivity | apply (cand_stop S w l o I Hstop); exact Hc].
        + intros [o' [-> Hoff]]. split; [apply (cand_stop S w l o' I Hstop); exact Hoff |].
          intro E. subst o'. destruct Hoff as [a [k [Hmv Hoff]]]. destruct (offer_tok _ _ _ _ Hoff) as [Ht _].
          pose proof (Hstop a k w (conj Hmv Ht)) as Hf. rewrite prefix_refl in Hf. discriminate.
      - pose proof (winv_next S a k o1 I He) as I1. destruct (IH I1) as [Ew [I' [Hstop Hiff]]].
        destruct (etok_src S _ _ _ I He) as [Hne1 _].
        split; [rewrite Ew; symmetry; apply append_assoc | split; [exact I' | split; [exact Hstop |]]].
        intros l o. split.
        + intros [Hc Hne]. apply cand_inv in Hc. destruct Hc as [[a2 [k2 [Hmv Hoff]]] | [a2 [k2 [o2 [r1 [o3 [Hmv [Hc [Hcd ->]]]]]]]]].
          * exfalso. destruct (offer_tok _ _ _ _ Hoff) as [Ht Hp].
            assert (Hp1 : String.prefix o1 o = true) by (eapply prefix_trans; [apply prefix_app_l | exact Hp]).
            destruct (etok_prefix S a k o1 a2 k2 o I He (conj Hmv Ht) Hp1) as [E _]. subst o.
            apply prefix_app_self in Hp. apply Hne. rewrite Hp. symmetry. apply append_nil_r.
          * destruct (etok_consume S a2 k2 o2 _ r1 Hmv Hc) as [[-> ->] | [He2 Hw]].
            -- exfalso. destruct (winv_point x Hdom S I) as [_ [_ P3]]. destruct (eps_only_sound k2 (P3 k2 Hmv)) as [_ Hlf].
               apply (cand_eps k2 _ l o3 Hlf Hcd).
            -- assert (P1 : String.prefix o1 (append o1 w') = true) by apply prefix_app_l.
               assert (P2 : String.prefix o2 (append o1 w') = true) by (rewrite Hw; apply prefix_app_l).
               assert (E : o1 = o2 /\ src_of a = src_of a2).
               { destruct (prefixes_comparable o1 o2 _ P1 P2) as [Hc' | Hc'].
                 - apply (etok_prefix S a k o1 a2 k2 o2 I He He2 Hc').
                 - destruct (etok_prefix S a2 k2 o2 a k o1 I He2 He Hc') as [E1 E2]. split; [symmetry; exact E1 | symmetry; exact E2]. }
               destruct E as [<- Hsrc]. apply append_cancel_l in Hw. subst r1.
               assert (Hk2 : In k2 (nextS S a)) by (apply (same_src_next S a k a2 k2 o1 He He2 Hsrc)).
               assert (Hc1 : cand (nextS S a) w' l o3) by (apply (cand_mono [k2]); [intros e [<- | []]; exact Hk2 | exact Hcd]).
               assert (Hne3 : o3 <> w') by (intro E; subst; apply Hne; reflexivity).
               destruct (proj1 (Hiff l o3) (conj Hc1 Hne3)) as [o' [-> Hoff]].
               exists o'. split; [symmetry; apply append_assoc | exact Hoff].
        + intros [o' [-> Hoff]]. destruct (proj2 (Hiff l (append mp o')) (ex_intro _ o' (conj eq_refl Hoff))) as [Hc1 Hne1'].
          rewrite append_assoc. split.
          * apply cand_single in Hc1. destruct Hc1 as [k2 [Hk2 Hcd]].
            destruct (next_member S a k o1 k2 He Hk2) as [a2 [Hmv2 Ht2]].
            apply cand_inv. right. exists a2, k2, o1, w', (append mp o'). split; [exact Hmv2 | split; [| split; [exact Hcd | reflexivity]]].
            apply wconsume_spec. split; [exact Hne1 | split; [reflexivity |]].
            destruct a2; cbn in Ht2 |- *; [exact Ht2 | exact Ht2 | destruct Ht2].
          * intro E. apply append_cancel_l in E. contradiction.
    Qed.
  End CandGreedy.
End Splits.

(** *** [waccepts] depends on the language only *)
Section Lang.
  Variable en : env.

  Inductive wmatchr : list wleaf -> string -> string -> Prop :=
  | wmr_nil w : wmatchr [] w w
  | wmr_cons a ls w o r1 rest : In (o, r1) (wconsume en a w) -> wmatchr ls r1 rest -> wmatchr (a :: ls) w rest.

  Lemma sp_rpath e w e' dn rest : sp en e w e' dn rest -> exists ls, rpath e ls e' /\ wmatchr ls w rest.
  Proof.
    induction 1 as [e w | e w a k o r1 e' d rest Hlf Hc _ IH].
    - exists []. split; constructor.
    - destruct IH as [ls [Hp Hm]]. exists (a :: ls). split; [econstructor; eassumption | econstructor; eassumption].
  Qed.

  Lemma rpath_sp e ls e' : rpath e ls e' -> forall w rest, wmatchr ls w rest -> exists dn, sp en e w e' dn rest.
  Proof.
    induction 1 as [r | r a k ls r' Hlf _ IH]; intros w rest Hm.
    - inversion Hm; subst. eexists. constructor.
    - inversion Hm as [| a' ls' w' o r1 rest' Hc Hm']; subst. destruct (IH _ _ Hm') as [dn Hsp].
      eexists. econstructor; eassumption.
  Qed.

  Lemma waccepts_lang x w : waccepts en x w = true <-> exists ls, RxFacts.denotes x ls /\ wmatchr ls w EmptyString.
  Proof.
    unfold waccepts, wsplits_of. rewrite existsb_exists. split.
    - intros [[[e' dn'] rest'] [Hin H]]. apply andb_true_iff in H. destruct H as [Hr Hn]. destruct rest'; [| discriminate].
      destruct (wsplits_sp en _ _ _ _ _ _ _ Hin) as [d2 [Hsp _]]. destruct (sp_rpath _ _ _ _ _ Hsp) as [ls [Hp Hm]].
      exists ls. split; [| exact Hm]. rewrite <- (app_nil_r ls). eapply rpath_denotes; [exact Hp | apply nullable_denotes; exact Hn].
    - intros [ls [Hd Hm]]. rewrite <- (app_nil_r ls) in Hd. apply denotes_rpath in Hd. destruct Hd as [e' [Hp Hn]].
      destruct (rpath_sp _ _ _ Hp _ _ Hm) as [dn Hsp].
      exists (e', dn, EmptyString). split.
      + pose proof (sp_wsplits en _ _ _ _ _ Hsp (String.length w) EmptyString (le_n _)) as H. cbn [append] in H. exact H.
      + cbn. apply nullable_denotes. exact Hn.
  Qed.

  Lemma waccepts_same_lang x0 x1 w :
    (forall ls, RxFacts.denotes x0 ls <-> RxFacts.denotes x1 ls) -> waccepts en x0 w = waccepts en x1 w.
  Proof.
    intro H.
    assert (E : waccepts en x0 w = true <-> waccepts en x1 w = true).
    { rewrite !waccepts_lang. split; intros [ls [Hd Hm]]; exists ls; (split; [apply H; exact Hd | exact Hm]). }
    destruct (waccepts en x0 w), (waccepts en x1 w); try reflexivity; [symmetry; apply E; reflexivity | apply E; reflexivity].
  Qed.
End Lang.

(** *** the reading of the repaired script: a point that expects an undefined nonterminal accepts
    whatever is left; otherwise the piece that begins the rest is unique *)
Definition has_any (mv : list (wleaf * rx wleaf)) : bool :=
  existsb (fun ak => match fst ak with WAny => true | _ => false end) mv.

Fixpoint sacc (en : env) (fuel : nat) (S : list (rx wleaf)) (rest : string) : bool :=
  match rest with
  | EmptyString => existsb nullable S
  | _ =>
      match fuel with
      | O => false
      | Datatypes.S f =>
          let mv := flat_map lf S in
          if has_any mv then true
          else match first_lit mv rest with
               | Some t => sacc en f (after_lit t mv) (sdrop (String.length t) rest)
               | None =>
                   match first_cmd en mv rest with
                   | Some (c, o) => sacc en f (after_cmd c mv) (sdrop (String.length o) rest)
                   | None => false
                   end
               end
      end
  end.

Definition saccepts (en : env) (x : rx wleaf) (w : string) : bool := sacc en (String.length w) [x] w.

Section StarFirst.
  Variables (en : env) (x : rx wleaf).
  Hypothesis Hdom : word_in_domain x.
  Hypothesis Henv : env_word_ok en x.

  Lemma sacc_sound : forall fuel S rest, winv x S -> sacc en fuel S rest = true ->
    exists e, In e S /\ forall dn f, (String.length rest <= f)%nat ->
      exists e' dn', In (e', dn', EmptyString) (wsplits en f e dn rest) /\ nullable e' = true.
  Proof.
    induction fuel as [| fuel IH]; intros S rest I H.
    - destruct rest as [| ch r]; cbn [sacc] in H; [| discriminate].
      apply existsb_exists in H. destruct H as [e [He Hn]]. exists e. split; [exact He |].
      intros dn f _. exists e, dn. split; [destruct f; cbn [wsplits]; left; reflexivity | exact Hn].
    - destruct rest as [| ch r].
      + cbn [sacc] in H. apply existsb_exists in H. destruct H as [e [He Hn]]. exists e. split; [exact He |].
        intros dn f _. exists e, dn. split; [destruct f; cbn [wsplits]; left; reflexivity | exact Hn].
      + cbn [sacc] in H. set (rest := String ch r) in *. fold (mvs S) in H.
        destruct (has_any (mvs S)) eqn:Ha.
        * unfold has_any in Ha. apply existsb_exists in Ha. destruct Ha as [[a k] [Hmv Hk]]. cbn [fst] in Hk. destruct a; try discriminate.
          destruct (winv_point x Hdom S I) as [_ [_ P3]]. destruct (eps_only_sound k (P3 k Hmv)) as [Hn _].
          apply mvs_In in Hmv. destruct Hmv as [e [He Hlf]]. exists e. split; [exact He |]. intros dn f Hf.
          destruct f as [| f]; [cbn in Hf; lia |].
          exists k, (append dn rest). split; [| exact Hn]. cbn [wsplits]. right. apply in_flat_map. exists (WAny, k). split; [exact Hlf |].
          cbn [fst snd]. apply in_flat_map. exists (rest, EmptyString). split.
          -- apply wconsume_spec. split; [discriminate | split; [symmetry; apply append_nil_r | reflexivity]].
          -- cbn [fst snd]. destruct f; cbn [wsplits]; left; reflexivity.
        * destruct (first_lit (mvs S) rest) as [t |] eqn:El.
          -- destruct (first_lit_some _ _ _ El) as [d [l [k0 [Hin [Hne Hp]]]]].
             destruct (IH _ _ (winv_lit x S t d l k0 I Hin) H) as [k [Hk Hsp]].
             apply after_lit_In in Hk. destruct Hk as [d' [l' Hmv]]. apply mvs_In in Hmv. destruct Hmv as [e [He Hlf]].
             exists e. split; [exact He |]. intros dn f Hf.
             assert (Hr : rest = append t (sdrop (String.length t) rest)) by (apply prefix_split; exact Hp).
             destruct f as [| f]; [cbn in Hf; lia |].
             destruct (Hsp (append dn t) f) as [e' [dn' [Hs Hn]]].
             { pose proof (sdrop_prefix_shorter t rest Hp Hne). lia. }
             exists e', dn'. split; [| exact Hn]. cbn [wsplits]. right. apply in_flat_map. exists (WLit t d' l', k). split; [exact Hlf |].
             cbn [fst snd]. apply in_flat_map. exists (t, sdrop (String.length t) rest). split; [| exact Hs].
             apply wconsume_spec. split; [exact Hne | split; [exact Hr | reflexivity]].
          -- destruct (first_cmd en (mvs S) rest) as [[c o] |] eqn:Ec; [| discriminate].
             destruct (first_cmd_some _ _ _ _ _ Ec) as [l [k0 [Hin [Hc [Hne Hp]]]]].
             destruct (IH _ _ (winv_cmd x Hdom S c l k0 I Hin) H) as [k [Hk Hsp]].
             apply after_cmd_In in Hk. destruct Hk as [l' Hmv]. apply mvs_In in Hmv. destruct Hmv as [e [He Hlf]].
             exists e. split; [exact He |]. intros dn f Hf.
             assert (Hr : rest = append o (sdrop (String.length o) rest)) by (apply prefix_split; exact Hp).
             destruct f as [| f]; [cbn in Hf; lia |].
             destruct (Hsp (append dn o) f) as [e' [dn' [Hs Hn]]].
             { pose proof (sdrop_prefix_shorter o rest Hp Hne). lia. }
             exists e', dn'. split; [| exact Hn]. cbn [wsplits]. right. apply in_flat_map. exists (WCmd c l', k). split; [exact Hlf |].
             cbn [fst snd]. apply in_flat_map. exists (o, sdrop (String.length o) rest). split; [| exact Hs].
             apply wconsume_spec. split; [exact Hne | split; [exact Hr | exact Hc]].
  Qed.

  Lemma sacc_complete : forall fuel S rest, winv x S -> (String.length rest <= fuel)%nat ->
    (exists e e' dn, In e S /\ sp en e rest e' dn EmptyString /\ nullable e' = true) -> sacc en fuel S rest = true.
  Proof.
    induction fuel as [| fuel IH]; intros S rest I Hf [e [e' [dn [He [Hsp Hn]]]]].
    - destruct rest as [| ch r]; [| cbn in Hf; lia]. cbn [sacc].
      inversion Hsp as [e0 w0 | e0 w0 a k o r1 e1 d rest0 Hlf Hc Hsp']; subst.
      + apply existsb_exists. exists e'. split; assumption.
      + apply wconsume_spec in Hc. destruct Hc as [Hne [Hw _]]. destruct o; [contradiction | discriminate].
    - destruct rest as [| ch r].
      + cbn [sacc]. inversion Hsp as [e0 w0 | e0 w0 a k o r1 e1 d rest0 Hlf Hc Hsp']; subst.
        * apply existsb_exists. exists e'. split; assumption.
        * apply wconsume_spec in Hc. destruct Hc as [Hne [Hw _]]. destruct o; [contradiction | discriminate].
      + cbn [sacc]. set (rest := String ch r) in *. fold (mvs S).
        destruct (has_any (mvs S)) eqn:Ha; [reflexivity |].
        inversion Hsp as [e0 w0 | e0 w0 a k o r1 e1 d rest0 Hlf Hc Hsp']; subst; try discriminate.
        assert (Hmv : In (a, k) (mvs S)) by (apply mvs_In; exists e; split; assumption).
        destruct (etok_consume en S a k o rest r1 Hmv Hc) as [[-> _] | [Het Hw]].
        { exfalso. assert (Ht : has_any (mvs S) = true) by (unfold has_any; apply existsb_exists; exists (WAny, k); split; [exact Hmv | reflexivity]). congruence. }
        destruct (etok_src en x Henv S _ _ _ I Het) as [Hne _].
        assert (Hpo : String.prefix o rest = true) by (rewrite Hw; apply prefix_app_l).
        assert (Hr1 : sdrop (String.length o) rest = r1) by (rewrite Hw; apply sdrop_app).
        assert (Hlen : (String.length r1 <= fuel)%nat).
        { pose proof (sdrop_prefix_shorter o rest Hpo Hne) as Hs. rewrite Hr1 in Hs. lia. }
        assert (Hcomp : forall a2 k2 o2, etok en S a2 k2 o2 -> String.prefix o2 rest = true -> o2 = o /\ src_of a2 = src_of a).
        { intros a2 k2 o2 E2 P2. destruct (prefixes_comparable o2 o _ P2 Hpo) as [Hc' | Hc'].
          - apply (etok_prefix en x Henv S a2 k2 o2 a k o I E2 Het Hc').
          - destruct (etok_prefix en x Henv S a k o a2 k2 o2 I Het E2 Hc') as [A B]. split; symmetry; assumption. }
        destruct (first_lit (mvs S) rest) as [t' |] eqn:El.
        * destruct (first_lit_some _ _ _ El) as [d' [l' [k' [Hin' [_ Hp']]]]].
          destruct (Hcomp (WLit t' d' l') k' t' (conj Hin' eq_refl) Hp') as [-> Hsrc].
          destruct a as [t0 d0 l0 | c0 l0 |]; cbn in Hsrc; try discriminate; [| destruct Het as [_ []]].
          destruct Het as [_ Ht0]. cbn in Ht0. subst t0. rewrite Hr1.
          apply (IH _ _ (winv_lit x S o d' l' k' I Hin') Hlen). exists k, e', d. split; [apply after_lit_In; eauto | split; assumption].
        * destruct a as [t0 d0 l0 | c0 l0 |]; [| | destruct Het as [_ []]].
          -- exfalso. destruct Het as [_ Ht0]. cbn in Ht0. subst t0.
             rewrite (first_lit_none _ _ El o d0 l0 k Hmv Hne) in Hpo. discriminate.
          -- destruct Het as [_ Hc0]. cbn in Hc0.
             destruct (first_cmd en (mvs S) rest) as [[c' o'] |] eqn:Ec.
             ++ destruct (first_cmd_some _ _ _ _ _ Ec) as [l' [k' [Hin' [Hc' [_ Hp']]]]].
                destruct (Hcomp (WCmd c' l') k' o' (conj Hin' Hc') Hp') as [-> Hsrc]. cbn in Hsrc. inversion Hsrc; subst c'.
                rewrite Hr1. apply (IH _ _ (winv_cmd x Hdom S c0 l' k' I Hin') Hlen).
                exists k, e', d. split; [apply after_cmd_In; eauto | split; assumption].
             ++ exfalso. rewrite (first_cmd_none _ _ _ Ec c0 l0 k o Hmv Hc0 Hne) in Hpo. discriminate.
  Qed.

  Theorem saccepts_waccepts w : saccepts en x w = waccepts en x w.
  Proof.
    assert (E : saccepts en x w = true <-> waccepts en x w = true).
    { unfold saccepts. split.
      - intro H. destruct (sacc_sound _ _ _ (winv_start x) H) as [e [[<- | []] Hsp]].
        destruct (Hsp EmptyString (String.length w) (le_n _)) as [e' [dn' [Hs Hn]]].
        unfold waccepts, wsplits_of. apply existsb_exists. exists (e', dn', EmptyString). split; [exact Hs |]. cbn. exact Hn.
      - intro H. unfold waccepts, wsplits_of in H. apply existsb_exists in H. destruct H as [[[e' dn'] rest'] [Hin H]].
        apply andb_true_iff in H. destruct H as [Hr Hn]. destruct rest'; [| discriminate].
        destruct (wsplits_sp en _ _ _ _ _ _ _ Hin) as [d2 [Hsp _]].
        apply (sacc_complete _ _ _ (winv_start x) (le_n _)). exists x, e', d2. split; [left; reflexivity | split; assumption]. }
    destruct (saccepts en x w), (waccepts en x w); try reflexivity; [symmetry; apply E; reflexivity | apply E; reflexivity].
  Qed.
End StarFirst.
