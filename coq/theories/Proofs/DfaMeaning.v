(** The states of the compiled automaton against the points of [Spec.Meaning].

    [sim d s S]: the words over inputs the automaton [d] accepts from state [s] are exactly the
    words the residuals in [S] denote (leaf by leaf, through [inp_of_leaf]).  It holds initially
    by C02 ([sim_start]: the automaton accepts what the validated tree denotes, bridged to
    [Spec.Meaning.tr] by [LangBridge.bridge]); a transition on an input preserves it
    ([sim_step]); and, when every transition leads to a state from which something is accepted
    (trimness, C03), the inputs that leave [s] are exactly the items expected at [S]
    ([sim_trans_iff]).  Top level only: literals, commands, undefined nonterminals. *)
From CG Require Import Base.Prelude Model.Ast Model.Dfa Spec.Lang Spec.Rx Spec.Meaning Spec.DfaEquiv.
From CG Require Import Proofs.RxFacts Proofs.MeaningFacts Proofs.TablesSound Proofs.LangBridge.

Definition good_state (s : state) : Prop :=
  forall k, In k s -> zero_free k = true /\ forall a, In a (leaves k) -> plain_leaf a = true.

Lemma leaves_cat_incl {A} (r s : rx A) a : In a (leaves (cat r s)) -> In a (leaves r) \/ In a (leaves s).
Proof. apply leaves_cat. Qed.

Lemma lf_leaves {A} (r : rx A) : forall a k, In (a, k) (lf r) -> In a (leaves r) /\ forall b, In b (leaves k) -> In b (leaves r).
Proof.
  induction r; cbn [lf leaves]; intros a0 k Hin.
  - destruct Hin.
  - destruct Hin.
  - destruct Hin as [E | []]. inversion E; subst. split; [left; reflexivity | intros b []].
  - apply in_app_or in Hin. destruct Hin as [Hin | Hin].
    + apply in_map_iff in Hin. destruct Hin as [[a1 k1] [E Hin]]. cbn in E. inversion E; subst.
      destruct (IHr1 _ _ Hin) as [Ha Hk]. split; [apply in_or_app; left; assumption |].
      intros b Hb. apply leaves_cat in Hb. apply in_or_app. destruct Hb as [Hb | Hb]; [left; apply Hk; assumption | right; assumption].
    + destruct (nullable r1); [| destruct Hin]. destruct (IHr2 _ _ Hin) as [Ha Hk].
      split; [apply in_or_app; right; assumption | intros b Hb; apply in_or_app; right; apply Hk; assumption].
  - apply in_app_or in Hin. destruct Hin as [Hin | Hin].
    + destruct (IHr1 _ _ Hin) as [Ha Hk]. split; [apply in_or_app; left; assumption | intros b Hb; apply in_or_app; left; apply Hk; assumption].
    + destruct (IHr2 _ _ Hin) as [Ha Hk]. split; [apply in_or_app; right; assumption | intros b Hb; apply in_or_app; right; apply Hk; assumption].
  - apply in_map_iff in Hin. destruct Hin as [[a1 k1] [E Hin]]. cbn in E. inversion E; subst.
    destruct (IHr _ _ Hin) as [Ha Hk]. split; [assumption |].
    intros b Hb. apply leaves_cat in Hb. destruct Hb as [Hb | Hb]; [apply Hk; assumption |].
    cbn [star leaves] in Hb. rewrite app_nil_r in Hb. assumption.
Qed.

Lemma good_moves s a k : good_state s -> In (a, k) (moves s) -> plain_leaf a = true /\ good_state [k].
Proof.
  intros G Hin. apply moves_In in Hin. destruct Hin as [r [Hr Hlf]]. destruct (G r Hr) as [Hz Hp].
  destruct (lf_leaves r a k Hlf) as [Ha Hk]. split; [apply Hp; assumption |].
  intros k' [<- | []]. split; [eapply zero_free_lf; eassumption | intros b Hb; apply Hp; apply Hk; assumption].
Qed.

Section Sim.
  Variable d : dfa.
  Hypothesis Hwf : dfa_wf d.
  Hypothesis Hinputs : NoDup (d_inputs d).

  (** words over inputs accepted from a state *)
  Definition dacc (s : N) (xs : list inp) : Prop :=
    exists ids, accepts_from d s ids = true /\ Forall2 (fun i x => nthN (d_inputs d) i = Some x) ids xs.

  Definition sim (s : N) (S : state) : Prop :=
    forall xs, dacc s xs <-> exists k ls, In k S /\ denotes k ls /\ xs = map inp_of_leaf ls.

  Lemma nthN_inj i j x : nthN (d_inputs d) i = Some x -> nthN (d_inputs d) j = Some x -> i = j.
  Proof.
    unfold nthN. intros Hi Hj.
    assert (E : N.to_nat i = N.to_nat j).
    { apply (proj1 (NoDup_nth_error (d_inputs d)) Hinputs).
      - apply nth_error_Some. rewrite Hi. discriminate.
      - rewrite Hi, Hj. reflexivity. }
    lia.
  Qed.

  Lemma dacc_cons s x xs :
    dacc s (x :: xs) <-> exists i t, Dfa.step d s i = Some t /\ nthN (d_inputs d) i = Some x /\ dacc t xs.
  Proof.
    unfold dacc. split.
    - intros [ids [Ha Hf]]. inversion Hf as [| i x' ids' xs' Hi Hf']; subst.
      unfold accepts_from in Ha. cbn [Dfa.run] in Ha. destruct (Dfa.step d s i) as [t |] eqn:Es; [| discriminate].
      exists i, t. repeat split; try assumption. exists ids'. split; assumption.
    - intros [i [t [Es [Hi [ids [Ha Hf]]]]]]. exists (i :: ids). split; [| constructor; assumption].
      unfold accepts_from in *. cbn [Dfa.run]. rewrite Es. assumption.
  Qed.

  Lemma dacc_nil s : dacc s [] <-> is_accepting d s = true.
  Proof.
    unfold dacc. split.
    - intros [ids [Ha Hf]]. inversion Hf; subst. exact Ha.
    - intro H. exists []. split; [exact H | constructor].
  Qed.

  (** every id on an accepted path names an input *)
  Lemma step_has_input s i t : Dfa.step d s i = Some t -> exists x, nthN (d_inputs d) i = Some x.
  Proof.
    intro H. unfold Dfa.step in H. destruct (assocN s (d_trans d)) as [tos |] eqn:E; [| discriminate].
    apply assocN_in in E. apply assocN_in in H. destruct Hwf as [_ W]. destruct (W s tos E) as [_ Hr]. apply (Hr i t H).
  Qed.

  Lemma accepted_has_inputs : forall ids s, accepts_from d s ids = true -> exists xs, dacc s xs /\ Forall2 (fun i x => nthN (d_inputs d) i = Some x) ids xs.
  Proof.
    induction ids as [| i ids IH]; intros s Ha.
    - exists []. split; [apply dacc_nil; exact Ha | constructor].
    - unfold accepts_from in Ha. cbn [Dfa.run] in Ha. destruct (Dfa.step d s i) as [t |] eqn:Es; [| discriminate].
      destruct (step_has_input s i t Es) as [x Hx]. destruct (IH t Ha) as [xs [Hd Hf]].
      exists (x :: xs). split; [apply dacc_cons; exists i, t; repeat split; assumption | constructor; assumption].
  Qed.

  (** A transition on the input [x] leads to the point reached by reading the items that stand for [x]. *)
  Theorem sim_step s S i t x S' :
    sim s S -> good_state S -> Dfa.step d s i = Some t -> nthN (d_inputs d) i = Some x ->
    (forall k, In k S' <-> exists a, In (a, k) (moves S) /\ inp_of_leaf a = x) ->
    sim t S'.
  Proof.
    intros Hsim G Es Hi HS' xs. split.
    - intro Hd.
      assert (Hd' : dacc s (x :: xs)) by (apply dacc_cons; exists i, t; repeat split; assumption).
      apply Hsim in Hd'. destruct Hd' as [k [ls [Hk [Hden E]]]].
      destruct ls as [| a ls]; [discriminate |]. cbn [map] in E. inversion E; subst.
      apply lf_correct in Hden. destruct Hden as [k' [Hlf Hden']].
      exists k', ls. split; [| split; [assumption | reflexivity]].
      apply HS'. exists a. split; [apply moves_In; exists k; split; assumption | reflexivity].
    - intros [k' [ls [Hk' [Hden ->]]]]. apply HS' in Hk'. destruct Hk' as [a [Hmv Ha]].
      apply moves_In in Hmv. destruct Hmv as [k [Hk Hlf]].
      assert (Hd' : dacc s (map inp_of_leaf (a :: ls))).
      { apply Hsim. exists k, (a :: ls). split; [assumption | split; [| reflexivity]]. eapply lf_sound; eassumption. }
      cbn [map] in Hd'. apply dacc_cons in Hd'. destruct Hd' as [j [t' [Es' [Hj Hd']]]].
      rewrite Ha in Hj. rewrite (nthN_inj j i x Hj Hi) in Es'. rewrite Es in Es'. inversion Es'; subst. assumption.
  Qed.

  (** The inputs that leave a state are the items expected at the point, provided every
      transition leads somewhere useful. *)
  Theorem sim_trans_iff s S x :
    sim s S -> good_state S ->
    (forall i t, Dfa.step d s i = Some t -> coreachable d t) ->
    ((exists t, trans_on d s x t) <-> exists a k, In (a, k) (moves S) /\ inp_of_leaf a = x).
  Proof.
    intros Hsim G Hco. split.
    - intros [t [i [Es Hi]]]. destruct (Hco i t Es) as [w Hw].
      destruct (accepted_has_inputs w t Hw) as [xs [Hd _]].
      assert (Hd' : dacc s (x :: xs)) by (apply dacc_cons; exists i, t; repeat split; assumption).
      apply Hsim in Hd'. destruct Hd' as [k [ls [Hk [Hden E]]]].
      destruct ls as [| a ls]; [discriminate |]. cbn [map] in E. inversion E; subst.
      apply lf_correct in Hden. destruct Hden as [k' [Hlf _]].
      exists a, k'. split; [apply moves_In; exists k; split; assumption | reflexivity].
    - intros [a [k' [Hmv Ha]]].
      destruct (good_moves S a k' G Hmv) as [_ Gk]. destruct (Gk k' (or_introl eq_refl)) as [Hz _].
      destruct (zero_free_inhabited k' Hz) as [ls Hls].
      apply moves_In in Hmv. destruct Hmv as [k [Hk Hlf]].
      assert (Hd' : dacc s (map inp_of_leaf (a :: ls))).
      { apply Hsim. exists k, (a :: ls). split; [assumption | split; [| reflexivity]]. eapply lf_sound; eassumption. }
      cbn [map] in Hd'. apply dacc_cons in Hd'. destruct Hd' as [j [t [Es [Hj _]]]].
      exists t, j. rewrite Ha in Hj. split; assumption.
  Qed.

  (** acceptance *)
  Lemma sim_accepting s S : sim s S -> (is_accepting d s = true <-> exists k, In k S /\ nullable k = true).
  Proof.
    intro Hsim. rewrite <- dacc_nil, (Hsim []). split.
    - intros [k [ls [Hk [Hden E]]]]. destruct ls; [| discriminate]. exists k. split; [assumption | apply nullable_denotes; assumption].
    - intros [k [Hk Hn]]. exists k, []. split; [assumption | split; [apply nullable_denotes; assumption | reflexivity]].
  Qed.
End Sim.

(** *** Initially: C02 *)
Lemma item_of_inp_leaf cd x a :
  plain_leaf a = true -> item_equiv (item_of_inp cd x) (item_of_leaf a) -> x = inp_of_leaf a.
Proof.
  destruct a; cbn [plain_leaf item_of_leaf]; intros Hp H; try discriminate;
    destruct x; cbn [item_of_inp item_equiv] in H; try contradiction; inversion H; subst; reflexivity.
Qed.

Lemma item_equiv_refl it : item_equiv it it.
Proof. destruct it; cbn; [reflexivity | split; [reflexivity | intro; reflexivity]]. Qed.

Theorem sim_start (c : cdfa) (e : expr) :
  toplevel_tree e = true ->
  (forall w, accepts_items c w <-> Lang.denotes e w) ->
  sim (c_main c) (d_start (c_main c)) (start e).
Proof.
  intros Ht HL xs. unfold start. split.
  - intros [ids [Ha Hf]].
    assert (Hacc : accepts_items c (map (item_of_inp c) xs)).
    { exists ids. split; [exact Ha |]. clear Ha. induction Hf as [| i x ids xs Hi Hf IH]; cbn [map]; constructor; [| assumption].
      exists x. split; [assumption | apply item_equiv_refl]. }
    apply HL in Hacc. apply (bridge e _ Ht) in Hacc. destruct Hacc as [ls [Hden E]].
    exists (tr e), ls. split; [left; reflexivity | split; [assumption |]].
    assert (Hpl : forall a, In a ls -> plain_leaf a = true).
    { intros a Ha'. eapply toplevel_leaves_plain; [exact Ht | eapply denotes_leaves; eassumption]. }
    clear Hden Hf Ha. revert ls E Hpl. induction xs as [| x xs IH]; intros [| a ls] E Hpl; cbn [map] in *; try discriminate; [reflexivity |].
    inversion E as [[E1 E2]]. f_equal.
    + apply (item_of_inp_leaf c); [apply Hpl; left; reflexivity | rewrite E1; apply item_equiv_refl].
    + apply IH; [assumption | intros b Hb; apply Hpl; right; assumption].
  - intros [k [ls [[<- | []] [Hden ->]]]].
    assert (Hpl : forall a, In a ls -> plain_leaf a = true).
    { intros a Ha'. eapply toplevel_leaves_plain; [exact Ht | eapply denotes_leaves; eassumption]. }
    assert (Hacc : accepts_items c (map item_of_leaf ls)) by (apply HL; apply bridge_from; assumption).
    destruct Hacc as [ids [Ha Hf]]. exists ids. split; [exact Ha |].
    clear Ha Hden. revert ids Hf Hpl. induction ls as [| a ls IH]; intros ids Hf Hpl; cbn [map] in *.
    + inversion Hf; subst. constructor.
    + inversion Hf as [| i it ids' its [x [Hi Heq]] Hf']; subst. constructor.
      * rewrite <- (item_of_inp_leaf c x a); [assumption | apply Hpl; left; reflexivity | assumption].
      * apply IH; [assumption | intros b Hb; apply Hpl; right; assumption].
Qed.

Lemma good_start e : toplevel_tree e = true -> TreeFacts.alts_nonempty e = true -> good_state (start e).
Proof.
  intros Ht Ha k [<- | []]. split; [apply zero_free_tr; assumption | apply toplevel_leaves_plain; assumption].
Qed.
