(** The description-conflict class at the level of the accepted language: on a well-formed trim
    automaton with interned inputs, [check_ambiguity_best_effort] fails iff the language has two
    words with a common prefix that continue with the same literal text under two different
    descriptions ("the same literal expected at one point with two different descriptions");
    the failure is always [ConflictingDescriptions] -- [AmbiguousDFA] cannot occur, because the
    unbounded item is one interned input and a state has at most one transition per input. *)
From CG Require Import Base.Prelude Model.Dfa Model.Ambiguity Spec.DfaEquiv.
From CG Require Import Proofs.TablesSound Proofs.AmbWalk Proofs.AmbTotal.

Local Open Scope list_scope.

Definition lang_conflict (d : dfa) : Prop :=
  exists u i j v1 v2 t d1 d2 l1 l2,
    accepts d (u ++ i :: v1) = true /\ accepts d (u ++ j :: v2) = true /\
    nthN (d_inputs d) i = Some (ILit t d1 l1) /\ nthN (d_inputs d) j = Some (ILit t d2 l2) /\ d1 <> d2.

Lemma lang_conflict_ext d d' :
  d_inputs d' = d_inputs d -> (forall w, accepts d' w = accepts d w) -> lang_conflict d -> lang_conflict d'.
Proof.
  intros Hi Ha (u & i & j & v1 & v2 & t & d1 & d2 & l1 & l2 & A1 & A2 & N1 & N2 & Hd).
  exists u, i, j, v1, v2, t, d1, d2, l1, l2. rewrite !Ha, Hi. auto.
Qed.

Lemma run_app' d : forall u v s, run d s (u ++ v) = match run d s u with Some t => run d t v | None => None end.
Proof.
  induction u as [|i u IH]; intros v s; cbn [run app]; [reflexivity|].
  destruct (step d s i); [apply IH|reflexivity].
Qed.

Lemma nthN_NoDup_inj {A} (l : list A) i j x : NoDup l -> nthN l i = Some x -> nthN l j = Some x -> i = j.
Proof.
  unfold nthN. intros Hnd Hi Hj.
  assert (H : N.to_nat i = N.to_nat j).
  { eapply (proj1 (NoDup_nth_error l) Hnd); [apply nth_error_Some; congruence|congruence]. }
  lia.
Qed.

Section Trim.
  Variable m : dfa.
  Hypothesis Hwf : dfa_wf m.
  Hypothesis Hnd : NoDup (d_inputs m).
  Hypothesis Htrim : trim m.

  Lemma row_of s : transitions_from m s <> [] -> In (s, transitions_from m s) (d_trans m).
  Proof.
    unfold transitions_from. destruct (assocN s (d_trans m)) as [r|] eqn:E; [|congruence].
    intros _. apply assocN_in. exact E.
  Qed.

  Lemma edge_step s i t : In (i, t) (transitions_from m s) <-> step m s i = Some t.
  Proof.
    unfold step. split.
    - intro H. assert (Hne : transitions_from m s <> []) by (intro E; rewrite E in H; destruct H).
      pose proof (row_of s Hne) as Hr. unfold transitions_from in *.
      destruct (assocN s (d_trans m)) as [r|]; [|destruct H].
      apply in_assocN; [|exact H]. apply (proj2 Hwf s r Hr).
    - unfold transitions_from. destruct (assocN s (d_trans m)) as [r|]; [|discriminate].
      apply assocN_in.
  Qed.

  Lemma in_range : AmbTotal.inputs_in_range m.
  Proof.
    intros s i t H. assert (Hne : transitions_from m s <> []) by (intro E; rewrite E in H; destruct H).
    destruct (proj2 (proj2 Hwf s _ (row_of s Hne)) i t H) as [x Hx].
    unfold nthN, lenN in *. assert (Hl : (N.to_nat i < List.length (d_inputs m))%nat) by (apply nth_error_Some; congruence).
    lia.
  Qed.

  Lemma star_targets_le1 s : (List.length (star_targets m s) <= 1)%nat.
  Proof.
    unfold star_targets.
    assert (Hk : NoDup (map fst (transitions_from m s))).
    { destruct (transitions_from m s) as [|p r] eqn:E; [constructor|]. rewrite <- E.
      apply (proj2 Hwf s _). apply row_of. rewrite E. discriminate. }
    induction (transitions_from m s) as [|[i t] r IH]; [cbn; lia|].
    cbn [flat_map map fst] in *. inversion Hk as [|? ? Hni Hr]; subst. specialize (IH Hr).
    destruct (nthN (d_inputs m) i) as [[| | | |]|] eqn:Ei; cbn [app]; try (exact IH || lia).
    assert (Hz : flat_map (fun p : N * N => match nthN (d_inputs m) (fst p) with Some IStar => [snd p] | _ => [] end) r = []).
    { clear IH Hr Hk. induction r as [|[j t'] r IHr]; [reflexivity|]. cbn [flat_map fst snd].
      destruct (nthN (d_inputs m) j) as [[| | | |]|] eqn:Ej; cbn [app];
        try (apply IHr; intro H; apply Hni; right; exact H).
      exfalso. apply Hni. left. cbn. eapply nthN_NoDup_inj; eauto. }
    rewrite Hz. cbn. lia.
  Qed.

  Lemma no_star_ambiguity s : ~ star_ambiguous m s.
  Proof. intros [H _]. pose proof (star_targets_le1 s). lia. Qed.

  Lemma reachable_run u : AmbWalk.reachable m u -> exists w, run m (d_start m) w = Some u.
  Proof.
    induction 1 as [|s t Hs IH Hsucc]; [exists []; reflexivity|].
    destruct IH as [w Hw]. destruct Hsucc as [i Hi].
    exists (w ++ [i]). rewrite run_app', Hw. cbn [run]. apply edge_step in Hi. rewrite Hi. reflexivity.
  Qed.

  Lemma run_reachable w : forall s u, AmbWalk.reachable m s -> run m s w = Some u -> AmbWalk.reachable m u.
  Proof.
    induction w as [|i w IH]; intros s u Hs H; cbn [run] in H; [inversion H; subst; exact Hs|].
    destruct (step m s i) as [t|] eqn:E; [|discriminate].
    apply (IH t u); [|exact H]. eapply reach_step; [exact Hs|]. exists i. apply edge_step. exact E.
  Qed.

  Lemma target_state s i t : In (i, t) (transitions_from m s) -> In t (states m).
  Proof.
    intro H. unfold states. apply nodup_In. right. apply in_or_app. left.
    unfold trans_states. apply in_flat_map. exists (s, transitions_from m s). split.
    - apply row_of. intro E. rewrite E in H. destruct H.
    - right. cbn [snd]. apply in_map_iff. exists (i, t). split; [reflexivity|exact H].
  Qed.

  Lemma lit_label_edge s t de : In (t, de) (lit_labels m s) ->
    exists i to l, In (i, to) (transitions_from m s) /\ nthN (d_inputs m) i = Some (ILit t de l).
  Proof.
    unfold lit_labels. intro H. apply in_flat_map in H. destruct H as [[i to] [Hin H]]. cbn [fst] in H.
    destruct (nthN (d_inputs m) i) as [[t' de' l| | | |]|] eqn:E; cbn in H; try contradiction.
    destruct H as [H|[]]. inversion H; subst. eauto.
  Qed.

  Lemma edge_lit_label s i to t de l :
    In (i, to) (transitions_from m s) -> nthN (d_inputs m) i = Some (ILit t de l) -> In (t, de) (lit_labels m s).
  Proof.
    intros Hin Hn. unfold lit_labels. apply in_flat_map. exists (i, to). split; [exact Hin|].
    cbn [fst]. rewrite Hn. left. reflexivity.
  Qed.

  Theorem conflict_language :
    (exists e, check_ambiguity_best_effort m = Err e) <-> lang_conflict m.
  Proof.
    split.
    - intros [e He]. destruct (amb_rejects m e He) as (u & q & _ & Hu & [(ins & _ & Hs)|(t & l & r & _ & Hc)]).
      + exfalso. exact (no_star_ambiguity u Hs).
      + destruct Hc as ([t1 d1] & [t2 d2] & Ha & Hb & Ht & Hd). cbn in Ht, Hd. subst t2.
        destruct (lit_label_edge _ _ _ Ha) as (i & to1 & l1 & Hi & Ni).
        destruct (lit_label_edge _ _ _ Hb) as (j & to2 & l2 & Hj & Nj).
        destruct (reachable_run u Hu) as [w Hw].
        destruct (proj2 Htrim to1 (target_state _ _ _ Hi)) as [v1 Hv1].
        destruct (proj2 Htrim to2 (target_state _ _ _ Hj)) as [v2 Hv2].
        exists w, i, j, v1, v2, t1, d1, d2, l1, l2.
        apply edge_step in Hi. apply edge_step in Hj.
        unfold accepts, accepts_from in *. rewrite !run_app', Hw. cbn [run]. rewrite Hi, Hj. auto.
    - intros (u & i & j & v1 & v2 & t & d1 & d2 & l1 & l2 & A1 & A2 & N1 & N2 & Hd).
      destruct (check_ambiguity_total m in_range) as [Hok|He]; [|exact He]. exfalso.
      unfold accepts, accepts_from in A1, A2. rewrite run_app' in A1, A2.
      destruct (run m (d_start m) u) as [s|] eqn:Hu; [|discriminate]. cbn [run] in A1, A2.
      destruct (step m s i) as [to1|] eqn:Ei; [|discriminate].
      destruct (step m s j) as [to2|] eqn:Ej; [|discriminate].
      apply edge_step in Ei. apply edge_step in Ej.
      assert (Hr : AmbWalk.reachable m s) by (eapply run_reachable; [apply reach_start|exact Hu]).
      destruct (amb_accepts m Hok s Hr) as (_ & _ & Hnc). apply Hnc.
      exists (t, d1), (t, d2). split; [exact (edge_lit_label s i to1 t d1 l1 Ei N1)|]. split; [exact (edge_lit_label s j to2 t d2 l2 Ej N2)|].
      split; [reflexivity|exact Hd].
  Qed.

  Theorem only_conflicts e :
    check_ambiguity_best_effort m = Err e -> exists q t l r, e = ConflictingDescriptions q t l r.
  Proof.
    intro He. destruct (amb_rejects m e He) as (u & q & _ & _ & [(ins & _ & Hs)|(t & l & r & -> & _)]).
    - exfalso. exact (no_star_ambiguity u Hs).
    - eauto.
  Qed.
End Trim.
