(** C12 on the within-word loop of Model/BashSem.v: the repaired matcher ([Fixed]) recognises fully typed values
    of a prefix chain and offers exactly the extending values for a partial one; the pinned one is refuted. *)
From CG Require Import Base.Prelude Model.Dfa Model.Glob Model.BashSem Proofs.GlobFacts Proofs.SubwordFacts.

Definition lits_of (T : tables) : list (N * string) := indexed_from 0 (literal_texts T).

(** one round of the while loop *)
Lemma sw_loop_S fuel v complete tabs e T acc word state ci log :
  sw_loop (S fuel) v complete tabs e T acc word state ci log =
  if Nat.leb (String.length word) ci then Ok (quirky v || complete || memN state acc, state, ci, log)
  else if star_first v complete T state then Ok (true, state, ci, log)
  else
    let sub := sdrop ci word in
    do s1 <- match assocN state (t_mlit T) with
             | Some st => lit_loop v complete (indexed_from 0 (literal_texts T)) st sub
             | None => Ok SNone
             end;
    match s1 with
    | SCont st adv => sw_loop fuel v complete tabs e T acc word st (ci + adv) log
    | SBreak => Ok (false, state, ci, log)
    | SNone =>
      do (s2, log2) <- match t_mcmd T with
                       | Some ct =>
                         match assocN state ct with
                         | Some row => cmd_loop v complete tabs e (assoc_of row) sub (stake ci word) log
                         | None => Ok (SNone, log)
                         end
                       | None => Ok (SNone, log)
                       end;
      match s2 with
      | SCont st adv => sw_loop fuel v complete tabs e T acc word st (ci + adv) log2
      | SBreak => Ok (false, state, ci, log2)
      | SNone =>
        match t_mstar T with
        | Some stars => if has_key state stars then Ok (true, state, ci, log2) else Ok (false, state, ci, log2)
        | None => Ok (false, state, ci, log2)
        end
      end
    end.
Proof. reflexivity. Qed.

(** *** strings *)
Lemma sdrop_length n : forall s, String.length (sdrop n s) = (String.length s - n)%nat.
Proof.
  induction n as [|n IH]; intros s; destruct s as [|c s]; cbn [sdrop String.length]; try lia.
  rewrite IH. lia.
Qed.

Lemma plain_sdrop n : forall s, plain s = true -> plain (sdrop n s) = true.
Proof.
  induction n as [|n IH]; intros s H; destruct s as [|c s]; cbn [sdrop]; try assumption.
  cbn [plain] in H. apply andb_true_iff in H as [_ H]. now apply IH.
Qed.

Lemma stake_sdrop n : forall s, (stake n s ++ sdrop n s)%string = s.
Proof.
  induction n as [|n IH]; intros s; destruct s as [|c s]; cbn [stake sdrop append]; try reflexivity.
  now rewrite IH.
Qed.

Lemma sdrop_app a : forall b, sdrop (String.length a) (a ++ b) = b.
Proof. induction a as [|c a IH]; intros b; cbn [String.length sdrop append]; [reflexivity|apply IH]. Qed.

Lemma stake_app a : forall b, stake (String.length a) (a ++ b) = a.
Proof.
  induction a as [|c a IH]; intros b; cbn [String.length stake append].
  - destruct b; reflexivity.
  - now rewrite IH.
Qed.

Lemma prefix_app_same a : forall b c, String.prefix (a ++ b) (a ++ c) = String.prefix b c.
Proof.
  induction a as [|x a IH]; intros b c; cbn [append]; [reflexivity|].
  cbn [String.prefix]. destruct (ascii_dec x x); [apply IH|congruence].
Qed.

Lemma strdom_sdrop var lits word ci :
  strdom var lits word -> var = Repaired \/ (all_plain lits /\ plain (sdrop ci word) = true).
Proof. intros [H|[H1 H2]]; [now left|right]. split; [exact H1|now apply plain_sdrop]. Qed.

(** *** (a) a fully typed value is recognised *)
Theorem fixed_value_recognised :
  forall var fuel tabs e T acc word s st ci v to log,
    var <> Pinned -> strdom var (lits_of T) word -> sorted_desc (lits_of T) ->
    assocN s (t_mlit T) = Some st ->
    sdrop ci word = v -> (ci < String.length word)%nat ->
    first_enabled (lits_of T) st v = Some to ->
    quirky var || memN to acc = true ->
    star_first var false T s = false ->
    sw_loop (S (S fuel)) var false tabs e T acc word s ci log = Ok (true, to, String.length word, log).
Proof.
  intros var fuel tabs e T acc word s st ci v to log Hvar Hdom Hs Hst Hv Hci Hf Hacc Hsf.
  rewrite sw_loop_S.
  assert (Nat.leb (String.length word) ci = false) as -> by (apply Nat.leb_gt; exact Hci). rewrite Hsf.
  pose proof (strdom_sdrop var _ word ci Hdom) as Hd. rewrite Hv in Hd.
  cbv zeta. rewrite Hst, Hv.
  fold (lits_of T).
  rewrite (lit_loop_nonpinned var false st v (lits_of T) Hvar Hd). cbn [obind].
  rewrite (fixed_consumes_value st v (lits_of T) to Hs Hf).
  rewrite sw_loop_S.
  assert (L : (ci + String.length v = String.length word)%nat).
  { rewrite <- Hv, sdrop_length. lia. }
  rewrite L. rewrite Nat.leb_refl. rewrite orb_false_r, Hacc. reflexivity.
Qed.

(** *** the pinned loop: exactly when it fails (a) *)
Theorem pinned_value_recognised_outside_known :
  forall fuel tabs e T acc word s st ci v to log,
    all_plain (lits_of T) -> plain word = true -> sorted_desc (lits_of T) ->
    assocN s (t_mlit T) = Some st ->
    sdrop ci word = v -> (ci < String.length word)%nat ->
    first_enabled (lits_of T) st v = Some to ->
    (forall id l, In (id, l) (lits_of T) -> String.prefix v l = true -> l = v /\ assocN id st <> None) ->
    sw_loop (S (S fuel)) Pinned false tabs e T acc word s ci log = Ok (true, to, String.length word, log).
Proof.
  intros fuel tabs e T acc word s st ci v to log Hpl Hpw Hs Hst Hv Hci Hf Hk.
  rewrite sw_loop_S.
  assert (Nat.leb (String.length word) ci = false) as -> by (apply Nat.leb_gt; exact Hci). cbn [star_first quirky negb andb].
  cbv zeta. rewrite Hst, Hv. unfold lit_loop.
  assert (Hpv : plain v = true) by (rewrite <- Hv; now apply plain_sdrop).
  fold (lits_of T).
  rewrite (lit_loop_pinned_plain st v (lits_of T) Hpl Hpv). cbn [obind].
  rewrite (pinned_consumes_value st v (lits_of T) to Hs Hf Hk).
  rewrite sw_loop_S.
  assert (L : (ci + String.length v = String.length word)%nat).
  { rewrite <- Hv, sdrop_length. lia. }
  rewrite L. rewrite Nat.leb_refl. reflexivity.
Qed.

Theorem pinned_value_refused :
  forall fuel tabs e T acc word s st ci v log,
    all_plain (lits_of T) -> plain word = true -> sorted_desc (lits_of T) ->
    assocN s (t_mlit T) = Some st ->
    sdrop ci word = v -> (ci < String.length word)%nat ->
    (exists id l, In (id, l) (lits_of T) /\ String.prefix v l = true /\ l <> v) ->
    sw_loop (S fuel) Pinned false tabs e T acc word s ci log = Ok (false, s, ci, log).
Proof.
  intros fuel tabs e T acc word s st ci v log Hpl Hpw Hs Hst Hv Hci Hex.
  rewrite sw_loop_S.
  assert (Nat.leb (String.length word) ci = false) as -> by (apply Nat.leb_gt; exact Hci). cbn [star_first quirky negb andb].
  cbv zeta. rewrite Hst, Hv. unfold lit_loop.
  assert (Hpv : plain v = true) by (rewrite <- Hv; now apply plain_sdrop).
  fold (lits_of T).
  rewrite (lit_loop_pinned_plain st v (lits_of T) Hpl Hpv). cbn [obind].
  now rewrite (pinned_refuses_shorter_value st v (lits_of T) Hs Hex).
Qed.

(** *** (b) a partially typed value: the loop stops in front of it ... *)
Theorem fixed_partial_stops :
  forall var fuel tabs e T acc word s st ci log,
    var <> Pinned -> strdom var (lits_of T) word -> sorted_desc (lits_of T) ->
    assocN s (t_mlit T) = Some st ->
    (exists id v to, In (id, v) (lits_of T) /\ assocN id st = Some to
                     /\ String.prefix (sdrop ci word) v = true /\ sdrop ci word <> v) ->
    exists m, sw_loop (S fuel) var true tabs e T acc word s ci log = Ok (m, s, ci, log).
Proof.
  intros var fuel tabs e T acc word s st ci log Hvar Hdom Hs Hst Hex.
  rewrite sw_loop_S.
  destruct (Nat.leb (String.length word) ci); [eexists; reflexivity|].
  replace (star_first var true T s) with false by (unfold star_first; cbn [negb]; now rewrite andb_false_r).
  cbv zeta. rewrite Hst. fold (lits_of T).
  rewrite (lit_loop_nonpinned var true st _ (lits_of T) Hvar (strdom_sdrop var _ word ci Hdom)). cbn [obind].
  rewrite (fixed_stops_at_partial st _ (lits_of T) Hs Hex).
  now exists false.
Qed.

(** ... and the completion part offers exactly the level-0 literals of that state that extend the typed word *)
Theorem levels_offer_extensions :
  forall var n tabs e T word s ci log,
    e_ignore_case e = false -> printable_str word = true ->
    t_ccmd T = None ->
    filter (String.prefix word) (map (fun id => (stake ci word ++ literal_at T id)%string) (level_row (t_clit T) 0 s)) <> [] ->
    sw_levels (S n) 0 var tabs e T s (stake ci word) (sdrop ci word) [] [] log
    = Ok (filter (String.prefix word) (map (fun id => (stake ci word ++ literal_at T id)%string) (level_row (t_clit T) 0 s)), log).
Proof.
  intros var n tabs e T word s ci log Hi Hp Hc Hne.
  cbn [sw_levels]. rewrite stake_sdrop.
  replace (if quirky var then @nil string else []) with (@nil string) by (destruct (quirky var); reflexivity).
  cbn [List.app].
  rewrite (match_fn_prefix_filter e word _ Hi Hp). cbn [obind]. rewrite Hc. cbn [obind].
  destruct (filter _ _) eqn:E; [contradiction|reflexivity].
Qed.

(** the offered list, read as values: [pre ++ v] for the level-0 values [v] extending the typed part [p] *)
Lemma offers_as_values (pre p : string) (vals : list string) :
  filter (String.prefix (pre ++ p)) (map (append pre) vals) = map (append pre) (filter (String.prefix p) vals).
Proof.
  induction vals as [|v r IH]; [reflexivity|].
  cbn [map filter]. rewrite prefix_app_same. destruct (String.prefix p v); cbn [map]; now rewrite IH.
Qed.

(** *** the literal prefix piece of the word is consumed first *)
Theorem fixed_piece_consumed :
  forall var fuel complete tabs e T acc word s st ci lid lit to log,
    var <> Pinned -> strdom var (lits_of T) word ->
    assocN s (t_mlit T) = Some st ->
    (forall id l t, In (id, l) (lits_of T) -> assocN id st = Some t -> id = lid /\ l = lit) ->
    In (lid, lit) (lits_of T) -> assocN lid st = Some to ->
    String.prefix lit (sdrop ci word) = true ->
    (ci < String.length word)%nat ->
    star_first var complete T s = false ->
    sw_loop (S fuel) var complete tabs e T acc word s ci log
    = sw_loop fuel var complete tabs e T acc word to (ci + String.length lit) log.
Proof.
  intros var fuel complete tabs e T acc word s st ci lid lit to log Hvar Hdom Hst Hu Hin Ha Hp Hl Hsf.
  rewrite sw_loop_S.
  assert (Nat.leb (String.length word) ci = false) as -> by (apply Nat.leb_gt; lia). rewrite Hsf.
  cbv zeta. rewrite Hst. fold (lits_of T).
  rewrite (lit_loop_nonpinned var complete st _ (lits_of T) Hvar (strdom_sdrop var _ word ci Hdom)).
  now rewrite (fixed_consumes_piece complete st _ (lits_of T) lid lit to Hu Hin Ha Hp).
Qed.
