(** On-the-fly determinisation and the product exploration [explore] are sound. *)
From CG Require Import Base.Prelude Model.Ast Spec.Lang.

(** *** One automaton *)
Section NfaFacts.
  Variable B : Type.
  Variable a : nfa B.
  Hypothesis eqb_spec : forall x y, n_eqb a x y = true <-> x = y.

  (** a set of states accepts a word *)
  Definition sacc (q : list (ns a)) (w : list B) : Prop := exists s, In s q /\ nfa_acc a s w.

  Definition seq_set (p q : list (ns a)) : Prop := forall s, In s p <-> In s q.

  Lemma seq_refl : forall p, seq_set p p.
  Proof. intros p s. tauto. Qed.

  Lemma seq_trans : forall p q r, seq_set p q -> seq_set q r -> seq_set p r.
  Proof. intros p q r H1 H2 s. rewrite (H1 s). apply H2. Qed.

  Lemma seq_sym : forall p q, seq_set p q -> seq_set q p.
  Proof. intros p q H s. symmetry. apply H. Qed.

  Lemma mem_st_spec : forall s l, mem_st B a s l = true <-> In s l.
  Proof.
    intros s l. unfold mem_st. rewrite existsb_exists. split.
    - intros [x [Hin E]]. apply eqb_spec in E. subst. exact Hin.
    - intros Hin. exists s. split; auto. apply eqb_spec. reflexivity.
  Qed.

  Lemma In_dedup : forall l s, In s (dedup a l) <-> In s l.
  Proof.
    induction l as [|x r IH]; simpl; intros s; [tauto|].
    destruct (mem_st B a x r) eqn:E.
    - rewrite IH. split; auto. intros [H|H]; auto. subst. apply mem_st_spec. exact E.
    - simpl. rewrite IH. tauto.
  Qed.

  Lemma incl_b_spec : forall p q, incl_b B a p q = true <-> (forall s, In s p -> In s q).
  Proof.
    intros p q. unfold incl_b. rewrite forallb_forall. split; intros H s Hs.
    - apply mem_st_spec. auto.
    - apply mem_st_spec. auto.
  Qed.

  Lemma set_eqb_spec : forall p q, set_eqb a p q = true <-> seq_set p q.
  Proof.
    intros p q. unfold set_eqb. rewrite andb_true_iff, !incl_b_spec. unfold seq_set.
    split.
    - intros [H1 H2] s. split; auto.
    - intros H. split; intros s; apply H.
  Qed.

  Lemma sacc_seq : forall p q w, seq_set p q -> (sacc p w <-> sacc q w).
  Proof.
    intros p q w H. unfold sacc. split; intros [s [Hs Ha]]; exists s; split; auto; apply H; auto.
  Qed.

  Lemma dstep_In : forall q b s, In s (dstep a q b) <-> exists t, In t q /\ In s (n_delta a t b).
  Proof.
    intros q b s. unfold dstep. rewrite In_dedup, in_flat_map. tauto.
  Qed.

  Lemma dstep_seq : forall p q b, seq_set p q -> seq_set (dstep a p b) (dstep a q b).
  Proof.
    intros p q b H s. rewrite !dstep_In. split; intros [t [Ht Hs]]; exists t; split; auto; apply H; auto.
  Qed.

  Lemma dstep_spec : forall q b w, sacc (dstep a q b) w <-> sacc q (b :: w).
  Proof.
    intros q b w. unfold sacc. split.
    - intros [s [Hs Ha]]. apply dstep_In in Hs. destruct Hs as [t [Ht Hs]].
      exists t. split; auto. simpl. exists s. auto.
    - intros [t [Ht Ha]]. simpl in Ha. destruct Ha as [s [Hs Ha]].
      exists s. split; auto. apply dstep_In. exists t. auto.
  Qed.

  Lemma dfin_spec : forall q, dfin a q = true <-> sacc q [].
  Proof.
    intros q. unfold dfin, sacc. rewrite existsb_exists. simpl. tauto.
  Qed.

  Lemma dfin_seq : forall p q, seq_set p q -> dfin a p = dfin a q.
  Proof.
    intros p q H. apply eq_true_iff_eq. rewrite !dfin_spec. apply sacc_seq. exact H.
  Qed.

  Definition drun (q : list (ns a)) (w : list B) : list (ns a) := fold_left (dstep a) w q.

  Lemma drun_spec : forall w q, dfin a (drun q w) = true <-> sacc q w.
  Proof.
    induction w as [|b w IH]; intros q; simpl.
    - apply dfin_spec.
    - rewrite IH. apply dstep_spec.
  Qed.

  Lemma drun_app : forall u v q, drun q (u ++ v) = drun (drun q u) v.
  Proof. intros. unfold drun. apply fold_left_app. Qed.

  Lemma nfa_lang_sacc : forall w, nfa_lang a w <-> sacc (dedup a (n_init a)) w.
  Proof.
    intros w. unfold nfa_lang, sacc. split; intros [s [Hs Ha]]; exists s; split; auto;
      apply In_dedup; auto.
  Qed.
End NfaFacts.
Arguments sacc {B} a q w.
Arguments seq_set {B} a p q.
Arguments drun {B} a q w.

(** *** Two automata *)
Section ExploreFacts.
  Variable B : Type.
  Variables x y : nfa B.
  Variable letters : list B.
  Hypothesis xeqb : forall s t, n_eqb x s t = true <-> s = t.
  Hypothesis yeqb : forall s t, n_eqb y s t = true <-> s = t.

  Notation pairs := (list (list (ns x) * list (ns y))).

  Definition covered (p : list (ns x)) (q : list (ns y)) (D : pairs) : Prop :=
    exists p' q', In (p', q') D /\ seq_set x p p' /\ seq_set y q q'.

  Definition closed (D : pairs) : Prop :=
    forall p q, In (p, q) D ->
      dfin x p = dfin y q /\
      forall b, In b letters -> covered (dstep x p b) (dstep y q b) D.

  Lemma covered_mono : forall p q D D', (forall d, In d D -> In d D') -> covered p q D -> covered p q D'.
  Proof. intros p q D D' H [p' [q' [Hin [H1 H2]]]]. exists p', q'. auto. Qed.

  Lemma covered_self : forall p q D, In (p, q) D -> covered p q D.
  Proof. intros p q D H. exists p, q. split; auto. split; apply seq_refl. Qed.

  Lemma pair_seen_spec : forall p q D, pair_seen B x y p q D = true <-> covered p q D.
  Proof.
    intros p q D. unfold pair_seen, covered. rewrite existsb_exists. split.
    - intros [[p' q'] [Hin E]]. simpl in E. apply andb_true_iff in E. destruct E as [E1 E2].
      apply (set_eqb_spec B x xeqb) in E1. apply (set_eqb_spec B y yeqb) in E2.
      exists p', q'. auto.
    - intros [p' [q' [Hin [H1 H2]]]]. exists (p', q'). split; auto. simpl.
      apply andb_true_iff. split; [apply (set_eqb_spec B x xeqb)|apply (set_eqb_spec B y yeqb)]; auto.
  Qed.

  (** a closed set of pairs is a bisimulation: covered pairs accept the same words *)
  Lemma closed_equiv : forall D, closed D -> forall w, Forall (fun b => In b letters) w ->
    forall p q, covered p q D -> (sacc x p w <-> sacc y q w).
  Proof.
    intros D HD w Hw. induction Hw as [|b w Hb Hw IH]; intros p q [p' [q' [Hin [H1 H2]]]].
    - rewrite <- !dfin_spec. destruct (HD _ _ Hin) as [E _].
      rewrite (dfin_seq B x p p' H1), (dfin_seq B y q q' H2), E. tauto.
    - rewrite <- (dstep_spec B x xeqb), <- (dstep_spec B y yeqb). apply IH.
      destruct (HD _ _ Hin) as [_ HC]. destruct (HC b Hb) as [p2 [q2 [Hin2 [H3 H4]]]].
      exists p2, q2. split; auto. split.
      + eapply seq_trans; [apply (dstep_seq B x xeqb); exact H1|exact H3].
      + eapply seq_trans; [apply (dstep_seq B y yeqb); exact H2|exact H4].
  Qed.

  Definition qpairs (queue : list (list (ns x) * list (ns y) * list B)) : pairs := map fst queue.

  Definition inv (done : pairs) (queue : list (list (ns x) * list (ns y) * list B)) : Prop :=
    forall p q, In (p, q) done ->
      dfin x p = dfin y q /\
      forall b, In b letters -> covered (dstep x p b) (dstep y q b) (done ++ qpairs queue).

  Lemma explore_equal : forall fuel queue done,
    explore B x y letters fuel queue done = Equal ->
    inv done queue ->
    exists D, (forall d, In d done -> In d D) /\
              (forall p q, In (p, q) (qpairs queue) -> covered p q D) /\
              closed D.
  Proof.
    induction fuel as [|f IH]; intros queue done HE HI; simpl in HE; [discriminate|].
    destruct queue as [|[[p q] w] rest].
    - exists done. split; [auto|]. split; [intros ? ? []|].
      intros p q Hin. destruct (HI _ _ Hin) as [E HC]. split; auto.
      intros b Hb. specialize (HC b Hb). simpl in HC. rewrite app_nil_r in HC. exact HC.
    - destruct (pair_seen B x y p q done) eqn:Seen.
      + apply pair_seen_spec in Seen.
        destruct (IH rest done HE) as [D [HD1 [HD2 HD3]]].
        * intros p1 q1 Hin. destruct (HI _ _ Hin) as [E HC]. split; auto.
          intros b Hb. destruct (HC b Hb) as [p2 [q2 [Hin2 [H1 H2]]]].
          apply in_app_iff in Hin2. destruct Hin2 as [Hin2|Hin2].
          -- exists p2, q2. split; [apply in_app_iff; auto|auto].
          -- simpl in Hin2. destruct Hin2 as [Hin2|Hin2].
             ++ inversion Hin2; subst p2 q2.
                destruct Seen as [p3 [q3 [Hin3 [H3 H4]]]].
                exists p3, q3. split; [apply in_app_iff; auto|].
                split; eapply seq_trans; eauto.
             ++ exists p2, q2. split; [apply in_app_iff; auto|auto].
        * exists D. split; auto. split; auto.
          intros p1 q1 Hin. simpl in Hin. destruct Hin as [Hin|Hin].
          -- inversion Hin; subst. eapply covered_mono; [exact HD1|exact Seen].
          -- apply HD2. exact Hin.
      + destruct (negb (Bool.eqb (dfin x p) (dfin y q))) eqn:Acc; [discriminate|].
        apply negb_false_iff in Acc. apply eqb_prop in Acc.
        set (succs := map (fun b => (dstep x p b, dstep y q b, b :: w)) letters) in *.
        destruct (IH (rest ++ succs) ((p, q) :: done) HE) as [D [HD1 [HD2 HD3]]].
        * intros p1 q1 Hin. simpl in Hin. destruct Hin as [Hin|Hin].
          -- inversion Hin; subst p1 q1. split; auto.
             intros b Hb. apply covered_self. apply in_app_iff. right.
             unfold qpairs. rewrite map_app. apply in_app_iff. right.
             unfold succs. rewrite map_map. simpl. apply in_map_iff. exists b. auto.
          -- destruct (HI _ _ Hin) as [E HC]. split; auto.
             intros b Hb. eapply covered_mono; [|apply (HC b Hb)].
             intros d Hd. apply in_app_iff in Hd. apply in_app_iff.
             destruct Hd as [Hd|Hd]; [left; right; exact Hd|].
             simpl in Hd. destruct Hd as [Hd|Hd]; [left; left; exact Hd|].
             right. unfold qpairs. rewrite map_app. apply in_app_iff. left. exact Hd.
        * exists D. split; [intros d Hd; apply HD1; right; exact Hd|]. split; auto.
          intros p1 q1 Hin. simpl in Hin. destruct Hin as [Hin|Hin].
          -- inversion Hin; subst. apply covered_self. apply HD1. left. reflexivity.
          -- apply HD2. unfold qpairs. rewrite map_app. apply in_app_iff. auto.
  Qed.

  Theorem equiv_nfa_equal : forall fuel,
    equiv_nfa x y letters fuel = Equal ->
    forall w, Forall (fun b => In b letters) w -> (nfa_lang x w <-> nfa_lang y w).
  Proof.
    intros fuel HE w Hw. unfold equiv_nfa in HE.
    destruct (explore_equal _ _ _ HE) as [D [_ [HD2 HD3]]].
    - intros p q [].
    - rewrite (nfa_lang_sacc B x xeqb), (nfa_lang_sacc B y yeqb).
      apply (closed_equiv D HD3 w Hw). apply HD2. simpl. auto.
  Qed.

  (** a distinguishing word really distinguishes *)
  Lemma explore_differ : forall fuel queue done w p0 q0,
    explore B x y letters fuel queue done = Differ w ->
    (forall p q v, In (p, q, v) queue ->
       p = drun x p0 (rev v) /\ q = drun y q0 (rev v) /\ Forall (fun b => In b letters) v) ->
    dfin x (drun x p0 w) <> dfin y (drun y q0 w) /\ Forall (fun b => In b letters) w.
  Proof.
    induction fuel as [|f IH]; intros queue done w p0 q0 HE HQ; simpl in HE; [discriminate|].
    destruct queue as [|[[p q] v] rest]; [discriminate|].
    destruct (pair_seen B x y p q done).
    - apply (IH _ _ _ _ _ HE). intros p1 q1 v1 Hin. apply HQ. right. exact Hin.
    - destruct (negb (Bool.eqb (dfin x p) (dfin y q))) eqn:Acc.
      + inversion HE; subst w. destruct (HQ p q v (or_introl eq_refl)) as [Ep [Eq Hv]].
        subst p q. split.
        * intros E. rewrite E in Acc. rewrite eqb_reflx in Acc. discriminate.
        * apply Forall_rev. exact Hv.
      + apply (IH _ _ _ _ _ HE). intros p1 q1 v1 Hin. apply in_app_iff in Hin.
        destruct Hin as [Hin|Hin]; [apply HQ; right; exact Hin|].
        apply in_map_iff in Hin. destruct Hin as [b [E Hb]]. inversion E; subst.
        destruct (HQ p q v (or_introl eq_refl)) as [Ep [Eq Hv]]. subst p q.
        simpl. rewrite !drun_app. simpl. auto.
  Qed.

  Theorem equiv_nfa_differ : forall fuel w,
    equiv_nfa x y letters fuel = Differ w ->
    ~ (nfa_lang x w <-> nfa_lang y w) /\ Forall (fun b => In b letters) w.
  Proof.
    intros fuel w HE. unfold equiv_nfa in HE.
    destruct (explore_differ _ _ _ _ (dedup x (n_init x)) (dedup y (n_init y)) HE) as [H1 H2].
    - intros p q v [Hin|[]]. inversion Hin; subst. simpl. auto.
    - split; auto. intros H. apply H1. apply eq_true_iff_eq.
      rewrite (drun_spec B x xeqb), (drun_spec B y yeqb).
      rewrite <- (nfa_lang_sacc B x xeqb), <- (nfa_lang_sacc B y yeqb). exact H.
  Qed.
End ExploreFacts.
