(** C04, bash: the WHOLE emitted script is read back by the specification-side reader.

    The script is a sequence of lines.  A line is *local* when what the statement reader makes of it
    does not depend on what follows its newline ([line_sem]); [scan_lines_sem] turns a list of local
    lines into the statements they stand for.  The fixed skeleton is cut into regions (closed
    templates from gen/TplBash.v, concatenated), every region into lines, and every line is
    discharged either by computation (closed lines), by its indentation (deeper than any data
    statement), or by one of the few lemmas about lines that carry the command name. *)
From Coq Require Import DecimalString.
From CG Require Import Base.Prelude Model.Ast Model.Dfa Model.Tpl Model.Quote Model.Tables Model.EmitBash
     Spec.ShellDQ Spec.ScriptRead Proofs.QuoteRT Proofs.BashCodec.
From CGgen Require Import Consts TplBash.
Open Scope N_scope.
Open Scope list_scope.

(** ** lines *)
Fixpoint no_nl (s : string) : bool :=
  match s with
  | EmptyString => true
  | String c t => negb (Ascii.eqb c nl_char) && no_nl t
  end.

Lemma no_nl_app a b : no_nl (append a b) = no_nl a && no_nl b.
Proof. induction a; cbn; [reflexivity | rewrite IHa, andb_assoc; reflexivity]. Qed.

Lemma line_app l rest : no_nl l = true -> line (append l (append nl rest)) = (l, rest).
Proof.
  induction l as [|c l IH]; cbn [append no_nl line]; intros H.
  - change (Ascii.eqb nl_char nl_char) with true. reflexivity.
  - apply andb_prop in H. destruct H as [Hc Hl]. apply negb_true_iff in Hc. rewrite Hc, (IH Hl). reflexivity.
Qed.

Definition unlines (l : list string) : string := sconcat (map (fun x => append x nl) l).

Lemma unlines_app a b : unlines (a ++ b) = append (unlines a) (unlines b).
Proof. unfold unlines. rewrite map_app. apply sconcat_app. Qed.

(** what the reader makes of a line, with nothing after it *)
Definition lift (rest : string) (o : option (stmt * string)) : option (stmt * string) :=
  match o with Some (st, r) => Some (st, append r rest) | None => None end.

Definition line_sem (cmd : string) (l : string) (o : option stmt) : Prop :=
  no_nl l = true
  /\ (forall rest, bash_stmt (append l (append nl rest)) = match o with Some st => Some (st, rest) | None => None end)
  /\ match o with Some (SFunc n) => is_cmd_fn cmd n = false | _ => True end.

Definition stmts_of (os : list (option stmt)) : list stmt :=
  flat_map (fun o => match o with Some st => [st] | None => [] end) os.

Lemma scan_lines_sem cmd ls os :
  Forall2 (line_sem cmd) ls os ->
  forall k rest, scan (List.length ls + k) Bash cmd (append (unlines ls) rest) = stmts_of os ++ scan k Bash cmd rest.
Proof.
  induction 1 as [|l o ls os [Hnl [Hrd Hfn]] _ IH]; intros k rest; [reflexivity|].
  unfold unlines. cbn [map sconcat List.length Nat.add]. rewrite !append_assoc. cbn [scan].
  destruct (l ++ nl ++ sconcat (map (fun x => x ++ nl) ls) ++ rest)%string eqn:E.
  - destruct l; discriminate E.
  - rewrite <- E. change (stmt_of Bash) with bash_stmt. rewrite Hrd. destruct o as [st|].
    + cbn [stmts_of flat_map]. fold (stmts_of os). change (sconcat (map (fun x => x ++ nl) ls))%string with (unlines ls).
      destruct st; try (cbn [app]; f_equal; apply IH). rewrite Hfn. cbn [app]. f_equal. apply IH.
    + rewrite (line_app l _ Hnl). cbn [stmts_of flat_map app]. fold (stmts_of os). apply IH.
Qed.

(** a line indented deeper than four blanks is no data statement, whatever it contains *)
Lemma deep_none x : bash_stmt (append "     " x) = None.
Proof. reflexivity. Qed.

Lemma deep_line_sem cmd x : no_nl x = true -> line_sem cmd (append "     " x) None.
Proof.
  intros H. split; [exact H|]. split; [|exact I]. intros rest. rewrite append_assoc. apply deep_none.
Qed.

(** ** the command name *)
Definition name_ok (command : string) : Prop :=
  command <> EmptyString /\ forallb is_name_char (list_ascii_of_string command) = true.

Lemma name_char_not_nl c : is_name_char c = true -> Ascii.eqb c nl_char = false.
Proof.
  unfold is_name_char. destruct (Ascii.eqb c nl_char); [|reflexivity].
  rewrite orb_true_r. cbn. discriminate.
Qed.

Lemma name_ok_no_nl command : name_ok command -> no_nl command = true.
Proof.
  intros [_ H]. induction command as [|c t IH]; [reflexivity|]. cbn in H. apply andb_prop in H. destruct H as [Hc Ht].
  cbn [no_nl]. rewrite (IH Ht), (name_char_not_nl _ Hc). reflexivity.
Qed.

Lemma take_name_app command c r :
  forallb is_name_char (list_ascii_of_string command) = true -> is_name_char c = false ->
  take_while is_name_char (append command (String c r)) = (command, String c r).
Proof.
  intros H Hc. induction command as [|a t IH]; cbn [append take_while].
  - rewrite Hc. reflexivity.
  - cbn in H. apply andb_prop in H. destruct H as [Ha Ht]. rewrite Ha, (IH Ht). reflexivity.
Qed.

Lemma strip_app_both a b c : strip (append a b) (append a c) = strip b c.
Proof. induction a; cbn; [reflexivity | rewrite Ascii.eqb_refl; exact IHa]. Qed.

(** ** templates as lines *)
Fixpoint split_nl (s : string) : list string :=
  match s with
  | EmptyString => [EmptyString]
  | String c t =>
      let r := split_nl t in
      if Ascii.eqb c nl_char then EmptyString :: r
      else match r with
           | x :: r' => String c x :: r'
           | [] => [String c EmptyString]
           end
  end.

Definition txt (s : string) : list seg := match s with EmptyString => [] | _ => [Text s] end.

Fixpoint tpl_lines_go (cur : list seg) (t : list seg) : list (list seg) :=
  match t with
  | [] => [cur]
  | Hole n :: r => tpl_lines_go (cur ++ [Hole n]) r
  | Text s :: r =>
      match split_nl s with
      | [] => tpl_lines_go cur r
      | [x] => tpl_lines_go (cur ++ txt x) r
      | x :: more => (cur ++ txt x) :: map txt (removelast more) ++ tpl_lines_go (txt (last more EmptyString)) r
      end
  end.

(** the lines of a template that ends with a newline (this function is only used to STATE the
    line decompositions below; each of them is then proved by computation) *)
Definition region_lines (t : list seg) : list (list seg) := removelast (tpl_lines_go [] t).

Definition render_lines (env : list (string * string)) (t : list seg) : list string :=
  map (render env) (region_lines t).

Definition seg_nl : list seg := [Text nl].

Lemma render_app env a b : render env (a ++ b) = append (render env a) (render env b).
Proof.
  induction a as [|[s|n] a IH]; cbn [app render]; [reflexivity | |]; rewrite IH, append_assoc; reflexivity.
Qed.

Definition env_cmd (command : string) : list (string * string) :=
  [("command", command); ("MATCH_FN_NAME", match_fn_name_bash)].

(** *** the generic decomposition of a rendered template into its lines *)
Definition jnl (l : list string) : string := join nl l.

Lemma join_cons2 (x y : string) l : join nl (x :: y :: l) = append x (append nl (join nl (y :: l))).
Proof. reflexivity. Qed.

Lemma split_nl_nonempty s : split_nl s <> [].
Proof.
  destruct s as [|c t]; cbn [split_nl]; [discriminate|]. destruct (Ascii.eqb c nl_char); [discriminate|].
  destruct (split_nl t); discriminate.
Qed.

Lemma join_split_nl s : join nl (split_nl s) = s.
Proof.
  induction s as [|c t IH]; [reflexivity|]. cbn [split_nl].
  destruct (Ascii.eqb_spec c nl_char) as [->|Hne].
  - destruct (split_nl t) as [|y l] eqn:E; [exfalso; exact (split_nl_nonempty t E)|].
    rewrite join_cons2, IH. reflexivity.
  - destruct (split_nl t) as [|y l] eqn:E; [exfalso; exact (split_nl_nonempty t E)|].
    destruct l as [|z l].
    + cbn [join] in *. congruence.
    + rewrite join_cons2 in *. cbn [append]. congruence.
Qed.

Lemma render_txt env x : render env (txt x) = x.
Proof. destruct x; [reflexivity|]. cbn [txt render]. apply QuoteRT.append_nil_r. Qed.

Lemma join_app_ne (a : list string) b0 (b : list string) :
  join nl (a ++ b0 :: b) = append (sconcat (map (fun x => append x nl) a)) (join nl (b0 :: b)).
Proof.
  induction a as [|x a IH]; [reflexivity|]. cbn [app map sconcat].
  destruct (a ++ b0 :: b) as [|y l] eqn:E; [destruct a; discriminate E|].
  rewrite join_cons2, IH, !append_assoc. reflexivity.
Qed.

Lemma tpl_lines_go_nonempty cur t : tpl_lines_go cur t <> [].
Proof.
  revert cur. induction t as [|[s|n] r IH]; intros cur; cbn [tpl_lines_go]; [discriminate | | apply IH].
  destruct (split_nl s) as [|x [|y more]]; [apply IH | apply IH | discriminate].
Qed.

Lemma render_join_lines env t :
  forall cur, join nl (map (render env) (tpl_lines_go cur t)) = append (render env cur) (render env t).
Proof.
  induction t as [|[s|n] r IH]; intros cur.
  - cbn. rewrite QuoteRT.append_nil_r. reflexivity.
  - cbn [tpl_lines_go render]. pose proof (join_split_nl s) as Hs.
    destruct (split_nl s) as [|x [|y more]] eqn:E; [exfalso; exact (split_nl_nonempty s E) | |].
    + cbn [join] in Hs. subst x. rewrite IH, render_app, render_txt, append_assoc. reflexivity.
    + (* at least one newline in s *)
      set (more' := y :: more) in *.
      assert (Hm : more' <> []) by discriminate.
      rewrite (app_removelast_last EmptyString Hm) in Hs.
      destruct (tpl_lines_go (txt (last more' EmptyString)) r) as [|l0 ls] eqn:El;
        [exfalso; exact (tpl_lines_go_nonempty _ _ El)|].
      cbn [map]. rewrite map_app. cbn [map].
      change (render env (cur ++ txt x) :: map (render env) (map txt (removelast more')) ++ render env l0 :: map (render env) ls)
        with ((render env (cur ++ txt x) :: map (render env) (map txt (removelast more'))) ++ render env l0 :: map (render env) ls).
      rewrite join_app_ne.
      change (render env l0 :: map (render env) ls) with (map (render env) (l0 :: ls)). rewrite <- El, IH, render_txt.
      cbn [map sconcat]. rewrite render_app, render_txt.
      rewrite <- Hs. change (x :: removelast more' ++ [last more' EmptyString]) with ((x :: removelast more') ++ [last more' EmptyString]).
      rewrite join_app_ne. cbn [map sconcat join]. rewrite !map_map.
      rewrite (map_ext (fun x0 => render env (txt x0) ++ nl)%string (fun x0 => x0 ++ nl)%string) by (intros; rewrite render_txt; reflexivity).
      rewrite !append_assoc. reflexivity.
  - cbn [tpl_lines_go render]. rewrite IH, render_app. cbn [render]. rewrite QuoteRT.append_nil_r, append_assoc. reflexivity.
Qed.

(** a template whose last line is empty (it ends with a newline) is the [unlines] of its lines *)
Lemma render_region env t :
  last (tpl_lines_go [] t) [Text "x"] = [] ->
  render env t = unlines (render_lines env t).
Proof.
  intros Hl. pose proof (render_join_lines env t []) as H. cbn [render append] in H. rewrite <- H.
  unfold render_lines, region_lines.
  pose proof (tpl_lines_go_nonempty [] t) as Hne.
  rewrite (app_removelast_last [Text "x"] Hne) at 1. rewrite Hl, map_app. cbn [map render].
  rewrite join_app_ne. cbn [join]. rewrite QuoteRT.append_nil_r. reflexivity.
Qed.

(** ** discharging the lines of a region *)
Definition seg_no_nl (env : list (string * string)) (l : list seg) : bool :=
  forallb (fun s => match s with
                    | Text t => no_nl t
                    | Hole n => match assoc n env with Some v => no_nl v | None => false end
                    end) l.

Lemma render_no_nl env l : seg_no_nl env l = true -> no_nl (render env l) = true.
Proof.
  induction l as [|[t|n] l IH]; cbn [seg_no_nl forallb render]; intros H; [reflexivity | |];
    apply andb_prop in H; destruct H as [H1 H2]; rewrite no_nl_app, (IH H2), andb_true_r.
  - exact H1.
  - destruct (assoc n env); [exact H1 | discriminate].
Qed.

Definition is_deep (l : list seg) : bool :=
  match l with Text t :: _ => is_prefix "     " t | _ => false end.

Lemma is_prefix_split p s : is_prefix p s = true -> exists r, s = append p r.
Proof.
  revert s. induction p as [|c p IH]; intros s H; [exists s; reflexivity|].
  destruct s as [|d s]; [discriminate|]. cbn in H. destruct (Ascii.eqb_spec c d); [|discriminate]. subst.
  destruct (IH _ H) as [r ->]. exists r. reflexivity.
Qed.

Lemma deep_render_sem cmd env l :
  is_deep l = true -> seg_no_nl env l = true -> line_sem cmd (render env l) None.
Proof.
  intros Hd Hn. split; [apply render_no_nl; exact Hn|]. split; [|exact I]. intros rest.
  destruct l as [|[t|n] l]; try discriminate. cbn [is_deep] in Hd. destruct (is_prefix_split _ _ Hd) as [r ->].
  cbn [render]. rewrite !append_assoc. apply deep_none.
Qed.

(** a line without holes: what the reader makes of it is computed *)
Definition is_closed (l : list seg) : bool := forallb (fun s => match s with Text _ => true | Hole _ => false end) l.

Lemma closed_render env l : is_closed l = true -> render env l = render [] l.
Proof.
  induction l as [|[t|n] l IH]; cbn [is_closed forallb render]; intros H; [reflexivity | | discriminate].
  rewrite (IH H). reflexivity.
Qed.

Definition closed_outcome (s : string) : option stmt :=
  match bash_stmt (append s nl) with Some (st, _) => Some st | None => None end.

Lemma closed_render_sem cmd env l :
  is_closed l = true -> no_nl (render [] l) = true ->
  (forall rest, bash_stmt (append (render [] l) (append nl rest))
                = match closed_outcome (render [] l) with Some st => Some (st, rest) | None => None end) ->
  match closed_outcome (render [] l) with Some (SFunc _) => False | _ => True end ->
  line_sem cmd (render env l) (closed_outcome (render [] l)).
Proof.
  intros Hc Hn Hrd Hf. rewrite (closed_render env l Hc). split; [exact Hn|]. split; [exact Hrd|].
  destruct (closed_outcome (render [] l)) as [[]|]; try exact I. destruct Hf.
Qed.

Ltac closed_line :=
  apply closed_render_sem; [reflexivity | vm_compute; reflexivity | intro; vm_compute; reflexivity | vm_compute; exact I].

(** lines that carry the command name at statement indentation *)
Lemma is_cmd_fn_suffix cmd suf :
  strip "_cmd_" suf = None -> is_cmd_fn cmd (append "_" (append cmd suf)) = false.
Proof.
  intros H. unfold is_cmd_fn. rewrite <- (append_assoc "_" cmd "_cmd_"), <- (append_assoc "_" cmd suf).
  rewrite strip_app_both, H. reflexivity.
Qed.

Lemma header_sem cmd suf :
  name_ok cmd -> forallb is_name_char (list_ascii_of_string suf) = true -> no_nl suf = true ->
  strip "_cmd_" suf = None ->
  line_sem cmd (append "_" (append cmd (append suf " () {"))) (Some (SFunc (append "_" (append cmd suf)))).
Proof.
  intros Hc Hsuf Hnl Hs. split; [|split].
  - cbn [append no_nl]. rewrite !no_nl_app, (name_ok_no_nl _ Hc), Hnl. reflexivity.
  - intros rest. unfold bash_stmt, bz_stmt. rewrite !append_assoc.
    rewrite alt_skip by reflexivity. rewrite alt_skip by reflexivity. rewrite alt_skip by reflexivity.
    rewrite alt_skip by reflexivity. rewrite alt_skip by reflexivity.
    apply alt_take. erewrite pbind_lit' by reflexivity.
    assert (N1 : name (cmd ++ suf ++ " () {" ++ nl ++ rest)%string = Some (append cmd suf, (" () {" ++ nl ++ rest)%string)).
    { unfold name. rewrite <- append_assoc.
      assert (T : forallb is_name_char (list_ascii_of_string (cmd ++ suf)) = true).
      { destruct Hc as [_ Hc]. clear -Hc Hsuf. induction cmd as [|c t IH]; cbn; [exact Hsuf|].
        cbn in Hc. apply andb_prop in Hc. destruct Hc as [H1 H2]. rewrite H1, (IH H2). reflexivity. }
      change (" () {" ++ nl ++ rest)%string with (String " " ("() {" ++ nl ++ rest))%string.
      rewrite (take_name_app _ " "%char _ T eq_refl).
      destruct Hc as [Hne _]. destruct cmd; [congruence | reflexivity]. }
    rewrite (pbind_some _ _ _ _ _ N1). erewrite pbind_lit' by reflexivity.
    rewrite (pbind_some _ _ _ _ _ (eol_nl rest)). reflexivity.
  - apply is_cmd_fn_suffix. exact Hs.
Qed.

(** ** units: maximal pieces of the skeleton that begin and end at line boundaries *)
Lemma no_nl_uint d : no_nl (NilEmpty.string_of_uint d) = true.
Proof. induction d; cbn; auto. Qed.

Lemma no_nl_sN n : no_nl (sN n) = true.
Proof.
  Transparent sN. unfold sN. destruct (N.to_uint n); try apply no_nl_uint. reflexivity. Opaque sN.
Qed.

Ltac deep_line Hnl :=
  apply deep_render_sem;
  [ reflexivity
  | unfold seg_no_nl, env_cmd; cbn [forallb assoc String.eqb Ascii.eqb Bool.eqb]; rewrite ?Hnl, ?no_nl_sN; reflexivity ].

Ltac region_list R :=
  let L := eval vm_compute in (region_lines R) in change (region_lines R) with L.

(** a unit is scanned: its lines are closed or deep, apart from the ones given first *)
Definition unit_scans_env (command : string) (env : list (string * string)) (u : list seg) (sts : list stmt) : Prop :=
  forall k rest,
    scan (List.length (region_lines u) + k) Bash command (append (render env u) rest)
    = sts ++ scan k Bash command rest.

Definition unit_scans (command : string) (u : list seg) (sts : list stmt) : Prop :=
  unit_scans_env command (env_cmd command) u sts.

Ltac unit_tac cmd Hc Hnl first_lines :=
  unfold unit_scans; intros k rest;
  rewrite render_region by (vm_compute; reflexivity);
  match goal with |- context [render_lines ?E ?R] =>
    replace (List.length (region_lines R)) with (List.length (render_lines E R)) by apply map_length
  end;
  erewrite scan_lines_sem;
  [ | unfold render_lines;
      match goal with |- context [region_lines ?R] => region_list R end;
      cbn [map];
      first_lines;
      repeat (eapply Forall2_cons; [first [closed_line | deep_line Hnl]|]);
      apply Forall2_nil ];
  match goal with |- _ = _ ++ ?T => generalize T; intro end;
  vm_compute; reflexivity.

Section Units.
Variable command : string.
Hypothesis Hc : name_ok command.
Let Hnl := name_ok_no_nl _ Hc.

(** the template without its leading newline *)
Definition drop_nl (t : list seg) : list seg :=
  match t with
  | Text (String c s) :: r => if Ascii.eqb c nl_char then txt s ++ r else t
  | _ => t
  end.

Definition U_sub0 := write_subword_fn_0 ++ seg_nl.
Definition U_sub6 := write_subword_fn_6 ++ seg_nl.
Definition U_sub78 := write_subword_fn_7 ++ write_subword_fn_8 ++ seg_nl ++ seg_nl.

Lemma U_sub0_scans :
  unit_scans command U_sub0
    [SFunc (append "_" (append command "_subword")); SScalar "subword_state" 0; SScalar "char_index" 0; SScalar "matched" 0].
Proof.
  unit_tac command Hc Hnl ltac:(eapply Forall2_cons; [apply (header_sem command "_subword" Hc); reflexivity|]).
Qed.

Lemma U_sub1_scans : unit_scans command write_subword_fn_1 [].
Proof. unit_tac command Hc Hnl idtac. Qed.
Lemma U_sub2_scans : unit_scans command write_subword_fn_2 [].
Proof. unit_tac command Hc Hnl idtac. Qed.
Lemma U_sub3_scans : unit_scans command write_subword_fn_3 [].
Proof. unit_tac command Hc Hnl idtac. Qed.
Lemma U_sub4_scans : unit_scans command write_subword_fn_4 [].
Proof. unit_tac command Hc Hnl idtac. Qed.
Lemma U_sub5_scans : unit_scans command write_subword_fn_5 [SLits "subword_candidates" []; SLits "subword_matches" []].
Proof. unit_tac command Hc Hnl idtac. Qed.
Lemma U_sub6_scans : unit_scans command U_sub6 [].
Proof. unit_tac command Hc Hnl idtac. Qed.
Lemma U_sub78_scans : unit_scans command U_sub78 [SEnd].
Proof. unit_tac command Hc Hnl idtac. Qed.
End Units.

(** ** the remaining lines that carry variable text at statement indentation *)
Ltac nonl H1 H2 :=
  repeat (progress (cbn [append no_nl]; rewrite ?no_nl_app, ?H1, ?H2, ?no_nl_sN)); reflexivity.

Lemma name_chars_app a b :
  forallb is_name_char (list_ascii_of_string a) = true -> forallb is_name_char (list_ascii_of_string b) = true ->
  forallb is_name_char (list_ascii_of_string (append a b)) = true.
Proof. intros Ha Hb. induction a as [|c t IH]; cbn in *; [exact Hb|]. apply andb_prop in Ha. destruct Ha as [H1 H2]. rewrite H1, (IH H2). reflexivity. Qed.

Lemma name_chars_uint d : forallb is_name_char (list_ascii_of_string (NilEmpty.string_of_uint d)) = true.
Proof. induction d; cbn; auto. Qed.

Lemma name_chars_sN n : forallb is_name_char (list_ascii_of_string (sN n)) = true.
Proof. Transparent sN. unfold sN. destruct (N.to_uint n); try apply name_chars_uint. reflexivity. Opaque sN. Qed.

Lemma name_read (v : string) c r :
  v <> EmptyString -> forallb is_name_char (list_ascii_of_string v) = true -> is_name_char c = false ->
  name (append v (String c r)) = Some (v, String c r).
Proof.
  intros Hne Hv Hc. unfold name. rewrite (take_name_app _ _ _ Hv Hc). destruct v; [congruence | reflexivity].
Qed.

(** [    local VAR=N] as it comes out of a template: the hole value is followed by the empty rest of the line *)
Lemma scalar_sem cmd var n :
  var = "max_fallback_level" \/ var = "state" ->
  line_sem cmd (append "    local " (append var (append "=" (append (sN n) EmptyString)))) (Some (SScalar var n)).
Proof.
  intros Hvar. rewrite QuoteRT.append_nil_r. split; [|split; [|exact I]].
  - destruct Hvar as [-> | ->]; nonl no_nl_sN no_nl_sN.
  - intros rest. pose proof (bash_scalar_stmt var n rest Hvar) as H. unfold scalar_line in H.
    rewrite !append_assoc in H. rewrite !append_assoc. exact H.
Qed.

(** complete -o nospace -F _<cmd> <cmd> *)
Lemma register_sem cmd :
  name_ok cmd ->
  line_sem cmd (append "complete -o nospace -F _" (append cmd (append " " (append cmd EmptyString))))
           (Some (SRegister [append "_" cmd; cmd])).
Proof.
  intros [Hne Hc]. pose proof (name_ok_no_nl cmd (conj Hne Hc)) as Hnl. rewrite QuoteRT.append_nil_r.
  split; [|split; [|exact I]].
  - nonl Hnl Hnl.
  - intros rest. unfold bash_stmt, bz_stmt. rewrite !append_assoc.
    do 7 (rewrite alt_skip by reflexivity). apply alt_take.
    change ("complete -o nospace -F _" ++ cmd ++ " " ++ cmd ++ nl ++ rest)%string
      with ("complete -o nospace -F " ++ ("_" ++ cmd) ++ String " " (cmd ++ nl ++ rest))%string.
    rewrite pbind_lit.
    assert (H1 : forallb is_name_char (list_ascii_of_string ("_" ++ cmd)%string) = true) by (cbn; exact Hc).
    rewrite (pbind_some _ _ _ _ _ (name_read ("_" ++ cmd)%string " "%char _ ltac:(discriminate) H1 eq_refl)).
    erewrite pbind_lit' by reflexivity.
    change (cmd ++ nl ++ rest)%string with (cmd ++ String nl_char rest)%string.
    rewrite (pbind_some _ _ _ _ _ (name_read cmd nl_char _ Hne Hc eq_refl)).
    change (String nl_char rest) with (nl ++ rest)%string.
    rewrite (pbind_some _ _ _ _ _ (eol_nl rest)). reflexivity.
Qed.

(** [    _<cmd><suffix> "$1" "$2"]: the call that ends a wrapper *)
Lemma call_sem cmd suf :
  name_ok cmd -> forallb is_name_char (list_ascii_of_string suf) = true -> no_nl suf = true ->
  line_sem cmd (append "    _" (append cmd (append suf (append " ""$1"" ""$2""" EmptyString))))
           (Some (SCall (append "_" (append cmd suf)))).
Proof.
  intros [Hne Hc] Hsuf Hsnl. pose proof (name_ok_no_nl cmd (conj Hne Hc)) as Hnl. rewrite QuoteRT.append_nil_r.
  assert (Hv : forallb is_name_char (list_ascii_of_string (cmd ++ suf)%string) = true) by (apply name_chars_app; assumption).
  assert (Hvne : (cmd ++ suf)%string <> EmptyString) by (destruct cmd; [congruence | discriminate]).
  split; [|split; [|exact I]].
  - nonl Hnl Hsnl.
  - intros rest. unfold bash_stmt, bz_stmt. rewrite !append_assoc.
    set (R := ("""$1"" ""$2""" ++ nl ++ rest)%string).
    assert (E4 : ("    _" ++ cmd ++ suf ++ " ""$1"" ""$2""" ++ nl ++ rest)%string
                 = ("    " ++ ("_" ++ cmd ++ suf) ++ String " " R)%string)
      by (unfold R; rewrite !append_assoc; reflexivity).
    assert (E5 : ("    _" ++ cmd ++ suf ++ " ""$1"" ""$2""" ++ nl ++ rest)%string
                 = ("    _" ++ (cmd ++ suf) ++ String " " R)%string)
      by (unfold R; rewrite !append_assoc; reflexivity).
    do 3 (rewrite alt_skip by reflexivity).
    (* X[s]=... : the name is followed by a blank, not by [ *)
    rewrite alt_skip.
    2:{ rewrite E4. rewrite pbind_lit.
        assert (H1 : forallb is_name_char (list_ascii_of_string ("_" ++ cmd ++ suf)%string) = true) by (cbn; exact Hv).
        rewrite (pbind_some _ _ _ _ _ (name_read ("_" ++ cmd ++ suf)%string " "%char _ ltac:(discriminate) H1 eq_refl)).
        reflexivity. }
    apply alt_take. rewrite E5. rewrite pbind_lit.
    rewrite (pbind_some _ _ _ _ _ (name_read (cmd ++ suf)%string " "%char _ Hvne Hv eq_refl)).
    erewrite pbind_lit' by reflexivity. unfold R. cbv beta.
    match goal with |- context [line ?X] =>
      replace (line X) with ("$1"" ""$2""", rest) by (symmetry; apply (line_app "$1"" ""$2""" rest eq_refl))
    end.
    try rewrite append_assoc. reflexivity.
Qed.

(** the first line of the script *)
Lemma hash_sem cmd x : no_nl x = true -> line_sem cmd (append "# " x) None.
Proof. intros H. split; [exact H|]. split; [|exact I]. intros rest. reflexivity. Qed.

Lemma header_main_sem cmd :
  name_ok cmd -> line_sem cmd (append "_" (append cmd " () {")) (Some (SFunc (append "_" cmd))).
Proof.
  intros Hc. pose proof (header_sem cmd EmptyString Hc eq_refl eq_refl eq_refl) as H.
  cbn [append] in H. rewrite QuoteRT.append_nil_r in H. exact H.
Qed.

(** ** the units of the completion function [_<cmd>] *)
Section MainUnits.
Variable command : string.
Hypothesis Hc : name_ok command.
Let Hnl := name_ok_no_nl _ Hc.

Definition U_head := write_completion_script_0.
Definition U_main_a := write_completion_script_2 ++ write_completion_script_3 ++ seg_nl.
Definition U_main13 := write_completion_script_13 ++ seg_nl.
Definition U_main14 := drop_nl write_completion_script_14 ++ seg_nl.
Definition U_main15 := drop_nl write_completion_script_15 ++ seg_nl.
Definition U_main16 := drop_nl write_completion_script_16.
Definition U_main17 := write_completion_script_17.

Lemma U_head_scans : unit_scans command U_head [].
Proof. unit_tac command Hc Hnl idtac. Qed.

Lemma U_main_a_scans : unit_scans command U_main_a [SFunc (append "_" command)].
Proof.
  unit_tac command Hc Hnl ltac:(eapply Forall2_cons; [apply (header_main_sem command Hc)|]).
Qed.

Definition env_state (start : N) : list (string * string) := ("starting_state", sN start) :: env_cmd command.

Lemma U_main6_scans start :
  unit_scans_env command (env_state start) write_completion_script_6 [SScalar "state" start; SScalar "word_index" 1].
Proof.
  unit_tac command Hc Hnl
    ltac:(eapply Forall2_cons; [closed_line|];
          eapply Forall2_cons; [apply (scalar_sem command "state" start); auto|]).
Qed.

Lemma U_main7_scans : unit_scans command write_completion_script_7 [].
Proof. unit_tac command Hc Hnl idtac. Qed.
Lemma U_main8_scans : unit_scans command write_completion_script_8 [].
Proof. unit_tac command Hc Hnl idtac. Qed.
Lemma U_main9_scans : unit_scans command write_completion_script_9 [].
Proof. unit_tac command Hc Hnl idtac. Qed.
Lemma U_main10_scans : unit_scans command write_completion_script_10 [].
Proof. unit_tac command Hc Hnl idtac. Qed.

Definition env_max (m : N) : list (string * string) := ("max_fallback_level", sN m) :: env_cmd command.

Ltac unit_open :=
  unfold unit_scans, unit_scans_env; intros k rest;
  rewrite render_region by (vm_compute; reflexivity);
  match goal with |- context [render_lines ?E ?R] =>
    replace (List.length (region_lines R)) with (List.length (render_lines E R)) by apply map_length
  end.
Ltac unit_lines :=
  unfold render_lines;
  match goal with |- context [region_lines ?R] => region_list R end;
  cbn [map].
Ltac unit_close :=
  match goal with |- _ = _ ++ ?T => generalize T; intro end; vm_compute; reflexivity.

Lemma U_main13_scans m :
  unit_scans_env command (env_max m) U_main13
    [SLits "candidates" []; SLits "matches" []; SScalar "max_fallback_level" m].
Proof.
  unit_open. erewrite scan_lines_sem.
  2:{ unit_lines.
      repeat (eapply Forall2_cons; [first [closed_line | deep_line Hnl]|]).
      eapply Forall2_cons.
      { unfold env_max; cbn [render assoc String.eqb Ascii.eqb Bool.eqb env_cmd].
        apply (scalar_sem command "max_fallback_level" m); auto. }
      repeat (eapply Forall2_cons; [first [closed_line | deep_line Hnl]|]).
      apply Forall2_nil. }
  unit_close.
Qed.

Lemma U_main17_scans :
  unit_scans command U_main17 [SEnd; SRegister [append "_" command; command]].
Proof.
  unit_open. erewrite scan_lines_sem.
  2:{ unit_lines.
      repeat (eapply Forall2_cons; [first [closed_line | deep_line Hnl]|]).
      eapply Forall2_cons.
      { cbn [render assoc String.eqb Ascii.eqb Bool.eqb env_cmd]. apply (register_sem command Hc). }
      apply Forall2_nil. }
  unit_close.
Qed.

Lemma U_main14_scans : unit_scans command U_main14 [].
Proof. unit_tac command Hc Hnl idtac. Qed.
Lemma U_main15_scans : unit_scans command U_main15 [].
Proof. unit_tac command Hc Hnl idtac. Qed.
Lemma U_main16_scans : unit_scans command U_main16 [].
Proof. unit_tac command Hc Hnl idtac. Qed.
End MainUnits.
