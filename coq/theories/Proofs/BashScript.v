(** C04, bash: the WHOLE emitted script is read back by the specification-side reader.

    The script is a sequence of lines.  A line is *local* when what the statement reader makes of it
    does not depend on what follows its newline ([line_sem]); [scan_lines_sem] turns a list of local
    lines into the statements they stand for.  The fixed skeleton is cut into regions (closed
    templates from gen/TplBash.v, concatenated), every region into lines, and every line is
    discharged either by computation (closed lines), by its indentation (deeper than any data
    statement), or by one of the few lemmas about lines that carry the command name. *)
From Coq Require Import DecimalString.
From CG Require Import Base.Prelude Model.Ast Model.Dfa Model.Tpl Model.Quote Model.Tables Model.EmitBash
     Spec.ShellDQ Spec.ScriptRead Proofs.QuoteRT Proofs.BashCodec.
From CGgen Require Import Consts TplBash.
Open Scope N_scope.
Open Scope list_scope.

(** ** lines *)
Fixpoint no_nl (s : string) : bool :=
  match s with
  | EmptyString => true
  | String c t => negb (Ascii.eqb c nl_char) && no_nl t
  end.

Lemma no_nl_app a b : no_nl (append a b) = no_nl a && no_nl b.
Proof. induction a; cbn; [reflexivity | rewrite IHa, andb_assoc; reflexivity]. Qed.

Lemma line_app l rest : no_nl l = true -> line (append l (append nl rest)) = (l, rest).
Proof.
  induction l as [|c l IH]; cbn [append no_nl line]; intros H.
  - change (Ascii.eqb nl_char nl_char) with true. reflexivity.
  - apply andb_prop in H. destruct H as [Hc Hl]. apply negb_true_iff in Hc. rewrite Hc, (IH Hl). reflexivity.
Qed.

Definition unlines (l : list string) : string := sconcat (map (fun x => append x nl) l).

Lemma unlines_app a b : unlines (a ++ b) = append (unlines a) (unlines b).
Proof. unfold unlines. rewrite map_app. apply sconcat_app. Qed.

(** what the reader makes of a line, with nothing after it *)
Definition lift (rest : string) (o : option (stmt * string)) : option (stmt * string) :=
  match o with Some (st, r) => Some (st, append r rest) | None => None end.

Definition line_sem (cmd : string) (l : string) (o : option stmt) : Prop :=
  no_nl l = true
  /\ (forall rest, bash_stmt (append l (append nl rest)) = match o with Some st => Some (st, rest) | None => None end)
  /\ match o with Some (SFunc n) => is_cmd_fn cmd n = false | _ => True end.

Definition stmts_of (os : list (option stmt)) : list stmt :=
  flat_map (fun o => match o with Some st => [st] | None => [] end) os.

Lemma scan_lines_sem cmd ls os :
  Forall2 (line_sem cmd) ls os ->
  forall k rest, scan (List.length ls + k) Bash cmd (append (unlines ls) rest) = stmts_of os ++ scan k Bash cmd rest.
Proof.
  induction 1 as [|l o ls os [Hnl [Hrd Hfn]] _ IH]; intros k rest; [reflexivity|].
  unfold unlines. cbn [map sconcat List.length Nat.add]. rewrite !append_assoc. cbn [scan].
  destruct (l ++ nl ++ sconcat (map (fun x => x ++ nl) ls) ++ rest)%string eqn:E.
  - destruct l; discriminate E.
  - rewrite <- E. change (stmt_of Bash) with bash_stmt. rewrite Hrd. destruct o as [st|].
    + cbn [stmts_of flat_map]. fold (stmts_of os). change (sconcat (map (fun x => x ++ nl) ls))%string with (unlines ls).
      destruct st; try (cbn [app]; f_equal; apply IH). rewrite Hfn. cbn [app]. f_equal. apply IH.
    + rewrite (line_app l _ Hnl). cbn [stmts_of flat_map app]. fold (stmts_of os). apply IH.
Qed.

(** a line indented deeper than four blanks is no data statement, whatever it contains *)
Lemma deep_none x : bash_stmt (append "     " x) = None.
Proof. reflexivity. Qed.

Lemma deep_line_sem cmd x : no_nl x = true -> line_sem cmd (append "     " x) None.
Proof.
  intros H. split; [exact H|]. split; [|exact I]. intros rest. rewrite append_assoc. apply deep_none.
Qed.

(** ** the command name *)
Definition name_ok (command : string) : Prop :=
  command <> EmptyString /\ forallb is_name_char (list_ascii_of_string command) = true.

Lemma name_char_not_nl c : is_name_char c = true -> Ascii.eqb c nl_char = false.
Proof.
  unfold is_name_char. destruct (Ascii.eqb c nl_char); [|reflexivity].
  rewrite orb_true_r. cbn. discriminate.
Qed.

Lemma name_ok_no_nl command : name_ok command -> no_nl command = true.
Proof.
  intros [_ H]. induction command as [|c t IH]; [reflexivity|]. cbn in H. apply andb_prop in H. destruct H as [Hc Ht].
  cbn [no_nl]. rewrite (IH Ht), (name_char_not_nl _ Hc). reflexivity.
Qed.

Lemma take_name_app command c r :
  forallb is_name_char (list_ascii_of_string command) = true -> is_name_char c = false ->
  take_while is_name_char (append command (String c r)) = (command, String c r).
Proof.
  intros H Hc. induction command as [|a t IH]; cbn [append take_while].
  - rewrite Hc. reflexivity.
  - cbn in H. apply andb_prop in H. destruct H as [Ha Ht]. rewrite Ha, (IH Ht). reflexivity.
Qed.

Lemma strip_app_both a b c : strip (append a b) (append a c) = strip b c.
Proof. induction a; cbn; [reflexivity | rewrite Ascii.eqb_refl; exact IHa]. Qed.
